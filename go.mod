module verif

go 1.23

toolchain go1.23.5

require (
	github.com/smarthome-go/homescript/v3 v3.0.0
	pgregory.net/rapid v1.3.0
)

require (
	github.com/agnivade/levenshtein v1.1.1 // indirect
	github.com/davecgh/go-spew v1.1.1 // indirect
	golang.org/x/text v0.9.0 // indirect
)

replace github.com/smarthome-go/homescript/v3 => /repo
