package hostkit

import (
	"io"
	"log"
	"sort"

	"github.com/smarthome-go/homescript/v3/homescript/analyzer/ast"
	"github.com/smarthome-go/homescript/v3/homescript/fuzzer"

	"verif/sb"
)

// transformOp produces the variants of the entry module the way the fuzz tool chain does, each variant serialised
// with String(): TransformPasses on the analysed entry module; Transform called directly pass after pass; or the
// Generator (`homescript fuzz gen`), which calls Transform itself and hands every new variant to a callback.
func transformOp(req *sb.Request, resp *sb.Response, mods map[string]ast.AnalyzedProgram) *sb.Response {
	passes := req.Passes
	if passes < 1 {
		passes = 1
	}
	var texts []string
	switch req.Via {
	case "transform":
		tr := fuzzer.NewTransformer(req.Seed)
		tree := mods[req.Entry]
		for i := 0; i < passes; i++ {
			tree = tr.Transform(tree)
			texts = append(texts, tree.String())
		}
	case "generator":
		log.SetOutput(io.Discard)
		seen := map[string]bool{}
		g := fuzzer.NewGenerator(mods[req.Entry], func(_ ast.AnalyzedProgram, text string, _ string) error {
			seen[text] = true
			return nil
		}, req.Seed, uint(passes), 4, 12, false, 1)
		g.Gen()
		for t := range seen {
			texts = append(texts, t)
		}
		sort.Strings(texts)
		if len(texts) > 24 {
			texts = texts[:24]
		}
	default:
		tr := fuzzer.NewTransformer(req.Seed)
		for _, v := range tr.TransformPasses(mods[req.Entry], passes) {
			texts = append(texts, v.String())
		}
	}
	for _, v := range texts {
		m := map[string]string{}
		for name, text := range req.Modules {
			m[name] = text
		}
		m[req.Entry] = v
		resp.Variants = append(resp.Variants, m)
	}
	return resp
}
