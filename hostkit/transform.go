package hostkit

import (
	"github.com/smarthome-go/homescript/v3/homescript/analyzer/ast"
	"github.com/smarthome-go/homescript/v3/homescript/fuzzer"

	"verif/sb"
)

// transformOp produces the variants of the entry module the way the fuzz tool chain does:
// TransformPasses on the analysed entry module, each variant serialised with String().
func transformOp(req *sb.Request, resp *sb.Response, mods map[string]ast.AnalyzedProgram) *sb.Response {
	tr := fuzzer.NewTransformer(req.Seed)
	passes := req.Passes
	if passes < 1 {
		passes = 1
	}
	variants := tr.TransformPasses(mods[req.Entry], passes)
	for _, v := range variants {
		m := map[string]string{}
		for name, text := range req.Modules {
			m[name] = text
		}
		m[req.Entry] = v.String()
		resp.Variants = append(resp.Variants, m)
	}
	return resp
}
