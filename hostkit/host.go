package hostkit

import (
	"context"
	"errors"
	"fmt"
	"runtime"
	"sort"
	"sync"
	"sync/atomic"
	"time"

	"github.com/smarthome-go/homescript/v3/homescript"
	"github.com/smarthome-go/homescript/v3/homescript/analyzer"
	"github.com/smarthome-go/homescript/v3/homescript/analyzer/ast"
	herrors "github.com/smarthome-go/homescript/v3/homescript/errors"
	tv "github.com/smarthome-go/homescript/v3/homescript/interpreter/value"
	pAst "github.com/smarthome-go/homescript/v3/homescript/parser/ast"
	vv "github.com/smarthome-go/homescript/v3/homescript/runtime/value"

	"verif/hs"
	"verif/sb"
)

func sortedKeysVM(m map[string]*vv.Value) []string {
	ks := make([]string, 0, len(m))
	for k := range m {
		ks = append(ks, k)
	}
	sort.Strings(ks)
	return ks
}
func sortedKeysTree(m map[string]*tv.Value) []string {
	ks := make([]string, 0, len(m))
	for k := range m {
		ks = append(ks, k)
	}
	sort.Strings(ks)
	return ks
}

// ---------------------------------------------------------------------------------------------
// Poll-counting context: Done() is the poll; cancellation becomes visible at the k-th poll.

var closedChan = func() chan struct{} { c := make(chan struct{}); close(c); return c }()

type PollCtx struct {
	polls      atomic.Int64
	cancelAt   int64
	pollCap    int64
	cancelled  atomic.Bool
	cancelPoll atomic.Int64 // poll number at which cancellation became visible
	open       chan struct{}
	base       int64
	OnCancel   func()
}

func NewPollCtx(cancelAt, pollCap int64) *PollCtx {
	return &PollCtx{cancelAt: cancelAt, pollCap: pollCap, open: make(chan struct{})}
}

func (c *PollCtx) Deadline() (time.Time, bool) { return time.Time{}, false }
func (c *PollCtx) Value(any) any               { return nil }
func (c *PollCtx) Err() error {
	if c.cancelled.Load() {
		return context.Canceled
	}
	return nil
}
func (c *PollCtx) Done() <-chan struct{} {
	n := c.polls.Add(1)
	if !c.cancelled.Load() {
		if (c.cancelAt > 0 && n >= c.cancelAt) || (c.pollCap > 0 && n >= c.pollCap) {
			c.Cancel()
		}
	}
	if c.cancelled.Load() {
		return closedChan
	}
	return c.open
}
func (c *PollCtx) Cancel() {
	if c.cancelled.CompareAndSwap(false, true) {
		c.cancelPoll.Store(c.polls.Load())
		if c.OnCancel != nil {
			c.OnCancel()
		}
	}
}
func (c *PollCtx) Polls() int64 { return c.polls.Load() }

// Arm (re)starts the schedule: cancellation becomes visible at the k-th poll from now on.
func (c *PollCtx) Arm(cancelAt, pollCap int64) {
	c.base = c.polls.Load()
	if cancelAt > 0 {
		c.cancelAt = c.base + cancelAt
	}
	if pollCap > 0 {
		c.pollCap = c.base + pollCap
	}
}

// ---------------------------------------------------------------------------------------------
// Recording host

type Recorder struct {
	mu             sync.Mutex
	Writes         []string
	Triggers       []sb.TriggerCall
	Singletons     []string
	TypeErrors     []string
	writesAtCancel int
	cancelTime     time.Time
	closed         bool
	Late           int
	Yield          bool
	CancelAtWrite  int    // cancel when the n-th write arrives (0 = never)
	CancelFn       func() // what "cancel" means (set by the runner)
}

func (r *Recorder) write(s string) {
	if r.Yield {
		runtime.Gosched()
	}
	r.mu.Lock()
	if r.closed {
		r.Late++
	}
	r.Writes = append(r.Writes, s)
	hit := r.CancelAtWrite > 0 && len(r.Writes) == r.CancelAtWrite && r.CancelFn != nil
	r.mu.Unlock()
	if hit {
		r.CancelFn()
	}
	if r.Yield {
		runtime.Gosched()
	}
}

type Host struct {
	homescript.TestingAnalyzerHost
	Req *sb.Request
	Rec *Recorder
}

var hostFnTypes = map[string]hs.Type{
	"host_int":   hs.TInt,
	"host_float": hs.TFloat,
	"host_bool":  hs.TBool,
	"host_str":   hs.TStr,
	"host_list":  hs.TList(hs.TInt),
	"host_obj":   hs.TObj(hs.Field{Name: "a", T: hs.TInt}, hs.Field{Name: "b", T: hs.TStr}),
	"host_opt":   hs.TOpt(hs.TInt),
}

func (h Host) ResolveCodeModule(name string) (string, bool, error) {
	for _, e := range h.Req.ErrModules {
		if e == name {
			return "", false, errors.New("host error resolving module")
		}
	}
	code, ok := h.Req.Modules[name]
	return code, ok, nil
}

func (h Host) GetBuiltinImport(moduleName, valueName string, span herrors.Span, kind pAst.IMPORT_KIND) (analyzer.BuiltinImport, bool, bool) {
	if moduleName == "host" {
		if kind != pAst.IMPORT_KIND_NORMAL {
			return analyzer.BuiltinImport{}, true, false
		}
		if t, ok := hostFnTypes[valueName]; ok {
			return analyzer.BuiltinImport{Type: ast.NewFunctionType(
				ast.NewNormalFunctionTypeParamKind([]ast.FunctionTypeParam{
					ast.NewFunctionTypeParam(pAst.NewSpannedIdent("x", span), ToAstType(t), nil),
				}), span, ast.NewNullType(span), span)}, true, true
		}
		if valueName == "any_val" {
			return analyzer.BuiltinImport{Type: ast.NewFunctionType(
				ast.NewNormalFunctionTypeParamKind([]ast.FunctionTypeParam{
					ast.NewFunctionTypeParam(pAst.NewSpannedIdent("i", span), ast.NewIntType(span), nil),
				}), span, ast.NewAnyType(span), span)}, true, true
		}
		return analyzer.BuiltinImport{}, true, false
	}
	return h.TestingAnalyzerHost.GetBuiltinImport(moduleName, valueName, span, kind)
}

func (h Host) singleton(module, ident string) (hs.Value, bool) {
	if w, ok := h.Req.Singletons[module+"/"+ident]; ok && w.V != nil {
		return w.V, true
	}
	if w, ok := h.Req.Singletons[ident]; ok && w.V != nil {
		return w.V, true
	}
	return nil, false
}

// ----- VM executor

type VMExec struct {
	homescript.TestingVmExecutor
	H Host
}

func (e VMExec) LoadSingleton(ident, module string) (vv.Value, bool, error) {
	e.H.Rec.mu.Lock()
	e.H.Rec.Singletons = append(e.H.Rec.Singletons, module+"/"+ident)
	e.H.Rec.mu.Unlock()
	if v, ok := e.H.singleton(module, ident); ok {
		return *ToVM(v), true, nil
	}
	return nil, false, nil
}
func (e VMExec) Free() error { return nil }
func (e VMExec) ResolveModuleCode(name string) (string, bool, error) {
	return e.H.ResolveCodeModule(name)
}
func (e VMExec) WriteStringTo(s string) error {
	e.H.Rec.write(s)
	if e.TestingVmExecutor.PrintBuf != nil {
		// the repository's own test host collects the output as well ("the host's output" of C17)
		return e.TestingVmExecutor.WriteStringTo(s)
	}
	return nil
}
func (e VMExec) RegisterTrigger(cb, trig string, span herrors.Span, args []vv.Value) error {
	call := sb.TriggerCall{Callback: cb, Trigger: trig, Span: ToSpan(span)}
	for _, a := range args {
		if a == nil {
			call.Args = append(call.Args, "<nil>")
			continue
		}
		d, i := a.Display()
		if i != nil {
			d = "<display error>"
		}
		call.Args = append(call.Args, d)
	}
	e.H.Rec.mu.Lock()
	e.H.Rec.Triggers = append(e.H.Rec.Triggers, call)
	e.H.Rec.mu.Unlock()
	return nil
}
func (e VMExec) GetBuiltinImport(module, name string) (vv.Value, bool) {
	if module == "host" {
		if t, ok := hostFnTypes[name]; ok {
			rec := e.H.Rec
			return *vv.NewValueBuiltinFunction(func(ex vv.Executor, ctx *context.Context, span herrors.Span, args ...vv.Value) (*vv.Value, *vv.VmInterrupt) {
				if len(args) != 1 {
					rec.typeErr(fmt.Sprintf("%s: got %d args", name, len(args)))
					return vv.NewValueNull(), nil
				}
				mv, ok := FromVM(args[0])
				if !ok || !hs.Conforms(mv, t) {
					rec.typeErr(fmt.Sprintf("%s: argument of dynamic kind %s does not conform to %s", name, kindOfVM(args[0]), t.Canon()))
				}
				d := "<?>"
				if ok {
					d = hs.Display(mv)
				}
				rec.write(name + ":" + d + "\n")
				return vv.NewValueNull(), nil
			}), true
		}
		if name == "any_val" {
			vals := e.H.Req.AnyVals
			return *vv.NewValueBuiltinFunction(func(ex vv.Executor, ctx *context.Context, span herrors.Span, args ...vv.Value) (*vv.Value, *vv.VmInterrupt) {
				i := int(args[0].(vv.ValueInt).Inner)
				if i < 0 || i >= len(vals) {
					return nil, vv.NewVMThrowInterrupt(span, "any_val: bad index")
				}
				return ToVM(vals[i].V), nil
			}), true
		}
		return nil, false
	}
	return e.TestingVmExecutor.GetBuiltinImport(module, name)
}

func kindOfVM(v vv.Value) string {
	if v == nil {
		return "<nil>"
	}
	return v.Kind().String()
}

func (r *Recorder) typeErr(s string) {
	r.mu.Lock()
	r.TypeErrors = append(r.TypeErrors, s)
	r.mu.Unlock()
}

// ----- tree executor

type TreeExec struct {
	H Host
}

func (e TreeExec) GetUser() string { return "verif" }
func (e TreeExec) ResolveModuleCode(name string) (string, bool, error) {
	return e.H.ResolveCodeModule(name)
}
func (e TreeExec) WriteStringTo(s string) error { e.H.Rec.write(s); return nil }
func (e TreeExec) LoadSingleton(ident string, typ ast.Type) (*tv.Value, bool, *tv.Interrupt) {
	e.H.Rec.mu.Lock()
	e.H.Rec.Singletons = append(e.H.Rec.Singletons, "?/"+ident)
	e.H.Rec.mu.Unlock()
	if w, ok := e.H.Req.Singletons[ident]; ok && w.V != nil {
		return ToTree(w.V), true, nil
	}
	// module-qualified keys: the interpreter API does not pass the module; match on suffix
	for k, w := range e.H.Req.Singletons {
		if len(k) > len(ident) && k[len(k)-len(ident)-1:] == "/"+ident && w.V != nil {
			return ToTree(w.V), true, nil
		}
	}
	return nil, false, nil
}
func (e TreeExec) GetBuiltinImport(module, name string) (tv.Value, bool) {
	if module == "host" {
		if t, ok := hostFnTypes[name]; ok {
			rec := e.H.Rec
			return *tv.NewValueBuiltinFunction(func(ex tv.Executor, ctx *context.Context, span herrors.Span, args ...tv.Value) (*tv.Value, *tv.Interrupt) {
				if len(args) != 1 {
					rec.typeErr(fmt.Sprintf("%s: got %d args", name, len(args)))
					return tv.NewValueNull(), nil
				}
				mv, ok := FromTree(args[0])
				if !ok || !hs.Conforms(mv, t) {
					rec.typeErr(fmt.Sprintf("%s: argument does not conform to %s", name, t.Canon()))
				}
				d := "<?>"
				if ok {
					d = hs.Display(mv)
				}
				rec.write(name + ":" + d + "\n")
				return tv.NewValueNull(), nil
			}), true
		}
		if name == "any_val" {
			vals := e.H.Req.AnyVals
			return *tv.NewValueBuiltinFunction(func(ex tv.Executor, ctx *context.Context, span herrors.Span, args ...tv.Value) (*tv.Value, *tv.Interrupt) {
				i := int(args[0].(tv.ValueInt).Inner)
				if i < 0 || i >= len(vals) {
					return nil, tv.NewThrowInterrupt(span, "any_val: bad index")
				}
				return ToTree(vals[i].V), nil
			}), true
		}
		return nil, false
	}
	return homescript.TestingTreeExecutor{Output: new(string)}.GetBuiltinImport(module, name)
}
