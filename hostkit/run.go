package hostkit

import (
	"context"
	"fmt"
	"runtime"
	"sort"
	"strings"
	"sync"
	"time"

	"github.com/smarthome-go/homescript/v3/homescript"
	"github.com/smarthome-go/homescript/v3/homescript/analyzer/ast"
	"github.com/smarthome-go/homescript/v3/homescript/compiler"
	"github.com/smarthome-go/homescript/v3/homescript/diagnostic"
	herrors "github.com/smarthome-go/homescript/v3/homescript/errors"
	tv "github.com/smarthome-go/homescript/v3/homescript/interpreter/value"
	"github.com/smarthome-go/homescript/v3/homescript/lexer"
	"github.com/smarthome-go/homescript/v3/homescript/optimizer"
	hsruntime "github.com/smarthome-go/homescript/v3/homescript/runtime"
	vv "github.com/smarthome-go/homescript/v3/homescript/runtime/value"

	"verif/hs"
	"verif/sb"
)

func firstLine(s string) string {
	if i := strings.IndexByte(s, '\n'); i >= 0 {
		return s[:i]
	}
	return s
}

func levelName(l diagnostic.DiagnosticLevel) string {
	switch l {
	case diagnostic.DiagnosticLevelError:
		return "error"
	case diagnostic.DiagnosticLevelWarning:
		return "warning"
	case diagnostic.DiagnosticLevelInfo:
		return "info"
	default:
		return "hint"
	}
}

func safeRender(f func() string) (ok bool, msg string) {
	defer func() {
		if r := recover(); r != nil {
			ok, msg = false, fmt.Sprint(r)
		}
	}()
	_ = f()
	return true, ""
}

// Analyze runs parse+analysis with the harness host.
func Analyze(req *sb.Request, rec *Recorder) (map[string]ast.AnalyzedProgram, []sb.Diag, []sb.Diag, bool) {
	host := Host{Req: req, Rec: rec}
	mods, diags, syn := homescript.Analyze(
		homescript.InputProgram{ProgramText: req.Modules[req.Entry], Filename: req.Entry},
		homescript.TestingAnalyzerScopeAdditions(), host, !req.NoMain)
	accepted := len(syn) == 0
	var sd, dd []sb.Diag
	textOf := func(file string) (string, bool) {
		t, ok := req.Modules[file]
		return t, ok
	}
	for _, e := range syn {
		d := sb.Diag{Level: "syntax", Message: e.Message, Span: ToSpan(e.Span)}
		if req.WantRender {
			if t, ok := textOf(e.Span.Filename); ok {
				e := e
				d.DisplayOK, d.DisplayErr = safeRender(func() string { return e.Display(t) })
			}
		}
		sd = append(sd, d)
	}
	for _, g := range diags {
		if g.Level == diagnostic.DiagnosticLevelError {
			accepted = false
		}
		d := sb.Diag{Level: levelName(g.Level), Message: g.Message, Span: ToSpan(g.Span)}
		if req.WantRender {
			if t, ok := textOf(g.Span.Filename); ok {
				g := g
				d.DisplayOK, d.DisplayErr = safeRender(func() string { return g.Display(t) })
			}
		}
		dd = append(dd, d)
	}
	return mods, dd, sd, accepted
}

func vmOutcome(i *vv.VmInterrupt) sb.Outcome {
	if i == nil {
		return sb.Outcome{Class: "ok"}
	}
	o := sb.Outcome{FullMessage: (*i).Message(), Message: firstLine((*i).Message())}
	func() {
		defer func() { recover() }()
		o.Span = ToSpan((*i).GetSpan())
		o.HasSpan = true
	}()
	switch x := (*i).(type) {
	case vv.VmFatalException:
		o.Class = "fatal"
		o.Kind = fatalKindNameVM(x.ErrKind)
		_ = x.KindString()
	case vv.Vm_NormalException:
		o.Class = "exception"
	case vv.VmTerminationInterrupt:
		o.Class = "terminated"
	case vv.Vm_ExitInterrupt:
		o.Class = "exit"
	default:
		o.Class = "unknown:" + fmt.Sprintf("%T", x)
	}
	return o
}

// fatalKindNameVM: a host asks the interrupt it received for its kind; a kind without a name is a Go panic in the host
// (finding C02-023: ImportError and JsonError had none), which the sandbox reports as a host crash.
func fatalKindNameVM(k vv.VMFatalExceptionKind) (s string) {
	return k.String()
}

func treeOutcome(i *tv.Interrupt) sb.Outcome {
	if i == nil {
		return sb.Outcome{Class: "ok"}
	}
	o := sb.Outcome{FullMessage: (*i).Message(), Message: firstLine((*i).Message())}
	func() {
		defer func() { recover() }()
		o.Span = ToSpan((*i).GetSpan())
		o.HasSpan = true
	}()
	switch x := (*i).(type) {
	case tv.RuntimeErr:
		o.Class = "fatal"
		o.Kind = x.ErrKind.String()
	case tv.ThrowInterrupt:
		o.Class = "exception"
	case tv.TerminationInterrupt:
		o.Class = "terminated"
	case tv.ExitInterrupt:
		o.Class = "exit"
	default:
		o.Class = "stray:" + (*i).Kind().String()
	}
	return o
}

func residueOf(vm *hsruntime.VM, core *hsruntime.Core) sb.Residue {
	r := sb.Residue{}
	if core != nil {
		r.Stack = len(core.Stack)
		r.CallStack = len(core.CallStack)
		r.CatchLabels = len(core.ExceptionCatchLabels)
		r.MemPtr = core.MemoryPointer
	}
	// cores that are finishing their last quantum may hold the lock for a moment
	r.Cores = -1
	for try := 0; try < 40; try++ {
		if vm.Cores.Lock.TryLock() {
			r.Cores = len(vm.Cores.Cores)
			r.LockFree = true
			vm.Cores.Lock.Unlock()
			break
		}
		time.Sleep(5 * time.Millisecond)
	}
	return r
}

func waitGoroutines(base int) int {
	n := runtime.NumGoroutine()
	for i := 0; i < 60 && n > base; i++ {
		time.Sleep(5 * time.Millisecond)
		n = runtime.NumGoroutine()
	}
	return n
}

// RunVM compiles and runs on the VM as the repository's drivers do: NewVM (runs @init),
// then SpawnAsync(main) + Wait().
func RunVM(req *sb.Request, mods map[string]ast.AnalyzedProgram) (res sb.RunResult) {
	res.Backend = "vm"
	rec := &Recorder{Yield: req.YieldInHost}
	host := Host{Req: req, Rec: rec}
	if req.Optimize {
		mods = optimizeModules(mods)
	}
	comp := compiler.NewCompiler(mods, req.Entry)
	compiled, err := comp.Compile()
	if err != nil {
		res.CompileErr = err.Error()
		return res
	}
	// NewVM runs the initialisation code and documents a panic if that fails, so the cancel
	// schedule starts when NewVM has returned: poll numbers are relative to that moment.
	pctx := NewPollCtx(0, 0)
	pctx.OnCancel = func() {
		rec.mu.Lock()
		rec.writesAtCancel = len(rec.Writes)
		rec.cancelTime = time.Now()
		rec.mu.Unlock()
	}
	var ctx context.Context = pctx
	var cancel context.CancelFunc = pctx.Cancel
	lim := hsruntime.CoreLimits{CallStackMaxSize: req.Limits.Call, StackMaxSize: req.Limits.Stack, MaxMemorySize: req.Limits.Mem}
	res.GoroutinesBefore = runtime.NumGoroutine()

	var vm hsruntime.VM
	var repoBuf string
	var repoMu sync.Mutex
	initPanic := func() (p string) {
		defer func() {
			if r := recover(); r != nil {
				p = fmt.Sprint(r)
			}
		}()
		vm = hsruntime.NewVM(compiled, VMExec{TestingVmExecutor: homescript.TestingVmExecutor{PrintBuf: &repoBuf, PintBufMutex: &repoMu}, H: host}, &ctx, &cancel, homescript.TestingVmScopeAdditions(), lim)
		return ""
	}()
	fill := func() {
		repoMu.Lock()
		res.RepoOutput = repoBuf
		repoMu.Unlock()
		rec.mu.Lock()
		res.Writes = append([]string{}, rec.Writes...)
		res.Triggers = append([]sb.TriggerCall{}, rec.Triggers...)
		res.Singletons = append([]string{}, rec.Singletons...)
		res.HostTypeErrors = append([]string{}, rec.TypeErrors...)
		if pctx.cancelled.Load() {
			res.WritesAfterCancel = len(rec.Writes) - rec.writesAtCancel
		}
		rec.mu.Unlock()
		res.Polls = pctx.Polls() - pctx.base
		if pctx.cancelled.Load() {
			res.PollsAfterCancel = pctx.Polls() - pctx.cancelPoll.Load()
		}
	}
	if initPanic != "" {
		res.InitPanic = initPanic
		res.Outcome = sb.Outcome{Class: "init-panic", Message: firstLine(initPanic)}
		fill()
		return res
	}
	if req.Annotations {
		res.Annotations = evalAnnotations(&vm, compiled)
	}
	pctx.Arm(req.CancelAt, req.PollCap)
	rec.mu.Lock()
	rec.CancelAtWrite, rec.CancelFn = req.CancelAtWrite, pctx.Cancel
	rec.mu.Unlock()
	if req.CancelBeforeStart {
		pctx.Cancel()
	}
	if !req.SkipMain {
		core := vm.SpawnAsync(hsruntime.MainFn(), nil, nil, nil)
		_, i := vm.Wait()
		rec.mu.Lock()
		if !rec.cancelTime.IsZero() {
			res.MsAfterCancel = time.Since(rec.cancelTime).Milliseconds()
		}
		rec.mu.Unlock()
		res.Outcome = vmOutcome(i)
		if i != nil {
			// other cores (possibly including main) may still be inside their last quantum: their
			// fields must not be read from here
			core = nil
		}
		res.Residue = residueOf(&vm, core)
	} else {
		res.Outcome = sb.Outcome{Class: "ok"}
		res.Residue = residueOf(&vm, nil)
	}
	for _, inv := range req.Invocations {
		res.Invs = append(res.Invs, invokeVM(&vm, compiled, rec, inv))
	}
	for k := 0; k < req.RerunCompiled; k++ {
		res.Reruns = append(res.Reruns, rerunCompiled(req, compiled, lim))
	}
	for k := 0; k < req.RecompileAnalysed; k++ {
		comp2 := compiler.NewCompiler(mods, req.Entry)
		again, err := comp2.Compile()
		if err != nil {
			res.Reruns = append(res.Reruns, sb.Rerun{InitPanic: "compile error: " + err.Error()})
			continue
		}
		res.Reruns = append(res.Reruns, rerunCompiled(req, again, lim))
	}
	rec.mu.Lock()
	rec.closed = true
	rec.mu.Unlock()
	res.GoroutinesAfter = waitGoroutines(res.GoroutinesBefore)
	if req.YieldInHost {
		time.Sleep(20 * time.Millisecond)
	}
	fill()
	rec.mu.Lock()
	res.LateWrites = rec.Late
	rec.mu.Unlock()
	return res
}

// evalAnnotations does what the repository's own driver (cmd/testing_run.go) does with the compiled
// annotations: every trigger annotation's hidden argument function is invoked and its result
// rendered; the list is sorted so that map order does not show.
func evalAnnotations(vm *hsruntime.VM, compiled compiler.CompileOutput) []string {
	out := []string{}
	for fn, ann := range compiled.Annotations {
		for idx, item := range ann.Items {
			head := fmt.Sprintf("%s.%s#%d: ", fn.Module, fn.UnmangledFunction, idx)
			switch it := item.(type) {
			case compiler.IdentCompiledAnnotation:
				out = append(out, head+"ident "+it.Ident)
			case compiler.TriggerCompiledAnnotation:
				r := func() (s string) {
					defer func() {
						if p := recover(); p != nil {
							s = "refused: " + firstLine(fmt.Sprint(p))
						}
					}()
					res := vm.SpawnSync(hsruntime.FunctionInvocation{Function: it.ArgumentFunctionIdent, LiteralName: true, Args: []vv.Value{},
						FunctionSignature: hsruntime.FunctionInvocationSignature{Params: []hsruntime.FunctionInvocationSignatureParam{},
							ReturnType: ast.NewListType(ast.NewAnyType(herrors.Span{}), herrors.Span{})}}, nil, nil)
					if res.Exception != nil {
						i := res.Exception.Interrupt
						o := vmOutcome(&i)
						return "exception: " + o.Class + "/" + o.Kind
					}
					d, i := res.ReturnValue.Display()
					if i != nil {
						return "undisplayable"
					}
					return d
				}()
				out = append(out, fmt.Sprintf("%strigger %s %s %s cb=%s", head, it.TriggerConnective, it.TriggerSource, r, it.CallbackFnIdent))
			default:
				out = append(out, head+fmt.Sprintf("%T", item))
			}
		}
	}
	sort.Strings(out)
	return out
}

// rerunCompiled runs the compiled program once more on a fresh VM with a fresh host (what a host does that
// keeps compiled programs around): nothing of an earlier run may show.
func rerunCompiled(req *sb.Request, compiled compiler.CompileOutput, lim hsruntime.CoreLimits) (out sb.Rerun) {
	rec := &Recorder{}
	host := Host{Req: req, Rec: rec}
	pctx := NewPollCtx(0, 0)
	var ctx context.Context = pctx
	var cancel context.CancelFunc = pctx.Cancel
	var vm hsruntime.VM
	out.InitPanic = func() (p string) {
		defer func() {
			if r := recover(); r != nil {
				p = firstLine(fmt.Sprint(r))
			}
		}()
		vm = hsruntime.NewVM(compiled, VMExec{H: host}, &ctx, &cancel, homescript.TestingVmScopeAdditions(), lim)
		return ""
	}()
	if out.InitPanic != "" {
		return out
	}
	pctx.Arm(0, req.PollCap)
	vm.SpawnAsync(hsruntime.MainFn(), nil, nil, nil)
	_, i := vm.Wait()
	out.Outcome = vmOutcome(i)
	rec.mu.Lock()
	rec.closed = true
	out.Writes = append([]string{}, rec.Writes...)
	rec.mu.Unlock()
	return out
}

func invokeVM(vm *hsruntime.VM, compiled compiler.CompileOutput, rec *Recorder, inv sb.Invocation) (out sb.InvResult) {
	rec.mu.Lock()
	w0 := len(rec.Writes)
	rec.mu.Unlock()
	defer func() {
		if r := recover(); r != nil {
			out.Refused = firstLine(fmt.Sprint(r))
		}
		rec.mu.Lock()
		out.Writes = append([]string{}, rec.Writes[w0:]...)
		rec.mu.Unlock()
	}()
	sig := hsruntime.FunctionInvocationSignature{ReturnType: ToAstType(inv.Ret)}
	for i, p := range inv.Params {
		sig.Params = append(sig.Params, hsruntime.FunctionInvocationSignatureParam{Ident: fmt.Sprintf("p%d", i), Type: ToAstType(p)})
	}
	fi := hsruntime.FunctionInvocation{Function: inv.Fn, FunctionSignature: sig}
	for _, a := range inv.Args {
		fi.Args = append(fi.Args, *ToVM(a.V))
	}
	var r hsruntime.FunctionInvocationResult
	var core *hsruntime.Core
	if inv.Async {
		core = vm.SpawnAsync(fi, nil, nil, nil)
		n, i := vm.Wait()
		r = vm.HandleTermination(core, fi, i, n)
		if i != nil {
			core = nil
		}
	} else {
		r = vm.SpawnSync(fi, nil, nil)
	}
	if r.Exception != nil {
		out.Exception = true
		i := r.Exception.Interrupt
		out.Outcome = vmOutcome(&i)
	} else {
		out.Outcome = sb.Outcome{Class: "ok"}
		if r.ReturnValue != nil {
			if mv, ok := FromVM(r.ReturnValue); ok {
				out.Ret = hs.WV{V: mv}
			}
			d, i := r.ReturnValue.Display()
			if i == nil {
				out.RetDisplay = d
			}
		}
	}
	out.Residue = residueOf(vm, core)
	return out
}

func optimizeModules(mods map[string]ast.AnalyzedProgram) map[string]ast.AnalyzedProgram {
	o := optimizer.NewOptimizer()
	out, _ := o.Optimize(mods)
	return out
}

// RunTree runs on the tree-walking interpreter via homescript.Run.
func RunTree(req *sb.Request, mods map[string]ast.AnalyzedProgram) (res sb.RunResult) {
	res.Backend = "tree"
	rec := &Recorder{}
	host := Host{Req: req, Rec: rec}
	if req.Optimize {
		mods = optimizeModules(mods)
	}
	pctx := NewPollCtx(req.CancelAt, req.PollCap)
	pctx.OnCancel = func() {
		rec.mu.Lock()
		rec.writesAtCancel = len(rec.Writes)
		rec.cancelTime = time.Now()
		rec.mu.Unlock()
	}
	var ctx context.Context = pctx
	rec.CancelAtWrite, rec.CancelFn = req.CancelAtWrite, pctx.Cancel
	if req.CancelBeforeStart {
		pctx.Cancel()
	}
	res.GoroutinesBefore = runtime.NumGoroutine()
	i := homescript.Run(req.Limits.TreeCall, mods, req.Entry, TreeExec{H: host}, homescript.TestingInterpreterScopeAdditions(), &ctx)
	res.Outcome = treeOutcome(i)
	rec.mu.Lock()
	if !rec.cancelTime.IsZero() {
		res.MsAfterCancel = time.Since(rec.cancelTime).Milliseconds()
	}
	rec.mu.Unlock()
	res.GoroutinesAfter = waitGoroutines(res.GoroutinesBefore)
	res.Writes = append([]string{}, rec.Writes...)
	res.Singletons = rec.Singletons
	res.HostTypeErrors = rec.TypeErrors
	res.Polls = pctx.Polls()
	if pctx.cancelled.Load() {
		res.PollsAfterCancel = pctx.Polls() - pctx.cancelPoll.Load()
		res.WritesAfterCancel = len(rec.Writes) - rec.writesAtCancel
	}
	return res
}

func runOnce(req *sb.Request) (diags, syn []sb.Diag, accepted bool, names []string, runs []sb.RunResult, mods map[string]ast.AnalyzedProgram) {
	mods, diags, syn, accepted = Analyze(req, &Recorder{})
	for n := range mods {
		names = append(names, n)
	}
	sort.Strings(names)
	if !accepted || req.Op == "analyze" {
		return
	}
	for _, b := range req.Backends {
		// each backend gets a fresh analysis result: the backends must not share mutable trees
		m2, _, _, _ := Analyze(req, &Recorder{})
		switch b {
		case "vm":
			runs = append(runs, RunVM(req, m2))
		case "tree":
			runs = append(runs, RunTree(req, m2))
		}
	}
	return
}

// Execute serves one request in-process. It does not recover from panics: the caller is
// either the sandbox worker (whose death is the crash signal) or an in-process check.
func Execute(req *sb.Request) *sb.Response {
	resp := &sb.Response{ID: req.ID}
	if req.GoMaxProcs > 0 {
		runtime.GOMAXPROCS(req.GoMaxProcs)
	}
	switch req.Op {
	case "ping":
		return resp
	case "lex":
		lx := lexer.NewLexer(req.Modules[req.Entry], req.Entry)
		for n := 0; n < 1<<20; n++ {
			tok, err := lx.NextToken()
			if err != nil {
				resp.SyntaxErrors = append(resp.SyntaxErrors, sb.Diag{Level: "syntax", Message: err.Message, Span: ToSpan(err.Span)})
				break
			}
			resp.Tokens = append(resp.Tokens, sb.Token{Kind: tok.Kind.String(), Value: tok.Value, Span: ToSpan(tok.Span)})
			if tok.Kind == lexer.EOF {
				break
			}
		}
		return resp
	case "run", "analyze":
		reps := req.Rep
		if reps < 1 {
			reps = 1
		}
		for r := 0; r < reps; r++ {
			diags, syn, accepted, names, runs, mods := runOnce(req)
			if r == 0 {
				resp.Diags, resp.SyntaxErrors, resp.Accepted, resp.ModuleNames, resp.Runs = diags, syn, accepted, names, runs
				if req.WantTypes && mods != nil {
					resp.Probes = probeTypes(mods)
				}
			}
			if reps > 1 {
				resp.Reps = append(resp.Reps, sb.RepResult{Diags: diags, SyntaxErrors: syn, Runs: runs})
			}
		}
		return resp
	case "print":
		resp.Texts = map[string]string{}
		switch req.PrintKind {
		case "parsed":
			for name, text := range req.Modules {
				prog, soft, hard := homescript.Parse(text, name)
				if hard != nil || len(soft) > 0 {
					resp.Err = "parse error in " + name
					return resp
				}
				resp.Texts[name] = prog.String()
			}
		case "analyzed":
			mods, diags, syn, accepted := Analyze(req, &Recorder{})
			resp.Diags, resp.SyntaxErrors, resp.Accepted = diags, syn, accepted
			if !accepted {
				return resp
			}
			for name, m := range mods {
				resp.Texts[name] = m.String()
			}
		}
		return resp
	case "transform":
		mods, diags, syn, accepted := Analyze(req, &Recorder{})
		resp.Diags, resp.SyntaxErrors, resp.Accepted = diags, syn, accepted
		if !accepted {
			return resp
		}
		resp.Texts = map[string]string{}
		for name, m := range mods {
			resp.Texts[name] = m.String()
		}
		return transformOp(req, resp, mods)
	}
	resp.Err = "unknown op " + req.Op
	return resp
}

func probeTypes(mods map[string]ast.AnalyzedProgram) []sb.ProbeType {
	var out []sb.ProbeType
	fn := ""
	var walkBlock func(b ast.AnalyzedBlock)
	walkBlock = func(b ast.AnalyzedBlock) {
		for _, s := range b.Statements {
			if l, ok := s.(ast.AnalyzedLetStatement); ok {
				out = append(out, sb.ProbeType{Name: fn + "/" + l.Ident.Ident(), Type: CanonAstType(l.VarType)})
			}
		}
	}
	names := make([]string, 0, len(mods))
	for n := range mods {
		names = append(names, n)
	}
	sort.Strings(names)
	for _, n := range names {
		for _, f := range mods[n].Functions {
			fn = f.Ident.Ident()
			walkBlock(f.Body)
		}
	}
	return out
}

var _ = herrors.Span{}
