package hostkit

import (
	"sort"
	"strings"

	"github.com/smarthome-go/homescript/v3/homescript/analyzer/ast"
)

// CanonAstType renders an analyzer type in the same canonical form as hs.Type.Canon().
func CanonAstType(t ast.Type) string {
	if t == nil {
		return "<nil>"
	}
	switch t := t.(type) {
	case ast.IntType:
		return "int"
	case ast.FloatType:
		return "float"
	case ast.BoolType:
		return "bool"
	case ast.StringType:
		return "str"
	case ast.NullType:
		return "null"
	case ast.RangeType:
		return "range"
	case ast.AnyType:
		return "any"
	case ast.NeverType:
		return "never"
	case ast.UnknownType:
		return "unknown"
	case ast.AnyObjectType:
		return "anyobj"
	case ast.ListType:
		return "[" + CanonAstType(t.Inner) + "]"
	case ast.OptionType:
		return "?" + CanonAstType(t.Inner)
	case ast.ObjectType:
		parts := make([]string, len(t.ObjFields))
		for i, f := range t.ObjFields {
			parts[i] = f.FieldName.Ident() + ":" + CanonAstType(f.Type)
		}
		sort.Strings(parts)
		return "{" + strings.Join(parts, ",") + "}"
	case ast.FunctionType:
		ps := []string{}
		if n, ok := t.Params.(ast.NormalFunctionTypeParamKindIdentifier); ok {
			for _, p := range n.Params {
				if p.IsSingletonExtractor {
					continue
				}
				ps = append(ps, CanonAstType(p.Type))
			}
		} else {
			ps = append(ps, "...")
		}
		return "fn(" + strings.Join(ps, ",") + ")->" + CanonAstType(t.ReturnType)
	}
	return "other:" + t.String()
}
