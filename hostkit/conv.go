// Package hostkit is the harness-owned host: conversions between model values and the two
// runtime value libraries, executors, the poll-counting context and the pipeline runner.
package hostkit

import (
	"fmt"

	"github.com/smarthome-go/homescript/v3/homescript/analyzer/ast"
	herrors "github.com/smarthome-go/homescript/v3/homescript/errors"
	tv "github.com/smarthome-go/homescript/v3/homescript/interpreter/value"
	pAst "github.com/smarthome-go/homescript/v3/homescript/parser/ast"
	vv "github.com/smarthome-go/homescript/v3/homescript/runtime/value"

	"verif/hs"
	"verif/sb"
)

func ToAstType(t hs.Type) ast.Type {
	sp := herrors.Span{}
	switch t.K {
	case hs.KInt:
		return ast.NewIntType(sp)
	case hs.KFloat:
		return ast.NewFloatType(sp)
	case hs.KBool:
		return ast.NewBoolType(sp)
	case hs.KStr:
		return ast.NewStringType(sp)
	case hs.KNull:
		return ast.NewNullType(sp)
	case hs.KRange:
		return ast.NewRangeType(sp)
	case hs.KAny:
		return ast.NewAnyType(sp)
	case hs.KAnyObj:
		return ast.NewAnyObjectType(sp)
	case hs.KList:
		return ast.NewListType(ToAstType(*t.Elem), sp)
	case hs.KOpt:
		return ast.NewOptionType(ToAstType(*t.Elem), sp)
	case hs.KObj:
		fs := make([]ast.ObjectTypeField, len(t.Fields))
		for i, f := range t.Fields {
			fs[i] = ast.NewObjectTypeField(pAst.NewSpannedIdent(f.Name, sp), ToAstType(f.T), sp)
		}
		return ast.NewObjectType(fs, sp)
	case hs.KFn:
		ps := make([]ast.FunctionTypeParam, len(t.Params))
		for i, p := range t.Params {
			ps[i] = ast.NewFunctionTypeParam(pAst.NewSpannedIdent(fmt.Sprintf("p%d", i), sp), ToAstType(p), nil)
		}
		return ast.NewFunctionType(ast.NewNormalFunctionTypeParamKind(ps), sp, ToAstType(*t.Ret), sp)
	case hs.KNever:
		return ast.NewNeverType()
	}
	panic("ToAstType: " + t.Canon())
}

func ToVM(v hs.Value) *vv.Value {
	switch v := v.(type) {
	case hs.IntV:
		return vv.NewValueInt(int64(v))
	case hs.FloatV:
		return vv.NewValueFloat(float64(v))
	case hs.BoolV:
		return vv.NewValueBool(bool(v))
	case hs.StrV:
		return vv.NewValueString(string(v))
	case hs.NullV:
		return vv.NewValueNull()
	case hs.RangeV:
		return vv.NewValueRange(*vv.NewValueInt(v.Start), *vv.NewValueInt(v.End), v.Incl)
	case *hs.ListV:
		es := make([]*vv.Value, len(v.Elems))
		for i, e := range v.Elems {
			es[i] = ToVM(e)
		}
		return vv.NewValueList(es)
	case *hs.ObjV:
		m := map[string]*vv.Value{}
		for k, e := range v.M {
			m[k] = ToVM(e)
		}
		if v.Any {
			return vv.NewValueAnyObject(m)
		}
		return vv.NewValueObject(m)
	case hs.OptV:
		if v.Inner == nil {
			return vv.NewNoneOption()
		}
		return vv.NewValueOption(ToVM(v.Inner))
	}
	panic(fmt.Sprintf("ToVM: %T", v))
}

func ToTree(v hs.Value) *tv.Value {
	switch v := v.(type) {
	case hs.IntV:
		return tv.NewValueInt(int64(v))
	case hs.FloatV:
		return tv.NewValueFloat(float64(v))
	case hs.BoolV:
		return tv.NewValueBool(bool(v))
	case hs.StrV:
		return tv.NewValueString(string(v))
	case hs.NullV:
		return tv.NewValueNull()
	case hs.RangeV:
		return tv.NewValueRange(*tv.NewValueInt(v.Start), *tv.NewValueInt(v.End), v.Incl)
	case *hs.ListV:
		es := make([]*tv.Value, len(v.Elems))
		for i, e := range v.Elems {
			es[i] = ToTree(e)
		}
		return tv.NewValueList(es)
	case *hs.ObjV:
		m := map[string]*tv.Value{}
		for k, e := range v.M {
			m[k] = ToTree(e)
		}
		if v.Any {
			return tv.NewValueAnyObject(m)
		}
		return tv.NewValueObject(m)
	case hs.OptV:
		if v.Inner == nil {
			return tv.NewNoneOption()
		}
		return tv.NewValueOption(ToTree(v.Inner))
	}
	panic(fmt.Sprintf("ToTree: %T", v))
}

// FromVM converts a runtime value to a model value; ok=false if the value has no model
// counterpart (functions, iterators, nil).
func FromVM(v vv.Value) (out hs.Value, ok bool) {
	defer func() {
		if r := recover(); r != nil {
			out, ok = nil, false
		}
	}()
	if v == nil {
		return nil, false
	}
	switch v := v.(type) {
	case vv.ValueInt:
		return hs.IntV(v.Inner), true
	case vv.ValueFloat:
		return hs.FloatV(v.Inner), true
	case vv.ValueBool:
		return hs.BoolV(v.Inner), true
	case vv.ValueString:
		return hs.StrV(v.Inner), true
	case vv.ValueNull:
		return hs.NullV{}, true
	case vv.ValueRange:
		s, ok1 := FromVM(*v.Start)
		e, ok2 := FromVM(*v.End)
		if !ok1 || !ok2 {
			return nil, false
		}
		return hs.RangeV{Start: int64(s.(hs.IntV)), End: int64(e.(hs.IntV)), Incl: v.EndIsInclusive}, true
	case vv.ValueList:
		l := &hs.ListV{}
		for _, e := range *v.Values {
			if e == nil {
				return nil, false
			}
			ev, ok := FromVM(*e)
			if !ok {
				return nil, false
			}
			l.Elems = append(l.Elems, ev)
		}
		return l, true
	case vv.ValueObject:
		o := hs.NewObj(false)
		for _, k := range sortedKeysVM(v.FieldsInternal) {
			ev, ok := FromVM(*v.FieldsInternal[k])
			if !ok {
				return nil, false
			}
			o.Set(k, ev)
		}
		return o, true
	case vv.ValueAnyObject:
		o := hs.NewObj(true)
		for _, k := range sortedKeysVM(v.FieldsInternal) {
			ev, ok := FromVM(*v.FieldsInternal[k])
			if !ok {
				return nil, false
			}
			o.Set(k, ev)
		}
		return o, true
	case vv.ValueOption:
		if v.Inner == nil {
			return hs.OptV{}, true
		}
		iv, ok := FromVM(*v.Inner)
		if !ok {
			return nil, false
		}
		return hs.OptV{Inner: iv}, true
	}
	return nil, false
}

func FromTree(v tv.Value) (out hs.Value, ok bool) {
	defer func() {
		if r := recover(); r != nil {
			out, ok = nil, false
		}
	}()
	if v == nil {
		return nil, false
	}
	switch v := v.(type) {
	case tv.ValueInt:
		return hs.IntV(v.Inner), true
	case tv.ValueFloat:
		return hs.FloatV(v.Inner), true
	case tv.ValueBool:
		return hs.BoolV(v.Inner), true
	case tv.ValueString:
		return hs.StrV(v.Inner), true
	case tv.ValueNull:
		return hs.NullV{}, true
	case tv.ValueRange:
		s, ok1 := FromTree(*v.Start)
		e, ok2 := FromTree(*v.End)
		if !ok1 || !ok2 {
			return nil, false
		}
		return hs.RangeV{Start: int64(s.(hs.IntV)), End: int64(e.(hs.IntV)), Incl: v.EndIsInclusive}, true
	case tv.ValueList:
		l := &hs.ListV{}
		for _, e := range *v.Values {
			if e == nil {
				return nil, false
			}
			ev, ok := FromTree(*e)
			if !ok {
				return nil, false
			}
			l.Elems = append(l.Elems, ev)
		}
		return l, true
	case tv.ValueObject:
		o := hs.NewObj(false)
		for _, k := range sortedKeysTree(v.FieldsInternal) {
			ev, ok := FromTree(*v.FieldsInternal[k])
			if !ok {
				return nil, false
			}
			o.Set(k, ev)
		}
		return o, true
	case tv.ValueAnyObject:
		o := hs.NewObj(true)
		for _, k := range sortedKeysTree(v.FieldsInternal) {
			ev, ok := FromTree(*v.FieldsInternal[k])
			if !ok {
				return nil, false
			}
			o.Set(k, ev)
		}
		return o, true
	case tv.ValueOption:
		if v.Inner == nil {
			return hs.OptV{}, true
		}
		iv, ok := FromTree(*v.Inner)
		if !ok {
			return nil, false
		}
		return hs.OptV{Inner: iv}, true
	}
	return nil, false
}

func ToSpan(s herrors.Span) sb.Span {
	return sb.Span{
		Start:    sb.Pos{Line: s.Start.Line, Column: s.Start.Column, Index: s.Start.Index},
		End:      sb.Pos{Line: s.End.Line, Column: s.End.Column, Index: s.End.Index},
		Filename: s.Filename,
	}
}
