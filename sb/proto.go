// Package sb defines the sandbox protocol between a checking process and the worker process
// that executes repository code, and the client that owns worker lifetime, crashes and hangs.
package sb

import "verif/hs"

type Pos struct {
	Line, Column, Index uint
}
type Span struct {
	Start, End Pos
	Filename   string
}
type Diag struct {
	Level      string // error | warning | hint | syntax
	Message    string
	Span       Span
	DisplayOK  bool   `json:",omitempty"` // rendering against the named file's text returned
	DisplayErr string `json:",omitempty"`
}

type Limits struct {
	Call, Stack, Mem uint // VM CoreLimits
	TreeCall         uint // interpreter call-stack limit
}

func DefaultLimits() Limits { return Limits{Call: 500, Stack: 5000, Mem: 50000, TreeCall: 500} }

type Invocation struct {
	Fn     string
	Args   []hs.WV
	Params []hs.Type // declared parameter types (signature handed to the VM)
	Ret    hs.Type
	Async  bool // SpawnAsync + Wait + HandleTermination instead of SpawnSync
}

type Request struct {
	ID                uint64
	Op                string // run | analyze | print | transform | lex | ping
	Rep               int    `json:",omitempty"` // repeat the whole pipeline Rep times in this process (C14)
	RecompileAnalysed int    `json:",omitempty"` // VM: compile the SAME analysed modules this many more times and run each result (a host may cache analysed programs)
	RerunCompiled     int    `json:",omitempty"` // VM: run the SAME compiled program this many more times on fresh VMs (a host may cache compiled programs)

	Modules map[string]string
	Entry   string
	NoMain  bool `json:",omitempty"` // mainShallExist = false
	// Host module behaviour for names not in Modules: "" → not found; entries in ErrModules → host error.
	ErrModules []string `json:",omitempty"`

	Backends []string // "vm", "tree"
	Limits   Limits
	// Host-provided singleton values: key "module/$Name" or "$Name".
	Singletons   map[string]hs.WV `json:",omitempty"`
	AnyVals      []hs.WV          `json:",omitempty"`
	HostArgTypes bool             `json:",omitempty"`

	CancelAt          int64 `json:",omitempty"` // cancel becomes visible at the k-th poll of the context (0 = never)
	PollCap           int64 `json:",omitempty"` // safety: cancel anyway at this poll count (0 = none)
	CancelBeforeStart bool  `json:",omitempty"` // the host cancels after the VM was created and before main is started
	CancelAtWrite     int   `json:",omitempty"` // the host cancels when it receives the n-th write (i.e. between two polls of the writing core)

	Optimize    bool         `json:",omitempty"`
	SkipMain    bool         `json:",omitempty"` // only initialise (NewVM); used with Invocations
	Annotations bool         `json:",omitempty"` // evaluate the compiled function annotations the way cmd/testing_run.go does (after NewVM, before main)
	Invocations []Invocation `json:",omitempty"`

	// print / transform
	PrintKind string `json:",omitempty"` // "parsed" | "analyzed"
	Seed      int64  `json:",omitempty"`
	Passes    int    `json:",omitempty"`
	// Via: how the transformer is driven: "" = Transformer.TransformPasses; "transform" = Transformer.Transform called
	// directly, pass after pass; "generator" = fuzzer.Generator.Gen (what `homescript fuzz gen` runs)
	Via string `json:",omitempty"`

	WantTypes   bool `json:",omitempty"` // report probe variable types
	WantRender  bool `json:",omitempty"` // render every diagnostic / syntax error against its file
	GoMaxProcs  int  `json:",omitempty"`
	YieldInHost bool `json:",omitempty"` // runtime.Gosched()/short sleeps in host callbacks (C17)
}

type TriggerCall struct {
	Callback, Trigger string
	Args              []string
	Span              Span
}

type InvResult struct {
	Refused    string `json:",omitempty"` // host-boundary refusal (panic text of SpawnSync etc.)
	Exception  bool
	Outcome    Outcome
	Ret        hs.WV
	RetDisplay string
	Writes     []string
	Residue    Residue
}

type Outcome struct {
	Class       string // ok | fatal | terminated | exception | exit
	Kind        string // fatal kind name
	Message     string // first line of message
	FullMessage string `json:",omitempty"`
	Span        Span
	HasSpan     bool
}

type Residue struct {
	Stack, CallStack, CatchLabels, Cores int
	MemPtr                               int64
	LockFree                             bool
}

type RunResult struct {
	Backend                           string
	CompileErr                        string `json:",omitempty"`
	InitPanic                         string `json:",omitempty"`
	Writes                            []string
	Triggers                          []TriggerCall
	Annotations                       []string `json:",omitempty"` // "module.fn: ident" / "module.fn: trigger <connective> <source>(<displayed argument list>)", sorted
	Singletons                        []string
	Outcome                           Outcome
	Polls                             int64
	PollsAfterCancel                  int64
	// RepoOutput: what the repository's own testing host (TestingVmExecutor) collected for the same writes
	RepoOutput        string `json:",omitempty"`
	WritesAfterCancel                 int
	MsAfterCancel                     int64 `json:",omitempty"` // wall time between the cancellation and the return of the run
	Residue                           Residue
	HostTypeErrors                    []string    `json:",omitempty"`
	Invs                              []InvResult `json:",omitempty"`
	GoroutinesBefore, GoroutinesAfter int
	LateWrites                        int     // writes arriving after Wait() returned
	Reruns                            []Rerun `json:",omitempty"` // RerunCompiled: output and outcome of every further run of the same compiled program
}

type Rerun struct {
	Writes    []string
	Outcome   Outcome
	InitPanic string `json:",omitempty"`
}

type ProbeType struct {
	Name, Type string
}

type Response struct {
	ID           uint64
	Err          string `json:",omitempty"` // harness-level error (bad request)
	SyntaxErrors []Diag
	Diags        []Diag
	Accepted     bool // no syntax errors and no error-level diagnostics
	ModuleNames  []string
	Runs         []RunResult         `json:",omitempty"`
	Reps         []RepResult         `json:",omitempty"`
	Texts        map[string]string   `json:",omitempty"` // print / transform output
	Variants     []map[string]string `json:",omitempty"`
	Probes       []ProbeType         `json:",omitempty"`
	Tokens       []Token             `json:",omitempty"`

	// Filled by the client, never by the worker:
	Crash        string `json:",omitempty"` // worker died: signature "panic class @ first repo frame"
	CrashLog     string `json:",omitempty"`
	Hang         bool   `json:",omitempty"`
	Inconclusive bool   `json:",omitempty"`
}

type RepResult struct {
	Diags        []Diag
	SyntaxErrors []Diag
	Runs         []RunResult
}

type Token struct {
	Kind  string
	Value string
	Span  Span
}

func (r *Response) Run(backend string) *RunResult {
	for i := range r.Runs {
		if r.Runs[i].Backend == backend {
			return &r.Runs[i]
		}
	}
	return nil
}

func (r *Response) ErrorDiags() []Diag {
	var out []Diag
	for _, d := range r.Diags {
		if d.Level == "error" {
			out = append(out, d)
		}
	}
	return out
}
