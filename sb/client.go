package sb

import (
	"bufio"
	"bytes"
	"encoding/binary"
	"encoding/json"
	"fmt"
	"io"
	"os"
	"os/exec"
	"regexp"
	"strconv"
	"strings"
	"sync"
	"sync/atomic"
	"time"
)

// Worker is one sandbox child process.
type Worker struct {
	cmd    *exec.Cmd
	reqW   *os.File
	respR  *bufio.Reader
	respF  *os.File
	stderr *tailBuf
	dead   bool
}

type tailBuf struct {
	mu  sync.Mutex
	buf []byte
}

func (t *tailBuf) Write(p []byte) (int, error) {
	t.mu.Lock()
	t.buf = append(t.buf, p...)
	if len(t.buf) > 1<<20 {
		// keep head (panic message) and tail
		head := t.buf[:256<<10]
		tail := t.buf[len(t.buf)-(256<<10):]
		t.buf = append(append([]byte{}, head...), tail...)
	}
	t.mu.Unlock()
	return len(p), nil
}
func (t *tailBuf) String() string {
	t.mu.Lock()
	defer t.mu.Unlock()
	return string(t.buf)
}

// Pool hands out workers; it owns crash and hang handling.
type Pool struct {
	Bin     string
	Race    bool
	Timeout time.Duration
	mu      sync.Mutex
	idle    []*Worker
	nextID  atomic.Uint64
	Env     []string

	Crashes, Hangs, Inconclusive, Requests atomic.Int64
}

func WorkerBin() string {
	if b := os.Getenv("VERIF_WORKER"); b != "" {
		return b
	}
	return "/verif/bin/worker"
}

func NewPool() *Pool {
	return &Pool{Bin: WorkerBin(), Timeout: 20 * time.Second}
}

func (p *Pool) spawn() (*Worker, error) {
	reqR, reqW, err := os.Pipe()
	if err != nil {
		return nil, err
	}
	respR, respW, err := os.Pipe()
	if err != nil {
		return nil, err
	}
	cmd := exec.Command(p.Bin)
	cmd.ExtraFiles = []*os.File{reqR, respW}
	tb := &tailBuf{}
	cmd.Stderr = tb
	cmd.Stdout = nil
	cmd.Env = append(os.Environ(), "GOTRACEBACK=all")
	cmd.Env = append(cmd.Env, p.Env...)
	if err := cmd.Start(); err != nil {
		return nil, err
	}
	reqR.Close()
	respW.Close()
	return &Worker{cmd: cmd, reqW: reqW, respF: respR, respR: bufio.NewReader(respR), stderr: tb}, nil
}

func (w *Worker) kill() {
	if w.dead {
		return
	}
	w.dead = true
	w.cmd.Process.Kill()
	w.reqW.Close()
	w.respF.Close()
	w.cmd.Wait()
}

func (p *Pool) get() (*Worker, error) {
	p.mu.Lock()
	if n := len(p.idle); n > 0 {
		w := p.idle[n-1]
		p.idle = p.idle[:n-1]
		p.mu.Unlock()
		return w, nil
	}
	p.mu.Unlock()
	return p.spawn()
}

func (p *Pool) put(w *Worker) {
	p.mu.Lock()
	p.idle = append(p.idle, w)
	p.mu.Unlock()
}

func (p *Pool) Close() {
	p.mu.Lock()
	for _, w := range p.idle {
		w.kill()
	}
	p.idle = nil
	p.mu.Unlock()
}

type rawResult struct {
	resp *Response
	err  error
}

func (w *Worker) roundTrip(req *Request, timeout time.Duration) (*Response, string) {
	b, err := json.Marshal(req)
	if err != nil {
		panic(err)
	}
	var hdr [4]byte
	binary.LittleEndian.PutUint32(hdr[:], uint32(len(b)))
	ch := make(chan rawResult, 1)
	go func() {
		if _, err := w.reqW.Write(append(hdr[:], b...)); err != nil {
			ch <- rawResult{nil, err}
			return
		}
		var n uint32
		if err := binary.Read(w.respR, binary.LittleEndian, &n); err != nil {
			ch <- rawResult{nil, err}
			return
		}
		buf := make([]byte, n)
		if _, err := io.ReadFull(w.respR, buf); err != nil {
			ch <- rawResult{nil, err}
			return
		}
		var resp Response
		if err := json.Unmarshal(buf, &resp); err != nil {
			ch <- rawResult{nil, fmt.Errorf("bad response: %v", err)}
			return
		}
		ch <- rawResult{&resp, nil}
	}()
	select {
	case r := <-ch:
		if r.err != nil {
			// worker died (EOF) or protocol error
			done := make(chan struct{})
			go func() { w.cmd.Wait(); close(done) }()
			select {
			case <-done:
			case <-time.After(3 * time.Second):
				w.cmd.Process.Kill()
				<-done
			}
			w.dead = true
			w.reqW.Close()
			w.respF.Close()
			return nil, "died"
		}
		return r.resp, ""
	case <-time.After(timeout):
		w.kill()
		return nil, "timeout"
	}
}

var (
	reFrame   = regexp.MustCompile(`(?m)^\s+(/repo/[^\s:]+):(\d+)`)
	reFnFrame = regexp.MustCompile(`(?m)^\s*(github\.com/smarthome-go/homescript/v3/.*)\([^()]*\)$`)
)

// CrashSignature reduces a Go crash report to "<class> @ <first repo function>".
func CrashSignature(log string) string {
	class := "worker exited"
	msg := ""
	if i := strings.Index(log, "fatal error: "); i >= 0 {
		line := log[i:]
		if j := strings.IndexByte(line, '\n'); j >= 0 {
			line = line[:j]
		}
		class = line
	} else if i := strings.Index(log, "panic: "); i >= 0 {
		line := log[i:]
		if j := strings.IndexByte(line, '\n'); j >= 0 {
			line = line[:j]
		}
		msg = line
		class = classifyPanic(line)
	}
	if strings.Contains(log, "DATA RACE") {
		class = "DATA RACE"
		msg = "DATA RACE"
	}
	frame := ""
	// first repo function frame after the panic line
	start := strings.Index(log, msg)
	if start < 0 {
		start = 0
	}
	if m := reFnFrame.FindStringSubmatch(log[start:]); m != nil {
		frame = strings.TrimPrefix(m[1], "github.com/smarthome-go/homescript/v3/homescript/")
	}
	return class + " @ " + frame
}

func classifyPanic(line string) string {
	l := strings.TrimPrefix(line, "panic: ")
	switch {
	case strings.Contains(l, "interface conversion"):
		return "panic: interface conversion"
	case strings.Contains(l, "index out of range"):
		return "panic: index out of range"
	case strings.Contains(l, "slice bounds out of range"):
		return "panic: slice bounds out of range"
	case strings.Contains(l, "nil pointer dereference"):
		return "panic: nil pointer dereference"
	case strings.Contains(l, "integer divide by zero"):
		return "panic: integer divide by zero"
	case strings.Contains(l, "negative shift amount"):
		return "panic: negative shift amount"
	case strings.Contains(l, "makeslice"):
		return "panic: makeslice"
	}
	// explicit panic("...") in repo code: keep a normalised prefix
	if len(l) > 60 {
		l = l[:60]
	}
	l = regexp.MustCompile(`[0-9]+`).ReplaceAllString(l, "N")
	return "panic: " + l
}

// Exec runs one request in the sandbox. Crash and hang come back as ordinary results.
func (p *Pool) Exec(req *Request) *Response {
	req.ID = p.nextID.Add(1)
	p.Requests.Add(1)
	// Every crash or hang costs a worker restart (and, for runaway recursion, seconds of stack growth). Once a
	// process has recorded crashBudget of them the violation is established many times over; the remaining
	// requests are answered "inconclusive" so that a table over 70 000 programs ends in minutes, not hours.
	if n := p.Crashes.Load() + p.Hangs.Load(); n >= crashBudget() {
		p.Inconclusive.Add(1)
		return &Response{ID: req.ID, Inconclusive: true, Err: fmt.Sprintf("skipped: %d crashes/hangs already recorded in this process", n)}
	}
	timeout := p.Timeout
	for attempt := 0; ; attempt++ {
		w, err := p.get()
		if err != nil {
			return &Response{ID: req.ID, Err: "spawn: " + err.Error(), Inconclusive: true}
		}
		if attempt > 0 {
			// isolated re-run: fresh worker
			w.kill()
			w, err = p.spawn()
			if err != nil {
				return &Response{ID: req.ID, Err: "spawn: " + err.Error(), Inconclusive: true}
			}
		}
		resp, fail := w.roundTrip(req, timeout)
		switch fail {
		case "":
			p.put(w)
			return resp
		case "died":
			log := w.stderr.String()
			if strings.Contains(log, "cannot allocate memory") || strings.Contains(log, "out of memory") && !strings.Contains(log, "goroutine stack exceeds") {
				p.Inconclusive.Add(1)
				return &Response{ID: req.ID, Inconclusive: true, CrashLog: tail(log, 4000)}
			}
			p.Crashes.Add(1)
			return &Response{ID: req.ID, Crash: CrashSignature(log), CrashLog: crashExcerpt(log)}
		case "timeout":
			if attempt == 0 {
				timeout *= 2
				continue
			}
			p.Hangs.Add(1)
			return &Response{ID: req.ID, Hang: true}
		}
	}
}

func crashBudget() int64 {
	if v, err := strconv.Atoi(os.Getenv("VERIF_CRASH_BUDGET")); err == nil && v > 0 {
		return int64(v)
	}
	return 60
}

func tail(s string, n int) string {
	if len(s) > n {
		return s[len(s)-n:]
	}
	return s
}

func crashExcerpt(log string) string {
	i := strings.Index(log, "panic: ")
	if j := strings.Index(log, "fatal error: "); j >= 0 && (i < 0 || j < i) {
		i = j
	}
	if i < 0 {
		return tail(log, 3000)
	}
	ex := log[i:]
	if len(ex) > 3000 {
		ex = ex[:3000]
	}
	return ex
}

var _ = bytes.MinRead
