package px

import (
	"runtime"
	"sync"

	"verif/pk"
)

// Parallel runs fn(i) for i in [0,n) on a bounded number of goroutines (fewer per process when the job is sharded).
func Parallel(n int, fn func(i int)) {
	_, shards := pk.Shard()
	workers := runtime.GOMAXPROCS(0)
	if workers > 16 {
		workers = 16
	}
	if shards > 1 {
		workers = (workers + shards - 1) / shards
	}
	if workers < 2 {
		workers = 2
	}
	var wg sync.WaitGroup
	next := make(chan int, 256)
	for w := 0; w < workers; w++ {
		wg.Add(1)
		go func() {
			defer wg.Done()
			for i := range next {
				fn(i)
			}
		}()
	}
	for i := 0; i < n; i++ {
		next <- i
	}
	close(next)
	wg.Wait()
}
