// Package px holds helpers shared by the property packages: the sandbox pool, program cases
// (source text + model expectation) and trace comparison.
package px

import (
	"fmt"
	"regexp"
	"strings"
	"sync"

	"verif/gen"
	"verif/hs"
	"verif/pk"
	"verif/sb"
)

var (
	poolOnce sync.Once
	pool     *sb.Pool
)

func Pool() *sb.Pool {
	poolOnce.Do(func() { pool = sb.NewPool() })
	return pool
}

// Exp is the reference expectation for a program.
type Exp struct {
	Writes   []string
	Triggers []hs.TriggerCall
	Outcome  hs.Outcome
	// Annotations: when not nil, the compiled function annotations are evaluated as well (the way the
	// repository's own driver does) and must equal this sorted list ("module.fn#i: trigger at minute [41] cb=fn").
	Annotations []string `json:",omitempty"`
}

// ProgCase is the replayable unit of all program-level checks.
type ProgCase struct {
	Modules    map[string]string
	Entry      string
	Singletons map[string]hs.WV `json:",omitempty"`
	AnyVals    []hs.WV          `json:",omitempty"`
	Limits     sb.Limits
	Expect     *Exp   `json:",omitempty"`
	Note       string `json:",omitempty"`
}

func FromGenerated(g *gen.Generated) ProgCase {
	c := ProgCase{Modules: map[string]string{}, Entry: g.Prog.Entry, Limits: sb.DefaultLimits()}
	for _, m := range g.Prog.Modules {
		c.Modules[m.Name] = hs.PrintProgramModule(m)
	}
	if len(g.HostSingle) > 0 {
		c.Singletons = map[string]hs.WV{}
		for k, v := range g.HostSingle {
			c.Singletons[k] = hs.WV{V: v}
		}
	}
	return c
}

// Model runs the reference semantics. ok=false when the program leaves the modelled fragment
// or exhausts the evaluator's fuel (such cases are discarded and counted).
func Model(g *gen.Generated) (*hs.Trace, bool) {
	ev := hs.NewEvaluator(g.Prog)
	for k, v := range g.HostSingle {
		ev.HostSingle[k] = v
	}
	ev.Fuel = 200000
	tr := ev.Run()
	if tr.Outcome.Class == "unsupported" || tr.Outcome.Class == "fuel" {
		return tr, false
	}
	return tr, true
}

// TooBig: the reference run shows that the program grows data or runs without bound; such
// programs are not executed at all (they exhaust memory or time, not the property).
func TooBig(tr *hs.Trace) bool {
	return tr.Outcome.Class == "fuel" || strings.Contains(tr.Outcome.Message, "too long for the model")
}

func ExpOf(tr *hs.Trace) *Exp {
	return &Exp{Writes: tr.Writes, Triggers: tr.Triggers, Outcome: tr.Outcome}
}

func (c ProgCase) Request(backends ...string) *sb.Request {
	return &sb.Request{Op: "run", Modules: c.Modules, Entry: c.Entry, Backends: backends, Limits: c.Limits,
		Singletons: c.Singletons, AnyVals: c.AnyVals, PollCap: 3_000_000, Annotations: c.Expect != nil && c.Expect.Annotations != nil}
}

// OutcomeClass maps a backend outcome onto the model's classes.
func OutcomeClass(o sb.Outcome) (class, kind, msg string) {
	switch o.Class {
	case "ok":
		return "ok", "", ""
	case "fatal":
		if o.Kind == "UncaughtThrow" {
			return "throw", "", StripTrace(o)
		}
		return "fatal", o.Kind, ""
	case "exception":
		// an exception reaching the host un-wrapped is still an uncaught throw
		return "throw", "", o.Message
	}
	return o.Class, o.Kind, o.Message
}

var traceRe = regexp.MustCompile(`(?s)\n=+ Stacktrace =+\n.*$`)

// StripTrace returns the uncaught exception's own message: the VM appends a stack trace block to it.
func StripTrace(o sb.Outcome) string {
	m := o.FullMessage
	if m == "" {
		m = o.Message
	}
	return traceRe.ReplaceAllString(m, "")
}

func joinW(w []string) string { return strings.Join(w, "") }

// CompareRun checks one backend run against the expectation. Returns (diffClass, message).
func CompareRun(exp *Exp, run *sb.RunResult) (string, string) {
	if run.CompileErr != "" {
		return "compile-error", run.CompileErr
	}
	if run.InitPanic != "" {
		return "init-panic", run.InitPanic
	}
	cls, kind, msg := OutcomeClass(run.Outcome)
	ew, gw := joinW(exp.Writes), joinW(run.Writes)
	if ew != gw {
		return "writes", fmt.Sprintf("output differs\n  expected: %q\n  got:      %q\n  outcome expected %+v got %s/%s %q", ew, gw, exp.Outcome, cls, kind, run.Outcome.Message)
	}
	if len(exp.Writes) != len(run.Writes) {
		return "write-chunks", fmt.Sprintf("same text but %d writes expected, %d observed", len(exp.Writes), len(run.Writes))
	}
	if cls != exp.Outcome.Class || (cls == "fatal" && kind != exp.Outcome.Kind) {
		return "outcome", fmt.Sprintf("outcome differs: expected %+v, got %s/%s %q", exp.Outcome, cls, kind, run.Outcome.Message)
	}
	if cls == "throw" && msg != exp.Outcome.Message {
		return "throw-message", fmt.Sprintf("uncaught exception message differs: expected %q, got %q", exp.Outcome.Message, msg)
	}
	if exp.Annotations != nil && run.Backend == "vm" && strings.Join(exp.Annotations, "\n") != strings.Join(run.Annotations, "\n") {
		return "annotations", fmt.Sprintf("compiled annotations differ:\n  expected: %q\n  got:      %q", exp.Annotations, run.Annotations)
	}
	if len(exp.Triggers) != len(run.Triggers) {
		return "triggers", fmt.Sprintf("trigger registrations differ: expected %v, got %v", exp.Triggers, run.Triggers)
	}
	for i, t := range exp.Triggers {
		o := run.Triggers[i]
		if t.Callback != o.Callback || t.Trigger != o.Trigger || strings.Join(t.Args, "\x00") != strings.Join(o.Args, "\x00") {
			return "triggers", fmt.Sprintf("trigger %d differs: expected %+v, got %+v", i, t, o)
		}
	}
	return "", ""
}

// SandboxFailure turns crash/hang responses into failures (nil if the response is usable).
func SandboxFailure(sub string, resp *sb.Response) *pk.Failure {
	switch {
	case resp.Crash != "":
		return pk.Failf(sub, "crash: "+resp.Crash, "host process died: %s\n%s", resp.Crash, resp.CrashLog)
	case resp.Hang:
		return pk.Failf(sub, "hang", "no answer within the doubled budget in an isolated worker")
	}
	return nil
}

func ProgText(c ProgCase) string {
	var b strings.Builder
	for n, t := range c.Modules {
		fmt.Fprintf(&b, "// module %s\n%s\n", n, t)
	}
	return b.String()
}
