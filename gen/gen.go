// Package gen holds the rapid generators for model-language programs (hs AST).
package gen

import (
	"fmt"
	"math"
	"sort"

	"pgregory.net/rapid"

	"verif/hs"
)

// Cfg selects the generated language fragment. Flags named Gate* switch off exactly the
// construct that triggers an open known finding (see DESIGN.md §4); they never change an oracle.
type Cfg struct {
	MaxFns     int
	MaxStmts   int // per block
	MaxDepth   int // expression depth
	BlockDepth int // statement nesting depth
	Floats     bool
	Strings    bool
	Unicode    bool // non-ASCII string contents
	Objects    bool
	Options    bool
	Lambdas    bool
	Singletons bool
	Triggers   bool
	Fatal      bool // deliberately failing operations (div by zero, index out of range)
	Throws     bool
	Casts      bool
	Members    bool
	HostFns    bool
	Globals    bool
	// hostile constructs (no reference semantics): wild mode
	Wild bool
	// PrintObjects allows objects (any number of fields) as print arguments and to_string/to_json
	// receivers: their rendering is not documented, so only determinism / agreement can be asked.
	PrintObjects bool
	// Pure: expression operands are side-effect free (no calls of user functions, no statements in
	// value blocks, no throwing try-expressions, no pop); effects happen at statement level only.
	Pure bool
	// SmallNums: numeric literals stay far from overflow / rounding boundaries; the right operand of
	// an integer multiplication is a small non-negative literal (the left one is any pure integer expression).
	SmallNums bool

	// CalmTry: no try statement that diverges on every path (used where the check depends on static types)
	CalmTry bool

	Off map[string]bool // gates: feature names switched off
}

func (c Cfg) off(name string) bool { return c.Off[name] }

func ModelCfg() Cfg {
	return Cfg{MaxFns: 3, MaxStmts: 5, MaxDepth: 3, BlockDepth: 3, Floats: true, Strings: true, Objects: true, Options: true,
		Lambdas: true, Singletons: true, Triggers: true, Fatal: true, Throws: true, Casts: true, Members: true, HostFns: true, Globals: true,
		Off: map[string]bool{}}
}

type varInfo struct {
	name    string
	t       hs.Type
	noWrite bool // loop variables, singleton params, catch vars
	global  bool
}

type fnInfo struct {
	name   string
	params []hs.Type
	ret    hs.Type
	single bool // takes a singleton parameter
	rec    bool // recursive: the first parameter is the recursion depth, callers pass a small literal
}

type G struct {
	t        *rapid.T
	c        Cfg
	scopes   [][]varInfo
	fns      []fnInfo // callable (already generated) functions
	nvar     int
	inLoop   int
	retT     *hs.Type // return type of the current function (nil in lambdas → no return stmt)
	inFn     string
	mod      *hs.Module
	objTs    []hs.Type
	usesHost map[string]bool
	usesTrig bool
	Feat     map[string]int
	budget   int // remaining node budget for the current function
	singles  []hs.Singleton
	hasEvent bool
	inExpr   int            // >0 while generating statements of a block that is an operand of an expression
	inLambda int            // >0 while generating the body of a function literal
	shadowFn map[string]int // functions whose name is currently taken by a local (see callExpr)
}

func (g *G) feat(s string) { g.Feat[s]++ }

func (g *G) intn(label string, lo, hi int) int { return rapid.IntRange(lo, hi).Draw(g.t, label) }
func (g *G) chance(label string, pct int) bool { return rapid.IntRange(0, 99).Draw(g.t, label) < pct }
func (g *G) pick(label string, n int) int      { return rapid.IntRange(0, n-1).Draw(g.t, label) }

var intPool = []int64{
	-9223372036854775808, -9223372036854775807, -4611686018427387904, -4294967296, -65, -64, -63, -2, -1, 0, 1, 2, 3, 7, 10, 62, 63, 64, 65,
	255, 1000, 2147483647, 2147483648, 4294967296, 9007199254740991, 9007199254740992, 9007199254740993, 4611686018427387904,
	9223372036854775806, 9223372036854775807,
}
var floatPool = []float64{0, 0.5, 0.1, 0.25, 1, 1.5, 2, 3.75, 10, 100.125, 0.001, 1234.5678, 1e6, 1e15, 123456789.125}
var strPool = []string{"", "a", "b", "ab", "abc", "hello", "Hello World", "x y", "a,b,c", "0", "42", "true", "tab\there", "nl\nline", "q\"uote", "back\\slash", "it's"}
var uniPool = []string{"é", "ß", "日本", "𝄞", "é", "aé", "ñandú", "e", "\u0301", "\u1100", "\u1161", "a\u030a"} // the last entries compose with a neighbour when concatenated (used only where no reference expectation is needed)

func (g *G) intLit() hs.Expr {
	if g.c.SmallNums {
		return hs.IntLit{V: int64(g.intn("smallNum", -1000, 1000))}
	}
	switch g.pick("intKind", 4) {
	case 0:
		return hs.IntLit{V: intPool[g.pick("intPool", len(intPool))]}
	case 1:
		return hs.IntLit{V: rapid.Int64().Draw(g.t, "int64")}
	default:
		return hs.IntLit{V: int64(g.intn("smallInt", -9, 20))}
	}
}
func (g *G) smallInt(lo, hi int) hs.Expr { return hs.IntLit{V: int64(g.intn("small", lo, hi))} }
func (g *G) floatLit() hs.Expr {
	if g.c.SmallNums {
		pool := []float64{0.5, 1.5, 2, 0.25, 3, 10, 4.75, 100}
		f := pool[g.pick("smallFloat", len(pool))]
		if g.chance("negSF", 25) {
			f = -f
		}
		return hs.FloatLit{V: f}
	}
	f := floatPool[g.pick("floatPool", len(floatPool))]
	if g.chance("negF", 25) {
		f = -f
	}
	if f == 0 { // -0.0 is outside the model
		f = 0
	}
	return hs.FloatLit{V: f}
}
func (g *G) strLit() hs.Expr {
	if g.c.Unicode && g.chance("uni", 20) {
		return hs.StrLit{V: uniPool[g.pick("uniPool", len(uniPool))]}
	}
	return hs.StrLit{V: strPool[g.pick("strPool", len(strPool))]}
}

// ---------------------------------------------------------------------------------------------
// types

func (g *G) scalarType() hs.Type {
	opts := []hs.Type{hs.TInt, hs.TInt, hs.TBool}
	if g.c.Floats {
		opts = append(opts, hs.TFloat)
	}
	if g.c.Strings {
		opts = append(opts, hs.TStr, hs.TStr)
	}
	return opts[g.pick("scalarT", len(opts))]
}

func (g *G) objType() hs.Type {
	if len(g.objTs) > 0 && g.chance("reuseObjT", 70) {
		return g.objTs[g.pick("objT", len(g.objTs))]
	}
	n := g.intn("nFields", 1, 3)
	names := []string{"a", "b", "c", "d"}
	var fs []hs.Field
	for i := 0; i < n; i++ {
		ft := g.scalarType()
		if i == n-1 && g.chance("listField", 20) {
			ft = hs.TList(hs.TInt)
		}
		fs = append(fs, hs.Field{Name: names[i], T: ft})
	}
	t := hs.TObj(fs...)
	g.objTs = append(g.objTs, t)
	return t
}

// valueType draws a type usable for variables, parameters and results.
func (g *G) valueType() hs.Type {
	r := g.pick("typeKind", 100)
	switch {
	case r < 55:
		return g.scalarType()
	case r < 72:
		e := g.scalarType()
		if g.chance("nestedList", 15) {
			e = hs.TList(hs.TInt)
		}
		return hs.TList(e)
	case r < 82 && g.c.Objects:
		return g.objType()
	case r < 92 && g.c.Options:
		return hs.TOpt(g.scalarType())
	case r < 96:
		return hs.TRange
	}
	return g.scalarType()
}

// printable: display is fully specified (no multi-field objects: field order is C14's subject).
var printObjects bool

func printable(t hs.Type) bool {
	switch t.K {
	case hs.KObj:
		if printObjects {
			return true
		}
		return false // the rendering of objects is not documented; observe them through fields
	case hs.KList, hs.KOpt:
		return printable(*t.Elem)
	case hs.KFn, hs.KAny, hs.KAnyObj, hs.KNull, hs.KNever:
		return false
	}
	return true
}

// eqComparable: `==` is generated only where structural equality is unproblematic in the model.
func eqComparable(t hs.Type) bool {
	switch t.K {
	case hs.KInt, hs.KBool, hs.KStr, hs.KFloat:
		return true
	case hs.KList, hs.KOpt:
		return eqComparable(*t.Elem)
	}
	return false
}

// ---------------------------------------------------------------------------------------------
// scopes

func (g *G) push() { g.scopes = append(g.scopes, nil) }
func (g *G) pop()  { g.scopes = g.scopes[:len(g.scopes)-1] }
func (g *G) declare(v varInfo) {
	g.scopes[len(g.scopes)-1] = append(g.scopes[len(g.scopes)-1], v)
}
func (g *G) fresh(prefix string) string {
	g.nvar++
	return fmt.Sprintf("%s%d", prefix, g.nvar)
}

// visible returns the variables visible now (inner shadows outer).
func (g *G) visible() []varInfo {
	seen := map[string]bool{}
	var out []varInfo
	for i := len(g.scopes) - 1; i >= 0; i-- {
		for j := len(g.scopes[i]) - 1; j >= 0; j-- {
			v := g.scopes[i][j]
			if !seen[v.name] {
				seen[v.name] = true
				out = append(out, v)
			}
		}
	}
	sort.SliceStable(out, func(a, b int) bool { return out[a].name < out[b].name })
	return out
}

func (g *G) varsOf(t hs.Type, writable bool) []varInfo {
	var out []varInfo
	for _, v := range g.visible() {
		if v.t.Equal(t) && (!writable || !v.noWrite) {
			out = append(out, v)
		}
	}
	return out
}

// ---------------------------------------------------------------------------------------------
// expressions

func (g *G) expr(t hs.Type, d int) hs.Expr {
	g.budget--
	if d <= 0 || g.budget <= 0 {
		return g.leaf(t)
	}
	switch t.K {
	case hs.KInt:
		return g.intExpr(d)
	case hs.KFloat:
		return g.floatExpr(d)
	case hs.KBool:
		return g.boolExpr(d)
	case hs.KStr:
		return g.strExpr(d)
	case hs.KList:
		return g.listExpr(t, d)
	case hs.KObj:
		return g.objExpr(t, d)
	case hs.KOpt:
		return g.optExpr(t, d)
	case hs.KRange:
		return g.rangeExpr(d)
	}
	return g.leaf(t)
}

func (g *G) varRef(t hs.Type) (hs.Expr, bool) {
	vs := g.varsOf(t, false)
	if len(vs) == 0 {
		return nil, false
	}
	v := vs[g.pick("var", len(vs))]
	g.feat("var-read")
	return hs.Ident{Name: v.name, T: v.t}, true
}

func (g *G) leaf(t hs.Type) hs.Expr {
	if g.chance("leafVar", 55) {
		if e, ok := g.varRef(t); ok {
			return e
		}
	}
	return g.literal(t)
}

func (g *G) literal(t hs.Type) hs.Expr {
	switch t.K {
	case hs.KInt:
		return g.intLit()
	case hs.KFloat:
		return g.floatLit()
	case hs.KBool:
		return hs.BoolLit{V: g.chance("boolLit", 50)}
	case hs.KStr:
		return g.strLit()
	case hs.KNull:
		return hs.NullLit{}
	case hs.KRange:
		if g.chance("rangeAtExtreme", 8) {
			// a range that ends (or starts) at the largest / smallest integer: the bound arithmetic of an iterator
			// has nowhere to go there
			d := int64(g.intn("rlenExtreme", 0, 4))
			incl := g.chance("incl", 40)
			switch g.pick("rangeExtremeForm", 4) {
			case 0:
				return hs.RangeLit{Lo: hs.IntLit{V: math.MaxInt64 - d}, Hi: hs.IntLit{V: math.MaxInt64}, Incl: incl}
			case 1:
				return hs.RangeLit{Lo: hs.IntLit{V: math.MinInt64 + d}, Hi: hs.IntLit{V: math.MinInt64}, Incl: incl}
			case 2:
				return hs.RangeLit{Lo: hs.IntLit{V: math.MaxInt64}, Hi: hs.IntLit{V: math.MaxInt64 - d}, Incl: incl}
			default:
				return hs.RangeLit{Lo: hs.IntLit{V: math.MinInt64}, Hi: hs.IntLit{V: math.MinInt64 + d}, Incl: incl}
			}
		}
		lo := g.intn("rlo", -2, 3)
		return hs.RangeLit{Lo: hs.IntLit{V: int64(lo)}, Hi: hs.IntLit{V: int64(lo + g.intn("rlen", -3, 4))}, Incl: g.chance("incl", 25)}
	case hs.KList:
		n := g.intn("listLen", 1, 4)
		l := hs.ListLit{T: t}
		for i := 0; i < n; i++ {
			l.Elems = append(l.Elems, g.literal(*t.Elem))
		}
		return l
	case hs.KObj:
		o := hs.ObjLit{T: t}
		for _, f := range t.Fields {
			o.Keys = append(o.Keys, f.Name)
			o.Vals = append(o.Vals, g.literal(f.T))
		}
		return o
	case hs.KOpt:
		return hs.Prefix{Op: "?", X: g.literal(*t.Elem), T: t}
	case hs.KAnyObj:
		return hs.AnyObjLit{}
	}
	panic("literal of " + t.Canon())
}

// common typed forms available for every type: call, index, field, if, match, block, try
func (g *G) generic(t hs.Type, d int) (hs.Expr, bool) {
	sel := g.pick("generic", 12)
	if g.c.Pure {
		switch sel {
		case 0, 1, 7, 9, 10:
			return nil, false
		}
	}
	switch sel {
	case 0, 1:
		if e, ok := g.callExpr(t, d); ok {
			return e, true
		}
	case 2:
		if e, ok := g.indexExpr(t, d); ok {
			return e, true
		}
	case 3:
		if e, ok := g.fieldExpr(t); ok {
			return e, true
		}
	case 4:
		return g.ifExpr(t, d), true
	case 5:
		if !g.c.off("match-expr") {
			return g.matchExpr(t, d), true
		}
	case 6:
		return g.blockExpr(t, d), true
	case 7:
		if g.c.Throws && !g.c.off("try-expr") {
			return g.tryExpr(t, d), true
		}
	case 8:
		if g.c.Options && g.c.Members && t.IsScalar() && t.K != hs.KNull {
			// opt.unwrap_or(default)
			ot := hs.TOpt(t)
			return hs.Call{Fn: hs.Member{X: g.expr(ot, d-1), Name: "unwrap_or", T: hs.TFn(t, t)}, Args: []hs.Expr{g.expr(t, d-1)}, T: t}, true
		}
	case 9:
		if g.c.Lambdas && !g.c.off("lambda") && t.IsScalar() {
			return g.lambdaCall(t, d), true
		}
	case 10:
		if g.c.Wild && g.c.Options && t.IsScalar() && t.K != hs.KNull {
			ot := hs.TOpt(t)
			var recv hs.Expr = g.expr(ot, d-1)
			if g.chance("wildNone", 30) {
				// a none of the right type: the result of popping an empty list literal variable is not
				// available here, so go through unwrap on an annotated let elsewhere; use last() of an empty slice
				recv = hs.Call{Fn: hs.Member{X: hs.Call{Fn: hs.Member{X: hs.StrLit{V: ""}, Name: "split", T: hs.TFn(hs.TList(hs.TStr), hs.TStr)}, Args: []hs.Expr{hs.StrLit{V: ","}}, T: hs.TList(hs.TStr)}, Name: "pop", T: hs.TFn(hs.TOpt(hs.TStr))}, T: hs.TOpt(hs.TStr)}
				if t.K != hs.KStr {
					recv = g.expr(ot, d-1)
				}
			}
			if g.chance("expect", 40) {
				return hs.Call{Fn: hs.Member{X: recv, Name: "expect", T: hs.TFn(t, hs.TStr)}, Args: []hs.Expr{g.strLit()}, T: t}, true
			}
			return hs.Call{Fn: hs.Member{X: recv, Name: "unwrap", T: hs.TFn(t)}, T: t}, true
		}
	case 11:
		if g.c.Wild && g.c.Strings && t.K == hs.KStr {
			s := append(append([]string{}, uniPool...), "", "a")[g.pick("wildIdxStr", len(uniPool)+2)]
			return hs.Index{X: hs.StrLit{V: s}, I: hs.IntLit{V: int64(g.intn("wildStrIdx", -4, 4))}, T: hs.TStr}, true
		}
	}
	return nil, false
}

func (g *G) intExpr(d int) hs.Expr {
	if e, ok := g.generic(hs.TInt, d); ok {
		return e
	}
	switch g.pick("intForm", 12) {
	case 0, 1, 2, 3:
		ops := []string{"+", "-", "*", "+", "-", "*", "/", "%", "&", "|", "^", "<<", ">>", "**"}
		op := ops[g.pick("intOp", len(ops))]
		l := g.expr(hs.TInt, d-1)
		var r hs.Expr
		switch op {
		case "/", "%":
			if g.c.Wild && g.chance("wildDiv", 40) {
				r = g.wildInt()
			} else if g.c.Fatal && g.chance("divZero", 2) && !(op == "%" && g.c.off("mod-zero")) {
				r = hs.IntLit{V: 0}
				g.feat("div-zero")
			} else {
				r = g.nonZeroInt()
			}
		case "<<", ">>":
			if g.c.Wild && g.chance("wildShift", 40) {
				r = g.wildInt()
			} else {
				r = g.smallInt(0, 70)
			}
		case "**":
			if g.c.Wild && g.chance("wildPow", 40) {
				r = g.wildInt()
				break
			}
			// keep |result| < 2^53 while the float64-pow finding is open
			if g.c.off("pow-large") {
				l = g.smallInt(-6, 6)
				r = g.smallInt(0, 12)
			} else {
				r = g.smallInt(0, 70)
			}
		default:
			r = g.expr(hs.TInt, d-1)
		}
		if g.c.SmallNums {
			switch op {
			case "*":
				// the class asks for a small non-negative RIGHT operand; the left one is any (pure) integer
				r = g.smallInt(0, 12)
				if !g.chance("mulLeftExpr", 40) {
					l = g.smallInt(-12, 12)
				}
			case "**":
				l, r = g.smallInt(0, 6), g.smallInt(0, 5)
			case "<<", ">>":
				r = g.smallInt(0, 8)
			}
		}
		g.feat("int-op")
		return hs.Infix{Op: op, L: l, R: r, T: hs.TInt}
	case 4:
		op := "-"
		if g.chance("bitnot", 30) {
			op = "!"
		}
		return hs.Prefix{Op: op, X: g.expr(hs.TInt, d-1), T: hs.TInt}
	case 5:
		if g.c.Members {
			switch g.pick("intMember", 3) {
			case 0:
				lt := hs.TList(g.scalarType())
				return hs.Call{Fn: hs.Member{X: g.expr(lt, d-1), Name: "len", T: hs.TFn(hs.TInt)}, T: hs.TInt}
			case 1:
				if g.c.Strings {
					return hs.Call{Fn: hs.Member{X: g.expr(hs.TStr, d-1), Name: "len", T: hs.TFn(hs.TInt)}, T: hs.TInt}
				}
			case 2:
				if !g.c.off("range-members") {
					n := "start"
					if g.chance("rangeEnd", 50) {
						n = "end"
					}
					return hs.Member{X: g.expr(hs.TRange, d-1), Name: n, T: hs.TInt}
				}
			}
		}
	case 6:
		if g.c.Casts {
			if g.chance("castBool", 50) || !g.c.Floats {
				return hs.Cast{X: g.expr(hs.TBool, d-1), T: hs.TInt}
			}
			// float → int only for small in-range values
			return hs.Cast{X: g.floatLit(), T: hs.TInt}
		}
	}
	return g.leaf(hs.TInt)
}

// wildInt: hostile right operands (zero, negative, huge) as a literal or a variable-free expression
func (g *G) wildInt() hs.Expr {
	pool := []int64{0, 0, -1, -2, -64, -65, 63, 64, 65, 1 << 40, -9223372036854775808, 9223372036854775807}
	v := pool[g.pick("wildInt", len(pool))]
	if g.chance("wildViaVar", 40) {
		if e, ok := g.varRef(hs.TInt); ok {
			return e
		}
	}
	return hs.IntLit{V: v}
}

func (g *G) nonZeroInt() hs.Expr {
	for {
		e := g.intLit().(hs.IntLit)
		if e.V != 0 {
			return e
		}
	}
}

func (g *G) floatExpr(d int) hs.Expr {
	if e, ok := g.generic(hs.TFloat, d); ok {
		return e
	}
	if !g.c.Wild && !g.c.SmallNums && !g.c.Pure && !g.c.off("float-pow") && g.chance("floatNaN", 3) {
		// not-a-number at run time (there is no literal for it): comparisons with it are all false but `!=`
		g.feat("float-nan")
		return hs.Paren{X: hs.Infix{Op: "**", L: hs.Paren{X: hs.Prefix{Op: "-", X: hs.FloatLit{V: 1}, T: hs.TFloat}}, R: hs.FloatLit{V: 0.5}, T: hs.TFloat}}
	}
	switch g.pick("floatForm", 8) {
	case 0, 1, 2:
		ops := []string{"+", "-", "*", "/"}
		if g.c.Wild {
			ops = append(ops, "**", "/")
		}
		if !g.c.Wild && !g.c.SmallNums && !g.c.off("float-pow") && g.chance("floatPow", 10) {
			// operands for which the power is exact (or a correctly rounded reciprocal / square root)
			bases := []float64{0.5, 2, 4, 1.5, 9, 0.25, 10, 3}
			exps := []float64{0, 1, 2, 3, -1, 0.5}
			var l hs.Expr = hs.FloatLit{V: bases[g.pick("powBase", len(bases))]}
			ev := exps[g.pick("powExp", len(exps))]
			if ev != 0.5 && g.chance("powNegBase", 25) {
				l = hs.Paren{X: hs.Prefix{Op: "-", X: l, T: hs.TFloat}}
			}
			var r hs.Expr = hs.FloatLit{V: ev}
			if ev < 0 {
				r = hs.Paren{X: hs.Prefix{Op: "-", X: hs.FloatLit{V: -ev}, T: hs.TFloat}}
			}
			g.feat("float-pow")
			return hs.Infix{Op: "**", L: l, R: r, T: hs.TFloat}
		}
		op := ops[g.pick("floatOp", len(ops))]
		l := g.expr(hs.TFloat, d-1)
		var r hs.Expr
		if g.c.Wild && (op == "/" || op == "**") {
			pool := []float64{0, 0, 0.5, 2, 1e308, 1e-300, 3}
			r = hs.FloatLit{V: pool[g.pick("wildF", len(pool))]}
			if g.chance("wildFNeg", 30) {
				r = hs.Prefix{Op: "-", X: r, T: hs.TFloat}
			}
		} else if op == "/" {
			fl := g.floatLit().(hs.FloatLit)
			if fl.V == 0 {
				fl.V = 2
			}
			r = fl
		} else {
			r = g.expr(hs.TFloat, d-1)
		}
		if g.c.SmallNums && (op == "*" || op == "/") {
			l = g.floatLit()
			if op == "*" {
				r = g.floatLit()
			}
		}
		g.feat("float-op")
		return hs.Infix{Op: op, L: l, R: r, T: hs.TFloat}
	case 3:
		return hs.Prefix{Op: "-", X: g.expr(hs.TFloat, d-1), T: hs.TFloat}
	case 4:
		if g.c.Casts {
			return hs.Cast{X: g.smallInt(-1000, 1000), T: hs.TFloat}
		}
	}
	return g.leaf(hs.TFloat)
}

func (g *G) boolExpr(d int) hs.Expr {
	if e, ok := g.generic(hs.TBool, d); ok {
		return e
	}
	switch g.pick("boolForm", 10) {
	case 0, 1, 2:
		ops := []string{"<", ">", "<=", ">=", "==", "!="}
		op := ops[g.pick("cmpOp", len(ops))]
		t := hs.TInt
		if g.c.Floats && g.chance("cmpFloat", 25) {
			t = hs.TFloat
		}
		return hs.Infix{Op: op, L: g.expr(t, d-1), R: g.expr(t, d-1), T: hs.TBool}
	case 3, 4:
		ops := []string{"&&", "||", "&&", "||", "&", "|", "^", "==", "!="}
		op := ops[g.pick("boolOp", len(ops))]
		g.feat("bool-op")
		return hs.Infix{Op: op, L: g.expr(hs.TBool, d-1), R: g.expr(hs.TBool, d-1), T: hs.TBool}
	case 5:
		return hs.Prefix{Op: "!", X: g.expr(hs.TBool, d-1), T: hs.TBool}
	case 6:
		// equality on a comparable non-bool type
		var t hs.Type
		switch g.pick("eqT", 4) {
		case 0:
			t = hs.TStr
		case 1:
			t = hs.TList(hs.TInt)
		case 2:
			t = hs.TOpt(hs.TInt)
		default:
			t = hs.TInt
		}
		if (t.K == hs.KStr && !g.c.Strings) || (t.K == hs.KOpt && !g.c.Options) {
			t = hs.TInt
		}
		op := "=="
		if g.chance("neq", 40) {
			op = "!="
		}
		g.feat("eq-" + t.K.String())
		return hs.Infix{Op: op, L: g.expr(t, d-1), R: g.expr(t, d-1), T: hs.TBool}
	case 7:
		if g.c.Members {
			switch g.pick("boolMember", 3) {
			case 0:
				if g.c.Options {
					n := "is_some"
					if g.chance("isNone", 50) {
						n = "is_none"
					}
					return hs.Call{Fn: hs.Member{X: g.expr(hs.TOpt(g.scalarType()), d-1), Name: n, T: hs.TFn(hs.TBool)}, T: hs.TBool}
				}
			case 1:
				return hs.Call{Fn: hs.Member{X: g.expr(hs.TList(hs.TInt), d-1), Name: "contains", T: hs.TFn(hs.TBool, hs.TInt)}, Args: []hs.Expr{g.expr(hs.TInt, d-1)}, T: hs.TBool}
			case 2:
				if g.c.Strings {
					return hs.Call{Fn: hs.Member{X: g.expr(hs.TStr, d-1), Name: "contains", T: hs.TFn(hs.TBool, hs.TStr)}, Args: []hs.Expr{g.expr(hs.TStr, d-1)}, T: hs.TBool}
				}
			}
		}
	case 8:
		if g.c.Casts {
			return hs.Cast{X: g.expr(hs.TInt, d-1), T: hs.TBool}
		}
	case 9:
		// a guard: the left operand decides, the right operand would trap (division / remainder by zero, negative
		// shift) and is free of calls, indices and members - "no effect" is not "cannot fail"
		if g.chance("guardedTrap", 60) {
			g.feat("guarded-trap")
			ops := []string{"/", "<<", ">>", "/"}
			if !g.c.off("mod-zero") {
				ops = append(ops, "%")
			}
			op := ops[g.pick("trapOp", len(ops))]
			var bad hs.Expr = hs.IntLit{V: 0}
			if op == "<<" || op == ">>" {
				bad = hs.Infix{Op: "-", L: hs.IntLit{V: 0}, R: hs.IntLit{V: int64(1 + g.pick("negShift", 5))}, T: hs.TInt}
			} else if g.chance("zeroBySubtraction", 40) {
				k := int64(g.pick("zeroK", 9))
				bad = hs.Infix{Op: "-", L: hs.IntLit{V: k}, R: hs.IntLit{V: k}, T: hs.TInt}
			}
			trap := hs.Infix{Op: []string{">", "==", "<=", "!="}[g.pick("trapCmp", 4)], L: hs.Infix{Op: op, L: g.leaf(hs.TInt), R: bad, T: hs.TInt}, R: g.leaf(hs.TInt), T: hs.TBool}
			if g.chance("guardOr", 50) {
				return hs.Infix{Op: "||", L: hs.Infix{Op: "==", L: hs.IntLit{V: 0}, R: hs.IntLit{V: 0}, T: hs.TBool}, R: trap, T: hs.TBool}
			}
			return hs.Infix{Op: "&&", L: hs.Infix{Op: "!=", L: hs.IntLit{V: 0}, R: hs.IntLit{V: 0}, T: hs.TBool}, R: trap, T: hs.TBool}
		}
	}
	return g.leaf(hs.TBool)
}

func (g *G) strExpr(d int) hs.Expr {
	if e, ok := g.generic(hs.TStr, d); ok {
		return e
	}
	switch g.pick("strForm", 8) {
	case 0, 1:
		return hs.Infix{Op: "+", L: g.expr(hs.TStr, d-1), R: g.expr(hs.TStr, d-1), T: hs.TStr}
	case 2, 3:
		if g.c.Members {
			ts := []hs.Type{hs.TInt, hs.TBool}
			if g.c.Floats {
				ts = append(ts, hs.TFloat)
			}
			ts = append(ts, hs.TList(hs.TInt))
			if g.c.Options {
				ts = append(ts, hs.TOpt(hs.TInt))
			}
			t := ts[g.pick("toStrT", len(ts))]
			return hs.Call{Fn: hs.Member{X: g.expr(t, d-1), Name: "to_string", T: hs.TFn(hs.TStr)}, T: hs.TStr}
		}
	case 4:
		if g.c.Members {
			switch g.pick("strMember", 4) {
			case 0:
				n := "to_upper"
				if g.chance("lower", 50) {
					n = "to_lower"
				}
				return hs.Call{Fn: hs.Member{X: g.expr(hs.TStr, d-1), Name: n, T: hs.TFn(hs.TStr)}, T: hs.TStr}
			case 1:
				return hs.Call{Fn: hs.Member{X: g.expr(hs.TStr, d-1), Name: "repeat", T: hs.TFn(hs.TStr, hs.TInt)}, Args: []hs.Expr{g.smallInt(0, 3)}, T: hs.TStr}
			case 2:
				return hs.Call{Fn: hs.Member{X: g.expr(hs.TStr, d-1), Name: "replace", T: hs.TFn(hs.TStr, hs.TStr, hs.TStr)}, Args: []hs.Expr{g.strLit(), g.strLit()}, T: hs.TStr}
			case 3:
				return hs.Call{Fn: hs.Member{X: g.expr(hs.TList(hs.TStr), d-1), Name: "join", T: hs.TFn(hs.TStr, hs.TStr)}, Args: []hs.Expr{g.strLit()}, T: hs.TStr}
			}
		}
	}
	return g.leaf(hs.TStr)
}

func (g *G) listExpr(t hs.Type, d int) hs.Expr {
	if e, ok := g.generic(t, d); ok {
		return e
	}
	if g.chance("listLit", 60) {
		n := g.intn("listLen", 0, 4)
		if n == 0 {
			// an empty literal has no element type; only usable under an annotation
			n = 1
		}
		l := hs.ListLit{T: t}
		for i := 0; i < n; i++ {
			l.Elems = append(l.Elems, g.expr(*t.Elem, d-1))
		}
		g.feat("list-lit")
		return l
	}
	if t.Elem.K == hs.KStr && g.c.Members && g.chance("split", 30) {
		sep := []string{",", " ", "b", "ab"}[g.pick("sep", 4)]
		return hs.Call{Fn: hs.Member{X: g.expr(hs.TStr, d-1), Name: "split", T: hs.TFn(t, hs.TStr)}, Args: []hs.Expr{hs.StrLit{V: sep}}, T: t}
	}
	return g.leaf(t)
}

func (g *G) objExpr(t hs.Type, d int) hs.Expr {
	if e, ok := g.generic(t, d); ok {
		return e
	}
	if g.chance("objLit", 60) {
		o := hs.ObjLit{T: t}
		for _, f := range t.Fields {
			o.Keys = append(o.Keys, f.Name)
			o.Vals = append(o.Vals, g.expr(f.T, d-1))
		}
		g.feat("obj-lit")
		return o
	}
	return g.leaf(t)
}

func (g *G) optExpr(t hs.Type, d int) hs.Expr {
	if e, ok := g.generic(t, d); ok {
		return e
	}
	switch g.pick("optForm", 6) {
	case 0, 1:
		return hs.Prefix{Op: "?", X: g.expr(*t.Elem, d-1), T: t}
	case 2:
		if g.c.Members && !g.c.Pure {
			n := []string{"pop", "last", "pop_front"}[g.pick("popKind", 3)]
			lt := hs.TList(*t.Elem)
			if vs := g.varsOf(lt, true); len(vs) > 0 || n == "last" {
				var recv hs.Expr
				if len(vs) > 0 {
					v := vs[g.pick("popVar", len(vs))]
					recv = hs.Ident{Name: v.name, T: lt}
				} else {
					recv = g.expr(lt, d-1)
				}
				return hs.Call{Fn: hs.Member{X: recv, Name: n, T: hs.TFn(t)}, T: t}
			}
		}
	}
	return g.leaf(t)
}

func (g *G) rangeExpr(d int) hs.Expr {
	if g.chance("toRange", 25) && g.c.Members {
		return hs.Call{Fn: hs.Member{X: g.smallInt(0, 5), Name: "to_range", T: hs.TFn(hs.TRange)}, T: hs.TRange}
	}
	if e, ok := g.varRef(hs.TRange); ok && g.chance("rangeVar", 40) {
		return e
	}
	return g.literal(hs.TRange)
}

func (g *G) callExpr(t hs.Type, d int) (hs.Expr, bool) {
	var cands []fnInfo
	for _, f := range g.fns {
		// inside a function literal a name that an enclosing local has taken would be a captured variable
		if f.ret.Equal(t) && !(g.inLambda > 0 && g.shadowFn[f.name] > 0) {
			cands = append(cands, f)
		}
	}
	if len(cands) == 0 {
		return nil, false
	}
	f := cands[g.pick("callee", len(cands))]
	c := hs.Call{Fn: hs.Ident{Name: f.name, T: hs.TFn(f.ret, f.params...)}, T: t}
	// decide first whether a local takes the function's name, so that function literals among the arguments know
	shadowBy := ""
	asValue := !g.c.Pure && !f.single && !g.c.off("fn-value") && g.inLambda == 0 && g.chance("fnValue", 20)
	if asValue {
		ft := hs.TFn(f.ret, f.params...)
		for _, o := range g.fns {
			if o.name != f.name && !o.single && !o.rec && o.name != g.inFn && g.shadowFn[o.name] == 0 && g.shadowFn[f.name] == 0 && hs.TFn(o.ret, o.params...).Equal(ft) && g.chance("shadowFn", 50) {
				shadowBy = o.name
				break
			}
		}
	}
	if shadowBy != "" {
		if g.shadowFn == nil {
			g.shadowFn = map[string]int{}
		}
		g.shadowFn[f.name]++
		defer func() { g.shadowFn[f.name]-- }()
	}
	for i, p := range f.params {
		if i == 0 && f.rec {
			c.Args = append(c.Args, g.smallInt(0, 4))
			g.feat("call-recursive-fn")
			continue
		}
		c.Args = append(c.Args, g.expr(p, d-1))
	}
	g.feat("call")
	if asValue {
		// the function travels as a value: ({ let h = f; h(args) })
		h := g.fresh("h")
		ft := hs.TFn(f.ret, f.params...)
		src := f.name
		// a local that is NAMED like one function and holds another one of the same type: the call goes to the local
		if shadowBy != "" {
			h, src = f.name, shadowBy
			g.feat("fn-value-shadows-function")
		}
		c.Fn = hs.Ident{Name: h, T: ft}
		g.feat("fn-value-call")
		return &hs.Block{T: t, Stmts: []hs.Stmt{hs.Let{Name: h, X: hs.Ident{Name: src, T: ft}}}, Tail: c}, true
	}
	return c, true
}

func (g *G) indexExpr(t hs.Type, d int) (hs.Expr, bool) {
	if t.K == hs.KStr && g.c.Strings && !g.c.off("str-index") && g.chance("strIndex", 30) {
		s := strPool[2+g.pick("idxStr", 5)]
		i := g.intn("strIdx", -len(s), len(s)-1)
		return hs.Index{X: hs.StrLit{V: s}, I: hs.IntLit{V: int64(i)}, T: hs.TStr}, true
	}
	lt := hs.TList(t)
	// index a literal or variable list with a literal index
	var base hs.Expr
	n := -1
	if vs := g.varsOf(lt, false); len(vs) > 0 && g.chance("idxVar", 60) {
		v := vs[g.pick("idxVarPick", len(vs))]
		base = hs.Ident{Name: v.name, T: lt}
	} else {
		l := hs.ListLit{T: lt}
		n = g.intn("idxListLen", 1, 3)
		for i := 0; i < n; i++ {
			l.Elems = append(l.Elems, g.expr(t, d-1))
		}
		base = l
	}
	var idx hs.Expr
	if n > 0 {
		if g.c.Fatal && g.chance("oob", 2) {
			idx = hs.IntLit{V: int64(n + g.intn("oobBy", 0, 2))}
			g.feat("index-oob")
		} else {
			idx = hs.IntLit{V: int64(g.intn("idx", -n, n-1))}
		}
	} else {
		// variable list: length unknown statically; index 0 / -1 (out of range only when empty)
		idx = hs.IntLit{V: int64(g.intn("idxVarI", -1, 0))}
	}
	g.feat("index")
	return hs.Index{X: base, I: idx, T: t}, true
}

func (g *G) fieldExpr(t hs.Type) (hs.Expr, bool) {
	var cands []hs.Expr
	for _, v := range g.visible() {
		if v.t.K == hs.KObj {
			for _, f := range v.t.Fields {
				if f.T.Equal(t) {
					cands = append(cands, hs.Member{X: hs.Ident{Name: v.name, T: v.t}, Name: f.Name, T: t})
				}
			}
		}
	}
	if len(cands) == 0 {
		return nil, false
	}
	g.feat("field")
	return cands[g.pick("field", len(cands))], true
}

func (g *G) ifExpr(t hs.Type, d int) hs.Expr {
	e := &hs.If{Cond: g.expr(hs.TBool, d-1), Then: g.valueBlock(t, d-1), T: t}
	if g.chance("elseIf", 25) {
		e.Else = &hs.If{Cond: g.expr(hs.TBool, d-1), Then: g.valueBlock(t, d-1), Else: g.valueBlock(t, d-1), T: t}
	} else {
		e.Else = g.valueBlock(t, d-1)
	}
	g.feat("if-expr")
	return e
}

func (g *G) valueBlock(t hs.Type, d int) *hs.Block {
	g.push()
	defer g.pop()
	g.inExpr++
	defer func() { g.inExpr-- }()
	b := &hs.Block{T: t}
	if !g.c.Pure && g.chance("blockStmts", 30) && g.budget > 10 {
		n := g.intn("nBlockStmts", 1, 2)
		for i := 0; i < n; i++ {
			b.Stmts = append(b.Stmts, g.stmt(1)...)
		}
	}
	b.Tail = g.expr(t, d)
	return b
}

func (g *G) blockExpr(t hs.Type, d int) hs.Expr {
	g.feat("block-expr")
	return g.valueBlock(t, d-1)
}

func (g *G) matchExpr(t hs.Type, d int) hs.Expr {
	ct := hs.TInt
	switch g.pick("matchT", 4) {
	case 0:
		if g.c.Strings {
			ct = hs.TStr
		}
	case 1:
		ct = hs.TBool
	}
	m := &hs.Match{X: g.expr(ct, d-1), T: t}
	n := g.intn("nArms", 1, 3)
	for i := 0; i < n; i++ {
		arm := hs.MatchArm{Body: g.expr(t, d-1)}
		k := 1
		if g.chance("multiLit", 20) {
			k = 2
		}
		for j := 0; j < k; j++ {
			var lit hs.Expr
			switch ct.K {
			case hs.KInt:
				if k > 1 {
					// the parser accepts prefixed literals only in single-literal arms
					lit = g.smallInt(0, 5)
				} else {
					lit = g.smallInt(-2, 5)
				}
			case hs.KStr:
				lit = g.strLit()
			default:
				lit = hs.BoolLit{V: g.chance("mb", 50)}
			}
			arm.Lits = append(arm.Lits, lit)
		}
		m.Arms = append(m.Arms, arm)
	}
	m.Arms = append(m.Arms, hs.MatchArm{Body: g.expr(t, d-1)})
	g.feat("match-expr")
	return m
}

func (g *G) tryExpr(t hs.Type, d int) hs.Expr {
	tr := &hs.Try{CatchVar: g.fresh("e"), T: t}
	g.push()
	body := &hs.Block{T: t}
	if g.chance("tryThrows", 50) {
		body.Stmts = append(body.Stmts, g.throwStmt(d-1, g.chance("tryThrowGuard", 60)))
	}
	body.Tail = g.expr(t, d-1)
	g.pop()
	tr.Body = body
	g.push()
	g.declare(varInfo{name: tr.CatchVar, t: errObjT, noWrite: true})
	tr.Catch = &hs.Block{T: t, Tail: g.expr(t, d-1)}
	g.pop()
	g.feat("try-expr")
	return tr
}

var errObjT = hs.TObj(hs.Field{Name: "message", T: hs.TStr})

func (g *G) throwStmt(d int, guarded bool) hs.Stmt {
	var arg hs.Expr
	if g.chance("throwStr", 70) && g.c.Strings {
		arg = g.expr(hs.TStr, d)
	} else {
		arg = g.expr(hs.TInt, d)
	}
	call := hs.ExprStmt{X: hs.Call{Fn: hs.Ident{Name: "throw"}, Args: []hs.Expr{arg}, T: hs.TNever}}
	g.feat("throw")
	if guarded {
		return hs.ExprStmt{X: &hs.If{Cond: g.expr(hs.TBool, d), Then: &hs.Block{Stmts: []hs.Stmt{call}, T: hs.TNull}, T: hs.TNull}}
	}
	return call
}

func (g *G) lambdaCall(t hs.Type, d int) hs.Expr {
	// (fn(p: T) -> R { body })(arg): non-capturing — the body sees only its parameter and globals
	pt := g.scalarType()
	pname := g.fresh("lp")
	saved := g.scopes
	var glob []varInfo
	for _, v := range g.scopes[0] {
		if v.global {
			glob = append(glob, v)
		}
	}
	g.scopes = [][]varInfo{glob, {{name: pname, t: pt}}}
	savedLoop, savedRet, savedIn := g.inLoop, g.retT, g.inExpr
	g.inLoop, g.retT, g.inExpr = 0, nil, 0
	g.inLambda++
	body := &hs.Block{T: t, Tail: g.expr(t, d-1)}
	g.inLambda--
	g.scopes, g.inLoop, g.retT, g.inExpr = saved, savedLoop, savedRet, savedIn
	lam := &hs.FnLit{Params: []hs.Param{{Name: pname, T: pt}}, Ret: t, Body: body}
	g.feat("lambda")
	return hs.Call{Fn: hs.Paren{X: lam}, Args: []hs.Expr{g.expr(pt, d-1)}, T: t}
}
