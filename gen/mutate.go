package gen

import (
	"verif/hs"
)

// Site is a place in a program where a single type fault can be planted. Apply replaces the
// expression at the site; Undo restores it. Each site kind names the static rule it breaks; the
// replacement violates that rule whatever surrounds the site (sound by construction).
type Site struct {
	Rule  string
	Where string // syntactic context (fn-body, loop, lambda, match-arm, try, ...)
	Apply func()
	Undo  func()
}

func wrongLit(t hs.Type) hs.Expr {
	switch t.K {
	case hs.KStr:
		return hs.IntLit{V: 7}
	case hs.KInt, hs.KFloat, hs.KBool:
		return hs.StrLit{V: "wrong"}
	default:
		return hs.IntLit{V: 7}
	}
}

// simple: the expression contains no block-like construct, so its static type cannot silently
// become `never` (a diverging operand would make a mismatch vanish).
func simple(e hs.Expr) bool {
	switch e := e.(type) {
	case hs.IntLit, hs.FloatLit, hs.BoolLit, hs.StrLit, hs.Ident, hs.NullLit, hs.NoneLit:
		return true
	case hs.Paren:
		return simple(e.X)
	case hs.Prefix:
		return simple(e.X)
	case hs.Infix:
		return simple(e.L) && simple(e.R)
	case hs.Index:
		return simple(e.X) && simple(e.I)
	case hs.Member:
		return simple(e.X)
	case hs.Cast:
		return simple(e.X)
	case hs.Call:
		if id, ok := e.Fn.(hs.Ident); ok && id.Name == "throw" {
			return false
		}
		if !simple(e.Fn) {
			return false
		}
		for _, a := range e.Args {
			if !simple(a) {
				return false
			}
		}
		return true
	case hs.ListLit:
		for _, a := range e.Elems {
			if !simple(a) {
				return false
			}
		}
		return true
	}
	return false
}

// calm: none of the statements can be never-typed (a block with a diverging statement is typed
// `never` as a whole, which unifies with anything: a wrong tail behind it is not a type error).
func calm(stmts []hs.Stmt) bool {
	for _, st := range stmts {
		switch st := st.(type) {
		case hs.Let:
			if !simple(st.X) {
				return false
			}
		case hs.ExprStmt:
			if a, ok := st.X.(hs.Assign); ok {
				if !simple(a.L) || !simple(a.R) {
					return false
				}
			} else if !simple(st.X) {
				return false
			}
		default:
			return false
		}
	}
	return true
}

type siteWalker struct {
	sites []Site
	ctx   []string
}

func (w *siteWalker) where() string {
	if len(w.ctx) == 0 {
		return "fn-body"
	}
	return w.ctx[len(w.ctx)-1]
}

func (w *siteWalker) add(rule string, get func() hs.Expr, set func(hs.Expr), repl hs.Expr) {
	old := get()
	w.sites = append(w.sites, Site{Rule: rule, Where: w.where(),
		Apply: func() { set(repl) },
		Undo:  func() { set(old) },
	})
}

func (w *siteWalker) push(c string) { w.ctx = append(w.ctx, c) }
func (w *siteWalker) pop()          { w.ctx = w.ctx[:len(w.ctx)-1] }

func (w *siteWalker) block(b *hs.Block) {
	if b == nil {
		return
	}
	for i := range b.Stmts {
		w.stmt(b, i)
	}
	if b.Tail != nil {
		w.expr(func() hs.Expr { return b.Tail }, func(e hs.Expr) { b.Tail = e })
	}
}

func (w *siteWalker) stmt(b *hs.Block, i int) {
	switch s := b.Stmts[i].(type) {
	case hs.Let:
		if s.Annot != nil && s.Annot.IsScalar() && s.Annot.K != hs.KNull && s.Annot.K != hs.KRange {
			w.add("let-annotation-type", func() hs.Expr { return b.Stmts[i].(hs.Let).X }, func(e hs.Expr) {
				l := b.Stmts[i].(hs.Let)
				l.X = e
				b.Stmts[i] = l
			}, wrongLit(*s.Annot))
		}
		w.expr(func() hs.Expr { return b.Stmts[i].(hs.Let).X }, func(e hs.Expr) {
			l := b.Stmts[i].(hs.Let)
			l.X = e
			b.Stmts[i] = l
		})
	case hs.ExprStmt:
		w.expr(func() hs.Expr { return b.Stmts[i].(hs.ExprStmt).X }, func(e hs.Expr) {
			l := b.Stmts[i].(hs.ExprStmt)
			l.X = e
			b.Stmts[i] = l
		})
	case hs.Return:
		if s.X != nil {
			w.expr(func() hs.Expr { return b.Stmts[i].(hs.Return).X }, func(e hs.Expr) { b.Stmts[i] = hs.Return{X: e} })
		}
	case hs.While:
		w.add("condition-while", func() hs.Expr { return b.Stmts[i].(hs.While).Cond }, func(e hs.Expr) {
			l := b.Stmts[i].(hs.While)
			l.Cond = e
			b.Stmts[i] = l
		}, hs.IntLit{V: 1})
		w.push("while-body")
		w.block(s.Body)
		w.pop()
	case hs.Loop:
		w.push("loop-body")
		w.block(s.Body)
		w.pop()
	case hs.For:
		w.add("iterator-type", func() hs.Expr { return b.Stmts[i].(hs.For).Iter }, func(e hs.Expr) {
			l := b.Stmts[i].(hs.For)
			l.Iter = e
			b.Stmts[i] = l
		}, hs.BoolLit{V: true})
		w.push("for-body")
		w.block(s.Body)
		w.pop()
	}
}

func (w *siteWalker) expr(get func() hs.Expr, set func(hs.Expr)) {
	switch e := get().(type) {
	case hs.Infix:
		// the right operand gets a type different from the left one: always a mismatch
		lt := e.L.Type()
		if lt.IsScalar() && lt.K != hs.KNull && lt.K != hs.KRange && simple(e.L) {
			w.add("operand-mismatch:"+e.Op, get, set, hs.Infix{Op: e.Op, L: e.L, R: wrongLit(lt), T: e.T})
		}
		w.expr(func() hs.Expr { return get().(hs.Infix).L }, func(n hs.Expr) { x := get().(hs.Infix); x.L = n; set(x) })
		w.expr(func() hs.Expr { return get().(hs.Infix).R }, func(n hs.Expr) { x := get().(hs.Infix); x.R = n; set(x) })
	case hs.Prefix:
		w.expr(func() hs.Expr { return get().(hs.Prefix).X }, func(n hs.Expr) { x := get().(hs.Prefix); x.X = n; set(x) })
	case hs.Paren:
		w.expr(func() hs.Expr { return get().(hs.Paren).X }, func(n hs.Expr) { set(hs.Paren{X: n}) })
	case hs.Call:
		if id, ok := e.Fn.(hs.Ident); ok && id.T.K == hs.KFn && len(e.Args) > 0 {
			// a user function with declared parameter types: wrong argument type / wrong arity
			for ai := range e.Args {
				if ai < len(id.T.Params) && id.T.Params[ai].IsScalar() && id.T.Params[ai].K != hs.KRange {
					ai := ai
					args := append([]hs.Expr{}, e.Args...)
					args[ai] = wrongLit(id.T.Params[ai])
					w.add("argument-type", get, set, hs.Call{Fn: e.Fn, Args: args, T: e.T})
				}
			}
			w.add("arity-too-few", get, set, hs.Call{Fn: e.Fn, Args: e.Args[:len(e.Args)-1], T: e.T})
			w.add("arity-too-many", get, set, hs.Call{Fn: e.Fn, Args: append(append([]hs.Expr{}, e.Args...), hs.IntLit{V: 1}), T: e.T})
		}
		for ai := range e.Args {
			ai := ai
			w.expr(func() hs.Expr { return get().(hs.Call).Args[ai] }, func(n hs.Expr) {
				x := get().(hs.Call)
				args := append([]hs.Expr{}, x.Args...)
				args[ai] = n
				x.Args = args
				set(x)
			})
		}
	case hs.Index:
		if e.X.Type().K == hs.KList && simple(e.X) {
			w.add("index-non-int", get, set, hs.Index{X: e.X, I: hs.StrLit{V: "k"}, T: e.T})
		}
	case hs.ListLit:
		if len(e.Elems) > 0 && e.T.Elem.IsScalar() && e.T.Elem.K != hs.KRange && simple(e) {
			el := append([]hs.Expr{}, e.Elems...)
			el = append(el, wrongLit(*e.T.Elem))
			w.add("list-literal-mixed", get, set, hs.ListLit{Elems: el, T: e.T})
		}
	case *hs.Block:
		w.push("value-block")
		w.block(e)
		w.pop()
	case *hs.If:
		w.add("condition-if", func() hs.Expr { return e.Cond }, func(n hs.Expr) { e.Cond = n }, hs.IntLit{V: 1})
		if e.T.IsScalar() && e.T.K != hs.KNull && e.T.K != hs.KRange && e.Else != nil {
			if eb, ok := e.Else.(*hs.Block); ok && eb.Tail != nil && len(e.Then.Stmts) == 0 && e.Then.Tail != nil && simple(e.Then.Tail) && calm(eb.Stmts) {
				w.add("branch-mismatch-if", func() hs.Expr { return eb.Tail }, func(n hs.Expr) { eb.Tail = n }, wrongLit(e.T))
			}
		}
		w.push("if-branch")
		w.block(e.Then)
		if eb, ok := e.Else.(*hs.Block); ok {
			w.block(eb)
		}
		w.pop()
	case *hs.Match:
		if e.T.IsScalar() && e.T.K != hs.KNull && e.T.K != hs.KRange && len(e.Arms) >= 2 && simple(e.Arms[0].Body) {
			last := len(e.Arms) - 1
			w.add("branch-mismatch-match", func() hs.Expr { return e.Arms[last].Body }, func(n hs.Expr) { e.Arms[last].Body = n }, wrongLit(e.T))
		}
		w.push("match-arm")
		for ai := range e.Arms {
			ai := ai
			w.expr(func() hs.Expr { return e.Arms[ai].Body }, func(n hs.Expr) { e.Arms[ai].Body = n })
		}
		w.pop()
	case *hs.Try:
		w.push("try")
		w.block(e.Body)
		w.block(e.Catch)
		w.pop()
	case *hs.FnLit:
		w.push("lambda-body")
		w.block(e.Body)
		w.pop()
	}
}

// Sites lists the fault sites of every function body of the program.
func Sites(p *hs.Program) []Site {
	w := &siteWalker{}
	for _, m := range p.Modules {
		for i := range m.Fns {
			w.ctx = nil
			w.block(m.Fns[i].Body)
		}
	}
	return w.sites
}
