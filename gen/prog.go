package gen

import (
	"fmt"
	"strings"

	"pgregory.net/rapid"

	"verif/hs"
)

// ---------------------------------------------------------------------------------------------
// statements

func (g *G) block(bd int, n int) *hs.Block {
	g.push()
	defer g.pop()
	b := &hs.Block{T: hs.TNull}
	for i := 0; i < n; i++ {
		b.Stmts = append(b.Stmts, g.stmt(bd)...)
	}
	return b
}

func (g *G) println(d int) hs.Stmt {
	n := g.intn("nPrintArgs", 1, 3)
	var args []hs.Expr
	for i := 0; i < n; i++ {
		var t hs.Type
		for k := 0; k < 8; k++ {
			t = g.valueType()
			if printable(t) && t.K != hs.KRange {
				break
			}
			t = hs.TInt
		}
		if g.c.off("range-display") && t.K == hs.KRange {
			t = hs.TInt
		}
		args = append(args, g.expr(t, d))
	}
	name := "println"
	if g.chance("print", 15) {
		name = "print"
	}
	g.feat("print")
	return hs.ExprStmt{X: hs.Call{Fn: hs.Ident{Name: name}, Args: args, T: hs.TNull}}
}

func (g *G) stmt(bd int) []hs.Stmt {
	g.budget -= 2
	d := g.c.MaxDepth
	if g.budget < 20 {
		d = 1
	}
	if g.budget <= 0 {
		return []hs.Stmt{g.println(0)}
	}
	r := g.pick("stmtKind", 100)
	if g.c.Pure && len(g.fns) > 0 && g.chance("pureCallStmt", 15) {
		// calls happen at statement level only: let v = f(pure args);
		f := g.fns[g.pick("pureCallee", len(g.fns))]
		c := hs.Call{Fn: hs.Ident{Name: f.name, T: hs.TFn(f.ret, f.params...)}, T: f.ret}
		for i, p := range f.params {
			if i == 0 && f.rec {
				c.Args = append(c.Args, g.smallInt(0, 4))
				continue
			}
			c.Args = append(c.Args, g.expr(p, d-1))
		}
		g.feat("call")
		if f.ret.K == hs.KNull {
			return []hs.Stmt{hs.ExprStmt{X: c}}
		}
		name := g.fresh("v")
		g.declare(varInfo{name: name, t: f.ret})
		st := []hs.Stmt{hs.Let{Name: name, X: c}}
		if printable(f.ret) {
			st = append(st, hs.ExprStmt{X: hs.Call{Fn: hs.Ident{Name: "println"}, Args: []hs.Expr{hs.Ident{Name: name, T: f.ret}}, T: hs.TNull}})
		}
		return st
	}
	switch {
	case r < 4 && bd > 0 && g.c.Throws && !g.c.Pure && !g.c.off("exit-nest") && !(g.inExpr > 0 && g.c.off("exit-pending")):
		return g.exitNest(bd, d)
	case r < 22:
		return []hs.Stmt{g.println(d)}
	case r < 42:
		return []hs.Stmt{g.letStmt(d)}
	case r < 56:
		if !g.c.Pure && g.c.Throws && g.chance("shadowExit", 10) && !(g.inExpr > 0 && g.c.off("exit-pending")) {
			if st, ok := g.shadowExit(d); ok {
				return st
			}
		}
		if g.c.Options && !g.c.Pure && g.chance("optOfPlace", 12) {
			if st, ok := g.optOfPlace(d); ok {
				return st
			}
		}
		if s, ok := g.assignStmt(d); ok {
			return []hs.Stmt{s}
		}
		return []hs.Stmt{g.letStmt(d)}
	case r < 58 && !g.c.off("bare-expr-stmt"):
		// an expression statement whose value is dropped (it can still fail or have effects)
		t := g.scalarType()
		g.feat("bare-expr-stmt")
		return []hs.Stmt{hs.ExprStmt{X: g.expr(t, d), Semi: true}}
	case r < 62:
		if s, ok := g.mutateStmt(d); ok {
			return []hs.Stmt{s}
		}
		return []hs.Stmt{g.println(d)}
	case r < 68 && bd > 0:
		// if statement
		e := &hs.If{Cond: g.expr(hs.TBool, d), Then: g.block(bd-1, g.intn("nThen", 1, 3)), T: hs.TNull}
		if g.chance("else", 50) {
			e.Else = g.block(bd-1, g.intn("nElse", 1, 2))
		}
		g.feat("if-stmt")
		return []hs.Stmt{hs.ExprStmt{X: e}}
	case r < 80 && bd > 0:
		return g.loopStmt(bd, d)
	case r < 84 && g.inLoop > 0 && !(g.inExpr > 0 && g.c.off("exit-pending")):
		// guarded break / continue
		var s hs.Stmt = hs.Break{}
		name := "break"
		if g.chance("continue", 50) {
			s = hs.Continue{}
			name = "continue"
		}
		g.feat(name)
		return []hs.Stmt{hs.ExprStmt{X: &hs.If{Cond: g.expr(hs.TBool, d), Then: &hs.Block{Stmts: []hs.Stmt{s}, T: hs.TNull}, T: hs.TNull}}}
	case r < 87 && g.retT != nil && !(g.inExpr > 0 && g.c.off("exit-pending")):
		// guarded return
		var rs hs.Stmt
		if g.retT.K == hs.KNull {
			rs = hs.Return{}
		} else {
			rs = hs.Return{X: g.expr(*g.retT, d)}
		}
		g.feat("return")
		return []hs.Stmt{hs.ExprStmt{X: &hs.If{Cond: g.expr(hs.TBool, d), Then: &hs.Block{Stmts: []hs.Stmt{rs}, T: hs.TNull}, T: hs.TNull}}}
	case r < 91 && bd > 0 && g.c.Throws:
		// try / catch statement
		tr := &hs.Try{CatchVar: g.fresh("e"), T: hs.TNull}
		if vs := g.visible(); len(vs) > 0 && g.chance("catchVarShadows", 15) {
			// the catch variable is named like a visible local: it exists in the handler only
			if v := vs[g.pick("catchShadowVar", len(vs))]; !v.global {
				tr.CatchVar = v.name
				g.feat("catch-var-shadows")
			}
		}
		g.push()
		body := &hs.Block{T: hs.TNull}
		n := g.intn("nTry", 1, 3)
		bodyDiverges := false
		for i := 0; i < n; i++ {
			body.Stmts = append(body.Stmts, g.stmt(bd-1)...)
			if g.chance("throwInTry", 35) {
				guarded := g.chance("guardThrow", 50)
				bodyDiverges = bodyDiverges || !guarded
				body.Stmts = append(body.Stmts, g.throwStmt(d-1, guarded))
			}
		}
		g.pop()
		tr.Body = body
		g.push()
		g.declare(varInfo{name: tr.CatchVar, t: errObjT, noWrite: true})
		cb := &hs.Block{T: hs.TNull}
		cb.Stmts = append(cb.Stmts, hs.ExprStmt{X: hs.Call{Fn: hs.Ident{Name: "println"}, Args: []hs.Expr{hs.StrLit{V: "caught"}, hs.Member{X: hs.Ident{Name: tr.CatchVar, T: errObjT}, Name: "message", T: hs.TStr}}, T: hs.TNull}})
		if g.chance("catchMore", 40) {
			cb.Stmts = append(cb.Stmts, g.stmt(bd-1)...)
		}
		// leaving the handler through a loop exit or a return (handlers must be unwound correctly)
		// (CalmTry: a try whose body always throws and whose handler always exits is never-typed, and so is
		// every block around it; the static checks of code that depends on such a block are not applied)
		if !(g.inExpr > 0 && g.c.off("exit-pending")) && !(g.c.CalmTry && bodyDiverges) && g.chance("catchExit", 30) {
			switch {
			case g.inLoop > 0 && g.chance("catchBreak", 50):
				cb.Stmts = append(cb.Stmts, hs.Break{})
				g.feat("break-in-catch")
			case g.inLoop > 0:
				cb.Stmts = append(cb.Stmts, hs.Continue{})
				g.feat("continue-in-catch")
			case g.retT != nil && g.retT.K == hs.KNull:
				cb.Stmts = append(cb.Stmts, hs.Return{})
				g.feat("return-in-catch")
			}
		}
		g.pop()
		tr.Catch = cb
		g.feat("try-stmt")
		return []hs.Stmt{hs.ExprStmt{X: tr}}
	case r < 93 && g.c.Throws && !g.c.off("uncaught-throw"):
		return []hs.Stmt{g.throwStmt(d-1, true)}
	case r < 95 && bd > 0 && !g.c.off("match-stmt"):
		m := g.matchExpr(hs.TNull, 1).(*hs.Match)
		for i := range m.Arms {
			m.Arms[i].Body = g.block(bd-1, 1)
		}
		if g.chance("noDefault", 40) {
			m.Arms = m.Arms[:len(m.Arms)-1]
		}
		if g.inLoop > 0 && !(g.inExpr > 0 && g.c.off("exit-pending")) && g.chance("matchArmExit", 35) {
			// a loop exit inside an arm (the default arm included)
			var ex hs.Stmt = hs.Break{}
			if g.chance("matchArmContinue", 40) {
				ex = hs.Continue{}
			}
			ai := g.pick("matchExitArm", len(m.Arms))
			if g.chance("matchExitLastArm", 40) {
				ai = len(m.Arms) - 1
			}
			if blk, ok := m.Arms[ai].Body.(*hs.Block); ok {
				// the arm's own scope is closed by now (it may shadow outer names): the guard uses literals only
				conds := []hs.Expr{hs.BoolLit{V: true}, hs.BoolLit{V: false}, hs.Prefix{Op: "!", X: hs.BoolLit{V: false}, T: hs.TBool},
					hs.Infix{Op: "<", L: hs.IntLit{V: 1}, R: hs.IntLit{V: 2}, T: hs.TBool}}
				blk.Stmts = append(blk.Stmts, hs.ExprStmt{X: &hs.If{Cond: conds[g.pick("matchExitCond", len(conds))], Then: &hs.Block{Stmts: []hs.Stmt{ex}, T: hs.TNull}, T: hs.TNull}})
				g.feat("match-arm-exit")
			}
		}
		g.feat("match-stmt")
		return []hs.Stmt{hs.ExprStmt{X: m}}
	case r < 97 && g.c.Triggers && g.hasEvent && !g.c.off("trigger"):
		g.usesTrig = true
		g.feat("trigger")
		return []hs.Stmt{hs.TriggerStmt{Callback: "on_minute", Conn: "at", Trigger: "minute", Args: []hs.Expr{g.expr(hs.TInt, d)}}}
	case r < 98 && g.c.HostFns && g.c.Wild && g.c.Strings && g.chance("anyFlow", 50):
		return g.anyFlow()
	case r < 99 && g.c.HostFns:
		names := []string{"host_int", "host_str", "host_list", "host_opt", "host_bool", "host_float"}
		ts := []hs.Type{hs.TInt, hs.TStr, hs.TList(hs.TInt), hs.TOpt(hs.TInt), hs.TBool, hs.TFloat}
		i := g.pick("hostFn", len(names))
		if (ts[i].K == hs.KStr && !g.c.Strings) || (ts[i].K == hs.KFloat && !g.c.Floats) || (ts[i].K == hs.KOpt && !g.c.Options) {
			i = 0
		}
		g.usesHost[names[i]] = true
		g.feat("host-fn")
		return []hs.Stmt{hs.ExprStmt{X: hs.Call{Fn: hs.Ident{Name: names[i]}, Args: []hs.Expr{g.expr(ts[i], d)}, T: hs.TNull}}}
	}
	return []hs.Stmt{g.println(d)}
}

// anyFlow (wild programs only; the reference evaluator cannot run it): a dynamically typed value - parsed JSON, a
// member of an any-object, an element popped from a [any] - enters a typed variable through an annotated let or
// a cast and is handed to a typed host function. Conforming documents must arrive with the declared dynamic
// type, the others must end in a cast error; neither may reach the host function with a wrong dynamic type.
func (g *G) anyFlow() []hs.Stmt {
	type row struct {
		t, host string
		docs    []string
	}
	rows := []row{
		{"int", "host_int", []string{"1", `"s"`, "1.5", "true", "null", "[1]", "9007199254740993"}},
		{"str", "host_str", []string{`"s"`, "1", "null", `["s"]`}},
		{"float", "host_float", []string{"1.5", "2", `"s"`, "null"}},
		{"bool", "host_bool", []string{"true", "0", `"s"`}},
		{"[int]", "host_list", []string{"[1, 2]", `[1, "s"]`, "[1.5]", "[]", "{}", "[[1]]", "[1, null]", "[true]"}},
		{"?int", "host_opt", []string{"1", "null", `"s"`, "[1]", "2.5", "true"}},
	}
	r := rows[g.pick("anyFlowRow", len(rows))]
	doc := r.docs[g.pick("anyFlowDoc", len(r.docs))]
	form := g.pick("anyFlowForm", 4)
	if doc == "null" && g.c.off("null-value") && !(r.t == "?int" && (form == 2 || form == 3)) {
		// open finding C18-013 / C12-007: the VM does not push a builtin result that is the null value
		// (`"null".parse_json()`, `get("k").unwrap()` of a JSON null); as an option member it is fine
		doc = r.docs[0]
	}
	q := func(s string) string { return strings.ReplaceAll(s, `"`, `\"`) }
	n := g.fresh("aj")
	var src string
	switch {
	case form == 0:
		src = fmt.Sprintf("let %s: %s = \"%s\".parse_json(); %s(%s);", n, r.t, q(doc), r.host, n)
	case form == 1:
		src = fmt.Sprintf("let %s = \"%s\".parse_json() as %s; %s(%s);", n, q(doc), r.t, r.host, n)
	case form == 2 && r.t == "?int":
		src = fmt.Sprintf("let %sh: { ? } = \"{\\\"k\\\": %s}\".parse_json(); let %s: ?int = %sh->k; host_opt(%s);", n, q(doc), n, n, n)
	case form == 3 && r.t == "?int":
		src = fmt.Sprintf("let %sl: [any] = \"[%s]\".parse_json(); let %s: ?int = %sl.pop(); host_opt(%s);", n, q(doc), n, n, n)
	default:
		src = fmt.Sprintf("let %sh: { ? } = \"{\\\"k\\\": %s}\".parse_json(); let %s: %s = %sh.get(\"k\").unwrap(); %s(%s);", n, q(doc), n, r.t, n, r.host, n)
	}
	if g.chance("anyFlowTry", 60) {
		src = "try { " + src + " } catch " + g.fresh("e") + " { println(\"any-flow refused\"); }"
	} else {
		src = "{ " + src + " }"
	}
	g.usesHost[r.host] = true
	g.feat("any-flow")
	return []hs.Stmt{hs.RawStmt{Src: src}}
}

// breakingLoop: a `for` or `while` loop that contains a (guarded) break.
func (g *G) breakingLoop() hs.Stmt {
	brk := hs.ExprStmt{X: &hs.If{Cond: g.expr(hs.TBool, 1), Then: &hs.Block{Stmts: []hs.Stmt{hs.Break{}}, T: hs.TNull}, T: hs.TNull}}
	v := g.fresh("i")
	pr := hs.ExprStmt{X: hs.Call{Fn: hs.Ident{Name: "println"}, Args: []hs.Expr{hs.StrLit{V: "it"}, hs.Ident{Name: v, T: hs.TInt}}, T: hs.TNull}}
	g.feat("breaking-loop")
	if g.chance("breakingWhile", 50) {
		// while true-ish condition over a counter
		inc := hs.ExprStmt{X: hs.Assign{Op: "+=", L: hs.Ident{Name: v, T: hs.TInt}, R: hs.IntLit{V: 1}}}
		return hs.ExprStmt{X: &hs.Block{T: hs.TNull, Stmts: []hs.Stmt{
			hs.Let{Name: v, X: hs.IntLit{V: 0}},
			hs.While{Cond: hs.Infix{Op: "<", L: hs.Ident{Name: v, T: hs.TInt}, R: hs.IntLit{V: 3}, T: hs.TBool}, Body: &hs.Block{T: hs.TNull, Stmts: []hs.Stmt{inc, brk, pr}}},
		}}}
	}
	return hs.For{Var: v, Iter: hs.RangeLit{Lo: hs.IntLit{V: 0}, Hi: hs.IntLit{V: 3}}, Body: &hs.Block{T: hs.TNull, Stmts: []hs.Stmt{brk, pr}}}
}

// exitNest: 2-3 nested try blocks whose innermost body leaves through break / continue / return;
// around it a loop when the exit needs one. Handlers that a loop exit or a return leaves behind must
// be gone afterwards: a later throw (generated by the surrounding code or appended here) has to
// reach the handler the source says - or nobody.
func (g *G) exitNest(bd, d int) []hs.Stmt {
	depth := g.intn("nestDepth", 2, 3)
	kind := g.pick("nestExit", 3) // 0 break, 1 continue, 2 return
	if kind == 2 && (g.retT == nil || g.retT.K != hs.KNull) {
		kind = g.pick("nestExitLoop", 2)
	}
	var exit hs.Stmt
	switch kind {
	case 0:
		exit = hs.Break{}
	case 1:
		exit = hs.Continue{}
	default:
		exit = hs.Return{}
	}
	g.feat("exit-nest")
	wrapLoop := kind != 2
	if wrapLoop {
		g.inLoop++
	}
	var build func(level int) *hs.Block
	build = func(level int) *hs.Block {
		b := &hs.Block{T: hs.TNull}
		g.push()
		if g.chance("nestPre", 50) {
			b.Stmts = append(b.Stmts, g.println(1))
		}
		if level == 0 {
			// the exit is always guarded (like every other exit the generator writes): an unconditional exit
			// makes the enclosing constructs never-typed, and how unreachable code is typed is not
			// something the property fixes
			cond := g.expr(hs.TBool, 1)
			if g.chance("nestExitTaken", 50) {
				cond = hs.BoolLit{V: true}
				if g.chance("nestExitTakenNot", 50) {
					cond = hs.Prefix{Op: "!", X: hs.BoolLit{V: false}, T: hs.TBool}
				}
			}
			b.Stmts = append(b.Stmts, hs.ExprStmt{X: &hs.If{Cond: cond, Then: &hs.Block{Stmts: []hs.Stmt{exit}, T: hs.TNull}, T: hs.TNull}})
			if g.chance("nestThrowAfter", 40) {
				b.Stmts = append(b.Stmts, g.throwStmt(1, true))
			}
		} else {
			ev := g.fresh("e")
			inner := build(level - 1)
			cb := &hs.Block{T: hs.TNull, Stmts: []hs.Stmt{hs.ExprStmt{X: hs.Call{Fn: hs.Ident{Name: "println"}, Args: []hs.Expr{hs.StrLit{V: "nest"}, hs.IntLit{V: int64(level)}, hs.Member{X: hs.Ident{Name: ev, T: errObjT}, Name: "message", T: hs.TStr}}, T: hs.TNull}}}}
			b.Stmts = append(b.Stmts, hs.ExprStmt{X: &hs.Try{Body: inner, CatchVar: ev, Catch: cb, T: hs.TNull}})
			if g.chance("nestPost", 40) {
				b.Stmts = append(b.Stmts, g.println(1))
			}
		}
		g.pop()
		return b
	}
	body := build(depth)
	var out []hs.Stmt
	if wrapLoop {
		g.inLoop--
		v := g.fresh("i")
		out = append(out, hs.For{Var: v, Iter: hs.RangeLit{Lo: hs.IntLit{V: 0}, Hi: hs.IntLit{V: int64(g.intn("nestIter", 1, 3))}}, Body: body})
	} else {
		out = append(out, body.Stmts...)
	}
	// a throw right behind the construct: with stale handlers it lands in a dead catch block
	if !g.c.off("uncaught-throw") && g.chance("nestTailThrow", 35) {
		out = append(out, g.throwStmt(1, true)) // guarded: an unconditional throw would make the enclosing block never-typed
	} else if g.chance("nestTailCaught", 40) {
		ev := g.fresh("e")
		cb := &hs.Block{T: hs.TNull, Stmts: []hs.Stmt{hs.ExprStmt{X: hs.Call{Fn: hs.Ident{Name: "println"}, Args: []hs.Expr{hs.StrLit{V: "after"}, hs.Member{X: hs.Ident{Name: ev, T: errObjT}, Name: "message", T: hs.TStr}}, T: hs.TNull}}}}
		out = append(out, hs.ExprStmt{X: &hs.Try{Body: &hs.Block{T: hs.TNull, Stmts: []hs.Stmt{g.throwStmt(1, false)}}, CatchVar: ev, Catch: cb, T: hs.TNull}})
	}
	return out
}

func (g *G) letStmt(d int) hs.Stmt {
	t := g.valueType()
	name := g.fresh("v")
	// deliberate shadowing of a visible local of any type
	if vs := g.visible(); len(vs) > 0 && g.chance("shadow", 12) {
		v := vs[g.pick("shadowVar", len(vs))]
		if !v.global && len(g.scopes) > 2 {
			name = v.name
			g.feat("shadow")
		}
	}
	x := g.expr(t, d)
	s := hs.Let{Name: name, X: x}
	if g.chance("annot", 25) {
		tt := t
		s.Annot = &tt
	}
	if t.K == hs.KOpt && g.chance("noneInit", 30) {
		tt := t
		s.Annot = &tt
		s.X = hs.NoneLit{T: t}
	}
	if t.K == hs.KList && g.chance("emptyInit", 15) {
		tt := t
		s.Annot = &tt
		s.X = hs.ListLit{T: t}
	}
	g.declare(varInfo{name: name, t: t})
	g.feat("let")
	return s
}

func (g *G) assignStmt(d int) (hs.Stmt, bool) {
	vs := g.visible()
	var cands []varInfo
	for _, v := range vs {
		if !v.noWrite {
			cands = append(cands, v)
		}
	}
	if len(cands) == 0 {
		return nil, false
	}
	v := cands[g.pick("assignVar", len(cands))]
	target := hs.Expr(hs.Ident{Name: v.name, T: v.t})
	t := v.t
	// descend into a field or element
	if t.K == hs.KObj && g.chance("assignField", 60) {
		f := t.Fields[g.pick("assignFieldPick", len(t.Fields))]
		target = hs.Member{X: target, Name: f.Name, T: f.T}
		t = f.T
		g.feat("assign-field")
	} else if t.K == hs.KList && g.chance("assignElem", 50) && !g.c.off("assign-elem") {
		var ix hs.Expr = hs.IntLit{V: int64(g.intn("assignIdx", -1, 0))}
		if !g.c.Pure && g.chance("noisyIdx", 35) {
			// the index has an effect of its own: a place is evaluated once, also by a compound assignment
			ix = &hs.Block{T: hs.TInt, Tail: ix, Stmts: []hs.Stmt{hs.ExprStmt{X: hs.Call{Fn: hs.Ident{Name: "println"},
				Args: []hs.Expr{hs.StrLit{V: "ix"}, hs.IntLit{V: int64(g.intn("noisyIdxTag", 0, 9))}}, T: hs.TNull}}}}
			g.feat("assign-elem-noisy-index")
		}
		target = hs.Index{X: target, I: ix, T: *t.Elem}
		t = *t.Elem
		g.feat("assign-elem")
	}
	if v.global {
		g.feat("assign-global")
	}
	if g.inExpr > 0 {
		g.feat("assign-in-expr")
	}
	op := "="
	switch t.K {
	case hs.KInt:
		ops := []string{"=", "+=", "-=", "*=", "/=", "%=", "<<=", ">>=", "|=", "&=", "^=", "**="}
		op = ops[g.pick("assignOpI", len(ops))]
	case hs.KFloat:
		ops := []string{"=", "+=", "-=", "*="}
		op = ops[g.pick("assignOpF", len(ops))]
	case hs.KStr:
		ops := []string{"=", "+="}
		op = ops[g.pick("assignOpS", len(ops))]
	case hs.KBool:
		ops := []string{"=", "|=", "&=", "^="}
		op = ops[g.pick("assignOpB", len(ops))]
	}
	var r hs.Expr
	switch op {
	case "/=", "%=":
		r = g.nonZeroInt()
	case "<<=", ">>=":
		r = g.smallInt(0, 70)
	case "**=":
		if g.c.off("pow-large") {
			return nil, false
		}
		r = g.smallInt(0, 5)
	default:
		r = g.expr(t, d)
	}
	if op != "=" {
		g.feat("compound-assign")
	}
	return hs.ExprStmt{X: hs.Assign{Op: op, L: target, R: r}}, true
}

// shadowExit: a local is shadowed - by a value of another type - in a block that is LEFT by break, continue or a
// caught throw; afterwards the outer variable is used again. A scope ends however its block is left.
func (g *G) shadowExit(d int) ([]hs.Stmt, bool) {
	var cands []varInfo
	for _, v := range g.visible() {
		if !v.global && (v.t.K == hs.KInt || v.t.K == hs.KStr || v.t.K == hs.KBool) && (v.t.K != hs.KStr || g.c.Strings) {
			cands = append(cands, v)
		}
	}
	if len(cands) == 0 {
		return nil, false
	}
	v := cands[g.pick("shadowExitVar", len(cands))]
	// the shadowing value has another type than the outer variable
	var inner hs.Expr = hs.ListLit{T: hs.TList(hs.TInt), Elems: []hs.Expr{hs.IntLit{V: 7}}}
	innerT := hs.TList(hs.TInt)
	if v.t.K != hs.KBool && g.chance("shadowExitBool", 50) {
		inner, innerT = hs.BoolLit{V: true}, hs.TBool
	}
	say := func(x hs.Expr) hs.Stmt {
		return hs.ExprStmt{X: hs.Call{Fn: hs.Ident{Name: "println"}, Args: []hs.Expr{hs.StrLit{V: "sx"}, x}, T: hs.TNull}}
	}
	guard := func(s hs.Stmt) hs.Stmt {
		return hs.ExprStmt{X: &hs.If{Cond: hs.BoolLit{V: true}, Then: &hs.Block{Stmts: []hs.Stmt{s}, T: hs.TNull}, T: hs.TNull}}
	}
	shadow := []hs.Stmt{hs.Let{Name: v.name, X: inner}, say(hs.Ident{Name: v.name, T: innerT})}
	outer := hs.Ident{Name: v.name, T: v.t}
	var st []hs.Stmt
	switch kind := g.pick("shadowExitKind", 3); kind {
	case 0, 1:
		var exit hs.Stmt = hs.Break{}
		if kind == 1 {
			exit = hs.Continue{}
		}
		body := &hs.Block{T: hs.TNull, Stmts: append(append([]hs.Stmt{}, shadow...), guard(exit), say(hs.StrLit{V: "unreached"}))}
		st = append(st, hs.For{Var: g.fresh("i"), Iter: hs.RangeLit{Lo: hs.IntLit{V: 0}, Hi: hs.IntLit{V: 2}}, Body: body})
	default:
		ev := g.fresh("e")
		body := &hs.Block{T: hs.TNull, Stmts: append(append([]hs.Stmt{}, shadow...), guard(hs.ExprStmt{X: hs.Call{Fn: hs.Ident{Name: "throw"}, Args: []hs.Expr{hs.StrLit{V: "sx"}}, T: hs.TNever}}))}
		cb := &hs.Block{T: hs.TNull, Stmts: []hs.Stmt{say(hs.Member{X: hs.Ident{Name: ev, T: errObjT}, Name: "message", T: hs.TStr})}}
		st = append(st, hs.ExprStmt{X: &hs.Try{Body: body, CatchVar: ev, Catch: cb, T: hs.TNull}})
	}
	st = append(st, say(outer))
	switch v.t.K {
	case hs.KInt:
		st = append(st, say(hs.Infix{Op: "+", L: outer, R: hs.IntLit{V: 1}, T: hs.TInt}))
	case hs.KStr:
		st = append(st, say(hs.Infix{Op: "+", L: outer, R: hs.StrLit{V: "!"}, T: hs.TStr}))
	default:
		st = append(st, say(hs.Prefix{Op: "!", X: outer, T: hs.TBool}))
	}
	g.feat("shadow-exit")
	return st, true
}

// optOfPlace: `let o = ?l[i];` (or `?obj.f`), then the element / field is overwritten in place, then the option is
// read: an option holds the value it was made from, not the place.
func (g *G) optOfPlace(d int) ([]hs.Stmt, bool) {
	type place struct {
		x hs.Expr
		t hs.Type
	}
	var cands []place
	scalar := func(t hs.Type) bool {
		return t.K == hs.KInt || t.K == hs.KStr || t.K == hs.KFloat || t.K == hs.KBool
	}
	for _, v := range g.visible() {
		if v.noWrite {
			continue
		}
		id := hs.Ident{Name: v.name, T: v.t}
		switch {
		case v.t.K == hs.KList && scalar(*v.t.Elem) && !g.c.off("assign-elem"):
			cands = append(cands, place{hs.Index{X: id, I: hs.IntLit{V: int64(g.intn("optIdx", -1, 0))}, T: *v.t.Elem}, *v.t.Elem})
		case v.t.K == hs.KObj:
			for _, f := range v.t.Fields {
				if scalar(f.T) {
					cands = append(cands, place{hs.Member{X: id, Name: f.Name, T: f.T}, f.T})
				}
			}
		}
	}
	if len(cands) == 0 {
		return nil, false
	}
	pl := cands[g.pick("optPlace", len(cands))]
	if pl.t.K == hs.KStr && !g.c.Strings {
		return nil, false
	}
	ot := hs.TOpt(pl.t)
	name := g.fresh("v")
	op := "="
	if pl.t.K == hs.KInt && g.chance("optPlaceCompound", 50) {
		op = "+="
	}
	st := []hs.Stmt{
		hs.Let{Name: name, X: hs.Prefix{Op: "?", X: pl.x, T: ot}},
		hs.ExprStmt{X: hs.Assign{Op: op, L: pl.x, R: g.literal(pl.t)}},
		hs.ExprStmt{X: hs.Call{Fn: hs.Ident{Name: "println"}, Args: []hs.Expr{hs.Ident{Name: name, T: ot}}, T: hs.TNull}},
	}
	g.declare(varInfo{name: name, t: ot})
	g.feat("opt-of-place")
	// (checks that cannot run the reference model exclude the triggers of the open aliasing findings by these
	// syntactic features)
	if _, isIdx := pl.x.(hs.Index); isIdx {
		g.feat("assign-elem")
	} else {
		g.feat("assign-field")
	}
	if g.inExpr > 0 {
		g.feat("assign-in-expr")
	}
	return st, true
}

func (g *G) mutateStmt(d int) (hs.Stmt, bool) {
	if !g.c.Members {
		return nil, false
	}
	var lists []varInfo
	for _, v := range g.visible() {
		if v.t.K == hs.KList && !v.noWrite {
			lists = append(lists, v)
		}
	}
	if len(lists) == 0 {
		return nil, false
	}
	v := lists[g.pick("mutVar", len(lists))]
	recv := hs.Ident{Name: v.name, T: v.t}
	et := *v.t.Elem
	g.feat("list-mutate")
	switch g.pick("mutKind", 5) {
	case 0, 1:
		return hs.ExprStmt{X: hs.Call{Fn: hs.Member{X: recv, Name: "push", T: hs.TFn(hs.TNull, et)}, Args: []hs.Expr{g.expr(et, d)}, T: hs.TNull}}, true
	case 2:
		return hs.ExprStmt{X: hs.Call{Fn: hs.Member{X: recv, Name: "push_front", T: hs.TFn(hs.TNull, et)}, Args: []hs.Expr{g.expr(et, d)}, T: hs.TNull}}, true
	case 3:
		return hs.ExprStmt{X: hs.Call{Fn: hs.Member{X: recv, Name: "concat", T: hs.TFn(hs.TNull, v.t)}, Args: []hs.Expr{g.expr(v.t, d)}, T: hs.TNull}}, true
	default:
		if et.K == hs.KInt || et.K == hs.KStr || et.K == hs.KFloat {
			return hs.ExprStmt{X: hs.Call{Fn: hs.Member{X: recv, Name: "sort", T: hs.TFn(hs.TNull)}, T: hs.TNull}}, true
		}
		return hs.ExprStmt{X: hs.Call{Fn: hs.Member{X: recv, Name: "push", T: hs.TFn(hs.TNull, et)}, Args: []hs.Expr{g.expr(et, d)}, T: hs.TNull}}, true
	}
}

// loopStmt generates terminating loops: for over small ranges/lists, while/loop with a counter.
func (g *G) loopStmt(bd, d int) []hs.Stmt {
	g.inLoop++
	defer func() { g.inLoop-- }()
	nb := g.intn("nLoopBody", 1, 3)
	switch g.pick("loopKind", 5) {
	case 0, 1:
		// for over a range or a list
		v := g.fresh("i")
		var iter hs.Expr
		var vt hs.Type
		var pre []hs.Stmt
		if g.c.Strings && !g.c.off("for-str") && g.chance("forStr", 12) {
			// iterate the characters of a string (a literal or a variable, so that one value can
			// be iterated several times, also after an early exit)
			if vs := g.varsOf(hs.TStr, false); len(vs) > 0 && g.chance("forStrVar", 60) {
				iter = hs.Ident{Name: vs[g.pick("forStrVarPick", len(vs))].name, T: hs.TStr}
			} else {
				iter = g.strLit()
			}
			vt = hs.TStr
			g.feat("for-str")
		} else if g.chance("forList", 45) {
			et := g.scalarType()
			lt := hs.TList(et)
			if vs := g.varsOf(lt, false); len(vs) > 0 && g.chance("forListVar", 60) {
				iter = hs.Ident{Name: vs[g.pick("forVar", len(vs))].name, T: lt}
				g.feat("for-list-var")
			} else {
				iter = g.literal(lt)
			}
			vt = et
			g.feat("for-list")
		} else {
			iter = g.rangeExpr(1)
			vt = hs.TInt
			g.feat("for-range")
			if _, isVar := iter.(hs.Ident); !isVar && !g.c.Pure && !g.c.off("range-var") && g.chance("rangeVarLoop", 30) {
				// a range that outlives the loop: bound to a variable first, so that it can be iterated again
				// (its iteration state must not survive a loop that was left early)
				rv := g.fresh("rg")
				pre = append(pre, hs.Let{Name: rv, X: iter})
				g.declare(varInfo{name: rv, t: hs.TRange, noWrite: true})
				iter = hs.Ident{Name: rv, T: hs.TRange}
				g.feat("for-range-var")
			}
		}
		g.push()
		g.declare(varInfo{name: v, t: vt, noWrite: true})
		body := g.block(bd-1, nb)
		g.pop()
		out := append(pre, hs.For{Var: v, Iter: iter, Body: body})
		if id, isVar := iter.(hs.Ident); isVar && !(g.inExpr > 0 && g.c.off("exit-pending")) && g.chance("iterTwice", 40) {
			// leave the first loop early, then iterate the same value again: the iteration state of a
			// value must not survive a loop (snapshot semantics)
			early := hs.ExprStmt{X: &hs.If{Cond: g.expr(hs.TBool, 1), Then: &hs.Block{Stmts: []hs.Stmt{hs.Break{}}, T: hs.TNull}, T: hs.TNull}}
			f0 := out[len(out)-1].(hs.For)
			f0.Body.Stmts = append([]hs.Stmt{early}, f0.Body.Stmts...)
			v2 := g.fresh("j")
			pr := hs.ExprStmt{X: hs.Call{Fn: hs.Ident{Name: "println"}, Args: []hs.Expr{hs.StrLit{V: "again"}, hs.Ident{Name: v2, T: vt}}, T: hs.TNull}}
			if !printable(vt) {
				pr = hs.ExprStmt{X: hs.Call{Fn: hs.Ident{Name: "println"}, Args: []hs.Expr{hs.StrLit{V: "again"}}, T: hs.TNull}}
			}
			out = append(out, hs.For{Var: v2, Iter: id, Body: &hs.Block{Stmts: []hs.Stmt{pr}, T: hs.TNull}})
			g.feat("iterate-twice")
		}
		return out
	case 2, 3:
		// let w = 0; while w < k { w += 1; body }
		w := g.fresh("w")
		k := g.intn("whileN", 0, 4)
		g.declare(varInfo{name: w, t: hs.TInt, noWrite: true})
		body := g.block(bd-1, nb)
		inc := hs.ExprStmt{X: hs.Assign{Op: "+=", L: hs.Ident{Name: w, T: hs.TInt}, R: hs.IntLit{V: 1}}}
		body.Stmts = append([]hs.Stmt{inc}, body.Stmts...)
		g.feat("while")
		return []hs.Stmt{
			hs.Let{Name: w, X: hs.IntLit{V: 0}},
			hs.While{Cond: hs.Infix{Op: "<", L: hs.Ident{Name: w, T: hs.TInt}, R: hs.IntLit{V: int64(k)}, T: hs.TBool}, Body: body},
		}
	default:
		// let l = 0; loop { l += 1; if l > k { break; } body }
		w := g.fresh("l")
		k := g.intn("loopN", 0, 4)
		g.declare(varInfo{name: w, t: hs.TInt, noWrite: true})
		body := g.block(bd-1, nb)
		inc := hs.ExprStmt{X: hs.Assign{Op: "+=", L: hs.Ident{Name: w, T: hs.TInt}, R: hs.IntLit{V: 1}}}
		brk := hs.ExprStmt{X: &hs.If{Cond: hs.Infix{Op: ">", L: hs.Ident{Name: w, T: hs.TInt}, R: hs.IntLit{V: int64(k)}, T: hs.TBool},
			Then: &hs.Block{Stmts: []hs.Stmt{hs.Break{}}, T: hs.TNull}, T: hs.TNull}}
		body.Stmts = append([]hs.Stmt{inc, brk}, body.Stmts...)
		g.feat("loop")
		return []hs.Stmt{hs.Let{Name: w, X: hs.IntLit{V: 0}}, hs.Loop{Body: body}}
	}
}

// ---------------------------------------------------------------------------------------------
// program

type FnSig struct {
	Name   string
	Params []hs.Type
	Ret    hs.Type
	Rec    bool // recursive: the first parameter is the recursion depth (callers pass 0..4)
}

// DrawArg draws the i-th argument of a host call of f.
func DrawArg(t *rapid.T, f FnSig, i int) hs.Value {
	if f.Rec && i == 0 {
		return hs.IntV(int64(rapid.IntRange(0, 4).Draw(t, "recDepth")))
	}
	return DrawValue(t, f.Params[i])
}

type Generated struct {
	Prog       *hs.Program
	HostSingle map[string]hs.Value // host-provided singleton values ("$Name")
	Feat       map[string]int
	Fns        []FnSig // host-callable functions (singleton parameters excluded from Params)
}

// DrawValue draws a model value of the given type (for host arguments).
func DrawValue(t *rapid.T, ty hs.Type) hs.Value {
	g := &G{t: t, c: ModelCfg(), Feat: map[string]int{}, usesHost: map[string]bool{}}
	g.scopes = [][]varInfo{nil}
	lit := g.literal(ty)
	ev := hs.NewEvaluator(&hs.Program{Entry: "m", Modules: []*hs.Module{{Name: "m"}}})
	v, ok := ev.EvalConst(lit)
	if !ok {
		return hs.Zero(ty)
	}
	return v
}

// Program draws a single-module program in the configured fragment.
func Program(t *rapid.T, c Cfg) *Generated {
	// Program size is itself drawn, so small programs are frequent and shrinking heads there.
	switch rapid.IntRange(0, 3).Draw(t, "size") {
	case 0:
		c.MaxFns, c.MaxStmts, c.MaxDepth, c.BlockDepth = 1, 2, 2, 1
	case 1:
		c.MaxFns, c.MaxStmts, c.MaxDepth, c.BlockDepth = 2, 3, 2, 2
	}
	printObjects = c.PrintObjects
	g := &G{t: t, c: c, Feat: map[string]int{}, usesHost: map[string]bool{}}
	m := &hs.Module{Name: "main"}
	g.mod = m
	g.scopes = [][]varInfo{nil}
	out := &Generated{HostSingle: map[string]hs.Value{}}

	// globals (constant initialisers)
	if c.Globals {
		ng := g.intn("nGlobals", 0, 3)
		for i := 0; i < ng; i++ {
			var ty hs.Type
			switch g.pick("globT", 4) {
			case 0:
				ty = hs.TList(hs.TInt)
			case 1:
				if c.Strings {
					ty = hs.TStr
				} else {
					ty = hs.TInt
				}
			default:
				ty = hs.TInt
			}
			name := fmt.Sprintf("g%d", i)
			m.Globals = append(m.Globals, hs.Global{Name: name, X: g.literal(ty)})
			g.declare(varInfo{name: name, t: ty, global: true})
		}
	}

	// singletons
	if c.Singletons && !c.off("singleton") && g.chance("hasSingleton", 40) {
		st := hs.TObj(hs.Field{Name: "n", T: hs.TInt}, hs.Field{Name: "s", T: hs.TStr})
		if !c.Strings {
			st = hs.TObj(hs.Field{Name: "n", T: hs.TInt})
		}
		m.Singletons = append(m.Singletons, hs.Singleton{Name: "$S", T: st})
		g.singles = m.Singletons
		if g.chance("hostProvides", 50) {
			o := hs.NewObj(false)
			o.Set("n", hs.IntV(int64(g.intn("singN", -5, 50))))
			if c.Strings {
				o.Set("s", hs.StrV(strPool[g.pick("singS", len(strPool))]))
			}
			out.HostSingle["$S"] = o
			g.feat("singleton-host")
		} else {
			g.feat("singleton-zero")
		}
	}

	// event callback for trigger statements
	if c.Triggers && !c.off("trigger") && g.chance("hasEvent", 35) {
		g.hasEvent = true
	}

	nf := g.intn("nFns", 0, c.MaxFns)
	for i := 0; i < nf; i++ {
		if !c.off("recursion") && c.MaxFns > 1 && g.chance("recursiveFn", 18) {
			m.Fns = append(m.Fns, g.recFnDefs(fmt.Sprintf("rec%d", i))...)
			continue
		}
		m.Fns = append(m.Fns, g.fnDef(fmt.Sprintf("f%d", i), false))
	}
	m.Fns = append(m.Fns, g.fnDef("main", true))
	if g.hasEvent {
		m.Fns = append(m.Fns, hs.FnDef{Name: "on_minute", Event: true, Params: []hs.Param{{Name: "elapsed", T: hs.TInt}}, Ret: hs.TNull,
			Body: &hs.Block{T: hs.TNull}})
		m.Imports = append(m.Imports, hs.Import{From: "triggers", Items: []hs.ImportItem{{Kind: "trigger", Name: "minute"}}})
	}
	if len(g.usesHost) > 0 {
		im := hs.Import{From: "host"}
		for _, n := range []string{"host_int", "host_float", "host_bool", "host_str", "host_list", "host_obj", "host_opt", "any_val"} {
			if g.usesHost[n] {
				im.Items = append(im.Items, hs.ImportItem{Name: n})
			}
		}
		m.Imports = append(m.Imports, im)
	}
	out.Prog = &hs.Program{Entry: "main", Modules: []*hs.Module{m}}
	out.Feat = g.Feat
	for _, f := range g.fns {
		out.Fns = append(out.Fns, FnSig{Name: f.name, Params: f.params, Ret: f.ret, Rec: f.rec})
	}
	return out
}

// recFnDefs: a directly recursive function, or a pair of mutually recursive ones. The first parameter
// is the recursion depth (callers pass 0..4, every recursive call passes n - 1); the recursive call sits
// bare, inside a try block (whose handler must catch what deeper activations throw - and only that), or
// twice (tree recursion). Each activation prints its depth on the way down and on the way up, so a frame
// that is resumed wrongly shows.
func (g *G) recFnDefs(name string) []hs.FnDef {
	mutual := g.chance("mutualRec", 35)
	names := []string{name}
	if mutual {
		names = append(names, name+"b")
	}
	ret := hs.TNull
	if g.chance("recHasRet", 60) {
		ret = hs.TInt
		if g.c.Strings && g.chance("recRetStr", 30) {
			ret = hs.TStr
		}
	}
	var extra []hs.Type
	if g.chance("recExtraParam", 50) {
		extra = append(extra, g.scalarType())
	}
	nT := hs.TInt
	params := append([]hs.Type{nT}, extra...)
	var out []hs.FnDef
	for fi, fname := range names {
		callee := names[(fi+1)%len(names)]
		f := hs.FnDef{Name: fname, Ret: ret, Params: []hs.Param{{Name: "n", T: nT}}}
		g.nvar = 0
		g.budget = 90
		g.scopes = g.scopes[:1]
		g.push()
		g.declare(varInfo{name: "n", t: nT, noWrite: true})
		for i, pt := range extra {
			pn := fmt.Sprintf("p%d", i)
			f.Params = append(f.Params, hs.Param{Name: pn, T: pt})
			g.declare(varInfo{name: pn, t: pt})
		}
		rt := ret
		g.retT = &rt
		g.inFn = fname
		g.inLoop = 0
		nId := hs.Ident{Name: "n", T: nT}
		say := func(tag string) hs.Stmt {
			return hs.ExprStmt{X: hs.Call{Fn: hs.Ident{Name: "println"}, Args: []hs.Expr{hs.StrLit{V: fname + " " + tag}, nId}, T: hs.TNull}}
		}
		recCall := func(dec int64) hs.Call {
			c := hs.Call{Fn: hs.Ident{Name: callee, T: hs.TFn(ret, params...)}, T: ret,
				Args: []hs.Expr{hs.Infix{Op: "-", L: nId, R: hs.IntLit{V: dec}, T: hs.TInt}}}
			for _, pt := range extra {
				c.Args = append(c.Args, g.expr(pt, 1))
			}
			return c
		}
		body := &hs.Block{T: ret}
		body.Stmts = append(body.Stmts, say("down"))
		// base case
		base := &hs.Block{T: hs.TNull}
		if g.c.Throws && !g.c.Pure && g.chance("recBaseThrow", 45) {
			base.Stmts = append(base.Stmts, g.throwStmt(1, true))
		}
		if ret.K == hs.KNull {
			base.Stmts = append(base.Stmts, hs.Return{})
		} else {
			base.Stmts = append(base.Stmts, hs.Return{X: g.expr(ret, 1)})
		}
		body.Stmts = append(body.Stmts, hs.ExprStmt{X: &hs.If{Cond: hs.Infix{Op: "<=", L: nId, R: hs.IntLit{V: 0}, T: hs.TBool}, Then: base, T: hs.TNull}})
		if g.chance("recPre", 50) {
			body.Stmts = append(body.Stmts, g.stmt(1)...)
		}
		// the recursive step
		use := func(c hs.Call) []hs.Stmt {
			if ret.K == hs.KNull {
				return []hs.Stmt{hs.ExprStmt{X: c}}
			}
			v := g.fresh("rv")
			g.declare(varInfo{name: v, t: ret})
			return []hs.Stmt{hs.Let{Name: v, X: c}, hs.ExprStmt{X: hs.Call{Fn: hs.Ident{Name: "println"}, Args: []hs.Expr{hs.StrLit{V: fname + " got"}, hs.Ident{Name: v, T: ret}}, T: hs.TNull}}}
		}
		switch shape := g.pick("recShape", 4); {
		case shape <= 1 && g.c.Throws && !g.c.Pure:
			ev := g.fresh("e")
			g.push()
			tb := &hs.Block{T: hs.TNull}
			tb.Stmts = append(tb.Stmts, use(recCall(1))...)
			if g.chance("recThrowAfterCall", 40) {
				tb.Stmts = append(tb.Stmts, g.throwStmt(1, true))
			}
			g.pop()
			cb := &hs.Block{T: hs.TNull, Stmts: []hs.Stmt{hs.ExprStmt{X: hs.Call{Fn: hs.Ident{Name: "println"}, Args: []hs.Expr{hs.StrLit{V: fname + " caught"}, nId, hs.Member{X: hs.Ident{Name: ev, T: errObjT}, Name: "message", T: hs.TStr}}, T: hs.TNull}}}}
			if g.chance("recRethrow", 25) {
				cb.Stmts = append(cb.Stmts, hs.ExprStmt{X: &hs.If{Cond: hs.Infix{Op: "==", L: hs.Infix{Op: "%", L: nId, R: hs.IntLit{V: 2}, T: hs.TInt}, R: hs.IntLit{V: 0}, T: hs.TBool},
					Then: &hs.Block{T: hs.TNull, Stmts: []hs.Stmt{hs.ExprStmt{X: hs.Call{Fn: hs.Ident{Name: "throw"}, Args: []hs.Expr{hs.StrLit{V: "again"}}, T: hs.TNever}}}}, T: hs.TNull}})
			}
			body.Stmts = append(body.Stmts, hs.ExprStmt{X: &hs.Try{Body: tb, CatchVar: ev, Catch: cb, T: hs.TNull}})
			g.feat("recursion-in-try")
		case shape == 2:
			g.push()
			body.Stmts = append(body.Stmts, use(recCall(1))...)
			body.Stmts = append(body.Stmts, use(recCall(2))...)
			g.pop()
			g.feat("recursion-tree")
		default:
			g.push()
			body.Stmts = append(body.Stmts, use(recCall(1))...)
			g.pop()
			g.feat("recursion-plain")
		}
		if g.chance("recPost", 50) {
			body.Stmts = append(body.Stmts, g.stmt(1)...)
		}
		body.Stmts = append(body.Stmts, say("up"))
		if ret.K != hs.KNull {
			body.Tail = g.expr(ret, 2)
		}
		g.pop()
		f.Body = body
		out = append(out, f)
	}
	g.fns = append(g.fns, fnInfo{name: names[0], params: params, ret: ret, rec: true})
	if mutual {
		g.feat("recursion-mutual")
	}
	g.feat("recursion")
	return out
}

func (g *G) fnDef(name string, isMain bool) hs.FnDef {
	f := hs.FnDef{Name: name, Ret: hs.TNull}
	g.nvar = 0
	g.budget = 120
	g.scopes = g.scopes[:1]
	g.push()
	defer g.pop()
	info := fnInfo{name: name, ret: hs.TNull}
	if !isMain {
		if len(g.singles) > 0 && g.chance("singletonParam", 50) {
			s := g.singles[0]
			f.Params = append(f.Params, hs.Param{Name: "sg", T: s.T, Singleton: s.Name})
			g.declare(varInfo{name: "sg", t: s.T, noWrite: true})
			info.single = true
			g.feat("singleton-param")
		}
		np := g.intn("nParams", 0, 3)
		// sometimes the signature of an earlier function is reused (function values of one type can then stand
		// in for each other, e.g. a local named like one function that holds another)
		var twin *fnInfo
		if len(g.fns) > 0 && g.chance("twinSignature", 25) {
			c := g.fns[g.pick("twinOf", len(g.fns))]
			if !c.rec && !c.single {
				twin = &c
				np = len(c.params)
			}
		}
		for i := 0; i < np; i++ {
			pt := g.valueType()
			if twin != nil {
				pt = twin.params[i]
			}
			pn := fmt.Sprintf("p%d", i)
			f.Params = append(f.Params, hs.Param{Name: pn, T: pt})
			info.params = append(info.params, pt)
			g.declare(varInfo{name: pn, t: pt})
		}
		if g.chance("hasRet", 75) {
			f.Ret = g.valueType()
		}
		if twin != nil {
			f.Ret = twin.ret
		}
		info.ret = f.Ret
	}
	rt := f.Ret
	g.retT = &rt
	g.inFn = name
	g.inLoop = 0
	n := g.intn("nStmts", 1, g.c.MaxStmts)
	if isMain {
		n += 2
	}
	body := &hs.Block{T: f.Ret}
	for i := 0; i < n; i++ {
		body.Stmts = append(body.Stmts, g.stmt(g.c.BlockDepth)...)
	}
	if f.Ret.K != hs.KNull && !g.c.off("return-tail") && g.chance("returnTail", 10) {
		// the result is handed back by a final `return v;` statement instead of a tail expression
		body.Stmts = append(body.Stmts, hs.Return{X: g.expr(f.Ret, g.c.MaxDepth)})
		g.feat("return-tail")
	} else if f.Ret.K != hs.KNull && !g.c.off("diverging-tail") && g.chance("divergingTail", 12) {
		// The function's result comes from a `loop` that is only left through `return`: the loop has no
		// `break` of its own, so the function needs no tail expression. Loops WITH a break before it and
		// nested inside it must not change that (each loop's exits are its own).
		if g.chance("breakLoopBefore", 50) {
			body.Stmts = append(body.Stmts, g.breakingLoop())
		}
		lb := &hs.Block{T: hs.TNull}
		savedLoop := g.inLoop
		g.inLoop = 0 // statements of the body must not break / continue THIS loop
		g.push()
		if g.chance("breakLoopInside", 50) {
			lb.Stmts = append(lb.Stmts, g.breakingLoop())
		}
		for i, k := 0, g.intn("nDivBody", 0, 2); i < k; i++ {
			lb.Stmts = append(lb.Stmts, g.stmt(1)...)
		}
		lb.Stmts = append(lb.Stmts, hs.Return{X: g.expr(f.Ret, g.c.MaxDepth-1)})
		g.pop()
		g.inLoop = savedLoop
		body.Stmts = append(body.Stmts, hs.Loop{Body: lb})
		g.feat("diverging-loop-tail")
	} else if f.Ret.K != hs.KNull {
		body.Tail = g.expr(f.Ret, g.c.MaxDepth)
		// a function that returns from inside a try block (its handler must be gone afterwards)
		if g.c.Throws && !g.c.Pure && g.chance("returnFromTry", 20) {
			ev := g.fresh("e")
			ret := hs.ExprStmt{X: &hs.If{Cond: g.expr(hs.TBool, 1), Then: &hs.Block{Stmts: []hs.Stmt{hs.Return{X: g.expr(f.Ret, 1)}}, T: hs.TNull}, T: hs.TNull}}
			inner := &hs.Block{Stmts: []hs.Stmt{ret}, Tail: body.Tail, T: f.Ret}
			if g.chance("nestedTry", 40) {
				ev2 := g.fresh("e")
				inner = &hs.Block{T: f.Ret, Tail: &hs.Try{Body: inner, CatchVar: ev2, Catch: &hs.Block{T: f.Ret, Tail: g.literal(f.Ret)}, T: f.Ret}}
			}
			body.Tail = &hs.Try{Body: inner, CatchVar: ev, Catch: &hs.Block{T: f.Ret, Tail: g.literal(f.Ret)}, T: f.Ret}
			g.feat("return-from-try")
		}
	}
	if isMain && g.c.Throws && !g.c.off("uncaught-throw") && g.chance("tailThrow", 15) {
		// an exception nothing encloses: must end the run as an uncaught throw, whatever ran before
		body.Stmts = append(body.Stmts, hs.ExprStmt{X: hs.Call{Fn: hs.Ident{Name: "throw"}, Args: []hs.Expr{hs.StrLit{V: "tail"}}, T: hs.TNever}})
		g.feat("tail-throw")
	}
	f.Body = body
	if !isMain {
		g.fns = append(g.fns, info)
	}
	return f
}
