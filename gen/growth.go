package gen

import "verif/hs"

// Walk visits every expression of the program (pre-order).
func walkExpr(e hs.Expr, f func(hs.Expr)) {
	if e == nil {
		return
	}
	f(e)
	switch x := e.(type) {
	case hs.RangeLit:
		walkExpr(x.Lo, f)
		walkExpr(x.Hi, f)
	case hs.ListLit:
		for _, a := range x.Elems {
			walkExpr(a, f)
		}
	case hs.ObjLit:
		for _, a := range x.Vals {
			walkExpr(a, f)
		}
	case hs.Prefix:
		walkExpr(x.X, f)
	case hs.Infix:
		walkExpr(x.L, f)
		walkExpr(x.R, f)
	case hs.Assign:
		walkExpr(x.L, f)
		walkExpr(x.R, f)
	case hs.Call:
		walkExpr(x.Fn, f)
		for _, a := range x.Args {
			walkExpr(a, f)
		}
	case hs.Index:
		walkExpr(x.X, f)
		walkExpr(x.I, f)
	case hs.Member:
		walkExpr(x.X, f)
	case hs.Cast:
		walkExpr(x.X, f)
	case hs.Paren:
		walkExpr(x.X, f)
	case *hs.Block:
		if x != nil {
			walkBlock(x, f)
		}
	case *hs.If:
		walkExpr(x.Cond, f)
		walkBlock(x.Then, f)
		if x.Else != nil {
			walkExpr(x.Else, f)
		}
	case *hs.Match:
		walkExpr(x.X, f)
		for _, a := range x.Arms {
			for _, l := range a.Lits {
				walkExpr(l, f)
			}
			walkExpr(a.Body, f)
		}
	case *hs.Try:
		walkBlock(x.Body, f)
		walkBlock(x.Catch, f)
	case *hs.FnLit:
		walkBlock(x.Body, f)
	case hs.Spawn:
		for _, a := range x.Args {
			walkExpr(a, f)
		}
	}
}

func walkBlock(b *hs.Block, f func(hs.Expr)) {
	if b == nil {
		return
	}
	for _, s := range b.Stmts {
		switch s := s.(type) {
		case hs.Let:
			walkExpr(s.X, f)
		case hs.Return:
			walkExpr(s.X, f)
		case hs.Loop:
			walkBlock(s.Body, f)
		case hs.While:
			walkExpr(s.Cond, f)
			walkBlock(s.Body, f)
		case hs.For:
			walkExpr(s.Iter, f)
			walkBlock(s.Body, f)
		case hs.ExprStmt:
			walkExpr(s.X, f)
		case hs.TriggerStmt:
			for _, a := range s.Args {
				walkExpr(a, f)
			}
		}
	}
	walkExpr(b.Tail, f)
}

func growing(t hs.Type) bool { return t.K == hs.KStr || t.K == hs.KList }

// mentionsData: the expression contains a string- or list-typed variable, field, element or a call of a
// user function that returns such a value.
func mentionsData(e hs.Expr, userFn map[string]bool) bool {
	found := false
	walkExpr(e, func(x hs.Expr) {
		switch x := x.(type) {
		case hs.Ident:
			if growing(x.T) {
				found = true
			}
		case hs.Call:
			if id, ok := x.Fn.(hs.Ident); ok && userFn[id.Name] && growing(x.T) {
				found = true
			}
		}
	})
	return found
}

// MayExplode is a static over-approximation of "the program can grow a string or list geometrically":
// an assignment / compound assignment to a string or list place whose right-hand side mentions string or
// list data again (s += s, s = s + t.to_upper(), l = l.concat(l) ...), or a concat whose argument does.
// Linear growth (s += "x", s += i.to_string(), l.push(v)) is not flagged. It is used only where the
// reference evaluator - which measures growth exactly - could not run the program.
func MayExplode(p *hs.Program) bool {
	userFn := map[string]bool{}
	for _, m := range p.Modules {
		for _, f := range m.Fns {
			userFn[f.Name] = true
		}
	}
	found := false
	for _, m := range p.Modules {
		for i := range m.Fns {
			walkBlock(m.Fns[i].Body, func(x hs.Expr) {
				switch x := x.(type) {
				case hs.Assign:
					if growing(x.L.Type()) && mentionsData(x.R, userFn) {
						found = true
					}
				case hs.Call:
					if mem, ok := x.Fn.(hs.Member); ok && (mem.Name == "concat" || mem.Name == "repeat") && growing(mem.X.Type()) {
						for _, a := range x.Args {
							if mentionsData(a, userFn) || mem.Name == "repeat" {
								found = true
							}
						}
					}
				}
			})
		}
	}
	return found
}
