package c02

import (
	"fmt"
	"strings"
	"sync"
	"testing"

	"pgregory.net/rapid"

	"verif/gen"
	"verif/pairs"
	"verif/pk"
	"verif/px"
	"verif/sb"
)

func TestMain(m *testing.M) { pk.Main(m) }

type Case struct {
	px.ProgCase
	Backends []string
}

func wildCfg() gen.Cfg {
	c := gen.ModelCfg()
	c.Wild = true
	c.Unicode = true
	c.Fatal = true
	for _, g := range []string{"exit-pending", "null-value"} {
		if pk.GateOpen(g) {
			c.Off[g] = true
		}
	}
	return c
}

var wellFormed = map[string]bool{"ok": true, "fatal": true, "exception": true, "terminated": true, "exit": true}

// checkRobust: an accepted program returns control with a well-formed outcome on each backend;
// the host never dies, never hangs, and typed host functions never see a value of the wrong type.
func checkRobust(c Case) *pk.Failure {
	backends := c.Backends
	if len(backends) == 0 {
		backends = []string{"vm", "tree"}
	}
	for _, b := range backends {
		req := c.Request(b)
		resp := px.Pool().Exec(req)
		if f := px.SandboxFailure("robust", resp); f != nil {
			f.Sig = b + " " + f.Sig
			f.Msg = fmt.Sprintf("backend %s, limits %+v\n%s\n%s", b, c.Limits, px.ProgText(c.ProgCase), f.Msg)
			return f
		}
		if resp.Inconclusive {
			pk.Inconclusive()
			continue
		}
		if !resp.Accepted {
			pk.Discard("not-accepted")
			return nil
		}
		r := resp.Run(b)
		if r == nil {
			return pk.Failf("robust", b+" no-run", "no run result")
		}
		if r.InitPanic != "" {
			return pk.Failf("robust", b+" init-panic: "+firstWords(r.InitPanic), "initialisation panicked: %s\n%s", r.InitPanic, px.ProgText(c.ProgCase))
		}
		if r.CompileErr != "" {
			return pk.Failf("robust", b+" compile-error", "compiler error for an accepted program: %s\n%s", r.CompileErr, px.ProgText(c.ProgCase))
		}
		if !wellFormed[r.Outcome.Class] {
			return pk.Failf("robust", b+" outcome:"+r.Outcome.Class, "ill-formed outcome %+v\n%s", r.Outcome, px.ProgText(c.ProgCase))
		}
		if len(r.HostTypeErrors) > 0 {
			return pk.Failf("robust", b+" host-type", "a typed host function received a value of the wrong dynamic type: %v\n%s", r.HostTypeErrors, px.ProgText(c.ProgCase))
		}
		pk.Class(b + ":" + r.Outcome.Class + ":" + r.Outcome.Kind)
	}
	return nil
}

func firstWords(s string) string {
	f := strings.Fields(s)
	if len(f) > 6 {
		f = f[:6]
	}
	return strings.Join(f, " ")
}

func init() { pk.Reg("robust", checkRobust) }

func TestReplay(t *testing.T) { pk.ReplayTest(t) }

var limitPool = []uint{1, 2, 3, 4, 5, 6, 7, 8, 16, 64, 500, 10000}

func TestRobust(t *testing.T) {
	pk.SkipIfReplay(t)
	cfg := wildCfg()
	rapid.Check(t, func(rt *rapid.T) {
		g := gen.Program(rt, cfg)
		pk.Eval()
		if tr, ok := px.Model(g); !ok && px.TooBig(tr) {
			pk.Discard("unbounded-growth")
			return
		} else if !ok && gen.MayExplode(g.Prog) {
			// the reference evaluator stopped at a hostile construct, so it could not measure growth: programs
			// that may grow data geometrically are not run (they exhaust memory or time, not the property)
			pk.Discard("possible-geometric-growth(static)")
			return
		}
		c := Case{ProgCase: px.FromGenerated(g)}
		if rapid.IntRange(0, 99).Draw(rt, "tightLimits") < 40 {
			c.Limits = sb.Limits{
				Call:     limitPool[rapid.IntRange(0, len(limitPool)-1).Draw(rt, "limCall")],
				Stack:    limitPool[rapid.IntRange(0, len(limitPool)-1).Draw(rt, "limStack")],
				Mem:      limitPool[rapid.IntRange(0, len(limitPool)-1).Draw(rt, "limMem")],
				TreeCall: limitPool[rapid.IntRange(0, len(limitPool)-1).Draw(rt, "limTree")],
			}
			pk.Class("tight-limits")
			// Gate for open finding C02-009 (NewVM panics when the initialisation code exceeds a limit): while it
			// is open, programs with global initialisers keep an operand stack that their @init code fits in.
			if pk.GateOpen("init-under-limits") && len(g.Prog.Modules[0].Globals) > 0 && c.Limits.Stack < 16 {
				c.Limits.Stack = 16
				pk.Gate("init-under-limits")
			}
		}
		hostile := 0
		for k, n := range g.Feat {
			switch k {
			case "int-op", "index", "call", "throw", "list-mutate", "lambda", "div-zero", "index-oob":
				hostile += n
			}
		}
		if hostile > 0 {
			pk.NonTrivial(px.ProgText(c.ProgCase)+fmt.Sprint(c.Limits), map[string]any{"program": c.Modules["main"], "limits": c.Limits})
		}
		pk.Judge(rt, c, checkRobust(c))
	})
}

// The cross-product programs of verif/pairs (every pool expression under every operator, assignment operator,
// index, call, member, declared type ...): most are rejected; each one the analyzer ACCEPTS must run to a
// well-formed outcome on both backends. Random generation only builds operator/operand combinations its own
// type rules allow, so a combination that only the analyzer wrongly allows is reached here, not there.
func TestTablePairsRun(t *testing.T) {
	pk.SkipIfReplay(t)
	col := pk.NewCollector()
	progs := pairs.Programs()
	var wg sync.WaitGroup
	sem := make(chan struct{}, 16)
	for i := range progs {
		if !pk.Mine(i) {
			continue
		}
		wg.Add(1)
		sem <- struct{}{}
		go func(i int) {
			defer wg.Done()
			defer func() { <-sem }()
			c := Case{ProgCase: px.ProgCase{Modules: map[string]string{"main": progs[i].Text}, Entry: "main", Limits: sb.DefaultLimits(), Note: progs[i].Kind}}
			pk.Eval()
			pk.Class(progs[i].Kind)
			// analysis once; only accepted programs are run
			resp := px.Pool().Exec(&sb.Request{Op: "analyze", Modules: c.Modules, Entry: "main"})
			if resp == nil || resp.Crash != "" || resp.Hang || !resp.Accepted {
				return // analysis failures are C05's subject
			}
			pk.Class("pairs-accepted")
			pk.NonTrivial(progs[i].Text, map[string]any{"program": progs[i].Text})
			for _, b := range []string{"vm", "tree"} {
				cb := c
				cb.Backends = []string{b}
				f := checkRobust(cb)
				if f != nil {
					f.Sig = f.Sig + " [" + progs[i].Kind + "]"
				}
				col.Report(cb, f)
			}
		}(i)
	}
	wg.Wait()
	pk.Exhaustive("pairs-accepted-run")
	col.Done(t)
}

// The hand-written snippets of verif/pairs (C04 compares the backends on them): here every accepted one must run
// to a well-formed outcome on each backend.
func TestTableSnippetsRun(t *testing.T) {
	pk.SkipIfReplay(t)
	col := pk.NewCollector()
	for k, body := range pairs.Snippets {
		if !pk.Mine(k) {
			continue
		}
		text := "fn main() {\n    " + body + "\n}\n"
		c := Case{ProgCase: px.ProgCase{Modules: map[string]string{"main": text}, Entry: "main", Limits: sb.DefaultLimits(), Note: fmt.Sprintf("snippet %d", k)}}
		pk.Eval()
		resp := px.Pool().Exec(&sb.Request{Op: "analyze", Modules: c.Modules, Entry: "main"})
		if resp == nil || !resp.Accepted {
			continue
		}
		pk.NonTrivial(body, map[string]any{"snippet": body})
		for _, b := range []string{"vm", "tree"} {
			cb := c
			cb.Backends = []string{b}
			f := checkRobust(cb)
			if f != nil {
				f.Sig = fmt.Sprintf("%s [snippet %d: %.40s]", f.Sig, k, body)
			}
			col.Report(cb, f)
		}
	}
	pk.Exhaustive("snippets-run")
	col.Done(t)
}
