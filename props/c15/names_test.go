package c15

import (
	"fmt"
	"testing"

	"verif/hs"
	"verif/pk"
	"verif/px"
	"verif/sb"
)

// Hand-written linking cases whose expected output follows directly from the C15 statement: items are
// linked by (module, name) - never by a name that is merely spelled alike - and a function value keeps
// belonging to the module it was created in.

type linkRow struct {
	name  string
	mods  map[string]string
	want  string
	entry string // "" = main
	// reject: the program must receive an error-level diagnostic (a faulty import)
	reject bool
}

var linkRows = []linkRow{
	{name: "function-names-that-concatenate-alike", want: "1 2\n", mods: map[string]string{
		"main": "import { b_c } from a;\nimport { c } from a_b;\nfn main() { println(b_c(), c()); }\n",
		"a":    "pub fn b_c() -> int { 1 }\nfn main() {}\n",
		"a_b":  "pub fn c() -> int { 2 }\nfn main() {}\n"}},
	{name: "global-names-that-concatenate-alike", want: "2 101\n3 102\n", mods: map[string]string{
		"main": "import { fa } from a;\nimport { fb } from a_b;\nfn main() { println(fa(), fb()); println(fa(), fb()); }\n",
		"a":    "let b_x = 1;\npub fn fa() -> int { b_x += 1; b_x }\nfn main() {}\n",
		"a_b":  "let x = 100;\npub fn fb() -> int { x += 1; x }\nfn main() {}\n"}},
	{name: "pub-global-names-that-concatenate-alike", want: "1 100\n", mods: map[string]string{
		"main": "import { b_x } from a;\nimport { x } from a_b;\nfn main() { println(b_x, x); }\n",
		"a":    "pub let b_x = 1;\nfn main() {}\n",
		"a_b":  "pub let x = 100;\nfn main() {}\n"}},
	{name: "builtin-import-vs-private-function-elsewhere", want: "lib 7 8\nmain ok 5\n", mods: map[string]string{
		"main": "import assert_eq from testing;\nimport { helper } from lib;\nfn main() { assert_eq(1, 1); println(\"main ok\", helper()); }\n",
		"lib":  "fn assert_eq(a: int, b: int) { println(\"lib\", a, b); }\npub fn helper() -> int { assert_eq(7, 8); 5 }\nfn main() {}\n"}},
	// what the HOST invokes by name (main, event functions) belongs to the entry module, whatever the other modules
	// export and however their names sort against the entry's
	{name: "library-exports-main-and-sorts-behind-the-entry", want: "entry main 5\n", mods: map[string]string{
		"main": "import { helper } from util;\nfn main() { println(\"entry main\", helper()); }\n",
		"util": "pub fn helper() -> int { 5 }\npub fn main() { println(\"util main\"); }\n"}},
	{name: "library-exports-main-and-sorts-before-the-entry", want: "entry main 5\n", mods: map[string]string{
		"main": "import { helper } from lib;\nfn main() { println(\"entry main\", helper()); }\n",
		"lib":  "pub fn helper() -> int { 5 }\npub fn main() { println(\"lib main\"); }\n"}},
	{name: "two-libraries-export-main-around-the-entry", want: "entry 1 2\n", mods: map[string]string{
		"main": "import { one } from aaa;\nimport { two } from zzz;\nlet tag = \"entry\";\nfn main() { println(tag, one(), two()); }\n",
		"aaa":  "let tag = \"aaa\";\npub fn one() -> int { 1 }\npub fn main() { println(tag); }\n",
		"zzz":  "let tag = \"zzz\";\npub fn two() -> int { 2 }\npub fn main() { println(tag); }\n"}},
	{name: "entry-is-not-called-main-and-sorts-first", want: "entry 7\n", entry: "app", mods: map[string]string{
		"app":  "import { seven } from main;\nfn main() { println(\"entry\", seven()); }\n",
		"main": "pub fn seven() -> int { 7 }\npub fn main() { println(\"library called main\"); }\n"}},
	// module names are names: two that differ only in the case of a letter are two modules
	{name: "module-names-differing-in-case", want: "upper 1\nlower 101\nupper 2\n", mods: map[string]string{
		"main":   "import { describe } from Lights;\nimport { tell } from lights;\nfn main() { describe(); tell(); describe(); }\n",
		"Lights": "let n = 0;\npub fn describe() { n += 1; println(\"upper\", n); }\nfn main() {}\n",
		"lights": "let n = 100;\npub fn tell() { n += 1; println(\"lower\", n); }\nfn main() {}\n"}},
	{name: "mixed-case-module-name", want: "Mixed 7\n", mods: map[string]string{
		"main":      "import { seven } from MixedCase;\nfn main() { println(\"Mixed\", seven()); }\n",
		"MixedCase": "pub fn seven() -> int { 7 }\nfn main() {}\n"}},
	{name: "missing-module-that-exists-in-another-case", reject: true, mods: map[string]string{
		"main":   "import { tell } from LIGHTS;\nfn main() { tell(); }\n",
		"lights": "pub fn tell() { println(\"lower\"); }\nfn main() {}\n"}},
	// every module's globals are initialised before main runs, whatever the order and multiplicity of the import
	// statements that lead to it
	{name: "shared-module-imported-before-a-new-one", want: "util 1\nb 12\nd 105\n", mods: map[string]string{
		"main": "import { u } from util;\nimport { fb } from b;\nfn main() { println(\"util\", u()); fb(); }\n",
		"util": "let n = 0;\npub fn u() -> int { n += 1; n }\nfn main() {}\n",
		"b":    "import { u } from util;\nimport { fd } from d;\nlet base = 10;\npub fn fb() { println(\"b\", base + u()); println(\"d\", fd()); }\nfn main() {}\n",
		"d":    "let counter = 100;\nlet step = 5;\npub fn fd() -> int { counter += step; counter }\nfn main() {}\n"}},
	{name: "two-statements-for-one-module-then-a-new-module", want: "3 41\n", mods: map[string]string{
		"main": "import { type Pair } from b;\nimport { make } from b;\nimport { get_c } from c;\nfn main() { let p: Pair = make(); println(p.l + p.r, get_c()); }\n",
		"b":    "pub type Pair = { l: int, r: int };\nlet one = 1;\npub fn make() -> Pair { new { l: one, r: one + 1 } }\nfn main() {}\n",
		"c":    "let counter = 40;\npub fn get_c() -> int { counter += 1; counter }\nfn main() {}\n"}},
	{name: "new-module-behind-three-known-ones", want: "1 2 3 9\n", mods: map[string]string{
		"main": "import { fa } from a;\nimport { fb } from b;\nimport { fc } from c;\nfn main() { println(fa(), fb(), fc(), fz()); }\nimport { fz } from z;\n",
		"a":    "let v = 1;\npub fn fa() -> int { v }\nfn main() {}\n",
		"b":    "import { fa } from a;\nlet v = 2;\npub fn fb() -> int { v + fa() - 1 }\nfn main() {}\n",
		"c":    "import { fa } from a;\nimport { fb } from b;\nimport { fz } from z;\nlet v = 3;\npub fn fc() -> int { v + fa() + fb() + fz() - 12 }\nfn main() {}\n",
		"z":    "let v = 9;\npub fn fz() -> int { v }\nfn main() {}\n"}},
	// a module that is entered a second time (from another module) while a call into it is still running
	{name: "module-re-entered-through-a-callback-chain", want: "210\n1 10\n", mods: map[string]string{
		"main": "import { f, ax } from a;\nimport { k } from b;\nlet x = 1;\nfn h() -> int { k() }\nfn main() { println(f(h)); println(x, ax()); }\n",
		"a":    "import { g } from b;\nlet x = 10;\npub fn f(cb: fn() -> int) -> int { let r = g(cb); x + r }\npub fn ax() -> int { x }\nfn main() {}\n",
		"b":    "let x = 100;\npub fn g(cb: fn() -> int) -> int { cb() + x }\npub fn k() -> int { x }\nfn main() {}\n"}},
	{name: "module-re-entered-twice", want: "1231\n", mods: map[string]string{
		"main": "import { f } from a;\nimport { k } from b;\nlet x = 1;\nfn h() -> int { k() + x }\nfn main() { println(f(h)); }\n",
		"a":    "import { g } from b;\nlet x = 10;\npub fn f(cb: fn() -> int) -> int { let r = g(cb); let s = g(cb); x + r + s * 10 - x * 0 }\nfn main() {}\n",
		"b":    "let x = 100;\npub fn g(cb: fn() -> int) -> int { cb() + x - 90 }\npub fn k() -> int { x }\nfn main() {}\n"}},
	{name: "closure-callback-calls-back-into-the-library", want: "100 1\n", mods: map[string]string{
		"main": "import { run, get, bump } from b;\nlet counter = 100;\nfn main() { let cb = fn() { bump(); }; run(cb); println(counter, get()); }\n",
		"b":    "let counter = 0;\npub fn bump() { counter += 1; }\npub fn run(cb: fn() -> null) { cb(); }\npub fn get() -> int { counter }\nfn main() {}\n"}},
	{name: "closure-callback-updates-its-own-module", want: "101 0\n", mods: map[string]string{
		"main": "import { run, get } from b;\nlet counter = 100;\nfn main() { let cb = fn() { counter += 1; }; run(cb); println(counter, get()); }\n",
		"b":    "let counter = 0;\npub fn run(cb: fn() -> null) { cb(); }\npub fn get() -> int { counter }\nfn main() {}\n"}},
	{name: "closure-callback-then-library-function", want: "in cb 100\n100 1\n", mods: map[string]string{
		"main": "import { run, get } from b;\nlet counter = 100;\nfn main() { let cb = fn() { println(\"in cb\", counter); }; run(cb); println(counter, get()); }\n",
		"b":    "let counter = 0;\nfn bump() { counter += 1; }\npub fn run(cb: fn() -> null) { cb(); bump(); }\npub fn get() -> int { counter }\nfn main() {}\n"}},
	{name: "function-value-passed-across-modules", want: "7 1\n", mods: map[string]string{
		"main": "import { apply, count } from b;\nlet calls = 7;\nfn mine(n: int) -> int { calls }\nfn main() { println(apply(mine), count()); }\n",
		"b":    "let calls = 0;\npub fn apply(f: fn(n: int) -> int) -> int { calls += 1; f(1) }\npub fn count() -> int { calls }\nfn main() {}\n"}},
	// a call that ends in another module's throw: afterwards the catching function still runs in ITS module
	{name: "throw-across-module-caught-in-importer", want: "caught boom a\nmain main\na\nmain\n", mods: map[string]string{
		"main": "import { f } from a;\nlet tag = \"main\";\nfn local() -> str { tag }\nfn main() { try { println(f(1)); } catch e { println(\"caught\", e.message); } println(tag, local()); println(f(0)); println(tag); }\n",
		"a":    "let tag = \"a\";\npub fn f(n: int) -> str { if n == 1 { throw(\"boom \" + tag); } tag }\nfn main() {}\n"}},
	{name: "throw-through-two-modules-caught-in-the-middle", want: "a caught boom b\na a\nmain\n", mods: map[string]string{
		"main": "import { f } from a;\nlet tag = \"main\";\nfn main() { f(); println(tag); }\n",
		"a":    "import { h } from b;\nlet tag = \"a\";\nfn mine() -> str { tag }\npub fn f() { try { h(); } catch e { println(tag, \"caught\", e.message); } println(tag, mine()); }\nfn main() {}\n",
		"b":    "let tag = \"b\";\npub fn h() { throw(\"boom \" + tag); }\nfn main() {}\n"}},
	{name: "throw-from-callback-of-another-module", want: "caught from main\nb 1\nmain\n", mods: map[string]string{
		"main": "import { run, show } from b;\nlet tag = \"main\";\nfn main() { let cb = fn() { throw(\"from \" + tag); }; try { run(cb); } catch e { println(\"caught\", e.message); } show(); println(tag); }\n",
		"b":    "let tag = \"b\";\nlet n = 0;\npub fn run(cb: fn() -> null) { n += 1; cb(); n += 100; }\npub fn show() { println(tag, n); }\nfn main() {}\n"}},
	{name: "throw-across-module-in-a-loop", want: "0 a\ncaught 1\n2 a\ncaught 3\nmain 4\n", mods: map[string]string{
		"main": "import { f } from a;\nlet tag = \"main\";\nlet seen = 0;\nfn main() { for i in 0..4 { try { println(i, f(i)); } catch e { println(\"caught\", e.message); } seen += 1; } println(tag, seen); }\n",
		"a":    "let tag = \"a\";\nlet seen = 50;\npub fn f(n: int) -> str { seen += 1; if n % 2 == 1 { throw(n.to_string()); } tag }\nfn main() {}\n"}},
	{name: "early-return-across-modules", want: "a-early main\na-late main\n", mods: map[string]string{
		"main": "import { f } from a;\nlet tag = \"main\";\nfn main() { println(f(true), tag); println(f(false), tag); }\n",
		"a":    "let tag = \"a\";\npub fn f(c: bool) -> str { for i in 0..3 { if c { return tag + \"-early\"; } } tag + \"-late\" }\nfn main() {}\n"}},
	// an imported global IS the defining module's global: both sides see each other's updates
	{name: "imported-global-is-shared", want: "1 1\n2 2\n12 12\n", mods: map[string]string{
		"main": "import { g, bump, get } from a;\nfn main() { println(g, get()); bump(); println(g, get()); g += 10; println(g, get()); }\n",
		"a":    "pub let g = 1;\npub fn bump() { g += 1; }\npub fn get() -> int { g }\nfn main() {}\n"}},
	{name: "imported-global-shared-by-two-importers", want: "5 5 5\n", mods: map[string]string{
		"main": "import { g } from a;\nimport { setg, viab } from b;\nfn main() { setg(5); println(g, viab(), g); }\n",
		"a":    "pub let g = 1;\nfn main() {}\n",
		"b":    "import { g } from a;\npub fn setg(v: int) { g = v; }\npub fn viab() -> int { g }\nfn main() {}\n"}},
	{name: "module-state-survives-a-second-import-statement", want: "1 11 112\n", mods: map[string]string{
		"main": "import { f } from a;\nimport { h } from a;\nimport { k } from b;\nfn main() { println(f(), h(), k()); }\n",
		"a":    "let n = 0;\npub fn f() -> int { n += 1; n }\npub fn h() -> int { n += 10; n }\nfn main() {}\n",
		"b":    "import { f } from a;\npub fn k() -> int { f() + 100 }\nfn main() {}\n"}},
	{name: "same-function-name-in-three-modules", want: "a.f b.f c.f main.f\n", mods: map[string]string{
		"main": "import { ga } from a;\nimport { gb } from b;\nimport { gc } from c;\nfn f() -> str { \"main.f\" }\nfn main() { println(ga(), gb(), gc(), f()); }\n",
		"a":    "fn f() -> str { \"a.f\" }\npub fn ga() -> str { f() }\nfn main() {}\n",
		"b":    "fn f() -> str { \"b.f\" }\npub fn gb() -> str { f() }\nfn main() {}\n",
		"c":    "fn f() -> str { \"c.f\" }\npub fn gc() -> str { f() }\nfn main() {}\n"}},
}

func checkLink(c px.ProgCase) *pk.Failure {
	req := c.Request("vm", "tree")
	req.Rep = 3
	resp := px.Pool().Exec(req)
	if f := px.SandboxFailure("link", resp); f != nil {
		f.Msg = c.Note + "\n" + px.ProgText(c) + "\n" + f.Msg
		return f
	}
	if resp.Inconclusive {
		pk.Inconclusive()
		return nil
	}
	if len(resp.Reps) == 0 {
		return pk.Failf("link", "no-reps", "no repetitions")
	}
	for ri, rep := range resp.Reps {
		if len(rep.SyntaxErrors) > 0 || len(errorsOf(rep.Diags)) > 0 {
			msg := ""
			for _, d := range append(rep.SyntaxErrors, errorsOf(rep.Diags)...) {
				msg += fmt.Sprintf("%s: %s @%s:%d:%d\n", d.Level, d.Message, d.Span.Filename, d.Span.Start.Line, d.Span.Start.Column)
			}
			return pk.Failf("link", "table-rejected", "analyzer rejected the table program %s:\n%s\n%s", c.Note, msg, px.ProgText(c))
		}
		for i := range rep.Runs {
			pk.Extra("comparisons", 1)
			if cls, msg := px.CompareRun(c.Expect, &rep.Runs[i]); cls != "" {
				return pk.Failf("link", rep.Runs[i].Backend+" link:"+cls, "%s on %s (repetition %d): %s\n%s", c.Note, rep.Runs[i].Backend, ri, msg, px.ProgText(c))
			}
		}
	}
	return nil
}

func errorsOf(ds []sb.Diag) []sb.Diag {
	var out []sb.Diag
	for _, d := range ds {
		if d.Level == "error" {
			out = append(out, d)
		}
	}
	return out
}

func init() { pk.Reg("link", checkLink) }

func TestTableLinking(t *testing.T) {
	pk.SkipIfReplay(t)
	col := pk.NewCollector()
	for k, r := range linkRows {
		if !pk.Mine(k) {
			continue
		}
		var writes []string
		cur := ""
		for _, ch := range r.want {
			cur += string(ch)
			if ch == '\n' {
				writes = append(writes, cur)
				cur = ""
			}
		}
		entry := "main"
		if r.entry != "" {
			entry = r.entry
		}
		c := px.ProgCase{Modules: r.mods, Entry: entry, Limits: sb.DefaultLimits(), Note: "linking " + r.name,
			Expect: &px.Exp{Writes: writes, Outcome: hs.Outcome{Class: "ok"}}}
		pk.Eval()
		pk.NonTrivial(c.Note, map[string]any{"row": r.name})
		if r.reject {
			resp := px.Pool().Exec(&sb.Request{Op: "analyze", Modules: c.Modules, Entry: entry})
			var f *pk.Failure
			if f = px.SandboxFailure("link", resp); f == nil && !resp.Inconclusive && len(resp.SyntaxErrors) == 0 && len(errorsOf(resp.Diags)) == 0 {
				f = pk.Failf("link", "faulty-import-accepted:"+r.name, "no error-level diagnostic for %s\n%s", c.Note, px.ProgText(c))
			}
			col.Report(c, f)
			continue
		}
		col.Report(c, checkLink(c))
	}
	pk.Exhaustive("table-linking")
	col.Done(t)
}
