package c15

import (
	"fmt"
	"sort"
	"strings"
	"sync"
	"testing"

	"verif/gen"
	"verif/hs"
	"verif/pk"
	"verif/px"
	"verif/sb"
)

func TestMain(m *testing.M) { pk.Main(m) }

// Edge: `From` imports one item of the given kind from `To`.
type Edge struct {
	From, To string
	Kind     string // ok-fn ok-global ok-type private-fn private-global missing-item wrong-kind-type wrong-kind-value missing-module reimport-fn reimport-global reimport-type
	Of       string `json:",omitempty"` // reimport-*: the module whose pub item `To` has merely imported itself
}

type Graph struct {
	Name      string
	Mods      []string // library modules (entry "main" is implicit)
	Edges     []Edge
	Singleton bool // module "a" declares a singleton that its function extracts
}

func (g Graph) String() string {
	parts := []string{}
	for _, e := range g.Edges {
		parts = append(parts, fmt.Sprintf("%s-[%s%s]->%s", e.From, e.Kind, map[bool]string{true: " of " + e.Of, false: ""}[e.Of != ""], e.To))
	}
	s := g.Name + ": " + strings.Join(parts, " ")
	if g.Singleton {
		s += " +singleton"
	}
	return s
}

var faultKinds = map[string]bool{"private-event-fn": true, "private-fn": true, "private-global": true, "missing-item": true, "wrong-kind-type": true, "wrong-kind-value": true, "missing-module": true,
	"reimport-fn": true, "reimport-global": true, "reimport-type": true}

func (g Graph) faulty() bool {
	for _, e := range g.Edges {
		if faultKinds[e.Kind] {
			return true
		}
	}
	return g.cyclic()
}

func (g Graph) cyclic() bool {
	adj := map[string][]string{}
	for _, e := range g.Edges {
		if e.Kind == "missing-module" {
			continue
		}
		adj[e.From] = append(adj[e.From], e.To)
	}
	state := map[string]int{}
	var visit func(n string) bool
	visit = func(n string) bool {
		if state[n] == 1 {
			return true
		}
		if state[n] == 2 {
			return false
		}
		state[n] = 1
		for _, m := range adj[n] {
			if visit(m) {
				return true
			}
		}
		state[n] = 2
		return false
	}
	for _, n := range append([]string{"main"}, g.Mods...) {
		if visit(n) {
			return true
		}
	}
	return false
}

// cycleReachable: is there a cycle among the modules reachable from main, counting only edges whose import
// statement names an existing module (every kind but missing-module)?
func (g Graph) cycleReachable() bool {
	adj := map[string][]string{}
	for _, e := range g.Edges {
		// (a module that imports from itself is a cycle of its own kind: the unchanged analyzer answers it
		// with "no such item in module", which is a diagnostic all the same; it is judged by the lenient rule)
		if e.Kind != "missing-module" && e.From != e.To {
			adj[e.From] = append(adj[e.From], e.To)
		}
	}
	state := map[string]int{}
	var visit func(n string) bool
	visit = func(n string) bool {
		if state[n] == 1 {
			return true
		}
		if state[n] == 2 {
			return false
		}
		state[n] = 1
		for _, m := range adj[n] {
			if visit(m) {
				return true
			}
		}
		state[n] = 2
		return false
	}
	return visit("main")
}

var base = map[string]int64{"main": 100, "a": 1, "b": 2, "c": 3}

func sl(v string) hs.Expr { return hs.StrLit{V: v} }
func say(args ...hs.Expr) hs.Stmt {
	return hs.ExprStmt{X: hs.Call{Fn: hs.Ident{Name: "println"}, Args: args, T: hs.TNull}}
}
func id(n string, t hs.Type) hs.Expr { return hs.Ident{Name: n, T: t} }

var objT = func(alias string) hs.Type {
	t := hs.TObj(hs.Field{Name: "v", T: hs.TInt})
	t.Alias = alias
	return t
}

// buildModule constructs module n with its outgoing edges.
func buildModule(n string, g Graph) *hs.Module {
	m := &hs.Module{Name: n}
	b := base[n]
	var uses []hs.Stmt
	for i, e := range g.Edges {
		if e.From != n {
			continue
		}
		to := e.To
		switch e.Kind {
		case "ok-fn":
			m.Imports = append(m.Imports, hs.Import{From: to, Items: []hs.ImportItem{{Name: "f_" + to}}})
			uses = append(uses, say(sl(n+" calls "+to), hs.Call{Fn: hs.Ident{Name: "f_" + to, T: hs.TFn(hs.TInt)}, T: hs.TInt}))
		case "ok-global":
			m.Imports = append(m.Imports, hs.Import{From: to, Items: []hs.ImportItem{{Name: "gx_" + to}}})
			uses = append(uses, say(sl(n+" sees "+to), id("gx_"+to, hs.TInt)))
		case "ok-type":
			m.Imports = append(m.Imports, hs.Import{From: to, Items: []hs.ImportItem{{Kind: "type", Name: "T_" + to}}})
			t := objT("T_" + to)
			v := fmt.Sprintf("tv%d", i)
			uses = append(uses, hs.Let{Name: v, Annot: &t, X: hs.ObjLit{Keys: []string{"v"}, Vals: []hs.Expr{hs.IntLit{V: b}}, T: t}},
				say(sl(n+" typed "+to), hs.Member{X: id(v, t), Name: "v", T: hs.TInt}))
		case "private-fn":
			m.Imports = append(m.Imports, hs.Import{From: to, Items: []hs.ImportItem{{Name: "helper_" + to}}})
		case "private-event-fn":
			// an `event fn` carries a modifier, but not `pub`: it is private
			m.Imports = append(m.Imports, hs.Import{From: to, Items: []hs.ImportItem{{Name: "ev_" + to}}})
		case "private-global":
			m.Imports = append(m.Imports, hs.Import{From: to, Items: []hs.ImportItem{{Name: "y_" + to}}})
		case "missing-item":
			m.Imports = append(m.Imports, hs.Import{From: to, Items: []hs.ImportItem{{Name: "nope"}}})
		case "wrong-kind-type":
			m.Imports = append(m.Imports, hs.Import{From: to, Items: []hs.ImportItem{{Kind: "type", Name: "f_" + to}}})
		case "wrong-kind-value":
			m.Imports = append(m.Imports, hs.Import{From: to, Items: []hs.ImportItem{{Name: "T_" + to}}})
		case "missing-module":
			m.Imports = append(m.Imports, hs.Import{From: "zz", Items: []hs.ImportItem{{Name: "nope"}}})
		// an item that `to` has only imported itself (from e.Of) is not one of `to`'s pub items
		case "reimport-fn":
			m.Imports = append(m.Imports, hs.Import{From: to, Items: []hs.ImportItem{{Name: "f_" + e.Of}}})
		case "reimport-global":
			m.Imports = append(m.Imports, hs.Import{From: to, Items: []hs.ImportItem{{Name: "gx_" + e.Of}}})
		case "reimport-type":
			m.Imports = append(m.Imports, hs.Import{From: to, Items: []hs.ImportItem{{Kind: "type", Name: "T_" + e.Of}}})
		}
	}
	// same-named items in every module: globals x, y and function helper (all private)
	m.Globals = append(m.Globals,
		hs.Global{Name: "gx_" + n, X: hs.IntLit{V: b * 1000}, Pub: true},
		hs.Global{Name: "x", X: hs.IntLit{V: b}},
		hs.Global{Name: "y", X: hs.IntLit{V: 0}},
		hs.Global{Name: "y_" + n, X: hs.IntLit{V: 0}},
	)
	m.Types = append(m.Types, hs.TypeDef{Name: "T_" + n, T: hs.TObj(hs.Field{Name: "v", T: hs.TInt}), Pub: true})
	helper := hs.FnDef{Name: "helper", Ret: hs.TInt, Body: &hs.Block{T: hs.TInt, Tail: hs.Infix{Op: "+", L: id("x", hs.TInt), R: hs.IntLit{V: b * 10}, T: hs.TInt}}}
	helperN := hs.FnDef{Name: "helper_" + n, Ret: hs.TInt, Body: &hs.Block{T: hs.TInt, Tail: hs.IntLit{V: b}}}
	body := &hs.Block{T: hs.TInt}
	body.Stmts = append(body.Stmts,
		hs.ExprStmt{X: hs.Assign{Op: "+=", L: id("y", hs.TInt), R: hs.IntLit{V: 1}}},
		hs.ExprStmt{X: hs.Assign{Op: "+=", L: id("x", hs.TInt), R: hs.IntLit{V: 1}}},
		say(sl(n+".f"), id("x", hs.TInt), id("y", hs.TInt), hs.Call{Fn: hs.Ident{Name: "helper", T: hs.TFn(hs.TInt)}, T: hs.TInt}, hs.Call{Fn: hs.Ident{Name: "helper_" + n, T: hs.TFn(hs.TInt)}, T: hs.TInt}, id("y_"+n, hs.TInt)),
	)
	if n != "main" {
		body.Stmts = append(body.Stmts, uses...)
	}
	body.Tail = hs.Infix{Op: "+", L: id("x", hs.TInt), R: id("y", hs.TInt), T: hs.TInt}
	f := hs.FnDef{Name: "f_" + n, Ret: hs.TInt, Pub: true, Body: body}
	if g.Singleton && n == "a" {
		st := hs.TObj(hs.Field{Name: "n", T: hs.TInt})
		m.Singletons = append(m.Singletons, hs.Singleton{Name: "$S", T: st})
		f.Params = []hs.Param{{Name: "sg", T: st, Singleton: "$S"}}
		f.Body.Stmts = append(f.Body.Stmts, say(sl("a singleton"), hs.Member{X: id("sg", st), Name: "n", T: hs.TInt}))
	}
	m.Fns = append(m.Fns, helper, helperN, f)
	if n != "main" {
		m.Fns = append(m.Fns, hs.FnDef{Name: "ev_" + n, Event: true, Params: []hs.Param{{Name: "elapsed", T: hs.TInt}}, Ret: hs.TNull,
			Body: &hs.Block{T: hs.TNull, Stmts: []hs.Stmt{say(sl(n+" event"), id("elapsed", hs.TInt))}}})
	}
	// "... even when other modules define functions or globals with the same names": every module also
	// defines PRIVATE items named like the pub items of each module it does not import from. They are
	// never used; a linker that resolves an import by bare name can pick them up.
	linked := map[string]bool{n: true}
	for _, e := range g.Edges {
		if e.From == n {
			linked[e.To] = true
			if e.Of != "" {
				linked[e.Of] = true
			}
		}
	}
	for _, o := range append([]string{"main"}, g.Mods...) {
		if linked[o] {
			continue
		}
		m.Globals = append(m.Globals, hs.Global{Name: "gx_" + o, X: hs.IntLit{V: -(b*100 + base[o])}})
		m.Fns = append(m.Fns, hs.FnDef{Name: "f_" + o, Ret: hs.TInt, Body: &hs.Block{T: hs.TInt,
			Stmts: []hs.Stmt{say(sl(n + " private look-alike of f_" + o))}, Tail: hs.IntLit{V: -(b*100 + base[o])}}})
	}
	if n == "main" {
		mb := &hs.Block{T: hs.TNull}
		mb.Stmts = append(mb.Stmts, say(sl("main start"), id("x", hs.TInt), hs.Call{Fn: hs.Ident{Name: "helper", T: hs.TFn(hs.TInt)}, T: hs.TInt}))
		for round := 0; round < 2; round++ {
			mb.Stmts = append(mb.Stmts, uses...)
			mb.Stmts = append(mb.Stmts, say(sl("main.f"), hs.Call{Fn: hs.Ident{Name: "f_main", T: hs.TFn(hs.TInt)}, T: hs.TInt}))
		}
		m.Fns = append(m.Fns, hs.FnDef{Name: "main", Ret: hs.TNull, Body: mb})
	} else {
		m.Fns = append(m.Fns, hs.FnDef{Name: "main", Ret: hs.TNull, Body: &hs.Block{T: hs.TNull}})
	}
	return m
}

func buildProgram(g Graph) *hs.Program {
	p := &hs.Program{Entry: "main"}
	for _, n := range append([]string{"main"}, g.Mods...) {
		p.Modules = append(p.Modules, buildModule(n, g))
	}
	return p
}

type Case struct {
	px.ProgCase
	Graph  string
	Faulty bool
	Cyclic bool
	// CycleReachable: a cycle of well-formed import edges can be reached from the entry module through
	// well-formed import edges (so the analyzer meets it, whatever else is wrong elsewhere)
	CycleReachable bool `json:",omitempty"`
	Singletons     int  // expected singleton loads (fault-free graphs)
}

// checkGraph: diagnostics iff the graph is faulty; fault-free graphs behave like the reference.
func checkGraph(c Case) *pk.Failure {
	req := c.Request("vm", "tree")
	req.Rep = 3
	resp := px.Pool().Exec(req)
	if f := px.SandboxFailure("graph", resp); f != nil {
		f.Msg = c.Graph + "\n" + px.ProgText(c.ProgCase) + "\n" + f.Msg
		return f
	}
	if resp.Inconclusive {
		pk.Inconclusive()
		return nil
	}
	errs := resp.ErrorDiags()
	diag := func() string {
		var b strings.Builder
		for _, d := range resp.SyntaxErrors {
			fmt.Fprintf(&b, "  syntax: %s @%s:%d:%d\n", d.Message, d.Span.Filename, d.Span.Start.Line, d.Span.Start.Column)
		}
		for _, d := range resp.Diags {
			fmt.Fprintf(&b, "  %s: %s @%s:%d:%d\n", d.Level, d.Message, d.Span.Filename, d.Span.Start.Line, d.Span.Start.Column)
		}
		return b.String()
	}
	if len(resp.SyntaxErrors) > 0 {
		return pk.Failf("graph", "template-syntax-error", "%s: the template does not parse (harness bug)\n%s%s", c.Graph, diag(), px.ProgText(c.ProgCase))
	}
	if c.Faulty {
		if len(errs) == 0 {
			kind := "faulty-import-accepted"
			if c.Cyclic {
				kind = "cycle-accepted"
			}
			return pk.Failf("graph", kind, "%s: faulty graph received no error-level diagnostic\n%s%s", c.Graph, diag(), px.ProgText(c.ProgCase))
		}
		// "a cyclic import is reported": for a cycle of two or more modules that the analyzer meets, one of the
		// diagnostics says so (whatever its wording); a different error alone ("no such item in module a", because
		// a is still being analysed) does not report the cycle. The unchanged analyzer names every such cycle of
		// the exhaustive table.
		if c.CycleReachable {
			named := false
			for _, d := range errs {
				m := strings.ToLower(d.Message)
				if strings.Contains(m, "cycl") || strings.Contains(m, "circular") || strings.Contains(m, "recursive") || strings.Contains(m, "import loop") {
					named = true
				}
			}
			if !named {
				return pk.Failf("graph", "cycle-not-named", "%s: cyclic graph rejected, but no diagnostic names the cycle\n%s%s", c.Graph, diag(), px.ProgText(c.ProgCase))
			}
		}
		return nil
	}
	if len(errs) > 0 {
		return pk.Failf("graph", "fault-free-rejected:"+normMsg(errs[0].Message), "%s: fault-free graph received error diagnostics\n%s%s", c.Graph, diag(), px.ProgText(c.ProgCase))
	}
	for ri, rep := range resp.Reps {
		for _, r := range rep.Runs {
			r := r
			pk.Extra("comparisons", 1)
			if cls, msg := px.CompareRun(c.Expect, &r); cls != "" {
				return pk.Failf("graph", r.Backend+" diff:"+cls, "%s on %s (repetition %d): %s\n%s", c.Graph, r.Backend, ri, msg, px.ProgText(c.ProgCase))
			}
			if r.Backend == "vm" {
				seen := map[string]int{}
				for _, s := range r.Singletons {
					seen[s]++
				}
				if len(r.Singletons) != c.Singletons {
					return pk.Failf("graph", "vm singleton-loads", "%s: host saw singleton loads %v, expected %d\n%s", c.Graph, r.Singletons, c.Singletons, px.ProgText(c.ProgCase))
				}
				for k, n := range seen {
					if n != 1 {
						return pk.Failf("graph", "vm singleton-loaded-twice", "%s: singleton %s loaded %d times\n%s", c.Graph, k, n, px.ProgText(c.ProgCase))
					}
				}
			}
		}
	}
	return nil
}

func normMsg(m string) string {
	if len(m) > 40 {
		m = m[:40]
	}
	return m
}

func init() { pk.Reg("graph", checkGraph) }

func TestReplay(t *testing.T) { pk.ReplayTest(t) }

var okKinds = []string{"ok-fn", "ok-global", "ok-type"}
var allKinds = []string{"ok-fn", "ok-global", "ok-type", "private-fn", "private-event-fn", "private-global", "missing-item", "wrong-kind-type", "wrong-kind-value", "missing-module"}

type shape struct {
	name  string
	mods  []string
	edges [][2]string
}

var shapes = []shape{
	{"single", []string{"a"}, [][2]string{{"main", "a"}}},
	{"two-imports", []string{"a", "b"}, [][2]string{{"main", "a"}, {"main", "b"}}},
	{"chain", []string{"a", "b"}, [][2]string{{"main", "a"}, {"a", "b"}}},
	{"diamond", []string{"a", "b"}, [][2]string{{"main", "a"}, {"main", "b"}, {"a", "b"}}},
	{"unused-module", []string{"a", "b"}, [][2]string{{"main", "a"}}},
	{"self-import", []string{"a"}, [][2]string{{"main", "a"}, {"a", "a"}}},
	{"entry-self-import", []string{"a"}, [][2]string{{"main", "a"}, {"main", "main"}}},
	{"cycle-through-entry", []string{"a"}, [][2]string{{"main", "a"}, {"a", "main"}}},
	{"cycle-not-through-entry", []string{"a", "b"}, [][2]string{{"main", "a"}, {"a", "b"}, {"b", "a"}}},
	{"chain3", []string{"a", "b", "c"}, [][2]string{{"main", "a"}, {"a", "b"}, {"b", "c"}}},
	{"diamond3", []string{"a", "b", "c"}, [][2]string{{"main", "a"}, {"main", "b"}, {"a", "c"}, {"b", "c"}}},
	{"cycle3", []string{"a", "b", "c"}, [][2]string{{"main", "a"}, {"a", "b"}, {"b", "c"}, {"c", "a"}}},
	{"cycle3-through-entry", []string{"a", "b"}, [][2]string{{"main", "a"}, {"a", "b"}, {"b", "main"}}},
	{"fan", []string{"a", "b", "c"}, [][2]string{{"main", "a"}, {"main", "b"}, {"main", "c"}, {"a", "b"}, {"a", "c"}, {"b", "c"}}},
}

func graphs() []Graph {
	var out []Graph
	for _, sh := range shapes {
		if len(sh.mods) > pk.Scale(2, 3) {
			continue
		}
		// every assignment of OK kinds to the edges (fault-free unless the shape is cyclic) ...
		n := len(sh.edges)
		var rec func(i int, cur []Edge)
		rec = func(i int, cur []Edge) {
			if i == n {
				g := Graph{Name: sh.name, Mods: sh.mods, Edges: append([]Edge{}, cur...)}
				out = append(out, g)
				g.Singleton = true
				out = append(out, g)
				return
			}
			for _, k := range okKinds {
				rec(i+1, append(cur, Edge{From: sh.edges[i][0], To: sh.edges[i][1], Kind: k}))
			}
		}
		if n <= 4 {
			rec(0, nil)
		} else {
			es := []Edge{}
			for i, e := range sh.edges {
				es = append(es, Edge{From: e[0], To: e[1], Kind: okKinds[i%3]})
			}
			out = append(out, Graph{Name: sh.name, Mods: sh.mods, Edges: es}, Graph{Name: sh.name, Mods: sh.mods, Edges: es, Singleton: true})
		}
		// ... and every single fault on every edge (other edges ok-fn / ok-global alternating)
		for fi := range sh.edges {
			for _, k := range allKinds {
				if !faultKinds[k] {
					continue
				}
				es := []Edge{}
				for i, e := range sh.edges {
					kind := okKinds[i%2]
					if i == fi {
						kind = k
					}
					es = append(es, Edge{From: e[0], To: e[1], Kind: kind})
				}
				out = append(out, Graph{Name: sh.name, Mods: sh.mods, Edges: es})
			}
		}
		// ... and every re-import: X imports from Y an item that Y itself only imported from Z
		for xi, xy := range sh.edges {
			for yi, yz := range sh.edges {
				if xi == yi || xy[1] != yz[0] || xy[0] == yz[1] {
					continue
				}
				for ki, k := range []string{"fn", "global", "type"} {
					es := []Edge{}
					for i, e := range sh.edges {
						ed := Edge{From: e[0], To: e[1], Kind: okKinds[i%2]}
						if i == yi {
							ed.Kind = "ok-" + k
						}
						if i == xi {
							ed.Kind, ed.Of = "reimport-"+k, yz[1]
						}
						es = append(es, ed)
					}
					_ = ki
					out = append(out, Graph{Name: sh.name, Mods: sh.mods, Edges: es})
				}
			}
		}
	}
	// ... and EVERY sequence of up to four distinct import edges over main, a, b (thorough: and c), all ok-fn:
	// the order of the import statements inside a module is part of the graph (a cycle that is closed by a
	// module's second import is a cycle all the same)
	nodes := []string{"main", "a", "b"}
	if pk.Scale(0, 1) == 1 {
		nodes = append(nodes, "c")
	}
	var pairs [][2]string
	for _, f := range nodes {
		for _, t := range nodes {
			pairs = append(pairs, [2]string{f, t})
		}
	}
	var seq func(cur [][2]string)
	seq = func(cur [][2]string) {
		if len(cur) > 0 {
			// every importing module must be reachable from main, otherwise it is never analysed
			reach := map[string]bool{"main": true}
			for changed := true; changed; {
				changed = false
				for _, e := range cur {
					if reach[e[0]] && !reach[e[1]] {
						reach[e[1]], changed = true, true
					}
				}
			}
			ok := true
			for _, e := range cur {
				ok = ok && reach[e[0]]
			}
			if ok {
				es := []Edge{}
				name := "seq"
				for _, e := range cur {
					es = append(es, Edge{From: e[0], To: e[1], Kind: "ok-fn"})
					name += ":" + e[0] + ">" + e[1]
				}
				out = append(out, Graph{Name: name, Mods: nodes[1:], Edges: es})
			}
		}
		if len(cur) == 4 {
			return
		}
	next:
		for _, p := range pairs {
			for _, e := range cur {
				if e == p {
					continue next
				}
			}
			seq(append(append([][2]string{}, cur...), p))
		}
	}
	seq(nil)
	return out
}

func TestTableGraphs(t *testing.T) {
	pk.SkipIfReplay(t)
	col := pk.NewCollector()
	var wg sync.WaitGroup
	sem := make(chan struct{}, 16)
	gs := graphs()
	sort.SliceStable(gs, func(i, j int) bool { return gs[i].String() < gs[j].String() })
	for k, g := range gs {
		if !pk.Mine(k) {
			continue
		}
		wg.Add(1)
		sem <- struct{}{}
		go func(g Graph) {
			defer wg.Done()
			defer func() { <-sem }()
			prog := buildProgram(g)
			gg := &gen.Generated{Prog: prog}
			c := Case{ProgCase: px.FromGenerated(gg), Graph: g.String(), Faulty: g.faulty(), Cyclic: g.cyclic(), CycleReachable: g.cycleReachable()}
			pk.Eval()
			pk.Class("shape:" + g.Name)
			if c.Faulty {
				pk.Class("faulty")
			} else {
				tr, ok := px.Model(gg)
				if !ok {
					col.Report(c, pk.Failf("graph", "model-unsupported", "reference model cannot run %s: %s", g, tr.Outcome.Message))
					return
				}
				c.Expect = px.ExpOf(tr)
				c.Singletons = len(tr.Singletons)
				pk.Class("fault-free")
			}
			pk.NonTrivial(g.String(), map[string]any{"graph": g.String(), "faulty": c.Faulty})
			col.Report(c, checkGraph(c))
		}(g)
	}
	wg.Wait()
	col.Done(t)
	pk.Exhaustive("module-graphs")
}

var _ = sb.DefaultLimits
