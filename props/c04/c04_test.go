package c04

import (
	"fmt"
	"strings"
	"sync"
	"testing"

	"pgregory.net/rapid"

	"verif/gen"
	"verif/pairs"
	"verif/pk"
	"verif/px"
	"verif/sb"
)

func TestMain(m *testing.M) { pk.Main(m) }

var gateNames = []string{"tree-dynamic-scope", "range-display", "for-live-list", "unwrap-none", "float-div-zero", "obj-display", "exit-pending", "slot-operand"}

func sharedCfg() gen.Cfg {
	c := gen.ModelCfg()
	c.Triggers = false // the interpreter does not implement trigger statements
	c.Unicode = true
	for _, g := range gateNames {
		if pk.GateOpen(g) {
			c.Off[g] = true
		}
	}
	return c
}

func kindOf(o sb.Outcome) string {
	cls, kind, msg := px.OutcomeClass(o)
	switch cls {
	case "throw":
		return "throw:" + msg
	case "fatal":
		return "fatal:" + kind
	}
	return cls
}

// checkDiff: the interpreter and the VM must produce the same output and outcome class.
func checkDiff(c px.ProgCase) *pk.Failure {
	resp := px.Pool().Exec(c.Request("vm", "tree"))
	if f := px.SandboxFailure("diff", resp); f != nil {
		return f
	}
	if resp.Inconclusive {
		pk.Inconclusive()
		return nil
	}
	if !resp.Accepted {
		msg := ""
		for _, d := range append(resp.SyntaxErrors, resp.ErrorDiags()...) {
			msg += fmt.Sprintf("%s: %s @%d:%d\n", d.Level, d.Message, d.Span.Start.Line, d.Span.Start.Column)
		}
		return pk.Failf("diff", "generator-rejected", "analyzer rejected a generated program:\n%s\n%s", msg, px.ProgText(c))
	}
	vm, tree := resp.Run("vm"), resp.Run("tree")
	if vm == nil || tree == nil {
		return pk.Failf("diff", "no-run", "missing run result")
	}
	pk.Extra("programs", 1)
	pk.Extra("comparisons", 1)
	vw, tw := strings.Join(vm.Writes, ""), strings.Join(tree.Writes, "")
	if vw != tw {
		return pk.Failf("diff", "diff:writes", "output differs\n  vm:   %q\n  tree: %q\n  outcomes vm=%s tree=%s\n%s", vw, tw, kindOf(vm.Outcome), kindOf(tree.Outcome), px.ProgText(c))
	}
	if kindOf(vm.Outcome) != kindOf(tree.Outcome) {
		return pk.Failf("diff", "diff:outcome", "outcome differs: vm=%s (%q) tree=%s (%q)\n%s", kindOf(vm.Outcome), vm.Outcome.Message, kindOf(tree.Outcome), tree.Outcome.Message, px.ProgText(c))
	}
	return nil
}

func init() { pk.Reg("diff", checkDiff) }

func TestReplay(t *testing.T) { pk.ReplayTest(t) }

func TestDiff(t *testing.T) {
	pk.SkipIfReplay(t)
	cfg := sharedCfg()
	rapid.Check(t, func(rt *rapid.T) {
		g := gen.Program(rt, cfg)
		pk.Eval()
		c := px.FromGenerated(g)
		// The reference model is used only to classify and to keep known-finding triggers out.
		tr, ok := px.Model(g)
		if !ok && px.TooBig(tr) {
			pk.Discard("unbounded-growth")
			return
		}
		if !ok && gen.MayExplode(g.Prog) {
			pk.Discard("possible-geometric-growth(static)") // growth could not be measured by the reference run
			return
		}
		if ok {
			if tr.Feat["hazard:slot-operand"] > 0 && pk.GateOpen("slot-operand") {
				pk.Gate("slot-operand")
				return
			}
			if tr.Feat["hazard:var-operand"] > 0 && pk.GateOpen("tree-var-operand") {
				pk.Gate("tree-var-operand")
				return
			}
			for k := range tr.Feat {
				pk.Class("exec:" + k)
			}
			pk.Class("outcome:" + tr.Outcome.Class)
			if tr.Steps >= 8 && (len(tr.Writes) > 0 || tr.Outcome.Class != "ok") {
				pk.NonTrivial(px.ProgText(c), map[string]any{"program": c.Modules["main"]})
			}
		} else {
			// The model cannot run this program, so it cannot tell whether the trigger of an open
			// aliasing finding occurs: exclude the programs that contain its syntactic ingredients.
			if pk.GateOpen("slot-operand") && g.Feat["assign-elem"]+g.Feat["assign-field"] > 0 {
				pk.Gate("slot-operand(static)")
				return
			}
			if pk.GateOpen("tree-var-operand") && g.Feat["assign-in-expr"]+g.Feat["assign-global"] > 0 {
				pk.Gate("tree-var-operand(static)")
				return
			}
			pk.Class("outside-model")
			pk.NonTrivial(px.ProgText(c), map[string]any{"program": c.Modules["main"]})
		}
		pk.Judge(rt, c, checkDiff(c))
	})
}

// The cross-product programs of verif/pairs that the analyzer accepts: both backends must agree on them as
// well. The random generator only combines operators and operands its own type rules allow; an operator /
// operand pair that just one backend mishandles is reached here.
func TestTablePairsDiff(t *testing.T) {
	pk.SkipIfReplay(t)
	col := pk.NewCollector()
	progs := pairs.Programs()
	var wg sync.WaitGroup
	sem := make(chan struct{}, 16)
	for i := range progs {
		if !pk.Mine(i) {
			continue
		}
		wg.Add(1)
		sem <- struct{}{}
		go func(i int) {
			defer wg.Done()
			defer func() { <-sem }()
			c := px.ProgCase{Modules: map[string]string{"main": progs[i].Text}, Entry: "main", Limits: sb.DefaultLimits(), Note: progs[i].Kind}
			pk.Eval()
			resp := px.Pool().Exec(&sb.Request{Op: "analyze", Modules: c.Modules, Entry: "main"})
			if resp == nil || resp.Crash != "" || resp.Hang || !resp.Accepted {
				return
			}
			if strings.Contains(progs[i].Text, "import trigger") || strings.Contains(progs[i].Text, "import templ") {
				pk.Class("pairs-outside-shared-language(triggers, templates)") // the interpreter's host has neither
				return
			}
			pk.Class(progs[i].Kind)
			pk.NonTrivial(progs[i].Text, map[string]any{"program": progs[i].Text})
			f := checkDiff(c)
			if f != nil && (strings.HasPrefix(f.Sig, "crash:") || strings.HasPrefix(f.Sig, "hang")) {
				pk.Class("pairs-crash-left-to-C02") // C02 runs the same table and judges crashes
				return
			}
			if f != nil && strings.Contains(f.Msg, "vm=init-panic") {
				pk.Class("pairs-init-panic-left-to-C02") // NewVM cannot report a failing initialiser (open finding C02-009)
				return
			}
			if f != nil {
				f.Sig = f.Sig + " [" + progs[i].Kind + "]"
			}
			col.Report(c, f)
		}(i)
	}
	wg.Wait()
	pk.Exhaustive("pairs-accepted-diff")
	col.Done(t)
}
