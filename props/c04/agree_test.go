package c04

import (
	"fmt"
	"testing"

	"verif/pk"
	"verif/px"
	"verif/sb"
)

// Hand-written snippets (bodies of main) around the places where two implementations of one language drift
// apart: number formatting, failure classes of arithmetic, what a loop variable aliases, JSON, type names,
// unicode, members of every builtin type. The oracle is the other backend.
var agreeSnippets = []string{
	// arithmetic failure classes and edge values
	`let z = 0.0; println(1.0 / z);`,
	`let z = 0.0; println(0.0 / z);`,
	`let z = 0.0; println(-1.5 / z);`,
	`let z = 0; println(7 / z);`,
	`let z = 0; println(7 % z);`,
	`let z = 0; let x = 7; x /= z; println(x);`,
	`let z = 0.0; let x = 7.5; x /= z; println(x);`,
	`println(2 ** 62, 2 ** 63, 2 ** 64, 2 ** -1, 0 ** 0, (0 - 2) ** 3);`,
	`println(2.0 ** 0.5, 2.0 ** -1.0, 0.0 ** 0.0, (0.0 - 8.0) ** 0.5);`,
	`println(9223372036854775807 + 1, (0 - 9223372036854775807 - 1) - 1, 9223372036854775807 * 2);`,
	`let m = 0 - 9223372036854775807 - 1; println(m / (0 - 1), m % (0 - 1));`,
	`println(1 << 62, 1 << 63, 1 << 64, 1 << 100, (0 - 1) >> 70, 5 >> 1);`,
	`let s = 0 - 1; println(1 << s);`,
	`let s = 0 - 1; println(8 >> s);`,
	`println(7 / 2, (0 - 7) / 2, 7 % 3, (0 - 7) % 3, 7 % (0 - 3));`,
	`println(7.5 / 2.0, 1.0 / 3.0, 100000000000000000000.0 * 10.0, 100000000000000000000.0, 0.0000001, 123456789.125, 0.1 + 0.2, 100.0, 1000000.0);`,
	`println(1 as float, 1.9 as int, (0.0 - 1.9) as int, true as int, 0 as bool, 2 as bool, 1.5 as bool, 0.0 as bool);`,
	`let big = 10.0 ** 300.0; println(big * big, (big * big) as int, 9900000000000000000.0 as int, (0.0 - big) as int);`,
	`println(5 & 3, 5 | 3, 5 ^ 3, true & false, true | false, true ^ true);`,
	`println(1.0 == 1.0, "a" == "a", [1] == [1], [1] == [2], ?1 == ?1, ?1 == none, new { a: 1 } == new { a: 1 }, (0..2) == (0..2));`,
	`println(1 < 2, 1.5 <= 1.5, 2.5 > 2.5, 0 - 1 >= 0);`,
	// display and to_string of every kind
	`println(1, 1.0, 1.5, true, "s", ?1, ??1, 0..3, [1, 2], [[1], [2]], ["a"], new { a: 1 });`,
	`println((1).to_string(), (1.0).to_string(), (2.50).to_string(), true.to_string(), (0..3).to_string(), [1].to_string(), (?1).to_string());`,
	`println(new { b: 1, a: [new { z: 1, y: "s" }] });`,
	`let o = new { ? }; o.set("b", 1); o.set("a", [1.0, 2.5]); o.set("n", none); println(o); println(o.to_string());`,
	`println(0..3, 0..=3, (0..=3).start, (0..=3).end);`,
	`for i in 0..=3 { print(i); } println(""); for i in 3..0 { print(i); } println(""); for i in 2..=2 { print(i); } println("");`,
	`let r = 0..3; println(r.start, r.end, r.rev()); for i in r.rev() { print(i); } println("");`,
	`println(1.0 as int, 100.0, 1000000.0, 1000000000000000.0, 10000000000000000.0, 12345678901234567890.0, 0.000001, 0.0000001);`,
	// JSON
	`println([1.0, 2.5].to_json(), [1, 2].to_json(), ["s"].to_json(), [true].to_json(), [?1, none].to_json(), [[1.0]].to_json());`,
	`println(new { f: 2.0, i: 2, s: "x", n: none, o: ?1, l: [1.5, 2.0] }.to_json());`,
	`println(new { f: 2.0, l: [1, 2] }.to_json_indent());`,
	`let o = new { ? }; o.set("f", 2.0); o.set("i", 2); o.set("n", none); o.set("l", [1.0]); println(o.to_json()); println(o.to_json_indent());`,
	`try { let l = "[1, 2.0, 2.5, 1e3, -0]".parse_json() as [float]; println(l); } catch e { println(e.message); }`,
	`try { let l = "[1e400]".parse_json() as [float]; println(l); } catch e { println("caught"); }`,
	`try { let l = "[1, 2.0, 2.5]".parse_json() as [int]; println(l); } catch e { println(e.message); }`,
	`let o = "{\"a\": 1, \"b\": [true, null], \"c\": {\"d\": \"x\"}}".parse_json() as { ? }; println(o); println(o.keys()); println(o.to_json());`,
	`let o = "{\"a\": 1, \"b\": null}".parse_json() as { a: int, b: ?int }; println(o, o.b.is_some());`,
	`try { let v = "{bad".parse_json() as int; println(v); } catch e { println("caught", e.message.len() > 0); } println("after");`,
	`try { let v = "".parse_json() as int; println(v); } catch e { println("caught"); } println("after");`,
	`let s = "\"\\u00e9\\ud83d\\ude00\"".parse_json() as str; println(s, s.len());`,
	`println(["é😀\"\\\n\t"].to_json());`,
	`let v = "9007199254740993".parse_json() as int; println(v);`,
	`try { let v: int = "1.0".parse_json(); println(v); } catch e { println(e.message); }`,
	`try { let v: float = "2.0".parse_json(); println(v); } catch e { println(e.message); }`,
	`try { let v = "2.0".parse_json() as float; println(v); } catch e { println(e.message); }`,
	`try { let v: float = "2".parse_json(); println(v); } catch e { println(e.message); }`,
	// where a failed cast points
	`try { let l: [?int] = [none, ?1, ?"s"]; println(l); } catch e { println(e.message); }`,
	`try { let o = "{\"a\": [1, \"x\"], \"b\": {\"c\": [null, true]}}".parse_json() as { a: [int], b: { c: [?int] } }; println(o); } catch e { println(e.message); }`,
	`try { let o = "{\"a\": [1], \"b\": {\"c\": [null, true, \"t\"]}}".parse_json() as { a: [int], b: { c: [?int] } }; println(o); } catch e { println(e.message); }`,
	`try { let o = "[[1, [2, \"z\"]]]".parse_json() as [[?int]]; println(o); } catch e { println(e.message); }`,
	`try { let o = "{\"k\": 1}".parse_json() as { k: ?str }; println(o); } catch e { println(e.message); }`,
	`try { let o = "{\"k\": 1, \"z\": 2}".parse_json() as { k: int }; println(o); } catch e { println(e.message); }`,
	`try { let o = "{\"k\": 1}".parse_json() as { k: int, m: int }; println(o); } catch e { println(e.message); }`,
	`try { let o = "{\"k\": {\"x\": 1}}".parse_json() as { k: { x: int, y: int } }; println(o); } catch e { println(e.message); }`,
	`try { let o = "[{\"k\": [null, {\"d\": \"s\"}]}]".parse_json() as [{ k: [?{ d: int }] }]; println(o); } catch e { println(e.message); }`,
	`let o = "[1, 2.0, true, 0, 1.5]".parse_json() as [bool]; println(o); let f = "[1, true, 2.5]".parse_json() as [float]; println(f); let i = "[true, 2.0, 3]".parse_json() as [int]; println(i);`,
	`let l: [any] = "[1, 2]".parse_json(); let x: any = l; let back: [int] = x; println(back);`,
	`let o: { ? } = "{\"a\": [1]}".parse_json(); let x: any = o; let back: { a: [int] } = x; println(back.a);`,
	`let l: [any] = "[1, \"s\"]".parse_json(); let x: any = l; try { let back: [int] = x; println(back); } catch e { println(e.message); }`,
	// any-objects
	`let o = new { ? }; o.set("s", "x"); o.set("i", 1); o.set("f", 1.5); o.set("b", true); o.set("l", [1]); o.set("n", none); o.set("o", new { a: 1 }); o.set("r", 0..2); println(o.get_type("s"), o.get_type("i"), o.get_type("f"), o.get_type("b"), o.get_type("l"), o.get_type("n"), o.get_type("o"), o.get_type("r"));`,
	`let o = new { ? }; try { println(o.get_type("missing")); } catch e { println("caught", e.message); }`,
	`let o = new { ? }; o.set("k", 1); println(o.get("k"), o.get("nope"), o.get("k").is_some()); let v = o.get("k").unwrap() as int; println(v + 1);`,
	`let o = new { ? }; o.set("k", 1); let p = new { ? }; p.set("k", 1); println(o == p, o == o); p.set("k", 2); println(o == p); p.set("k", 1.0); println(o == p);`,
	`let a = new { ? }; let b = new { ? }; b.set("k", 1); a.set("inner", b); let c = a.to_json().parse_json() as { ? }; println(a == c, c == a, a.to_json() == c.to_json());`,
	`let o = new { a: 1, b: "s" }; let ao = o as { ? }; println(ao.keys(), ao); ao.set("c", 1); println(o, ao.keys());`,
	`let o = new { ? }; o.set("x", 1); let t: { x: int } = o.to_json().parse_json(); println(t.x); try { let u: { y: int } = o.to_json().parse_json(); println(u.y); } catch e { println(e.message); }`,
	`let o = new { ? }; o.set("a", 1); println((o->a).is_some(), (o->missing).is_some());`,
	// what loops and assignments alias
	`let ll = [[1], [2]]; for l in ll { l.push(9); } println(ll);`,
	`let os = [new { x: 1 }]; for o in os { o.x = 10; } println(os);`,
	`let os = [?[1]]; for o in os { o.unwrap().push(2); } println(os);`,
	`let l = [1, 2, 3]; for x in l { l.push(x); if l.len() > 10 { break; } } println(l);`,
	`let l = [1, 2, 3]; for x in l { x += 1; } println(l);`,
	`let a = [1]; let b = a; b.push(2); println(a, b);`,
	`let a = new { l: [1] }; let b = a; b.l.push(2); println(a, b);`,
	`let a = [[1]]; let b = a[0]; b.push(2); println(a);`,
	`let s = "ab"; let t = s; t += "c"; println(s, t);`,
	`let o = ?[1]; let p = o; p.unwrap().push(2); println(o);`,
	`let l = [1, 2]; let f = fn(x: [int]) -> int { x.push(3); x.len() }; println(f(l), l);`,
	`let l = [3, 1, 2]; let m = l; m.sort(); println(l);`,
	`let x = 1; let f = fn(y: int) -> int { y + 1 }; println(f(x), x);`,
	// many caught exceptions, then ordinary calls (both backends run with the same call-depth limit)
	`let i = 0; let c = 0; while i < 1500 { i += 1; try { c += "x".parse_int(); } catch e { c += 1; } } println(i, c, [1].len());`,
	`let i = 0; let c = 0; let o: ?int = none; while i < 1500 { i += 1; try { c += o.unwrap(); } catch e { c += 1; } } println(i, c, "ab".len());`,
	`let i = 0; let c = 0; while i < 1500 { i += 1; try { throw("t"); } catch e { c += 1; } } println(i, c, (1).to_string());`,
	`let i = 0; let c = 0; while i < 1500 { i += 1; try { c += "{bad".parse_json() as int; } catch e { c += 1; } } println(i, c, [1].len());`,
	// strings and unicode
	`println("héllo".len(), "héllo"[1], "héllo"[0], "日本語".len(), "日本語"[1]);`,
	`try { println("héllo"[5]); } catch e { println("caught"); }`,
	`println("héllo".substring(1), "héllo".to_upper(), "ß".to_upper(), "İ".to_lower(), "héllo".contains("é"), "héllo".replace("é", "e"));`,
	`println("a,b,,c".split(","), "".split(","), "abc".split(""), "é😀".split(""));`,
	`for c in "é😀a" { print(c, "|"); } println("");`,
	`println("x".repeat(3), "x".repeat(0), "é😀".repeat(2));`,
	`println("abc".starts_with("ab"), "abc".compare_lev("abd"), "é".compare_lev("e"), "".compare_lev("abc"));`,
	`println("12".parse_int(), "1.5".parse_float(), "-3".parse_int(), "1e3".parse_float());`,
	`try { println("x".parse_int()); } catch e { println("caught", e.message.len() > 0); }`,
	`try { println("x".parse_float()); } catch e { println("caught"); }`,
	`println("é" == "é", "é".len(), "é".len());`,
	// lists and options
	`let l = [3, 1, 2]; l.sort(); println(l, l.contains(2), l.contains(9), l.join(", "), l.last(), l.len());`,
	`let l = ["b", "a"]; l.sort(); println(l, l.join("-")); let f = [2.5, 1.5]; f.sort(); println(f);`,
	`let l = [1, 2, 3]; println(l.pop(), l.pop_front(), l); l.remove(0); println(l); l.insert(0, 9); l.push_front(8); println(l);`,
	`let e: [int] = []; println(e.pop(), e.pop_front(), e.last(), e.len(), e.join(","));`,
	`let l = [1, 2, 3]; println(l[-1], l[-3], l[0]); try { println(l[3]); } catch e { println("caught"); }`,
	`let l = [1, 2, 3]; try { println(l[-4]); } catch e { println("caught"); }`,
	`let l = [1]; try { l.remove(5); } catch e { println("caught"); } println(l);`,
	`let l = [1]; try { l.insert(5, 1); } catch e { println("caught"); } println(l);`,
	`let l = [1, 2]; l.concat([3]); println(l); let m = [[1]]; m.concat([[2]]); println(m);`,
	`let o: ?int = none; println(o.is_some(), o.is_none(), o.unwrap_or(5), (?3).unwrap_or(5), (?3).unwrap(), (?3).expect("x"));`,
	`let o: ?int = none; try { println(o.unwrap()); } catch e { println("caught", e.message); } println("after");`,
	`let o: ?int = none; println(o.expect("custom message"));`,
	`println(??1, (??1).unwrap(), (??1).unwrap().unwrap());`,
	// control flow odds and ends
	`let v = match 3 { 1 | 2 => "low", 3 => "three", _ => "other" }; println(v); println(match "s" { "s" => 1, _ => 2 }, match true { false => 1, _ => 2 }, match 1.5 { 1.5 => 1, _ => 2 });`,
	`let v = match none { none => 1, _ => 2 }; println(v);`,
	`let x = if false { 1 } else if false { 2 } else { 3 }; println(x);`,
	`let i = 0; let s = 0; while i < 5 { i += 1; if i == 2 { continue; } if i == 4 { break; } s += i; } println(i, s);`,
	`let v = try { throw("x"); 1 } catch e { 2 }; println(v);`,
	`try { throw(new { code: 1 }); } catch e { println(e.message); }`,
	`try { throw([1, 2]); } catch e { println(e.message); }`,
	`try { throw(1.0); } catch e { println(e.message); }`,
	`try { throw(none); } catch e { println(e.message); }`,
	`try { try { throw("inner"); } catch e { throw(e.message + "!"); } } catch e2 { println(e2.message, e2.line > 0); }`,
	`throw("uncaught " + (1).to_string());`,
	`let l = [1]; println(l[1]);`,
	`let d = time.now(); println(d.year > 2000);`,
	`println(fmt("{} and {}", 1, "s"), fmt("no args"), fmt("{}", [1.0]));`,
	`try { println(fmt("{} {}", 1)); } catch e { println("caught"); }`,
	`assert(true); println("ok");`,
	`assert(false);`,
	`debug(1, [1.0], new { a: ?1 });`,
}

func TestTableAgreement(t *testing.T) {
	pk.SkipIfReplay(t)
	col := pk.NewCollector()
	for k, body := range agreeSnippets {
		if !pk.Mine(k) {
			continue
		}
		text := "fn main() {\n    " + body + "\n}\n"
		c := px.ProgCase{Modules: map[string]string{"main": text}, Entry: "main", Limits: sb.DefaultLimits(), Note: fmt.Sprintf("agreement snippet %d", k)}
		pk.Eval()
		resp := px.Pool().Exec(&sb.Request{Op: "analyze", Modules: c.Modules, Entry: "main"})
		if resp == nil || !resp.Accepted {
			pk.Class("snippet-not-accepted")
			pk.Extra("snippet-not-accepted: "+body, 1)
			continue
		}
		pk.NonTrivial(body, map[string]any{"snippet": body})
		f := checkDiff(c)
		if f != nil {
			f.Sig = fmt.Sprintf("%s [snippet %d: %.40s]", f.Sig, k, body)
		}
		col.Report(c, f)
	}
	pk.Exhaustive("agreement-snippets")
	col.Done(t)
}
