package c04

import (
	"fmt"
	"testing"

	"verif/pairs"
	"verif/pk"
	"verif/px"
	"verif/sb"
)

func TestTableAgreement(t *testing.T) {
	pk.SkipIfReplay(t)
	col := pk.NewCollector()
	for k, body := range pairs.Snippets {
		if !pk.Mine(k) {
			continue
		}
		text := "fn main() {\n    " + body + "\n}\n"
		c := px.ProgCase{Modules: map[string]string{"main": text}, Entry: "main", Limits: sb.DefaultLimits(), Note: fmt.Sprintf("agreement snippet %d", k)}
		pk.Eval()
		resp := px.Pool().Exec(&sb.Request{Op: "analyze", Modules: c.Modules, Entry: "main"})
		if resp == nil || !resp.Accepted {
			pk.Class("snippet-not-accepted")
			pk.Extra("snippet-not-accepted: "+body, 1)
			continue
		}
		pk.NonTrivial(body, map[string]any{"snippet": body})
		f := checkDiff(c)
		if f != nil {
			f.Sig = fmt.Sprintf("%s [snippet %d: %.40s]", f.Sig, k, body)
		}
		col.Report(c, f)
	}
	pk.Exhaustive("agreement-snippets")
	col.Done(t)
}
