// Package c06 checks property C06: the token stream is a faithful image of the source text.
//
// Oracle: the independent reference lexer verif/reflex (written from grammar.ebnf) run on the same
// text must give the same sequence of (kind, decoded value) with identical inclusive spans and
// file name; an error where and only where the grammar has no token; and, from the spans alone,
// the tokens must partition the non-blank runes of the text.
package c06

import (
	"encoding/json"
	"fmt"
	"os"
	"path/filepath"
	"regexp"
	"strconv"
	"strings"
	"testing"

	"github.com/smarthome-go/homescript/v3/homescript/errors"
	"github.com/smarthome-go/homescript/v3/homescript/lexer"
	"pgregory.net/rapid"

	"verif/pk"
	"verif/reflex"
)

const fileName = "c06.hms"

func TestMain(m *testing.M) { pk.Main(m) }

type Case struct{ Text string }

func init() { pk.Reg("lex", checkText) }

func TestReplay(t *testing.T) { pk.ReplayTest(t) }

// kindName maps the repository's token kinds to the kind names of the reference lexer.
var kindName = map[lexer.TokenKind]string{
	lexer.Unknown: "Unknown", lexer.EOF: "EOF",
	lexer.HashTag: "HashTag", lexer.QuestionMark: "QuestionMark", lexer.AtSymbol: "AtSymbol",
	lexer.DollarSymbol: "DollarSymbol", lexer.Underscore: "Underscore", lexer.Semicolon: "Semicolon",
	lexer.Comma: "Comma", lexer.Colon: "Colon", lexer.Dot: "Dot", lexer.DoubleDot: "DoubleDot",
	lexer.Arrow: "Arrow", lexer.FatArrow: "FatArrow", lexer.TildeArrow: "TildeArrow",
	lexer.LParen: "LParen", lexer.RParen: "RParen", lexer.LCurly: "LCurly", lexer.RCurly: "RCurly",
	lexer.LBracket: "LBracket", lexer.RBracket: "RBracket",
	lexer.Or: "Or", lexer.And: "And", lexer.Equal: "Equal", lexer.NotEqual: "NotEqual",
	lexer.LessThan: "LessThan", lexer.LessThanEqual: "LessThanEqual", lexer.GreaterThan: "GreaterThan",
	lexer.GreaterThanEqual: "GreaterThanEqual", lexer.Not: "Not",
	lexer.Plus: "Plus", lexer.Minus: "Minus", lexer.Multiply: "Multiply", lexer.Divide: "Divide",
	lexer.Modulo: "Modulo", lexer.Power: "Power", lexer.ShiftLeft: "ShiftLeft", lexer.ShiftRight: "ShiftRight",
	lexer.BitOr: "BitOr", lexer.BitAnd: "BitAnd", lexer.BitXor: "BitXor",
	lexer.Assign: "Assign", lexer.PlusAssign: "PlusAssign", lexer.MinusAssign: "MinusAssign",
	lexer.MultiplyAssign: "MultiplyAssign", lexer.DivideAssign: "DivideAssign", lexer.PowerAssign: "PowerAssign",
	lexer.ModuloAssign: "ModuloAssign", lexer.ShiftLeftAssign: "ShiftLeftAssign",
	lexer.ShiftRightAssign: "ShiftRightAssign", lexer.BitOrAssign: "BitOrAssign",
	lexer.BitAndAssign: "BitAndAssign", lexer.BitXorAssign: "BitXorAssign",
	lexer.Import: "Import", lexer.As: "As", lexer.From: "From", lexer.Try: "Try", lexer.Catch: "Catch",
	lexer.In: "In", lexer.Let: "Let", lexer.Pub: "Pub", lexer.Fn: "Fn", lexer.If: "If", lexer.Else: "Else",
	lexer.Match: "Match", lexer.For: "For", lexer.While: "While", lexer.Loop: "Loop", lexer.Break: "Break",
	lexer.Continue: "Continue", lexer.Return: "Return", lexer.Type: "Type", lexer.New: "New",
	lexer.Spawn: "Spawn", lexer.Event: "Event", lexer.Impl: "Impl", lexer.With: "With",
	lexer.Templ: "Templ", lexer.Trigger: "Trigger",
	lexer.True: "True", lexer.False: "False", lexer.None: "None", lexer.Null: "Null",
	lexer.String: "String", lexer.Int: "Int", lexer.Float: "Float", lexer.Identifier: "Identifier",
}

func kindOf(k lexer.TokenKind) string {
	if s, ok := kindName[k]; ok {
		return s
	}
	return fmt.Sprintf("Kind#%d", uint8(k))
}

// ---------------------------------------------------------------------------------------------
// system under test

type repoRun struct {
	toks     []lexer.Token // ends with EOF unless err / panic / hang
	err      *errors.Error
	panicMsg string
	hang     bool
}

func lexRepo(text string) (r repoRun) {
	defer func() {
		if p := recover(); p != nil {
			r.panicMsg = fmt.Sprint(p)
		}
	}()
	lx := lexer.NewLexer(text, fileName)
	bound := len([]rune(text)) + 10
	for i := 0; i < bound; i++ {
		tok, err := lx.NextToken()
		if err != nil {
			r.err = err
			return r
		}
		r.toks = append(r.toks, tok)
		if tok.Kind == lexer.EOF {
			return r
		}
	}
	r.hang = true
	return r
}

// ---------------------------------------------------------------------------------------------
// formatting

func fmtLoc(line, col, idx uint) string { return fmt.Sprintf("%d:%d:%d", line, col, idx) }

func fmtRefTok(t reflex.Tok) string {
	return fmt.Sprintf("%s(%q)@%s-%s", t.Kind, t.Value, fmtLoc(t.Span.Start.Line, t.Span.Start.Column, t.Span.Start.Index),
		fmtLoc(t.Span.End.Line, t.Span.End.Column, t.Span.End.Index))
}

func fmtSpan(s errors.Span) string {
	out := fmtLoc(s.Start.Line, s.Start.Column, s.Start.Index) + "-" + fmtLoc(s.End.Line, s.End.Column, s.End.Index)
	if s.Filename != fileName {
		out += fmt.Sprintf("[file=%q]", s.Filename)
	}
	return out
}

func fmtRef(r *reflex.Result) string {
	var parts []string
	for _, t := range r.Tokens {
		parts = append(parts, fmtRefTok(t))
	}
	if r.Err != nil {
		parts = append(parts, fmt.Sprintf("ERROR[%s runes %d..%d: %s]", r.Err.Kind, r.Err.From, r.Err.To, r.Err.Msg))
	}
	return strings.Join(parts, " ")
}

func fmtGot(g repoRun) string {
	var parts []string
	for i, t := range g.toks {
		if i >= 40 {
			parts = append(parts, fmt.Sprintf("... (%d tokens)", len(g.toks)))
			break
		}
		parts = append(parts, fmt.Sprintf("%s(%q)@%s", kindOf(t.Kind), t.Value, fmtSpan(t.Span)))
	}
	if g.err != nil {
		parts = append(parts, fmt.Sprintf("ERROR[%q @%s]", g.err.Message, fmtSpan(g.err.Span)))
	}
	if g.panicMsg != "" {
		parts = append(parts, "PANIC["+g.panicMsg+"]")
	}
	if g.hang {
		parts = append(parts, "NO-EOF")
	}
	return strings.Join(parts, " ")
}

var digitsRe = regexp.MustCompile(`[0-9]+`)

func runeClass(rs []rune, i int) string {
	if i < 0 || i >= len(rs) {
		return "eof"
	}
	r := rs[i]
	switch {
	case r == ' ':
		return "space"
	case r == '\t':
		return "tab"
	case r == '\r':
		return "cr"
	case r == '\n':
		return "lf"
	case r >= '0' && r <= '9':
		return "digit"
	case r == '_' || r >= 'a' && r <= 'z' || r >= 'A' && r <= 'Z':
		return "letter"
	case r == '"' || r == '\'':
		return "quote"
	case r > 0x7f:
		return "unicode"
	case r < 0x20 || r == 0x7f:
		return "control"
	}
	return "op" + string(r)
}

// sigLabel is the token kind used in signatures; for numbers it also names the shape of the
// lexeme ('_' digit separator, 'f' suffix, '.' fraction), because those are separate rules.
func sigLabel(t reflex.Tok) string {
	if t.Kind != "Int" && t.Kind != "Float" {
		return t.Kind
	}
	shape := ""
	if strings.Contains(t.Raw, "_") {
		shape += "_"
	}
	if strings.HasSuffix(t.Raw, "f") {
		shape += "f"
	}
	if strings.Contains(t.Raw, ".") {
		shape += "."
	}
	if shape == "" {
		return t.Kind
	}
	return t.Kind + "[" + shape + "]"
}

// sameNumber: the oracle demands the decoded number, not a spelling.
func sameNumber(kind, want, got string) bool {
	if want == got {
		return true
	}
	g := strings.TrimSuffix(strings.ReplaceAll(got, "_", ""), "f")
	if g == want {
		return true
	}
	if kind == "Int" {
		a, e1 := strconv.ParseUint(want, 10, 64)
		b, e2 := strconv.ParseUint(g, 10, 64)
		return e1 == nil && e2 == nil && a == b
	}
	a, e1 := strconv.ParseFloat(want, 64)
	b, e2 := strconv.ParseFloat(g, 64)
	return e1 == nil && e2 == nil && a == b
}

// ---------------------------------------------------------------------------------------------
// the check

func checkText(c Case) *pk.Failure { return checkRef(c, reflex.Analyze(c.Text, fileName)) }

func checkRef(c Case, ref *reflex.Result) *pk.Failure {
	got := lexRepo(c.Text)
	rs := ref.Runes
	locs := reflex.Positions(rs)
	fail := func(sig, format string, a ...any) *pk.Failure {
		return pk.Failf("lex", sig, "%s\ntext:     %q\nexpected: %s\ngot:      %s", fmt.Sprintf(format, a...), c.Text, fmtRef(ref), fmtGot(got))
	}
	if got.panicMsg != "" {
		p := digitsRe.ReplaceAllString(got.panicMsg, "N")
		if len(p) > 48 {
			p = p[:48]
		}
		return fail("panic:"+p, "the lexer panicked: %s", got.panicMsg)
	}
	if got.hang {
		return fail("hang", "no EOF after %d tokens for a text of %d runes", len(got.toks), len(rs))
	}
	sameLoc := func(a reflex.Loc, b errors.Location) bool {
		return a.Line == b.Line && a.Column == b.Column && a.Index == b.Index
	}

	// 1. token by token against the reference
	for i, want := range ref.Tokens {
		if i >= len(got.toks) {
			if got.err != nil {
				return fail("error-spurious:"+runeClass(rs, int(got.err.Span.Start.Index)),
					"the lexer reports %q where the grammar has token #%d %s", got.err.Message, i, fmtRefTok(want))
			}
			return fail("short", "the token stream ends before token #%d %s", i, fmtRefTok(want))
		}
		g := got.toks[i]
		gk := kindOf(g.Kind)
		label := sigLabel(want)
		if gk != want.Kind {
			return fail("kind:"+label+"->"+gk, "token #%d: expected %s, got %s(%q)@%s", i, fmtRefTok(want), gk, g.Value, fmtSpan(g.Span))
		}
		switch {
		case want.Kind == "EOF" || want.Doubt:
		case want.Kind == "Int" || want.Kind == "Float":
			if !sameNumber(want.Kind, want.Value, g.Value) {
				return fail("value:"+label, "token #%d (%q): expected the number %s, got %q", i, want.Raw, want.Value, g.Value)
			}
		default:
			if g.Value != want.Value {
				return fail("value:"+label, "token #%d (%q): expected value %q, got %q", i, want.Raw, want.Value, g.Value)
			}
		}
		if want.Kind == "EOF" {
			// EOF has no lexeme, so the property does not fix its position; it is only counted.
			if !sameLoc(want.Span.Start, g.Span.Start) || !sameLoc(want.Span.End, g.Span.End) {
				pk.Class("doubt:eof-position-not-just-behind-text")
			}
			if g.Span.Filename != fileName {
				return fail("span-file:EOF", "EOF token: filename %q, expected %q", g.Span.Filename, fileName)
			}
			continue
		}
		if !sameLoc(want.Span.Start, g.Span.Start) {
			return fail("span-start:"+label, "token #%d: expected %s, got span %s", i, fmtRefTok(want), fmtSpan(g.Span))
		}
		if !sameLoc(want.Span.End, g.Span.End) {
			return fail("span-end:"+label, "token #%d: expected %s, got span %s", i, fmtRefTok(want), fmtSpan(g.Span))
		}
		if g.Span.Filename != fileName {
			return fail("span-file:"+label, "token #%d %s: filename %q, expected %q", i, fmtRefTok(want), g.Span.Filename, fileName)
		}
	}

	// 2. where the grammar has no token
	n := len(ref.Tokens)
	limit := len(rs) // runes before limit must be partitioned
	if e := ref.Err; e != nil {
		limit = e.From
		if len(got.toks) > n {
			g := got.toks[n]
			switch {
			case e.Kind == reflex.ErrUnterminatedComment && g.Kind == lexer.EOF:
				// silently skipping an unterminated comment is accepted
			case e.Kind == reflex.ErrUnterminatedComment:
				return fail("comment-unterminated-token", "token %s(%q)@%s comes from inside an unterminated block comment (runes %d..)",
					kindOf(g.Kind), g.Value, fmtSpan(g.Span), e.From)
			default:
				return fail("error-missing:"+e.Kind, "the grammar has no token at runes %d..%d (%s) but the lexer produced %s(%q)@%s",
					e.From, e.To, e.Msg, kindOf(g.Kind), g.Value, fmtSpan(g.Span))
			}
		} else if got.err == nil {
			return fail("short", "the token stream ends without EOF or error")
		} else {
			s := got.err.Span
			lo, hi := uint(e.From), uint(e.To)
			if s.Start.Index < lo && s.End.Index < lo {
				return fail("error-spurious:"+runeClass(rs, int(s.Start.Index)), "the lexer reports %q at %s, before the first point (rune %d) where the grammar has no token",
					got.err.Message, fmtSpan(s), lo)
			}
			if s.Filename != fileName {
				pk.Class("c08-subject:errspan-file")
			}
			if s.Start.Index < lo || s.Start.Index > hi || s.End.Index < s.Start.Index || s.End.Index > hi {
				pk.Class("c08-subject:errspan-range")
			}
			if s.End.Index >= uint(len(rs)) && s.Start.Index < s.End.Index {
				pk.Class("c08-subject:errspan-end-past-text")
			}
			if !sameLoc(locs[s.Start.Index], s.Start) || !sameLoc(locs[s.End.Index], s.End) {
				pk.Class("c08-subject:errspan-linecol")
			}
		}
	}

	// 3. partition, from the spans alone
	cover := make([]uint8, len(rs))
	prevEnd := -1
	for i, g := range got.toks {
		if g.Kind == lexer.EOF {
			break
		}
		k := kindOf(g.Kind)
		s := g.Span
		if s.Start.Index > s.End.Index || int(s.End.Index) >= len(rs) {
			return fail("partition:bad-span:"+k, "token #%d %s: span %s is not a range of the text", i, k, fmtSpan(s))
		}
		if int(s.Start.Index) <= prevEnd {
			return fail("partition:overlap:"+k, "token #%d %s: span %s starts before the previous token ended (%d)", i, k, fmtSpan(s), prevEnd)
		}
		prevEnd = int(s.End.Index)
		if !sameLoc(locs[s.Start.Index], s.Start) || !sameLoc(locs[s.End.Index], s.End) {
			return fail("partition:linecol:"+k, "token #%d %s: line/column of span %s do not match the rune indexes", i, k, fmtSpan(s))
		}
		if s.Filename != fileName {
			return fail("partition:file:"+k, "token #%d %s: filename %q", i, k, s.Filename)
		}
		for j := s.Start.Index; j <= s.End.Index; j++ {
			cover[j]++
		}
	}
	for j := 0; j < limit; j++ {
		if ref.Blank[j] && cover[j] != 0 {
			return fail("partition:covers-blank:"+runeClass(rs, j), "rune %d (whitespace/comment) lies inside a token span", j)
		}
		if !ref.Blank[j] && cover[j] != 1 {
			return fail("partition:uncovered:"+runeClass(rs, j), "rune %d %q is covered by %d token spans", j, rs[j], cover[j])
		}
	}
	return nil
}

// ---------------------------------------------------------------------------------------------
// classification

var opKinds = func() map[string]bool {
	m := map[string]bool{}
	for _, o := range reflex.Operators {
		m[o.Kind] = true
	}
	return m
}()

// describe returns the classes of a text and whether it is non-trivial: at least two tokens and
// at least one zero-width adjacency, multi-character operator, escape or separated number.
func describe(ref *reflex.Result) (classes []string, nonTrivial bool) {
	toks := ref.Tokens
	ntok := 0
	feat := map[string]bool{}
	for i, t := range toks {
		if t.Kind == "EOF" {
			continue
		}
		ntok++
		feat["kind:"+t.Kind] = true
		if i > 0 && toks[i-1].Span.End.Index+1 == t.Span.Start.Index {
			feat["f:adjacent"] = true
		}
		switch {
		case opKinds[t.Kind] && len(t.Raw) > 1:
			feat["f:multi-char-operator"] = true
		case t.Kind == "String" && strings.Contains(t.Raw, `\`):
			feat["f:escape"] = true
		case (t.Kind == "Int" || t.Kind == "Float") && strings.Contains(t.Raw, "_"):
			feat["f:separated-number"] = true
		}
		if t.Kind == "String" && len(t.Raw) != len([]rune(t.Raw)) {
			feat["f:unicode-in-string"] = true
		}
		if t.Span.Start.Line != t.Span.End.Line {
			feat["f:multi-line-token"] = true
		}
	}
	for i, b := range ref.Blank {
		if b && ref.Runes[i] > 0x7f {
			feat["f:unicode-in-comment"] = true
		}
		if b && ref.Runes[i] == '/' {
			feat["f:comment"] = true
		}
	}
	if ref.Err != nil {
		feat["outcome:error:"+ref.Err.Kind] = true
	} else {
		feat["outcome:tokens"] = true
	}
	for k := range feat {
		classes = append(classes, k)
	}
	nonTrivial = ntok >= 2 && (feat["f:adjacent"] || feat["f:multi-char-operator"] || feat["f:escape"] || feat["f:separated-number"])
	return classes, nonTrivial
}

func account(c Case) *reflex.Result {
	pk.Eval()
	ref := reflex.Analyze(c.Text, fileName)
	classes, nt := describe(ref)
	for _, k := range classes {
		pk.Class(k)
	}
	if nt {
		pk.NonTrivial(c.Text, map[string]any{"text": c.Text, "expected": fmtRef(ref)})
	}
	return ref
}

// ---------------------------------------------------------------------------------------------
// table tier: every string up to length 3 (quick) / 4 (thorough) over the lexical alphabet

var alphabet = []rune{
	'#', '?', '@', '$', ';', ',', ':', '.', '~', '=', '(', ')', '{', '}', '[', ']',
	'|', '&', '^', '!', '<', '>', '+', '-', '*', '/', '%',
	'_', '1', '0', 'f', 'x', 'u', 'e', 'n', 'o', 'i',
	'"', '\'', '\\', ' ', '\t', '\r', '\n', 'é', '𝄞',
	// runes above U+00FF whose low byte is an ASCII letter, digit, '_', 'f' or 'x' (a classifier that looks at
	// one byte of the rune would take them for one)
	'\u0141', '\u0430', '\u015f', '\u0166',
}

func TestTableExhaustive(t *testing.T) {
	pk.SkipIfReplay(t)
	maxLen := pk.Scale(3, 4)
	col := pk.NewCollector()
	k, mine := 0, 0
	buf := make([]rune, 0, maxLen)
	var rec func(depth, length int)
	rec = func(depth, length int) {
		if depth == length {
			if pk.Mine(k) {
				mine++
				c := Case{Text: string(buf)}
				col.Report(c, checkRef(c, account(c)))
			}
			k++
			return
		}
		for _, r := range alphabet {
			buf = append(buf, r)
			rec(depth+1, length)
			buf = buf[:len(buf)-1]
		}
	}
	for length := 0; length <= maxLen; length++ {
		rec(0, length)
	}
	pk.Extra("table-strings", mine)
	pk.Exhaustive("table")
	col.Done(t)
}

// ---------------------------------------------------------------------------------------------
// generated lexeme sequences

var (
	separators = []string{"", "", "", " ", "\t", "\n", "\r\n", "/*c*/", "//c\n"}
	opTexts    = func() []string {
		var s []string
		for _, o := range reflex.Operators {
			s = append(s, o.Text)
		}
		return s
	}()
	wordPool = func() []string {
		s := []string{"iff", "fnx", "inn", "lett", "forx", "on1", "offf", "truee", "nulll", "none_", "_", "__", "_a", "a_b", "x1", "f", "f1", "e9",
			"True", "ON", "Off", "a", "foo", "importas", "asfrom", "_1", "i_", "tr", "whil", "loopp", "matc"}
		for w := range reflex.Keywords() {
			s = append(s, w)
		}
		// map order is random: sort for reproducibility of rapid draws
		for i := range s {
			for j := i + 1; j < len(s); j++ {
				if s[j] < s[i] {
					s[i], s[j] = s[j], s[i]
				}
			}
		}
		return s
	}()
	numberPool = []string{"1", "0", "007", "42", "1_000", "10_000", "1_0_0", "1__0", "1_", "1f", "12f", "1_f", "1_000f", "1.5", "3.1415",
		"1_0.2_5", "10.0_", "1_.5", "0.0", "9223372036854775807", "1.0f", "1.", "1..2", "1.f", "1.5.2", "1f1", "1e5", "0x1f"}
	plainPool = []string{"a", "Z", " ", "0", "é", "𝄞", "日本", "\n", "\t", "\r\n", "//", "/*", "*/", "~", "|", "&", "^", "f", "_", ";", "\x00", "\u200b"}
	escPool   = []string{`\\`, `\'`, `\"`, `\b`, `\n`, `\r`, `\t`, `\x41`, `\xe9`, `\x00`, `\xfF`, `\u0041`, `\u00e9`, `\u20AC`, `\uffff`, `\ud7ff`, `\ue000`, `\u0000`,
		`\U0001d11e`, `\U0010FFFF`, `\U00000041`, `\U00000000`, `\101`, `\000`, `\377`, `\777`, `\012`}
	badEscPool  = []string{`\q`, `\x1g`, `\xg1`, `\u12`, `\u12g4`, `\8`, `\18`, `\118`, `\U0001`, `\U0001d11g`, `\ `, `\é`, `\X41`, "\\\n"}
	commentPool = []string{"/**/", "/***/", "/* c */", "/* é 𝄞 */", "/*/*/", "/* // */", "/* /* */", "/*\n*/", "/* \" */", "// c\n", "//\n", "// é 𝄞\n", "// /* \n", "//\"\n", "///\n", "/*'*/"}
	hostilePool = []string{"é", "𝄞", "\\", "~", "`", "\x00", "\f", "\v", "\u00a0", "\ufeff", "~ >", "~="}
	tailPool    = []string{`"abc`, `'a\`, `"\x1`, `"\u00`, `"\U0001d11`, `"\1`, `"a\`, `'`, `"`, `"é`, "\"a\nb", "/* c", "/*", "/*/", "/* *", "/* é", "/*x", "// c", "//", "// é", "~", `'\`}
)

func genString(rt *rapid.T) string {
	q := rapid.SampledFrom([]string{`"`, `'`}).Draw(rt, "quote")
	other := `'`
	if q == `'` {
		other = `"`
	}
	n := rapid.IntRange(0, 6).Draw(rt, "pieces")
	var sb strings.Builder
	sb.WriteString(q)
	for i := 0; i < n; i++ {
		switch w := rapid.IntRange(0, 19).Draw(rt, "piece"); {
		case w < 8:
			sb.WriteString(rapid.SampledFrom(plainPool).Draw(rt, "plain"))
		case w < 9:
			sb.WriteString(other)
		case w < 16:
			sb.WriteString(rapid.SampledFrom(escPool).Draw(rt, "esc"))
		case w < 17:
			sb.WriteString(fmt.Sprintf(`\x%02x`, rapid.IntRange(0, 255).Draw(rt, "xx")))
		case w < 18:
			sb.WriteString(fmt.Sprintf(`\%03o`, rapid.IntRange(0, 511).Draw(rt, "ooo")))
		case w < 19:
			cp := rapid.IntRange(0, 0xFFFF).Draw(rt, "uuuu")
			if cp >= 0xD800 && cp <= 0xDFFF {
				cp -= 0x1000
			}
			sb.WriteString(fmt.Sprintf(`\u%04X`, cp))
		default:
			sb.WriteString(rapid.SampledFrom(badEscPool).Draw(rt, "badesc"))
		}
	}
	sb.WriteString(q)
	return sb.String()
}

func genNumber(rt *rapid.T) string {
	if rapid.Bool().Draw(rt, "pooled") {
		return rapid.SampledFrom(numberPool).Draw(rt, "num")
	}
	part := func(label string) string {
		s := string(rune('0' + rapid.IntRange(0, 9).Draw(rt, label)))
		for i, n := 0, rapid.IntRange(0, 5).Draw(rt, label+"-n"); i < n; i++ {
			s += rapid.SampledFrom([]string{"0", "1", "7", "9", "_", "_"}).Draw(rt, label+"-c")
		}
		return s
	}
	s := part("int")
	switch rapid.IntRange(0, 3).Draw(rt, "shape") {
	case 1:
		s += "f"
	case 2:
		s += "." + part("frac")
	}
	return s
}

func genLexeme(rt *rapid.T) string {
	switch w := rapid.IntRange(0, 19).Draw(rt, "class"); {
	case w < 6:
		return rapid.SampledFrom(opTexts).Draw(rt, "op")
	case w < 10:
		return rapid.SampledFrom(wordPool).Draw(rt, "word")
	case w < 13:
		return genNumber(rt)
	case w < 17:
		return genString(rt)
	case w < 19:
		return rapid.SampledFrom(commentPool).Draw(rt, "comment")
	default:
		return rapid.SampledFrom(hostilePool).Draw(rt, "hostile")
	}
}

func genText(rt *rapid.T) string {
	n := rapid.IntRange(1, 8).Draw(rt, "lexemes")
	var sb strings.Builder
	for i := 0; i < n; i++ {
		if i > 0 {
			sb.WriteString(rapid.SampledFrom(separators).Draw(rt, "sep"))
		}
		sb.WriteString(genLexeme(rt))
	}
	if rapid.IntRange(0, 3).Draw(rt, "tail") == 0 {
		sb.WriteString(rapid.SampledFrom(separators).Draw(rt, "tail-sep"))
		sb.WriteString(rapid.SampledFrom(tailPool).Draw(rt, "tail-lexeme"))
	}
	return sb.String()
}

func TestLexemes(t *testing.T) {
	pk.SkipIfReplay(t)
	rapid.Check(t, func(rt *rapid.T) {
		c := Case{Text: genText(rt)}
		pk.Judge(rt, c, checkRef(c, account(c)))
	})
}

// ---------------------------------------------------------------------------------------------
// native fuzzing with the same oracle

func FuzzLex(f *testing.F) {
	if os.Getenv("VERIF_REPLAY") != "" {
		f.Skip("replay run")
	}
	for _, s := range []string{
		"", "let x = 1_000 + 2.5f;", "fn main() { println(\"a\\tb\\x41\\u00e9\\U0001d11e\\101\") }", "a|b||c&d&&e^f^=g ~> h",
		"1..2 /* c */ // d\n'x\\'' on off", "\"unterminated", "/* open", "$x.y -> z => w **= 2 <<= 3 >>= 4", "\tif a\r\n{ b }",
	} {
		f.Add(s)
	}
	f.Fuzz(func(t *testing.T, text string) {
		c := Case{Text: text}
		fl := checkText(c)
		if fl == nil || pk.MatchKnown(pk.Prop(), fl) != "" {
			return
		}
		cb, _ := json.Marshal(c)
		b, _ := json.MarshalIndent(pk.ReplayFile{Property: pk.Prop(), Sub: fl.Sub, Sig: fl.Sig, Msg: fl.Msg, Case: cb}, "", " ")
		path := filepath.Join(pk.OutDir(), "fail-c06-fuzz.json")
		os.WriteFile(path, b, 0o644)
		t.Fatalf("VERIF-FAIL sub=%s sig=%q replay=%s\n%s", fl.Sub, fl.Sig, path, fl.Msg)
	})
}
