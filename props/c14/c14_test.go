package c14

import (
	"fmt"
	"sort"
	"strings"
	"testing"

	"pgregory.net/rapid"

	"verif/gen"
	"verif/pk"
	"verif/px"
	"verif/sb"
)

func TestMain(m *testing.M) { pk.Main(m) }

type Case struct {
	px.ProgCase
	Reps       int
	GoMaxProcs int
	WantAccept bool
}

func diagKey(d sb.Diag) string {
	return fmt.Sprintf("%s|%s|%s:%d:%d-%d:%d", d.Level, d.Message, d.Span.Filename, d.Span.Start.Line, d.Span.Start.Column, d.Span.End.Line, d.Span.End.Column)
}

func diagMultiset(ds []sb.Diag) string {
	keys := make([]string, len(ds))
	for i, d := range ds {
		keys[i] = diagKey(d)
	}
	sort.Strings(keys)
	return strings.Join(keys, "\n")
}

func runSummary(r sb.RunResult) string {
	return fmt.Sprintf("%s outcome=%s/%s/%q writes=%q", r.Backend, r.Outcome.Class, r.Outcome.Kind, r.Outcome.Message, strings.Join(r.Writes, ""))
}

// checkRepeat: R repetitions of analyse+compile+run in one process and one more in another
// process give the same diagnostic multiset, the same output and the same outcome.
func checkRepeat(c Case) *pk.Failure {
	req := c.Request("vm", "tree")
	req.Rep = c.Reps
	req.GoMaxProcs = c.GoMaxProcs
	req.RerunCompiled = 2     // each repetition also runs its compiled program twice more on fresh VMs
	req.RecompileAnalysed = 2 // ... and compiles its analysed modules twice more, running each result
	resp := px.Pool().Exec(req)
	if f := px.SandboxFailure("repeat", resp); f != nil {
		f.Msg = px.ProgText(c.ProgCase) + "\n" + f.Msg
		return f
	}
	if resp.Inconclusive {
		pk.Inconclusive()
		return nil
	}
	// a second process with a different scheduler setting
	req2 := c.Request("vm", "tree")
	req2.Rep = 2
	req2.GoMaxProcs = 1
	if c.GoMaxProcs == 1 {
		req2.GoMaxProcs = 16
	}
	resp2 := px.Pool().Exec(req2)
	if f := px.SandboxFailure("repeat", resp2); f != nil {
		f.Msg = px.ProgText(c.ProgCase) + "\n" + f.Msg
		return f
	}
	all := append(append([]sb.RepResult{}, resp.Reps...), resp2.Reps...)
	if c.WantAccept && len(all) > 0 && len(all[0].Runs) == 0 {
		return pk.Failf("repeat", "table-rejected", "a table program that is meant to run was not accepted:\n%s\n%s", diagMultiset(append(append([]sb.Diag{}, all[0].Diags...), all[0].SyntaxErrors...)), px.ProgText(c.ProgCase))
	}
	if len(all) < 2 {
		return pk.Failf("repeat", "no-reps", "expected repetitions, got %d", len(all))
	}
	// "earlier runs in the same process": a compiled program that is run again (fresh VM, fresh host) behaves
	// like its first run
	for i, rep := range all {
		for _, r := range rep.Runs {
			first := fmt.Sprintf("outcome=%s/%s/%q writes=%q", r.Outcome.Class, r.Outcome.Kind, r.Outcome.Message, strings.Join(r.Writes, ""))
			for k, rr := range r.Reruns {
				pk.Extra("reruns-compared", 1)
				again := fmt.Sprintf("outcome=%s/%s/%q writes=%q", rr.Outcome.Class, rr.Outcome.Kind, rr.Outcome.Message, strings.Join(rr.Writes, ""))
				if rr.InitPanic != "" {
					again = "init panic: " + rr.InitPanic
				}
				if again != first {
					return pk.Failf("repeat", "rerun-differs:"+r.Backend, "repetition %d: run %d of the same compiled program differs from its first run\n  first: %s\n  now:   %s\n%s", i, k+2, first, again, px.ProgText(c.ProgCase))
				}
			}
		}
	}
	base := all[0]
	bd := diagMultiset(append(append([]sb.Diag{}, base.Diags...), base.SyntaxErrors...))
	for i, r := range all[1:] {
		pk.Extra("repetitions-compared", 1)
		d := diagMultiset(append(append([]sb.Diag{}, r.Diags...), r.SyntaxErrors...))
		if d != bd {
			return pk.Failf("repeat", "diagnostics-differ", "repetition %d reports a different set of diagnostics\n--- first:\n%s\n--- now:\n%s\n%s", i+1, bd, d, px.ProgText(c.ProgCase))
		}
		if len(r.Runs) != len(base.Runs) {
			return pk.Failf("repeat", "runs-differ", "repetition %d ran %d backends, the first %d\n%s", i+1, len(r.Runs), len(base.Runs), px.ProgText(c.ProgCase))
		}
		for k := range r.Runs {
			a, b := runSummary(base.Runs[k]), runSummary(r.Runs[k])
			if a != b {
				return pk.Failf("repeat", "output-differs:"+r.Runs[k].Backend, "repetition %d differs on %s\n  first: %s\n  now:   %s\n%s", i+1, r.Runs[k].Backend, a, b, px.ProgText(c.ProgCase))
			}
		}
	}
	return nil
}

func init() { pk.Reg("repeat", checkRepeat) }

func TestReplay(t *testing.T) { pk.ReplayTest(t) }

func detCfg() gen.Cfg {
	c := gen.ModelCfg()
	c.PrintObjects = true
	c.Unicode = true
	c.Triggers = false
	c.MaxFns = 4
	for _, g := range []string{"exit-pending", "obj-display-order"} {
		if pk.GateOpen(g) {
			c.Off[g] = true
		}
	}
	if c.Off["obj-display-order"] {
		c.PrintObjects = false
	}
	return c
}

func TestRepeatGenerated(t *testing.T) {
	pk.SkipIfReplay(t)
	cfg := detCfg()
	rapid.Check(t, func(rt *rapid.T) {
		g := gen.Program(rt, cfg)
		pk.Eval()
		if tr, ok := px.Model(g); !ok && (px.TooBig(tr) || gen.MayExplode(g.Prog)) {
			pk.Discard("unbounded-growth")
			return
		}
		c := Case{ProgCase: px.FromGenerated(g), Reps: pk.Scale(6, 16), GoMaxProcs: []int{1, 2, 16}[rapid.IntRange(0, 2).Draw(rt, "gomaxprocs")]}
		if g.Feat["obj-lit"] > 0 || g.Feat["lambda"] >= 2 || len(g.Fns) >= 2 {
			pk.NonTrivial(px.ProgText(c.ProgCase), map[string]any{"program": c.Modules["main"], "reps": c.Reps})
		}
		pk.Judge(rt, c, checkRepeat(c))
	})
}

// Hand-built order-sensitive programs: several modules with overlapping names, many imports,
// objects rendered / serialised / iterated, many locals and lambdas, diagnostics in several modules.
var fixed = map[string]map[string]string{
	"objects": {"main": `fn main() {
    let o = new { zeta: 1, alpha: "a", mid: [1, 2], beta: 2.5, omega: true };
    println(o);
    println(o.to_json());
    println(o.keys());
    let a = new { ? };
    a.set("k3", 3); a.set("k1", 1); a.set("k2", "two"); a.set("k0", [1]);
    println(a);
    println(a.keys());
    println(a.to_json());
    println([o, o]);
    println(o == new { zeta: 1, alpha: "a", mid: [1, 2], beta: 2.5, omega: true });
}
`},
	"modules": {"main": `import { fa, ga } from a;
import { fb, gb } from b;
import { fc } from c;
let x = 100;
fn helper() -> int { x + 1 }
fn main() {
    println(fa(), fb(), fc(), ga, gb, helper());
    x += 1;
    println(fa(), fb(), fc(), ga, gb, helper());
}
`, "a": `pub let ga = 1;
let x = 1;
fn helper() -> int { x + 10 }
pub fn fa() -> int { x += 1; helper() }
fn main() {}
`, "b": `pub let gb = 2;
let x = 2;
fn helper() -> int { x + 20 }
pub fn fb() -> int { x += 1; helper() }
fn main() {}
`, "c": `import { fa } from a;
let x = 3;
fn helper() -> int { x + 30 }
pub fn fc() -> int { x += 1; helper() + fa() }
fn main() {}
`},
	// an imported name that other modules also define (privately, publicly, as a global): the linker must
	// not depend on which module it happens to visit first
	"look-alike-names": {"main": `import { f, shared } from a;
import { g } from b;
import { h } from c;
fn main() {
    println(f(), g(), h(), shared);
    println(f(), g(), h(), shared);
}
`, "a": `pub let shared = 1;
let k = 10;
pub fn f() -> str { k += 1; "a.f " + k.to_string() }
fn main() {}
`, "b": `let shared = 2;
let k = 20;
fn f() -> str { k += 1; "b.f " + k.to_string() }
pub fn g() -> str { f() + "/" + shared.to_string() }
fn main() {}
`, "c": `import { f } from a;
let shared = 3;
let k = 30;
fn g() -> str { k += 1; "c.g " + k.to_string() }
pub fn h() -> str { f() + "|" + g() + "/" + shared.to_string() }
fn main() {}
`, "d": `pub fn f() -> str { "d.f" }
pub fn g() -> str { "d.g" }
pub fn h() -> str { "d.h" }
pub let shared = 4;
fn main() {}
`},
	// loops over literals that are left early: nothing of the iteration may stay behind in the compiled program
	"early-exits": {"main": `fn first(n: int) -> str {
    for c in "hello" { if n >= 0 { return c; } }
    "none"
}
fn main() {
    for c in "world" { println(c); break; }
    for x in [1, 2, 3] { println(x); if x == 2 { break; } }
    for i in 5..9 { println(i); if i == 6 { break; } }
    println(first(1), first(2));
    try { for c in "xyz" { throw(c); } } catch e { println(e.message); }
    let s = "abc";
    for c in s { println(c); break; }
    for c in s { println(c); }
    let r = 0..4;
    for i in r { if i == 1 { break; } }
    for i in r { println(i); }
}
`},
	// equality of objects and any-objects walks their fields; whatever it answers (or however it fails) for fields that
	// hold functions, nested containers or values of different kinds must not depend on the order of that walk
	"equality-over-many-fields": {"main": `fn pick(n: int) -> int { n }
fn main() {
    let a = new { f: println, x: 1, y: 2, z: "s", w: [1], v: ?1, u: pick };
    let b = new { f: println, x: 2, y: 3, z: "t", w: [2], v: ?2, u: pick };
    println(a == b, a != b, a == a);
    let c = new { ? }; c.set("f", debug); c.set("k", 1); c.set("m", 2); c.set("n", [1]); c.set("o", "s"); c.set("p", pick);
    let d = new { ? }; d.set("f", debug); d.set("k", 2); d.set("m", 3); d.set("n", "list"); d.set("o", 1); d.set("p", pick);
    println(c == d, d != c, c == c);
    println([println] == [println], ?debug == ?debug, [a] == [b], ?c == ?d);
    let e = new { k1: new { f: fmt, a: 1 }, k2: new { f: fmt, a: 2 }, k3: [new { g: print, b: 1 }] };
    let h = new { k1: new { f: fmt, a: 2 }, k2: new { f: fmt, a: 3 }, k3: [new { g: print, b: 2 }] };
    println(e == h, e.k1 == h.k1, e.k3 == h.k3);
    try { println(c.to_json()); } catch err { println("json", err.message); }
    println(a, c);
}
`},
	// a failure while serialising an object with SEVERAL offending fields: which one the message names must not vary
	"json-failure-over-many-fields": {"main": `fn main() {
    let o = new { a: 1..3, b: fn() -> int { 1 }, c: ((0.0 - 1.0) ** 0.5), d: println, e: 2..4, f: fn(x: int) -> int { x }, g: 1, h: "s" };
    println("before");
    println(o.to_json());
}
`},
	// objects whose field names are alike (case, digits, prefixes of each other): rendered the same way every time
	"display-of-objects-with-similar-keys": {"main": `fn main() {
    let o = new { id: 1, ID: 2, Id: 3, iD: 4, name: "a", Name: "b", NAME: "c", a: 0, A: 0, a1: 1, A1: 1, aa: 2, aA: 2, Aa: 2, AA: 2 };
    println(o);
    println([o, o]);
    let p = new { ? };
    p.set("key", 1); p.set("KEY", 2); p.set("Key", 3); p.set("kEy", 4); p.set("keY", 5); p.set("k", 6); p.set("K", 7); p.set("", 8); p.set(" ", 9);
    println(p);
    println(p.keys());
    println(p.to_json(), o.to_json());
    println(?p, new { inner: p, INNER: o });
}
`},
	// two spellings of one key in a parsed document
	"json-keys-that-collapse": {"main": `fn main() {
    let o = "{\"\\u00e9\": 1, \"e\\u0301\": 2, \"a\": 3, \"\\u00e4\": 4, \"a\\u0308\": 5, \"\\uac00\": 6, \"\\u1100\\u1161\": 7}".parse_json() as { ? };
    println(o.keys().len());
    println(o);
    println(o.to_json());
}
`},
	"json-failure-over-many-keys": {"main": `fn main() {
    let p = new { ? };
    p.set("r", 0..1); p.set("n", ((0.0 - 1.0) ** 0.5)); p.set("s", fn() -> int { 1 }); p.set("t", 5..6); p.set("u", debug); p.set("ok", 1);
    println("before");
    println(p.to_json_indent());
}
`},
	// function literals in several modules, printed: what a function value displays must not depend on the order
	// in which the compiler happens to visit the modules
	"lambda-display": {"main": `import { fa, ga } from a;
import { fb } from b;
fn main() {
    let f = fn() -> int { 1 };
    let g = fn(x: int) -> int { x };
    println(f, g, fa(), fb(), ga());
    println(f, main);
}
`, "a": `pub fn fa() -> int { let g = fn() -> int { 2 }; let h = fn() -> int { 3 }; println(g, h); g() + h() }
pub fn ga() -> str { let k = fn() -> str { "k" }; println(k); k() }
fn main() {}
`, "b": `import { fa } from a;
pub fn fb() -> int { let g = fn() -> int { 4 }; println(g); g() + fa() }
fn main() {}
`, "c": `pub fn fc() -> int { let g = fn() -> int { 5 }; g() }
fn main() {}
`},
	// values that fail a cast in more than one place: which place is named must not depend on map order
	"cast-failure-paths": {"main": `fn main() {
    let o = new { a: "s", b: "t", c: "u", d: "v" };
    let x: any = o;
    try { let y = x as { a: int, b: int, c: int, d: int }; println(y.a); } catch e { println(e.message); }
    try { let y = x as { a: str }; println(y.a); } catch e { println(e.message); }
    try { let y = x as { a: str, b: str, c: str, d: str, e: str, f: str, g: str }; println(y.a); } catch e { println(e.message); }
    let j: any = "{\"p\": 1, \"q\": 2, \"r\": 3, \"s\": [1, \"x\", true]}".parse_json();
    try { let y = j as { p: str, q: str, r: str, s: [int] }; println(y.p); } catch e { println(e.message); }
    try { let y: { p: int } = j; println(y.p); } catch e { println(e.message); }
    try { let y = j as { ? }; println(y.keys()); println(y); println(y.to_json()); } catch e { println(e.message); }
    let l: any = "[{\"a\": 1, \"b\": 2}, {\"a\": \"x\", \"b\": \"y\"}]".parse_json();
    try { let y = l as [{ a: int, b: int }]; println(y.len()); } catch e { println(e.message); }
}
`},
	"diagnostics-objects": {"main": `type T = { a: int };
type U = { a: int, b: int, c: int, d: int };
fn take(t: T) -> int { t.a }
fn main() {
    let v: T = new { a: 1, x: 2, y: 3, z: 4, w: 5 };
    let u: U = new { a: 1 };
    let w: U = new { a: "s", b: "t", c: "u", d: "v" };
    println(take(new { a: 1, p: 1, q: 2, r: 3 }));
    println(v.nope, u.nope, w.nope);
    let o = new { a: 1, b: 2 };
    let p: { a: int, b: int, c: int, d: int } = o;
    let q: { z: int } = new { k1: 1, k2: 2, k3: 3 };
}
`},
	"diagnostics-templates": {"main": `import templ FooFeature from templates;
$Lamp = { lit: bool };
$Other = { n: int };
impl FooFeature with { light, temperature } for $Lamp {
    fn dim(s: $Lamp, percent: int) -> bool { true }
    fn set_temp(s: $Lamp, celsius: float) {}
    fn extra1(s: $Lamp) {}
    fn extra2(s: $Lamp) {}
}
impl FooFeature with { nope1, nope2, nope3 } for $Other {
    fn a1(s: $Other) {}
    fn a2(s: $Other) {}
}
fn main() { println(1); }
`},
	"lambdas-and-locals": {"main": `fn main() {
    let a = 1; let b = 2; let c = 3; let d = 4; let e = 5; let f = 6; let g = 7; let h = 8;
    let l1 = fn(p: int) -> int { p + 1 };
    let l2 = fn(p: int) -> int { p + 2 };
    let l3 = fn(p: int, q: int) -> int { p - q };
    let l4 = fn() -> str { "four" };
    println(l1(a), l2(b), l3(c, d), l4(), e, f, g, h);
    for i in 0..3 { let l5 = fn(z: int) -> int { z * 2 }; println(l5(i)); }
}
`},
	"diagnostics": {"main": `import { fa } from a;
import { nope } from a;
import { fb } from missing;
fn unused_one() {}
fn unused_two(p: int) {}
fn main() {
    let u1 = 1;
    let u2 = "s";
    let bad1 = 1 + "a";
    let bad2 = true - 1;
    undefined_call();
    println(fa());
    let u1 = 2;
}
`, "a": `pub fn fa() -> int { let unused = 1; let bad = 1 + "x"; 1 }
fn private_unused() {}
fn main() {}
`},
}

func TestTableFixed(t *testing.T) {
	pk.SkipIfReplay(t)
	col := pk.NewCollector()
	names := make([]string, 0, len(fixed))
	for n := range fixed {
		names = append(names, n)
	}
	sort.Strings(names)
	for k, n := range names {
		if !pk.Mine(k) {
			continue
		}
		for _, gmp := range []int{1, 2, 16} {
			c := Case{ProgCase: px.ProgCase{Modules: fixed[n], Entry: "main", Limits: sb.DefaultLimits(), Note: n}, Reps: pk.Scale(12, 30), GoMaxProcs: gmp}
			pk.Eval()
			pk.NonTrivial(n+fmt.Sprint(gmp), map[string]any{"program": n, "reps": c.Reps, "gomaxprocs": gmp})
			c.WantAccept = !strings.HasPrefix(n, "diagnostics")
			f := checkRepeat(c)
			if f != nil {
				f.Sig = f.Sig + ":" + n
			}
			col.Report(c, f)
		}
	}
	col.Done(t)
}

// A single-threaded program that the host cancels at a fixed point of its execution (synchronously, inside the
// n-th host write - the way a host implements `exit` or a stop button) is stopped at the same place every time:
// when the program notices the cancellation must not depend on goroutine timing.
var cancelProgs = map[string]string{
	"print-loop": "fn main() { let i = 0; while i < 4000 { i += 1; println(\"line\", i); } println(\"done\"); }\n",
	"calls":      "fn f(x: int) -> int { if x % 3 == 0 { println(\"f\", x); } x + 1 }\nfn main() { let i = 0; while i < 6000 { i = f(i); } println(\"done\", i); }\n",
	"try-loop":   "fn main() { let i = 0; loop { i += 1; try { if i % 2 == 0 { throw(\"t\"); } println(\"odd\", i); } catch e { println(\"even\", i); } if i > 5000 { break; } } }\n",
	"for-lists":  "fn main() { let l = [1, 2, 3, 4, 5, 6, 7, 8]; for a in l { for b in l { for c in l { println(a, b, c); } } } }\n",
}

type CancelCase struct {
	px.ProgCase
	Backend string
	AtWrite int
	Reps    int
}

func checkCancelPoint(c CancelCase) *pk.Failure {
	req := c.Request(c.Backend)
	req.Rep = c.Reps
	req.CancelAtWrite = c.AtWrite
	resp := px.Pool().Exec(req)
	if f := px.SandboxFailure("cancelpoint", resp); f != nil {
		f.Msg = px.ProgText(c.ProgCase) + "\n" + f.Msg
		return f
	}
	if resp.Inconclusive || len(resp.Reps) < 2 {
		pk.Inconclusive()
		return nil
	}
	first := ""
	for i, rep := range resp.Reps {
		if len(rep.Runs) != 1 {
			return pk.Failf("cancelpoint", "table-rejected", "the table program did not run\n%s", px.ProgText(c.ProgCase))
		}
		r := rep.Runs[0]
		s := fmt.Sprintf("outcome=%s/%s writes=%d last=%q", r.Outcome.Class, r.Outcome.Kind, len(r.Writes), last(r.Writes))
		pk.Extra("cancelled-runs-compared", 1)
		if i == 0 {
			first = s
			if r.Outcome.Class == "ok" {
				return pk.Failf("cancelpoint", "not-cancelled", "the host cancelled at write %d but the program ran to completion (%s)\n%s", c.AtWrite, s, px.ProgText(c.ProgCase))
			}
			continue
		}
		if s != first {
			return pk.Failf("cancelpoint", "stop-point-differs:"+c.Backend, "cancelled at write %d on %s: repetition %d stopped elsewhere\n  first: %s\n  now:   %s\n%s", c.AtWrite, c.Backend, i, first, s, px.ProgText(c.ProgCase))
		}
	}
	return nil
}

func last(xs []string) string {
	if len(xs) == 0 {
		return ""
	}
	return xs[len(xs)-1]
}

func init() { pk.Reg("cancelpoint", checkCancelPoint) }

func TestTableCancelPoint(t *testing.T) {
	pk.SkipIfReplay(t)
	col := pk.NewCollector()
	names := make([]string, 0, len(cancelProgs))
	for n := range cancelProgs {
		names = append(names, n)
	}
	sort.Strings(names)
	k := 0
	for _, n := range names {
		for _, be := range []string{"vm", "tree"} {
			for _, at := range []int{1, 3, 17, 200} {
				k++
				if !pk.Mine(k) {
					continue
				}
				c := CancelCase{ProgCase: px.ProgCase{Modules: map[string]string{"main": cancelProgs[n]}, Entry: "main", Limits: sb.DefaultLimits(), Note: n}, Backend: be, AtWrite: at, Reps: pk.Scale(12, 60)}
				pk.Eval()
				pk.NonTrivial(fmt.Sprint(n, be, at), map[string]any{"program": n, "backend": be, "cancel_at_write": at, "reps": c.Reps})
				f := checkCancelPoint(c)
				if f != nil {
					f.Sig = f.Sig + ":" + n
				}
				col.Report(c, f)
			}
		}
	}
	pk.Exhaustive("cancel-point")
	col.Done(t)
}
