package c13

import (
	"fmt"
	"math"
	"testing"

	"pgregory.net/rapid"

	"verif/hs"
	"verif/pk"
	"verif/px"
	"verif/sb"
)

func TestMain(m *testing.M) { pk.Main(m) }

func TestReplay(t *testing.T) { pk.ReplayTest(t) }

func drawDepth(rt *rapid.T) int {
	d := rapid.SampledFrom([]int{0, 1, 1, 2, 2, 2, 3, 3, 4}).Draw(rt, "depth")
	if d > maxDepth() {
		d = maxDepth()
	}
	return d
}

func nonTrivialValue(v hs.Value, t hs.Type) bool {
	return typeDepth(t) >= 2 || countNodes(v) >= 3
}

// ---------------------------------------------------------------------------------------------
// TestEq

func TestEq(t *testing.T) {
	pk.SkipIfReplay(t)
	rapid.Check(t, func(rt *rapid.T) {
		ty := genType(rt, drawDepth(rt))
		a := genValue(rt, ty)
		var b, c hs.Value
		kinds := []string{}
		mut := func(v hs.Value) hs.Value {
			n, k := mutate(rt, v, ty)
			if k == "" {
				k = "copy"
			}
			kinds = append(kinds, k)
			return n
		}
		mode := rapid.IntRange(0, 6).Draw(rt, "mode")
		switch mode {
		case 0:
			b, c = hs.DeepCopy(a), permuteKeys(a, 0)
			kinds = append(kinds, "copy", "permuted")
		case 1:
			b, c = mut(a), hs.DeepCopy(a)
		case 2:
			b = mut(a)
			c = mut(b)
		case 3:
			b, c = mut(a), mut(a)
		case 4:
			b, c = genValue(rt, ty), genValue(rt, ty)
			kinds = append(kinds, "independent")
		case 5:
			b = permuteKeys(a, 1)
			c = mut(b)
			kinds = append(kinds, "permuted")
		default:
			b = mut(a)
			kinds = append(kinds, "pair")
		}
		cs := EqCase{T: ty, A: hs.WV{V: a}, B: hs.WV{V: b}, C: hs.WV{V: c}}
		pk.Eval()
		pk.Class("eq:type:" + ty.K.String())
		for _, k := range kinds {
			pk.Class("eq:pair:" + k)
		}
		if !hs.Equal(a, b) && mode != 4 {
			pk.Class("near-equal")
		}
		if hs.Equal(a, b) {
			pk.Class("eq:model-equal")
		} else {
			pk.Class("eq:model-different")
		}
		if nonTrivialValue(a, ty) {
			pk.NonTrivial(fmt.Sprintf("eq|%s|%s|%s|%s", ty.Canon(), show(a), show(b), show(c)), cs)
		}
		pk.Judge(rt, cs, checkEq(cs))
	})
}

// ---------------------------------------------------------------------------------------------
// TestClone

type nodeInfo struct {
	Path  []Step
	T     hs.Type
	V     hs.Value
	InAny bool
}

func enumNodes(v hs.Value, t hs.Type, path []Step, inAny bool, out *[]nodeInfo) {
	p := append([]Step(nil), path...)
	*out = append(*out, nodeInfo{Path: p, T: t, V: v, InAny: inAny})
	switch x := v.(type) {
	case *hs.ListV:
		for i, e := range x.Elems {
			enumNodes(e, childType(t, v, "", e), append(p, Step{K: "i", I: i}), inAny, out)
		}
	case *hs.ObjV:
		for _, k := range x.SortedKeys() {
			enumNodes(x.M[k], childType(t, v, k, x.M[k]), append(p, Step{K: "k", S: k}), inAny || x.Any, out)
		}
	case hs.OptV:
		if x.Inner != nil {
			enumNodes(x.Inner, childType(t, v, "", x.Inner), append(p, Step{K: "o"}), inAny, out)
		}
	}
}

func genAction(rt *rapid.T, root hs.Value, t hs.Type) (Action, bool) {
	var nodes []nodeInfo
	enumNodes(root, t, nil, false, &nodes)
	// prefer containers
	var conts []nodeInfo
	for _, n := range nodes {
		switch n.V.(type) {
		case *hs.ListV:
			conts = append(conts, n)
		case *hs.ObjV:
			if n.V.(*hs.ObjV).Any {
				conts = append(conts, n)
			}
		}
	}
	var n nodeInfo
	if len(conts) > 0 && rapid.IntRange(0, 3).Draw(rt, "container") != 0 {
		n = conts[rapid.IntRange(0, len(conts)-1).Draw(rt, "node")]
	} else {
		n = nodes[rapid.IntRange(0, len(nodes)-1).Draw(rt, "node")]
	}
	valOf := func(ty hs.Type) hs.Value {
		if n.InAny {
			return genValue(rt, genDynType(rt, 1))
		}
		return genValue(rt, ty)
	}
	a := Action{Path: n.Path}
	ops := []string{}
	if len(n.Path) > 0 {
		ops = append(ops, "assign")
	}
	switch x := n.V.(type) {
	case *hs.ListV:
		ops = append(ops, "push", "push", "pop", "push_front", "pop_front", "insert", "insert", "remove", "remove", "concat")
		if sortable(x) && (n.T.Elem == nil || n.T.Elem.K == hs.KInt || n.T.Elem.K == hs.KFloat || n.T.Elem.K == hs.KStr) {
			ops = append(ops, "sort", "sort")
		}
	case *hs.ObjV:
		if x.Any {
			ops = append(ops, "any_set", "any_set", "any_set")
		}
	}
	if len(ops) == 0 {
		return a, false
	}
	a.Op = rapid.SampledFrom(ops).Draw(rt, "op")
	et := hs.TInt
	if l, ok := n.V.(*hs.ListV); ok {
		if n.T.K == hs.KList {
			et = *n.T.Elem
		} else if len(l.Elems) > 0 {
			et = dynType(l.Elems[0])
		}
	}
	switch a.Op {
	case "assign":
		if n.InAny {
			a.Val = hs.WV{V: genValue(rt, genDynType(rt, 1))}
		} else {
			a.Val = hs.WV{V: genValue(rt, n.T)}
		}
	case "push", "push_front":
		a.Val = hs.WV{V: valOf(et)}
	case "insert":
		ln := len(n.V.(*hs.ListV).Elems)
		a.I = rapid.IntRange(-ln-1, ln+1).Draw(rt, "index")
		a.Val = hs.WV{V: valOf(et)}
	case "remove":
		ln := len(n.V.(*hs.ListV).Elems)
		a.I = rapid.IntRange(-ln-1, ln).Draw(rt, "index")
	case "concat":
		a.Val = hs.WV{V: genValue(rt, hs.TList(et))}
	case "any_set":
		a.Key = rapid.SampledFrom(keyPool).Draw(rt, "setkey")
		a.Val = hs.WV{V: genValue(rt, genDynType(rt, 1))}
	}
	return a, true
}

func TestClone(t *testing.T) {
	pk.SkipIfReplay(t)
	pk.Class("clone:interpreter-values-have-no-Clone(vm-only)")
	rapid.Check(t, func(rt *rapid.T) {
		ty := genType(rt, drawDepth(rt))
		if ty.IsScalar() && rapid.IntRange(0, 7).Draw(rt, "wrap") != 0 {
			ty = hs.TList(ty) // scalar roots have no history worth the name
		}
		v := genValue(rt, ty)
		v0 := hs.DeepCopy(v)
		// the value's past: in one case out of three the original is changed before it is cloned (lists that were
		// longer once keep spare room, which a clone must not share)
		var pre []Action
		if rapid.IntRange(0, 2).Draw(rt, "past") == 0 {
			var mp hs.Value = hs.DeepCopy(v)
			np := rapid.IntRange(1, 8).Draw(rt, "preSteps")
			for i := 0; i < np; i++ {
				a, ok := genAction(rt, mp, ty)
				if !ok {
					continue
				}
				// emptying is the interesting past: prefer the shrinking operations
				if a.Op == "push" && rapid.Bool().Draw(rt, "popInstead") {
					a.Op = "pop"
				}
				if applicable, _, _ := applyModel(&mp, a); !applicable {
					continue
				}
				pre = append(pre, a)
				pk.Class("clone:pre-op:" + opClass(a))
			}
			if len(pre) > 0 {
				pk.Class("clone:value-with-a-past")
				v = mp
			}
		}
		var mo, mc hs.Value = hs.DeepCopy(v), hs.DeepCopy(v)
		n := rapid.IntRange(1, 12).Draw(rt, "steps")
		var acts []Action
		for i := 0; i < n; i++ {
			onClone := rapid.Bool().Draw(rt, "onclone")
			root := &mo
			if onClone {
				root = &mc
			}
			a, ok := genAction(rt, *root, ty)
			if !ok {
				continue
			}
			a.OnClone = onClone
			if applicable, _, _ := applyModel(root, a); !applicable {
				continue
			}
			acts = append(acts, a)
			pk.Class("clone:op:" + opClass(a))
		}
		cs := CloneCase{T: ty, V: hs.WV{V: v0}, Actions: acts, Pre: pre}
		pk.Eval()
		pk.Class("clone:type:" + ty.K.String())
		pk.Class(fmt.Sprintf("clone:steps:%d", len(acts)/4*4))
		if nonTrivialValue(v, ty) && len(acts) >= 2 {
			pk.NonTrivial(fmt.Sprintf("clone|%s|%s|%v", ty.Canon(), show(v), acts), cs)
		}
		pk.Judge(rt, cs, checkClone(cs))
	})
}

// ---------------------------------------------------------------------------------------------
// TestJSON / TestJSONProg

// jsonType maps a drawn type into the JSON scope (see jsonScope).
func jsonType(t hs.Type) hs.Type {
	switch t.K {
	case hs.KRange:
		return hs.TInt
	case hs.KList:
		return hs.TList(jsonType(*t.Elem))
	case hs.KOpt:
		e := jsonType(*t.Elem)
		for e.K == hs.KOpt {
			e = *e.Elem
		}
		if e.K == hs.KNull {
			e = hs.TInt
		}
		return hs.TOpt(e)
	case hs.KObj:
		fs := make([]hs.Field, len(t.Fields))
		for i, f := range t.Fields {
			fs[i] = hs.Field{Name: f.Name, T: jsonType(f.T)}
		}
		return hs.TObj(fs...)
	}
	return t
}

func TestJSON(t *testing.T) {
	pk.SkipIfReplay(t)
	rapid.Check(t, func(rt *rapid.T) {
		ty := jsonType(genType(rt, drawDepth(rt)))
		v := genValue(rt, ty)
		cs := JSONCase{T: ty, V: hs.WV{V: v}}
		pk.Eval()
		pk.Class("json:type:" + ty.K.String())
		pk.Class("json:feature:" + jsonFeature(v))
		if nonTrivialValue(v, ty) {
			pk.NonTrivial(fmt.Sprintf("json|%s|%s", ty.Canon(), show(v)), cs)
		}
		f := checkJSON(cs)
		cs.Route = jsonRouteOf(f) // the replay file pins the failing route
		pk.Judge(rt, cs, f)
	})
}

// progValue removes from any-objects the content whose round trip the property does not fix
// (it has no static type to be parsed under): null, integral floats, nested any-objects.
func progValue(v hs.Value, inAny bool) hs.Value { return progValueX(v, inAny, false) }

// progNulls only replaces null inside any-objects (null cannot be passed to `set` in a program).
func progNulls(v hs.Value) hs.Value { return progValueX(v, false, true) }

func progValueX(v hs.Value, inAny, onlyNull bool) hs.Value {
	switch x := v.(type) {
	case hs.NullV:
		if inAny {
			return hs.IntV(0)
		}
	case hs.FloatV:
		if inAny && !onlyNull && float64(x) == float64(int64(x)) {
			return hs.FloatV(float64(int64(x)%1000) + 0.5)
		}
	case *hs.ListV:
		c := &hs.ListV{}
		for _, e := range x.Elems {
			c.Elems = append(c.Elems, progValueX(e, inAny, onlyNull))
		}
		return c
	case *hs.ObjV:
		if inAny && !onlyNull {
			return hs.StrV("nested")
		}
		c := hs.NewObj(x.Any)
		for _, k := range x.Keys {
			c.Set(k, progValueX(x.M[k], inAny || x.Any, onlyNull))
		}
		return c
	case hs.OptV:
		if x.Inner != nil {
			return hs.OptV{Inner: progValueX(x.Inner, inAny, onlyNull)}
		}
	}
	return v
}

func TestJSONProg(t *testing.T) {
	pk.SkipIfReplay(t)
	rapid.Check(t, func(rt *rapid.T) {
		var ty hs.Type
		// only lists, objects and any-objects have to_json
		switch rapid.IntRange(0, 2).Draw(rt, "top") {
		case 0:
			ty = hs.TList(jsonType(genType(rt, rapid.IntRange(0, 2).Draw(rt, "depth"))))
		case 1:
			n := rapid.IntRange(1, 3).Draw(rt, "nfields")
			var fs []hs.Field
			for _, nm := range pickDistinct(rt, fieldPool, n, "field") {
				fs = append(fs, hs.Field{Name: nm, T: jsonType(genType(rt, rapid.IntRange(0, 2).Draw(rt, "depth")))})
			}
			ty = hs.TObj(fs...)
		default:
			ty = hs.TAnyObj
		}
		v := progValue(genValue(rt, ty), false)
		cs := JSONProgCase{T: ty, V: hs.WV{V: v}, Prog: px.ProgCase{Modules: map[string]string{"main": buildProg(v, ty)}, Entry: "main", Limits: sb.DefaultLimits()}}
		pk.Eval()
		pk.Extra("programs", 1)
		pk.Class("json-prog:type:" + ty.K.String())
		pk.Class("json-prog:feature:" + jsonFeature(v))
		if nonTrivialValue(v, ty) {
			pk.NonTrivial(fmt.Sprintf("json-prog|%s|%s", ty.Canon(), show(v)), cs)
		}
		pk.Judge(rt, cs, checkJSONProg(cs))
	})
}

// ---------------------------------------------------------------------------------------------
// TestEqProg: the == / != operators of programs on both backends (small slice)

func TestEqProg(t *testing.T) {
	pk.SkipIfReplay(t)
	rapid.Check(t, func(rt *rapid.T) {
		ty := genType(rt, rapid.SampledFrom([]int{0, 1, 1, 2, 2}).Draw(rt, "depth"))
		a := genValue(rt, ty)
		var b hs.Value
		kind := "independent"
		switch rapid.IntRange(0, 5).Draw(rt, "mode") {
		case 0:
			b, kind = permuteKeys(a, 1), "permuted"
		case 1:
			b = genValue(rt, ty)
		default:
			b, kind = mutate(rt, a, ty)
			if kind == "" {
				kind = "copy"
			}
		}
		a, b = progNulls(a), progNulls(b)
		cs := EqProgCase{T: ty, A: hs.WV{V: a}, B: hs.WV{V: b},
			Prog: px.ProgCase{Modules: map[string]string{"main": buildEqProg(a, b, ty)}, Entry: "main", Limits: sb.DefaultLimits()}}
		pk.Eval()
		pk.Extra("programs", 1)
		pk.Class("eq-prog:pair:" + kind)
		pk.Class("eq-prog:type:" + ty.K.String())
		if kind != "independent" && kind != "copy" && kind != "permuted" {
			pk.Class("near-equal")
		}
		if nonTrivialValue(a, ty) {
			pk.NonTrivial(fmt.Sprintf("eq-prog|%s|%s|%s", ty.Canon(), show(a), show(b)), cs)
		}
		pk.Judge(rt, cs, checkEqProg(cs))
	})
}

// ---------------------------------------------------------------------------------------------
// TestDisplay

func TestDisplay(t *testing.T) {
	pk.SkipIfReplay(t)
	rapid.Check(t, func(rt *rapid.T) {
		ty := genType(rt, drawDepth(rt))
		v := genValue(rt, ty)
		cs := DisplayCase{T: ty, V: hs.WV{V: v}}
		pk.Eval()
		pk.Class("display:type:" + ty.K.String())
		pk.Class("display:feature:" + displayFeature(v))
		if multiKey(v) {
			pk.Class("display:multi-key(line-multiset)")
		}
		if nonTrivialValue(v, ty) {
			pk.NonTrivial(fmt.Sprintf("display|%s|%s", ty.Canon(), show(v)), cs)
		}
		pk.Judge(rt, cs, checkDisplay(cs))
	})
}

// ---------------------------------------------------------------------------------------------
// TestTableSmall: every single difference of a few base values of representative types

type variant struct {
	V    hs.Value
	Kind string
}

func altLeaves(v hs.Value) []hs.Value {
	switch x := v.(type) {
	case hs.IntV:
		return []hs.Value{x + 1, hs.IntV(-int64(x) - 7)}
	case hs.FloatV:
		// ... and the closest neighbours: floats that differ in the last place are different values
		up1 := math.Nextafter(float64(x), math.Inf(1))
		up3 := math.Nextafter(math.Nextafter(up1, math.Inf(1)), math.Inf(1))
		down1 := math.Nextafter(float64(x), math.Inf(-1))
		return []hs.Value{x + 0.5, hs.FloatV(float64(int64(x)) + 1), hs.FloatV(up1), hs.FloatV(up3), hs.FloatV(down1)}
	case hs.BoolV:
		return []hs.Value{!x}
	case hs.StrV:
		return []hs.Value{x + "x", hs.StrV("")}
	}
	return nil
}

// variants enumerates every value that differs from v in exactly one place.
func variants(v hs.Value, t hs.Type, inAny bool) []variant {
	var out []variant
	for _, a := range altLeaves(v) {
		if !hs.Equal(a, v) {
			out = append(out, variant{a, "leaf:" + kindName(v)})
		}
	}
	switch x := v.(type) {
	case hs.RangeV:
		out = append(out, variant{hs.RangeV{Start: x.Start, End: x.End, Incl: !x.Incl}, "range-incl"},
			variant{hs.RangeV{Start: x.Start + 1, End: x.End, Incl: x.Incl}, "leaf:range"},
			variant{hs.RangeV{Start: x.Start, End: x.End - 1, Incl: x.Incl}, "leaf:range"})
	case *hs.ListV:
		et := hs.TInt
		if t.K == hs.KList {
			et = *t.Elem
		} else if len(x.Elems) > 0 {
			et = dynType(x.Elems[0])
		}
		for i := range x.Elems {
			c := hs.DeepCopy(x).(*hs.ListV)
			c.Elems = append(c.Elems[:i], c.Elems[i+1:]...)
			out = append(out, variant{c, "list-remove"})
			for _, sub := range variants(x.Elems[i], et, inAny) {
				c := hs.DeepCopy(x).(*hs.ListV)
				c.Elems[i] = sub.V
				out = append(out, variant{c, sub.Kind})
			}
		}
		for i := 0; i <= len(x.Elems); i++ {
			c := hs.DeepCopy(x).(*hs.ListV)
			c.Elems = append(c.Elems[:i], append([]hs.Value{hs.Zero(et)}, c.Elems[i:]...)...)
			out = append(out, variant{c, "list-add"})
		}
	case *hs.ObjV:
		for _, k := range x.SortedKeys() {
			ct := childType(t, v, k, x.M[k])
			for _, sub := range variants(x.M[k], ct, inAny || x.Any) {
				c := hs.DeepCopy(x).(*hs.ObjV)
				c.M[k] = sub.V
				out = append(out, variant{c, sub.Kind})
			}
			if x.Any {
				c := hs.DeepCopy(x).(*hs.ObjV)
				delKey(c, k)
				out = append(out, variant{c, "anyobj-remove-key"})
				for _, other := range []hs.Value{hs.IntV(1), hs.StrV("s"), hs.BoolV(true), hs.NullV{}, &hs.ListV{}, hs.NewObj(true), hs.FloatV(1)} {
					if other.Kind() != x.M[k].Kind() {
						c := hs.DeepCopy(x).(*hs.ObjV)
						c.M[k] = other
						out = append(out, variant{c, "anyobj-value-kind"})
					}
				}
			}
		}
		if x.Any {
			for _, nv := range []hs.Value{hs.IntV(0), hs.NullV{}, &hs.ListV{}} {
				c := hs.DeepCopy(x).(*hs.ObjV)
				c.Set("zz", nv)
				out = append(out, variant{c, "anyobj-add-key"})
			}
		}
	case hs.OptV:
		if x.Inner == nil {
			out = append(out, variant{hs.OptV{Inner: hs.Zero(*t.Elem)}, "opt-none-some"})
		} else {
			out = append(out, variant{hs.OptV{}, "opt-none-some"})
			for _, sub := range variants(x.Inner, *t.Elem, inAny) {
				out = append(out, variant{hs.OptV{Inner: sub.V}, sub.Kind})
			}
		}
	}
	return out
}

func anyOf(kv ...any) *hs.ObjV {
	o := hs.NewObj(true)
	for i := 0; i+1 < len(kv); i += 2 {
		o.Set(kv[i].(string), kv[i+1].(hs.Value))
	}
	return o
}

func objOf(kv ...any) *hs.ObjV {
	o := anyOf(kv...)
	o.Any = false
	return o
}

func listOf(vs ...hs.Value) *hs.ListV { return &hs.ListV{Elems: vs} }

type tableRow struct {
	T     hs.Type
	Bases []hs.Value
}

func tableRows() []tableRow {
	tObjAB := hs.TObj(hs.Field{Name: "a", T: hs.TInt}, hs.Field{Name: "b", T: hs.TStr})
	tInnerC := hs.TObj(hs.Field{Name: "c", T: hs.TInt})
	tDeep := hs.TObj(hs.Field{Name: "a", T: hs.TList(hs.TInt)}, hs.Field{Name: "b", T: hs.TOpt(tInnerC)})
	return []tableRow{
		{hs.TInt, []hs.Value{hs.IntV(0), hs.IntV(1 << 53)}},
		{hs.TFloat, []hs.Value{hs.FloatV(0), hs.FloatV(2.5)}},
		{hs.TStr, []hs.Value{hs.StrV(""), hs.StrV("a\"\né")}},
		{hs.TBool, []hs.Value{hs.BoolV(true)}},
		{hs.TNull, []hs.Value{hs.NullV{}}},
		{hs.TRange, []hs.Value{hs.RangeV{Start: 1, End: 3}, hs.RangeV{Start: 1, End: 3, Incl: true}, hs.RangeV{}}},
		{hs.TList(hs.TInt), []hs.Value{listOf(), listOf(hs.IntV(1)), listOf(hs.IntV(1), hs.IntV(2), hs.IntV(1))}},
		{hs.TList(hs.TList(hs.TInt)), []hs.Value{listOf(), listOf(listOf()), listOf(listOf(hs.IntV(1)), listOf())}},
		{tObjAB, []hs.Value{objOf("a", hs.IntV(1), "b", hs.StrV("x"))}},
		{hs.TAnyObj, []hs.Value{anyOf(), anyOf("a", hs.IntV(1)), anyOf("a", hs.IntV(1), "b", hs.StrV("x")),
			anyOf("k", listOf(hs.IntV(1)), "n", anyOf("a", hs.IntV(1))), anyOf("a", hs.NullV{}, "f", hs.FloatV(1.5), "t", hs.BoolV(true))}},
		{hs.TOpt(hs.TInt), []hs.Value{hs.OptV{}, hs.OptV{Inner: hs.IntV(0)}}},
		{hs.TList(hs.TOpt(hs.TInt)), []hs.Value{listOf(hs.OptV{}), listOf(hs.OptV{Inner: hs.IntV(1)}, hs.OptV{})}},
		{tDeep, []hs.Value{objOf("a", listOf(), "b", hs.OptV{}), objOf("a", listOf(hs.IntV(1)), "b", hs.OptV{Inner: objOf("c", hs.IntV(2))})}},
		{hs.TList(hs.TAnyObj), []hs.Value{listOf(anyOf()), listOf(anyOf("a", hs.IntV(1)), anyOf())}},
		{hs.TOpt(hs.TList(hs.TStr)), []hs.Value{hs.OptV{}, hs.OptV{Inner: listOf()}, hs.OptV{Inner: listOf(hs.StrV("a"))}}},
		{hs.TObj(hs.Field{Name: "k", T: hs.TRange}), []hs.Value{objOf("k", hs.RangeV{Start: 0, End: 2})}},
		{hs.TOpt(hs.TOpt(hs.TInt)), []hs.Value{hs.OptV{}, hs.OptV{Inner: hs.OptV{}}, hs.OptV{Inner: hs.OptV{Inner: hs.IntV(1)}}}},
		{hs.TList(hs.TRange), []hs.Value{listOf(hs.RangeV{Start: 0, End: 1, Incl: true})}},
	}
}

func TestTableSmall(t *testing.T) {
	pk.SkipIfReplay(t)
	col := pk.NewCollector()
	k, mine := 0, 0
	for _, row := range tableRows() {
		for _, base := range row.Bases {
			if !hs.Conforms(base, row.T) {
				t.Fatalf("table base %s does not conform to %s", show(base), row.T.Canon())
			}
			vs := append([]variant{{hs.DeepCopy(base), "copy"}, {permuteKeys(base, 0), "permuted"}}, variants(base, row.T, false)...)
			for _, other := range row.Bases {
				vs = append(vs, variant{hs.DeepCopy(other), "other-base"})
			}
			for _, vr := range vs {
				if !hs.Conforms(vr.V, row.T) {
					t.Fatalf("table variant %s (%s) does not conform to %s", show(vr.V), vr.Kind, row.T.Canon())
				}
				k++
				if !pk.Mine(k) {
					continue
				}
				mine++
				cs := EqCase{T: row.T, A: hs.WV{V: base}, B: hs.WV{V: vr.V}, Note: "table:" + vr.Kind}
				pk.Eval()
				pk.Class("table:" + vr.Kind)
				if vr.Kind != "copy" && vr.Kind != "permuted" && vr.Kind != "other-base" {
					pk.Class("near-equal")
				}
				if nonTrivialValue(base, row.T) {
					pk.NonTrivial(fmt.Sprintf("table|%s|%s|%s", row.T.Canon(), show(base), show(vr.V)), cs)
				}
				col.Report(cs, checkEq(cs))
			}
		}
	}
	// Objects of one static type always have the same key set; what == does for objects whose
	// key sets differ is therefore not fixed by the property: observed and counted only.
	for _, L := range libs {
		a, b := objOf("a", hs.IntV(1)), objOf("a", hs.IntV(1), "b", hs.IntV(2))
		var ab, ba bool
		if p := guard(func() {
			ab, _ = L.isEqual(L.conv(a), L.conv(b))
			ba, _ = L.isEqual(L.conv(b), L.conv(a))
		}); p != "" {
			pk.Class("doubt:obj-key-sets-differ(off-type):" + L.name + ":panic")
			continue
		}
		pk.Class(fmt.Sprintf("doubt:obj-key-sets-differ(off-type):%s:fewer==more:%v,more==fewer:%v", L.name, ab, ba))
	}
	pk.Extra("table-pairs", mine)
	pk.Exhaustive("table")
	col.Done(t)
}
