package c13

import (
	"fmt"
	"math"
	"sort"
	"strings"

	"pgregory.net/rapid"

	"verif/hs"
	"verif/pk"
)

// ---------------------------------------------------------------------------------------------
// pools

var (
	fieldPool = []string{"a", "b", "c", "k", "x1", "name"}
	// any-object keys are arbitrary strings
	keyPool = []string{"a", "b", "k", "x1", "key one", "\u00fc", "Z"}
	// every piece is stable under NFC (both libraries keep strings in NFC)
	strPieces = []string{"a", "b", "Z", "0", " ", "\u00e9", "\u65e5\u672c", "\U0001F600", "\"", "\\", "\n", "\t", "'", "{", "}", "[", ",", ":", "null", "\u00df", "<", "&", "\u2028"}
	intPool   = []int64{0, 1, -1, 2, 7, 42, -42, 255, math.MaxInt32, math.MinInt32, 1 << 53, 1<<53 + 1, -(1 << 53) - 1, math.MaxInt64, math.MinInt64, math.MaxInt64 - 1}
	floatPool = []float64{0, 1, -1, 0.5, -2.5, 3, 0.1, 1e21, 1e20, 1e-7, 123456789.125, 1e100, -1e100, math.MaxFloat64, math.SmallestNonzeroFloat64, 2.5e-300, 9007199254740993, 1.7976931348623157e308, 100, 1e6}
)

func maxDepth() int { return pk.Scale(3, 4) }

// ---------------------------------------------------------------------------------------------
// types

func genScalarType(rt *rapid.T) hs.Type {
	return rapid.SampledFrom([]hs.Type{hs.TInt, hs.TFloat, hs.TBool, hs.TStr, hs.TNull, hs.TRange, hs.TInt, hs.TStr, hs.TFloat}).Draw(rt, "scalar")
}

func genType(rt *rapid.T, depth int) hs.Type {
	if depth <= 0 {
		if rapid.IntRange(0, 7).Draw(rt, "leafkind") == 0 {
			return hs.TAnyObj
		}
		return genScalarType(rt)
	}
	switch w := rapid.IntRange(0, 15).Draw(rt, "kind"); {
	case w < 3:
		return genScalarType(rt)
	case w < 5:
		return hs.TAnyObj
	case w < 10:
		return hs.TList(genType(rt, depth-1))
	case w < 13:
		n := rapid.IntRange(1, 4).Draw(rt, "nfields")
		names := pickDistinct(rt, fieldPool, n, "field")
		fs := make([]hs.Field, n)
		for i, nm := range names {
			fs[i] = hs.Field{Name: nm, T: genType(rt, depth-1)}
		}
		return hs.TObj(fs...)
	default:
		return hs.TOpt(genType(rt, depth-1))
	}
}

// genDynType is the shape of a value stored in an any-object: scalars, lists, any-objects.
func genDynType(rt *rapid.T, depth int) hs.Type {
	scal := []hs.Type{hs.TInt, hs.TFloat, hs.TBool, hs.TStr, hs.TNull}
	if depth <= 0 {
		return rapid.SampledFrom(scal).Draw(rt, "dynscalar")
	}
	switch w := rapid.IntRange(0, 9).Draw(rt, "dynkind"); {
	case w < 6:
		return rapid.SampledFrom(scal).Draw(rt, "dynscalar")
	case w < 8:
		return hs.TList(genDynType(rt, depth-1))
	default:
		return hs.TAnyObj
	}
}

func pickDistinct(rt *rapid.T, pool []string, n int, label string) []string {
	if n > len(pool) {
		n = len(pool)
	}
	idx := make([]int, len(pool))
	for i := range idx {
		idx[i] = i
	}
	out := make([]string, 0, n)
	for i := 0; i < n; i++ {
		j := rapid.IntRange(0, len(idx)-1).Draw(rt, label)
		out = append(out, pool[idx[j]])
		idx = append(idx[:j], idx[j+1:]...)
	}
	return out
}

func typeDepth(t hs.Type) int {
	switch t.K {
	case hs.KList, hs.KOpt:
		return 1 + typeDepth(*t.Elem)
	case hs.KObj:
		d := 0
		for _, f := range t.Fields {
			if x := typeDepth(f.T); x > d {
				d = x
			}
		}
		return 1 + d
	case hs.KAnyObj:
		return 1
	}
	return 0
}

// ---------------------------------------------------------------------------------------------
// values

func genInt(rt *rapid.T) int64 {
	switch rapid.IntRange(0, 3).Draw(rt, "intclass") {
	case 0:
		return rapid.SampledFrom(intPool).Draw(rt, "intpool")
	case 1:
		return rapid.Int64().Draw(rt, "int64")
	default:
		return int64(rapid.IntRange(-5, 20).Draw(rt, "smallint"))
	}
}

func okFloat(f float64) bool {
	return !math.IsNaN(f) && !math.IsInf(f, 0) && !(f == 0 && math.Signbit(f))
}

func genFloat(rt *rapid.T) float64 {
	switch rapid.IntRange(0, 3).Draw(rt, "floatclass") {
	case 0:
		return rapid.SampledFrom(floatPool).Draw(rt, "floatpool")
	case 1:
		return rapid.Float64().Filter(okFloat).Draw(rt, "float64")
	case 2:
		return float64(rapid.IntRange(-1000, 1000).Draw(rt, "quarters")) / 4
	default:
		return float64(rapid.IntRange(-4, 9).Draw(rt, "integral"))
	}
}

func genStr(rt *rapid.T) string {
	n := rapid.IntRange(0, 4).Draw(rt, "pieces")
	var b strings.Builder
	for i := 0; i < n; i++ {
		b.WriteString(rapid.SampledFrom(strPieces).Draw(rt, "piece"))
	}
	return b.String()
}

func genValue(rt *rapid.T, t hs.Type) hs.Value {
	switch t.K {
	case hs.KInt:
		return hs.IntV(genInt(rt))
	case hs.KFloat:
		return hs.FloatV(genFloat(rt))
	case hs.KBool:
		return hs.BoolV(rapid.Bool().Draw(rt, "bool"))
	case hs.KStr:
		return hs.StrV(genStr(rt))
	case hs.KNull:
		return hs.NullV{}
	case hs.KRange:
		var s, e int64
		if rapid.IntRange(0, 4).Draw(rt, "rangeclass") == 0 {
			s, e = genInt(rt), genInt(rt)
		} else {
			s, e = int64(rapid.IntRange(-3, 6).Draw(rt, "rstart")), int64(rapid.IntRange(-3, 6).Draw(rt, "rend"))
		}
		return hs.RangeV{Start: s, End: e, Incl: rapid.Bool().Draw(rt, "incl")}
	case hs.KList:
		n := rapid.SampledFrom([]int{0, 0, 1, 1, 2, 2, 3, 4}).Draw(rt, "len")
		l := &hs.ListV{}
		for i := 0; i < n; i++ {
			l.Elems = append(l.Elems, genValue(rt, *t.Elem))
		}
		return l
	case hs.KObj:
		o := hs.NewObj(false)
		// insertion order of the fields is drawn too
		names := make([]string, len(t.Fields))
		for i, f := range t.Fields {
			names[i] = f.Name
		}
		for _, nm := range pickDistinct(rt, names, len(names), "fieldorder") {
			ft, _ := t.FieldType(nm)
			o.Set(nm, genValue(rt, ft))
		}
		return o
	case hs.KAnyObj:
		return genAnyObj(rt, 2)
	case hs.KOpt:
		if rapid.IntRange(0, 2).Draw(rt, "none") == 0 {
			return hs.OptV{}
		}
		return hs.OptV{Inner: genValue(rt, *t.Elem)}
	}
	panic("genValue: " + t.Canon())
}

func genAnyObj(rt *rapid.T, depth int) *hs.ObjV {
	o := hs.NewObj(true)
	n := rapid.SampledFrom([]int{0, 1, 1, 2, 2, 3}).Draw(rt, "nkeys")
	for _, k := range pickDistinct(rt, keyPool, n, "key") {
		dt := genDynType(rt, depth-1)
		if dt.K == hs.KAnyObj {
			if depth <= 0 {
				o.Set(k, hs.IntV(genInt(rt)))
			} else {
				o.Set(k, genAnyObj(rt, depth-1))
			}
			continue
		}
		o.Set(k, genValue(rt, dt))
	}
	return o
}

// dynType infers a type for a value held by an any-object (used to draw replacement values).
func dynType(v hs.Value) hs.Type {
	switch v := v.(type) {
	case hs.IntV:
		return hs.TInt
	case hs.FloatV:
		return hs.TFloat
	case hs.BoolV:
		return hs.TBool
	case hs.StrV:
		return hs.TStr
	case hs.NullV:
		return hs.TNull
	case hs.RangeV:
		return hs.TRange
	case *hs.ListV:
		if len(v.Elems) == 0 {
			return hs.TList(hs.TInt)
		}
		return hs.TList(dynType(v.Elems[0]))
	case *hs.ObjV:
		if v.Any {
			return hs.TAnyObj
		}
		fs := []hs.Field{}
		for _, k := range v.Keys {
			fs = append(fs, hs.Field{Name: k, T: dynType(v.M[k])})
		}
		return hs.TObj(fs...)
	case hs.OptV:
		if v.Inner == nil {
			return hs.TOpt(hs.TInt)
		}
		return hs.TOpt(dynType(v.Inner))
	}
	return hs.TNull
}

// childType is the static type of a child of a node of type t; inside any-objects it is inferred.
func childType(t hs.Type, parent hs.Value, key string, child hs.Value) hs.Type {
	switch t.K {
	case hs.KList, hs.KOpt:
		return *t.Elem
	case hs.KObj:
		if ft, ok := t.FieldType(key); ok {
			return ft
		}
	}
	return dynType(child)
}

// ---------------------------------------------------------------------------------------------
// single-difference mutation of a copy

func differentScalar(rt *rapid.T, v hs.Value, t hs.Type) (hs.Value, bool) {
	for i := 0; i < 8; i++ {
		n := genValue(rt, t)
		if !hs.Equal(n, v) {
			return n, true
		}
	}
	return nil, false
}

// mutate returns a deep copy of v with exactly one difference and the kind of difference;
// kind "" means no difference could be made (e.g. null), the result is then a plain copy.
func mutate(rt *rapid.T, v hs.Value, t hs.Type) (hs.Value, string) {
	// descend?
	switch x := v.(type) {
	case *hs.ListV:
		if len(x.Elems) > 0 && rapid.IntRange(0, 2).Draw(rt, "descend") != 0 {
			i := rapid.IntRange(0, len(x.Elems)-1).Draw(rt, "child")
			if nv, kind := mutate(rt, x.Elems[i], childType(t, v, "", x.Elems[i])); kind != "" {
				c := hs.DeepCopy(x).(*hs.ListV)
				c.Elems[i] = nv
				return c, kind
			}
		}
	case *hs.ObjV:
		if len(x.Keys) > 0 && (!x.Any || rapid.IntRange(0, 2).Draw(rt, "descend") != 0) {
			k := x.Keys[rapid.IntRange(0, len(x.Keys)-1).Draw(rt, "child")]
			if nv, kind := mutate(rt, x.M[k], childType(t, v, k, x.M[k])); kind != "" {
				c := hs.DeepCopy(x).(*hs.ObjV)
				c.M[k] = nv
				return c, kind
			}
		}
	case hs.OptV:
		if x.Inner != nil && rapid.IntRange(0, 2).Draw(rt, "descend") != 0 {
			if nv, kind := mutate(rt, x.Inner, childType(t, v, "", x.Inner)); kind != "" {
				return hs.OptV{Inner: nv}, kind
			}
		}
	}
	// local difference
	switch x := v.(type) {
	case hs.IntV, hs.FloatV, hs.BoolV, hs.StrV:
		if n, ok := differentScalar(rt, v, t); ok {
			return n, "leaf:" + t.K.String()
		}
	case hs.RangeV:
		switch rapid.IntRange(0, 2).Draw(rt, "rangediff") {
		case 0:
			x.Incl = !x.Incl
			return x, "range-incl"
		case 1:
			x.Start += int64(rapid.SampledFrom([]int{1, -1, 2}).Draw(rt, "delta"))
		default:
			x.End += int64(rapid.SampledFrom([]int{1, -1, 2}).Draw(rt, "delta"))
		}
		return x, "leaf:range"
	case *hs.ListV:
		c := hs.DeepCopy(x).(*hs.ListV)
		et := hs.TInt
		if t.K == hs.KList {
			et = *t.Elem
		} else if len(x.Elems) > 0 {
			et = dynType(x.Elems[0])
		}
		if len(c.Elems) > 0 && rapid.Bool().Draw(rt, "remove") {
			i := rapid.IntRange(0, len(c.Elems)-1).Draw(rt, "at")
			c.Elems = append(c.Elems[:i], c.Elems[i+1:]...)
			return c, "list-remove"
		}
		i := rapid.IntRange(0, len(c.Elems)).Draw(rt, "at")
		nv := genValue(rt, et)
		c.Elems = append(c.Elems[:i], append([]hs.Value{nv}, c.Elems[i:]...)...)
		return c, "list-add"
	case *hs.ObjV:
		if !x.Any {
			break // the static type fixes the key set
		}
		c := hs.DeepCopy(x).(*hs.ObjV)
		switch w := rapid.IntRange(0, 2).Draw(rt, "anydiff"); {
		case w == 0 && len(c.Keys) > 0:
			k := c.Keys[rapid.IntRange(0, len(c.Keys)-1).Draw(rt, "delkey")]
			delKey(c, k)
			return c, "anyobj-remove-key"
		case w == 1 && len(c.Keys) > 0:
			k := c.Keys[rapid.IntRange(0, len(c.Keys)-1).Draw(rt, "kindkey")]
			old := dynType(c.M[k])
			for i := 0; i < 8; i++ {
				nt := genDynType(rt, 1)
				if nt.K != old.K {
					c.M[k] = genValue(rt, nt)
					return c, "anyobj-value-kind"
				}
			}
		}
		var free []string
		for _, k := range keyPool {
			if _, ok := c.M[k]; !ok {
				free = append(free, k)
			}
		}
		if len(free) > 0 {
			k := rapid.SampledFrom(free).Draw(rt, "addkey")
			c.Set(k, genValue(rt, genDynType(rt, 1)))
			return c, "anyobj-add-key"
		}
	case hs.OptV:
		if x.Inner == nil {
			return hs.OptV{Inner: genValue(rt, *t.Elem)}, "opt-none-some"
		}
		return hs.OptV{}, "opt-none-some"
	}
	return hs.DeepCopy(v), ""
}

func delKey(o *hs.ObjV, k string) {
	delete(o.M, k)
	for i, x := range o.Keys {
		if x == k {
			o.Keys = append(o.Keys[:i:i], o.Keys[i+1:]...)
			break
		}
	}
}

// permuteKeys returns the same content with every object's insertion order reversed/rotated.
func permuteKeys(v hs.Value, rot int) hs.Value {
	switch x := v.(type) {
	case *hs.ListV:
		c := &hs.ListV{}
		for _, e := range x.Elems {
			c.Elems = append(c.Elems, permuteKeys(e, rot))
		}
		return c
	case *hs.ObjV:
		c := hs.NewObj(x.Any)
		n := len(x.Keys)
		for i := 0; i < n; i++ {
			k := x.Keys[((n-1-i)+rot)%n]
			c.Set(k, permuteKeys(x.M[k], rot))
		}
		return c
	case hs.OptV:
		if x.Inner != nil {
			return hs.OptV{Inner: permuteKeys(x.Inner, rot)}
		}
	}
	return v
}

// ---------------------------------------------------------------------------------------------
// describing values and differences

func countNodes(v hs.Value) int {
	n := 1
	switch x := v.(type) {
	case *hs.ListV:
		for _, e := range x.Elems {
			n += countNodes(e)
		}
	case *hs.ObjV:
		for _, e := range x.M {
			n += countNodes(e)
		}
	case hs.OptV:
		if x.Inner != nil {
			n += countNodes(x.Inner)
		}
	}
	return n
}

func kindName(v hs.Value) string {
	if v == nil {
		return "nil"
	}
	return v.Kind().String()
}

// diffClass names the first structural difference between a (left) and b (right); "" if equal.
func diffClass(a, b hs.Value) string {
	if hs.Equal(a, b) {
		return ""
	}
	if a == nil || b == nil || a.Kind() != b.Kind() {
		return "kind:" + kindName(a) + "->" + kindName(b)
	}
	switch x := a.(type) {
	case hs.RangeV:
		y := b.(hs.RangeV)
		if x.Start == y.Start && x.End == y.End {
			return "range-inclusive"
		}
		return "leaf:range"
	case *hs.ListV:
		y := b.(*hs.ListV)
		if len(x.Elems) != len(y.Elems) {
			return "list-len"
		}
		for i := range x.Elems {
			if d := diffClass(x.Elems[i], y.Elems[i]); d != "" {
				return d
			}
		}
	case *hs.ObjV:
		y := b.(*hs.ObjV)
		kn := a.Kind().String()
		onlyL, onlyR := 0, 0
		for k := range x.M {
			if _, ok := y.M[k]; !ok {
				onlyL++
			}
		}
		for k := range y.M {
			if _, ok := x.M[k]; !ok {
				onlyR++
			}
		}
		switch {
		case onlyL > 0 && onlyR > 0:
			return kn + "-keys-both"
		case onlyL > 0:
			return kn + "-extra-key-left"
		case onlyR > 0:
			return kn + "-extra-key-right"
		}
		for _, k := range x.SortedKeys() {
			if d := diffClass(x.M[k], y.M[k]); d != "" {
				if strings.HasPrefix(d, "kind:") && x.Any {
					return kn + "-value-kind"
				}
				return d
			}
		}
	case hs.OptV:
		y := b.(hs.OptV)
		if (x.Inner == nil) != (y.Inner == nil) {
			return "opt-none-some"
		}
		return diffClass(x.Inner, y.Inner)
	}
	return "leaf:" + a.Kind().String()
}

// diffSite returns the innermost sub-values of a and b at which diffClass found the difference.
func diffSite(a, b hs.Value) (hs.Value, hs.Value) {
	if a == nil || b == nil || a.Kind() != b.Kind() {
		return a, b
	}
	switch x := a.(type) {
	case *hs.ListV:
		y := b.(*hs.ListV)
		if len(x.Elems) != len(y.Elems) {
			return a, b
		}
		for i := range x.Elems {
			if !hs.Equal(x.Elems[i], y.Elems[i]) {
				return diffSite(x.Elems[i], y.Elems[i])
			}
		}
	case *hs.ObjV:
		y := b.(*hs.ObjV)
		for _, k := range x.SortedKeys() {
			if _, ok := y.M[k]; !ok {
				return x.M[k], nil // the value under a key the other side lacks
			}
		}
		for _, k := range y.SortedKeys() {
			if _, ok := x.M[k]; !ok {
				return nil, y.M[k]
			}
		}
		for _, k := range x.SortedKeys() {
			if !hs.Equal(x.M[k], y.M[k]) {
				return diffSite(x.M[k], y.M[k])
			}
		}
	case hs.OptV:
		y := b.(hs.OptV)
		if x.Inner != nil && y.Inner != nil {
			return diffSite(x.Inner, y.Inner)
		}
	}
	return a, b
}

// hasKind reports whether a value of the given kind occurs anywhere in v.
func hasKind(v hs.Value, pred func(hs.Value) bool) bool {
	if pred(v) {
		return true
	}
	switch x := v.(type) {
	case *hs.ListV:
		for _, e := range x.Elems {
			if hasKind(e, pred) {
				return true
			}
		}
	case *hs.ObjV:
		for _, e := range x.M {
			if hasKind(e, pred) {
				return true
			}
		}
	case hs.OptV:
		if x.Inner != nil {
			return hasKind(x.Inner, pred)
		}
	}
	return false
}

func show(v hs.Value) string {
	if v == nil {
		return "<nil>"
	}
	return showRec(v)
}

// showRec is hs.Display with strings quoted and the object flavour marked, so that messages are unambiguous.
func showRec(v hs.Value) string {
	switch x := v.(type) {
	case hs.StrV:
		return fmt.Sprintf("%q", string(x))
	case hs.FloatV:
		s := hs.Display(x)
		if !strings.ContainsAny(s, ".e") {
			s += ".0"
		}
		return s
	case *hs.ListV:
		ps := make([]string, len(x.Elems))
		for i, e := range x.Elems {
			ps[i] = showRec(e)
		}
		return "[" + strings.Join(ps, ", ") + "]"
	case *hs.ObjV:
		ps := []string{}
		for _, k := range x.SortedKeys() {
			ps = append(ps, fmt.Sprintf("%q: %s", k, showRec(x.M[k])))
		}
		if x.Any {
			return "{?" + strings.Join(ps, ", ") + "}"
		}
		return "{" + strings.Join(ps, ", ") + "}"
	case hs.OptV:
		if x.Inner == nil {
			return "none"
		}
		return "Some(" + showRec(x.Inner) + ")"
	}
	return hs.Display(v)
}

func sortedStrings(s []string) []string {
	c := append([]string(nil), s...)
	sort.Strings(c)
	return c
}
