package c13

import (
	"fmt"
	"strings"
	"testing"

	"verif/pk"
	"verif/px"
	"verif/sb"
)

// Strings that are BUILT at run time (concatenation, join, replace, repeat ...) obey the same laws as strings
// that were written as one literal: whatever normalisation policy the runtime has, two strings built from
// the same pieces have the same content, a copy equals its original, and a JSON round trip gives the value
// back. The pieces meet at composing boundaries (base letter + combining mark, Hangul jamo, reordering
// marks), where "normalise the operands" and "normalise the result" differ.

type StrBuildCase struct {
	Name string
	Prog px.ProgCase
}

var buildPieces = [][]string{
	{"x", "y"}, {"e", "́"}, {"a", "̊"}, {"ᄀ", "ᅡ"}, {"ô", "̣"}, {"", "é"}, {"é", "́"},
	{"caf", "é"}, {"가", "ᆨ"}, {"q", "̣̇"}, {"A", "̊", "́"}, {"́", "e"},
}

func hsLit(s string) string {
	var b strings.Builder
	b.WriteByte('"')
	for _, r := range s {
		if r < 0x80 {
			b.WriteRune(r)
		} else {
			fmt.Fprintf(&b, "\\u%04X", r)
		}
	}
	b.WriteByte('"')
	return b.String()
}

var strBuilders = []struct {
	name string
	expr func(p []string) string // expression that builds the string from its pieces
}{
	{"plus", func(p []string) string {
		var ps []string
		for _, x := range p {
			ps = append(ps, hsLit(x))
		}
		return strings.Join(ps, " + ")
	}},
	{"plus-assign", func(p []string) string {
		s := "{ let acc = " + hsLit(p[0]) + "; "
		for _, x := range p[1:] {
			s += "acc += " + hsLit(x) + "; "
		}
		return s + "acc }"
	}},
	{"join", func(p []string) string {
		var ps []string
		for _, x := range p {
			ps = append(ps, hsLit(x))
		}
		return "[" + strings.Join(ps, ", ") + "].join(\"\")"
	}},
	{"replace", func(p []string) string {
		// "<p0>#" with "#" replaced by the rest
		return "(" + hsLit(p[0]+"#") + ").replace(\"#\", " + hsLit(strings.Join(p[1:], "")) + ")"
	}},
	{"variables", func(p []string) string {
		s := "{ "
		var names []string
		for i, x := range p {
			s += fmt.Sprintf("let p%d = %s; ", i, hsLit(x))
			names = append(names, fmt.Sprintf("p%d", i))
		}
		return s + strings.Join(names, " + ") + " }"
	}},
}

func strBuildProgram(p []string, b1, b2 func([]string) string) string {
	return fmt.Sprintf(`fn main() {
    let s = %s;
    let t = %s;
    let l = [s];
    let copies = true;
    for c in l { copies = copies && c == s && s == c; }
    let back = l.to_json().parse_json() as [str];
    let o = new { k: s };
    let oback = o.to_json().parse_json() as { k: str };
    println(s == s, s == t, t == s, copies, back == l, l == back, oback == o, oback.k == s, (s + "") == s, s.len() == t.len());
    println(s, s.len(), t, l, o.k);
}
`, b1(p), b2(p))
}

func checkStrBuild(c StrBuildCase) *pk.Failure {
	resp := px.Pool().Exec(c.Prog.Request("vm", "tree"))
	if f := px.SandboxFailure("strbuild", resp); f != nil {
		f.Msg = c.Name + "\n" + px.ProgText(c.Prog) + "\n" + f.Msg
		return f
	}
	if resp.Inconclusive {
		pk.Inconclusive()
		return nil
	}
	if !resp.Accepted {
		return pk.Failf("strbuild", "table-rejected", "analyzer rejected the table program %s\n%s", c.Name, px.ProgText(c.Prog))
	}
	const laws = "true true true true true true true true true true\n"
	var second []string
	for _, b := range []string{"vm", "tree"} {
		r := resp.Run(b)
		pk.Extra("comparisons", 1)
		if r.Outcome.Class != "ok" || len(r.Writes) != 2 {
			return pk.Failf("strbuild", b+" strbuild:outcome", "%s on %s: outcome %+v, writes %q\n%s", c.Name, b, r.Outcome, r.Writes, px.ProgText(c.Prog))
		}
		if r.Writes[0] != laws {
			return pk.Failf("strbuild", b+" strbuild:law", "%s on %s: a law does not hold for a string built at run time\n  (s==s, s==t, t==s, copy==s, json list, json list sym, json object, json field, s+\"\"==s, same length)\n  got: %s%s", c.Name, b, r.Writes[0], px.ProgText(c.Prog))
		}
		second = append(second, r.Writes[1])
	}
	if second[0] != second[1] {
		return pk.Failf("strbuild", "strbuild:render", "%s: the two runtimes render the built string differently\n  vm:   %q\n  tree: %q\n%s", c.Name, second[0], second[1], px.ProgText(c.Prog))
	}
	return nil
}

func init() { pk.Reg("strbuild", checkStrBuild) }

func TestTableStringBuilds(t *testing.T) {
	pk.SkipIfReplay(t)
	col := pk.NewCollector()
	k := 0
	for pi, p := range buildPieces {
		for _, b1 := range strBuilders {
			for _, b2 := range strBuilders {
				k++
				if !pk.Mine(k) {
					continue
				}
				name := fmt.Sprintf("pieces#%d %s vs %s", pi, b1.name, b2.name)
				c := StrBuildCase{Name: name, Prog: px.ProgCase{Modules: map[string]string{"main": strBuildProgram(p, b1.expr, b2.expr)}, Entry: "main", Limits: sb.DefaultLimits()}}
				pk.Eval()
				pk.Extra("programs", 1)
				pk.NonTrivial(name, map[string]any{"pieces": p, "built": b1.name + " / " + b2.name})
				col.Report(c, checkStrBuild(c))
			}
		}
	}
	pk.Exhaustive("table-string-builds")
	col.Done(t)
}
