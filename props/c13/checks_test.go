// Package c13 checks property C13: runtime values obey equality, copy and serialisation laws.
//
// Oracles: the harness model verif/hs (hs.Equal = structural equality, hs.DeepCopy) against both
// value libraries (runtime/value = "vm", interpreter/value = "tree"), driven in-process through
// hostkit's conversions; a small in-program slice runs in the sandbox on both backends.
package c13

import (
	"context"
	"encoding/json"
	"fmt"
	"math"
	"os"
	"reflect"
	"regexp"
	"sort"
	"strings"

	herrors "github.com/smarthome-go/homescript/v3/homescript/errors"
	tv "github.com/smarthome-go/homescript/v3/homescript/interpreter/value"
	vv "github.com/smarthome-go/homescript/v3/homescript/runtime/value"

	"verif/hostkit"
	"verif/hs"
	"verif/pk"
	"verif/px"
	"verif/sb"
)

// ---------------------------------------------------------------------------------------------
// cases (JSON-serialisable replay units)

type EqCase struct {
	T       hs.Type
	A, B, C hs.WV  // C may be absent
	Note    string `json:",omitempty"`
}

type Step struct {
	K string // "i" list index, "k" object / any-object key, "o" option payload
	I int    `json:",omitempty"`
	S string `json:",omitempty"`
}

type Action struct {
	OnClone bool
	Path    []Step
	Op      string // push pop push_front pop_front insert remove concat sort any_set assign
	I       int    `json:",omitempty"`
	Key     string `json:",omitempty"`
	Val     hs.WV
}

type CloneCase struct {
	T       hs.Type
	V       hs.WV
	Actions []Action
	// Pre: actions applied to the original BEFORE it is cloned (a value has a past: lists that were longer once,
	// objects whose fields were replaced); the value that is cloned is the one the actions lead to
	Pre []Action `json:",omitempty"`
}

type JSONCase struct {
	T hs.Type
	V hs.WV
	// Route, when set, restricts the check to one round-trip route ("vm-typeaware",
	// "vm-typeaware-direct", "vm-builtin", "tree-builtin") or to the comparison of the two
	// to_json texts ("text"): replay files use it to pin one root cause.
	Route string `json:",omitempty"`
}

// jsonRouteOf extracts the route from a failure signature of the json sub-check.
func jsonRouteOf(f *pk.Failure) string {
	if f == nil {
		return ""
	}
	if strings.HasPrefix(f.Sig, "json-text-differs") {
		return "text"
	}
	for _, r := range jsonRoutes {
		if strings.Contains(f.Sig, ":"+r.name+":") {
			return r.name
		}
	}
	return ""
}

type JSONProgCase struct {
	T    hs.Type
	V    hs.WV
	Prog px.ProgCase
}

type EqProgCase struct {
	T    hs.Type
	A, B hs.WV
	Prog px.ProgCase
}

type DisplayCase struct {
	T hs.Type
	V hs.WV
}

func init() {
	pk.Reg("eq", checkEq)
	pk.Reg("clone", checkClone)
	pk.Reg("json", checkJSON)
	pk.Reg("json-prog", checkJSONProg)
	pk.Reg("display", checkDisplay)
	pk.Reg("eq-prog", checkEqProg)
}

// ---------------------------------------------------------------------------------------------
// the two libraries behind one face

type handle = any

type lib struct {
	name    string
	conv    func(hs.Value) handle
	isEqual func(x, y handle) (bool, string)
	display func(x handle) (string, string)
	back    func(x handle) (hs.Value, bool)
}

var span = herrors.Span{Filename: "c13"}

var vmLib = lib{
	name: "vm",
	conv: func(v hs.Value) handle { return hostkit.ToVM(v) },
	isEqual: func(x, y handle) (bool, string) {
		r, i := (*x.(*vv.Value)).IsEqual(*y.(*vv.Value))
		if i != nil {
			return r, "interrupt: " + (*i).Message()
		}
		return r, ""
	},
	display: func(x handle) (string, string) {
		s, i := (*x.(*vv.Value)).Display()
		if i != nil {
			return s, "interrupt: " + (*i).Message()
		}
		return s, ""
	},
	back: func(x handle) (hs.Value, bool) { return hostkit.FromVM(*x.(*vv.Value)) },
}

var treeLib = lib{
	name: "tree",
	conv: func(v hs.Value) handle { return hostkit.ToTree(v) },
	isEqual: func(x, y handle) (bool, string) {
		r, i := (*x.(*tv.Value)).IsEqual(*y.(*tv.Value))
		if i != nil {
			return r, "interrupt: " + (*i).Message()
		}
		return r, ""
	},
	display: func(x handle) (string, string) {
		s, i := (*x.(*tv.Value)).Display()
		if i != nil {
			return s, "interrupt: " + (*i).Message()
		}
		return s, ""
	},
	back: func(x handle) (hs.Value, bool) { return hostkit.FromTree(*x.(*tv.Value)) },
}

var libs = []lib{vmLib, treeLib}

// typeStr shows a type in source-like form plus its exact structure (Go %#v would print pointers).
func typeStr(t hs.Type) string {
	b, _ := json.Marshal(t)
	return t.Canon() + " " + string(b)
}

func guard(f func()) (p string) {
	defer func() {
		if r := recover(); r != nil {
			p = fmt.Sprint(r)
		}
	}()
	f()
	return ""
}

// ---------------------------------------------------------------------------------------------
// sub-check "eq"

func pairClass(a, b hs.Value) string {
	if kindClash(a, b) {
		return "anyobj-value-kind"
	}
	if d := diffClass(a, b); d != "" {
		return d
	}
	return "equal:" + kindName(a)
}

// kindClash: somewhere two any-objects hold values of different kinds under the same key.
func kindClash(a, b hs.Value) bool {
	switch x := a.(type) {
	case *hs.ListV:
		y, ok := b.(*hs.ListV)
		if !ok {
			return false
		}
		for i := 0; i < len(x.Elems) && i < len(y.Elems); i++ {
			if kindClash(x.Elems[i], y.Elems[i]) {
				return true
			}
		}
	case *hs.ObjV:
		y, ok := b.(*hs.ObjV)
		if !ok {
			return false
		}
		for k, xv := range x.M {
			if yv, has := y.M[k]; has {
				if xv.Kind() != yv.Kind() || kindClash(xv, yv) {
					return true
				}
			}
		}
	case hs.OptV:
		y, ok := b.(hs.OptV)
		return ok && x.Inner != nil && y.Inner != nil && kindClash(x.Inner, y.Inner)
	}
	return false
}

func checkEq(c EqCase) *pk.Failure {
	vals := []hs.Value{c.A.V, c.B.V}
	names := []string{"a", "b", "c"}
	if c.C.V != nil {
		vals = append(vals, c.C.V)
	}
	for i, v := range vals {
		if v == nil || !hs.Conforms(v, c.T) {
			return pk.Failf("eq", "bad-case", "value %s = %s does not conform to %s", names[i], show(v), typeStr(c.T))
		}
	}
	ctx := func() string {
		s := fmt.Sprintf("type %s", typeStr(c.T))
		for i, v := range vals {
			s += fmt.Sprintf("\n  %s = %s", names[i], show(v))
		}
		return s
	}
	var fails []*pk.Failure
	for _, L := range libs {
		fails = append(fails, checkEqLib(L, vals, names, ctx))
	}
	return pick(fails)
}

// pick returns the first failure that is not attributed to a known finding (so that a known
// defect on one route does not hide a new one on another), else the first failure.
func pick(fails []*pk.Failure) *pk.Failure {
	var first *pk.Failure
	for _, f := range fails {
		if f == nil {
			continue
		}
		if pk.MatchKnown(pk.Prop(), f) == "" {
			return f
		}
		if first == nil {
			first = f
		}
	}
	return first
}

func checkEqLib(L lib, vals []hs.Value, names []string, ctx func() string) *pk.Failure {
	{
		n := len(vals)
		reps := 1
		for _, v := range vals {
			if multiKey(v) {
				reps = 8
			}
		}
		h := make([]handle, n)
		if p := guard(func() {
			for i, v := range vals {
				h[i] = L.conv(v)
			}
		}); p != "" {
			return pk.Failf("eq", "panic:convert", "[%s] building the values panicked: %s\n%s", L.name, p, ctx())
		}
		eq := func(x, y handle, cls, what string) (bool, *pk.Failure) {
			var r bool
			var im string
			// IsEqual walks Go maps: with several keys its path (and so a panic or a wrong
			// answer) depends on the iteration order; repeat to make the verdict stable.
			for k := 0; k < reps; k++ {
				var rk bool
				if p := guard(func() { rk, im = L.isEqual(x, y) }); p != "" {
					return false, pk.Failf("eq", "panic:eq:"+cls, "[%s] IsEqual(%s) panicked: %s\n%s", L.name, what, p, ctx())
				}
				if im != "" {
					return false, pk.Failf("eq", "eq-interrupt:"+cls, "[%s] IsEqual(%s) on same-typed values returned %s\n%s", L.name, what, im, ctx())
				}
				if k > 0 && rk != r {
					return false, pk.Failf("eq", "eq-unstable:"+cls, "[%s] IsEqual(%s) gives different answers on repetition\n%s", L.name, what, ctx())
				}
				r = rk
			}
			return r, nil
		}
		// reflexive: the very same value, and a separately built copy of the same content
		for i := 0; i < n; i++ {
			cls := "equal:" + kindName(vals[i])
			r, f := eq(h[i], h[i], cls, names[i]+","+names[i])
			if f != nil {
				return f
			}
			if !r {
				return pk.Failf("eq", "eq-refl:"+kindName(vals[i]), "[%s] not reflexive: IsEqual(%s,%s) = false\n%s", L.name, names[i], names[i], ctx())
			}
			var fresh handle
			if p := guard(func() { fresh = L.conv(hs.DeepCopy(vals[i])) }); p != "" {
				return pk.Failf("eq", "panic:convert", "[%s] %s\n%s", L.name, p, ctx())
			}
			for _, dir := range []bool{false, true} {
				x, y := h[i], fresh
				if dir {
					x, y = y, x
				}
				r, f := eq(x, y, cls, names[i]+",copy of "+names[i])
				if f != nil {
					return f
				}
				if !r {
					return pk.Failf("eq", "eq-copy:"+kindName(vals[i]), "[%s] a value is not equal to a structurally identical copy (%s, swapped=%v)\n%s", L.name, names[i], dir, ctx())
				}
			}
		}
		// all ordered pairs against the model
		res := make([][]bool, n)
		for i := range res {
			res[i] = make([]bool, n)
			res[i][i] = true
		}
		for i := 0; i < n; i++ {
			for j := 0; j < n; j++ {
				if i == j {
					continue
				}
				r, f := eq(h[i], h[j], pairClass(vals[i], vals[j]), names[i]+","+names[j])
				if f != nil {
					return f
				}
				res[i][j] = r
			}
		}
		for i := 0; i < n; i++ {
			for j := 0; j < n; j++ {
				if i == j {
					continue
				}
				want := hs.Equal(vals[i], vals[j])
				if res[i][j] != want {
					asym := ""
					if res[i][j] != res[j][i] {
						asym = fmt.Sprintf(" (also not symmetric: IsEqual(%s,%s) = %v)", names[j], names[i], res[j][i])
					}
					sig := "eq-model:" + diffClass(vals[i], vals[j])
					if want {
						sig = "eq-model:false-negative:" + kindName(vals[i])
					}
					return pk.Failf("eq", sig, "[%s] IsEqual(%s,%s) = %v but the structural contents are %s%s\n%s",
						L.name, names[i], names[j], res[i][j], map[bool]string{true: "the same", false: "different"}[want], asym, ctx())
				}
			}
		}
		for i := 0; i < n; i++ {
			for j := i + 1; j < n; j++ {
				if res[i][j] != res[j][i] {
					return pk.Failf("eq", "eq-asym:"+pairClass(vals[i], vals[j]), "[%s] not symmetric: IsEqual(%s,%s) = %v, IsEqual(%s,%s) = %v\n%s",
						L.name, names[i], names[j], res[i][j], names[j], names[i], res[j][i], ctx())
				}
			}
		}
		for i := 0; i < n; i++ {
			for j := 0; j < n; j++ {
				for k := 0; k < n; k++ {
					if res[i][j] && res[j][k] && !res[i][k] {
						return pk.Failf("eq", "eq-trans:"+pairClass(vals[i], vals[k]), "[%s] not transitive: %s==%s, %s==%s but not %s==%s\n%s",
							L.name, names[i], names[j], names[j], names[k], names[i], names[k], ctx())
					}
				}
			}
		}
	}
	return nil
}

// ---------------------------------------------------------------------------------------------
// sub-check "clone" (runtime/value only: interpreter values have no Clone)

func callVM(node *vv.Value, name string, args ...vv.Value) (ret *vv.Value, intr string, err string) {
	fields, i := (*node).Fields()
	if i != nil {
		return nil, "", "Fields(): " + (*i).Message()
	}
	f, ok := fields[name]
	if !ok || f == nil {
		return nil, "", "no member " + name
	}
	bf, ok := (*f).(vv.ValueBuiltinFunction)
	if !ok {
		return nil, "", "member " + name + " is not a builtin function"
	}
	var ctx *context.Context
	r, in := bf.Callback(nil, ctx, span, args...)
	if in != nil {
		return r, (*in).Message(), ""
	}
	return r, "", ""
}

// navVM follows a path through element pointers the way programs reach nested values:
// IndexValue for list elements and object fields, `get` for any-object keys, Inner for options.
func navVM(root *vv.Value, path []Step) (*vv.Value, string) {
	cur := root
	for _, s := range path {
		if cur == nil || *cur == nil {
			return nil, "nil on path"
		}
		switch s.K {
		case "i":
			if (*cur).Kind() != vv.ListValueKind {
				return nil, "not a list"
			}
			p, i := vv.IndexValue(cur, vv.NewValueInt(int64(s.I)), func() herrors.Span { return span })
			if i != nil {
				return nil, (*i).Message()
			}
			cur = p
		case "k":
			switch (*cur).Kind() {
			case vv.ObjectValueKind:
				p, i := vv.IndexValue(cur, vv.NewValueString(s.S), func() herrors.Span { return span })
				if i != nil {
					return nil, (*i).Message()
				}
				cur = p
			case vv.AnyObjectValueKind:
				r, in, err := callVM(cur, "get", *vv.NewValueString(s.S))
				if in != "" || err != "" || r == nil {
					return nil, "get: " + in + err
				}
				opt, ok := (*r).(vv.ValueOption)
				if !ok || opt.Inner == nil {
					return nil, "get: no such key"
				}
				cur = opt.Inner
			default:
				return nil, "not an object"
			}
		case "o":
			opt, ok := (*cur).(vv.ValueOption)
			if !ok || opt.Inner == nil {
				return nil, "not a Some option"
			}
			cur = opt.Inner
		}
	}
	return cur, ""
}

// modelRef gives get/set access to the node at path in a model value.
func modelRef(root *hs.Value, path []Step) (get func() hs.Value, set func(hs.Value), ok bool) {
	get = func() hs.Value { return *root }
	set = func(n hs.Value) { *root = n }
	for _, s := range path {
		v := get()
		s := s
		switch s.K {
		case "i":
			l, isL := v.(*hs.ListV)
			if !isL || s.I < 0 || s.I >= len(l.Elems) {
				return nil, nil, false
			}
			get = func() hs.Value { return l.Elems[s.I] }
			set = func(n hs.Value) { l.Elems[s.I] = n }
		case "k":
			o, isO := v.(*hs.ObjV)
			if !isO {
				return nil, nil, false
			}
			if _, has := o.M[s.S]; !has {
				return nil, nil, false
			}
			get = func() hs.Value { return o.M[s.S] }
			set = func(n hs.Value) { o.M[s.S] = n }
		case "o":
			opt, isO := v.(hs.OptV)
			if !isO || opt.Inner == nil {
				return nil, nil, false
			}
			pset := set
			pget := get
			get = func() hs.Value { return pget().(hs.OptV).Inner }
			set = func(n hs.Value) { pset(hs.OptV{Inner: n}) }
		default:
			return nil, nil, false
		}
	}
	return get, set, true
}

func sortable(l *hs.ListV) bool {
	if len(l.Elems) == 0 {
		return true
	}
	k := l.Elems[0].Kind()
	if k != hs.KInt && k != hs.KFloat && k != hs.KStr {
		return false
	}
	for _, e := range l.Elems {
		if e.Kind() != k {
			return false
		}
	}
	return true
}

func modelSort(l *hs.ListV) {
	sort.SliceStable(l.Elems, func(i, j int) bool {
		switch a := l.Elems[i].(type) {
		case hs.IntV:
			return a < l.Elems[j].(hs.IntV)
		case hs.FloatV:
			return a < l.Elems[j].(hs.FloatV)
		case hs.StrV:
			return strings.Compare(string(a), string(l.Elems[j].(hs.StrV))) < 0
		}
		return false
	})
}

// applyModel applies an action to a model root. applicable=false: the action does not fit the
// current value (possible after shrinking) and must be skipped on both sides. wantErr: the
// builtin must refuse (index out of bounds) and leave the value unchanged. ret: expected result.
func applyModel(root *hs.Value, a Action) (applicable, wantErr bool, ret hs.Value) {
	get, set, ok := modelRef(root, a.Path)
	if !ok {
		return false, false, nil
	}
	node := get()
	arg := hs.DeepCopy(a.Val.V)
	switch a.Op {
	case "assign":
		if len(a.Path) == 0 || arg == nil {
			return false, false, nil
		}
		set(arg)
		return true, false, nil
	case "any_set":
		o, isO := node.(*hs.ObjV)
		if !isO || !o.Any || arg == nil {
			return false, false, nil
		}
		o.Set(a.Key, arg)
		return true, false, hs.NullV{}
	}
	l, isL := node.(*hs.ListV)
	if !isL {
		return false, false, nil
	}
	n := len(l.Elems)
	switch a.Op {
	case "push":
		if arg == nil {
			return false, false, nil
		}
		l.Elems = append(l.Elems, arg)
		return true, false, hs.NullV{}
	case "push_front":
		if arg == nil {
			return false, false, nil
		}
		l.Elems = append([]hs.Value{arg}, l.Elems...)
		return true, false, hs.NullV{}
	case "pop":
		if n == 0 {
			return true, false, hs.OptV{}
		}
		last := l.Elems[n-1]
		l.Elems = l.Elems[:n-1]
		return true, false, hs.OptV{Inner: last}
	case "pop_front":
		if n == 0 {
			return true, false, hs.OptV{}
		}
		first := l.Elems[0]
		l.Elems = append([]hs.Value(nil), l.Elems[1:]...)
		return true, false, hs.OptV{Inner: first}
	case "insert":
		if arg == nil {
			return false, false, nil
		}
		i := a.I
		if i < 0 {
			i += n
		}
		if i < 0 || i > n {
			return true, true, nil
		}
		ne := make([]hs.Value, 0, n+1)
		ne = append(ne, l.Elems[:i]...)
		ne = append(ne, arg)
		ne = append(ne, l.Elems[i:]...)
		l.Elems = ne
		return true, false, hs.NullV{}
	case "remove":
		i := a.I
		if i < 0 {
			i += n
		}
		if i < 0 || i >= n {
			return true, true, nil
		}
		ne := make([]hs.Value, 0, n)
		ne = append(ne, l.Elems[:i]...)
		ne = append(ne, l.Elems[i+1:]...)
		l.Elems = ne
		return true, false, hs.NullV{}
	case "concat":
		o, isO := arg.(*hs.ListV)
		if !isO {
			return false, false, nil
		}
		l.Elems = append(l.Elems, o.Elems...)
		return true, false, hs.NullV{}
	case "sort":
		if !sortable(l) {
			return false, false, nil
		}
		modelSort(l)
		return true, false, hs.NullV{}
	}
	return false, false, nil
}

func applyVM(root *vv.Value, a Action) (ret *vv.Value, intr string, err string) {
	node, why := navVM(root, a.Path)
	if why != "" {
		return nil, "", "navigate: " + why
	}
	switch a.Op {
	case "assign":
		*node = *hostkit.ToVM(a.Val.V)
		return nil, "", ""
	case "any_set":
		return callVM(node, "set", *vv.NewValueString(a.Key), *hostkit.ToVM(a.Val.V))
	case "push", "push_front", "concat":
		return callVM(node, a.Op, *hostkit.ToVM(a.Val.V))
	case "pop", "pop_front", "sort":
		return callVM(node, a.Op)
	case "insert":
		return callVM(node, "insert", *vv.NewValueInt(int64(a.I)), *hostkit.ToVM(a.Val.V))
	case "remove":
		return callVM(node, "remove", *vv.NewValueInt(int64(a.I)))
	}
	return nil, "", "unknown op " + a.Op
}

// reach collects the addresses of everything mutable that is reachable from a value:
// pointers, map headers and slice backing arrays.
func reach(v reflect.Value, where string, out map[uintptr]string) {
	switch v.Kind() {
	case reflect.Ptr:
		if v.IsNil() {
			return
		}
		p := v.Pointer()
		if _, seen := out[p]; seen {
			return
		}
		out[p] = where
		reach(v.Elem(), where, out)
	case reflect.Interface:
		if !v.IsNil() {
			reach(v.Elem(), where, out)
		}
	case reflect.Struct:
		for i := 0; i < v.NumField(); i++ {
			reach(v.Field(i), where+"."+v.Type().Field(i).Name, out)
		}
	case reflect.Slice:
		if v.IsNil() {
			return
		}
		if v.Cap() > 0 {
			out[v.Pointer()] = where + "[]"
		}
		for i := 0; i < v.Len(); i++ {
			reach(v.Index(i), where+"[]", out)
		}
	case reflect.Map:
		if v.IsNil() {
			return
		}
		out[v.Pointer()] = where + "{}"
		it := v.MapRange()
		for it.Next() {
			reach(it.Value(), where+"{}", out)
		}
	}
}

func shortWhere(w string) string {
	// ".FieldsInternal{}.Values[]" -> keep the last two components
	parts := strings.FieldsFunc(w, func(r rune) bool { return r == '.' })
	if len(parts) > 2 {
		parts = parts[len(parts)-2:]
	}
	return strings.Join(parts, ".")
}

func opClass(a Action) string {
	if a.Op != "assign" || len(a.Path) == 0 {
		return a.Op
	}
	switch a.Path[len(a.Path)-1].K {
	case "i":
		return "set-index"
	case "k":
		return "set-field"
	}
	return "set-opt-inner"
}

func checkClone(c CloneCase) *pk.Failure {
	if c.V.V == nil || !hs.Conforms(c.V.V, c.T) {
		return pk.Failf("clone", "bad-case", "value %s does not conform to %s", show(c.V.V), typeStr(c.T))
	}
	ctx := fmt.Sprintf("type %s\n  v = %s", typeStr(c.T), show(c.V.V))
	var orig, clone *vv.Value
	if len(c.Pre) > 0 {
		// the value's past: applied to the model and to the VM value alike; the case continues from their result
		var m hs.Value = hs.DeepCopy(c.V.V)
		var o *vv.Value
		preHist := ""
		if p := guard(func() { o = hostkit.ToVM(c.V.V) }); p != "" {
			return pk.Failf("clone", "panic:clone:"+kindName(c.V.V), "ToVM panicked: %s\n%s", p, ctx)
		}
		for k, a := range c.Pre {
			a.OnClone = false
			applicable, wantErr, _ := applyModel(&m, a)
			if !applicable {
				continue
			}
			preHist += fmt.Sprintf("\n  before the clone, step %d: %s at %v index=%d arg=%s", k, a.Op, a.Path, a.I, show(a.Val.V))
			var intr, err string
			if p := guard(func() { _, intr, err = applyVM(o, a) }); p != "" {
				return pk.Failf("clone", "panic:clone-op:"+opClass(a), "%s panicked: %s\n%s%s", a.Op, p, ctx, preHist)
			}
			if err != "" || (intr != "") != wantErr {
				return pk.Failf("clone", "clone-op-model:"+opClass(a)+":pre", "%s before the clone: error expected=%v, got %q %q\n%s%s", a.Op, wantErr, intr, err, ctx, preHist)
			}
		}
		c.V = hs.WV{V: m}
		ctx += preHist + "\n  cloned value = " + show(m)
		orig = o
	}
	if p := guard(func() {
		if orig == nil {
			orig = hostkit.ToVM(c.V.V)
		}
		clone = (*orig).Clone()
	}); p != "" {
		return pk.Failf("clone", "panic:clone:"+kindName(c.V.V), "Clone() panicked: %s\n%s", p, ctx)
	}
	if clone == nil || *clone == nil {
		return pk.Failf("clone", "clone-nil:"+kindName(c.V.V), "Clone() returned nil\n%s", ctx)
	}
	// a clone is equal to its original: by content and by the library's own ==
	got, ok := hostkit.FromVM(*clone)
	if !ok || !hs.Equal(got, c.V.V) || got.Kind() != c.V.V.Kind() {
		return pk.Failf("clone", "clone-content:"+pairClass(c.V.V, got), "the clone's content differs from the original: clone = %s\n%s", show(got), ctx)
	}
	for _, dir := range []bool{false, true} {
		x, y := handle(orig), handle(clone)
		if dir {
			x, y = y, x
		}
		var r bool
		var im string
		if p := guard(func() { r, im = vmLib.isEqual(x, y) }); p != "" {
			return pk.Failf("clone", "panic:clone-eq:"+kindName(c.V.V), "IsEqual(original, clone) panicked: %s\n%s", p, ctx)
		}
		if !r || im != "" {
			return pk.Failf("clone", "clone-not-equal:"+kindName(c.V.V), "IsEqual(original, clone) (swapped=%v) = %v %s\n%s", dir, r, im, ctx)
		}
	}
	// no mutable state in common: nothing reachable from the clone is reachable from the original
	ro, rc := map[uintptr]string{}, map[uintptr]string{}
	reach(reflect.ValueOf(orig), "", ro)
	reach(reflect.ValueOf(clone), "", rc)
	for p, w := range rc {
		if os.Getenv("C13_NOPTR") == "1" { // development knob: judge by mutation histories alone
			break
		}
		if wo, shared := ro[p]; shared {
			return pk.Failf("clone", "clone-shares:ptr:"+shortWhere(w), "the clone and the original both reach the same address %#x (clone at %q, original at %q)\n%s", p, w, wo, ctx)
		}
	}
	// mutation history
	var mo, mc hs.Value = hs.DeepCopy(c.V.V), hs.DeepCopy(c.V.V)
	hist := ""
	for k, a := range c.Actions {
		mroot, root, other, otherModel, side := &mo, orig, clone, &mc, "original"
		if a.OnClone {
			mroot, root, other, otherModel, side = &mc, clone, orig, &mo, "clone"
		}
		applicable, wantErr, wantRet := applyModel(mroot, a)
		if !applicable {
			continue
		}
		hist += fmt.Sprintf("\n  step %d: %s on %s at %v index=%d key=%q arg=%s", k, a.Op, side, a.Path, a.I, a.Key, show(a.Val.V))
		var ret *vv.Value
		var intr, err string
		if p := guard(func() { ret, intr, err = applyVM(root, a) }); p != "" {
			return pk.Failf("clone", "panic:clone-op:"+opClass(a), "%s panicked: %s\n%s%s", a.Op, p, ctx, hist)
		}
		if err != "" {
			return pk.Failf("clone", "clone-op-model:"+opClass(a)+":harness", "could not apply the action: %s\n%s%s", err, ctx, hist)
		}
		if (intr != "") != wantErr {
			return pk.Failf("clone", "clone-op-model:"+opClass(a)+":error", "%s: error expected=%v, got %q\n%s%s", a.Op, wantErr, intr, ctx, hist)
		}
		if wantRet != nil && !wantErr {
			var gr hs.Value
			rok := false
			if ret != nil && *ret != nil {
				gr, rok = hostkit.FromVM(*ret)
			}
			if !rok || !hs.Equal(gr, wantRet) {
				return pk.Failf("clone", "clone-op-model:"+opClass(a)+":result", "%s returned %s, expected %s\n%s%s", a.Op, show(gr), show(wantRet), ctx, hist)
			}
		}
		// the untouched side first: this is the copy law
		if og, ok := hostkit.FromVM(*other); !ok || !hs.Equal(og, *otherModel) {
			return pk.Failf("clone", "clone-shares:"+opClass(a)+":"+pairClass(*otherModel, og),
				"%s on the %s changed the other side: it is now %s, expected unchanged %s\n%s%s", a.Op, side, show(og), show(*otherModel), ctx, hist)
		}
		if sg, ok := hostkit.FromVM(*root); !ok || !hs.Equal(sg, *mroot) {
			return pk.Failf("clone", "clone-op-model:"+opClass(a)+":"+pairClass(*mroot, sg),
				"after %s the %s is %s, the model says %s\n%s%s", a.Op, side, show(sg), show(*mroot), ctx, hist)
		}
	}
	return nil
}

// ---------------------------------------------------------------------------------------------
// sub-check "json"

// jsonScope: which types are JSON-representable in the sense of the property. Ranges cannot be
// encoded at all (json.go refuses them); an option whose payload itself encodes as `null`
// (?null, ??T) is ambiguous in JSON by construction.
func jsonScope(t hs.Type) (bool, string) {
	switch t.K {
	case hs.KRange:
		return false, "range"
	case hs.KList:
		return jsonScope(*t.Elem)
	case hs.KOpt:
		if t.Elem.K == hs.KNull || t.Elem.K == hs.KOpt {
			return false, "ambiguous-option"
		}
		return jsonScope(*t.Elem)
	case hs.KObj:
		for _, f := range t.Fields {
			if ok, why := jsonScope(f.T); !ok {
				return false, why
			}
		}
	}
	return true, ""
}

// canonJSON: inside an any-object the values have no static type to parse under, so there (and
// only there) 3.0 ~ 3, null ~ none and object ~ any-object are identified before comparing; when
// only this identification makes a round trip succeed the case is counted as doubt.
func canonJSON(v hs.Value, inAny bool) hs.Value {
	switch x := v.(type) {
	case hs.FloatV:
		f := float64(x)
		// (the int64 range: untyped JSON numbers without a fraction in that range are ints; 2^63 itself is not)
		if inAny && f == math.Trunc(f) && f >= -9223372036854775808 && f < 9223372036854775808 {
			return hs.IntV(int64(f))
		}
	case hs.NullV:
		if inAny {
			return hs.OptV{}
		}
	case *hs.ListV:
		c := &hs.ListV{}
		for _, e := range x.Elems {
			c.Elems = append(c.Elems, canonJSON(e, inAny))
		}
		return c
	case *hs.ObjV:
		c := hs.NewObj(x.Any || inAny)
		for _, k := range x.SortedKeys() {
			c.Set(k, canonJSON(x.M[k], inAny || x.Any))
		}
		return c
	case hs.OptV:
		if x.Inner != nil {
			return hs.OptV{Inner: canonJSON(x.Inner, inAny)}
		}
	}
	return v
}

func jsonEq(want, got hs.Value) bool {
	return want != nil && got != nil && hs.Equal(canonJSON(want, false), canonJSON(got, false))
}

func strictEq(want, got hs.Value) bool {
	return want != nil && got != nil && want.Kind() == got.Kind() && hs.Equal(want, got) && sameFlavour(want, got)
}

// sameFlavour: hs.Equal does not look at kinds of nested objects beyond Kind(); make sure that an
// any-object did not come back as an object somewhere inside.
func sameFlavour(a, b hs.Value) bool {
	switch x := a.(type) {
	case *hs.ListV:
		y, ok := b.(*hs.ListV)
		if !ok || len(x.Elems) != len(y.Elems) {
			return false
		}
		for i := range x.Elems {
			if !sameFlavour(x.Elems[i], y.Elems[i]) {
				return false
			}
		}
	case *hs.ObjV:
		y, ok := b.(*hs.ObjV)
		if !ok || x.Any != y.Any {
			return false
		}
		for k, xv := range x.M {
			if yv, ok := y.M[k]; !ok || !sameFlavour(xv, yv) {
				return false
			}
		}
	case hs.OptV:
		y, ok := b.(hs.OptV)
		if !ok || (x.Inner == nil) != (y.Inner == nil) {
			return false
		}
		if x.Inner != nil {
			return sameFlavour(x.Inner, y.Inner)
		}
	default:
		return b != nil && a.Kind() == b.Kind()
	}
	return true
}

var (
	quotedRe  = regexp.MustCompile("['`][^'`]*['`]")
	kindWords = map[string]bool{"int": true, "float": true, "bool": true, "string": true, "str": true, "null": true, "list": true, "object": true,
		"any-object": true, "option": true, "range": true}
	digitsRe = regexp.MustCompile(`[0-9]+`)
)

// msgClass blanks identifiers and numbers in an error message but keeps kind names.
func msgClass(m string) string {
	if i := strings.IndexByte(m, '\n'); i >= 0 {
		m = m[:i]
	}
	m = quotedRe.ReplaceAllStringFunc(m, func(q string) string {
		if kindWords[q[1:len(q)-1]] {
			return q
		}
		return "'_'"
	})
	m = digitsRe.ReplaceAllString(m, "N")
	if len(m) > 120 {
		m = m[:120]
	}
	return m
}

// jsonFeature names the most telling JSON-relevant feature of a value (refines signatures).
func jsonFeature(v hs.Value) string { return jsonFeats(v, false) }

// jsonFeatures lists every feature present (used where the failing site is not known).
func jsonFeatures(v hs.Value) string { return jsonFeats(v, true) }

func jsonFeats(v hs.Value, all bool) string {
	if v == nil {
		return "absent"
	}
	var found []string
	feats := []struct {
		name string
		pred func(hs.Value) bool
	}{
		{"none-in-list", func(x hs.Value) bool {
			l, ok := x.(*hs.ListV)
			if !ok {
				return false
			}
			for _, e := range l.Elems {
				if o, isO := e.(hs.OptV); isO && o.Inner == nil {
					return true
				}
			}
			return false
		}},
		{"none-in-object", func(x hs.Value) bool {
			o, ok := x.(*hs.ObjV)
			if !ok {
				return false
			}
			for _, e := range o.M {
				if op, isO := e.(hs.OptV); isO && op.Inner == nil {
					return true
				}
			}
			return false
		}},
		{"null", func(x hs.Value) bool { return isNullish(x) }},
		{"anyobj-nested", func(x hs.Value) bool {
			o, ok := x.(*hs.ObjV)
			if !ok || !o.Any {
				return false
			}
			for _, e := range o.M {
				if _, isO := e.(*hs.ObjV); isO {
					return true
				}
			}
			return false
		}},
		{"big-int", func(x hs.Value) bool {
			i, ok := x.(hs.IntV)
			return ok && int64(float64(i)) != int64(i) || ok && (i > 1<<53 || i < -(1<<53))
		}},
		{"integral-float", func(x hs.Value) bool {
			f, ok := x.(hs.FloatV)
			return ok && float64(f) == float64(int64(f)) && f < 1e18 && f > -1e18
		}},
		{"huge-float", func(x hs.Value) bool {
			f, ok := x.(hs.FloatV)
			return ok && (f >= 1e18 || f <= -1e18)
		}},
		{"some", func(x hs.Value) bool { o, ok := x.(hs.OptV); return ok && o.Inner != nil }},
		{"anyobj", func(x hs.Value) bool { o, ok := x.(*hs.ObjV); return ok && o.Any }},
	}
	for _, f := range feats {
		if hasKind(v, f.pred) {
			if !all {
				return f.name
			}
			found = append(found, f.name)
		}
	}
	if len(found) == 0 {
		return "plain"
	}
	sort.Strings(found)
	return strings.Join(found, "+")
}

type jsonRoute struct {
	name string
	run  func(v hs.Value, t hs.Type) (got hs.Value, text string, errMsg string)
}

func vmBuiltinText(v hs.Value) (string, string) {
	h := hostkit.ToVM(v)
	r, in, err := callVM(h, "to_json")
	if in != "" || err != "" {
		return "", "to_json: " + in + err
	}
	s, ok := (*r).(vv.ValueString)
	if !ok {
		return "", "to_json did not return a string"
	}
	return s.Inner, ""
}

func callTree(node *tv.Value, name string, args ...tv.Value) (ret *tv.Value, intr string, err string) {
	fields, i := (*node).Fields()
	if i != nil {
		return nil, "", "Fields(): " + (*i).Message()
	}
	f, ok := fields[name]
	if !ok || f == nil {
		return nil, "", "no member " + name
	}
	bf, ok := (*f).(tv.ValueBuiltinFunction)
	if !ok {
		return nil, "", "member " + name + " is not a builtin function"
	}
	var ctx *context.Context
	r, in := bf.Callback(nil, ctx, span, args...)
	if in != nil {
		return r, (*in).Message(), ""
	}
	return r, "", ""
}

func treeBuiltinText(v hs.Value) (string, string) {
	h := hostkit.ToTree(v)
	r, in, err := callTree(h, "to_json")
	if in != "" || err != "" {
		return "", "to_json: " + in + err
	}
	s, ok := (*r).(tv.ValueString)
	if !ok {
		return "", "to_json did not return a string"
	}
	return s.Inner, ""
}

var jsonRoutes = []jsonRoute{
	// host API: MarshalValue -> JSON text -> TypeAwareUnmarshalValue
	{"vm-typeaware", func(v hs.Value, t hs.Type) (hs.Value, string, string) {
		out, _ := vv.MarshalValue(*hostkit.ToVM(v), false)
		b, err := json.Marshal(out)
		if err != nil {
			return nil, "", "json.Marshal: " + err.Error()
		}
		var raw interface{}
		if err := json.Unmarshal(b, &raw); err != nil {
			return nil, string(b), "json.Unmarshal: " + err.Error()
		}
		w := vv.TypeAwareUnmarshalValue(raw, hostkit.ToAstType(t))
		if w == nil || *w == nil {
			return nil, string(b), "TypeAwareUnmarshalValue returned nil"
		}
		g, ok := hostkit.FromVM(*w)
		if !ok {
			return nil, string(b), "result has no model counterpart"
		}
		return g, string(b), ""
	}},
	// host API without the text in between (json.go has explicit int64 / jsonFloat cases for it)
	{"vm-typeaware-direct", func(v hs.Value, t hs.Type) (hs.Value, string, string) {
		out, _ := vv.MarshalValue(*hostkit.ToVM(v), false)
		w := vv.TypeAwareUnmarshalValue(out, hostkit.ToAstType(t))
		if w == nil || *w == nil {
			return nil, "", "TypeAwareUnmarshalValue returned nil"
		}
		g, ok := hostkit.FromVM(*w)
		if !ok {
			return nil, "", "result has no model counterpart"
		}
		return g, fmt.Sprintf("%#v", out), ""
	}},
	// what a program does: to_json, parse_json, cast to the type
	{"vm-builtin", func(v hs.Value, t hs.Type) (hs.Value, string, string) {
		text, e := vmBuiltinText(v)
		if e != "" {
			return nil, "", e
		}
		r, in, err := callVM(vv.NewValueString(text), "parse_json")
		if in != "" || err != "" {
			return nil, text, "parse_json: " + in + err
		}
		w, ce := vv.DeepCast(*r, hostkit.ToAstType(t), span, true)
		if ce != nil {
			return nil, text, "cast: " + ce.Message()
		}
		g, ok := hostkit.FromVM(*w)
		if !ok {
			return nil, text, "result has no model counterpart"
		}
		return g, text, ""
	}},
	{"tree-builtin", func(v hs.Value, t hs.Type) (hs.Value, string, string) {
		text, e := treeBuiltinText(v)
		if e != "" {
			return nil, "", e
		}
		r, in, err := callTree(tv.NewValueString(text), "parse_json")
		if in != "" || err != "" {
			return nil, text, "parse_json: " + in + err
		}
		w, ci := tv.DeepCast(*r, hostkit.ToAstType(t), span, true)
		if ci != nil {
			return nil, text, "cast: " + (*ci).Message()
		}
		g, ok := hostkit.FromTree(*w)
		if !ok {
			return nil, text, "result has no model counterpart"
		}
		return g, text, ""
	}},
}

func hasToJSON(v hs.Value) bool {
	switch v.(type) {
	case *hs.ListV, *hs.ObjV:
		return true
	}
	return false
}

func checkJSON(c JSONCase) *pk.Failure {
	v := c.V.V
	if v == nil || !hs.Conforms(v, c.T) {
		return pk.Failf("json", "bad-case", "value %s does not conform to %s", show(v), typeStr(c.T))
	}
	if ok, why := jsonScope(c.T); !ok {
		return pk.Failf("json", "bad-case", "type outside the JSON scope (%s): %s", why, typeStr(c.T))
	}
	ctx := fmt.Sprintf("type %s\n  v = %s", typeStr(c.T), show(v))
	texts := map[string]string{}
	var fails []*pk.Failure
	for _, r := range jsonRoutes {
		if strings.HasSuffix(r.name, "-builtin") && !hasToJSON(v) {
			continue // only lists, objects and any-objects have to_json
		}
		if c.Route != "" && c.Route != r.name && !(c.Route == "text" && strings.HasSuffix(r.name, "-builtin")) {
			continue
		}
		var got hs.Value
		var text, em string
		if p := guard(func() { got, text, em = r.run(v, c.T) }); p != "" {
			fails = append(fails, pk.Failf("json", "panic:json:"+r.name+":"+msgClass(p), "[%s] panicked: %s\n%s", r.name, msgLine(p), ctx))
			continue
		}
		if em != "" {
			fails = append(fails, pk.Failf("json", "json-error:"+r.name+":"+msgClass(em), "[%s] %s\n  json = %s\n%s", r.name, em, text, ctx))
			continue
		}
		texts[r.name] = text
		if c.Route == "text" {
			continue
		}
		if !jsonEq(v, got) {
			cls := diffClass(canonJSON(v, false), canonJSON(got, false))
			if !strings.Contains(cls, "kind:") {
				site, _ := diffSite(canonJSON(v, false), canonJSON(got, false))
				cls += ":" + jsonFeature(site)
			}
			fails = append(fails, pk.Failf("json", "json-roundtrip:"+r.name+":"+cls, "[%s] round trip changed the value: got %s\n  json = %s\n%s", r.name, show(got), text, ctx))
			continue
		}
		if !strictEq(v, got) {
			pk.Class("doubt:json-anyobj-untyped-content")
		}
	}
	// the two libraries' to_json texts: same JSON document?
	if c.Route == "text" {
		fails = nil
	}
	if a, b := texts["vm-builtin"], texts["tree-builtin"]; a != "" && b != "" && a != b && (c.Route == "" || c.Route == "text") {
		var x, y interface{}
		da, db := json.NewDecoder(strings.NewReader(a)), json.NewDecoder(strings.NewReader(b))
		da.UseNumber()
		db.UseNumber()
		if da.Decode(&x) != nil || db.Decode(&y) != nil {
			fails = append(fails, pk.Failf("json", "json-text-differs:undecodable", "to_json output is not JSON:\n  vm   = %s\n  tree = %s\n%s", a, b, ctx))
		} else if !sameJSON(x, y) {
			fails = append(fails, pk.Failf("json", "json-text-differs:"+jsonDocDiff(x, y), "to_json differs between the libraries:\n  vm   = %s\n  tree = %s\n%s", a, b, ctx))
		} else {
			pk.Class("doubt:json-text-lexical-difference")
		}
	}
	return pick(fails)
}

func msgLine(s string) string {
	if i := strings.IndexByte(s, '\n'); i >= 0 {
		return s[:i]
	}
	return s
}

// jsonDocDiff names the first difference between two decoded documents.
func jsonDocDiff(x, y interface{}) string {
	switch a := x.(type) {
	case []interface{}:
		b, ok := y.([]interface{})
		if !ok {
			return "type"
		}
		if len(a) != len(b) {
			return "array-length"
		}
		for i := range a {
			if !sameJSON(a[i], b[i]) {
				return jsonDocDiff(a[i], b[i])
			}
		}
	case map[string]interface{}:
		b, ok := y.(map[string]interface{})
		if !ok {
			return "type"
		}
		for k := range a {
			if _, has := b[k]; !has {
				return "object-keys"
			}
		}
		if len(a) != len(b) {
			return "object-keys"
		}
		for _, k := range sortedKeysOf(a) {
			if !sameJSON(a[k], b[k]) {
				return jsonDocDiff(a[k], b[k])
			}
		}
	case json.Number:
		if _, ok := y.(json.Number); ok {
			return "number"
		}
		return "type"
	}
	if reflect.TypeOf(x) != reflect.TypeOf(y) {
		return "type"
	}
	return "value"
}

func sortedKeysOf(m map[string]interface{}) []string {
	ks := make([]string, 0, len(m))
	for k := range m {
		ks = append(ks, k)
	}
	sort.Strings(ks)
	return ks
}

// sameJSON: same document up to key order and number spelling (1.0 ~ 1).
func sameJSON(x, y interface{}) bool {
	switch a := x.(type) {
	case json.Number:
		b, ok := y.(json.Number)
		if !ok {
			return false
		}
		if a.String() == b.String() {
			return true
		}
		fa, e1 := a.Float64()
		fb, e2 := b.Float64()
		return e1 == nil && e2 == nil && fa == fb
	case []interface{}:
		b, ok := y.([]interface{})
		if !ok || len(a) != len(b) {
			return false
		}
		for i := range a {
			if !sameJSON(a[i], b[i]) {
				return false
			}
		}
		return true
	case map[string]interface{}:
		b, ok := y.(map[string]interface{})
		if !ok || len(a) != len(b) {
			return false
		}
		for k, av := range a {
			bv, ok := b[k]
			if !ok || !sameJSON(av, bv) {
				return false
			}
		}
		return true
	}
	return reflect.DeepEqual(x, y)
}

// ---------------------------------------------------------------------------------------------
// sub-check "json-prog": the same law inside programs, on both backends

type emitter struct {
	pre []string
	n   int
}

func (e *emitter) temp(t hs.Type, init string) string {
	e.n++
	name := fmt.Sprintf("t%d", e.n)
	e.pre = append(e.pre, fmt.Sprintf("    let %s: %s = %s;", name, t.Src(), init))
	return name
}

// expr renders v (of type t) as an expression; literals whose type the analyzer cannot infer on
// their own (empty lists, none, any-objects) are bound to annotated temporaries first.
func (e *emitter) expr(v hs.Value, t hs.Type, top bool) string {
	switch x := v.(type) {
	case hs.IntV:
		return hs.PrintExpr(hs.Paren{X: hs.IntLit{V: int64(x)}})
	case hs.FloatV:
		return hs.PrintExpr(hs.Paren{X: hs.FloatLit{V: float64(x)}})
	case hs.BoolV:
		if x {
			return "true"
		}
		return "false"
	case hs.StrV:
		return hs.QuoteStr(string(x))
	case hs.NullV:
		return "null"
	case hs.RangeV:
		op := ".."
		if x.Incl {
			op = "..="
		}
		return "(" + e.expr(hs.IntV(x.Start), hs.TInt, false) + op + e.expr(hs.IntV(x.End), hs.TInt, false) + ")"
	case *hs.ListV:
		if t.K != hs.KList {
			t = dynType(v)
		}
		if len(x.Elems) == 0 {
			if top {
				return "[]"
			}
			return e.temp(t, "[]")
		}
		ps := make([]string, len(x.Elems))
		for i, el := range x.Elems {
			ps[i] = e.expr(el, *t.Elem, false)
		}
		return "[" + strings.Join(ps, ", ") + "]"
	case *hs.ObjV:
		if x.Any {
			name := e.temp(hs.TAnyObj, "new { ? }")
			for _, k := range x.Keys {
				e.pre = append(e.pre, fmt.Sprintf("    %s.set(%s, %s);", name, hs.QuoteStr(k), e.expr(x.M[k], dynType(x.M[k]), false)))
			}
			return name
		}
		ps := []string{}
		for _, k := range x.Keys {
			ft, _ := t.FieldType(k)
			ps = append(ps, k+": "+e.expr(x.M[k], ft, false))
		}
		return "new { " + strings.Join(ps, ", ") + " }"
	case hs.OptV:
		if x.Inner == nil {
			if top {
				return "none"
			}
			return e.temp(t, "none")
		}
		return "?(" + e.expr(x.Inner, *t.Elem, false) + ")"
	}
	panic(fmt.Sprintf("emit: %T", v))
}

const secMark = "--c13--"

func buildProg(v hs.Value, t hs.Type) string {
	e := &emitter{}
	ex := e.expr(v, t, true)
	var b strings.Builder
	b.WriteString("fn main() {\n")
	for _, l := range e.pre {
		b.WriteString(l + "\n")
	}
	fmt.Fprintf(&b, "    let v: %s = %s;\n", t.Src(), ex)
	b.WriteString("    let j = v.to_json();\n")
	fmt.Fprintf(&b, "    let w = j.parse_json() as %s;\n", t.Src())
	b.WriteString("    println(v == w);\n")
	fmt.Fprintf(&b, "    println(%q);\n", secMark)
	b.WriteString("    println(v);\n")
	fmt.Fprintf(&b, "    println(%q);\n", secMark)
	fmt.Fprintf(&b, "    let u: %s = j.parse_json();\n", t.Src())
	b.WriteString("    println(v == u);\n")
	b.WriteString("}\n")
	return b.String()
}

func sections(writes []string) []string {
	parts := strings.Split(strings.Join(writes, ""), secMark+"\n")
	return parts
}

func multiKey(v hs.Value) bool {
	return hasKind(v, func(x hs.Value) bool { o, ok := x.(*hs.ObjV); return ok && len(o.M) >= 2 })
}

func checkJSONProg(c JSONProgCase) *pk.Failure {
	resp := px.Pool().Exec(c.Prog.Request("vm", "tree"))
	if f := px.SandboxFailure("json-prog", resp); f != nil {
		f.Sig = "json-prog:" + f.Sig + ":" + jsonFeatures(c.V.V)
		f.Msg += "\n" + px.ProgText(c.Prog)
		return f
	}
	if resp.Inconclusive {
		pk.Inconclusive()
		return nil
	}
	ctx := fmt.Sprintf("type %s\n  v = %s\n%s", c.T.Canon(), show(c.V.V), px.ProgText(c.Prog))
	if !resp.Accepted {
		msg := ""
		for _, d := range append(resp.SyntaxErrors, resp.ErrorDiags()...) {
			msg += fmt.Sprintf("%s: %s @%d:%d\n", d.Level, d.Message, d.Span.Start.Line, d.Span.Start.Column)
		}
		return pk.Failf("json-prog", "prog-rejected:"+msgClass(msg), "the analyzer rejected the program:\n%s%s", msg, ctx)
	}
	shown := map[string]string{}
	var fails []*pk.Failure
	for _, be := range []string{"vm", "tree"} {
		run := resp.Run(be)
		if run == nil {
			fails = append(fails, pk.Failf("json-prog", "no-run:"+be, "no result for backend %s\n%s", be, ctx))
			continue
		}
		if run.CompileErr != "" || run.InitPanic != "" {
			fails = append(fails, pk.Failf("json-prog", "json-prog:"+be+":compile", "%s%s\n%s", run.CompileErr, run.InitPanic, ctx))
			continue
		}
		secs := sections(run.Writes)
		cls, kind, msg := px.OutcomeClass(run.Outcome)
		if msg == "" {
			msg = run.Outcome.Message
		}
		if len(secs) < 3 {
			fails = append(fails, pk.Failf("json-prog", fmt.Sprintf("json-prog:%s:as-cast:%s/%s:%s:%s", be, cls, kind, msgClass(msg), jsonFeatures(c.V.V)),
				"[%s] `v.to_json().parse_json() as T` did not complete: %s/%s %q, output %q\n%s", be, cls, kind, run.Outcome.Message, strings.Join(run.Writes, ""), ctx))
			continue
		}
		if secs[0] != "true\n" {
			fails = append(fails, pk.Failf("json-prog", fmt.Sprintf("json-prog:%s:as-cast:unequal:%s", be, jsonFeatures(c.V.V)),
				"[%s] v == (v.to_json().parse_json() as T) printed %q\n%s", be, secs[0], ctx))
			continue
		}
		shown[be] = secs[1]
		// the annotated-let form (no conversions allowed) is recorded, not asserted
		switch {
		case secs[2] == "true\n" && cls == "ok":
			pk.Class("let-form:" + be + ":true")
		case secs[2] == "":
			pk.Class("doubt:let-form:" + be + ":" + cls + "/" + kind + ":" + msgClass(msg))
		default:
			pk.Class("doubt:let-form:" + be + ":printed-" + strings.TrimSpace(secs[2]))
		}
	}
	if _, both := shown["tree"]; both && shown["vm"] != "" && shown["vm"] != shown["tree"] {
		if multiKey(c.V.V) {
			if !sameLines(shown["vm"], shown["tree"]) {
				fails = append(fails, pk.Failf("json-prog", "display-differs:prog:"+displayFeature(c.V.V), "println(v) differs between the backends (beyond field order):\n  vm:   %q\n  tree: %q\n%s", shown["vm"], shown["tree"], ctx))
			}
		} else {
			fails = append(fails, pk.Failf("json-prog", "display-differs:prog:"+displayFeature(c.V.V), "println(v) differs between the backends:\n  vm:   %q\n  tree: %q\n%s", shown["vm"], shown["tree"], ctx))
		}
	}
	return pick(fails)
}

var _ = sb.DefaultLimits

// ---------------------------------------------------------------------------------------------
// sub-check "display"

func normLines(s string) []string {
	ls := strings.Split(s, "\n")
	for i := range ls {
		ls[i] = strings.TrimRight(ls[i], ",")
	}
	sort.Strings(ls)
	return ls
}

func sameLines(a, b string) bool {
	return reflect.DeepEqual(normLines(a), normLines(b))
}

func displayFeature(v hs.Value) string {
	switch {
	case hasKind(v, func(x hs.Value) bool { _, ok := x.(hs.RangeV); return ok }):
		return "range"
	case hasKind(v, func(x hs.Value) bool { o, ok := x.(*hs.ObjV); return ok && o.Any && len(o.M) > 0 }):
		return "anyobj"
	case hasKind(v, func(x hs.Value) bool { o, ok := x.(*hs.ObjV); return ok && !o.Any }):
		return "obj"
	case hasKind(v, func(x hs.Value) bool { _, ok := x.(hs.FloatV); return ok }):
		return "float"
	case hasKind(v, func(x hs.Value) bool { _, ok := x.(hs.OptV); return ok }):
		return "opt"
	}
	return kindName(v)
}

func checkDisplay(c DisplayCase) *pk.Failure {
	v := c.V.V
	if v == nil {
		return pk.Failf("display", "bad-case", "no value")
	}
	ctx := fmt.Sprintf("type %s\n  v = %s", c.T.Canon(), show(v))
	out := map[string]string{}
	multi := multiKey(v)
	for _, L := range libs {
		var s, s2, im string
		if p := guard(func() {
			s, im = L.display(L.conv(v))
			if im == "" {
				s2, im = L.display(L.conv(permuteKeys(hs.DeepCopy(v), 1)))
			}
		}); p != "" {
			return pk.Failf("display", "panic:display:"+displayFeature(v), "[%s] Display panicked: %s\n%s", L.name, p, ctx)
		}
		if im != "" {
			return pk.Failf("display", "display-interrupt:"+displayFeature(v), "[%s] Display returned %s\n%s", L.name, im, ctx)
		}
		// equal values, same text (within one library): a copy built in another key order
		if s != s2 && !(multi && sameLines(s, s2)) {
			return pk.Failf("display", "display-unstable:"+L.name+":"+displayFeature(v), "[%s] an equal copy renders differently:\n  %q\n  %q\n%s", L.name, s, s2, ctx)
		}
		out[L.name] = s
	}
	if out["vm"] == out["tree"] {
		return nil
	}
	if multi {
		pk.Class("display-multi-key-compared-as-line-multiset")
		if sameLines(out["vm"], out["tree"]) {
			return nil
		}
	}
	return pk.Failf("display", "display-differs:"+displayFeature(v), "the libraries render the same value differently:\n  vm:   %q\n  tree: %q\n%s", out["vm"], out["tree"], ctx)
}

func isNullish(v hs.Value) bool {
	switch x := v.(type) {
	case hs.NullV:
		return true
	case hs.OptV:
		return x.Inner == nil
	}
	return false
}

// ---------------------------------------------------------------------------------------------
// sub-check "eq-prog": == and != inside programs, on both backends

func buildEqProg(a, b hs.Value, t hs.Type) string {
	e := &emitter{}
	ea := e.expr(a, t, true)
	eb := e.expr(b, t, true)
	var sb strings.Builder
	sb.WriteString("fn main() {\n")
	for _, l := range e.pre {
		sb.WriteString(l + "\n")
	}
	fmt.Fprintf(&sb, "    let a: %s = %s;\n", t.Src(), ea)
	fmt.Fprintf(&sb, "    let b: %s = %s;\n", t.Src(), eb)
	sb.WriteString("    println(a == b);\n    println(b == a);\n    println(a != b);\n    println(a == a);\n")
	fmt.Fprintf(&sb, "    println(%q);\n", secMark)
	sb.WriteString("    println([a]);\n")
	sb.WriteString("}\n")
	return sb.String()
}

func checkEqProg(c EqProgCase) *pk.Failure {
	a, b := c.A.V, c.B.V
	resp := px.Pool().Exec(c.Prog.Request("vm", "tree"))
	if f := px.SandboxFailure("eq-prog", resp); f != nil {
		f.Sig = "eq-prog:" + f.Sig + ":" + pairClass(a, b)
		f.Msg += fmt.Sprintf("\n  a = %s\n  b = %s\n%s", show(a), show(b), px.ProgText(c.Prog))
		return f
	}
	if resp.Inconclusive {
		pk.Inconclusive()
		return nil
	}
	ctx := fmt.Sprintf("type %s\n  a = %s\n  b = %s\n%s", c.T.Canon(), show(a), show(b), px.ProgText(c.Prog))
	if !resp.Accepted {
		msg := ""
		for _, d := range append(resp.SyntaxErrors, resp.ErrorDiags()...) {
			msg += fmt.Sprintf("%s: %s @%d:%d\n", d.Level, d.Message, d.Span.Start.Line, d.Span.Start.Column)
		}
		return pk.Failf("eq-prog", "prog-rejected:"+msgClass(msg), "the analyzer rejected the program:\n%s%s", msg, ctx)
	}
	want := hs.Equal(a, b)
	exp := fmt.Sprintf("%v\n%v\n%v\ntrue\n", want, want, !want)
	shown := map[string]string{}
	var fails []*pk.Failure
	for _, be := range []string{"vm", "tree"} {
		run := resp.Run(be)
		if run == nil || run.CompileErr != "" || run.InitPanic != "" {
			fails = append(fails, pk.Failf("eq-prog", "eq-prog:"+be+":no-run", "no usable run on %s\n%s", be, ctx))
			continue
		}
		secs := sections(run.Writes)
		cls, kind, msg := px.OutcomeClass(run.Outcome)
		if msg == "" {
			msg = run.Outcome.Message
		}
		if cls != "ok" || len(secs) != 2 {
			fails = append(fails, pk.Failf("eq-prog", fmt.Sprintf("eq-prog:%s:%s/%s:%s:%s", be, cls, kind, msgClass(msg), pairClass(a, b)),
				"[%s] comparing same-typed values ended with %s/%s %q, output %q\n%s", be, cls, kind, run.Outcome.Message, strings.Join(run.Writes, ""), ctx))
			continue
		}
		shown[be] = secs[1]
		if secs[0] != exp {
			fails = append(fails, pk.Failf("eq-prog", "eq-prog:"+be+":"+pairClass(a, b),
				"[%s] (a == b, b == a, a != b, a == a) printed %q, the structural contents say %q\n%s", be, secs[0], exp, ctx))
		}
	}
	if va, ok := shown["vm"]; ok {
		if ta, ok := shown["tree"]; ok && va != ta && !(multiKey(a) && sameLines(va, ta)) {
			fails = append(fails, pk.Failf("eq-prog", "display-differs:prog:"+displayFeature(a), "println(a) differs between the backends:\n  vm:   %q\n  tree: %q\n%s", va, ta, ctx))
		}
	}
	return pick(fails)
}
