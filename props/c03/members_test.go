package c03

import (
	"fmt"
	"sort"
	"testing"

	"github.com/smarthome-go/homescript/v3/homescript/analyzer/ast"
	herrors "github.com/smarthome-go/homescript/v3/homescript/errors"

	"verif/pk"
	"verif/px"
	"verif/sb"
)

// "Unknown member": which members a type HAS is not written down anywhere but in the analyzer's own tables, so the
// table below does not restate them. It uses the one definition that needs no table: a member that NEITHER
// runtime has on a value of the type is unknown. Every (receiver, name) pair over the union of all member names
// the analyzer's tables mention anywhere (plus a few it does not) is analysed as `r.name` and as `r.name()`;
// whatever is accepted is run on both backends and must not end in a host crash ("field not found", "unreachable").
// Being refused is always fine here (the accepting direction is the business of the generated programs).

var memberReceivers = []struct{ kind, decl string }{
	{"int", "let r = 5;"}, {"float", "let r = 1.5;"}, {"bool", "let r = true;"}, {"str", `let r = "abc";`}, {"range", "let r = 0..3;"},
	{"[int]", "let r = [3, 1, 2];"}, {"[float]", "let r = [2.5, 1.5];"}, {"[str]", `let r = ["b", "a"];`}, {"[bool]", "let r = [true, false];"},
	{"[[int]]", "let r = [[2], [1]];"}, {"[?int]", "let r = [?2, ?1];"}, {"[range]", "let r = [0..2, 0..1];"}, {"[{a:int}]", "let r = [new { a: 2 }, new { a: 1 }];"},
	{"[{?}]", "let r = [new { ? }];"}, {"[fn]", "let r = [fn(x: int) -> int { x }];"}, {"[int]-empty", "let r: [int] = [];"}, {"[bool]-empty", "let r: [bool] = [];"},
	{"?int", "let r = ?1;"}, {"?int-none", "let r: ?int = none;"}, {"?str", `let r = ?"s";`}, {"?[int]", "let r = ?[1];"}, {"??int", "let r = ??1;"}, {"?{a:int}", "let r = ?new { a: 1 };"},
	{"{a:int}", "let r = new { a: 1 };"}, {"{a:int,len:int}", "let r = new { a: 1, len: 2 };"}, {"{}", "let r = new { };"}, {"{?}", "let r = new { ? };"},
	{"fn", "let r = fn(x: int) -> int { x };"}, {"builtin-fn", "let r = println;"}, {"member-fn", `let r = "abc".len;`},
}

// names the analyzer's tables do not mention
var extraMemberNames = []string{"sort", "first", "map", "filter", "size", "length", "is_empty", "clear", "reverse", "min", "max", "sum", "abs", "to_int", "to_float", "message", "line", "column", "nosuch", "a"}

func allMemberNames() []string {
	set := map[string]bool{}
	for _, n := range extraMemberNames {
		set[n] = true
	}
	sp := herrors.Span{}
	inner := []ast.Type{ast.NewIntType(sp), ast.NewFloatType(sp), ast.NewBoolType(sp), ast.NewStringType(sp), ast.NewRangeType(sp), ast.NewNullType(sp)}
	types := append([]ast.Type{}, inner...)
	for _, in := range inner {
		types = append(types, ast.NewListType(in, sp), ast.NewOptionType(in, sp))
	}
	types = append(types, ast.NewAnyObjectType(sp), ast.NewObjectType(nil, sp))
	for _, ty := range types {
		func() {
			defer func() { recover() }()
			for n := range ty.Fields(sp) {
				set[n] = true
			}
		}()
	}
	out := []string{}
	for n := range set {
		out = append(out, n)
	}
	sort.Strings(out)
	return out
}

type MemberCase struct {
	Kind, Decl, Name string
}

func checkMemberName(c MemberCase) *pk.Failure {
	for _, form := range []string{"take", "call"} {
		use := fmt.Sprintf("let m = r.%s;", c.Name)
		if form == "call" {
			use = fmt.Sprintf("r.%s();", c.Name)
		}
		text := fmt.Sprintf("fn main() {\n    %s\n    %s\n    println(\"done\");\n}\n", c.Decl, use)
		pc := px.ProgCase{Modules: map[string]string{"main": text}, Entry: "main", Limits: sb.DefaultLimits()}
		resp := px.Pool().Exec(&sb.Request{Op: "analyze", Modules: pc.Modules, Entry: "main"})
		if f := px.SandboxFailure("members", resp); f != nil {
			f.Msg = text + "\n" + f.Msg
			return f
		}
		if resp.Inconclusive {
			pk.Inconclusive()
			return nil
		}
		if !resp.Accepted {
			pk.Class("member-" + form + ":refused")
			continue
		}
		pk.Class("member-" + form + ":accepted")
		pk.Class("member-offered:" + c.Kind + "." + c.Name)
		for _, b := range []string{"vm", "tree"} {
			run := px.Pool().Exec(pc.Request(b))
			pk.Extra("member-runs", 1)
			if f := px.SandboxFailure("members", run); f != nil {
				f.Sig = fmt.Sprintf("accepted-member-no-runtime-has:%s.%s:%s:%s", c.Kind, c.Name, form, b)
				f.Msg = fmt.Sprintf("the analyzer accepts member %q on %s (no error-level diagnostic), the %s runtime does not have it (%s):\n%s\n%s", c.Name, c.Kind, b, form, text, f.Msg)
				return f
			}
		}
	}
	return nil
}

func init() { pk.Reg("members", checkMemberName) }

func TestTableMemberNames(t *testing.T) {
	pk.SkipIfReplay(t)
	col := pk.NewCollector()
	names := allMemberNames()
	k := 0
	var cases []MemberCase
	for _, r := range memberReceivers {
		for _, n := range names {
			cases = append(cases, MemberCase{Kind: r.kind, Decl: r.decl, Name: n})
		}
	}
	res := make([]*pk.Failure, len(cases))
	px.Parallel(len(cases), func(i int) {
		if !pk.Mine(i) {
			return
		}
		pk.Eval()
		pk.NonTrivial(cases[i].Kind+"."+cases[i].Name, nil)
		res[i] = checkMemberName(cases[i])
	})
	for i, c := range cases {
		if pk.Mine(i) {
			k++
			col.Report(c, res[i])
		}
	}
	pk.Extra("member-name-pairs", k)
	pk.Exhaustive("table-member-names")
	t.Logf("member names: %d receivers x %d names", len(memberReceivers), len(names))
	col.Done(t)
}
