package c03

import (
	"fmt"
	"regexp"
	"strings"
	"sync"
	"testing"

	"pgregory.net/rapid"

	"verif/gen"
	"verif/hs"
	"verif/pk"
	"verif/px"
	"verif/sb"
)

func TestMain(m *testing.M) { pk.Main(m) }

// Case: a program with the expected analyzer verdict.
type Case struct {
	px.ProgCase
	Rule    string
	Context string
	NoMain  bool
	// Types: expected static types of let-bound variables ("function/variable" -> canonical type)
	Types map[string]string `json:",omitempty"`
	// Base: for generated mutants, the text of the accepted program the mutant was made from (documentation)
	Base string `json:",omitempty"`
}

// mutantDiff: the lines of the mutant that differ from its base, with two lines of context.
func mutantDiff(c Case) string {
	if c.Base == "" {
		return ""
	}
	a, b := strings.Split(c.Base, "\n"), strings.Split(c.Modules[c.Entry], "\n")
	i := 0
	for i < len(a) && i < len(b) && a[i] == b[i] {
		i++
	}
	ja, jb := len(a), len(b)
	for ja > i && jb > i && a[ja-1] == b[jb-1] {
		ja, jb = ja-1, jb-1
	}
	lo := i - 12
	if lo < 0 {
		lo = 0
	}
	hi := jb + 3
	if hi > len(b) {
		hi = len(b)
	}
	return fmt.Sprintf("--- mutated site (lines %d-%d of the mutant; base had: %q)\n%s\n---\n", i+1, jb, strings.Join(a[i:ja], "\n"), strings.Join(b[lo:hi], "\n"))
}

func analyze(c Case) (*sb.Response, *pk.Failure) {
	req := &sb.Request{Op: "analyze", Modules: c.Modules, Entry: c.Entry, NoMain: c.NoMain, WantTypes: len(c.Types) > 0}
	resp := px.Pool().Exec(req)
	if f := px.SandboxFailure("analyze", resp); f != nil {
		f.Msg = fmt.Sprintf("rule %s in %s\n%s\n%s", c.Rule, c.Context, px.ProgText(c.ProgCase), f.Msg)
		return nil, f
	}
	return resp, nil
}

func diagText(resp *sb.Response) string {
	var b strings.Builder
	for _, d := range resp.SyntaxErrors {
		fmt.Fprintf(&b, "  syntax: %s @%s:%d:%d\n", d.Message, d.Span.Filename, d.Span.Start.Line, d.Span.Start.Column)
	}
	for _, d := range resp.Diags {
		fmt.Fprintf(&b, "  %s: %s @%s:%d:%d\n", d.Level, d.Message, d.Span.Filename, d.Span.Start.Line, d.Span.Start.Column)
	}
	return b.String()
}

// checkAccept: a well-typed program gets no error-level diagnostic (and no syntax error), and the
// recorded types of its let-bound variables are the ones the typing rules assign.
func checkAccept(c Case) *pk.Failure {
	resp, f := analyze(c)
	if f != nil {
		f.Sub = "accept"
		return f
	}
	if resp.Inconclusive {
		pk.Inconclusive()
		return nil
	}
	if len(resp.SyntaxErrors) > 0 || len(resp.ErrorDiags()) > 0 {
		first := ""
		if e := resp.ErrorDiags(); len(e) > 0 {
			first = e[0].Message
		} else {
			first = "syntax: " + resp.SyntaxErrors[0].Message
		}
		return pk.Failf("accept", "rejected-well-typed:"+c.Rule+":"+c.Context+":"+normMsg(first), "well-typed program (%s in %s) received error diagnostics:\n%s%s", c.Rule, c.Context, diagText(resp), px.ProgText(c.ProgCase))
	}
	if len(c.Types) > 0 {
		got := map[string]string{}
		dup := map[string]bool{}
		for _, p := range resp.Probes {
			if _, seen := got[p.Name]; seen {
				dup[p.Name] = true
			}
			got[p.Name] = p.Type
		}
		for name, want := range c.Types {
			if dup[name] {
				continue
			}
			g, ok := got[name]
			if !ok {
				continue // not a top-level let of the function (nested lets are not reported)
			}
			pk.Extra("types-compared", 1)
			if (strings.Contains(g, "never") || strings.Contains(g, "unknown")) && want != g && initDiverges(c.ProgCase, name) {
				// (`unknown` is what a member or operator applied to a never-typed operand yields)
				// The initialiser contains a diverging construct (throw / return / break / continue): when
				// that construct is always executed, `never` is the more precise type of the initialiser,
				// and the property does not say which of the two the rules assign to unreachable code.
				pk.Extra("types-never-for-diverging-initialiser", 1)
				continue
			}
			if g != want {
				return pk.Failf("accept", "recorded-type:"+want+"->"+g, "variable %s: the analyzer recorded type %s, the typing rules assign %s\n%s", name, g, want, px.ProgText(c.ProgCase))
			}
		}
	}
	return nil
}

// checkReject: a program that breaks a static rule gets at least one error-level diagnostic.
func checkReject(c Case) *pk.Failure {
	resp, f := analyze(c)
	if f != nil {
		f.Sub = "reject"
		return f
	}
	if resp.Inconclusive {
		pk.Inconclusive()
		return nil
	}
	if len(resp.ErrorDiags()) == 0 {
		if len(resp.SyntaxErrors) > 0 {
			return pk.Failf("reject", "template-syntax-error:"+c.Rule, "the ill-typed template for %s in %s does not even parse (harness bug):\n%s%s", c.Rule, c.Context, diagText(resp), px.ProgText(c.ProgCase))
		}
		return pk.Failf("reject", "accepted-ill-typed:"+c.Rule+":"+c.Context, "program breaking rule %q in context %q received no error-level diagnostic:\n%s%s%s", c.Rule, c.Context, mutantDiff(c), diagText(resp), px.ProgText(c.ProgCase))
	}
	return nil
}

func normMsg(m string) string {
	if len(m) > 40 {
		m = m[:40]
	}
	return strings.Map(func(r rune) rune {
		if r >= '0' && r <= '9' {
			return 'N'
		}
		return r
	}, m)
}

func init() {
	pk.Reg("accept", checkAccept)
	pk.Reg("reject", checkReject)
}

func TestReplay(t *testing.T) { pk.ReplayTest(t) }

// ---------------------------------------------------------------------------------------------
// rule x context table: each rule has a well-typed snippet and a single-fault ill-typed twin.

type rule struct {
	name      string
	good, bad string // statements (may span several statements)
	noLoopCtx bool   // only meaningful outside loops (break/continue)
	stmtOnly  bool
}

const helpers = `fn takes_int(x: int) -> int { x }
fn takes_two(a: int, b: str) -> int { a }
fn ret_int() -> int { 1 }
fn ret_str() -> str { "s" }
fn ret_list() -> [int] { [1] }
`

var rules = []rule{
	{name: "operand-int-str", good: `let r = 1 + 2; println(r);`, bad: `let r = 1 + "a"; println(r);`},
	{name: "operand-bool-int", good: `let r = true & false; println(r);`, bad: `let r = true & 1; println(r);`},
	{name: "operand-str-minus", good: `let r = "a" + "b"; println(r);`, bad: `let r = "a" - "b"; println(r);`},
	{name: "operand-float-mod", good: `let r = 1.5 * 2.0; println(r);`, bad: `let r = 1.5 % 2.0; println(r);`},
	{name: "operand-logical-int", good: `let r = true && false; println(r);`, bad: `let r = 1 && 2; println(r);`},
	{name: "operand-compare-str", good: `let r = 1 < 2; println(r);`, bad: `let r = "a" < "b"; println(r);`},
	{name: "operand-eq-mixed", good: `let r = 1 == 2; println(r);`, bad: `let r = 1 == "a"; println(r);`},
	{name: "prefix-neg-str", good: `let r = -1; println(r);`, bad: `let r = -"a"; println(r);`},
	{name: "prefix-not-str", good: `let r = !true; println(r);`, bad: `let r = !"a"; println(r);`},
	{name: "argument-type", good: `println(takes_int(1));`, bad: `println(takes_int("s"));`},
	{name: "argument-type-second", good: `println(takes_two(1, "s"));`, bad: `println(takes_two(1, 2));`},
	{name: "arity-too-few", good: `println(takes_int(1));`, bad: `println(takes_int());`},
	{name: "arity-too-many", good: `println(takes_int(1));`, bad: `println(takes_int(1, 2));`},
	{name: "assignment-type", good: `let v = 1; v = 2; println(v);`, bad: `let v = 1; v = "s"; println(v);`},
	{name: "assignment-compound-type", good: `let v = 1; v += 2; println(v);`, bad: `let v = 1; v += "s"; println(v);`},
	{name: "assignment-element-type", good: `let l = [1]; l[0] = 2; println(l);`, bad: `let l = [1]; l[0] = "s"; println(l);`},
	{name: "assignment-field-type", good: `let o = new { a: 1 }; o.a = 2; println(o.a);`, bad: `let o = new { a: 1 }; o.a = "s"; println(o.a);`},
	{name: "let-annotation-type", good: `let v: int = 1; println(v);`, bad: `let v: int = "s"; println(v);`},
	{name: "condition-if", good: `if true { println(1); }`, bad: `if 1 { println(1); }`},
	{name: "condition-while", good: `let w = 0; while w < 1 { w += 1; }`, bad: `let w = 0; while w { w += 1; }`},
	{name: "branch-if-else", good: `let r = if true { 1 } else { 2 }; println(r);`, bad: `let r = if true { 1 } else { "s" }; println(r);`},
	{name: "branch-match-arms", good: `let r = match 1 { 1 => 1, _ => 2 }; println(r);`, bad: `let r = match 1 { 1 => 1, _ => "s" }; println(r);`},
	{name: "branch-match-literal", good: `let r = match 1 { 1 => 1, _ => 2 }; println(r);`, bad: `let r = match 1 { "a" => 1, _ => 2 }; println(r);`},
	{name: "branch-match-missing-default", good: `let r = match 1 { 1 => 1, _ => 2 }; println(r);`, bad: `let r = match 1 { 1 => 1 }; println(r);`},
	{name: "branch-try-catch", good: `let r = try { 1 } catch e { 2 }; println(r);`, bad: `let r = try { 1 } catch e { "s" }; println(r);`},
	{name: "iterator-int", good: `for i in 0..2 { println(i); }`, bad: `for i in 5 { println(i); }`},
	{name: "iterator-bool", good: `for i in [1] { println(i); }`, bad: `for i in true { println(i); }`},
	{name: "list-literal-mixed", good: `let l = [1, 2]; println(l);`, bad: `let l = [1, "s"]; println(l);`},
	{name: "index-non-int", good: `let l = [1]; println(l[0]);`, bad: `let l = [1]; println(l["a"]);`},
	{name: "index-non-indexable", good: `let l = [1]; println(l[0]);`, bad: `let l = 5; println(l[0]);`},
	{name: "call-non-function", good: `println(ret_int());`, bad: `let f = 5; println(f());`},
	{name: "unknown-identifier", good: `let k = 1; println(k + 1);`, bad: `println(nope + 1);`},
	{name: "unknown-function", good: `println(ret_int());`, bad: `println(nope());`},
	{name: "unknown-type", good: `let v: int = 1; println(v);`, bad: `let v: Nope = 1; println(v);`},
	{name: "unknown-member-str", good: `println("s".len());`, bad: `println("s".nope());`},
	{name: "unknown-member-int", good: `println(5.to_string());`, bad: `println(5.nope);`},
	{name: "unknown-member-list", good: `println([1].len());`, bad: `println([1].nope());`},
	{name: "unknown-field", good: `let o = new { a: 1 }; println(o.a);`, bad: `let o = new { a: 1 }; println(o.b);`},
	{name: "member-argument-type", good: `let l = [1]; l.push(2); println(l);`, bad: `let l = [1]; l.push("s"); println(l);`},
	{name: "member-arity", good: `println("a".repeat(2));`, bad: `println("a".repeat());`},
	{name: "break-outside-loop", good: `println(1);`, bad: `break;`, noLoopCtx: true},
	{name: "continue-outside-loop", good: `println(1);`, bad: `continue;`, noLoopCtx: true},
	{name: "implicit-any-parse-json", good: `let v: int = "1".parse_json(); println(v);`, bad: `let v = "1".parse_json(); println(1);`},
	{name: "implicit-any-empty-list", good: `let v: [int] = []; println(v);`, bad: `let v = []; println(1);`},
	{name: "implicit-any-none", good: `let v: ?int = none; println(v);`, bad: `let v = none; println(1);`},
	{name: "cast-impossible", good: `println(1 as float);`, bad: `println("s" as [int]);`},
	{name: "option-unwrap-type", good: `let o = ?1; println(o.unwrap_or(2));`, bad: `let o = ?1; println(o.unwrap_or("s"));`},
	{name: "range-bound-type", good: `for i in 0..2 { println(i); }`, bad: `for i in 0.."s" { println(i); }`},
	{name: "spawn-unknown", good: `println(1);`, bad: `spawn nope();`},
	{name: "spawn-argument-type", good: `spawn takes_int(1);`, bad: `spawn takes_int("s");`},
	{name: "object-literal-duplicate-key", good: `let o = new { a: 1, b: 2 }; println(o.a);`, bad: `let o = new { a: 1, a: 2 }; println(o.a);`},
}

type context struct {
	name   string
	inLoop bool
	wrap   func(stmts string) string // body of main
}

var contexts = []context{
	{"fn-body", false, func(s string) string { return s }},
	{"nested-block", false, func(s string) string { return "{ " + s + " }" }},
	{"if-then", false, func(s string) string { return "let c = true; if c { " + s + " }" }},
	{"if-else", false, func(s string) string { return "let c = false; if c { println(0); } else { " + s + " }" }},
	{"while-body", true, func(s string) string { return "let q = 0; while q < 1 { q += 1; " + s + " }" }},
	{"for-body", true, func(s string) string { return "for it in 0..1 { " + s + " }" }},
	{"loop-body", true, func(s string) string { return "let q = 0; loop { q += 1; if q > 1 { break; } " + s + " }" }},
	{"lambda-body", false, func(s string) string { return "let lam = fn() { " + s + " }; lam();" }},
	{"lambda-in-loop", false, func(s string) string { return "for it in 0..1 { let lam = fn() { " + s + " }; lam(); }" }},
	{"match-arm", false, func(s string) string { return "match 1 { 1 => { " + s + " } _ => { println(0); } }" }},
	{"match-default", false, func(s string) string { return "match 1 { 2 => { println(0); } _ => { " + s + " } }" }},
	{"try-body", false, func(s string) string { return "try { " + s + " } catch e { println(e.message); }" }},
	{"catch-body", false, func(s string) string { return "try { throw(\"x\"); } catch e { " + s + " }" }},
	{"after-closure", false, func(s string) string { return "let lam = fn(x: int) -> bool { x > 1 }; println(lam(1)); " + s }},
	{"value-block", false, func(s string) string { return "let vb = { " + s + " 1 }; println(vb);" }},
}

func program(body string, extraTop string) string {
	return helpers + extraTop + "fn main() {\n    " + body + "\n}\n"
}

// top-level rules: whole-program templates (good, bad).
type topRule struct {
	name, good, bad string
	noMain          bool
	lib             string // text of a second module `lib` both programs may import from
}

var topRules = []topRule{
	{name: "return-type", good: helpers + "fn f() -> int { 1 }\nfn main() { println(f()); }\n", bad: helpers + "fn f() -> int { \"s\" }\nfn main() { println(f()); }\n"},
	{name: "return-stmt-type", good: helpers + "fn f(c: bool) -> int { if c { return 2; } 1 }\nfn main() { println(f(true)); }\n", bad: helpers + "fn f(c: bool) -> int { if c { return \"s\"; } 1 }\nfn main() { println(f(true)); }\n"},
	{name: "return-missing-value", good: helpers + "fn f(c: bool) -> int { if c { return 2; } 1 }\nfn main() { println(f(true)); }\n", bad: helpers + "fn f(c: bool) -> int { if c { return; } 1 }\nfn main() { println(f(true)); }\n"},
	{name: "return-value-in-null-fn", good: helpers + "fn f(c: bool) { if c { return; } println(1); }\nfn main() { f(true); }\n", bad: helpers + "fn f(c: bool) { if c { return 5; } println(1); }\nfn main() { f(true); }\n"},
	{name: "return-after-closure", good: helpers + "fn f() -> int { let l = fn(x: int) -> bool { x > 1 }; if l(2) { return 5; } 7 }\nfn main() { println(f()); }\n", bad: helpers + "fn f() -> int { let l = fn(x: int) -> bool { x > 1 }; if l(2) { return true; } 7 }\nfn main() { println(f()); }\n"},
	{name: "closure-return-type", good: "fn main() { let l = fn(x: int) -> int { x }; println(l(1)); }\n", bad: "fn main() { let l = fn(x: int) -> int { \"s\" }; println(l(1)); }\n"},
	{name: "duplicate-function", good: "fn f() {}\nfn g() {}\nfn main() { f(); g(); }\n", bad: "fn f() {}\nfn f() {}\nfn main() { f(); }\n"},
	{name: "duplicate-global", good: "let a = 1;\nlet b = 2;\nfn main() { println(a, b); }\n", bad: "let a = 1;\nlet a = 2;\nfn main() { println(a); }\n"},
	// functions, globals, imports and builtins of a module share one name space: what a bare name denotes must not
	// depend on who looks it up (the analyzer, the compiler or the interpreter)
	{name: "duplicate-function-and-global", good: "let a = 5;\nfn f() -> int { 1 }\nfn main() { println(a, f()); }\n", bad: "let f = 5;\nfn f() -> int { 1 }\nfn main() { println(f); }\n"},
	{name: "duplicate-function-and-unused-global", good: "let a = 5;\nfn f() -> int { 1 }\nfn main() { println(a, f()); }\n", bad: "fn f() -> int { 1 }\nlet f = 5;\nfn main() { println(1); }\n"},
	{name: "duplicate-function-and-pub-global", good: "pub let a = 5;\npub fn f() -> int { 1 }\nfn main() { println(a, f()); }\n", bad: "let f = 5;\npub fn f() -> int { 1 }\nfn main() { println(1); }\n"},
	{name: "function-named-like-builtin", good: "fn show(x: int) -> int { x + 1 }\nfn main() { println(show(1)); }\n", bad: "fn println(x: int) -> int { x + 1 }\nfn main() { println(2); }\n"},
	{name: "function-named-like-builtin-unused", good: "fn show(x: int) -> int { x + 1 }\nfn main() { println(show(1)); }\n", bad: "fn debug(x: int) -> int { x + 1 }\nfn main() { println(2); }\n"},
	{name: "function-named-like-imported-function", lib: "pub fn f() -> str { \"abc\" }\npub fn g() -> str { \"x\" }\nfn main() {}\n",
		good: "import g from lib;\nfn f() -> int { 1 }\nfn main() { println(f(), g()); }\n", bad: "import f from lib;\nfn f() -> int { 1 }\nfn main() { let s: str = f(); println(s.len()); }\n"},
	{name: "function-named-like-imported-global", lib: "pub let f = \"abc\";\npub let g = 2;\nfn main() {}\n",
		good: "import g from lib;\nfn f() -> int { 1 }\nfn main() { println(f(), g); }\n", bad: "import f from lib;\nfn f() -> int { 1 }\nfn main() { println(f.len()); }\n"},
	{name: "global-named-like-imported-function", lib: "pub fn f() -> str { \"abc\" }\npub fn g() -> str { \"x\" }\nfn main() {}\n",
		good: "import g from lib;\nlet f = 1;\nfn main() { println(f, g()); }\n", bad: "import f from lib;\nlet f = 1;\nfn main() { println(f); }\n"},
	{name: "assign-function-value", good: "fn f(x: int) -> int { x }\nfn g(x: int) -> int { x + 1 }\nfn main() { let h = f; h = g; let o = new { cb: f }; o.cb = g; let l = [f]; l[0] = g; println(h(1), o.cb(1), l[0](1)); }\n",
		bad: "fn f(x: int) -> int { x }\nfn g(x: str) -> int { 1 }\nfn main() { let h = f; h = g; println(h(1)); }\n"},
	{name: "list-literal-function-elements", good: "fn f(x: int) -> int { x }\nfn g(x: int) -> int { x + 1 }\nfn main() { let l = [f, g, fn(x: int) -> int { x + 2 }]; println(l[1](1), l[2](1)); }\n",
		bad: "fn f(x: int) -> int { x }\nfn g(x: str) -> int { 1 }\nfn main() { let l = [f, g]; println(l[0](1)); }\n"},
	// a singleton the host does not provide starts as the zero value of its type: a type without one cannot be a singleton's
	{name: "singleton-type-without-default-function", good: "$S = { k: ?fn() -> null, l: [fn() -> null], n: int };\nfn g(s: $S) { println(s.n, s.l.len(), s.k.is_none()); }\nfn main() { g(); }\n",
		bad: "$S = { k: fn() -> null, n: int };\nfn g(s: $S) { println(s.n); }\nfn main() { g(); }\n"},
	{name: "singleton-type-without-default-any", good: "$S = { k: ?int, a: { ? }, n: { m: int } };\nfn g(s: $S) { println(s.n.m, s.a.keys(), s.k.is_none()); }\nfn main() { g(); }\n",
		bad: "$S = { n: { m: any } };\nfn g(s: $S) { println(1); }\nfn main() { g(); }\n"},
	// a thread starts in a FUNCTION (of the module or imported); a value of a function type cannot be spawned
	{name: "spawn-function-value-variable", good: "fn f() { println(1); }\nfn main() { spawn f(); }\n", bad: "fn f() { println(1); }\nfn main() { let g = f; spawn g(); }\n"},
	{name: "spawn-function-value-parameter", good: "fn f() { println(1); }\nfn run() { spawn f(); }\nfn main() { run(); }\n", bad: "fn run(cb: fn() -> null) { spawn cb(); }\nfn main() { run(fn() { println(1); }); }\n"},
	{name: "spawn-builtin", good: "fn show() { println(\"x\"); }\nfn main() { spawn show(); }\n", bad: "fn main() { spawn println(\"x\"); }\n"},
	{name: "spawn-imported-host-function", good: "import assert_eq from testing;\nfn check() { assert_eq(1, 1); }\nfn main() { spawn check(); }\n", bad: "import assert_eq from testing;\nfn main() { spawn assert_eq(1, 1); }\n"},
	{name: "spawn-imported-function", lib: "pub fn f() { println(1); }\nfn main() {}\n", good: "import f from lib;\nfn main() { spawn f(); }\n", bad: "import f from lib;\nfn main() { let g = f; spawn g(); }\n"},
	// parentheses are transparent for the implicit-any rule: where a value of type any is acceptable, so is the same
	// expression in parentheses - and nowhere else
	{name: "parenthesised-any-in-annotated-let", good: "fn main() { let o = new { ? }; o.set(\"k\", 5); let v: int = (o[\"k\"]); let w: int = ((o[\"k\"])); println(v, w); }\n", bad: "fn main() { let o = new { ? }; o.set(\"k\", 5); let v = (o[\"k\"]); println(1); }\n"},
	{name: "parenthesised-any-cast-operand", good: "fn main() { let c = (\"7\".parse_json()) as int; let d = ((\"8\".parse_json())) as int; println(c, d); }\n", bad: "fn main() { println((\"7\".parse_json())); }\n"},
	// a loop that can be left by `break` is not diverging, also when another loop follows the break inside of it
	{name: "loop-break-before-nested-for", good: helpers + "fn pick(stop: bool) -> int { loop { if stop { break; } for i in 0..2 { println(i); } return 7; } 0 }\nfn main() { println(pick(true)); }\n", bad: helpers + "fn pick(stop: bool) -> int { loop { if stop { break; } for i in 0..2 { println(i); } return 7; } }\nfn main() { println(pick(true)); }\n"},
	{name: "loop-break-before-nested-while", good: helpers + "fn pick(stop: bool) -> int { loop { if stop { break; } let k = 0; while k < 2 { k += 1; } return 7; } 0 }\nfn main() { println(pick(true)); }\n", bad: helpers + "fn pick(stop: bool) -> int { loop { if stop { break; } let k = 0; while k < 2 { k += 1; } return 7; } }\nfn main() { println(pick(true)); }\n"},
	{name: "loop-break-before-nested-loop-with-own-break", good: helpers + "fn pick(stop: bool) -> int { loop { if stop { break; } loop { break; } return 7; } 0 }\nfn main() { println(pick(true)); }\n", bad: helpers + "fn pick(stop: bool) -> int { loop { if stop { break; } loop { break; } return 7; } }\nfn main() { println(pick(true)); }\n"},
	// faults in the RETURN type of a function definition
	{name: "unknown-return-type", good: "type Known = int;\nfn f() -> Known { 1 }\nfn main() { println(f()); }\n", bad: "fn f() -> Missing { 1 }\nfn main() { println(f()); }\n"},
	{name: "unknown-return-type-nested", good: "type Known = int;\nfn f() -> [Known] { [1] }\nfn main() { println(f()); }\n", bad: "fn f() -> [Missing] { [1] }\nfn main() { println(f()); }\n"},
	{name: "unknown-return-type-field", good: "fn f() -> { x: int, y: str } { new { x: 1, y: \"s\" } }\nfn main() { println(f().x); }\n", bad: "fn f() -> { x: int, y: Missing } { new { x: 1, y: 2 } }\nfn main() { println(f().x); }\n"},
	{name: "duplicate-field-in-return-type", good: "fn f() -> { x: int, y: int } { new { x: 1, y: 2 } }\nfn main() { println(f().x); }\n", bad: "fn f() -> { x: int, x: int } { new { x: 1 } }\nfn main() { println(f().x); }\n"},
	{name: "unknown-return-type-of-main", good: "fn main() -> null { println(1); }\n", bad: "fn main() -> Missing { println(1); }\n"},
	{name: "duplicate-parameter-singleton-and-normal", good: "$S = { n: int };\nfn f(a: $S, b: int) -> int { a.n + b }\nfn main() { println(f(1)); }\n", bad: "$S = { n: int };\nfn f(a: $S, a: int) -> int { a.n }\nfn main() { println(f(1)); }\n"},
	{name: "duplicate-parameter-two-singletons", good: "$S = { n: int };\n$T = { m: int };\nfn f(a: $S, b: $T) -> int { a.n + b.m }\nfn main() { println(f()); }\n", bad: "$S = { n: int };\n$T = { m: int };\nfn f(a: $S, a: $T) -> int { a.n }\nfn main() { println(f()); }\n"},
	{name: "duplicate-parameter", good: "fn f(a: int, b: int) -> int { a + b }\nfn main() { println(f(1, 2)); }\n", bad: "fn f(a: int, a: int) -> int { a }\nfn main() { println(f(1, 2)); }\n"},
	{name: "duplicate-lambda-parameter", good: "fn main() { let l = fn(a: int, b: int) -> int { a + b }; println(l(1, 2)); }\n", bad: "fn main() { let l = fn(a: int, a: int) -> int { a }; println(l(1, 2)); }\n"},
	{name: "duplicate-object-type-field", good: "type T = { a: int, b: int };\nfn main() { let v: T = new { a: 1, b: 2 }; println(v.a); }\n", bad: "type T = { a: int, a: int };\nfn main() { println(1); }\n"},
	{name: "duplicate-type", good: "type T = int;\ntype U = int;\nfn main() { let v: T = 1; let w: U = 2; println(v, w); }\n", bad: "type T = int;\ntype T = str;\nfn main() { println(1); }\n"},
	{name: "non-constant-global-call", good: "let g = 1 + 2;\nfn main() { println(g); }\n", bad: helpers + "let g = ret_int();\nfn main() { println(g); }\n"},
	{name: "non-constant-global-range-bound", good: "let g = 1..5;\nfn main() { println(g); }\n", bad: helpers + "let g = ret_int()..5;\nfn main() { println(g); }\n"},
	{name: "non-constant-global-range-end", good: "let g = 1..(2 + 3);\nfn main() { println(g); }\n", bad: "let a = 1;\nlet g = 0..a;\nfn main() { println(g); }\n"},
	{name: "non-constant-global-index", good: "let g = [1, 2][1];\nfn main() { println(g); }\n", bad: "let a = 1;\nlet g = [1, 2][a];\nfn main() { println(g); }\n"},
	{name: "non-constant-global-in-list", good: "let g = [1, 2 + 3];\nfn main() { println(g); }\n", bad: helpers + "let g = [1, ret_int()];\nfn main() { println(g); }\n"},
	{name: "non-constant-global-in-object", good: "let g = new { a: 1, b: [2] };\nfn main() { println(g.a); }\n", bad: helpers + "let g = new { a: 1, b: [ret_int()] };\nfn main() { println(g.a); }\n"},
	{name: "non-constant-global-other-global", good: "let a = 1;\nlet g = 1;\nfn main() { println(g, a); }\n", bad: "let a = 1;\nlet g = a;\nfn main() { println(g); }\n"},
	{name: "non-constant-global-infix", good: "let g = 1 + 2 * 3;\nfn main() { println(g); }\n", bad: helpers + "let g = 1 + ret_int();\nfn main() { println(g); }\n"},
	{name: "non-constant-global-cast", good: "let g = 1 as float;\nfn main() { println(g); }\n", bad: helpers + "let g = ret_int() as float;\nfn main() { println(g); }\n"},
	{name: "non-constant-global-member", good: "let g = \"abc\";\nfn main() { println(g.len()); }\n", bad: "let g = \"abc\".len();\nfn main() { println(g); }\n"},
	{name: "non-constant-global-block", good: "let g = { 1 };\nfn main() { println(g); }\n", bad: helpers + "let g = { ret_int() };\nfn main() { println(g); }\n"},
	{name: "non-constant-global-option", good: "let g = ?1;\nfn main() { println(g); }\n", bad: helpers + "let g = ?ret_int();\nfn main() { println(g); }\n"},
	{name: "global-type-mismatch", good: "let g: int = 1;\nfn main() { println(g); }\n", bad: "let g: int = \"s\";\nfn main() { println(g); }\n"},
	// A function whose result comes from a `loop` that is only left through `return` needs no tail value; other loops
	// with their own `break` (before it, inside it, in an earlier function) do not change that. The bad twin's loop
	// has a break of its own, so the function can fall through without a value.
	{name: "loop-result-plain", good: "fn f() -> int { loop { return 1; } }\nfn main() { println(f()); }\n", bad: "fn f(c: bool) -> int { loop { if c { break; } return 1; } }\nfn main() { println(f(true)); }\n"},
	{name: "loop-result-after-for-break", good: "fn f(c: bool) -> int { for i in 0..3 { if c { break; } } loop { return 1; } }\nfn main() { println(f(true)); }\n", bad: "fn f(c: bool) -> int { for i in 0..3 { if c { break; } } loop { if c { break; } return 1; } }\nfn main() { println(f(true)); }\n"},
	{name: "loop-result-after-while-break", good: "fn f(c: bool) -> int { while true { if c { break; } } loop { return 1; } }\nfn main() { println(f(true)); }\n", bad: "fn f(c: bool) -> int { while true { if c { break; } } loop { if c { break; } return 1; } }\nfn main() { println(f(true)); }\n"},
	{name: "loop-result-around-for-break", good: "fn f(c: bool) -> int { loop { for i in 0..3 { if c { break; } } return 1; } }\nfn main() { println(f(true)); }\n", bad: "fn f(c: bool) -> int { loop { for i in 0..3 { if c { break; } } if c { break; } return 1; } }\nfn main() { println(f(true)); }\n"},
	{name: "loop-result-around-while-break", good: "fn f(c: bool) -> int { loop { while c { break; } return 1; } }\nfn main() { println(f(true)); }\n", bad: "fn f(c: bool) -> int { loop { while c { break; } if c { break; } return 1; } }\nfn main() { println(f(true)); }\n"},
	{name: "loop-result-around-loop-break", good: "fn f(c: bool) -> int { loop { loop { break; } return 1; } }\nfn main() { println(f(true)); }\n", bad: "fn f(c: bool) -> int { loop { loop { break; } if c { break; } return 1; } }\nfn main() { println(f(true)); }\n"},
	{name: "loop-result-after-earlier-function", good: "fn g(c: bool) { for i in 0..3 { if c { break; } } while c { break; } loop { break; } }\nfn f() -> int { loop { return 1; } }\nfn main() { g(true); println(f()); }\n", bad: "fn g(c: bool) { for i in 0..3 { if c { break; } } }\nfn f(c: bool) -> int { loop { if c { break; } return 1; } }\nfn main() { g(true); println(f(true)); }\n"},
	{name: "loop-result-after-block-return", good: "fn b(c: bool) -> int { if c { { return 1; }; } 2 }\nfn f(s: str) -> str { loop { return s; } }\nfn main() { println(b(true), f(\"x\")); }\n", bad: "fn b(c: bool) -> int { if c { { return 1; }; } 2 }\nfn f(s: str) -> str { loop { if s == \"\" { break; } return s; } }\nfn main() { println(b(true), f(\"x\")); }\n"},
	{name: "loop-result-throw-inside", good: "fn f(c: bool) -> int { loop { if c { throw(\"x\"); } return 1; } }\nfn main() { println(f(false)); }\n", bad: "fn f(c: bool) -> int { loop { if c { break; } return 1; } }\nfn main() { println(f(false)); }\n"},
	{name: "loop-result-in-lambda-break", good: "fn f() -> int { loop { let l = fn(n: int) -> int { let k = n; for i in 0..3 { if i > k { break; } } k }; return l(1); } }\nfn main() { println(f()); }\n", bad: "fn f(c: bool) -> int { loop { let l = fn(n: int) -> int { n }; if c { break; } return l(1); } }\nfn main() { println(f(true)); }\n"},
	// branches behind a diverging first branch: the first arm / branch leaves the function, the remaining ones still
	// have to agree with each other, and the construct as a whole does not diverge
	{name: "match-arms-after-returning-arm", good: "fn f(n: int) -> int { match n { 0 => { return 0; }, 1 => 1, _ => 2 } }\nfn main() { println(f(1)); }\n", bad: "fn f(n: int) -> int { match n { 0 => { return 0; }, 1 => \"one\", _ => 2 } }\nfn main() { println(f(1)); }\n"},
	{name: "match-arms-after-throwing-arm", good: "fn f(n: int) -> int { let v = match n { 0 => throw(\"x\"), 1 => 1, _ => 2 }; v }\nfn main() { println(f(1)); }\n", bad: "fn f(n: int) -> int { let v = match n { 0 => throw(\"x\"), 1 => true, _ => 2 }; v }\nfn main() { println(f(1)); }\n"},
	{name: "match-arms-after-breaking-arm", good: "fn main() { for i in 0..3 { let v = match i { 0 => { break; }, 1 => 1.5, _ => 2.5 }; println(v); } }\n", bad: "fn main() { for i in 0..3 { let v = match i { 0 => { break; }, 1 => 1.5, _ => \"s\" }; println(v); } }\n"},
	{name: "match-default-after-returning-arm", good: "fn f(n: int) -> str { match n { 0 => { return \"z\"; }, _ => \"d\" } }\nfn main() { println(f(1)); }\n", bad: "fn f(n: int) -> str { match n { 0 => { return \"z\"; }, _ => 7 } }\nfn main() { println(f(1)); }\n"},
	{name: "match-stmt-with-returning-arm-falls-through", good: "fn f(n: int) -> int { match n { 0 => { return 0; }, _ => println(\"x\") }; 1 }\nfn main() { println(f(1)); }\n", bad: "fn f(n: int) -> int { match n { 0 => { return 0; }, _ => println(\"x\") }; }\nfn main() { println(f(1)); }\n"},
	{name: "match-use-after-returning-arm", good: "fn f(n: int) -> int { let v = match n { 0 => { return 0; }, _ => 5 }; v + 1 }\nfn main() { println(f(1)); }\n", bad: "fn f(n: int) -> int { let v = match n { 0 => { return 0; }, _ => 5 }; v + \"s\" }\nfn main() { println(f(1)); }\n"},
	{name: "if-branches-after-returning-branch", good: "fn f(n: int) -> int { if n == 0 { return 0; } else if n == 1 { 1 } else { 2 } }\nfn main() { println(f(1)); }\n", bad: "fn f(n: int) -> int { if n == 0 { return 0; } else if n == 1 { \"one\" } else { 2 } }\nfn main() { println(f(1)); }\n"},
	{name: "if-use-after-returning-branch", good: "fn f(n: int) -> int { let v = if n == 0 { return 0; } else { 5 }; v + 1 }\nfn main() { println(f(1)); }\n", bad: "fn f(n: int) -> int { let v = if n == 0 { return 0; } else { 5 }; v + \"s\" }\nfn main() { println(f(1)); }\n"},
	{name: "try-catch-after-returning-body", good: "fn f(n: int) -> int { let v = try { if n == 0 { return 0; } 3 } catch e { 4 }; v + 1 }\nfn main() { println(f(1)); }\n", bad: "fn f(n: int) -> int { let v = try { if n == 0 { return 0; } 3 } catch e { \"s\" }; v + 1 }\nfn main() { println(f(1)); }\n"},
	// signatures spelt with a declared type name are checked like any other signature
	{name: "alias-parameter-argument", good: "type Celsius = float;\nfn offset(base: Celsius, d: float) -> Celsius { base + d }\nfn main() { println(offset(1.0, 2.0)); }\n", bad: "type Celsius = float;\nfn offset(base: Celsius, d: float) -> Celsius { base + d }\nfn main() { println(offset(\"warm\", 2.0)); }\n"},
	{name: "alias-return-statement", good: "type Celsius = float;\nfn f(c: bool) -> Celsius { if c { return 1.5; } 2.5 }\nfn main() { println(f(true)); }\n", bad: "type Celsius = float;\nfn f(c: bool) -> Celsius { if c { return \"hot\"; } 2.5 }\nfn main() { println(f(true)); }\n"},
	{name: "alias-result-use", good: "type Celsius = float;\nfn f() -> Celsius { 2.5 }\nfn main() { let x: float = f(); println(x + 1.0); }\n", bad: "type Celsius = float;\nfn f() -> Celsius { 2.5 }\nfn main() { let x: str = f(); println(x); }\n"},
	{name: "alias-object-parameter", good: "type P = { x: int };\nfn f(p: P) -> int { p.x }\nfn main() { println(f(new { x: 1 })); }\n", bad: "type P = { x: int };\nfn f(p: P) -> int { p.x }\nfn main() { println(f(new { y: 1 })); }\n"},
	{name: "alias-list-parameter", good: "type L = [int];\nfn f(l: L) -> int { l.len() }\nfn main() { println(f([1])); }\n", bad: "type L = [int];\nfn f(l: L) -> int { l.len() }\nfn main() { println(f([\"s\"])); }\n"},
	{name: "alias-parameter-arity", good: "type Id = int;\nfn f(a: Id, b: Id) -> Id { a + b }\nfn main() { println(f(1, 2)); }\n", bad: "type Id = int;\nfn f(a: Id, b: Id) -> Id { a + b }\nfn main() { println(f(1)); }\n"},
	{name: "alias-declared-after-function", good: "fn f(a: Id) -> Id { a + 1 }\ntype Id = int;\nfn main() { println(f(1)); }\n", bad: "fn f(a: Id) -> Id { a + 1 }\ntype Id = int;\nfn main() { println(f(\"s\")); }\n"},
	{name: "alias-function-value", good: "type Id = int;\nfn k(a: Id) -> Id { a }\nfn g(h: fn(a: int) -> int) -> int { h(1) }\nfn main() { println(g(k)); }\n", bad: "type Id = str;\nfn k(a: Id) -> Id { a }\nfn g(h: fn(a: int) -> int) -> int { h(1) }\nfn main() { println(g(k)); }\n"},
	{name: "alias-trigger-callback", good: "import trigger minute from triggers;\ntype Secs = int;\nevent fn cb(elapsed: Secs) {}\nfn main() { trigger cb at minute(1); }\n", bad: "import trigger minute from triggers;\ntype Secs = str;\nevent fn cb(elapsed: Secs) {}\nfn main() { trigger cb at minute(1); }\n"},
	// a type name declared again in an inner scope: the innermost declaration is the one a name refers to
	{name: "type-shadowed-in-function", good: "type Id = int;\nfn main() { type Id = str; let label: Id = \"device\"; println(label); }\n", bad: "type Id = int;\nfn main() { type Id = str; let label: Id = 42; println(label); }\n"},
	{name: "type-shadowed-in-block", good: "fn main() { type Id = int; let a: Id = 1; { type Id = str; let b: Id = \"s\"; println(b); } println(a); }\n", bad: "fn main() { type Id = int; let a: Id = 1; { type Id = str; let b: Id = 2; println(b); } println(a); }\n"},
	{name: "type-shadow-ends-with-its-block", good: "fn main() { type Id = int; { type Id = str; let b: Id = \"s\"; println(b); } let a: Id = 1; println(a); }\n", bad: "fn main() { type Id = int; { type Id = str; let b: Id = \"s\"; println(b); } let a: Id = \"t\"; println(a); }\n"},
	{name: "type-shadowed-object-type", good: "type P = { x: int };\nfn f() -> int { type P = { y: int }; let p: P = new { y: 1 }; p.y }\nfn main() { let q: P = new { x: 2 }; println(f(), q.x); }\n", bad: "type P = { x: int };\nfn f() -> int { type P = { y: int }; let p: P = new { x: 1 }; 1 }\nfn main() { let q: P = new { x: 2 }; println(f(), q.x); }\n"},
	// a bare `none` fits every option type; it must not make the branches that follow it fit each other
	// (not claimed: a `try` whose block is a bare none has the type of that none and needs an annotation, which is
	// then validated at run time - the analyzer's implicit-any rule, not a leak)
	{name: "list-elements-after-none-element", good: "fn main() { let l: [?int] = [none, ?1, ?2]; println(l); }\n", bad: "fn main() { let l: [?int] = [none, ?1, ?\"s\"]; println(l); }\n"},
	{name: "list-elements-after-diverging-element", good: "fn f(c: bool) -> [int] { [if c { throw(\"x\") } else { 0 }, 1, 2] }\nfn main() { println(f(false)); }\n", bad: "fn f(c: bool) -> [int] { [throw(\"x\"), 1, \"a\"] }\nfn main() { println(f(false)); }\n"},
	{name: "list-elements-after-two-none-elements", good: "fn main() { let l: [?str] = [none, none, ?\"s\", ?\"t\"]; println(l); }\n", bad: "fn main() { let l: [?str] = [none, none, ?\"s\", ?1]; println(l); }\n"},
	{name: "match-arms-after-none-arm", good: "fn f(c: int) -> ?int { match c { 0 => none, 1 => ?1, _ => ?2 } }\nfn main() { println(f(1)); }\n", bad: "fn f(c: int) -> ?int { match c { 0 => none, 1 => ?1, _ => ?\"s\" } }\nfn main() { println(f(1)); }\n"},
	{name: "match-arms-after-two-none-arms", good: "fn f(c: int) -> ?int { match c { 0 => none, 1 => none, 2 => ?1, _ => ?2 } }\nfn main() { println(f(1)); }\n", bad: "fn f(c: int) -> ?int { match c { 0 => none, 1 => none, 2 => ?1, _ => ?true } }\nfn main() { println(f(1)); }\n"},
	{name: "match-let-after-none-arm", good: "fn main() { let v = match 1 { 0 => none, 1 => ?1, _ => ?2 }; println(v); }\n", bad: "fn main() { let v = match 1 { 0 => none, 1 => ?1, _ => ?[1] }; println(v); }\n"},
	{name: "if-branches-after-none-branch", good: "fn f(c: int) -> ?int { if c == 0 { none } else if c == 1 { ?1 } else { ?2 } }\nfn main() { println(f(1)); }\n", bad: "fn f(c: int) -> ?int { if c == 0 { none } else if c == 1 { ?1 } else { ?\"s\" } }\nfn main() { println(f(1)); }\n"},
	// ... and a bare `none` in the LAST branch (which gives an if / try expression its type) must not widen the other branch
	{name: "if-none-else-branch-result", good: "fn f(c: bool) -> ?int { if c { ?1 } else { none } }\nfn main() { println(f(true)); }\n", bad: "fn f(c: bool) -> ?str { if c { ?1 } else { none } }\nfn main() { println(f(true)); }\n"},
	{name: "if-none-else-branch-let", good: "fn main() { let c = true; let v: ?int = if c { ?1 } else { none }; println(v); }\n", bad: "fn main() { let c = true; let v = if c { ?1 } else { none }; let w: ?str = v; println(w); }\n"},
	{name: "if-none-last-of-three-branches", good: "fn f(c: int) -> ?int { if c == 0 { ?1 } else if c == 1 { ?2 } else { none } }\nfn main() { println(f(1)); }\n", bad: "fn f(c: int) -> ?[int] { if c == 0 { ?1 } else if c == 1 { ?2 } else { none } }\nfn main() { println(f(1)); }\n"},
	{name: "try-none-body-result", good: "fn f(c: bool) -> ?int { try { if c { throw(\"x\"); } none } catch e { ?1 } }\nfn main() { println(f(true)); }\n", bad: "fn f(c: bool) -> ?str { try { if c { throw(\"x\"); } none } catch e { ?1 } }\nfn main() { println(f(true)); }\n"},
	{name: "try-none-handler-result", good: "fn f(c: bool) -> ?int { try { if c { throw(\"x\"); } ?1 } catch e { none } }\nfn main() { println(f(true)); }\n", bad: "fn f(c: bool) -> ?str { try { if c { throw(\"x\"); } ?1 } catch e { none } }\nfn main() { println(f(true)); }\n"},
	{name: "if-let-after-none-branch", good: "fn main() { let c = 1; let v = if c == 0 { none } else if c == 1 { ?1 } else { ?2 }; println(v); }\n", bad: "fn main() { let c = 1; let v = if c == 0 { none } else if c == 1 { ?1 } else { ?\"s\" }; println(v); }\n"},
	{name: "if-none-in-the-middle", good: "fn main() { let c = 1; let v = if c == 0 { ?1 } else if c == 1 { none } else { ?2 }; println(v); }\n", bad: "fn main() { let c = 1; let v = if c == 0 { ?1 } else if c == 1 { none } else { ?\"s\" }; println(v); }\n"},
	{name: "match-none-in-the-middle", good: "fn main() { let v = match 1 { 0 => ?1, 1 => none, _ => ?2 }; println(v); }\n", bad: "fn main() { let v = match 1 { 0 => ?1, 1 => none, _ => ?\"s\" }; println(v); }\n"},
	{name: "list-elements-after-none-element-unannotated", good: "fn main() { let l = [?1, none, ?2]; println(l); }\n", bad: "fn main() { let l = [?1, none, ?\"s\"]; println(l); }\n"},
	{name: "unwrap-or-default-type", good: "fn main() { let o: ?int = none; println(o.unwrap_or(5)); }\n", bad: "fn main() { let o: ?int = none; println(o.unwrap_or(\"s\")); }\n"},
	{name: "return-none-then-mismatch", good: "fn f(c: int) -> ?int { if c == 0 { return none; } ?1 }\nfn main() { println(f(1)); }\n", bad: "fn f(c: int) -> ?int { if c == 0 { return none; } ?\"s\" }\nfn main() { println(f(1)); }\n"},
	// function types: a function value fits a function type when parameters agree by POSITION (name and type) and the
	// result agrees; the bad twins differ in exactly one of those
	{name: "fn-type-argument", good: "fn k(a: int, b: str) -> bool { b.len() > a }\nfn g(h: fn(a: int, b: str) -> bool) -> bool { h(1, \"s\") }\nfn main() { println(g(k)); }\n", bad: "fn k(a: str, b: str) -> bool { b.len() > a.len() }\nfn g(h: fn(a: int, b: str) -> bool) -> bool { h(1, \"s\") }\nfn main() { println(g(k)); }\n"},
	{name: "fn-type-argument-second-param", good: "fn k(a: int, b: str) -> bool { b.len() > a }\nfn g(h: fn(a: int, b: str) -> bool) -> bool { h(1, \"s\") }\nfn main() { println(g(k)); }\n", bad: "fn k(a: int, b: int) -> bool { b > a }\nfn g(h: fn(a: int, b: str) -> bool) -> bool { h(1, \"s\") }\nfn main() { println(g(k)); }\n"},
	{name: "fn-type-param-order", good: "fn k(a: int, b: str) -> bool { b.len() > a }\nfn g(h: fn(a: int, b: str) -> bool) -> bool { h(1, \"s\") }\nfn main() { println(g(k)); }\n", bad: "fn k(b: str, a: int) -> bool { b.len() > a }\nfn g(h: fn(a: int, b: str) -> bool) -> bool { h(1, \"s\") }\nfn main() { println(g(k)); }\n"},
	{name: "fn-type-three-params", good: "fn k(a: int, b: str, c: float) -> int { a }\nfn g(h: fn(a: int, b: str, c: float) -> int) -> int { h(1, \"s\", 0.5) }\nfn main() { println(g(k)); }\n", bad: "fn k(a: float, b: str, c: float) -> int { 1 }\nfn g(h: fn(a: int, b: str, c: float) -> int) -> int { h(1, \"s\", 0.5) }\nfn main() { println(g(k)); }\n"},
	{name: "fn-type-three-params-middle", good: "fn k(a: int, b: str, c: float) -> int { a }\nfn g(h: fn(a: int, b: str, c: float) -> int) -> int { h(1, \"s\", 0.5) }\nfn main() { println(g(k)); }\n", bad: "fn k(a: int, b: float, c: float) -> int { a }\nfn g(h: fn(a: int, b: str, c: float) -> int) -> int { h(1, \"s\", 0.5) }\nfn main() { println(g(k)); }\n"},
	{name: "fn-type-param-count", good: "fn k(a: int, b: str) -> bool { b.len() > a }\nfn g(h: fn(a: int, b: str) -> bool) -> bool { h(1, \"s\") }\nfn main() { println(g(k)); }\n", bad: "fn k(a: int) -> bool { a > 0 }\nfn g(h: fn(a: int, b: str) -> bool) -> bool { h(1, \"s\") }\nfn main() { println(g(k)); }\n"},
	{name: "fn-type-result", good: "fn k(a: int, b: str) -> bool { b.len() > a }\nfn g(h: fn(a: int, b: str) -> bool) -> bool { h(1, \"s\") }\nfn main() { println(g(k)); }\n", bad: "fn k(a: int, b: str) -> int { b.len() + a }\nfn g(h: fn(a: int, b: str) -> bool) -> bool { h(1, \"s\") }\nfn main() { println(g(k)); }\n"},
	{name: "fn-type-let", good: "fn k(a: int, b: str) -> int { a + b.len() }\nfn main() { let h: fn(a: int, b: str) -> int = k; println(h(1, \"s\")); }\n", bad: "fn k(a: str, b: str) -> int { a.len() + b.len() }\nfn main() { let h: fn(a: int, b: str) -> int = k; println(h(1, \"s\")); }\n"},
	{name: "fn-type-let-lambda", good: "fn main() { let h: fn(a: int, b: str) -> int = fn(a: int, b: str) -> int { a + b.len() }; println(h(1, \"s\")); }\n", bad: "fn main() { let h: fn(a: int, b: str) -> int = fn(a: int, b: int) -> int { a + b }; println(h(1, \"s\")); }\n"},
	{name: "fn-type-return", good: "fn k(a: int, b: str) -> int { a + b.len() }\nfn mk() -> fn(a: int, b: str) -> int { k }\nfn main() { println(mk()(1, \"s\")); }\n", bad: "fn k(a: str, b: int) -> int { a.len() + b }\nfn mk() -> fn(a: int, b: str) -> int { k }\nfn main() { println(mk()(1, \"s\")); }\n"},
	{name: "fn-type-nested", good: "fn k(a: int, b: str) -> int { a + b.len() }\nfn ap(f: fn(a: int, b: str) -> int, x: int) -> int { f(x, \"s\") }\nfn g(h: fn(f: fn(a: int, b: str) -> int, x: int) -> int) -> int { h(k, 1) }\nfn main() { println(g(ap)); }\n", bad: "fn k(a: int, b: str) -> int { a + b.len() }\nfn ap(f: fn(a: int, b: int) -> int, x: int) -> int { f(x, 2) }\nfn g(h: fn(f: fn(a: int, b: str) -> int, x: int) -> int) -> int { h(k, 1) }\nfn main() { println(g(ap)); }\n"},
	{name: "fn-type-call-argument-of-value", good: "fn k(a: int, b: str) -> int { a + b.len() }\nfn main() { let h = k; println(h(1, \"s\")); }\n", bad: "fn k(a: int, b: str) -> int { a + b.len() }\nfn main() { let h = k; println(h(\"s\", 1)); }\n"},
	{name: "missing-main", good: "fn main() { println(1); }\n", bad: "fn other() { println(1); }\n"},
	{name: "main-with-parameters", good: "fn main() { println(1); }\n", bad: "fn main(x: int) { println(x); }\n"},
	{name: "main-with-return-type", good: "fn main() { println(1); }\n", bad: "fn main() -> int { 1 }\n"},
	{name: "no-main-required", good: "fn other() { println(1); }\n", bad: "fn other() { println(1 + \"a\"); }\n", noMain: true},
	{name: "type-alias-mismatch", good: "type T = { a: int };\nfn main() { let v: T = new { a: 1 }; println(v.a); }\n", bad: "type T = { a: int };\nfn main() { let v: T = new { a: \"s\" }; println(v.a); }\n"},
	{name: "object-missing-field", good: "type T = { a: int, b: int };\nfn main() { let v: T = new { a: 1, b: 2 }; println(v.a); }\n", bad: "type T = { a: int, b: int };\nfn main() { let v: T = new { a: 1 }; println(v.a); }\n"},
	{name: "parameter-object-type", good: "fn f(o: { a: int }) -> int { o.a }\nfn main() { println(f(new { a: 1 })); }\n", bad: "fn f(o: { a: int }) -> int { o.a }\nfn main() { println(f(new { b: 1 })); }\n"},
	{name: "function-value-type", good: "fn g(x: int) -> int { x }\nfn main() { let f = g; println(f(1)); }\n", bad: "fn g(x: int) -> int { x }\nfn main() { let f = g; println(f(\"s\")); }\n"},
	{name: "singleton-unknown", good: "$S = { n: int };\nfn f(s: $S) -> int { s.n }\nfn main() { println(f()); }\n", bad: "$S = { n: int };\nfn f(s: $T) -> int { 1 }\nfn main() { println(f()); }\n"},
	{name: "singleton-field-type", good: "$S = { n: int };\nfn f(s: $S) -> int { s.n }\nfn main() { println(f()); }\n", bad: "$S = { n: int };\nfn f(s: $S) -> str { s.n }\nfn main() { println(f()); }\n"},
	{name: "singleton-duplicate-extraction", good: "$S = { n: int };\nfn f(s: $S) -> int { s.n }\nfn main() { println(f()); }\n", bad: "$S = { n: int };\nfn f(s: $S, t: $S) -> int { s.n }\nfn main() { println(f()); }\n"},
	{name: "trigger-callback-not-event", good: "import trigger minute from triggers;\nevent fn cb(elapsed: int) {}\nfn main() { trigger cb at minute(1); }\n", bad: "import trigger minute from triggers;\nfn cb(elapsed: int) {}\nfn main() { trigger cb at minute(1); }\n"},
	{name: "trigger-callback-params", good: "import trigger minute from triggers;\nevent fn cb(elapsed: int) {}\nfn main() { trigger cb at minute(1); }\n", bad: "import trigger minute from triggers;\nevent fn cb(elapsed: str) {}\nfn main() { trigger cb at minute(1); }\n"},
	{name: "trigger-arguments", good: "import trigger minute from triggers;\nevent fn cb(elapsed: int) {}\nfn main() { trigger cb at minute(1); }\n", bad: "import trigger minute from triggers;\nevent fn cb(elapsed: int) {}\nfn main() { trigger cb at minute(\"s\"); }\n"},
	// trigger annotations: their arguments are analysed in the MODULE's scope, not in the annotated function's
	{name: "annotation-argument-type", good: "import trigger minute from triggers;\nlet period = 5;\n#[trigger in minute(period * 2)]\nevent fn tick(elapsed: int) { println(elapsed); }\nfn main() {}\n", bad: "import trigger minute from triggers;\nlet period = \"five\";\n#[trigger in minute(period)]\nevent fn tick(elapsed: int) { println(elapsed, period); }\nfn main() {}\n"},
	{name: "annotation-argument-names-parameter", good: "import trigger minute from triggers;\nlet period = 5;\n#[trigger in minute(period)]\nevent fn tick(elapsed: int) { println(elapsed); }\nfn main() {}\n", bad: "import trigger minute from triggers;\n#[trigger in minute(elapsed)]\nevent fn tick(elapsed: int) { println(elapsed); }\nfn main() {}\n"},
	{name: "annotation-argument-names-body-local", good: "import trigger minute from triggers;\nlet period = 5;\n#[trigger in minute(period)]\nevent fn tick(elapsed: int) { let period = \"five\"; println(elapsed, period); }\nfn main() {}\n", bad: "import trigger minute from triggers;\n#[trigger in minute(inner)]\nevent fn tick(elapsed: int) { let inner = 5; println(elapsed, inner); }\nfn main() {}\n"},
	{name: "annotation-callback-params", good: "import trigger minute from triggers;\n#[trigger in minute(1)]\nevent fn tick(elapsed: int) { println(elapsed); }\nfn main() {}\n", bad: "import trigger minute from triggers;\n#[trigger in minute(1)]\nevent fn tick(elapsed: str) { println(elapsed); }\nfn main() {}\n"},
	{name: "annotation-unknown-trigger", good: "import trigger minute from triggers;\n#[trigger in minute(1)]\nevent fn tick(elapsed: int) { println(elapsed); }\nfn main() {}\n", bad: "import trigger minute from triggers;\n#[trigger in nosuch(1)]\nevent fn tick(elapsed: int) { println(elapsed); }\nfn main() {}\n"},
	{name: "trigger-unknown", good: "import trigger minute from triggers;\nevent fn cb(elapsed: int) {}\nfn main() { trigger cb at minute(1); }\n", bad: "event fn cb(elapsed: int) {}\nfn main() { trigger cb at nope(1); }\n"},
	{name: "trigger-unknown-callback", good: "import trigger minute from triggers;\nevent fn cb(elapsed: int) {}\nfn main() { trigger cb at minute(1); }\n", bad: "import trigger minute from triggers;\nfn main() { trigger nope at minute(1); }\n"},
	{name: "impl-matches-template", good: implGood, bad: strings.Replace(implGood, "fn dim(s: $Lamp, percent: int) -> bool { true }", "fn dim(s: $Lamp, percent: str) -> bool { true }", 1)},
	{name: "impl-missing-method", good: implGood, bad: strings.Replace(implGood, "fn dim(s: $Lamp, percent: int) -> bool { true }", "", 1)},
	{name: "impl-extra-method", good: implGood, bad: strings.Replace(implGood, "fn dim(s: $Lamp, percent: int) -> bool { true }", "fn dim(s: $Lamp, percent: int) -> bool { true }\n    fn extra(s: $Lamp) {}", 1)},
	{name: "impl-wrong-return", good: implGood, bad: strings.Replace(implGood, "-> bool { true }", "-> int { 1 }", 1)},
	{name: "impl-unknown-capability", good: implGood, bad: strings.Replace(implGood, "with { light }", "with { nope }", 1)},
	{name: "impl-conflicting-capabilities", good: implGood, bad: strings.Replace(strings.Replace(implGood, "with { light }", "with { light, temperature }", 1), "fn dim(s: $Lamp, percent: int) -> bool { true }", "fn dim(s: $Lamp, percent: int) -> bool { true }\n    fn set_temp(s: $Lamp, celsius: float) {}", 1)},
	// a method that belongs to a capability which the block did NOT select is an extra method like any other
	{name: "impl-method-of-unselected-capability", good: implGood, bad: strings.Replace(implGood, "fn dim(s: $Lamp, percent: int) -> bool { true }", "fn dim(s: $Lamp, percent: int) -> bool { true }\n    fn set_temp(s: $Lamp, celsius: float) {}", 1)},
	{name: "impl-method-of-unselected-capability-mistyped", good: implGood, bad: strings.Replace(implGood, "fn dim(s: $Lamp, percent: int) -> bool { true }", "fn dim(s: $Lamp, percent: int) -> bool { true }\n    fn set_temp(s: $Lamp, celsius: str) -> int { 1 }", 1)},
	{name: "impl-other-capability", good: strings.Replace(strings.Replace(implGood, "with { light }", "with { temperature }", 1), "fn dim(s: $Lamp, percent: int) -> bool { true }", "fn set_temp(s: $Lamp, celsius: float) {}", 1),
		bad: strings.Replace(implGood, "with { light }", "with { temperature }", 1)},
	{name: "impl-too-few-parameters", good: implGood, bad: strings.Replace(implGood, "fn dim(s: $Lamp, percent: int)", "fn dim(s: $Lamp)", 1)},
	{name: "impl-too-many-parameters", good: implGood, bad: strings.Replace(implGood, "fn dim(s: $Lamp, percent: int)", "fn dim(s: $Lamp, percent: int, more: int)", 1)},
	{name: "impl-parameter-name", good: implGood, bad: strings.Replace(implGood, "percent: int", "pct: int", 1)},
	{name: "impl-unknown-template", good: implGood, bad: strings.Replace(implGood, "impl FooFeature", "impl NopeFeature", 1)},
	{name: "impl-no-singleton-extraction", good: implGood, bad: strings.Replace(implGood, "fn dim(s: $Lamp, percent: int)", "fn dim(percent: int)", 1)},
	{name: "import-unknown-module", good: "import assert_eq from testing;\nfn main() { assert_eq(1, 1); }\n", bad: "import x from nowhere;\nfn main() { println(1); }\n"},
	{name: "import-unknown-value", good: "import assert_eq from testing;\nfn main() { assert_eq(1, 1); }\n", bad: "import nope from testing;\nfn main() { println(1); }\n"},
	{name: "pub-main-event-ok", good: "pub fn helper() -> int { 1 }\nfn main() { println(helper()); }\n", bad: "pub fn helper() -> int { \"s\" }\nfn main() { println(helper()); }\n"},
}

const implGood = `import templ FooFeature from templates;
$Lamp = { lit: bool };
impl FooFeature with { light } for $Lamp {
    fn dim(s: $Lamp, percent: int) -> bool { true }
}
fn main() { println(1); }
`

func mkCase(text, ruleName, ctx string, noMain bool) Case {
	return Case{ProgCase: px.ProgCase{Modules: map[string]string{"main": text}, Entry: "main", Limits: sb.DefaultLimits()}, Rule: ruleName, Context: ctx, NoMain: noMain}
}

func TestTableRules(t *testing.T) {
	pk.SkipIfReplay(t)
	col := pk.NewCollector()
	var wg sync.WaitGroup
	sem := make(chan struct{}, 24)
	k := 0
	submit := func(c Case, good bool) {
		k++
		if !pk.Mine(k) {
			return
		}
		wg.Add(1)
		sem <- struct{}{}
		go func() {
			defer wg.Done()
			defer func() { <-sem }()
			pk.Eval()
			pk.Class("rule:" + c.Rule)
			pk.Class("context:" + c.Context)
			if good {
				pk.Class("direction:accept")
				col.Report(c, checkAccept(c))
			} else {
				pk.Class("direction:reject")
				pk.NonTrivial(c.Rule+"|"+c.Context, map[string]any{"rule": c.Rule, "context": c.Context, "program": c.Modules["main"]})
				col.Report(c, checkReject(c))
			}
		}()
	}
	for _, r := range rules {
		for _, ctx := range contexts {
			if r.noLoopCtx && ctx.inLoop {
				continue
			}
			submit(mkCase(program(ctx.wrap(r.good), ""), r.name, ctx.name, false), true)
			submit(mkCase(program(ctx.wrap(r.bad), ""), r.name, ctx.name, false), false)
		}
	}
	for _, r := range topRules {
		g, b := mkCase(r.good, r.name, "top-level", r.noMain), mkCase(r.bad, r.name, "top-level", r.noMain)
		if r.lib != "" {
			g.Modules["lib"], b.Modules["lib"] = r.lib, r.lib
		}
		submit(g, true)
		submit(b, false)
	}
	wg.Wait()
	col.Done(t)
	pk.Exhaustive("rule-x-context")
}

// ---------------------------------------------------------------------------------------------
// random accept direction with recorded types

func collectTypes(g *gen.Generated) map[string]string {
	out := map[string]string{}
	seen := map[string]bool{}
	for _, m := range g.Prog.Modules {
		for _, f := range m.Fns {
			for _, s := range f.Body.Stmts {
				if l, ok := s.(hs.Let); ok {
					key := f.Name + "/" + l.Name
					if seen[key] {
						delete(out, key) // shadowed at the same level: ambiguous
						continue
					}
					seen[key] = true
					t := l.X.Type()
					if l.Annot != nil {
						t = *l.Annot
					}
					out[key] = t.Canon()
				}
			}
		}
	}
	return out
}

func TestAcceptGenerated(t *testing.T) {
	pk.SkipIfReplay(t)
	cfg := gen.ModelCfg()
	cfg.Unicode = true
	cfg.CalmTry = true // so that recorded types are compared, not excused (see initDiverges)
	rapid.Check(t, func(rt *rapid.T) {
		g := gen.Program(rt, cfg)
		pk.Eval()
		c := Case{ProgCase: px.FromGenerated(g), Rule: "generated-well-typed", Context: "program", Types: collectTypes(g)}
		kinds := map[string]bool{}
		for _, ty := range c.Types {
			kinds[ty] = true
		}
		if len(kinds) >= 3 {
			pk.NonTrivial(px.ProgText(c.ProgCase), map[string]any{"program": c.Modules["main"], "types": c.Types})
		}
		pk.Judge(rt, c, checkAccept(c))
	})
}

// TestRejectMutants: single-fault mutants of generated well-typed programs. Every fault site of
// the base program (operand, argument, arity, condition, iterator, index, list element, branch,
// annotated let) is mutated on its own; the mutant must receive an error-level diagnostic.
func TestRejectMutants(t *testing.T) {
	pk.SkipIfReplay(t)
	cfg := gen.ModelCfg()
	cfg.CalmTry = true
	perBase := pk.Scale(6, 1000) // thorough: every site of the base
	rapid.Check(t, func(rt *rapid.T) {
		g := gen.Program(rt, cfg)
		sites := gen.Sites(g.Prog)
		if len(sites) == 0 {
			pk.Discard("no-fault-sites")
			return
		}
		base := Case{ProgCase: px.FromGenerated(g), Rule: "generated-well-typed", Context: "program"}
		pk.Eval()
		if f := checkAccept(base); f != nil {
			pk.Judge(rt, base, f)
			return
		}
		n := len(sites)
		if n > perBase {
			n = perBase
		}
		start := 0
		if len(sites) > n {
			start = rapid.IntRange(0, len(sites)-1).Draw(rt, "firstSite")
		}
		for k := 0; k < n; k++ {
			s := sites[(start+k*7)%len(sites)]
			s.Apply()
			c := Case{ProgCase: px.FromGenerated(g), Rule: s.Rule, Context: s.Where, Base: base.Modules[base.Entry]}
			s.Undo()
			pk.Eval()
			pk.Class("mutant-rule:" + s.Rule)
			pk.Class("mutant-context:" + s.Where)
			pk.NonTrivial(px.ProgText(c.ProgCase), map[string]any{"rule": s.Rule, "context": s.Where})
			pk.Judge(rt, c, checkReject(c))
		}
	})
}

var divergingRe = regexp.MustCompile(`\b(throw\(|return\b|break\b|continue\b)`)

// initDiverges: does the initialiser of `let <name>` (name as "fn/var" or "var") contain a
// diverging construct? The initialiser is the text from the `=` to the `;` at bracket depth 0.
func initDiverges(c px.ProgCase, name string) bool {
	if i := strings.LastIndexByte(name, '/'); i >= 0 {
		name = name[i+1:]
	}
	re := regexp.MustCompile(`\blet\s+` + regexp.QuoteMeta(name) + `\b[^=;]*=`)
	for _, text := range c.Modules {
		for _, loc := range re.FindAllStringIndex(text, -1) {
			depth, inStr := 0, false
			end := len(text)
		scan:
			for i := loc[1]; i < len(text); i++ {
				ch := text[i]
				switch {
				case inStr:
					if ch == '\\' {
						i++
					} else if ch == '"' {
						inStr = false
					}
				case ch == '"':
					inStr = true
				case ch == '(' || ch == '[' || ch == '{':
					depth++
				case ch == ')' || ch == ']' || ch == '}':
					depth--
				case ch == ';' && depth == 0:
					end = i
					break scan
				}
			}
			if divergingRe.MatchString(text[loc[1]:end]) {
				return true
			}
		}
	}
	return false
}
