package c01

import (
	"fmt"
	"testing"

	"verif/hs"
	"verif/pk"
	"verif/px"
	"verif/sb"
)

// Lexical scoping does not depend on how identifiers are spelled. A compiler that derives storage names
// from "<name><counter>" or "<module>_<name>" can confuse `x1` with the eleventh `x`, `a_b` with `a` + `b`.
// Each program declares A once and re-declares B n times in nested, sibling and loop scopes (every
// re-declaration is a new variable), then prints both: A must still hold its own value.

var namePairs = [][2]string{
	{"x1", "x"}, {"x", "x1"}, {"x10", "x"}, {"x10", "x1"}, {"x1", "x10"}, {"v11", "v1"}, {"a_0", "a_"}, {"a_b", "a"}, {"i0", "i"},
	{"x_1", "x"}, {"x1_", "x1"}, {"k2", "k"}, {"main_x", "x"}, {"_a1", "_a"}, {"n00", "n0"},
}

func namesProgram(a, b string, n int, shape string) *hs.Program {
	idA, idB := hs.Ident{Name: a, T: hs.TInt}, hs.Ident{Name: b, T: hs.TInt}
	var body []hs.Stmt
	body = append(body, hs.Let{Name: a, X: hs.IntLit{V: 111}})
	redecl := func(i int) []hs.Stmt {
		return []hs.Stmt{hs.Let{Name: b, X: hs.IntLit{V: int64(1000 + i)}},
			hs.ExprStmt{X: &hs.If{Cond: hs.Infix{Op: "<", L: idB, R: hs.IntLit{V: 0}, T: hs.TBool}, Then: &hs.Block{T: hs.TNull, Stmts: []hs.Stmt{say(idB)}}, T: hs.TNull}}}
	}
	switch shape {
	case "sibling-blocks":
		for i := 0; i < n; i++ {
			body = append(body, hs.ExprStmt{X: &hs.Block{T: hs.TNull, Stmts: redecl(i)}})
		}
	case "nested-blocks":
		var inner []hs.Stmt
		for i := n - 1; i >= 0; i-- {
			st := redecl(i)
			if inner != nil {
				st = append(st, hs.ExprStmt{X: &hs.Block{T: hs.TNull, Stmts: inner}})
			}
			inner = st
		}
		body = append(body, hs.ExprStmt{X: &hs.Block{T: hs.TNull, Stmts: inner}})
	case "same-scope":
		for i := 0; i < n; i++ {
			body = append(body, redecl(i)...)
		}
	case "loop-variables":
		for i := 0; i < n; i++ {
			body = append(body, hs.For{Var: b, Iter: hs.RangeLit{Lo: hs.IntLit{V: 0}, Hi: hs.IntLit{V: 1}}, Body: &hs.Block{T: hs.TNull,
				Stmts: []hs.Stmt{hs.ExprStmt{X: &hs.If{Cond: hs.Infix{Op: "<", L: idB, R: hs.IntLit{V: 0}, T: hs.TBool}, Then: &hs.Block{T: hs.TNull, Stmts: []hs.Stmt{say(idB)}}, T: hs.TNull}}}}})
		}
	}
	body = append(body, hs.Let{Name: b, X: hs.IntLit{V: 999}})
	body = append(body, hs.ExprStmt{X: hs.Assign{Op: "+=", L: idB, R: hs.IntLit{V: 1}}})
	body = append(body, hs.ExprStmt{X: hs.Call{Fn: hs.Ident{Name: "println"}, Args: []hs.Expr{idA, idB}, T: hs.TNull}})
	m := &hs.Module{Name: "main", Fns: []hs.FnDef{{Name: "main", Ret: hs.TNull, Body: &hs.Block{Stmts: body, T: hs.TNull}}}}
	return &hs.Program{Entry: "main", Modules: []*hs.Module{m}}
}

func TestTableNames(t *testing.T) {
	pk.SkipIfReplay(t)
	col := pk.NewCollector()
	k := 0
	for _, p := range namePairs {
		for _, shape := range []string{"sibling-blocks", "nested-blocks", "same-scope", "loop-variables"} {
			for _, n := range []int{1, 2, 9, 10, 11, 12, 101} {
				if shape == "nested-blocks" && n > 12 {
					continue
				}
				k++
				if !pk.Mine(k) {
					continue
				}
				g := mkProg(nil)
				g.Prog = namesProgram(p[0], p[1], n, shape)
				tr, ok := px.Model(g)
				if !ok {
					t.Fatalf("names table program outside the model: %s", tr.Outcome.Message)
				}
				c := px.FromGenerated(g)
				c.Expect = px.ExpOf(tr)
				c.Note = fmt.Sprintf("names %s/%s x%d %s", p[0], p[1], n, shape)
				pk.Eval()
				pk.NonTrivial(c.Note, c.Note)
				f := checkProgram(c)
				if f != nil {
					f.Sig = "names:" + f.Sig
				}
				col.Report(c, f)
			}
		}
	}
	pk.Exhaustive("table-names")
	col.Done(t)
}

// Trigger annotations are host-visible effects as well ("triggers registered with their arguments"): every
// annotation item of a function is handed to the host with the values of ITS argument expressions.
var annotationRows = []struct {
	name, text string
	want       []string
}{
	{"one", "import trigger minute from triggers;\n#[trigger at minute(5)]\nevent fn tick(_e: int) { println(\"cb\"); }\nfn main() { println(\"main\"); }\n",
		[]string{"main.tick#0: trigger at minute [5] cb=tick"}},
	{"two-on-one-function", "import trigger minute from triggers;\n#[trigger at minute(6), trigger at minute(7)]\nevent fn tick(_e: int) { println(\"cb\"); }\nfn main() { println(\"main\"); }\n",
		[]string{"main.tick#0: trigger at minute [6] cb=tick", "main.tick#1: trigger at minute [7] cb=tick"}},
	{"three-with-expressions", "import trigger minute from triggers;\nlet foo = 2;\n#[trigger at minute(foo * 20 + 1), trigger at minute(foo), trigger at minute(foo - 3)]\nevent fn tick(_e: int) { println(\"cb\"); }\nfn main() { println(\"main\"); }\n",
		[]string{"main.tick#0: trigger at minute [41] cb=tick", "main.tick#1: trigger at minute [2] cb=tick", "main.tick#2: trigger at minute [-1] cb=tick"}},
	{"two-functions", "import trigger minute from triggers;\n#[trigger at minute(1)]\nevent fn a(_e: int) {}\n#[trigger at minute(2), trigger at minute(3)]\nevent fn b(_e: int) {}\nfn main() { println(\"main\"); }\n",
		[]string{"main.a#0: trigger at minute [1] cb=a", "main.b#0: trigger at minute [2] cb=b", "main.b#1: trigger at minute [3] cb=b"}},
	{"names-that-concatenate-alike", "import trigger minute from triggers;\n#[trigger at minute(10)]\nevent fn t(_e: int) {}\n#[trigger at minute(20)]\nevent fn t_0(_e: int) {}\nfn main() { println(\"main\"); }\n",
		[]string{"main.t#0: trigger at minute [10] cb=t", "main.t_0#0: trigger at minute [20] cb=t_0"}},
}

func TestTableAnnotations(t *testing.T) {
	pk.SkipIfReplay(t)
	col := pk.NewCollector()
	for k, r := range annotationRows {
		if !pk.Mine(k) {
			continue
		}
		c := px.ProgCase{Modules: map[string]string{"main": r.text}, Entry: "main", Limits: sb.DefaultLimits(), Note: "annotations " + r.name,
			Expect: &px.Exp{Writes: []string{"main\n"}, Outcome: hs.Outcome{Class: "ok"}, Annotations: r.want}}
		pk.Eval()
		pk.NonTrivial(c.Note, c.Note)
		f := checkProgram(c)
		if f != nil {
			f.Sig = "annotations:" + f.Sig
		}
		col.Report(c, f)
	}
	pk.Exhaustive("table-annotations")
	col.Done(t)
}
