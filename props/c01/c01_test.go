package c01

import (
	"fmt"
	"testing"

	"pgregory.net/rapid"

	"verif/gen"
	"verif/pk"
	"verif/px"
)

func TestMain(m *testing.M) { pk.Main(m) }

func modelCfg() gen.Cfg {
	c := gen.ModelCfg()
	for _, g := range []string{"mod-zero", "pow-large", "match-expr", "str-index", "range-display", "range-members", "trigger", "singleton", "lambda", "try-expr", "uncaught-throw", "match-stmt", "assign-elem", "exit-pending"} {
		if pk.GateOpen(g) {
			c.Off[g] = true
		}
	}
	return c
}

// checkProgram: compiled execution on the VM must reproduce the reference trace.
func checkProgram(c px.ProgCase) *pk.Failure {
	resp := px.Pool().Exec(c.Request("vm"))
	if f := px.SandboxFailure("program", resp); f != nil {
		return f
	}
	if resp.Inconclusive {
		pk.Inconclusive()
		return nil
	}
	if !resp.Accepted {
		msg := ""
		for _, d := range append(resp.SyntaxErrors, resp.ErrorDiags()...) {
			msg += fmt.Sprintf("%s: %s @%d:%d\n", d.Level, d.Message, d.Span.Start.Line, d.Span.Start.Column)
		}
		return pk.Failf("program", "generator-rejected", "analyzer rejected a generated program:\n%s\n%s", msg, px.ProgText(c))
	}
	pk.Extra("programs", 1)
	pk.Extra("comparisons", 1)
	if cls, msg := px.CompareRun(c.Expect, resp.Run("vm")); cls != "" {
		return pk.Failf("program", "diff:"+cls, "%s\n%s", msg, px.ProgText(c))
	}
	return nil
}

func init() { pk.Reg("program", checkProgram) }

func TestReplay(t *testing.T) { pk.ReplayTest(t) }

func TestProgram(t *testing.T) {
	pk.SkipIfReplay(t)
	cfg := modelCfg()
	rapid.Check(t, func(rt *rapid.T) {
		g := gen.Program(rt, cfg)
		tr, ok := px.Model(g)
		pk.Eval()
		if !ok {
			pk.Discard("outside-model:" + tr.Outcome.Message)
			return
		}
		if tr.Feat["hazard:slot-operand"] > 0 && pk.GateOpen("slot-operand") {
			pk.Gate("slot-operand")
			return
		}
		c := px.FromGenerated(g)
		c.Expect = px.ExpOf(tr)
		for k := range tr.Feat {
			pk.Class("exec:" + k)
		}
		pk.Class("outcome:" + tr.Outcome.Class)
		nt := tr.Steps >= 8 && (len(tr.Writes) > 0 || tr.Outcome.Class != "ok")
		if nt {
			pk.NonTrivial(px.ProgText(c), map[string]any{"program": c.Modules["main"], "expect": c.Expect})
		}
		pk.Judge(rt, c, checkProgram(c))
	})
}
