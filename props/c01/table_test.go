package c01

import (
	"fmt"
	"sync"
	"testing"

	"verif/gen"
	"verif/hs"
	"verif/pk"
	"verif/px"
)

var intVals = []int64{-9223372036854775808, -9223372036854775807, -4611686018427387904, -65, -64, -63, -2, -1, 0, 1, 2, 3, 62, 63, 64, 65, 2147483648, 9007199254740993, 4611686018427387904, 9223372036854775806, 9223372036854775807}
var floatVals = []float64{0, 0.5, -0.5, 0.1, 1, -1, 1.5, 2, 1e6, 123456789.125, 1e15, -1e15, 0.001}
var strVals = []string{"", "a", "ab", "A b", "q\"", "é", "\n"}
var boolVals = []bool{true, false}

var intOps = []string{"+", "-", "*", "/", "%", "**", "<<", ">>", "&", "|", "^", "==", "!=", "<", ">", "<=", ">="}
var floatOps = []string{"+", "-", "*", "/", "==", "!=", "<", ">", "<=", ">="}
var boolOps = []string{"&&", "||", "&", "|", "^", "==", "!="}
var strOps = []string{"+", "==", "!="}

func resT(op string, t hs.Type) hs.Type {
	switch op {
	case "==", "!=", "<", ">", "<=", ">=", "&&", "||":
		return hs.TBool
	}
	return t
}

type opCase struct {
	stmts []hs.Stmt
	key   string
}

func say(x hs.Expr) hs.Stmt {
	return hs.ExprStmt{X: hs.Call{Fn: hs.Ident{Name: "println"}, Args: []hs.Expr{x}, T: hs.TNull}}
}

// every operator x operand pair, once on literals and once through variables
func operatorCases() []opCase {
	var out []opCase
	n := 0
	add := func(key string, op string, t hs.Type, l, r hs.Expr) {
		n++
		rt := resT(op, t)
		lv, rv := fmt.Sprintf("x%d", n), fmt.Sprintf("y%d", n)
		out = append(out, opCase{key: key, stmts: []hs.Stmt{
			say(hs.Infix{Op: op, L: l, R: r, T: rt}),
			hs.Let{Name: lv, X: l}, hs.Let{Name: rv, X: r},
			say(hs.Infix{Op: op, L: hs.Ident{Name: lv, T: t}, R: hs.Ident{Name: rv, T: t}, T: rt}),
		}})
		// compound assignment for the operators that have one
		switch op {
		case "+", "-", "*", "/", "%", "**", "<<", ">>", "&", "|", "^":
			if t.K == hs.KBool && !(op == "&" || op == "|" || op == "^") {
				return
			}
			if t.K == hs.KStr && op != "+" {
				return
			}
			if t.K == hs.KFloat && (op == "/" || op == "%" || op == "**" || op == "<<" || op == ">>" || op == "&" || op == "|" || op == "^") {
				return
			}
			cv := fmt.Sprintf("c%d", n)
			out[len(out)-1].stmts = append(out[len(out)-1].stmts,
				hs.Let{Name: cv, X: l},
				hs.ExprStmt{X: hs.Assign{Op: op + "=", L: hs.Ident{Name: cv, T: t}, R: r}},
				say(hs.Ident{Name: cv, T: t}))
		}
	}
	for _, op := range intOps {
		for _, a := range intVals {
			for _, b := range intVals {
				if (op == "<<" || op == ">>" || op == "**") && (b < 0 || b > 70) {
					continue // negative / huge counts: outside the model (no reference value)
				}
				add(fmt.Sprintf("int %d %s %d", a, op, b), op, hs.TInt, hs.IntLit{V: a}, hs.IntLit{V: b})
			}
		}
	}
	for _, op := range floatOps {
		for _, a := range floatVals {
			for _, b := range floatVals {
				if op == "/" && b == 0 {
					continue // float division by zero: the backends raise ValueError, IEEE says Inf — not asserted
				}
				add(fmt.Sprintf("float %v %s %v", a, op, b), op, hs.TFloat, hs.FloatLit{V: a}, hs.FloatLit{V: b})
			}
		}
	}
	for _, op := range boolOps {
		for _, a := range boolVals {
			for _, b := range boolVals {
				add(fmt.Sprintf("bool %v %s %v", a, op, b), op, hs.TBool, hs.BoolLit{V: a}, hs.BoolLit{V: b})
			}
		}
	}
	for _, op := range strOps {
		for _, a := range strVals {
			for _, b := range strVals {
				add(fmt.Sprintf("str %q %s %q", a, op, b), op, hs.TStr, hs.StrLit{V: a}, hs.StrLit{V: b})
			}
		}
	}
	// prefix operators
	for _, a := range intVals {
		n++
		v := fmt.Sprintf("p%d", n)
		out = append(out, opCase{key: fmt.Sprintf("prefix int %d", a), stmts: []hs.Stmt{
			say(hs.Prefix{Op: "-", X: hs.Paren{X: hs.IntLit{V: a}}, T: hs.TInt}), say(hs.Prefix{Op: "!", X: hs.Paren{X: hs.IntLit{V: a}}, T: hs.TInt}),
			hs.Let{Name: v, X: hs.IntLit{V: a}}, say(hs.Prefix{Op: "-", X: hs.Ident{Name: v, T: hs.TInt}, T: hs.TInt}), say(hs.Prefix{Op: "?", X: hs.Ident{Name: v, T: hs.TInt}, T: hs.TOpt(hs.TInt)}),
		}})
	}
	// casts between scalars
	for _, a := range intVals {
		out = append(out, opCase{key: fmt.Sprintf("cast int %d", a), stmts: []hs.Stmt{
			say(hs.Cast{X: hs.Paren{X: hs.IntLit{V: a}}, T: hs.TBool}), say(hs.Cast{X: hs.Paren{X: hs.IntLit{V: a}}, T: hs.TInt}),
		}})
		if a > -9007199254740992 && a < 9007199254740992 {
			out = append(out, opCase{key: fmt.Sprintf("cast int->float %d", a), stmts: []hs.Stmt{say(hs.Cast{X: hs.Paren{X: hs.IntLit{V: a}}, T: hs.TFloat})}})
		}
	}
	for _, b := range boolVals {
		out = append(out, opCase{key: fmt.Sprintf("cast bool %v", b), stmts: []hs.Stmt{
			say(hs.Cast{X: hs.BoolLit{V: b}, T: hs.TInt}), say(hs.Cast{X: hs.BoolLit{V: b}, T: hs.TFloat}), say(hs.Cast{X: hs.BoolLit{V: b}, T: hs.TBool}),
		}})
	}
	for _, f := range []float64{0, 1, -1, 2, 1e6, -1e6, 123456789} {
		out = append(out, opCase{key: fmt.Sprintf("cast float %v", f), stmts: []hs.Stmt{
			say(hs.Cast{X: hs.Paren{X: hs.FloatLit{V: f}}, T: hs.TInt}), say(hs.Cast{X: hs.Paren{X: hs.FloatLit{V: f}}, T: hs.TBool}),
		}})
	}
	return out
}

func mkProg(stmts []hs.Stmt) *gen.Generated {
	m := &hs.Module{Name: "main", Fns: []hs.FnDef{{Name: "main", Ret: hs.TNull, Body: &hs.Block{Stmts: stmts, T: hs.TNull}}}}
	return &gen.Generated{Prog: &hs.Program{Entry: "main", Modules: []*hs.Module{m}}}
}

// TestTableOperators: exhaustive operator x boundary-operand table against the reference semantics.
func TestTableOperators(t *testing.T) {
	pk.SkipIfReplay(t)
	cases := operatorCases()
	// batch: cases whose reference run is fatal or unsupported go alone, the rest 40 per program
	type batch struct {
		stmts []hs.Stmt
		keys  []string
	}
	var batches []batch
	cur := batch{}
	for _, c := range cases {
		tr, ok := px.Model(mkProg(c.stmts))
		if !ok {
			pk.Discard("outside-model:" + tr.Outcome.Message)
			continue
		}
		if tr.Outcome.Class != "ok" {
			batches = append(batches, batch{stmts: c.stmts, keys: []string{c.key}})
			continue
		}
		cur.stmts = append(cur.stmts, c.stmts...)
		cur.keys = append(cur.keys, c.key)
		if len(cur.keys) >= 40 {
			batches = append(batches, cur)
			cur = batch{}
		}
	}
	if len(cur.keys) > 0 {
		batches = append(batches, cur)
	}
	col := pk.NewCollector()
	var wg sync.WaitGroup
	sem := make(chan struct{}, 24)
	for k, b := range batches {
		if !pk.Mine(k) {
			continue
		}
		wg.Add(1)
		sem <- struct{}{}
		go func(b batch) {
			defer wg.Done()
			defer func() { <-sem }()
			g := mkProg(b.stmts)
			tr, _ := px.Model(g)
			c := px.FromGenerated(g)
			c.Expect = px.ExpOf(tr)
			pk.EvalN(len(b.keys))
			for _, key := range b.keys {
				pk.NonTrivial(key, key)
			}
			pk.Class("outcome:" + tr.Outcome.Class)
			f := checkProgram(c)
			if f != nil && len(b.keys) > 1 {
				f.Msg = fmt.Sprintf("(batch of %d operator cases, first %q)\n%s", len(b.keys), b.keys[0], f.Msg)
			}
			col.Report(c, f)
		}(b)
	}
	wg.Wait()
	col.Done(t)
	pk.Exhaustive("operator-x-boundary-operands")
}
