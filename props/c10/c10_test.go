package c10

import (
	"fmt"
	"strings"
	"sync"
	"testing"

	"pgregory.net/rapid"

	"verif/pk"
	"verif/px"
	"verif/sb"
)

func TestMain(m *testing.M) { pk.Main(m) }

type Prog struct {
	Name    string
	Text    string
	VMOnly  bool
	Cores   int // cores alive at most (1 = single threaded)
	Endless bool
}

var progs = []Prog{
	{Name: "empty-loop", Text: `fn main() { loop {} }`, Cores: 1, Endless: true},
	{Name: "counting-loop", Text: `fn main() { let i = 0; while i < 2000 { i += 1; } println("done", i); }`, Cores: 1},
	{Name: "printing-loop", Text: `fn main() { let i = 0; loop { i += 1; println("tick", i); } }`, Cores: 1, Endless: true},
	// loops with nothing (or next to nothing) in them: every loop form polls by itself, not through its body
	{Name: "empty-while-true", Text: `fn main() { while true {} }`, Cores: 1, Endless: true},
	{Name: "empty-while-flag", Text: `fn main() { let go_on = true; while go_on {} }`, Cores: 1, Endless: true},
	{Name: "while-true-null-body", Text: `fn main() { while true { null } }`, Cores: 1, Endless: true},
	{Name: "empty-for-huge-range", Text: `fn main() { for i in 0..4000000000000000 {} }`, Cores: 1, Endless: true},
	{Name: "for-huge-range-leaf-body", Text: `fn main() { for i in 0..4000000000000000 { null } }`, Cores: 1, Endless: true},
	{Name: "empty-for-in-function", Text: `fn spin() { for i in 0..4000000000000000 {} }
fn main() { println("go"); spin(); }`, Cores: 1, Endless: true},
	{Name: "call-loop", Text: `fn f(x: int) -> int { x + 1 }
fn main() { let i = 0; while i < 600 { i = f(i); } println("done", i); }`, Cores: 1},
	{Name: "deep-calls", Text: `fn d(n: int) -> int { if n == 0 { 0 } else { 1 + d(n - 1) } }
fn main() { let i = 0; while i < 20 { i += 1; println("depth", d(40)); } }`, Cores: 1},
	{Name: "throw-catch-cycle", Text: `fn main() { let i = 0; loop { i += 1; try { throw("x"); } catch e { let s = e.message + "y"; if i < 0 { println(s); } } } }`, Cores: 1, Endless: true},
	{Name: "handler-loop", Text: `fn main() { try { throw("go"); } catch e { let i = 0; loop { i += 1; if i < 0 { println(e.message); } } } }`, Cores: 1, Endless: true},
	{Name: "cross-frame-throws", Text: `fn t(n: int) -> int { if n > 0 { throw("deep"); } n }
fn main() { let i = 0; while i < 300 { i += 1; try { println(t(i)); } catch e { let m = e.message; } } println("done"); }`, Cores: 1},
	{Name: "for-range", Text: `fn main() { let s = 0; for i in 0..3000 { s += i; } println(s); }`, Cores: 1},
	{Name: "for-list-nested", Text: `fn main() { let l = [1, 2, 3, 4, 5, 6, 7, 8]; let s = 0; for a in l { for b in l { for c in l { s += a * b * c; } } } println(s); }`, Cores: 1},
	{Name: "match-loop", Text: `fn main() { let i = 0; let s = 0; while i < 800 { i += 1; s += match i % 3 { 0 => 1, 1 => 2, _ => 3 }; } println(s); }`, Cores: 1},
	{Name: "string-building", Text: `fn main() { let s = ""; let i = 0; while i < 300 { i += 1; s = (s + i.to_string()).replace("1", "a"); } println(s.len()); }`, Cores: 1},
	{Name: "list-growth", Text: `fn main() { let l = [0]; let i = 0; while i < 500 { i += 1; l.push(i); } println(l.len()); }`, Cores: 1},
	{Name: "sleep", Text: `fn main() { println("a"); time.sleep(0.04); println("b"); time.sleep(0.04); println("c"); }`, Cores: 1},
	{Name: "finite-short", Text: `fn main() { println("x"); println("y"); }`, Cores: 1},
	{Name: "lambda-loop", Text: `fn main() { let f = fn(x: int) -> int { x * 2 }; let i = 0; let s = 0; while i < 500 { i += 1; s = f(i); } println(s); }`, Cores: 1},
	{Name: "nested-try-loop", Text: `fn main() { let i = 0; while i < 300 { i += 1; try { try { if i % 2 == 0 { throw("a"); } } catch e { throw(e.message + "b"); } } catch e2 { let q = e2.message; } } println("done"); }`, Cores: 1},
	{Name: "spawn-1-endless", Text: `fn w(n: int) { loop { let x = n + 1; } }
fn main() { spawn w(1); loop { let y = 2; } }`, VMOnly: true, Cores: 2, Endless: true},
	{Name: "spawn-3-endless", Text: `fn w(n: int) { loop { let x = n + 1; } }
fn main() { spawn w(1); spawn w(2); spawn w(3); loop { let y = 2; } }`, VMOnly: true, Cores: 4, Endless: true},
	{Name: "spawn-finite-main-waits", Text: `fn w(n: int) { let i = 0; while i < 400 { i += 1; } println("w", n); }
fn main() { spawn w(1); spawn w(2); let i = 0; while i < 400 { i += 1; } println("main"); }`, VMOnly: true, Cores: 3},
	{Name: "spawn-6-printing", Text: `fn w(n: int) { let i = 0; loop { i += 1; if i % 50 == 0 { println("w", n, i); } } }
fn main() { spawn w(1); spawn w(2); spawn w(3); spawn w(4); spawn w(5); spawn w(6); loop { let y = 2; } }`, VMOnly: true, Cores: 7, Endless: true},
	// endless chains of short-lived cores: every core ends after a handful of instructions, the program as
	// a whole never does; only cancellation stops it
	{Name: "spawn-relay", Text: `fn relay(n: int) { spawn relay(n + 1); }
fn main() { spawn relay(0); }`, VMOnly: true, Cores: 2, Endless: true},
	{Name: "spawn-relay-main-loops", Text: `fn relay(n: int) { spawn relay(n + 1); }
fn main() { spawn relay(0); loop { let y = 2; } }`, VMOnly: true, Cores: 3, Endless: true},
	{Name: "spawn-relay-two-chains", Text: `fn relay(n: int, tag: str) { let m = n + 1; spawn relay(m, tag); }
fn main() { spawn relay(0, "a"); spawn relay(0, "b"); }`, VMOnly: true, Cores: 3, Endless: true},
	{Name: "spawn-relay-printing", Text: `fn relay(n: int) { if n % 40 == 0 { println("r", n); } spawn relay(n + 1); }
fn main() { spawn relay(1); }`, VMOnly: true, Cores: 2, Endless: true},
	{Name: "spawn-sleepers", Text: `fn w(n: int) { time.sleep(0.05); println("w", n); }
fn main() { spawn w(1); spawn w(2); time.sleep(0.05); println("main"); }`, VMOnly: true, Cores: 3},
}

type Case struct {
	Prog    string
	Text    string
	Backend string
	K       int64 // cancel becomes visible at the K-th poll
	Cores   int
	TotalPolls int64 // polls of the uncancelled (or capped) dry run; informational
}

const endlessCap = 240

func request(c Case, k, cap int64) *sb.Request {
	return &sb.Request{Op: "run", Modules: map[string]string{"main": c.Text}, Entry: "main", Backends: []string{c.Backend},
		Limits: sb.DefaultLimits(), CancelAt: k, PollCap: cap}
}

// checkCancel: cancelling at the K-th poll must stop the run promptly and leave nothing behind.
func checkCancel(c Case) *pk.Failure {
	resp := px.Pool().Exec(request(c, c.K, 0))
	id := fmt.Sprintf("%s on %s, cancel at poll %d", c.Prog, c.Backend, c.K)
	if f := px.SandboxFailure("cancel", resp); f != nil {
		f.Sig = c.Backend + " " + f.Sig
		f.Msg = id + "\n" + c.Text + "\n" + f.Msg
		return f
	}
	if resp.Inconclusive {
		pk.Inconclusive()
		return nil
	}
	if !resp.Accepted {
		return pk.Failf("cancel", "program-rejected", "%s: program rejected: %+v %+v", id, resp.SyntaxErrors, resp.ErrorDiags())
	}
	r := resp.Run(c.Backend)
	if r == nil || r.InitPanic != "" || r.CompileErr != "" {
		return pk.Failf("cancel", "init", "%s: %+v", id, r)
	}
	cancelled := r.Polls >= c.K
	if cancelled {
		if r.Outcome.Class != "terminated" {
			// the program may legitimately end by itself only if its own last poll was before K
			return pk.Failf("cancel", c.Backend+" not-terminated:"+r.Outcome.Class, "%s: cancellation was visible from poll %d (run made %d polls) but the outcome is %+v\n%s", id, c.K, r.Polls, r.Outcome, c.Text)
		}
		bound := int64(c.Cores + 2)
		if r.PollsAfterCancel > bound {
			return pk.Failf("cancel", c.Backend+" polls-after-cancel", "%s: %d polls after the cancelling one (bound %d): execution continued\n%s", id, r.PollsAfterCancel, bound, c.Text)
		}
		wbound := 2 * c.Cores
		if r.WritesAfterCancel > wbound {
			return pk.Failf("cancel", c.Backend+" writes-after-cancel", "%s: %d writes after cancellation (bound %d)\n%s", id, r.WritesAfterCancel, wbound, c.Text)
		}
		pk.Class("terminated")
	} else {
		// finished before the K-th poll: own outcome
		if r.Outcome.Class == "terminated" {
			return pk.Failf("cancel", c.Backend+" spurious-termination", "%s: terminated although only %d polls happened\n%s", id, r.Polls, c.Text)
		}
		pk.Class("finished-first")
	}
	if c.Backend == "vm" {
		// The cores lock must be free. The list of cores must be empty after a run that finished by itself; after
		// a cancellation a core that was inside its quantum when Wait() emptied the list can still register a
		// freshly spawned core (it dies at its first poll: the goroutine check below sees to that), so the
		// length of the list is not judged then.
		cancelled := r.Outcome.Class == "terminated"
		if !r.Residue.LockFree || (r.Residue.Cores != 0 && !cancelled) {
			return pk.Failf("cancel", "vm cores-left", "%s: after Wait() cores=%d lockFree=%v\n%s", id, r.Residue.Cores, r.Residue.LockFree, c.Text)
		}
		if r.Residue.Cores != 0 {
			pk.Extra("late-registered-cores-after-cancel", 1)
		}
	}
	if r.GoroutinesAfter > r.GoroutinesBefore {
		return pk.Failf("cancel", c.Backend+" goroutines-left", "%s: %d goroutines before, %d after return (a core is still running or blocked)\n%s", id, r.GoroutinesBefore, r.GoroutinesAfter, c.Text)
	}
	// After a cancellation a core may still be inside its current quantum when the wait returns
	// (bounded: at most one more host write per live core is tolerated); without cancellation
	// nothing may arrive after the wait returned.
	lateBound := 0
	if cancelled {
		lateBound = 2 * c.Cores
	}
	if r.LateWrites > lateBound {
		return pk.Failf("cancel", c.Backend+" late-writes", "%s: %d writes arrived after the wait returned (bound %d)\n%s", id, r.LateWrites, lateBound, c.Text)
	}
	return nil
}

func init() { pk.Reg("cancel", checkCancel) }

func TestReplay(t *testing.T) { pk.ReplayTest(t) }

func dryRun(p Prog, backend string) (int64, *pk.Failure) {
	c := Case{Prog: p.Name, Text: p.Text, Backend: backend, Cores: p.Cores}
	cap := int64(0)
	if p.Endless {
		cap = endlessCap
	}
	resp := px.Pool().Exec(request(c, 0, cap))
	if f := px.SandboxFailure("cancel", resp); f != nil {
		f.Sig = backend + " dry-run " + f.Sig
		f.Msg = p.Name + "\n" + p.Text + "\n" + f.Msg
		return 0, f
	}
	if !resp.Accepted {
		return 0, pk.Failf("cancel", "program-rejected", "%s rejected: %+v %+v", p.Name, resp.SyntaxErrors, resp.ErrorDiags())
	}
	r := resp.Run(backend)
	if p.Endless && r.Outcome.Class != "terminated" {
		return 0, pk.Failf("cancel", backend+" endless-not-terminated", "%s: endless program with poll cap %d ended as %+v", p.Name, cap, r.Outcome)
	}
	if !p.Endless && r.Outcome.Class != "ok" {
		return 0, pk.Failf("cancel", backend+" dry-run-outcome", "%s: uncancelled run ended as %+v", p.Name, r.Outcome)
	}
	return r.Polls, nil
}

func TestTableSweep(t *testing.T) {
	pk.SkipIfReplay(t)
	col := pk.NewCollector()
	var wg sync.WaitGroup
	sem := make(chan struct{}, 16)
	idx := 0
	full := pk.Scale(120, 400)
	for _, p := range progs {
		for _, backend := range []string{"vm", "tree"} {
			if p.VMOnly && backend == "tree" {
				continue
			}
			idx++
			if !pk.Mine(idx) {
				continue
			}
			total, f := dryRun(p, backend)
			if f != nil {
				col.Report(Case{Prog: p.Name, Text: p.Text, Backend: backend}, f)
				continue
			}
			pk.Extra("polls-"+backend+"-"+p.Name, int(total))
			var ks []int64
			if total <= int64(full) {
				for k := int64(1); k <= total; k++ {
					ks = append(ks, k)
				}
				pk.Class("full-sweep")
			} else {
				// every k up to 60, then a stratified sample, then the last 20
				for k := int64(1); k <= 60; k++ {
					ks = append(ks, k)
				}
				step := (total - 80) / int64(full-80)
				if step < 1 {
					step = 1
				}
				for k := int64(61); k < total-20; k += step {
					ks = append(ks, k)
				}
				for k := total - 20; k <= total; k++ {
					ks = append(ks, k)
				}
				pk.Class("sampled-sweep")
			}
			ks = append(ks, total+1, total+5) // beyond completion: the program's own outcome
			for _, k := range ks {
				wg.Add(1)
				sem <- struct{}{}
				go func(p Prog, backend string, k, total int64) {
					defer wg.Done()
					defer func() { <-sem }()
					c := Case{Prog: p.Name, Text: p.Text, Backend: backend, K: k, Cores: p.Cores, TotalPolls: total}
					if p.Endless && k > total {
						return
					}
					pk.Eval()
					if k > 1 && k < total {
						pk.NonTrivial(fmt.Sprintf("%s|%s|%d", p.Name, backend, k), map[string]any{"program": p.Name, "backend": backend, "cancel_at_poll": k, "of": total})
					}
					col.Report(c, checkCancel(c))
				}(p, backend, k, total)
			}
		}
	}
	wg.Wait()
	col.Done(t)
	pk.Exhaustive("sweep-small-K")
}

// TestRandomPrograms: generated loop programs with random structure, random cancel points.
func TestRandomPrograms(t *testing.T) {
	pk.SkipIfReplay(t)
	rapid.Check(t, func(rt *rapid.T) {
		var b strings.Builder
		nf := rapid.IntRange(0, 2).Draw(rt, "nf")
		for i := 0; i < nf; i++ {
			fmt.Fprintf(&b, "fn f%d(x: int) -> int { let i = 0; while i < %d { i += 1; } x + i }\n", i, rapid.IntRange(0, 60).Draw(rt, "inner"))
		}
		b.WriteString("fn main() {\n    let acc = 0;\n")
		depth := rapid.IntRange(1, 3).Draw(rt, "depth")
		for d := 0; d < depth; d++ {
			kind := rapid.IntRange(0, 3).Draw(rt, "kind")
			switch kind {
			case 0:
				fmt.Fprintf(&b, "%sfor i%d in 0..%d {\n", strings.Repeat("    ", d+1), d, rapid.IntRange(1, 12).Draw(rt, "n"))
			case 1:
				fmt.Fprintf(&b, "%slet c%d = 0; while c%d < %d { c%d += 1;\n", strings.Repeat("    ", d+1), d, d, rapid.IntRange(1, 12).Draw(rt, "n"), d)
			case 2:
				fmt.Fprintf(&b, "%slet c%d = 0; loop { c%d += 1; if c%d > %d { break; }\n", strings.Repeat("    ", d+1), d, d, d, rapid.IntRange(1, 12).Draw(rt, "n"))
			default:
				fmt.Fprintf(&b, "%sfor i%d in [1, 2, 3] {\n", strings.Repeat("    ", d+1), d)
			}
		}
		ind := strings.Repeat("    ", depth+1)
		switch rapid.IntRange(0, 3).Draw(rt, "body") {
		case 0:
			fmt.Fprintf(&b, "%sacc += 1;\n", ind)
		case 1:
			fmt.Fprintf(&b, "%stry { if acc %% 2 == 0 { throw(\"e\"); } acc += 1; } catch e { acc += 2; }\n", ind)
		case 2:
			if nf > 0 {
				fmt.Fprintf(&b, "%sacc = f0(acc);\n", ind)
			} else {
				fmt.Fprintf(&b, "%sacc += 3;\n", ind)
			}
		default:
			fmt.Fprintf(&b, "%sprintln(acc); acc += 1;\n", ind)
		}
		for d := depth - 1; d >= 0; d-- {
			fmt.Fprintf(&b, "%s}\n", strings.Repeat("    ", d+1))
		}
		b.WriteString("    println(\"end\", acc);\n}\n")
		backend := []string{"vm", "tree"}[rapid.IntRange(0, 1).Draw(rt, "backend")]
		p := Prog{Name: "generated", Text: b.String(), Cores: 1}
		total, f := dryRun(p, backend)
		pk.Eval()
		if f != nil {
			pk.Judge(rt, Case{Prog: p.Name, Text: p.Text, Backend: backend}, f)
			return
		}
		k := rapid.Int64Range(1, total+2).Draw(rt, "k")
		c := Case{Prog: p.Name, Text: p.Text, Backend: backend, K: k, Cores: 1, TotalPolls: total}
		if k > 1 && k < total {
			pk.NonTrivial(p.Text+fmt.Sprint(k, backend), map[string]any{"program": p.Text, "backend": backend, "cancel_at_poll": k, "of": total})
		}
		pk.Judge(rt, c, checkCancel(c))
	})
}

// ---------------------------------------------------------------------------------------------
// Cancellation that does not coincide with a poll: the host cancels before main is started, or while it
// handles a write of the program (the writing core is then between two polls and may still spawn).

type HostCancelCase struct {
	Prog    string
	Text    string
	Backend string
	Mode    string // before-start | at-write
	N       int    // at-write: the n-th write
	Cores   int
	Endless bool
}

func checkHostCancel(c HostCancelCase) *pk.Failure {
	req := &sb.Request{Op: "run", Modules: map[string]string{"main": c.Text}, Entry: "main", Backends: []string{c.Backend},
		Limits: sb.DefaultLimits(), PollCap: 200000}
	if c.Endless {
		req.PollCap = endlessCap // a program that never writes n times is stopped like in the sweep
	}
	if c.Mode == "before-start" {
		req.CancelBeforeStart = true
	} else {
		req.CancelAtWrite = c.N
	}
	resp := px.Pool().Exec(req)
	id := fmt.Sprintf("%s on %s, host cancels %s %d", c.Prog, c.Backend, c.Mode, c.N)
	if f := px.SandboxFailure("hostcancel", resp); f != nil {
		f.Sig = c.Backend + " " + c.Mode + " " + f.Sig
		f.Msg = id + "\n" + c.Text + "\n" + f.Msg
		return f
	}
	if resp.Inconclusive {
		pk.Inconclusive()
		return nil
	}
	if !resp.Accepted {
		return pk.Failf("hostcancel", "program-rejected", "%s: program rejected", id)
	}
	r := resp.Run(c.Backend)
	if r == nil || r.InitPanic != "" || r.CompileErr != "" {
		return pk.Failf("hostcancel", "init", "%s: %+v", id, r)
	}
	switch {
	case c.Mode == "before-start":
		// nothing of the program has run yet: it cannot have "finished first"
		if r.Outcome.Class != "terminated" {
			return pk.Failf("hostcancel", c.Backend+" before-start:"+r.Outcome.Class, "%s: the context was cancelled before main was started, the outcome is %+v with output %q\n%s", id, r.Outcome, r.Writes, c.Text)
		}
	case len(r.Writes) >= c.N && (c.Endless || r.Outcome.Class == "terminated"):
		if r.Outcome.Class != "terminated" {
			return pk.Failf("hostcancel", c.Backend+" at-write:"+r.Outcome.Class, "%s: an endless program ended with %+v\n%s", id, r.Outcome, c.Text)
		}
		// the programs of this table sleep 4 s at most: a run that returns 3 s or more after the cancellation sat
		// its sleep out (between 1 s and 3 s the machine was too busy to tell: not judged)
		if strings.Contains(c.Text, "time.sleep(4.0)") {
			switch {
			case r.MsAfterCancel >= 3000:
				return pk.Failf("hostcancel", c.Backend+" blocking-builtin-outlives-cancel", "%s: the run returned %d ms after the cancellation (the program was inside time.sleep(4.0))\n%s", id, r.MsAfterCancel, c.Text)
			case r.MsAfterCancel >= 1000:
				pk.Inconclusive()
			default:
				pk.Class("hostcancel:sleep-interrupted")
			}
		}
		// between the cancelling write and the next poll a core executes at most one quantum
		if r.WritesAfterCancel > 60*c.Cores {
			return pk.Failf("hostcancel", c.Backend+" writes-after-cancel", "%s: %d writes after the cancellation\n%s", id, r.WritesAfterCancel, c.Text)
		}
		pk.Class("hostcancel:terminated")
	default:
		pk.Class("hostcancel:finished-first")
	}
	if c.Backend == "vm" && !r.Residue.LockFree {
		return pk.Failf("hostcancel", "vm lock-held", "%s: the cores lock is still held\n%s", id, c.Text)
	}
	if r.GoroutinesAfter > r.GoroutinesBefore {
		return pk.Failf("hostcancel", c.Backend+" goroutines-left", "%s: %d goroutines before, %d after return\n%s", id, r.GoroutinesBefore, r.GoroutinesAfter, c.Text)
	}
	return nil
}

func init() { pk.Reg("hostcancel", checkHostCancel) }

// programs in which a write is followed - within the same quantum - by spawns and the end of the writer
var hostCancelProgs = []Prog{
	{Name: "write-then-spawn-then-end", Text: `fn w(n: int) { println("w", n); }
fn main() { println("go"); spawn w(1); }`, VMOnly: true, Cores: 2},
	{Name: "write-then-two-spawns", Text: `fn w(n: int) { let i = 0; while i < 100 { i += 1; } println("w", n); }
fn main() { println("go"); spawn w(1); spawn w(2); println("main done"); }`, VMOnly: true, Cores: 3},
	{Name: "thread-writes-then-spawns", Text: `fn leaf(n: int) { println("leaf", n); }
fn mid(n: int) { println("mid", n); spawn leaf(n); }
fn main() { spawn mid(1); spawn mid(2); }`, VMOnly: true, Cores: 5},
	{Name: "relay-printing-every-step", Text: `fn relay(n: int) { println("r", n); spawn relay(n + 1); }
fn main() { spawn relay(1); }`, VMOnly: true, Cores: 2, Endless: true},
	{Name: "write-in-loop", Text: `fn main() { let i = 0; loop { i += 1; println("tick", i); } }`, Cores: 1, Endless: true},
	{Name: "write-then-sleep", Text: `fn main() { println("a"); time.sleep(0.03); println("b"); }`, Cores: 1},
	// a core that is inside a LONG blocking builtin when the host cancels: the builtin must not outlive the cancellation
	{Name: "write-then-long-sleep", Text: `fn main() { println("a"); time.sleep(4.0); println("b"); }`, Cores: 1},
	{Name: "thread-in-long-sleep", Text: `fn w(n: int) { time.sleep(4.0); println("w", n); }
fn main() { spawn w(1); println("go"); time.sleep(4.0); println("main"); }`, VMOnly: true, Cores: 2},
	{Name: "write-in-handler", Text: `fn main() { try { throw("x"); } catch e { println("h"); let i = 0; loop { i += 1; } } }`, Cores: 1, Endless: true},
	{Name: "write-then-finish", Text: `fn main() { println("only"); }`, Cores: 1},
}

func TestTableHostCancel(t *testing.T) {
	pk.SkipIfReplay(t)
	col := pk.NewCollector()
	var wg sync.WaitGroup
	sem := make(chan struct{}, 16)
	idx := 0
	all := append(append([]Prog{}, progs...), hostCancelProgs...)
	for _, p := range all {
		for _, backend := range []string{"vm", "tree"} {
			if p.VMOnly && backend == "tree" {
				continue
			}
			var cases []HostCancelCase
			cases = append(cases, HostCancelCase{Prog: p.Name, Text: p.Text, Backend: backend, Mode: "before-start", Cores: p.Cores, Endless: p.Endless})
			for n := 1; n <= 4; n++ {
				cases = append(cases, HostCancelCase{Prog: p.Name, Text: p.Text, Backend: backend, Mode: "at-write", N: n, Cores: p.Cores, Endless: p.Endless})
			}
			for _, c := range cases {
				idx++
				if !pk.Mine(idx) {
					continue
				}
				wg.Add(1)
				sem <- struct{}{}
				go func(c HostCancelCase) {
					defer wg.Done()
					defer func() { <-sem }()
					pk.Eval()
					pk.NonTrivial(fmt.Sprintf("%s|%s|%s|%d", c.Prog, c.Backend, c.Mode, c.N), map[string]any{"program": c.Prog, "backend": c.Backend, "mode": c.Mode, "n": c.N})
					col.Report(c, checkHostCancel(c))
				}(c)
			}
		}
	}
	wg.Wait()
	col.Done(t)
	pk.Exhaustive("host-cancel-table")
}
