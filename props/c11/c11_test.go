package c11

import (
	"fmt"
	"regexp"
	"strings"
	"sync"
	"testing"

	"verif/gen"
	"verif/hs"
	"verif/pk"
	"verif/px"
)

func TestMain(m *testing.M) { pk.Main(m) }

var contexts = []string{"loop", "while", "for-range", "for-list", "block", "if-then", "if-else", "match-arm", "match-default", "try", "catch", "fn", "lambda", "rec", "rec-try",
	// the CONDITION of a while loop and the ITERATOR expression of a for loop are evaluated outside of that loop: an
	// exit taken there belongs to the constructs around the loop
	"while-cond", "for-iter"}
var exits = []string{"break", "continue", "return", "return-null", "throw-caught", "throw-uncaught", "fatal-div", "fatal-index", "none",
	// a `return` whose VALUE does not complete: the exception belongs to the handlers around the return statement
	"return-throwing-call", "return-throwing-block"}

// ---- small AST helpers

func sl(v string) hs.Expr            { return hs.StrLit{V: v} }
func il(v int64) hs.Expr             { return hs.IntLit{V: v} }
func id(n string, t hs.Type) hs.Expr { return hs.Ident{Name: n, T: t} }
func say(args ...hs.Expr) hs.Stmt {
	return hs.ExprStmt{X: hs.Call{Fn: hs.Ident{Name: "println"}, Args: args, T: hs.TNull}}
}
func blk(stmts ...hs.Stmt) *hs.Block { return &hs.Block{Stmts: stmts, T: hs.TNull} }
func ifs(cond hs.Expr, then *hs.Block, els *hs.Block) hs.Stmt {
	e := &hs.If{Cond: cond, Then: then, T: hs.TNull}
	if els != nil {
		e.Else = els
	}
	return hs.ExprStmt{X: e}
}
func let(n string, x hs.Expr) hs.Stmt { return hs.Let{Name: n, X: x} }
func inc(n string) hs.Stmt {
	return hs.ExprStmt{X: hs.Assign{Op: "+=", L: id(n, hs.TInt), R: il(1)}}
}
func gt(n string, k int64) hs.Expr {
	return hs.Infix{Op: ">", L: id(n, hs.TInt), R: il(k), T: hs.TBool}
}
func lt(n string, k int64) hs.Expr {
	return hs.Infix{Op: "<", L: id(n, hs.TInt), R: il(k), T: hs.TBool}
}

type builder struct {
	fns     []hs.FnDef
	n       int
	retNull bool // functions return null instead of int
}

func (b *builder) fresh(p string) string { b.n++; return fmt.Sprintf("%s%d", p, b.n) }

func (b *builder) retT() hs.Type {
	if b.retNull {
		return hs.TNull
	}
	return hs.TInt
}

// wrap puts `inner` (a statement list) into one context; tag identifies the level in the output.
func (b *builder) wrap(ctx string, level int, inner []hs.Stmt) []hs.Stmt {
	tag := fmt.Sprintf("%d:%s", level, ctx)
	pre := say(sl("in " + tag))
	post := say(sl("after-inner " + tag))
	// every level re-declares `keep`: a scope that an exit leaves behind would hide the outer `keep` (41) later
	shadow := let("keep", il(int64(1000+level)))
	body := append(append([]hs.Stmt{pre, shadow, say(sl("shadow "+tag), id("keep", hs.TInt))}, inner...), post)
	switch ctx {
	case "loop":
		c := b.fresh("c")
		stmts := append([]hs.Stmt{inc(c), ifs(gt(c, 2), blk(hs.Break{}), nil), say(sl("iter "+tag), id(c, hs.TInt))}, body...)
		return []hs.Stmt{let(c, il(0)), hs.Loop{Body: blk(stmts...)}, say(sl("left "+tag), id(c, hs.TInt))}
	case "while":
		c := b.fresh("c")
		stmts := append([]hs.Stmt{inc(c), say(sl("iter "+tag), id(c, hs.TInt))}, body...)
		return []hs.Stmt{let(c, il(0)), hs.While{Cond: lt(c, 2), Body: blk(stmts...)}, say(sl("left "+tag), id(c, hs.TInt))}
	case "while-cond":
		c := b.fresh("c")
		cond := &hs.Block{Stmts: append([]hs.Stmt{inc(c)}, body...), Tail: lt(c, 3), T: hs.TBool}
		return []hs.Stmt{let(c, il(0)), hs.While{Cond: cond, Body: blk(say(sl("while-body "+tag), id(c, hs.TInt)))}, say(sl("left "+tag), id(c, hs.TInt))}
	case "for-iter":
		v := b.fresh("i")
		iter := &hs.Block{Stmts: body, Tail: hs.RangeLit{Lo: il(0), Hi: il(2)}, T: hs.TRange}
		return []hs.Stmt{hs.For{Var: v, Iter: iter, Body: blk(say(sl("for-body "+tag), id(v, hs.TInt)))}, say(sl("left " + tag))}
	case "for-range":
		v := b.fresh("i")
		stmts := append([]hs.Stmt{say(sl("iter "+tag), id(v, hs.TInt))}, body...)
		return []hs.Stmt{hs.For{Var: v, Iter: hs.RangeLit{Lo: il(0), Hi: il(2)}, Body: blk(stmts...)}, say(sl("left " + tag))}
	case "for-list":
		v := b.fresh("s")
		stmts := append([]hs.Stmt{say(sl("iter "+tag), id(v, hs.TStr))}, body...)
		return []hs.Stmt{hs.For{Var: v, Iter: hs.ListLit{Elems: []hs.Expr{sl("x"), sl("y")}, T: hs.TList(hs.TStr)}, Body: blk(stmts...)}, say(sl("left " + tag))}
	case "block":
		v := b.fresh("b")
		bl := &hs.Block{Stmts: body, Tail: il(int64(10 + level)), T: hs.TInt}
		return []hs.Stmt{let(v, bl), say(sl("value "+tag), id(v, hs.TInt))}
	case "if-then":
		v := b.fresh("t")
		return []hs.Stmt{let(v, hs.BoolLit{V: true}), ifs(id(v, hs.TBool), blk(body...), blk(say(sl("WRONG-BRANCH "+tag)))), say(sl("left " + tag))}
	case "if-else":
		v := b.fresh("t")
		return []hs.Stmt{let(v, hs.BoolLit{V: false}), ifs(id(v, hs.TBool), blk(say(sl("WRONG-BRANCH "+tag))), blk(body...)), say(sl("left " + tag))}
	case "match-arm":
		v := b.fresh("m")
		m := &hs.Match{X: id(v, hs.TInt), T: hs.TNull, Arms: []hs.MatchArm{
			{Lits: []hs.Expr{il(5)}, Body: blk(say(sl("WRONG-ARM " + tag)))},
			{Lits: []hs.Expr{il(1)}, Body: blk(body...)},
			{Body: blk(say(sl("WRONG-DEFAULT " + tag)))},
		}}
		return []hs.Stmt{let(v, il(1)), hs.ExprStmt{X: m}, say(sl("left " + tag))}
	case "match-default":
		v := b.fresh("m")
		m := &hs.Match{X: id(v, hs.TInt), T: hs.TNull, Arms: []hs.MatchArm{
			{Lits: []hs.Expr{il(5)}, Body: blk(say(sl("WRONG-ARM " + tag)))},
			{Body: blk(body...)},
		}}
		return []hs.Stmt{let(v, il(1)), hs.ExprStmt{X: m}, say(sl("left " + tag))}
	case "try":
		e := b.fresh("e")
		tr := &hs.Try{Body: blk(body...), CatchVar: e, T: hs.TNull,
			Catch: blk(say(sl("caught "+tag), hs.Member{X: id(e, errT), Name: "message", T: hs.TStr}))}
		return []hs.Stmt{hs.ExprStmt{X: tr}, say(sl("left " + tag))}
	case "catch":
		e := b.fresh("e")
		tr := &hs.Try{Body: blk(say(sl("enter "+tag)), hs.ExprStmt{X: hs.Call{Fn: hs.Ident{Name: "throw"}, Args: []hs.Expr{sl("to-catch " + tag)}, T: hs.TNever}}),
			CatchVar: e, T: hs.TNull,
			// the caught value is read again after the inner construct: a handler that fires inside this handler
			// has its own exception value
			Catch: blk(append(append([]hs.Stmt{say(sl("handler "+tag), hs.Member{X: id(e, errT), Name: "message", T: hs.TStr})}, body...),
				say(sl("handler-end "+tag), hs.Member{X: id(e, errT), Name: "message", T: hs.TStr}))...)}
		return []hs.Stmt{hs.ExprStmt{X: tr}, say(sl("left " + tag))}
	case "fn":
		name := b.fresh("f")
		fb := &hs.Block{Stmts: body, T: b.retT()}
		if !b.retNull {
			fb.Tail = il(int64(100 + level))
		}
		b.fns = append(b.fns, hs.FnDef{Name: name, Ret: b.retT(), Body: fb})
		call := hs.Call{Fn: hs.Ident{Name: name, T: hs.TFn(b.retT())}, T: b.retT()}
		if b.retNull {
			return []hs.Stmt{hs.ExprStmt{X: call}, say(sl("returned " + tag))}
		}
		return []hs.Stmt{say(sl("returned "+tag), call)}
	case "rec", "rec-try":
		// a recursive function: the inner construct runs in the deepest of three activations. "rec-try": every
		// recursive call sits inside a try block of the calling activation, so the nearest dynamically
		// enclosing handler of the deepest activation belongs to an older activation of the SAME function.
		name := b.fresh("r")
		dT := hs.TInt
		d := id("d", dT)
		recCall := hs.Call{Fn: hs.Ident{Name: name, T: hs.TFn(b.retT(), dT)}, Args: []hs.Expr{hs.Infix{Op: "-", L: d, R: il(1), T: hs.TInt}}, T: b.retT()}
		var step []hs.Stmt
		if b.retNull {
			step = []hs.Stmt{hs.ExprStmt{X: recCall}, say(sl("rec-back "+tag), d)}
		} else {
			step = []hs.Stmt{say(sl("rec-back "+tag), d, recCall)}
		}
		if ctx == "rec-try" {
			e := b.fresh("e")
			step = []hs.Stmt{hs.ExprStmt{X: &hs.Try{Body: blk(append(step, say(sl("rec-try-end "+tag), d))...), CatchVar: e, T: hs.TNull,
				Catch: blk(say(sl("rec-caught "+tag), d, hs.Member{X: id(e, errT), Name: "message", T: hs.TStr}))}}}
		}
		fb := &hs.Block{T: b.retT()}
		fb.Stmts = append(fb.Stmts, say(sl("rec-enter "+tag), d), let("loc", hs.Infix{Op: "*", L: d, R: il(10), T: hs.TInt}),
			ifs(hs.Infix{Op: ">", L: d, R: il(0), T: hs.TBool}, blk(step...), blk(body...)),
			say(sl("rec-leave "+tag), d, id("loc", hs.TInt)))
		if !b.retNull {
			fb.Tail = hs.Infix{Op: "+", L: il(int64(300 + level)), R: d, T: hs.TInt}
		}
		b.fns = append(b.fns, hs.FnDef{Name: name, Params: []hs.Param{{Name: "d", T: dT}}, Ret: b.retT(), Body: fb})
		call := hs.Call{Fn: hs.Ident{Name: name, T: hs.TFn(b.retT(), dT)}, Args: []hs.Expr{il(2)}, T: b.retT()}
		if b.retNull {
			return []hs.Stmt{hs.ExprStmt{X: call}, say(sl("returned " + tag))}
		}
		return []hs.Stmt{say(sl("returned "+tag), call)}
	case "lambda":
		name := b.fresh("lam")
		fb := &hs.Block{Stmts: body, T: b.retT()}
		if !b.retNull {
			fb.Tail = il(int64(200 + level))
		}
		lam := &hs.FnLit{Ret: b.retT(), Body: fb}
		call := hs.Call{Fn: id(name, lam.Type()), T: b.retT()}
		if b.retNull {
			return []hs.Stmt{let(name, lam), hs.ExprStmt{X: call}, say(sl("returned " + tag))}
		}
		return []hs.Stmt{let(name, lam), say(sl("returned "+tag), call)}
	}
	panic(ctx)
}

var errT = hs.TObj(hs.Field{Name: "message", T: hs.TStr})

func (b *builder) exitStmts(exit string) []hs.Stmt {
	guard := b.fresh("g")
	var ex hs.Stmt
	switch exit {
	case "break":
		ex = hs.Break{}
	case "continue":
		ex = hs.Continue{}
	case "return":
		ex = hs.Return{X: il(7)}
	case "return-null":
		ex = hs.Return{}
	case "return-throwing-call":
		name := b.fresh("thrower")
		b.fns = append(b.fns, hs.FnDef{Name: name, Params: []hs.Param{{Name: "x", T: hs.TInt}}, Ret: hs.TInt, Body: &hs.Block{T: hs.TInt, Tail: id("x", hs.TInt),
			Stmts: []hs.Stmt{ifs(gt("x", 0), blk(hs.ExprStmt{X: hs.Call{Fn: hs.Ident{Name: "throw"}, Args: []hs.Expr{sl("boom")}, T: hs.TNever}}), nil)}}})
		ex = hs.Return{X: hs.Infix{Op: "+", L: il(1), R: hs.Call{Fn: hs.Ident{Name: name, T: hs.TFn(hs.TInt, hs.TInt)}, Args: []hs.Expr{il(1)}, T: hs.TInt}, T: hs.TInt}}
	case "return-throwing-block":
		ex = hs.Return{X: &hs.Block{T: hs.TInt, Tail: il(1), Stmts: []hs.Stmt{say(sl("in-return-value")),
			ifs(hs.BoolLit{V: true}, blk(hs.ExprStmt{X: hs.Call{Fn: hs.Ident{Name: "throw"}, Args: []hs.Expr{sl("boom")}, T: hs.TNever}}), nil)}}}
	case "throw-caught", "throw-uncaught":
		ex = hs.ExprStmt{X: hs.Call{Fn: hs.Ident{Name: "throw"}, Args: []hs.Expr{sl("boom")}, T: hs.TNever}}
	case "fatal-div":
		z := b.fresh("z")
		return []hs.Stmt{say(sl("before-exit")), let(z, il(0)), say(sl("div"), hs.Infix{Op: "/", L: il(1), R: id(z, hs.TInt), T: hs.TInt}), say(sl("SKIPPED-after-exit"))}
	case "fatal-index":
		l := b.fresh("l")
		return []hs.Stmt{say(sl("before-exit")), let(l, hs.ListLit{Elems: []hs.Expr{il(1)}, T: hs.TList(hs.TInt)}), say(sl("idx"), hs.Index{X: id(l, hs.TList(hs.TInt)), I: il(3), T: hs.TInt}), say(sl("SKIPPED-after-exit"))}
	case "none":
		return []hs.Stmt{say(sl("no-exit"))}
	}
	// the exit is guarded by a runtime-true condition so that following code stays reachable for the analyzer
	return []hs.Stmt{say(sl("before-exit")), let(guard, hs.BoolLit{V: true}), ifs(id(guard, hs.TBool), blk(ex), nil), say(sl("SKIPPED-after-exit"))}
}

type Spec struct {
	Path []string
	Exit string
	Tail bool // the function that holds the construct throws at its end (must reach the outer handler)
}

func (s Spec) String() string {
	t := ""
	if s.Tail {
		t = " +tail-throw"
	}
	return strings.Join(s.Path, ">") + " / " + s.Exit + t
}

// valid reports whether the exit may legally appear at the end of the path.
func valid(s Spec) bool {
	switch s.Exit {
	case "break", "continue":
		// needs an enclosing loop with no function boundary in between
		for i := len(s.Path) - 1; i >= 0; i-- {
			switch s.Path[i] {
			case "fn", "lambda", "rec", "rec-try":
				return false
			case "loop", "while", "for-range", "for-list":
				return true
			}
		}
		return false
	case "throw-uncaught":
		for _, c := range s.Path {
			if c == "try" || c == "rec-try" {
				return false
			}
		}
	}
	return true
}

// build constructs the program: main runs the construct twice (second round detects stale
// handlers / residue), inside an outer try for the "caught" variants.
func build(s Spec) *hs.Program {
	b := &builder{retNull: s.Exit == "return-null"}
	stmts := b.exitStmts(s.Exit)
	for i := len(s.Path) - 1; i >= 0; i-- {
		stmts = b.wrap(s.Path[i], i, stmts)
	}
	runBody := &hs.Block{T: b.retT()}
	runBody.Stmts = append(runBody.Stmts, let("keep", il(41)), say(sl("run-start")))
	runBody.Stmts = append(runBody.Stmts, stmts...)
	runBody.Stmts = append(runBody.Stmts, say(sl("run-end"), id("keep", hs.TInt)))
	if s.Tail {
		// a handler left behind by the construct would catch this instead of main's outer try
		runBody.Stmts = append(runBody.Stmts, ifs(hs.Infix{Op: "==", L: id("keep", hs.TInt), R: il(41), T: hs.TBool},
			blk(hs.ExprStmt{X: hs.Call{Fn: hs.Ident{Name: "throw"}, Args: []hs.Expr{sl("tail")}, T: hs.TNever}}), nil))
	}
	if !b.retNull {
		runBody.Tail = il(1)
	}
	run := hs.FnDef{Name: "run", Ret: b.retT(), Body: runBody}
	callRun := func() hs.Stmt {
		c := hs.Call{Fn: hs.Ident{Name: "run", T: hs.TFn(b.retT())}, T: b.retT()}
		if b.retNull {
			return hs.ExprStmt{X: c}
		}
		return say(sl("run-result"), c)
	}
	var mainStmts []hs.Stmt
	mainStmts = append(mainStmts, let("m", il(5)))
	for round := 0; round < 2; round++ {
		if s.Exit == "throw-uncaught" || strings.HasPrefix(s.Exit, "fatal") {
			mainStmts = append(mainStmts, callRun())
		} else {
			tr := &hs.Try{Body: blk(callRun(), say(sl("no-exception"))), CatchVar: fmt.Sprintf("oe%d", round), T: hs.TNull,
				Catch: blk(say(sl("outer-caught"), hs.Member{X: id(fmt.Sprintf("oe%d", round), errT), Name: "message", T: hs.TStr}))}
			mainStmts = append(mainStmts, hs.ExprStmt{X: tr})
		}
		mainStmts = append(mainStmts, say(sl("round-done"), id("m", hs.TInt)))
	}
	mainFn := hs.FnDef{Name: "main", Ret: hs.TNull, Body: &hs.Block{Stmts: mainStmts, T: hs.TNull}}
	m := &hs.Module{Name: "main", Fns: append(append([]hs.FnDef{}, b.fns...), run, mainFn)}
	return &hs.Program{Entry: "main", Modules: []*hs.Module{m}}
}

// checkNesting: both backends must reproduce the reference trace of the nesting program.
func checkNesting(c px.ProgCase) *pk.Failure {
	resp := px.Pool().Exec(c.Request("vm", "tree"))
	if f := px.SandboxFailure("nesting", resp); f != nil {
		f.Msg = c.Note + "\n" + px.ProgText(c) + "\n" + f.Msg
		return f
	}
	if resp.Inconclusive {
		pk.Inconclusive()
		return nil
	}
	if !resp.Accepted {
		msg := ""
		for _, d := range append(resp.SyntaxErrors, resp.ErrorDiags()...) {
			msg += fmt.Sprintf("%s: %s @%d:%d\n", d.Level, d.Message, d.Span.Start.Line, d.Span.Start.Column)
		}
		return pk.Failf("nesting", "generator-rejected", "analyzer rejected %s:\n%s\n%s", c.Note, msg, px.ProgText(c))
	}
	pos := map[string][]string{}
	for _, b := range []string{"vm", "tree"} {
		pk.Extra("comparisons", 1)
		r := resp.Run(b)
		if r == nil {
			return pk.Failf("nesting", "harness-error", "no run result for %s", b)
		}
		rc := *r
		rc.Writes = nil
		for _, w := range r.Writes {
			if strings.HasPrefix(w, "@pos ") {
				pos[b] = append(pos[b], w)
				continue
			}
			rc.Writes = append(rc.Writes, w)
		}
		if cls, msg := px.CompareRun(c.Expect, &rc); cls != "" {
			return pk.Failf("nesting", b+" diff:"+cls, "%s on %s: %s\n%s", c.Note, b, msg, px.ProgText(c))
		}
	}
	if a, b := strings.Join(pos["vm"], ""), strings.Join(pos["tree"], ""); a != b {
		return pk.Failf("nesting", "diff:positions", "%s: the handlers see different positions of their exceptions\n  vm:   %q\n  tree: %q\n%s", c.Note, a, b, px.ProgText(c))
	}
	if len(pos["vm"]) > 0 {
		pk.Extra("handler-positions-compared", len(pos["vm"]))
	}
	return nil
}

// a println in a handler that shows the message of the caught value: `println("caught 1:try", e3.message);`
var handlerMessageRe = regexp.MustCompile(`println\([^;\n]*\b([a-z]+[0-9]*)\.message\);`)

func init() { pk.Reg("nesting", checkNesting); pk.Reg("program", checkNesting) }

func TestReplay(t *testing.T) { pk.ReplayTest(t) }

func enumerate(depth int, f func(path []string)) {
	var rec func(p []string)
	rec = func(p []string) {
		if len(p) > 0 {
			f(append([]string{}, p...))
		}
		if len(p) == depth {
			return
		}
		for _, c := range contexts {
			rec(append(p, c))
		}
	}
	rec(nil)
}

func runSpecs(t *testing.T, specs []Spec) {
	col := pk.NewCollector()
	var wg sync.WaitGroup
	sem := make(chan struct{}, 24)
	for k, s := range specs {
		if !pk.Mine(k) {
			continue
		}
		wg.Add(1)
		sem <- struct{}{}
		go func(s Spec) {
			defer wg.Done()
			defer func() { <-sem }()
			prog := build(s)
			g := &gen.Generated{Prog: prog}
			tr, ok := px.Model(g)
			pk.Eval()
			if !ok {
				col.Report(px.ProgCase{Note: s.String()}, pk.Failf("nesting", "model-unsupported", "reference model cannot run %s: %s", s, tr.Outcome.Message))
				return
			}
			c := px.FromGenerated(g)
			c.Expect = px.ExpOf(tr)
			c.Note = s.String()
			// "carrying its message AND POSITION": every handler also prints where its exception was raised. The
			// reference model knows no positions; the two backends must agree on them (see checkNesting).
			for name, text := range c.Modules {
				c.Modules[name] = handlerMessageRe.ReplaceAllString(text, `${0} println("@pos", ${1}.line, ${1}.column);`)
			}
			pk.Class("exit:" + s.Exit)
			pk.Class(fmt.Sprintf("depth:%d", len(s.Path)))
			pk.Class("outcome:" + tr.Outcome.Class)
			pk.NonTrivial(s.String(), map[string]any{"spec": s.String(), "expect": strings.Join(tr.Writes, "")})
			col.Report(c, checkNesting(c))
		}(s)
	}
	wg.Wait()
	col.Done(t)
}

func TestTableNesting(t *testing.T) {
	pk.SkipIfReplay(t)
	depth := pk.Scale(3, 4)
	var specs []Spec
	enumerate(depth, func(path []string) {
		for _, e := range exits {
			s := Spec{Path: path, Exit: e}
			if valid(s) {
				specs = append(specs, s)
				if e != "throw-uncaught" && !strings.HasPrefix(e, "fatal") {
					s.Tail = true
					specs = append(specs, s)
				}
			}
		}
	})
	runSpecs(t, specs)
	pk.Exhaustive(fmt.Sprintf("nesting-depth-%d", depth))
}
