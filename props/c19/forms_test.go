package c19

import (
	"sort"
	"strings"
	"testing"

	"verif/hs"
	"verif/pk"
	"verif/px"
	"verif/sb"
)

// form is one hand-written program that exercises a printer / optimizer form. Every form is
// accepted by the analyzer and prints something observable.
type form struct {
	name  string
	main  string
	mods  map[string]string // further modules
	kinds string            // "" = parsed, analyzed, optimize
	after string            // not accepted by the pinned tree until this defect is repaired (then it must pass)
	sing  map[string]hs.Value
}

func m(body string) string { return "fn main() {\n" + body + "\n}\n" }

func sObj(n int64, s string) hs.Value {
	o := hs.NewObj(false)
	o.Set("n", hs.IntV(n))
	o.Set("s", hs.StrV(s))
	return o
}

var forms = []form{
	// ------------------------------------------------------------------------------------------
	// string literals: every escape class
	{name: "str-plain", main: m(`println("hello", 'single');`)},
	{name: "str-quote", main: m(`println("a\"b");`)},
	{name: "str-quote-in-single", main: m(`println('a"b', "it's", 'it\'s');`)},
	{name: "str-backslash", main: m(`println("a\\b");`)},
	{name: "str-backslash-last", main: m(`println("ab\\");`)},
	{name: "str-backslash-n", main: m(`println("a\\nb");`)},
	{name: "str-newline", main: m(`println("a\nb");`)},
	{name: "str-newline-nested", main: m(`if true { if true { println("a\nb\n\nc"); } }`)},
	{name: "str-raw-newline", main: m("if true { if true { println(\"a\nb\"); } }")},
	{name: "str-tab", main: m(`println("a\tb");`)},
	{name: "str-raw-tab", main: m("println(\"a\tb\");")},
	{name: "str-cr", main: m(`println("a\rb");`)},
	{name: "str-backspace", main: m(`println("a\bb");`)},
	{name: "str-non-ascii", main: m(`println("äöü → ☃ 日本");`)},
	{name: "str-control", main: m(`println("a\x01b\x7fc\033d");`)},
	{name: "str-nul", main: m(`println("a\x00b".len());`)},
	{name: "str-unicode-escape", main: m(`println("ä\U0001F600");`)},
	{name: "str-empty", main: m(`println("", "".len());`)},
	{name: "str-global", main: "let g = \"q\\\"\\\\\\n\\t.\";\n" + m(`println(g);`)},
	{name: "str-in-list", main: m(`println(["a\"", "b\\", "c\n"]);`)},
	{name: "str-concat-len", main: m(`let s = "tab\there" + "\\"; println(s, s.len());`)},
	{name: "str-match-literal", main: m(`let s = "a\"b"; println(match s { "a\"b" => 1, "x\\y" => 2, _ => 3 });`)},

	// ------------------------------------------------------------------------------------------
	// numbers
	{name: "int-literals", main: m(`println(0, 1, 42, 1_000, 9223372036854775807);`)},
	{name: "int-negative", main: m(`println(-1, - 2, -9223372036854775807, - -3, -(-4));`)},
	{name: "float-integral", main: m(`println(2f, 2.0, 0.0, 10f);`)},
	{name: "float-fractional", main: m(`println(1.5, 0.25, 3.14159, 2.50);`)},
	{name: "float-large-fraction", main: m(`println(1234567.5, 123456789.125);`)},
	{name: "float-huge", main: m(`println(100000000000000000000.0, 123456789012345678901234567890.0);`)},
	{name: "float-huge-f", main: m(`println(100000000000000000000f);`)},
	{name: "float-tiny", main: m(`println(0.00001, 0.000000123);`)},
	{name: "float-negative", main: m(`println(-1.5, -2f, -0.00001, - -1.5);`)},
	{name: "float-int64-edge", main: m(`println(9223372036854775807.0, 9223372036854775808.0);`)},
	{name: "float-global", main: "let g = 1234567.5;\nlet h = 0.00001;\n" + m(`println(g, h);`)},
	{name: "bool-null-none", main: m(`println(true, false); let x: ?int = none; let n = null; println(x, n == null);`)},

	// ------------------------------------------------------------------------------------------
	// prefix / infix / grouping
	{name: "prefix-all", main: m(`let a = 3; let b = true; println(-a, !b, !!b, ?a, ??a, !a);`)},
	{name: "prefix-on-member", main: m(`let o = new { a: 3 }; let l = [1]; println(-o.a, -l[0], -l.len(), !l.contains(1));`)},
	{name: "prefix-grouped", main: m(`let a = 3; println(-(a + 1), !(a == 3 && true), (-a).to_string());`)},
	{name: "prefix-cast", main: m(`let a = 3; println(-a as float, (-a) as float, -(a as float));`)},
	{name: "infix-arith", main: m(`let a = 7; let b = 2; println(a + b, a - b, a * b, a / b, a % b, a ** b);`)},
	{name: "infix-bits", main: m(`let a = 7; let b = 2; println(a << b, a >> b, a | b, a & b, a ^ b);`)},
	{name: "infix-logic", main: m(`let a = true; let b = false; println(a || b, a && b, a == b, a != b, a ^ b, a | b, a & b);`)},
	{name: "infix-compare", main: m(`let a = 7; let b = 2; println(a < b, a <= b, a > b, a >= b, a == b, a != b);`)},
	{name: "infix-float", main: m(`let a = 7.5; let b = 2f; println(a + b, a - b, a * b, a / b, a ** b, a < b);`)},
	{name: "infix-string", main: m(`let a = "x"; println(a + "y", a == "x", a != "y", a * 1 == "x");`), kinds: "-"},
	{name: "infix-precedence", main: m(`println(1 + 2 * 3, 1 * 2 + 3, 1 + 2 - 3, 2 ** 3 ** 2, 10 - 4 - 3, 100 / 10 / 2, 1 << 2 + 1, 1 | 2 & 3, 1 < 2 == true, true || false && false);`)},
	{name: "infix-grouped", main: m(`println((1 + 2) * 3, 1 * (2 + 3), 1 + (2 - 3), (2 ** 3) ** 2, 10 - (4 - 3), 100 / (10 / 2), (1 << 2) + 1, (1 | 2) & 3, (true || false) && false);`)},
	{name: "infix-grouped-nested", main: m(`let a = 5; println(((a)), ((a + 1) * (a - 1)) % 7, -((a)));`)},
	{name: "infix-block-operand", main: m(`let a = 5; let r = a + { let b = 2; b * 2 } * 2; println(r);`)},
	{name: "infix-if-operand", main: m(`let a = 5; let r = 1 + if a > 2 { 10 } else { 20 }; println(r);`)},
	{name: "infix-short-circuit", main: "fn t(s: str, r: bool) -> bool { println(s); r }\n" + m(`println(t("a", false) && t("b", true), t("c", true) || t("d", false));`)},

	// ------------------------------------------------------------------------------------------
	// assignment
	{name: "assign-all-int", main: m(`let x = 100; x = 7; x += 3; x -= 1; x *= 4; x /= 3; x %= 7; x **= 2; x <<= 3; x >>= 1; x |= 64; x &= 127; x ^= 5; println(x);`)},
	{name: "assign-float-str-bool", main: m(`let f = 1.5; f += 1f; f -= 0.25; f *= 2f; f /= 4f; let s = "a"; s += "b"; let b = true; b &= false; b |= true; b ^= true; println(f, s, b);`)},
	{name: "assign-targets", main: m(`let l = [1, 2]; let o = new { a: 1, inner: new { z: [0] } }; l[0] = 5; l[-1] += 2; o.a = 3; o.a *= 3; o.inner.z[0] = 9; println(l, o.a, o.inner.z);`)},
	{name: "assign-as-expression", main: m(`let x = 1; let r = { x = 4; x + 1 }; println(r, x);`)},
	{name: "assign-global", main: "let g = 1;\nlet l = [1];\n" + m(`g += 41; l[0] = g; println(g, l);`)},

	// ------------------------------------------------------------------------------------------
	// calls, members, index, cast
	{name: "call-forms", main: "fn f() -> int { 1 }\nfn g(a: int, b: str) -> str { b + a.to_string() }\n" + m(`println(f(), g(2, "x"), g(f(), g(1, "y")));`)},
	{name: "call-closure", main: m(`let f = fn(x: int) -> int { x * 2 }; let g = fn() { println("g"); }; g(); println(f(4), (fn(a: int, b: int) -> int { a - b })(9, 3));`)},
	{name: "call-closure-returning-closure", after: "fn-type-params", main: m(`let mk = fn(k: int) -> fn(x: int) -> int { fn(x: int) -> int { x + 1 } }; println(mk(3)(4));`)},
	{name: "call-method-chain", main: m(`let l = [3, 1, 2]; l.push(0); l.sort(); println(l, l.len().to_string() + "!", "a,b".split(",").len(), l.last().unwrap());`)},
	{name: "fn-param-types", main: "fn f(a: [int], b: ?str, c: { x: int }, d: fn() -> int, e: range, g: { ? }, h: float, i: bool) -> int { d() + a[0] + c.x }\n" + m(`println(f([1], none, new { x: 2 }, fn() -> int { 10 }, 0..1, new { ? }, 1.5, true));`)},
	{name: "fn-param-fn-type", after: "fn-type-params", main: "fn f(d: fn(i: int, s: str) -> int) -> int { d(2, \"ab\") }\n" + m(`println(f(fn(i: int, s: str) -> int { i * s.len() }));`)},
	{name: "index-forms", main: m(`let l = [[1, 2], [3, 4]]; let s = "héllo"; println(l[0], l[1][0], l[-1][-1], s[1], l[0 + 1][1 - 1]);`)},
	{name: "index-object", main: m(`let o = new { a: 1, "b c": 2 }; println(o["a"], o["b c"]);`)},
	{name: "member-dot", main: m(`let o = new { a: new { b: new { c: 5 } } }; println(o.a.b.c, (0..5).end, "x".len());`)},
	{name: "member-arrow", main: m(`let a = new { bar: "baz", n: 1 } as { ? }; let v: ?str = a->bar; let w: str = a~>bar; println(v, w, a->quux);`)},
	{name: "cast-primitives", main: m(`let i = 3; let f = 2.75; let b = true; println(i as float, f as int, b as int, i as bool, i as int);`)},
	{name: "cast-compound", main: m(`let o = new { a: 1 }; let a = o as { ? }; let l = [1, 2]; println(a, l as [int], ?1 as ?int);`)},
	{name: "cast-chain", main: m(`let i = 3; println(i as float as int, (i as float) as int, i as float + 0.5, (i + 1) as float);`)},
	{name: "cast-alias", main: "type N = int;\ntype O = { a: int, \"b c\": str };\n" + m(`let o = new { a: 1, "b c": "x" }; println(3 as N, (o as O).a);`)},
	{name: "cast-fn-type", after: "fn-type-params", main: m(`let f = fn(a: int) -> int { a + 1 }; let g = f as fn(a: int) -> int; println(g(1));`)},
	{name: "cast-any", main: "import any_func from testing;\n" + m(`let l: [int] = [1]; println(l); let j = "[1, 2]".parse_json() as [int]; println(j);`)},

	// ------------------------------------------------------------------------------------------
	// ranges, lists, objects
	{name: "range-forms", main: m(`let a = 1; let b = 4; println(0..3, 0..=3, a..b, a..=b, (a + 1)..(b * 2), -1..1, (0..3).rev());`)},
	{name: "range-in-for", main: m(`for i in 0..3 { print(i); } for i in 0..=3 { print(i); } for i in (0..3).rev() { print(i); } println("");`)},
	{name: "list-forms", main: m(`let e: [int] = []; let n = [[1], [2, 3]]; let o = [new { a: 1 }, new { a: 2 }]; let q = [?1, none]; println(e, n, o[1].a, q, [1.5, 2f], [true], ["s"], [0..1]);`)},
	{name: "object-ident-keys", main: m(`let o = new { a: 1, bb: "x", c_1: 2.5, _d: true, E9: [1] }; println(o.a, o.bb, o.c_1, o._d, o.E9);`)},
	{name: "object-string-keys", main: m(`let o = new { "a b": 1, "1x": 2, "ä": 3, "a-b": 4, "": 5, "x": 6 }; println(o["a b"], o["1x"], o["ä"], o["a-b"], o[""], o.x);`)},
	{name: "object-escape-keys", main: m(`let o = new { "q\"q": 1, "b\\s": 2, "n\nl": 3 }; println(o["q\"q"], o["b\\s"], o["n\nl"]);`)},
	{name: "object-keyword-keys", main: m(`let o = new { "fn": 1, "let": 2, "type": 3 }; println(o["fn"], o["let"], o["type"]);`)},
	{name: "object-nested", main: m(`let o = new { a: new { b: [new { c: "d" }] }, f: fn() -> int { 1 } }; println(o.a.b[0].c, o.f());`)},
	{name: "object-empty", main: m(`let o = new {}; println(o);`)},
	{name: "object-annotated", main: m(`let o: { a: int, "b c": str, l: [?int] } = new { a: 1, "b c": "x", l: [?1] }; println(o.a, o["b c"], o.l);`)},
	{name: "anyobj-literal", main: m(`let a = new { ? }; a.set("k", 1); let b: { ? } = new { ? }; println(a, b, a->k);`)},
	{name: "anyobj-in-expr", main: "fn f(a: { ? }) -> int { a.keys().len() }\n" + m(`println(f(new { ? }), [new { ? }].len(), new { x: new { ? } }.x);`)},

	// ------------------------------------------------------------------------------------------
	// types
	{name: "type-alias", main: "type A = int;\ntype B = A;\ntype L = [B];\ntype O = ?L;\n" + m(`let a: A = 1; let b: B = a; let l: L = [b]; let o: O = ?l; println(a, b, l, o);`)},
	{name: "type-object", main: "type T = { a: int, \"b c\": str, n: { z: ?[float] } };\n" + m(`let t: T = new { a: 1, "b c": "x", n: new { z: ?[1.5] } }; println(t.a, t["b c"], t.n.z);`)},
	{name: "type-object-escape-key", main: "type T = { \"q\\\"q\": int };\n" + m(`let t: T = new { "q\"q": 1 }; println(t["q\"q"]);`)},
	{name: "type-anyobj", main: "type T = { ? };\n" + m(`let t: T = new { ? }; t.set("a", 1); println(t);`)},
	{name: "type-fn", main: "type G = fn() -> null;\ntype H = fn() -> [int];\n" + m(`let g: G = fn() -> null { null }; let h: H = fn() -> [int] { [1] }; g(); println(h());`)},
	{name: "type-fn-params", after: "fn-type-params", main: "type F = fn(a: int, b: str) -> bool;\n" + m(`let f: F = fn(a: int, b: str) -> bool { a == b.len() }; println(f(1, "x"));`)},
	{name: "type-option-list-range", main: "type A = ?int;\ntype B = ??int;\ntype C = [?int];\ntype D = ?[int];\ntype R = range;\n" + m(`let a: A = ?1; let b: B = ??1; let c: C = [?1]; let d: D = ?[1]; let r: R = 0..2; println(a, b, c, d, r);`)},
	{name: "type-local", main: m(`type U = { name: str }; type N = int; let u: U = new { name: "n" }; let n: N = 2; println(u.name, n);`)},
	{name: "type-pub", main: "pub type P = { a: int };\n" + m(`let p: P = new { a: 1 }; println(p.a);`)},
	{name: "type-recursive-use", main: "type I = { v: int };\ntype W = { i: I, l: [I] };\n" + m(`let w: W = new { i: new { v: 1 }, l: [new { v: 2 }] }; println(w.i.v, w.l[0].v);`)},
	{name: "let-annotations", main: m(`let a: int = 1; let b: float = 2f; let c: str = "s"; let d: bool = true; let e: null = null; let f: range = 0..1; let g: ?str = none; let h: [[int]] = [[1]]; println(a, b, c, d, e == null, f, g, h);`)},
	{name: "let-inferred", main: m(`let n: ?int = none; let l: [str] = []; let o = ?5; let f = fn() -> int { 1 }; let r = 0..2; let z = null; println(n, l, o, f(), r, z == null);`)},
	{name: "let-inferred-thread", main: "fn w(x: int) -> int { x + 1 }\n" + m(`let h = spawn w(1); println(h.join());`)},
	{name: "let-inferred-any", main: "import any_func from testing;\n" + m(`let y = any_func() as int; let z = "[1]".parse_json() as [int]; println(y, z);`)},

	{name: "let-inferred-arrow", main: m(`let a = new { bar: "baz" } as { ? }; let v: ?str = a->bar; let w: ?str = a.get("bar"); println(v, w);`)},
	{name: "let-builtin-fn-value", main: m(`let f = println; f("x", 1);`)},
	{name: "let-member-fn-value", main: m(`let l = [1, 2]; let n = l.len; let c = l.contains; println(n(), c(2));`)},
	{name: "let-never", main: "fn f() -> int { let x: int = throw(\"boom\"); x }\n" + m(`try { println(f()); } catch e { let c = e; println(c.message); }`)},
	{name: "let-fn-returning-fn", main: m(`let f = fn() -> fn() -> int { fn() -> int { 3 } }; println(f()());`)},
	{name: "object-underscore-keys", main: m(`let o = new { _: 1, _a: 2, a_: 3 }; println(o._a, o.a_, o["_"]);`)},
	{name: "nested-multiline", main: m(`let o = new { a: [new { b: match 1 { 1 => "x\ny", _ => "z" }, c: if true { [1, 2] } else { [3] } }], "k k": fn() -> str { "in\n    fn" } }; println(o.a[0].b, o.a[0].c);`)},
	{name: "singleton-ident-expr", main: "$S = { n: int, s: str };\nfn f(sg: $S) -> int { sg.n }\n" + m(`println(f());`), sing: map[string]hs.Value{"$S": sObj(4, "x")}},

	// ------------------------------------------------------------------------------------------
	// singletons, impl blocks, annotations, modifiers
	// singletons that are only ever used by VALUE (`$S.n`): no extractor parameter, no type position, no impl block
	{name: "singleton-by-value-only", main: "$S = { n: int, s: str };\n" + m(`println($S.n, $S.s); $S.n = $S.n + 5; println($S.n + 1);`), sing: map[string]hs.Value{"$S": sObj(4, "x")}},
	{name: "singleton-by-value-only-zero", main: "$Counter = { start: int, step: int };\nfn bump() { $Counter.start += 2; }\n" + m(`println($Counter.start, $Counter.step); bump(); bump(); println($Counter.start);`)},
	{name: "singleton-by-value-and-unused-one", main: "$A = { n: int, s: str };\n$Unused = { k: int };\n" + m(`println($A.n);`), sing: map[string]hs.Value{"$A": sObj(2, "a")}},
	// type imports from a module the HOST implements
	{name: "import-type-from-host-module", main: "import type HttpResponse from net;\n" + m(`println(1);`)},
	{name: "import-type-from-host-module-braced", main: "import { type HttpResponse } from net;\n" + m(`println(2);`)},
	{name: "import-type-from-host-module-used", main: "import type HttpResponse from net;\nfn keep(r: ?HttpResponse) -> bool { r.is_none() }\n" + m(`let n: ?HttpResponse = none; println(keep(n));`)},
	{name: "singleton-param", main: "$S = { n: int, s: str };\nfn f(sg: $S, k: int) -> int { sg.n + k }\nfn g(sg: $S) -> str { sg.s }\n" + m(`println(f(1), g());`), sing: map[string]hs.Value{"$S": sObj(41, "hi")}},
	{name: "singleton-zero", main: "$S = { n: int, s: str };\nfn f(sg: $S) -> int { sg.n }\n" + m(`println(f());`)},
	{name: "singleton-two", main: "$A = { n: int, s: str };\n$B = { n: int, s: str };\nfn f(a: $A, b: $B, k: int) -> int { a.n * b.n + k }\n" + m(`println(f(1));`), sing: map[string]hs.Value{"$A": sObj(2, "a"), "$B": sObj(3, "b")}},
	{name: "singleton-annotated-field", main: "$S = { n: int, s: str };\n$Empty = {\n};\nfn f(sg: $S) -> int { sg.n }\n" + m(`println(f());`), sing: map[string]hs.Value{"$S": sObj(4, "x")}},
	{name: "singleton-nonident-key", main: "$S = { n: int, \"s\": str };\nfn f(sg: $S) -> int { sg.n }\n" + m(`println(f());`), sing: map[string]hs.Value{"$S": sObj(4, "x")}},
	{name: "singleton-closure-type", main: "$S = { n: int, s: str };\nfn f(sg: $S, k: int) -> int { sg.n + k }\n" + m(`let h = f; println(h(2));`), sing: map[string]hs.Value{"$S": sObj(40, "x")}},
	{name: "impl-block", main: "import templ FooFeature from templates;\n$D = { n: int, s: str };\nimpl FooFeature with { light } for $D {\n    fn dim(self: $D, percent: int) -> bool { println(\"dim\", self.n, percent); self.n == percent }\n}\n" + m(`println(dim(41), dim(1));`), sing: map[string]hs.Value{"$D": sObj(41, "x")}},
	{name: "impl-block-temperature", main: "import templ FooFeature from templates;\n$D = { n: int, s: str };\nimpl FooFeature with { temperature } for $D {\n    fn set_temp(self: $D, celsius: float) { println(\"temp\", self.s, celsius); }\n}\n" + m(`set_temp(21.5); println("done");`), sing: map[string]hs.Value{"$D": sObj(41, "dev")}},
	{name: "annotation-trigger", main: "import trigger minute from triggers;\nlet foo = 2;\n#[trigger at minute(foo * 20 + 1)]\nevent fn whatever(_elapsed: int) { println(\"cb\"); }\n" + m(`println("main");`)},
	{name: "annotation-trigger-pub", main: "import trigger minute from triggers;\n#[trigger at minute(5)]\nevent fn a(_e: int) { println(\"a\"); }\n#[trigger at minute(6), trigger at minute(7)]\nevent fn b(_e: int) { println(\"b\"); }\n" + m(`println("main");`)},
	{name: "event-fn", main: "import trigger minute from triggers;\nevent fn tick(elapsed: int) { println(\"tick\", elapsed); }\n" + m(`tick(3); println("main");`)},
	{name: "trigger-stmt", main: "import trigger minute from triggers;\nevent fn tick(elapsed: int) { println(\"tick\", elapsed); }\n" + m(`let k = 2; trigger tick at minute(k * 3); println("main");`)},
	{name: "pub-fn", main: "pub fn helper(a: int) -> int { a + 1 }\n" + m(`println(helper(1));`)},
	{name: "pub-let", main: "pub let shared = 5;\nlet private: int = 6;\n" + m(`println(shared + private);`)},
	{name: "globals-many", main: "let a = 1;\nlet b = [1, 2];\nlet c = \"s\";\nlet d = new { k: 1.5 };\nlet e: ?int = none;\nlet f = 0..2;\n" + m(`println(a, b, c, d.k, e, f);`)},
	{name: "top-level-order", main: m(`println(g, f(), helper());`) + "let g = T_VAL;\nfn f() -> N { 2 }\ntype N = int;\nlet T_VAL = 1;\nfn helper() -> str { \"h\" }\n", kinds: "-"},

	// ------------------------------------------------------------------------------------------
	// imports
	{name: "import-fn", main: "import { add } from lib;\n" + m(`println(add(1, 2));`), mods: map[string]string{"lib": "pub fn add(a: int, b: int) -> int { a + b }\nfn main() {}\n"}},
	{name: "import-single-no-braces", main: "import add from lib;\n" + m(`println(add(1, 2));`), mods: map[string]string{"lib": "pub fn add(a: int, b: int) -> int { a + b }\nfn main() {}\n"}},
	{name: "import-many", main: "import { add, type Pair, sub, } from lib;\n" + m(`let p: Pair = new { l: 5, r: 3 }; println(add(p.l, p.r), sub(p.l, p.r));`), mods: map[string]string{"lib": "pub type Pair = { l: int, r: int };\npub fn add(a: int, b: int) -> int { a + b }\npub fn sub(a: int, b: int) -> int { a - b }\nfn main() {}\n"}},
	{name: "import-type", main: "import type Pair from lib;\n" + m(`let p: Pair = new { l: 5, "r r": "x" }; println(p.l, p["r r"]);`), mods: map[string]string{"lib": "pub type Pair = { l: int, \"r r\": str };\nfn main() {}\n"}},
	{name: "import-global", main: "import { counter, bump } from lib;\n" + m(`bump(); println(counter);`), mods: map[string]string{"lib": "pub let counter = 1;\npub fn bump() { counter += 1; }\nfn main() {}\n"}},
	{name: "import-builtin", main: "import { assert_eq, any_func } from testing;\nimport trigger minute from triggers;\nimport templ FooFeature from templates;\nimport { ping, http } from net;\n" + m(`assert_eq(1, 1); println("ok");`)},
	{name: "import-two-modules", main: "import one from a;\nimport two from b;\n" + m(`println(one() + two());`), mods: map[string]string{"a": "pub fn one() -> int { 1 }\nfn main() {}\n", "b": "import one from a;\npub fn two() -> int { one() + 1 }\nfn main() {}\n"}},
	{name: "import-singleton-fn", main: "import get from lib;\n" + m(`println(get(1));`), mods: map[string]string{"lib": "$S = { n: int, s: str };\npub fn get(sg: $S, k: int) -> int { sg.n + k }\nfn main() {}\n"}, sing: map[string]hs.Value{"$S": sObj(10, "x")}},

	// ------------------------------------------------------------------------------------------
	// control flow expressions
	{name: "if-forms", main: m(`let a = 2; if a == 1 { println("1"); } if a == 2 { println("2"); } else { println("no"); } if a == 0 { println("0"); } else if a == 1 { println("1"); } else if a == 2 { println("two"); } else { println("else"); }`)},
	{name: "if-expression", main: m(`let a = 2; let r = if a > 1 { "big" } else { "small" }; let q = if a > 5 { 1 } else if a > 1 { 2 } else { 3 }; println(r, q, if a == 2 { 1 } else { 0 } + 1);`)},
	{name: "if-tail", main: "fn f(a: int) -> int { if a > 1 { a } else { -a } }\n" + m(`println(f(2), f(-3));`)},
	{name: "if-empty-blocks", main: m(`let a = 1; if a == 1 {} else {} if a == 2 { } println("x");`)},
	{name: "match-default-last", main: m(`for x in 0..4 { println(match x { 0 => "zero", 1 => "one", _ => "many" }); }`)},
	{name: "match-default-first", main: m(`for x in 0..3 { println(match x { _ => "d", 1 => "one" }); }`)},
	{name: "match-default-middle", main: m(`for x in 0..4 { println(match x { 0 => "zero", _ => "d", 2 => "two" }); }`)},
	{name: "match-default-only", main: m(`println(match 5 { _ => "d" });`)},
	{name: "match-no-default-stmt", main: m(`for x in 0..3 { match x { 0 => println("zero"), 1 => { println("one"); } } }`)},
	{name: "match-default-stmt", main: m(`for x in 0..3 { match x { 0 => println("zero"), _ => { println("other"); } } }`)},
	{name: "match-multi-literal", main: m(`for x in 0..6 { println(match x { 0 | 1 => "low", 2 | 3 | 4 => "mid", _ => "high" }); }`)},
	{name: "match-literal-kinds", main: m(`println(match "b" { "a" => 1, "b" => 2, _ => 0 }, match true { false => 1, true => 2, _ => 3 }, match 1.5 { 1.5 => "f", _ => "g" }, match -1 { -1 => "neg", _ => "pos" }, match ?1 { ?1 => "some", _ => "none" }, match !true { !true => "nt", _ => "x" });`)},
	{name: "match-block-arms", main: m(`for x in 0..3 { let r = match x { 0 => { let y = 1; y + 1 } 1 => { 5 }, _ => { 9 } }; println(r); }`)},
	{name: "match-nested", main: m(`for x in 0..3 { println(match x { 0 => match x + 1 { 1 => "a", _ => "b" }, _ => match x { 2 => "c", _ => "d" } }); }`)},
	{name: "match-default-nested-default", main: m(`for x in 0..3 { println(match x { 1 => "one", _ => match x { 2 => "two", _ => "zero" } }); }`)},
	{name: "match-control-expr", main: m(`let l = [1, 2]; println(match l.len() + 1 { 3 => "three", _ => "x" }, match (l[0]) { 1 => "one", _ => "y" });`)},
	{name: "match-tail", main: "fn f(x: int) -> str { match x { 1 => \"one\", _ => \"other\" } }\n" + m(`println(f(1), f(2));`)},
	{name: "match-default-side-effect", main: "fn e(s: str) -> str { println(\"eval\", s); s }\n" + m(`println(match 3 { 1 => e("one"), _ => e("default") });`)},
	{name: "try-forms", main: m(`try { println("a"); throw("boom"); } catch e { println("caught", e.message); } let r = try { 1 } catch _e { 2 }; let q = try { throw("x"); 1 } catch e { e.message.len() }; println(r, q);`)},
	{name: "try-nested", main: m(`try { try { throw("inner"); } catch e { println(e.message); throw("outer"); } } catch e { println(e.message); }`)},
	{name: "try-uncaught", main: m(`println("before"); throw("uncaught \"q\"");`)},
	{name: "block-forms", main: m(`let a = { 1 }; let b = { let x = 2; { let y = x; y * 2 } }; { println("stmt block"); } {} println(a, b, { { { 3 } } });`)},
	{name: "block-shadowing", main: m(`let x = 1; { let x = 2; { let x = 3; println(x); } println(x); } println(x);`)},
	{name: "fn-literal-forms", main: m(`let a = fn() -> int { 1 }; let b = fn(x: int, y: [str]) -> str { y[x] }; let c = fn() { println("c"); }; c(); println(a(), b(0, ["s"]));`)},
	{name: "fn-literal-fn-param", after: "fn-type-params", main: m(`let d = fn(f: fn(i: int) -> int) -> int { f(2) }; println(d(fn(i: int) -> int { i * i }));`)},
	{name: "fn-literal-fn-param0", main: m(`let d = fn(f: fn() -> int) -> int { f() + 1 }; println(d(fn() -> int { 4 }));`)},
	{name: "fn-return-types", main: "fn a() { println(\"a\"); }\nfn b() -> null { null }\nfn c() -> [int] { [1] }\nfn d() -> ?{ k: int } { ?new { k: 1 } }\nfn e() -> fn() -> int { fn() -> int { 7 } }\n" + m(`a(); b(); println(c(), d().unwrap().k, e()());`)},
	{name: "spawn-forms", main: "fn w(x: int) -> int { x * 2 }\nfn n() { println(\"n\"); }\n" + m(`let h = spawn w(21); let k = spawn n(); k.join(); println(h.join());`)},
	{name: "loop-forms", main: m(`let i = 0; loop { i += 1; if i > 3 { break; } if i == 2 { continue; } println("loop", i); } while i > 0 { i -= 1; if i == 1 { continue; } println("while", i); } for c in "héy" { println(c); } for e in [1, 2] { for j in 0..e { if j == 1 { break; } println(e, j); } }`)},
	{name: "return-forms", main: "fn a(x: int) -> int { if x > 1 { return x; } return 0; }\nfn b(x: int) { if x > 1 { return; } println(\"b\", x); }\nfn c() -> null { return null; }\n" + m(`println(a(2), a(1)); b(2); b(1); c();`)},
	{name: "null-stmt-forms", main: m(`let n = null; let f = fn() -> null { null }; let k: null = f(); println(n == k);`)},
	{name: "ident-underscore", main: m(`let _x = 1; let x_1 = 2; let X = 3; for _ in 0..2 { print("."); } println(_x + x_1 + X);`)},
	{name: "comments-dropped", main: "// leading\nfn main() { /* block */ println(1 /* inner */ + 2); // trailing\n}\n"},
	{name: "semicolon-forms", main: m(`let a = 1; if a == 1 { println("if"); }; { println("blk"); }; match a { _ => println("m") }; println("end")`)},

	// ------------------------------------------------------------------------------------------
	// optimizer: diverging statements followed by further statements
	// expression statements whose value is dropped: evaluating them can still fail or have effects
	{name: "opt-stmt-index-oob", main: m(`println("a"); [1, 2, 3][7]; println("after");`)},
	{name: "opt-stmt-div-zero", main: m(`println("a"); 1 / 0; println("after");`)},
	{name: "opt-stmt-mod-zero", main: m(`println("a"); 5 % 0; println("after");`)},
	{name: "opt-stmt-shift-negative", main: m(`println("a"); 1 << (0 - 1); println("after");`)},
	{name: "opt-stmt-str-index-oob", main: m(`println("a"); "abc"[5]; println("after");`)},
	{name: "opt-stmt-call-in-index", main: "fn next() -> int { println(\"next\"); 1 }\n" + m(`[10, 20, 30][next()]; println("after");`)},
	{name: "opt-stmt-call-in-list", main: "fn next() -> int { println(\"next\"); 1 }\n" + m(`[next(), 2]; println("after");`)},
	{name: "opt-stmt-harmless-constants", main: m(`1 + 2; [1, 2][0]; "a" + "b"; true && false; 1.5 * 2.0; println("after");`)},
	{name: "opt-stmt-in-function", main: "fn f() -> int { [1][3]; 5 }\n" + m(`println("a"); println(f()); println("after");`)},
	{name: "opt-stmt-in-nested-block", main: m(`println("a"); if true { [1][3]; } println("after");`)},
	{name: "opt-stmt-in-loop", main: m(`for i in 0..3 { println(i); [1, 2][i]; } println("after");`)},
	{name: "opt-stmt-in-try", main: m(`try { [1][3]; println("not here"); } catch e { println("caught"); } println("after");`)},
	{name: "opt-stmt-caught-cast", main: m(`try { ("x".parse_json() as str); println("no"); } catch e { println("caught"); } println("after");`)},
	{name: "opt-return-then-stmts", main: "fn f() -> int { println(\"in\"); return 1; println(\"dead\"); 2 }\n" + m(`println(f());`)},
	{name: "opt-return-then-let-tail", main: "fn f() -> int { return 1; let x = 2; x }\n" + m(`println(f());`)},
	{name: "opt-return-then-let-used", main: "fn f() -> int { return 1; let x = 2; println(x); let y = x + 1; y }\n" + m(`println(f());`)},
	{name: "opt-return-null-then", main: "fn f() { println(\"a\"); return; println(\"dead\"); }\n" + m(`f(); println("after");`)},
	{name: "opt-return-in-main", main: m(`println("a"); return; println("dead");`)},
	{name: "opt-throw-then", main: "fn f() -> int { throw(\"t\"); println(\"dead\"); 1 }\n" + m(`try { println(f()); } catch e { println("caught", e.message); }`)},
	{name: "opt-throw-in-main", main: m(`println("a"); throw("t"); println("dead");`)},
	{name: "opt-loop-return-then", main: "fn f() -> int { let i = 0; loop { i += 1; if i > 2 { return i; } } println(\"dead\"); 0 }\n" + m(`println(f());`)},
	{name: "opt-loop-break-then", main: "fn f() -> int { let i = 0; loop { i += 1; if i > 2 { break; } } println(\"live\"); i }\n" + m(`println(f());`)},
	{name: "opt-loop-nested-break", main: "fn f() -> int { let i = 0; loop { i += 1; loop { break; } if i > 2 { return i; } } println(\"dead\"); 0 }\n" + m(`println(f());`)},
	{name: "opt-loop-break-in-inner-for", main: "fn f() -> int { let i = 0; loop { i += 1; for j in 0..3 { if j == 1 { break; } } while true { break; } if i > 2 { return i; } } println(\"dead\"); 0 }\n" + m(`println(f());`)},
	{name: "opt-loop-break-in-match", main: "fn f() -> int { let i = 0; loop { i += 1; match i { 3 => { break; } _ => {} } } println(\"live\"); i }\n" + m(`println(f());`)},
	{name: "opt-loop-break-in-try", main: "fn f() -> int { let i = 0; loop { i += 1; try { if i > 2 { break; } } catch e { println(e); } } println(\"live\"); i }\n" + m(`println(f());`)},
	{name: "opt-loop-break-in-closure-loop", main: "fn f() -> int { let i = 0; loop { i += 1; let g = fn() { loop { break; } }; g(); if i > 2 { return i; } } println(\"dead\"); 0 }\n" + m(`println(f());`)},
	{name: "opt-loop-throw-then", main: "fn f() -> int { let i = 0; loop { i += 1; if i > 2 { throw(\"out\"); } } println(\"dead\"); 0 }\n" + m(`try { println(f()); } catch e { println(e.message); }`)},
	{name: "opt-while-return-then", main: "fn f() -> int { let i = 0; while true { i += 1; if i > 2 { return i; } } println(\"dead?\"); 0 }\n" + m(`println(f());`)},
	{name: "opt-while-then-live", main: "fn f() -> int { let i = 0; while i < 3 { i += 1; } println(\"live\"); i }\n" + m(`println(f());`)},
	{name: "opt-for-return-then", main: "fn f() -> int { for i in 0..5 { if i == 7 { return i; } } println(\"live\"); 0 }\n" + m(`println(f());`)},
	{name: "opt-if-never-both", main: "fn f(c: bool) -> int { if c { return 1; } else { return 2; } println(\"dead\"); 3 }\n" + m(`println(f(true), f(false));`)},
	{name: "opt-if-never-then-only", main: "fn f(c: bool) -> int { if c { return 1; } println(\"live\"); 3 }\n" + m(`println(f(true), f(false));`)},
	{name: "opt-if-never-one-branch", main: "fn f(c: bool) -> int { if c { return 1; } else { println(\"else\"); } println(\"live\"); 3 }\n" + m(`println(f(true), f(false));`)},
	{name: "opt-if-never-else-only", main: "fn f(c: bool) -> int { if c { println(\"then\"); } else { return 2; } println(\"live\"); 3 }\n" + m(`println(f(true), f(false));`)},
	{name: "opt-elseif-never", main: "fn f(c: int) -> int { if c == 0 { return 1; } else if c == 1 { return 2; } println(\"live\"); 3 }\n" + m(`println(f(0), f(1), f(2));`)},
	{name: "opt-match-never-default", main: "fn f(x: int) -> int { match x { 1 => { return 1; } _ => { return 2; } } println(\"dead\"); 3 }\n" + m(`println(f(1), f(5));`)},
	{name: "opt-match-never-no-default", main: "fn f(x: int) -> int { match x { 1 => { return 1; } } println(\"live\"); 3 }\n" + m(`println(f(1), f(5));`)},
	{name: "opt-match-never-no-default-two", main: "fn f(x: int) -> int { match x { 1 => { return 1; } 2 => { return 2; } } println(\"live\"); 3 }\n" + m(`println(f(1), f(2), f(5));`)},
	{name: "opt-match-never-throw-arm", main: "fn f(x: int) -> int { match x { 1 => throw(\"one\") } println(\"live\"); 3 }\n" + m(`println(f(5)); try { f(1); } catch e { println(e.message); }`)},
	{name: "opt-match-one-arm-never", main: "fn f(x: int) -> int { match x { 1 => { return 1; } _ => { println(\"d\"); } } println(\"live\"); 3 }\n" + m(`println(f(1), f(5));`)},
	{name: "opt-match-empty", main: "fn f(x: int) -> int { match x { } println(\"live\"); 3 }\n" + m(`println(f(1));`)},
	{name: "opt-try-never-both", main: "fn f(c: bool) -> int { try { if c { throw(\"x\"); } return 1; } catch e { return 2; } println(\"dead\"); 3 }\n" + m(`println(f(true), f(false));`)},
	{name: "opt-try-never-try-only", main: "fn f(c: bool) -> int { try { if c { throw(\"x\"); } return 1; } catch e { println(\"caught\"); } println(\"live\"); 3 }\n" + m(`println(f(true), f(false));`)},
	{name: "opt-try-never-catch-only", main: "fn f(c: bool) -> int { try { if c { throw(\"x\"); } } catch e { return 2; } println(\"live\"); 3 }\n" + m(`println(f(true), f(false));`)},
	{name: "opt-infix-never-rhs", main: "fn f(c: bool) -> int { c && { return 1; }; println(\"live\"); 3 }\n" + m(`println(f(true), f(false));`)},
	{name: "opt-infix-never-rhs-or", main: "fn f(c: bool) -> int { c || { return 1; }; println(\"live\"); 3 }\n" + m(`println(f(true), f(false));`)},
	{name: "opt-assign-never", main: "fn f() -> int { let x = 0; x = { return 1; }; println(\"dead\"); x }\n" + m(`println(f());`)},
	{name: "opt-let-never", main: "fn f() -> int { let x: int = { return 1; }; println(\"dead\"); x }\n" + m(`println(f());`)},
	{name: "opt-call-never-arg", main: "fn g(a: int) -> int { a }\nfn f() -> int { g({ return 1; }); println(\"dead\"); 2 }\n" + m(`println(f());`)},
	{name: "opt-block-stmt-never", main: "fn f() -> int { { println(\"in\"); return 1; } println(\"dead\"); 2 }\n" + m(`println(f());`)},
	{name: "opt-nested-block-dead", main: "fn f(c: bool) -> int { if c { println(\"a\"); return 1; println(\"dead\"); } for i in 0..2 { println(i); continue; println(\"dead\"); } loop { break; println(\"dead\"); } 2 }\n" + m(`println(f(true), f(false));`)},
	{name: "opt-closure-dead", main: m(`let g = fn() -> int { return 1; println("dead"); 2 }; println(g());`)},
	{name: "opt-dead-type-def", main: "fn f() -> int { return 1; type T = int; let x: T = 2; x }\n" + m(`println(f());`)},
	{name: "opt-dead-closure-capture", main: "fn f() -> int { let a = 1; return a; let g = fn() -> int { 5 }; g() }\n" + m(`println(f());`)},
	{name: "opt-never-tail-only", main: "fn f() -> int { println(\"x\"); return 1 }\n" + m(`println(f());`), kinds: "-"},
	{name: "opt-two-nevers", main: "fn f(c: bool) -> int { if c { return 1; } else { return 2; } return 3; return 4; 5 }\n" + m(`println(f(true));`)},
	{name: "opt-event-and-impl", main: "import templ FooFeature from templates;\n$D = { n: int, s: str };\nimpl FooFeature with { light } for $D {\n    fn dim(self: $D, percent: int) -> bool { return true; println(\"dead\"); false }\n}\n" + m(`println(dim(1));`), sing: map[string]hs.Value{"$D": sObj(41, "x")}},
	{name: "opt-module-fn", main: "import f from lib;\n" + m(`println(f());`), mods: map[string]string{"lib": "pub fn f() -> int { return 1; let x = 2; x }\nfn main() {}\n"}},
}

func (f form) wants(kind string) bool {
	return f.kinds == "" || strings.Contains(f.kinds, kind)
}

func formCase(f form, kind string) Case {
	mods := map[string]string{"main": f.main}
	for n, t := range f.mods {
		mods[n] = t
	}
	c := Case{ProgCase: px.ProgCase{Modules: mods, Entry: "main", Limits: sb.DefaultLimits(), Note: f.name}, Kind: kind}
	if len(f.sing) > 0 {
		c.Singletons = map[string]hs.WV{}
		for k, v := range f.sing {
			c.Singletons[k] = hs.WV{V: v}
		}
	}
	return c
}

// TestTableForms: every printer form and every optimizer position once, all root causes in one run.
func TestTableForms(t *testing.T) {
	pk.SkipIfReplay(t)
	col := pk.NewCollector()
	seen := map[string]bool{}
	var rejected []string
	k := 0
	for _, f := range forms {
		if seen[f.name] {
			t.Fatalf("duplicate form name %s", f.name)
		}
		seen[f.name] = true
		if f.kinds == "-" {
			continue // kept for documentation: not accepted by the analyzer of the pinned tree
		}
		for _, kind := range []string{"parsed", "analyzed", "optimize"} {
			if !f.wants(kind) {
				continue
			}
			k++
			if !pk.Mine(k) {
				continue
			}
			c := formCase(f, kind)
			if kind == "parsed" {
				// acceptance of the table itself is checked once per form
				orig := px.Pool().Exec(c.Request("vm"))
				if orig.Crash == "" && !orig.Hang && !orig.Inconclusive && !orig.Accepted {
					if f.after != "" {
						pk.Gate("form-needs:" + f.after)
					} else {
						rejected = append(rejected, f.name+": "+firstProblem(orig))
					}
				}
			}
			pk.Eval()
			fl := checkRoundTrip(c)
			if fl != nil {
				fl.Sig = fl.Sig + " [" + f.name + "]"
				fl.Msg = "form " + f.name + "\n" + fl.Msg
			} else {
				pk.NonTrivial(f.name+kind, map[string]any{"form": f.name, "kind": kind, "program": f.main})
			}
			col.Report(c, fl)
		}
	}
	if len(rejected) > 0 {
		sort.Strings(rejected)
		t.Errorf("table programs that the analyzer does not accept (table defect, not a finding):\n  %s", strings.Join(rejected, "\n  "))
	}
	col.Done(t)
}

// formGroup: the family of a form ("str-quote" -> "str"), used in signatures so that one root
// cause shows up once per family rather than once per program.
func formGroup(name string) string {
	if i := strings.IndexByte(name, '-'); i > 0 {
		return name[:i]
	}
	return name
}
