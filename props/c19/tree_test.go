package c19

import (
	"fmt"
	"testing"

	"pgregory.net/rapid"

	aast "github.com/smarthome-go/homescript/v3/homescript/analyzer/ast"
	"github.com/smarthome-go/homescript/v3/homescript/errors"
	past "github.com/smarthome-go/homescript/v3/homescript/parser/ast"

	"verif/pk"
	"verif/px"
	"verif/sb"
)

// Analysed trees that no source text produces: the fuzz tool chain's transformer builds
// expression trees without GroupedExpression nodes and serialises them with String(). The
// property asks that the printed text means what the tree means. The tree is built here from
// the repository's own node types and printed in-process (String() is a pure function); its
// meaning is taken from a fully parenthesised rendering of the same tree, both texts run in the
// sandbox.

type TreeCase struct {
	px.ProgCase        // Modules["main"]: the printer's text at generation time (documentation only)
	Tree        *tnode // the tree itself: it is printed anew by every evaluation / replay
	Reference   string // fully parenthesised text of the same tree
	Kind        string
}

type tnode struct {
	Op   string // infix operator, "neg", "lit", "tofloat"
	L, R *tnode `json:",omitempty"`
	V    int64  `json:",omitempty"`
}

var treeOps = []struct {
	s  string
	op past.InfixOperator
}{
	{"+", past.PlusInfixOperator}, {"-", past.MinusInfixOperator}, {"*", past.MultiplyInfixOperator},
	{"/", past.DivideInfixOperator}, {"%", past.ModuloInfixOperator}, {"**", past.PowerInfixOperator},
	{"<<", past.ShiftLeftInfixOperator}, {">>", past.ShiftRightInfixOperator}, {"|", past.BitOrInfixOperator},
	{"&", past.BitAndInfixOperator}, {"^", past.BitXorInfixOperator},
}

func genTree(rt *rapid.T, depth int) *tnode {
	k := rapid.IntRange(0, 9).Draw(rt, "node")
	if depth <= 0 || k < 2 {
		return &tnode{Op: "lit", V: int64(rapid.IntRange(1, 9).Draw(rt, "lit"))}
	}
	if k == 2 {
		return &tnode{Op: "neg", L: genTree(rt, depth-1)}
	}
	if k == 3 {
		return &tnode{Op: "tofloat", L: genTree(rt, depth-1)}
	}
	o := treeOps[rapid.IntRange(0, len(treeOps)-1).Draw(rt, "op")]
	return &tnode{Op: o.s, L: genTree(rt, depth-1), R: genTree(rt, depth-1)}
}

// reference: every compound node in parentheses
func (n *tnode) ref() string {
	switch n.Op {
	case "lit":
		return fmt.Sprint(n.V)
	case "neg":
		return "(-" + n.L.ref() + ")"
	case "tofloat":
		return "((" + n.L.ref() + " as float) as int)"
	}
	return "(" + n.L.ref() + " " + n.Op + " " + n.R.ref() + ")"
}

// the analysed tree, without grouping nodes
func (n *tnode) analysed() aast.AnalyzedExpression {
	sp := errors.Span{}
	intT := aast.NewIntType(sp)
	switch n.Op {
	case "lit":
		return aast.AnalyzedIntLiteralExpression{Value: n.V, Range: sp}
	case "neg":
		return aast.AnalyzedPrefixExpression{Operator: aast.MinusPrefixOperator, Base: n.L.analysed(), ResultType: intT, Range: sp}
	case "tofloat":
		return aast.AnalyzedCastExpression{Base: aast.AnalyzedCastExpression{Base: n.L.analysed(), AsType: aast.NewFloatType(sp), Range: sp}, AsType: intT, Range: sp}
	}
	for _, o := range treeOps {
		if o.s == n.Op {
			return aast.AnalyzedInfixExpression{Lhs: n.L.analysed(), Rhs: n.R.analysed(), Operator: o.op, ResultType: intT, Range: sp}
		}
	}
	panic("op " + n.Op)
}

func (n *tnode) size() int {
	if n == nil {
		return 0
	}
	return 1 + n.L.size() + n.R.size()
}

func treeProgram(expr string) string {
	return "fn main() {\n    println(" + expr + ");\n}\n"
}

func checkTree(c TreeCase) *pk.Failure {
	sub := "tree"
	run := func(text string, what string) (*sb.Response, *pk.Failure) {
		pc := c.ProgCase
		pc.Modules = map[string]string{"main": text}
		resp := px.Pool().Exec(pc.Request("vm", "tree"))
		if f := px.SandboxFailure(sub, resp); f != nil {
			f.Sig = what + " " + f.Sig
			return nil, f
		}
		return resp, nil
	}
	ref, f := run(c.Reference, "reference")
	if f != nil || ref.Inconclusive {
		// a crash of the reference text is not the printer's business
		pk.Discard("reference-crashes")
		return nil
	}
	if !ref.Accepted {
		pk.Discard("reference-not-accepted")
		return nil
	}
	pk.Extra("programs", 1)
	if c.Tree != nil {
		c.ProgCase.Modules = map[string]string{"main": treeProgram(c.Tree.analysed().String())}
	}
	got, f := run(c.Modules["main"], "printed")
	if f != nil {
		f.Msg = "--- printed tree\n" + c.Modules["main"] + "\n--- the tree, fully parenthesised\n" + c.Reference + "\n" + f.Msg
		return f
	}
	if !got.Accepted {
		return pk.Failf(sub, "tree:rejected:"+firstProblem(got), "the printed tree is not accepted\n%s--- printed tree\n%s\n--- the tree, fully parenthesised\n%s", diagText(got), c.Modules["main"], c.Reference)
	}
	pk.Extra("comparisons", 1)
	if w, g := behaviour(ref), behaviour(got); w != g {
		return pk.Failf(sub, "tree:behaviour", "the printed tree means something else than the tree\n--- tree (fully parenthesised)\n%s%s--- printed by String()\n%s%s", c.Reference, w, c.Modules["main"], g)
	}
	return nil
}

func init() { pk.Reg("tree", checkTree) }

func treeCase(n *tnode) TreeCase {
	printed := treeProgram(n.analysed().String())
	return TreeCase{ProgCase: px.ProgCase{Modules: map[string]string{"main": printed}, Entry: "main", Limits: sb.DefaultLimits()},
		Tree: n, Reference: treeProgram(n.ref()), Kind: "tree"}
}

// TestTreeShape: expression trees whose shape differs from the left-to-right reading of their text.
func TestTreeShape(t *testing.T) {
	pk.SkipIfReplay(t)
	if pk.GateOpen("print-infix-parens") {
		pk.Gate("print-infix-parens")
		t.Skip("gated by an open finding")
	}
	rapid.Check(t, func(rt *rapid.T) {
		n := genTree(rt, rapid.IntRange(1, 4).Draw(rt, "depth"))
		c := treeCase(n)
		pk.Eval()
		if n.size() >= 3 {
			pk.NonTrivial(c.Reference, map[string]any{"tree": c.Reference, "printed": c.Modules["main"]})
		}
		pk.Judge(rt, c, checkTree(c))
	})
}
