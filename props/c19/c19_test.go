package c19

import (
	"fmt"
	"os"
	"path/filepath"
	"regexp"
	"sort"
	"strings"
	"testing"

	"pgregory.net/rapid"

	"verif/gen"
	"verif/pk"
	"verif/px"
	"verif/sb"
)

func TestMain(m *testing.M) { pk.Main(m) }

type Case struct {
	px.ProgCase
	Kind string // parsed | analyzed | optimize
	// AllModules (analyzed): every module of the program is replaced by its printed text, not the entry only
	AllModules bool `json:",omitempty"`
}

func behaviour(resp *sb.Response) string {
	var b strings.Builder
	for _, r := range resp.Runs {
		cls, kind, msg := px.OutcomeClass(r.Outcome)
		fmt.Fprintf(&b, "[%s] %s/%s/%q out=%q", r.Backend, cls, kind, msg, strings.Join(r.Writes, ""))
		if len(r.Triggers) > 0 {
			fmt.Fprintf(&b, " triggers=%v", trigText(r.Triggers))
		}
		if len(r.Annotations) > 0 {
			fmt.Fprintf(&b, " annotations=%q", r.Annotations)
		}
		b.WriteString("\n")
	}
	return b.String()
}

func diagText(resp *sb.Response) string {
	var b strings.Builder
	for _, d := range resp.SyntaxErrors {
		fmt.Fprintf(&b, "  syntax: %s @%s:%d:%d\n", d.Message, d.Span.Filename, d.Span.Start.Line, d.Span.Start.Column)
	}
	for _, d := range resp.ErrorDiags() {
		fmt.Fprintf(&b, "  error: %s @%s:%d:%d\n", d.Message, d.Span.Filename, d.Span.Start.Line, d.Span.Start.Column)
	}
	return b.String()
}

func firstProblem(resp *sb.Response) string {
	m := ""
	if len(resp.SyntaxErrors) > 0 {
		m = "syntax: " + resp.SyntaxErrors[0].Message
	} else if e := resp.ErrorDiags(); len(e) > 0 {
		m = e[0].Message
	}
	if len(m) > 48 {
		m = m[:48]
	}
	return strings.Map(func(r rune) rune {
		if r >= '0' && r <= '9' {
			return 'N'
		}
		return r
	}, m)
}

func exec(req *sb.Request, c Case, what string) (*sb.Response, *pk.Failure) {
	resp := px.Pool().Exec(req)
	if f := px.SandboxFailure("print", resp); f != nil {
		f.Sub = c.Kind
		f.Sig = what + " " + f.Sig
		f.Msg = px.ProgText(c.ProgCase) + "\n" + f.Msg
		return nil, f
	}
	return resp, nil
}

// checkRoundTrip: printing and re-parsing preserves acceptance and behaviour, and printing is a
// fixed point after one round; the optimizer's output behaves like its input.
func checkRoundTrip(c Case) *pk.Failure {
	backends := []string{"vm", "tree"}
	orig, f := exec(c.Request(backends...), c, "original")
	if f != nil {
		// A host crash / hang of the original program is the finding of another property (C02):
		// the interpreter alone still decides whether printing / optimising preserves the meaning.
		backends = []string{"tree"}
		if orig, f = exec(c.Request(backends...), c, "original"); f != nil {
			pk.Discard("original-crashes")
			return nil
		}
		pk.Extra("original-crashes-on-vm", 1)
	}
	if orig.Inconclusive {
		pk.Inconclusive()
		return nil
	}
	if !orig.Accepted {
		pk.Discard("original-not-accepted")
		return nil
	}
	want := behaviour(orig)
	pk.Extra("programs", 1)
	if c.Kind == "optimize" {
		req := c.Request(backends...)
		req.Optimize = true
		opt, f := exec(req, c, "optimized")
		if f != nil {
			return f
		}
		pk.Extra("comparisons", 1)
		if got := behaviour(opt); got != want {
			return pk.Failf("optimize", "optimize:behaviour", "the optimizer's output behaves differently\n--- original\n%s--- optimized\n%s%s", want, got, px.ProgText(c.ProgCase))
		}
		return nil
	}
	// print
	preq := &sb.Request{Op: "print", Modules: c.Modules, Entry: c.Entry, PrintKind: c.Kind}
	printed, f := exec(preq, c, "print")
	if f != nil {
		return f
	}
	if printed.Err != "" || len(printed.Texts) == 0 {
		return pk.Failf(c.Kind, c.Kind+":print-failed", "printing failed: %s\n%s", printed.Err, px.ProgText(c.ProgCase))
	}
	texts := printed.Texts
	if c.Kind == "analyzed" && !c.AllModules {
		// the fuzz tool chain serialises the entry module; other modules keep their source
		t2 := map[string]string{}
		for n, t := range c.Modules {
			t2[n] = t
		}
		t2[c.Entry] = printed.Texts[c.Entry]
		texts = t2
	}
	c1 := c
	c1.Modules = texts
	re, f := exec(c1.Request(backends...), c, "reparsed")
	if f != nil {
		f.Msg = "--- printed text\n" + texts[c.Entry] + "\n" + f.Msg
		return f
	}
	if !re.Accepted {
		return pk.Failf(c.Kind, c.Kind+":rejected:"+firstProblem(re), "the printed program is not accepted\n%s--- printed text\n%s\n--- original\n%s", diagText(re), texts[c.Entry], px.ProgText(c.ProgCase))
	}
	pk.Extra("comparisons", 1)
	if got := behaviour(re); got != want {
		return pk.Failf(c.Kind, c.Kind+":behaviour", "the printed program behaves differently\n--- original\n%s--- printed\n%s--- printed text\n%s\n--- original text\n%s", want, got, texts[c.Entry], px.ProgText(c.ProgCase))
	}
	// fixed point
	preq2 := &sb.Request{Op: "print", Modules: texts, Entry: c.Entry, PrintKind: c.Kind}
	printed2, f := exec(preq2, c, "print2")
	if f != nil {
		return f
	}
	if printed2.Err != "" {
		return pk.Failf(c.Kind, c.Kind+":second-print-failed", "printing the printed text failed: %s\n%s", printed2.Err, texts[c.Entry])
	}
	if printed2.Texts[c.Entry] != texts[c.Entry] {
		return pk.Failf(c.Kind, c.Kind+":not-a-fixed-point", "printing is not a fixed point after one round\n--- first print\n%s\n--- second print\n%s", texts[c.Entry], printed2.Texts[c.Entry])
	}
	return nil
}

func init() {
	pk.Reg("parsed", checkRoundTrip)
	pk.Reg("analyzed", checkRoundTrip)
	pk.Reg("optimize", checkRoundTrip)
}

func TestReplay(t *testing.T) { pk.ReplayTest(t) }

var gates = []string{"exit-pending", "slot-operand", "tree-var-operand", "print-string-escape", "print-anyobj", "print-match-default", "print-singleton", "print-event", "print-infix-parens", "print-impl", "print-pub-global"}

func printCfg() gen.Cfg {
	c := gen.ModelCfg()
	c.Unicode = true
	c.PrintObjects = false
	for _, g := range gates {
		if pk.GateOpen(g) {
			c.Off[g] = true
		}
	}
	return c
}

func genCase(rt *rapid.T, kind string) (Case, bool) {
	cfg := printCfg()
	if kind != "parsed" {
		// trigger statements are VM-only; keep both backends comparable
		cfg.Triggers = false
	}
	cfg.Triggers = false
	g := gen.Program(rt, cfg)
	if tr, ok := px.Model(g); !ok && px.TooBig(tr) {
		return Case{}, false
	} else if ok {
		if (tr.Feat["hazard:slot-operand"] > 0 && pk.GateOpen("slot-operand")) || (tr.Feat["hazard:var-operand"] > 0 && pk.GateOpen("tree-var-operand")) {
			pk.Gate("aliasing")
			return Case{}, false
		}
	} else if g.Feat["assign-elem"]+g.Feat["assign-field"]+g.Feat["assign-in-expr"]+g.Feat["assign-global"] > 0 && (pk.GateOpen("slot-operand") || pk.GateOpen("tree-var-operand")) {
		pk.Gate("aliasing(static)")
		return Case{}, false
	}
	c := Case{ProgCase: px.FromGenerated(g), Kind: kind}
	if gate := gatedByText(c.ProgCase); gate != "" {
		pk.Gate(gate)
		return Case{}, false
	}
	return c, true
}

func runKind(t *testing.T, kind string) {
	pk.SkipIfReplay(t)
	rapid.Check(t, func(rt *rapid.T) {
		c, ok := genCase(rt, kind)
		pk.Eval()
		if !ok {
			pk.Discard("gated-or-too-big")
			return
		}
		pk.NonTrivial(px.ProgText(c.ProgCase)+kind, map[string]any{"kind": kind, "program": c.Modules["main"]})
		pk.Judge(rt, c, checkRoundTrip(c))
	})
}

func TestParsedRoundTrip(t *testing.T)   { runKind(t, "parsed") }
func TestAnalyzedRoundTrip(t *testing.T) { runKind(t, "analyzed") }
func TestOptimizer(t *testing.T)         { runKind(t, "optimize") }

var importRe = regexp.MustCompile(`(?m)^\s*import\b[^;]*\bfrom\s+([A-Za-z_][A-Za-z0-9_]*)\s*;`)

// Shipped scripts: every example / test script that the analyzer accepts as a single module.
// Programs of several modules, every module printed: what a module exports (pub functions, globals, types) is
// part of the program too.
var moduleForms = map[string]map[string]string{
	"pub-items": {
		"main": "import { g, type T, f } from a;\nfn main() { let t: T = new { v: g }; println(t.v, f()); }\n",
		"a":    "pub let g = 5;\npub type T = { v: int };\npub fn f() -> int { g + 1 }\nlet hidden = 1;\ntype H = int;\nfn main() {}\n"},
	"chain": {
		"main": "import { top } from a;\nfn main() { println(top(2)); }\n",
		"a":    "import { base, type N } from b;\npub fn top(x: int) -> int { let n: N = x; n * base }\nfn main() {}\n",
		"b":    "pub let base = 10;\npub type N = int;\nfn main() {}\n"},
	"shared-global": {
		"main": "import { counter, bump } from a;\nimport { viab } from b;\nfn main() { bump(); println(counter, viab()); }\n",
		"a":    "pub let counter = 0;\npub fn bump() { counter += 1; }\nfn main() {}\n",
		"b":    "import { counter } from a;\npub fn viab() -> int { counter * 2 }\nfn main() {}\n"},
	"pub-object-and-option-types": {
		"main": "import { type P, type O, mk } from a;\nfn main() { let p: P = mk(1); let o: O = ?p; println(p.x, o.is_some()); }\n",
		"a":    "pub type P = { x: int, l: [str] };\npub type O = ?P;\npub fn mk(x: int) -> P { new { x: x, l: [\"s\"] } }\nfn main() {}\n"},
}

func TestTableModuleForms(t *testing.T) {
	pk.SkipIfReplay(t)
	col := pk.NewCollector()
	names := make([]string, 0, len(moduleForms))
	for n := range moduleForms {
		names = append(names, n)
	}
	sort.Strings(names)
	k := 0
	for _, n := range names {
		for _, kind := range []string{"parsed", "analyzed", "optimize"} {
			k++
			if !pk.Mine(k) {
				continue
			}
			c := Case{ProgCase: px.ProgCase{Modules: moduleForms[n], Entry: "main", Limits: sb.DefaultLimits(), Note: "modules " + n}, Kind: kind, AllModules: true}
			pk.Eval()
			pk.NonTrivial(n+kind, map[string]any{"program": n, "kind": kind})
			f := checkRoundTrip(c)
			if f != nil {
				f.Sig = f.Sig + " [modules " + n + "]"
			}
			col.Report(c, f)
		}
	}
	pk.Exhaustive("module-forms")
	col.Done(t)
}

// clockDependent: the script reads the wall clock (`time.now()`); two runs of it need not print the same text, so a
// comparison of two runs says nothing about the code.
func clockDependent(mods map[string]string) bool {
	for _, text := range mods {
		if strings.Contains(text, "time.now") {
			return true
		}
	}
	return false
}

func TestTableShipped(t *testing.T) {
	pk.SkipIfReplay(t)
	col := pk.NewCollector()
	var files []string
	for _, pat := range []string{"/repo/examples/*.hms", "/repo/tests/*.hms"} {
		m, _ := filepath.Glob(pat)
		files = append(files, m...)
	}
	sort.Strings(files)
	// dates/sig_term: clock, no end; pi/e/apery/matrix: run time; try: prints a caught error object,
	// whose line/column fields legitimately change when the text is laid out anew
	skip := map[string]bool{"dates": true, "sig_term": true, "pi": true, "e": true, "apery": true, "matrix": true, "try": true}
	k := 0
	for _, f := range files {
		name := strings.TrimSuffix(filepath.Base(f), ".hms")
		if skip[name] {
			continue
		}
		b, err := os.ReadFile(f)
		if err != nil {
			continue
		}
		// the script and the modules of its directory that it imports, transitively (printing
		// an unrelated module of the directory must not decide this script's case)
		mods := map[string]string{name: string(b)}
		for todo := []string{string(b)}; len(todo) > 0; todo = todo[1:] {
			for _, im := range importRe.FindAllStringSubmatch(todo[0], -1) {
				if _, have := mods[im[1]]; have {
					continue
				}
				if gb, err := os.ReadFile(filepath.Join(filepath.Dir(f), im[1]+".hms")); err == nil {
					mods[im[1]] = string(gb)
					todo = append(todo, string(gb))
				}
			}
		}
		if clockDependent(mods) {
			pk.Class("shipped-skipped:reads-the-clock")
			continue
		}
		for _, kind := range []string{"parsed", "analyzed", "optimize"} {
			k++
			if !pk.Mine(k) {
				continue
			}
			c := Case{ProgCase: px.ProgCase{Modules: mods, Entry: name, Limits: sb.Limits{Call: 2048, Stack: 5000, Mem: 100000, TreeCall: 2048}, Note: f}, Kind: kind}
			pk.Eval()
			fl := checkRoundTrip(c)
			if fl != nil {
				fl.Sig = fl.Sig + " [" + name + "]"
			} else {
				pk.NonTrivial(f+kind, map[string]any{"file": f, "kind": kind})
			}
			col.Report(c, fl)
		}
	}
	col.Done(t)
}

// trigText renders trigger registrations without their spans (a printed program has a new layout).
func trigText(ts []sb.TriggerCall) []string {
	var out []string
	for _, t := range ts {
		out = append(out, fmt.Sprintf("%s@%s(%s)", t.Callback, t.Trigger, strings.Join(t.Args, ",")))
	}
	return out
}

// Request: like ProgCase.Request, and the compiled function annotations are evaluated as well.
func (c Case) Request(backends ...string) *sb.Request {
	r := c.ProgCase.Request(backends...)
	r.Annotations = true
	return r
}
