package c19

import (
	"fmt"
	"regexp"
	"strconv"
	"strings"
	"testing"
	"unicode"

	"pgregory.net/rapid"

	"verif/pk"
	"verif/px"
	"verif/sb"
)

// Generators that live in this package: literal classes and form mixtures that the shared
// program generator (verif/gen) does not reach.

// ---------------------------------------------------------------------------------------------
// gates by text: the shared generator has no switches for printer forms, so programs containing
// a form that an open finding covers are discarded after generation.

var textGates = []struct {
	gate string
	re   *regexp.Regexp
}{
	{"print-string-escape", regexp.MustCompile(`\\|"[^"\n]*[\n\t][^"\n]*"`)},
	{"print-float-exponent", regexp.MustCompile(`\b\d{7,}\.\d|\b0\.0000\d|\b\d{19,}f\b`)},
	{"print-anyobj", regexp.MustCompile(`\{\s*\?\s*\}`)},
	{"print-match-default", regexp.MustCompile(`\b_\s*=>`)},
	{"print-singleton", regexp.MustCompile(`\$[A-Za-z_]`)},
	{"print-event", regexp.MustCompile(`\bevent\s+fn\b`)},
	{"print-impl", regexp.MustCompile(`\bimpl\s`)},
	{"print-pub-global", regexp.MustCompile(`\bpub\s+let\b`)},
	{"print-object-type-key", regexp.MustCompile(`[:>(\[]\s*\{\s*("[^"]*"|[A-Za-z_]\w+)\s*:`)},
	{"print-fn-type-params", regexp.MustCompile(`\bfn\s*\(\s*\w`)},
	{"print-type-import", regexp.MustCompile(`\bimport\b[^;]*\btype\b`)},
	{"match-never-no-default", regexp.MustCompile(`\bmatch\b`)},
}

// gatedByText returns the name of the first closed gate whose form occurs in the text.
func gatedByText(c px.ProgCase) string {
	for _, g := range textGates {
		if !pk.GateOpen(g.gate) {
			continue
		}
		for _, t := range c.Modules {
			if g.re.MatchString(t) {
				return g.gate
			}
		}
	}
	return ""
}

// ---------------------------------------------------------------------------------------------
// string literals of every class

var runePool = func() []rune {
	pool := []rune{'a', 'Z', '0', ' ', ' ', '"', '\'', '\\', '\n', '\t', '\r', '\b', 0x7f, 0x80, 0x85, 0xa0, 0xad, 'é', 'ß', '日', '𝄞', '$', '{', '}', '%', '/', '*', '#', 'n', 't', 'x', 'u',
		'a', 'f', 'v', 'b', 'r', 'e', 0x2028, 0x2029, 0xfeff, 0xfffd, 0x200b, 0x10ffff}
	// every C0 control character: a printer that borrows an escaping routine from elsewhere may write escapes
	// (\a, \f, \v, \e ...) that this language's lexer does not know
	for r := rune(0); r < 0x20; r++ {
		pool = append(pool, r)
	}
	return pool
}()

func drawString(rt *rapid.T, label string) string {
	n := rapid.IntRange(0, 8).Draw(rt, label+"Len")
	var b strings.Builder
	for i := 0; i < n; i++ {
		b.WriteRune(runePool[rapid.IntRange(0, len(runePool)-1).Draw(rt, label+"Rune")])
	}
	return b.String()
}

// sourceLit writes a string as a Homescript literal: characters that may stand for themselves do
// so or are escaped (drawn), the others are always escaped.
func sourceLit(rt *rapid.T, s string, label string) string {
	var b strings.Builder
	b.WriteByte('"')
	for _, r := range s {
		raw := r != '"' && r != '\\' && r != 0
		if raw && (unicode.IsLetter(r) || unicode.IsDigit(r) || rapid.Bool().Draw(rt, label+"Raw")) {
			b.WriteRune(r)
			continue
		}
		switch {
		case r == '"':
			b.WriteString(`\"`)
		case r == '\\':
			b.WriteString(`\\`)
		case r == '\n' && rapid.Bool().Draw(rt, label+"Short"):
			b.WriteString(`\n`)
		case r == '\t' && rapid.Bool().Draw(rt, label+"Short"):
			b.WriteString(`\t`)
		case r == '\r' && rapid.Bool().Draw(rt, label+"Short"):
			b.WriteString(`\r`)
		case r == '\b' && rapid.Bool().Draw(rt, label+"Short"):
			b.WriteString(`\b`)
		case r < 0x100:
			fmt.Fprintf(&b, `\x%02x`, r)
		case r < 0x10000:
			fmt.Fprintf(&b, `\u%04x`, r)
		default:
			fmt.Fprintf(&b, `\U%08x`, r)
		}
	}
	b.WriteByte('"')
	return b.String()
}

func TestStringLiterals(t *testing.T) {
	pk.SkipIfReplay(t)
	rapid.Check(t, func(rt *rapid.T) {
		s1, s2, key := drawString(rt, "s1"), drawString(rt, "s2"), drawString(rt, "key")
		l1, l2, lk := sourceLit(rt, s1, "l1"), sourceLit(rt, s2, "l2"), sourceLit(rt, key, "lk")
		var b strings.Builder
		if rapid.Bool().Draw(rt, "global") {
			fmt.Fprintf(&b, "let g = %s;\n", l2)
		} else {
			b.WriteString("let g = \"\";\n")
		}
		fmt.Fprintf(&b, "type T = { %s: int, z: str };\n", lk)
		b.WriteString("fn main() {\n")
		fmt.Fprintf(&b, "    let s = %s;\n    println(s, s.len(), g);\n", l1)
		fmt.Fprintf(&b, "    if true {\n        for _ in 0..1 {\n            println(%s + %s, [%s]);\n        }\n    }\n", l2, l1, l2)
		fmt.Fprintf(&b, "    let o: T = new { %s: 1, z: %s };\n    println(o[%s], o.z);\n", lk, l2, lk)
		fmt.Fprintf(&b, "    let a = new { %s: %s } as { ? };\n    println(a.keys(), a);\n", lk, l1)
		fmt.Fprintf(&b, "    println(match s { %s => \"two\", %s => \"one\", _ => \"none\" });\n", l2, l1)
		b.WriteString("}\n")
		kind := rapid.SampledFrom([]string{"parsed", "analyzed"}).Draw(rt, "kind")
		c := Case{ProgCase: px.ProgCase{Modules: map[string]string{"main": b.String()}, Entry: "main", Limits: sb.DefaultLimits()}, Kind: kind}
		pk.Eval()
		if g := gatedByText(c.ProgCase); g != "" {
			pk.Gate(g)
			return
		}
		pk.NonTrivial(b.String()+kind, map[string]any{"kind": kind, "program": b.String()})
		pk.Judge(rt, c, checkRoundTrip(c))
	})
}

// ---------------------------------------------------------------------------------------------
// float literals of every magnitude

func drawFloat(rt *rapid.T) float64 {
	switch rapid.IntRange(0, 6).Draw(rt, "floatClass") {
	case 0:
		return float64(rapid.IntRange(0, 1000).Draw(rt, "integral"))
	case 1:
		return rapid.Float64Range(0, 1000).Draw(rt, "small")
	case 2:
		return rapid.Float64Range(1e6, 1e12).Draw(rt, "large")
	case 3:
		return rapid.Float64Range(9e18, 1e30).Draw(rt, "huge")
	case 4:
		return rapid.Float64Range(0, 1e-4).Draw(rt, "tiny")
	case 5:
		return float64(rapid.Int64Range(1<<52, 1<<62).Draw(rt, "bigIntegral"))
	default:
		return rapid.Float64Range(0, 1e300).Draw(rt, "any")
	}
}

func floatSource(v float64) string {
	s := strconv.FormatFloat(v, 'f', -1, 64)
	if !strings.Contains(s, ".") {
		s += ".0"
	}
	return s
}

func TestFloatLiterals(t *testing.T) {
	pk.SkipIfReplay(t)
	rapid.Check(t, func(rt *rapid.T) {
		a, b2 := drawFloat(rt), drawFloat(rt)
		var b strings.Builder
		fmt.Fprintf(&b, "let g = %s;\n", floatSource(b2))
		fmt.Fprintf(&b, "fn main() {\n    let x = %s;\n    println(x, -x, g, x + g, x == %s, [%s, -%s]);\n", floatSource(a), floatSource(a), floatSource(b2), floatSource(a))
		fmt.Fprintf(&b, "    println(match x { %s => \"hit\", _ => \"miss\" }, (%s) as int);\n}\n", floatSource(a), floatSource(b2))
		kind := rapid.SampledFrom([]string{"parsed", "analyzed"}).Draw(rt, "kind")
		c := Case{ProgCase: px.ProgCase{Modules: map[string]string{"main": b.String()}, Entry: "main", Limits: sb.DefaultLimits()}, Kind: kind}
		pk.Eval()
		if g := gatedByText(c.ProgCase); g != "" {
			pk.Gate(g)
			return
		}
		pk.NonTrivial(b.String()+kind, map[string]any{"kind": kind, "program": b.String()})
		pk.Judge(rt, c, checkRoundTrip(c))
	})
}

// ---------------------------------------------------------------------------------------------
// mixtures of table forms at varying nesting depth

var wrappers = []struct{ pre, post string }{
	{"{\n", "\n}\n"},
	{"if true {\n", "\n}\n"},
	{"if false {\n} else {\n", "\n}\n"},
	{"for _ in 0..1 {\n", "\n}\n"},
	{"try {\n", "\n} catch e {\nprintln(e.message);\n}\n"},
	{"match 1 {\n1 => {\n", "\n}\n_ => {\n}\n}\n"},
	{"match 2 {\n1 => {\n}\n_ => {\n", "\n}\n}\n"},
	{"{\nlet k = 0;\nwhile k < 1 {\nk += 1;\n", "\n}\n}\n"},
	{"(fn() {\n", "\n})();\n"},
}

// bodies of the forms that are a plain main function without further top-level items
func mixableBodies() []string {
	var out []string
	for _, f := range forms {
		if f.kinds == "-" || f.after != "" || len(f.mods) > 0 || len(f.sing) > 0 || strings.HasPrefix(f.name, "opt-") {
			continue
		}
		if !strings.HasPrefix(f.main, "fn main() {\n") || strings.Count(f.main, "\nfn ") > 0 {
			continue
		}
		body := strings.TrimSuffix(strings.TrimPrefix(f.main, "fn main() {\n"), "\n}\n")
		if strings.Contains(body, "return") || strings.Contains(body, `throw("uncaught`) || strings.HasSuffix(strings.TrimSpace(body), ")") && !strings.HasSuffix(strings.TrimSpace(body), ";") {
			continue
		}
		out = append(out, body)
	}
	return out
}

func TestMixedForms(t *testing.T) {
	pk.SkipIfReplay(t)
	bodies := mixableBodies()
	if len(bodies) < 40 {
		t.Fatalf("only %d mixable forms", len(bodies))
	}
	rapid.Check(t, func(rt *rapid.T) {
		n := rapid.IntRange(1, 4).Draw(rt, "nForms")
		var b strings.Builder
		b.WriteString("fn main() {\n")
		for i := 0; i < n; i++ {
			body := bodies[rapid.IntRange(0, len(bodies)-1).Draw(rt, "form")]
			depth := rapid.IntRange(0, 3).Draw(rt, "depth")
			var post []string
			for d := 0; d < depth; d++ {
				w := wrappers[rapid.IntRange(0, len(wrappers)-1).Draw(rt, "wrapper")]
				b.WriteString(w.pre)
				post = append(post, w.post)
			}
			b.WriteString("{\n" + body + "\n}\n")
			for d := len(post) - 1; d >= 0; d-- {
				b.WriteString(post[d])
			}
		}
		b.WriteString("}\n")
		kind := rapid.SampledFrom([]string{"parsed", "analyzed", "optimize"}).Draw(rt, "kind")
		c := Case{ProgCase: px.ProgCase{Modules: map[string]string{"main": b.String()}, Entry: "main", Limits: sb.DefaultLimits()}, Kind: kind}
		pk.Eval()
		if g := gatedByText(c.ProgCase); g != "" {
			pk.Gate(g)
			return
		}
		pk.NonTrivial(b.String()+kind, map[string]any{"kind": kind, "program": b.String()})
		pk.Judge(rt, c, checkRoundTrip(c))
	})
}
