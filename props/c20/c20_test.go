package c20

import (
	"fmt"
	"os"
	"path/filepath"
	"sort"
	"strings"
	"testing"

	"pgregory.net/rapid"

	"verif/gen"
	"verif/pk"
	"verif/px"
	"verif/sb"
)

func TestMain(m *testing.M) { pk.Main(m) }

type Case struct {
	px.ProgCase
	Seed   int64
	Passes int
	Via    string `json:",omitempty"` // "" TransformPasses | "transform" Transform called directly | "generator" Generator.Gen
}

func behaviour(r *sb.RunResult) string {
	cls, kind, msg := px.OutcomeClass(r.Outcome)
	// trigger registrations are host-visible effects like writes (C01 counts them as such)
	return fmt.Sprintf("%s/%s/%q out=%q triggers=%v annotations=%q", cls, kind, msg, strings.Join(r.Writes, ""), trigText(r.Triggers), r.Annotations)
}

func firstProblem(resp *sb.Response) string {
	m := ""
	if len(resp.SyntaxErrors) > 0 {
		m = "syntax: " + resp.SyntaxErrors[0].Message
	} else if e := resp.ErrorDiags(); len(e) > 0 {
		m = e[0].Message
	}
	if len(m) > 48 {
		m = m[:48]
	}
	return strings.Map(func(r rune) rune {
		if r >= '0' && r <= '9' {
			return 'N'
		}
		return r
	}, m)
}

func diagText(resp *sb.Response) string {
	var b strings.Builder
	for _, d := range resp.SyntaxErrors {
		fmt.Fprintf(&b, "  syntax: %s @%s:%d:%d\n", d.Message, d.Span.Filename, d.Span.Start.Line, d.Span.Start.Column)
	}
	for _, d := range resp.ErrorDiags() {
		fmt.Fprintf(&b, "  error: %s @%s:%d:%d\n", d.Message, d.Span.Filename, d.Span.Start.Line, d.Span.Start.Column)
	}
	return b.String()
}

// rewriteClass recognises the rewrites visible in a variant text (classification only).
func rewriteClasses(orig, variant string) []string {
	var out []string
	for _, m := range []string{"mul_res", "mul_count", "_i in 0..1", "if true", "while {", "while true", "!!", "!(", " + -", "loop {"} {
		if strings.Count(variant, m) > strings.Count(orig, m) {
			out = append(out, "rewrite:"+m)
		}
	}
	return out
}

// checkVariants: every variant the transformer produces is accepted and behaves like the original.
func checkVariants(c Case) *pk.Failure {
	orig := px.Pool().Exec(c.Request("vm"))
	if orig.Hang {
		// The ORIGINAL does not finish within the time budget (seen once in a thorough soak: a generated program
		// outside the reference model whose string quadruples per loop iteration). Nothing can be compared with
		// it; whether a program may run that long is not this property's subject.
		pk.Class("original-does-not-finish-within-the-budget")
		pk.Inconclusive()
		return nil
	}
	if f := px.SandboxFailure("variants", orig); f != nil {
		f.Sig = "original " + f.Sig
		f.Msg = px.ProgText(c.ProgCase) + "\n" + f.Msg
		return f
	}
	if orig.Inconclusive {
		pk.Inconclusive()
		return nil
	}
	if !orig.Accepted {
		pk.Discard("original-not-accepted")
		return nil
	}
	want := behaviour(orig.Run("vm"))
	// the serialisation format itself (C19's subject) must round-trip for the untransformed program
	p2 := px.Pool().Exec(&sb.Request{Op: "print", Modules: c.Modules, Entry: c.Entry, PrintKind: "analyzed"})
	if p2.Crash != "" || p2.Hang || len(p2.Texts) == 0 {
		pk.Discard("untransformed-print-fails")
		return nil
	}
	base := c
	base.Modules = map[string]string{}
	for n, t := range c.Modules {
		base.Modules[n] = t
	}
	base.Modules[c.Entry] = p2.Texts[c.Entry]
	b2 := px.Pool().Exec(base.Request("vm"))
	if b2.Crash != "" || b2.Hang || !b2.Accepted || behaviour(b2.Run("vm")) != want {
		if pk.GateOpen("printer-roundtrip") {
			// an open finding of the printers (C19's subject) would stop every C20 run here
			pk.Discard("untransformed-roundtrip-fails(C19)")
			return nil
		}
		// Variants are TEXT: a program whose untransformed print is not accepted or behaves differently has no
		// acceptable variant at all (C19 reports the printer; for C20 it is a violation as well).
		return pk.Failf("variants", "untransformed-print:"+firstProblem(b2), "the analysed program, printed without any rewrite, is not accepted or behaves differently (seed %d)\n%s--- printed\n%s\n--- original\n%s", c.Seed, diagText(b2), p2.Texts[c.Entry], px.ProgText(c.ProgCase))
	}
	// transform
	treq := &sb.Request{Op: "transform", Modules: c.Modules, Entry: c.Entry, Seed: c.Seed, Passes: c.Passes, Via: c.Via}
	tr := px.Pool().Exec(treq)
	if f := px.SandboxFailure("variants", tr); f != nil {
		f.Sig = "transformer " + f.Sig
		f.Msg = fmt.Sprintf("seed %d passes %d\n%s\n%s", c.Seed, c.Passes, px.ProgText(c.ProgCase), f.Msg)
		return f
	}
	if len(tr.Variants) == 0 {
		return pk.Failf("variants", "no-variants", "the transformer produced no variant (seed %d, passes %d)\n%s", c.Seed, c.Passes, px.ProgText(c.ProgCase))
	}
	pk.Extra("programs", 1)
	for i, mods := range tr.Variants {
		vc := c
		vc.Modules = mods
		resp := px.Pool().Exec(vc.Request("vm"))
		if f := px.SandboxFailure("variants", resp); f != nil {
			f.Sig = "variant " + f.Sig
			f.Msg = fmt.Sprintf("variant %d of seed %d\n--- variant\n%s\n--- original\n%s\n%s", i, c.Seed, mods[c.Entry], px.ProgText(c.ProgCase), f.Msg)
			return f
		}
		pk.Extra("comparisons", 1)
		for _, cl := range rewriteClasses(c.Modules[c.Entry], mods[c.Entry]) {
			pk.Class(cl)
		}
		if mods[c.Entry] != p2.Texts[c.Entry] {
			pk.Extra("variants-differing-from-original", 1)
		}
		if !resp.Accepted {
			return pk.Failf("variants", "variant-rejected:"+firstProblem(resp), "variant %d (seed %d, passes %d) is not accepted\n%s--- variant\n%s\n--- original\n%s", i, c.Seed, c.Passes, diagText(resp), mods[c.Entry], px.ProgText(c.ProgCase))
		}
		if got := behaviour(resp.Run("vm")); got != want {
			return pk.Failf("variants", "variant-behaviour", "variant %d (seed %d, passes %d) behaves differently\n  original: %s\n  variant:  %s\n--- variant\n%s\n--- original\n%s", i, c.Seed, c.Passes, want, got, mods[c.Entry], px.ProgText(c.ProgCase))
		}
	}
	return nil
}

func init() { pk.Reg("variants", checkVariants) }

func TestReplay(t *testing.T) { pk.ReplayTest(t) }

func classCfg() gen.Cfg {
	c := gen.ModelCfg()
	c.Pure = true
	c.SmallNums = true
	c.Fatal = false
	c.HostFns = false
	for _, g := range []string{"exit-pending", "transform-none", "transform-return", "transform-anyobj", "transform-typedef"} {
		if pk.GateOpen(g) {
			c.Off[g] = true
		}
	}
	if c.Off["transform-none"] {
		c.Options = false
	}
	return c
}

func TestGenerated(t *testing.T) {
	pk.SkipIfReplay(t)
	cfg := classCfg()
	rapid.Check(t, func(rt *rapid.T) {
		g := gen.Program(rt, cfg)
		pk.Eval()
		if tr, ok := px.Model(g); !ok && px.TooBig(tr) {
			pk.Discard("unbounded-growth")
			return
		}
		seeds := []int64{0, 1, -1, 42, 9223372036854775807, -9223372036854775808}
		seed := rapid.Int64().Draw(rt, "seed")
		if rapid.IntRange(0, 3).Draw(rt, "poolSeed") == 0 {
			seed = seeds[rapid.IntRange(0, len(seeds)-1).Draw(rt, "seedIdx")]
		}
		c := Case{ProgCase: px.FromGenerated(g), Seed: seed, Passes: rapid.IntRange(1, 4).Draw(rt, "passes")}
		c.Via = []string{"", "", "transform", "generator"}[rapid.IntRange(0, 3).Draw(rt, "via")]
		pk.Class("via:" + c.Via)
		pk.NonTrivial(px.ProgText(c.ProgCase)+fmt.Sprint(seed, c.Passes), map[string]any{"program": c.Modules["main"], "seed": seed, "passes": c.Passes})
		pk.Judge(rt, c, checkVariants(c))
	})
}

// The shipped examples the analyzer accepts (deterministic, terminating ones).
func TestTableExamples(t *testing.T) {
	pk.SkipIfReplay(t)
	col := pk.NewCollector()
	files, _ := filepath.Glob("/repo/examples/*.hms")
	sort.Strings(files)
	skip := map[string]bool{"dates": true, "sig_term": true}
	k := 0
	for _, f := range files {
		name := strings.TrimSuffix(filepath.Base(f), ".hms")
		if skip[name] {
			continue
		}
		b, err := os.ReadFile(f)
		if err != nil {
			continue
		}
		mods := map[string]string{name: string(b)}
		for _, g := range files {
			if g != f {
				gb, _ := os.ReadFile(g)
				mods[strings.TrimSuffix(filepath.Base(g), ".hms")] = string(gb)
			}
		}
		clock := strings.Contains(string(b), "time.now")
		for mn, text := range mods {
			if mn != name && strings.Contains(string(b), "from "+mn) {
				clock = clock || strings.Contains(text, "time.now")
			}
		}
		if clock {
			// two runs of a script that reads the wall clock need not print the same text
			pk.Class("example-skipped:reads-the-clock")
			continue
		}
		for si, seed := range []int64{0, 1, 2, 3, 42, -7, 9223372036854775807, -9223372036854775808} {
			for _, passes := range []int{1, 2, 3, 4} {
				k++
				if !pk.Mine(k) {
					continue
				}
				c := Case{ProgCase: px.ProgCase{Modules: mods, Entry: name, Limits: sb.Limits{Call: 2048, Stack: 5000, Mem: 100000, TreeCall: 2048}, Note: f}, Seed: seed, Passes: passes}
				c.Via = []string{"", "transform", "", "generator"}[si%4]
				pk.Class("via:" + c.Via)
				pk.Eval()
				fl := checkVariants(c)
				if fl != nil {
					fl.Sig = fl.Sig + " [" + name + "]"
				} else {
					pk.NonTrivial(fmt.Sprint(f, seed, passes), map[string]any{"file": f, "seed": seed, "passes": passes})
				}
				col.Report(c, fl)
			}
		}
	}
	col.Done(t)
}

// trigText renders trigger registrations without their spans (a printed program has a new layout).
func trigText(ts []sb.TriggerCall) []string {
	var out []string
	for _, t := range ts {
		out = append(out, fmt.Sprintf("%s@%s(%s)", t.Callback, t.Trigger, strings.Join(t.Args, ",")))
	}
	return out
}

// Request: like ProgCase.Request, and the compiled function annotations are evaluated as well.
func (c Case) Request(backends ...string) *sb.Request {
	r := c.ProgCase.Request(backends...)
	r.Annotations = true
	return r
}
