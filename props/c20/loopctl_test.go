package c20

import (
	"fmt"
	"os"
	"sort"
	"testing"

	"verif/pk"
	"verif/px"
	"verif/sb"
)

// Loop control in the places the transformer itself moves it to: its own rewrites turn `break;` into
// `while { break; } {}` (the break now sits in a loop's CONDITION and addresses the enclosing loop), wrap
// statements into iterate-once loops, and so on. A later pass - or a first pass over a program that was written
// this way - must still know which loop such a statement addresses.
var loopCtl = map[string]string{
	"in-conditions": `fn main() {
    let n = 0;
    loop {
        n += 1;
        if n > 3 { while { break; } {} }
        println("round", n);
    }
    for i in 0..6 {
        if i % 2 == 0 { while { continue; } {} }
        println("odd", i);
    }
    let k = 0;
    while k < 10 {
        k += 1;
        match k {
            2 => { while { continue; } {} },
            5 => { while { break; } {} },
            _ => {},
        }
        println("k", k);
    }
    for i in 0..4 {
        try {
            if i == 2 { while { break; } {} }
            println("try", i);
        } catch e { println("never", e.message); }
    }
    for i in 0..3 {
        for j in 0..3 {
            if j == 1 { while { continue; } {} }
            if i == 1 { while { break; } {} }
            println(i, j);
        }
    }
    println("end");
}
`,
	// a `break` / `continue` inside the CONDITION of a while loop belongs to the enclosing loop
	"exits-in-while-conditions": `fn main() {
    let n = 0;
    loop {
        n += 1;
        let k = 0;
        while { if n > 3 { break; } k < 2 } { k += 1; println(n, k); }
    }
    println("end", n);
    for i in 0..4 {
        let k = 0;
        while { if i == 1 { continue; } k < 1 } { k += 1; println("i", i); }
        println("after", i);
    }
    let m = 0;
    while m < 5 {
        m += 1;
        let j = 0;
        while j < 3 && { if m == 2 { continue; } true } { j += 1; }
        println("m", m, j);
    }
}
`,
	// ... and so does one inside the iterable of a for loop
	"exits-in-for-iterables": `fn main() {
    let l = [1, 2];
    let n = 0;
    loop {
        n += 1;
        for x in ({ if n > 2 { break; } l }) { println(n, x); }
        println("round", n);
    }
    println("end", n);
    for i in 0..4 {
        for x in ({ if i == 1 { continue; } l }) { println("i", i, x); }
        println("after", i);
    }
}
`,
	// a trigger registration is a statement like any other
	"trigger-statements": `import trigger minute from triggers;
event fn cb(elapsed: int) { println("cb", elapsed); }
fn main() {
    let n = 0;
    while n < 3 {
        n += 1;
        if n == 2 { trigger cb at minute(n); }
        println("n", n);
    }
    trigger cb at minute(7);
    println("end");
}
`,
	// comparisons with an unordered operand: every ordering comparison with not-a-number is false, so "not less" is
	// not "greater or equal"
	"unordered-comparisons": `fn pick(a: float, b: float) -> str {
    if a < b { "lt" } else if a >= b { "ge" } else { "unordered" }
}
fn main() {
    let nan = (0.0 - 1.0) ** 0.5;
    let one = 1.0;
    if nan < one { println("nan < 1"); } else { println("not nan < 1"); }
    if nan <= one { println("nan <= 1"); } else { println("not nan <= 1"); }
    if nan > one { println("nan > 1"); } else { println("not nan > 1"); }
    if nan >= one { println("nan >= 1"); } else { println("not nan >= 1"); }
    if one < nan { println("1 < nan"); } else { println("not 1 < nan"); }
    if one >= nan { println("1 >= nan"); } else { println("not 1 >= nan"); }
    if nan == nan { println("nan == nan"); } else { println("nan != nan"); }
    if nan != nan { println("differs"); } else { println("same"); }
    println(pick(nan, one), pick(one, nan), pick(one, one), pick(0.5, one));
    let k = 0;
    while k < 3 && !(nan < one) { k += 1; }
    println("k", k);
    let r = if nan > 0.0 { 1 } else { 2 };
    let q = nan <= 2.0;
    println(r, q, nan >= nan);
}
`,
	// float literals in rewritten positions: whatever a literal is rewritten into denotes exactly the same number
	"float-literals": `fn width() -> float { 23.0 }
fn main() {
    let f1 = 1.0; let f2 = 2.0; let f3 = 3.0; let f4 = 4.0; let f5 = 5.0; let f6 = 6.0; let f7 = 7.0; let f8 = 8.0; let f9 = 9.0; let f10 = 10.0; let f11 = 11.0; let f12 = 12.0; let f13 = 13.0; let f14 = 14.0; let f15 = 15.0; let f16 = 16.0; let f17 = 17.0; let f18 = 18.0; let f19 = 19.0; let f20 = 20.0; let f21 = 21.0; let f22 = 22.0; let f23 = 23.0; let f24 = 24.0; let f25 = 25.0; let f26 = 26.0; let f27 = 27.0; let f28 = 28.0; let f29 = 29.0; let f30 = 30.0; let f31 = 31.0; let f32 = 32.0; let f33 = 33.0; let f34 = 34.0; let f35 = 35.0; let f36 = 36.0; let f37 = 37.0; let f38 = 38.0; let f39 = 39.0; let f40 = 40.0; let f41 = 41.0; let f42 = 42.0; let f43 = 43.0; let f44 = 44.0; let f45 = 45.0; let f46 = 46.0; let f47 = 47.0; let f48 = 48.0; let f49 = 49.0; let f50 = 50.0; let f51 = 51.0; let f52 = 52.0; let f53 = 53.0; let f54 = 54.0; let f55 = 55.0; let f56 = 56.0; let f57 = 57.0; let f58 = 58.0; let f59 = 59.0;
    println(f1); println(f2); println(f3); println(f4); println(f5); println(f6); println(f7); println(f8); println(f9); println(f10); println(f11); println(f12); println(f13); println(f14); println(f15); println(f16); println(f17); println(f18); println(f19); println(f20); println(f21); println(f22); println(f23); println(f24); println(f25); println(f26); println(f27); println(f28); println(f29); println(f30); println(f31); println(f32); println(f33); println(f34); println(f35); println(f36); println(f37); println(f38); println(f39); println(f40); println(f41); println(f42); println(f43); println(f44); println(f45); println(f46); println(f47); println(f48); println(f49); println(f50); println(f51); println(f52); println(f53); println(f54); println(f55); println(f56); println(f57); println(f58); println(f59);
    let w = width();
    if w <= 23.0 { println("fits"); } else { println("too wide"); }
    if 19.0 == 19.0 && 11.0 < 11.5 { println("eq"); }
    let big = 4711.0; let third = 0.1; let neg = 0.0 - 37.0;
    println(big, third, neg, 1000000.0, 123456789.0, 0.5, 97.0 + 1.0, 53.0 * 2.0);
    let k = 0.0;
    while k < 29.0 { k += 7.0; }
    println(k);
}
`,
	// string literals with every kind of character: a variant is printed and parsed again
	"characters-in-strings": `fn main() {
    let bell = "a\x07b"; let vt = "c\x0bd"; let ff = "e\x0cf"; let nul = "g\x00h"; let esc = "i\x1bj"; let del = "k\x7fl";
    let o = new { "k\x07ey": 1, plain: "t\tab\nnl\rcr \\ \" ' é 日本 😀" };
    println(bell.len(), vt.len(), ff.len(), nul.len(), esc.len(), del.len());
    println(bell == "a\x07b", vt + ff, o.plain, o.keys());
    let i = 0;
    while i < 2 { i += 1; println("loop\x0c" + i.to_string()); }
    if bell.len() * 2 == 6 { println("six\x0b"); }
}
`,
	"guarded": `fn find(limit: int) -> int {
    let acc = 0;
    for i in 0..20 {
        if i == limit { break; }
        if i % 3 == 0 { continue; }
        acc += i;
    }
    acc
}
fn main() {
    let n = 0;
    loop {
        n += 1;
        if n == 2 { continue; }
        if n > 4 { break; }
        println("loop", n);
    }
    let k = 0;
    while k < 8 {
        k += 1;
        if k == 3 { continue; } else if k == 6 { break; }
        println("while", k);
    }
    for i in 0..4 {
        for j in 0..4 {
            if j > i { break; }
            if (i + j) % 2 == 1 { continue; }
            println(i, j);
        }
        if i == 2 { break; }
    }
    for i in 0..5 {
        try {
            if i == 1 { continue; }
            if i == 3 { break; }
            println("try", i);
        } catch e { println("never", e.message); }
    }
    for s in ["a", "b", "c", "d"] {
        match s {
            "b" => { continue; },
            "d" => { break; },
            _ => {},
        }
        println(s);
    }
    println(find(7), find(0), find(30));
}
`,
	// constant expressions where a rewrite must stay constant: global initialisers
	"global-initialisers": `let SECONDS_PER_HOUR = 60 * 60;
let MIXED = 3 * 7 + 2 * 2;
let FLAG = 2 * 3 == 6;
let NEG = 0 - 4 * 5;
let NAMES = ["a", "b"];
let LIMITS = [2 * 5, 3 * 3];
let REC = new { w: 4 * 4, lit: true };
fn area(w: int, h: int) -> int { w * h }
fn main() {
    println(SECONDS_PER_HOUR, MIXED, FLAG, NEG, NAMES, LIMITS, REC.w);
    let x = 6 * 7;
    println(x * 2, area(3, 4) * 2, SECONDS_PER_HOUR * 24);
    if 2 * 2 < x { println("big"); }
}
`,
	// integer arithmetic where grouping and operand order matter (truncating division, remainders, subtraction)
	"arithmetic": `fn f(a: int, b: int, c: int) -> int { a / b * c }
fn g(a: int, b: int, c: int) -> int { a % b * c - a / b }
fn main() {
    println(7 / 2 * 3, 9 % 4 * 3, 7 / 2 * 3 + 1, (7 / 2) * 3, 3 * (7 / 2), 2 * (9 % 4));
    println(f(7, 2, 3), f(9, 4, 5), g(7, 2, 3), g(9, 4, 5));
    let x = 17;
    let y = 5;
    println(x / y * y + x % y, x - y - 3, x - (y - 3), x / (y / 2), x / y / 2, 100 / x * y);
    println(x * y / 3, x / 3 * y, (x + y) / 4 * 4, x % y * 7 / 2);
    let z = 0 - 7;
    println(z / 2 * 2, z % 3 * 2, z * 2 / 3, 2 * z / 3);
}
`,
	// negative LEFT operands of a product (the class only asks for small non-negative right operands) and
	// string concatenation next to numeric addition
	"signed-products-and-strings": `fn scale(k: int) -> int { k * 3 }
fn tag(name: str) -> str { "<" + name + ">" }
fn main() {
    let n = 0 - 2;
    println(n * 3, -2 * 3, (0 - 5) * 4, scale(0 - 7), -1 * 0, n * 1);
    let a = -4 * 2 + 1;
    let b = (0 - 3) * 2 * 2;
    println(a, b, a * 2, b * 3);
    let s = "x" + "y";
    let t = tag("h1") + "Homescript" + tag("/h1");
    println(s, t, s + t == "xy" + t, "a" + "b" != "b" + "a");
    if "p" + "q" == "pq" { println("equal"); } else { println("not equal"); }
}
`,
	// a program that uses the names the transformer's rewrites introduce
	"generated-names": `fn main() {
    let mul_res = 3;
    let mul_count = 2;
    let lhs_init = 4;
    let count_once = 5;
    println(mul_res * 2, 7 * 2, lhs_init * 3, mul_count * 1);
    println(count_once + 1, mul_res + mul_count + lhs_init);
    for _i in 0..2 {
        println(_i, count_once * 2);
    }
    let i = 0;
    while i < 2 {
        i += 1;
        println(i * 2, mul_count);
    }
}
`,
	"nested-exits": `fn f(x: int) -> str {
    let out = "";
    for i in 0..6 {
        let j = 0;
        while j < 6 {
            j += 1;
            if j == x { break; }
            if i == x { continue; }
            if i + j > 8 { return out + "!"; }
            out += j.to_string();
        }
        if i > x { break; }
        out += ",";
    }
    out
}
fn main() {
    for x in 0..7 { println(x, f(x)); }
    let c = 0;
    loop {
        c += 1;
        let inner = 0;
        loop {
            inner += 1;
            if inner >= c { break; }
            if inner == 2 { continue; }
            println(c, inner);
        }
        if c == 4 { break; }
    }
}
`,
}

func TestTableLoopControl(t *testing.T) {
	pk.SkipIfReplay(t)
	col := pk.NewCollector()
	names := make([]string, 0, len(loopCtl))
	for n := range loopCtl {
		names = append(names, n)
	}
	sort.Strings(names)
	nSeeds := pk.Scale(40, 400)
	k := 0
	for _, name := range names {
		if only := os.Getenv("VERIF_LOOPCTL"); only != "" && only != name {
			continue // development aid: one program of the table
		}
		if resp := px.Pool().Exec(&sb.Request{Op: "analyze", Modules: map[string]string{"main": loopCtl[name]}, Entry: "main"}); resp == nil || !resp.Accepted {
			col.Report(Case{ProgCase: px.ProgCase{Modules: map[string]string{"main": loopCtl[name]}, Entry: "main"}}, pk.Failf("variants", "table-rejected ["+name+"]", "a hand-written program of the table is not accepted: %s\n%s", diagText(resp), loopCtl[name]))
			continue
		}
		for s := 0; s < nSeeds; s++ {
			seed := int64(s)*7919 + pk.Seed()*1000003
			for _, passes := range []int{2, 3, 5} {
				k++
				if !pk.Mine(k) {
					continue
				}
				c := Case{ProgCase: px.ProgCase{Modules: map[string]string{"main": loopCtl[name]}, Entry: "main", Limits: sb.DefaultLimits(), Note: "loop control " + name}, Seed: seed, Passes: passes}
				c.Via = []string{"", "transform", "", "generator"}[s%4]
				pk.Class("via:" + c.Via)
				pk.Eval()
				pk.Class("loopctl:" + name)
				fl := checkVariants(c)
				if fl != nil {
					fl.Sig = fl.Sig + " [" + name + "]"
				} else {
					pk.NonTrivial(fmt.Sprint(name, seed, passes), map[string]any{"program": name, "seed": seed, "passes": passes})
				}
				col.Report(c, fl)
			}
		}
	}
	col.Done(t)
}
