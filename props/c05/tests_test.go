package c05

import (
	"encoding/json"
	"fmt"
	"os"
	"path/filepath"
	"sort"
	"strings"
	"sync"
	"sync/atomic"
	"testing"
	"time"

	"pgregory.net/rapid"

	"verif/gen"
	"verif/pk"
	"verif/px"
)

// ---------------------------------------------------------------------------------------------
// rapid tiers

// drawVariants picks the ways a text is offered besides "entry".
func drawVariants(rt *rapid.T, max int) []string {
	n := rapid.IntRange(0, max).Draw(rt, "variants")
	var vs []string
	for i := 0; i < n; i++ {
		vs = append(vs, rapid.SampledFrom(moduleVariants).Draw(rt, "variant"))
	}
	return vs
}

func rapidReporter(t *testing.T) reporter {
	return func(c Case, f *pk.Failure) { judgeReduced(t, c, f) }
}

// TestRandomBytes: (i) arbitrary byte strings and strings over a hostile alphabet, up to 64 KiB.
func TestRandomBytes(t *testing.T) {
	pk.SkipIfReplay(t)
	rep := rapidReporter(t)
	rapid.Check(t, func(rt *rapid.T) {
		in := input{noMain: rapid.Bool().Draw(rt, "noMain")}
		if rapid.Bool().Draw(rt, "hostile") {
			in.kind, in.text = "hostile", genHostile(rt)
		} else {
			in.kind, in.text = "bytes", genBytes(rt)
		}
		in.variants = drawVariants(rt, 1)
		evaluate(in, rep)
	})
}

// TestTokenSoup: (ii) arbitrary token sequences over the whole token alphabet, and (ii-b)
// syntactically well-formed but untyped programs (grammar soup), optionally with a second
// generated module and a few token-level edits.
func TestTokenSoup(t *testing.T) {
	pk.SkipIfReplay(t)
	rep := rapidReporter(t)
	rapid.Check(t, func(rt *rapid.T) {
		in := input{noMain: rapid.IntRange(0, 3).Draw(rt, "noMain") == 0}
		switch rapid.IntRange(0, 9).Draw(rt, "mode") {
		case 0, 1, 2:
			in.kind, in.text = "soup", genSoup(rt)
			in.variants = drawVariants(rt, 1)
		case 3, 4, 5:
			// a valid program (typed generator, repository example or test) with one to three
			// token edits; replacement tokens mostly come from the same program
			in.kind = "mutant"
			if rapid.IntRange(0, 2).Draw(rt, "base") == 0 {
				in.text = rapid.SampledFrom(repoTexts()).Draw(rt, "repo-program")
			} else {
				in.text = px.FromGenerated(gen.Program(rt, gen.ModelCfg())).Modules["main"]
			}
			in.text = mutate(rt, in.text)
			in.variants = drawVariants(rt, 1)
		default:
			in.kind, in.text = "grammar", genGrammar(rt, false)
			if rapid.IntRange(0, 2).Draw(rt, "with-module") == 0 {
				in.module = genGrammar(rt, true)
			}
			if rapid.IntRange(0, 3).Draw(rt, "edit") == 0 {
				in.text = editRandom(rt, in.text)
			}
			in.variants = drawVariants(rt, 2)
		}
		evaluate(in, rep)
	})
}

var (
	repoOnce sync.Once
	repoText []string
)

// repoTexts: the repository's example and test programs up to 4 KiB.
func repoTexts() []string {
	repoOnce.Do(func() {
		for _, pat := range []string{"/repo/examples/*.hms", "/repo/tests/*.hms"} {
			files, _ := filepath.Glob(pat)
			sort.Strings(files)
			for _, f := range files {
				if b, err := os.ReadFile(f); err == nil && len(b) <= 4096 {
					repoText = append(repoText, string(b))
				}
			}
		}
		repoText = append(repoText, seedPrograms...)
		repoText = append(repoText, probePrograms...)
	})
	return repoText
}

// mutate applies one to three token edits; a replacement is another token of the same program
// (names, types, keywords and literals in the wrong place) or a hostile token.
func mutate(rt *rapid.T, text string) string {
	for k, n := 0, rapid.IntRange(1, 3).Draw(rt, "mutations"); k < n; k++ {
		parts := units(text, "token")
		var pos []int
		for i, s := range parts {
			if strings.TrimSpace(s) != "" {
				pos = append(pos, i)
			}
		}
		if len(pos) < 2 {
			return text
		}
		i := pos[rapid.IntRange(0, len(pos)-1).Draw(rt, "mut-pos")]
		j := pos[rapid.IntRange(0, len(pos)-1).Draw(rt, "mut-other")]
		switch rapid.IntRange(0, 9).Draw(rt, "mut-kind") {
		case 0:
			parts[i] = ""
		case 1:
			parts[i] = parts[i] + " " + parts[i]
		case 2:
			parts[i], parts[j] = parts[j], parts[i]
		case 3, 4:
			parts[i] = rapid.SampledFrom(hostileTokens).Draw(rt, "mut-token")
		case 5:
			parts[i] = rapid.SampledFrom(names).Draw(rt, "mut-name")
		default:
			parts[i] = parts[j]
		}
		text = strings.Join(parts, "")
	}
	return text
}

// editRandom applies one or two random token-level edits.
func editRandom(rt *rapid.T, text string) string {
	for k, n := 0, rapid.IntRange(1, 2).Draw(rt, "edits"); k < n; k++ {
		parts := units(text, "token")
		if len(parts) < 2 {
			return text
		}
		i := rapid.IntRange(0, len(parts)-1).Draw(rt, "edit-pos")
		switch rapid.IntRange(0, 3).Draw(rt, "edit-kind") {
		case 0:
			parts[i] = ""
		case 1:
			parts[i] = parts[i] + " " + parts[i]
		case 2:
			parts[i] = rapid.SampledFrom(hostileTokens).Draw(rt, "edit-token")
		default:
			j := rapid.IntRange(0, len(parts)-1).Draw(rt, "edit-swap")
			parts[i], parts[j] = parts[j], parts[i]
		}
		text = strings.Join(parts, "")
	}
	return text
}

// ---------------------------------------------------------------------------------------------
// corpus of valid programs for the prefix and edit tables

type program struct {
	name string
	text string
}

func repoPrograms(t *testing.T) []program {
	var out []program
	for _, pat := range []string{"/repo/examples/*.hms", "/repo/tests/*.hms"} {
		files, _ := filepath.Glob(pat)
		sort.Strings(files)
		for _, f := range files {
			b, err := os.ReadFile(f)
			if err != nil {
				t.Fatalf("corpus: %v", err)
			}
			out = append(out, program{name: strings.TrimPrefix(f, "/repo/"), text: string(b)})
		}
	}
	if len(out) < 40 {
		t.Fatalf("corpus: only %d repository programs found", len(out))
	}
	return out
}

var (
	typedGen   = rapid.Custom(func(rt *rapid.T) string { return px.FromGenerated(gen.Program(rt, gen.ModelCfg())).Modules["main"] })
	grammarGen = rapid.Custom(func(rt *rapid.T) string { return genGrammar(rt, false) })
)

// corpus: repository examples and tests, n programs of the typed generator (all valid) and n
// grammar-soup programs (all parse, few analyse cleanly). Deterministic.
func corpus(t *testing.T, n int) []program {
	out := repoPrograms(t)
	for i, p := range probePrograms {
		out = append(out, program{name: fmt.Sprintf("probe-%d", i), text: p})
	}
	for i := 0; i < n; i++ {
		out = append(out, program{name: fmt.Sprintf("typed-%d", i), text: typedGen.Example(i + 1)})
	}
	for i := 0; i < n; i++ {
		out = append(out, program{name: fmt.Sprintf("grammar-%d", i), text: grammarGen.Example(i + 1)})
	}
	return out
}

type tableStats struct {
	inputs, analyzed, asModule atomic.Int64
}

// ---------------------------------------------------------------------------------------------
// (iii) every prefix

// tokenEnds returns the set of rune offsets p such that text[:p] ends exactly behind a token.
func tokenEnds(text string) map[int]bool {
	ends := map[int]bool{}
	for _, tok := range lexAll(text).toks {
		ends[int(tok.Span.End.Index)+1] = true
	}
	return ends
}

func TestPrefixes(t *testing.T) {
	pk.SkipIfReplay(t)
	progs := corpus(t, pk.Scale(30, 300))
	col := newCollector()
	var st tableStats
	var work []input
	full, sampled := 0, 0
	for k, p := range progs {
		if !pk.Mine(k) {
			continue
		}
		rs := []rune(p.text)
		ends := tokenEnds(p.text)
		small := len(p.text) <= 2048
		if small {
			full++
		} else {
			sampled++
		}
		for n := 0; n <= len(rs); n++ {
			// programs above 2 KiB: prefixes at token ends, inside every 5th position otherwise
			if !small && !ends[n] && n%5 != 0 {
				continue
			}
			in := input{kind: "prefix:" + p.name, text: string(rs[:n]), noMain: n%2 == 1}
			if ends[n] {
				in.variants = []string{moduleVariants[n%len(moduleVariants)]}
			}
			work = append(work, in)
		}
	}
	parallel(len(work), func(i int) {
		st.inputs.Add(1)
		st.analyzed.Add(1 + int64(len(work[i].variants)))
		st.asModule.Add(int64(len(work[i].variants)))
		evaluate(work[i], col.report)
	})
	pk.Extra("prefix-programs-all-prefixes", full)
	pk.Extra("prefix-programs-sampled", sampled)
	pk.Extra("prefix-inputs", int(st.inputs.Load()))
	pk.Extra("prefix-analyze-requests", int(st.analyzed.Load()))
	t.Logf("prefixes: %d programs with every prefix, %d sampled; %d prefixes lexed+parsed in-process and analysed as entry, %d of them also as imported module",
		full, sampled, st.inputs.Load(), st.asModule.Load())
	col.col.Done(t)
}

// ---------------------------------------------------------------------------------------------
// (iv) every single-token edit

var hostileTokens = []string{"", "{", "}", "(", ")", "[", "]", ";", ",", ":", "=", "=>", "->", "~>", "..", ".", "$", "#", "@", "?", "_",
	"fn", "let", "import", "from", "if", "else", "match", "as", "spawn", "new", "trigger", "impl", "type", "pub",
	"\"", "'", "/*", "~", "&", "main", "println", "1", "9223372036854775808", "\"s\"", "none", "null"}

// the ~15 replacement tokens used for every position (the rest of hostileTokens is rotated in)
var replaceAlways = []string{"{", "}", "(", ")", ";", ",", "=", ".", "$", "?", "fn", "as", "\"", "~", "main"}

func TestTokenEdits(t *testing.T) {
	pk.SkipIfReplay(t)
	progs := corpus(t, pk.Scale(12, 150))
	col := newCollector()
	var st tableStats
	var work []input
	allEdits, sampledEdits := 0, 0
	for k, p := range progs {
		if !pk.Mine(k) {
			continue
		}
		parts := units(p.text, "token")
		// token positions (non-blank parts)
		var pos []int
		for i, s := range parts {
			if strings.TrimSpace(s) != "" && !strings.HasPrefix(s, "//") && !strings.HasPrefix(s, "/*") {
				pos = append(pos, i)
			}
		}
		if len(pos) == 0 {
			continue
		}
		stride := 1
		if len(pos) > 150 {
			stride = (len(pos) + 149) / 150
			sampledEdits++
		} else {
			allEdits++
		}
		emit := func(kind string, at int, mut func(ps []string)) {
			ps := append([]string{}, parts...)
			mut(ps)
			in := input{kind: "edit:" + kind + ":" + p.name, text: strings.Join(ps, ""), noMain: at%7 == 3}
			if len(work)%5 == 0 {
				in.variants = []string{moduleVariants[(len(work)/5)%len(moduleVariants)]}
			}
			work = append(work, in)
		}
		for j := 0; j < len(pos); j += stride {
			i := pos[j]
			emit("delete", j, func(ps []string) { ps[i] = "" })
			emit("duplicate", j, func(ps []string) { ps[i] = ps[i] + " " + ps[i] })
			if j+1 < len(pos) {
				i2 := pos[j+1]
				emit("swap", j, func(ps []string) { ps[i], ps[i2] = ps[i2], ps[i] })
			}
			for _, r := range replaceAlways {
				r := r
				emit("replace", j, func(ps []string) { ps[i] = r })
			}
			r := hostileTokens[j%len(hostileTokens)]
			emit("replace", j, func(ps []string) { ps[i] = r })
		}
	}
	parallel(len(work), func(i int) {
		st.inputs.Add(1)
		st.asModule.Add(int64(len(work[i].variants)))
		evaluate(work[i], col.report)
	})
	pk.Extra("edit-programs-all-edits", allEdits)
	pk.Extra("edit-programs-sampled", sampledEdits)
	pk.Extra("edit-inputs", int(st.inputs.Load()))
	t.Logf("token edits: %d programs with every edit, %d sampled (150 positions); %d edited texts lexed+parsed and analysed as entry, %d also as imported module",
		allEdits, sampledEdits, st.inputs.Load(), st.asModule.Load())
	col.col.Done(t)
}

// ---------------------------------------------------------------------------------------------
// (v) depth and bulk

var depths = []int{1, 2, 10, 100, 500, 1000}

func TestDepth(t *testing.T) {
	pk.SkipIfReplay(t)
	col := newCollector()
	var work []input
	k := 0
	add := func(g depthGen, n int) {
		k++
		if !pk.Mine(k) {
			return
		}
		frag := g.make(n)
		hint := n
		if g.flat {
			hint = 0
		}
		name := g.name
		if n > 0 {
			name = fmt.Sprintf("%s@%d", g.name, n)
		}
		entry := wrapDepth(g, frag, false)
		module := wrapDepth(g, frag, true)
		if len(entry) > maxText || len(module) > maxText {
			t.Errorf("depth generator %s makes %d bytes (> 64 KiB)", name, len(entry))
			return
		}
		// as entry module, with and without the main requirement; as imported module; at the end of
		// an import chain (for the nesting generators: a chain as long as the nesting is deep)
		work = append(work,
			input{kind: "depth:" + name, text: entry, depthHint: hint},
			input{kind: "depth:" + name, text: entry, depthHint: hint, noMain: true},
			input{kind: "depth:" + name, text: module, depthHint: hint, skipEntry: true, variants: []string{"mod-named", "mod-self", "cycle"}})
	}
	for _, g := range depthGens {
		for _, n := range depths {
			add(g, n)
		}
	}
	for _, g := range bulkGens {
		add(g, 0)
	}
	// import chains of every depth, ending in a small module and in a module that closes the cycle
	for _, n := range depths {
		k++
		if !pk.Mine(k) {
			continue
		}
		v := fmt.Sprintf("chain-%d", n)
		work = append(work,
			input{kind: "depth:import-chain", text: fmt.Sprintf("pub fn h%d() {}\n", n), depthHint: n, skipEntry: true, variants: []string{v}},
			input{kind: "depth:import-chain-cycle", text: fmt.Sprintf("import { h0 } from m0;\npub fn h%d() { h0(); }\n", n), depthHint: n, skipEntry: true, variants: []string{v}},
			input{kind: "depth:import-chain-to-entry", text: fmt.Sprintf("import { main } from main;\npub fn h%d() { main(); }\n", n), depthHint: n, skipEntry: true, variants: []string{v}})
	}
	// acyclic import graphs with 2^n paths (two modules per layer, each importing both of the next)
	for _, n := range []int{1, 2, 10, 16, 20, 30, 100, 1000} {
		k++
		if !pk.Mine(k) {
			continue
		}
		if n > 20 && pk.GateOpen("import-graph-paths") {
			pk.Gate("import-graph-paths") // every one of these exhausts the hang budget while the finding is open
			continue
		}
		work = append(work, input{kind: "depth:import-diamond", text: "pub fn f() {}\npub fn g() {}\n", depthHint: n, skipEntry: true, variants: []string{fmt.Sprintf("diamond-%d", n)}})
	}
	var mu sync.Mutex
	n := 0
	parallel(len(work), func(i int) {
		t0 := time.Now()
		evaluate(work[i], col.report)
		if d := time.Since(t0); d > 2*time.Second {
			t.Logf("slow input: %s %v noMain=%v: %v", work[i].kind, work[i].variants, work[i].noMain, d)
		}
		mu.Lock()
		n++
		mu.Unlock()
	})
	pk.Extra("depth-inputs", n)
	t.Logf("depth: %d inputs (%d nesting generators x %v, %d bulk generators; entry, entry without main, 3 module variants)", n, len(depthGens), depths, len(bulkGens))
	col.col.Done(t)
}

// TestProbes: the hand-written programs in every variant, with and without the main requirement.
func TestProbes(t *testing.T) {
	pk.SkipIfReplay(t)
	col := newCollector()
	var work []input
	for k, p := range append(append([]string{}, probePrograms...), seedPrograms...) {
		if !pk.Mine(k) {
			continue
		}
		work = append(work, input{kind: "probe", text: p, variants: moduleVariants},
			input{kind: "probe", text: p, noMain: true, variants: moduleVariants})
	}
	parallel(len(work), func(i int) { evaluate(work[i], col.report) })
	pk.Extra("probe-inputs", len(work))
	col.col.Done(t)
}

// ---------------------------------------------------------------------------------------------
// reducer tool

func reduceFile(t *testing.T, path string) {
	b, err := os.ReadFile(path)
	if err != nil {
		t.Fatal(err)
	}
	var rf pk.ReplayFile
	if err := json.Unmarshal(b, &rf); err != nil {
		t.Fatal(err)
	}
	var c Case
	if err := json.Unmarshal(rf.Case, &c); err != nil {
		t.Fatal(err)
	}
	var f *pk.Failure
	switch rf.Sub {
	case "lexparse":
		f = checkLexParse(c)
	default:
		f = checkAnalyze(c)
	}
	if f == nil {
		t.Fatalf("%s does not reproduce", path)
	}
	c2, f2 := reduce(c, f)
	cb, _ := json.Marshal(c2)
	out, _ := json.MarshalIndent(pk.ReplayFile{Property: "C05", Sub: f2.Sub, Sig: f2.Sig, Msg: f2.Msg, Case: cb}, "", " ")
	if err := os.WriteFile(path+".min.json", out, 0o644); err != nil {
		t.Fatal(err)
	}
	t.Logf("reduced %d+%d -> %d+%d bytes, sig %q\ntext: %q\nmodule: %q", len(c.Text), len(c.Module), len(c2.Text), len(c2.Module), f2.Sig, c2.Text, c2.Module)
}
