package c05

import (
	"sync/atomic"
	"testing"

	"verif/pairs"
	"verif/pk"
	"verif/px"
)

// (vii) Small ill-typed programs by cross product (package verif/pairs): random text rarely reaches the
// analyzer's error paths with an *almost* well-typed program. The only claim here is that analysis returns.
func TestTableTypePairs(t *testing.T) {
	pk.SkipIfReplay(t)
	col := newCollector()
	progs := pairs.Programs()
	var analysed atomic.Int64
	parallel(len(progs), func(i int) {
		if !pk.Mine(i) {
			return
		}
		c := Case{Kind: progs[i].Kind, Text: progs[i].Text, Variant: "entry", NoMain: i%7 == 0}
		pk.Eval()
		pk.Class("kind:pairs")
		pk.Class(progs[i].Kind)
		resp, f := analyzeWith(px.Pool(), c)
		if f == nil && resp != nil {
			pk.NonTrivial(c.Text, nil)
			switch {
			case len(resp.SyntaxErrors) > 0:
				pk.Class("pairs:syntax-error")
			case resp.Accepted:
				pk.Class("pairs:accepted")
			default:
				pk.Class("pairs:rejected-by-analyzer")
			}
		}
		analysed.Add(1)
		col.report(c, f)
	})
	pk.Extra("pair-programs", int(analysed.Load()))
	pk.Exhaustive("pairs")
	nc, nt, ne, ns := pairs.Sizes()
	t.Logf("type pairs: %d programs (%d contexts x %d types x %d expressions; %d^2 operand pairs x operators / index / call / range / match; members, prefixes, statements)",
		len(progs), nc, nt, ne, ns)
	col.col.Done(t)
}
