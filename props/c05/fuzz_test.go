package c05

import (
	"encoding/json"
	"os"
	"path/filepath"
	"testing"
	"time"

	"github.com/smarthome-go/homescript/v3/homescript"

	"verif/hostkit"
	"verif/pk"
	"verif/sb"
)

// Native fuzz targets (vi). Both run the repository code in the fuzz worker process itself:
// calling the sandbox once per execution would be too slow for coverage guidance.
//
//   - FuzzParse: lexer to EOF + homescript.Parse with recover and the hang watchdog inside the
//     body, so a hang becomes a crasher.
//   - FuzzAnalyze: homescript.Analyze in-process with recover; entry and module are limited to
//     4 KiB each so that legitimate recursion cannot exhaust the stack. A failure that Go cannot
//     recover from (fatal error: stack overflow by unbounded recursion) kills the fuzz worker and is
//     reported by the fuzzing engine as a crasher; finding those systematically is the job of the
//     sandbox tiers (TestTokenSoup, TestPrefixes, TestTokenEdits, TestDepth), not of this target.
//
// pk.Judge is not used here (under -fuzz the body runs in worker processes); a failure writes its
// own replay file and fails with the VERIF-FAIL line.

const fuzzAnalyzeMax = 4 << 10

// Gate "import-hang" (see gatedText): an input that hangs leaves a spinning, allocating goroutine
// behind in the fuzz worker, so while that finding is open such inputs are not executed here.

func fuzzFail(t *testing.T, name string, c Case, f *pk.Failure) {
	if f == nil || pk.MatchKnown(pk.Prop(), f) != "" {
		return
	}
	cb, _ := json.Marshal(c)
	b, _ := json.MarshalIndent(pk.ReplayFile{Property: "C05", Sub: f.Sub, Sig: f.Sig, Msg: f.Msg, Case: cb}, "", " ")
	path := filepath.Join(pk.OutDir(), "fail-c05-"+name+".json")
	os.WriteFile(path, b, 0o644)
	t.Fatalf("VERIF-FAIL sub=%s sig=%q replay=%s\n%s", f.Sub, f.Sig, path, f.Msg)
}

var fuzzSeeds = []string{
	"", "fn", "fn main(", "fn main() {", "let x = ;", "import x from a:", "import x from a:b;", "import { f, } from m;", "import {", "$S = {", "#[trigger at",
	"fn main() { let x = main; }", "let x = main;\nfn main() {}", "fn main() { spawn undefined(); }", "fn main() { println == println; }",
	"fn main() { x.y.z()[0] as [?int]; }", "fn main() { match x { 1 | 2 => 3, _ => { 4 } } }", "fn main() { 1..=2; -!?x; x ~> y; x -> y; }",
	"type T = fn(a: fn() -> [int]) -> { ? };", "impl X with { a, } for $S { pub fn f() {} }", "fn main() { \"\\x4", "fn main() { /* ", "fn main() { 9223372036854775808 }",
	"fn main() { trigger f on g(1); }", "event fn e() {}", "pub let v = fn() { v };", "fn f() -> f { f }", "type T = T;", "type A = [B]; type B = ?A;",
}

func FuzzParse(f *testing.F) {
	if os.Getenv("VERIF_REPLAY") != "" {
		f.Skip("replay run")
	}
	for _, s := range seedPrograms {
		f.Add(s)
	}
	for _, s := range fuzzSeeds {
		f.Add(s)
	}
	f.Fuzz(func(t *testing.T, text string) {
		if len(text) > maxText || gatedText(text) {
			return
		}
		c := Case{Kind: "fuzz", Text: text, Variant: "lexparse"}
		pk.Eval()
		fuzzFail(t, "fuzzparse", c, checkLexParse(c))
	})
}

// analyzeInProcess is the body of FuzzAnalyze: the same host as the sandbox worker uses.
func analyzeInProcess(c Case) *pk.Failure {
	mods := map[string]string{"main": c.Text}
	if c.Module != "" {
		mods["m"] = c.Module
	}
	req := &sb.Request{Modules: mods, Entry: "main"}
	host := hostkit.Host{Req: req, Rec: &hostkit.Recorder{}}
	r := guard(10*time.Second, func() {
		homescript.Analyze(homescript.InputProgram{ProgramText: c.Text, Filename: "main"}, homescript.TestingAnalyzerScopeAdditions(), host, !c.NoMain)
	})
	switch {
	case r.panicMsg != "":
		// same signature format as a crash of the sandbox worker, so that a replay through the
		// sandbox and the known-findings patterns agree with it
		sig := "crash: " + sb.CrashSignature("panic: "+r.panicMsg+"\n\n"+r.stack)
		return pk.Failf("analyze", sig, "homescript.Analyze panicked: %s\n%s\n%s", r.panicMsg, describeCase(c), clip(r.stack, 2500))
	case r.hung:
		return pk.Failf("analyze", "hang:analyze", "homescript.Analyze did not return within 20 s (twice)\n%s", describeCase(c))
	}
	return nil
}

func FuzzAnalyze(f *testing.F) {
	if os.Getenv("VERIF_REPLAY") != "" {
		f.Skip("replay run")
	}
	mod := "pub fn f() -> int { 1 }\npub let v = 2;\npub type T = int;\n"
	for _, s := range seedPrograms {
		f.Add(s, mod)
	}
	for _, s := range fuzzSeeds {
		f.Add(s, mod)
		f.Add(entryNamed, s)
	}
	f.Add(entryNamed, "import { f } from m;\npub fn f() {}")
	f.Add(entryPub, "import { g, v, type T } from main;\npub fn f() { g(); }")
	f.Add(entryKinds, "pub type T = int; pub type V = T; pub fn f() -> T { 1 } pub fn g() {}")
	f.Fuzz(func(t *testing.T, entry, module string) {
		if len(entry) > fuzzAnalyzeMax || len(module) > fuzzAnalyzeMax || gatedText(entry, module) {
			return
		}
		c := Case{Kind: "fuzz", Text: entry, Module: module, Variant: "entry"}
		pk.Eval()
		fuzzFail(t, "fuzzanalyze", c, analyzeInProcess(c))
	})
}
