// Package c05 checks property C05: lexing, parsing and analysis are total.
//
// Oracle (validity predicate only): for every text offered as entry module or served by the host
// as an imported module, the call returns within its budget; it does not panic, does not die with
// a Go fatal error (stack overflow) and does not loop. Which syntax errors or diagnostics come
// back is not asserted.
//
// Two sub-checks, both pure functions of the Case:
//
//	lexparse  in-process: lexer.NextToken() to EOF/first error, then homescript.Parse(), each with
//	          recover and a watchdog (a hang is re-run once before it is reported)
//	analyze   homescript.Analyze() in the sandbox worker (a crash there is not recoverable); the
//	          Variant says how Text (and Module) are offered to the analyzer, see variants
//
// Transport note: sandbox requests and replay files are JSON, which turns every byte that is not
// valid UTF-8 into U+FFFD. The repository turns program text into []rune before looking at it,
// which does exactly the same, so the two texts are the same input for lexer, parser and analyzer.
package c05

import (
	"fmt"
	"os"
	"regexp"
	"runtime"
	"runtime/debug"
	"sort"
	"strings"
	"sync"
	"testing"
	"time"
	"unicode/utf8"

	"github.com/smarthome-go/homescript/v3/homescript"
	"github.com/smarthome-go/homescript/v3/homescript/errors"
	"github.com/smarthome-go/homescript/v3/homescript/lexer"

	"verif/pk"
	"verif/px"
	"verif/sb"
)

const (
	maxText  = 64 << 10      // the property's size bound
	genMax   = maxText - 64  // generators stay below it so that a prepended import line still fits
	fileName = "main"        // file name of in-process parses (same as the sandbox entry module)
	renderMax = 4 << 10      // diagnostics are rendered (WantRender) only for small texts: cost
)

func TestMain(m *testing.M) {
	// A parse or analysis of <= 64 KiB takes milliseconds; a shorter first budget than the default
	// 20 s keeps the cost of every genuinely hanging input down. The client still re-runs a
	// silent request alone with the doubled budget before it calls it a hang.
	px.Pool().Timeout = 12 * time.Second
	pk.Main(m)
}

type Case struct {
	Kind    string // generator that made the input (bytes, hostile, soup, grammar, prefix, edit, depth:<name>, fuzz)
	Text    string
	Module  string `json:",omitempty"`
	NoMain  bool
	Variant string // how Text/Module are offered to the analyzer (ignored by lexparse)
}

func init() {
	pk.Reg("lexparse", checkLexParse)
	pk.Reg("analyze", checkAnalyze)
}

func TestReplay(t *testing.T) { pk.ReplayTest(t) }

// ---------------------------------------------------------------------------------------------
// variants: how a generated text reaches the analyzer

const (
	entryNamed = "import { f } from m;\nfn main() { f(); }\n"
	entryPlain = "import f from m;\nfn main() { f(); }\n"
	entryKinds = "import { type T, templ U, f, g } from m;\nimport trigger t from m;\nimport type V from m;\nimport templ W from m;\nfn main() { let x: T = f(); }\n"
	entryPub   = "import { f } from m;\npub fn g() -> int { 1 }\npub let v = 1;\npub type T = int;\nfn main() { f(); }\n"
	entryCycle = "import { f } from a;\nfn main() { f(); }\n"
	cycleB     = "pub fn g() {}\n"
	goodMod    = "pub fn ok() {}\npub let okv = 1;\n"
)

type built struct {
	mods     map[string]string
	errMods  []string
	asModule bool
}

var variants = map[string]func(c Case) built{
	// Text is the entry module; Module (if any) is served as "m"
	"entry": func(c Case) built {
		m := map[string]string{"main": c.Text}
		if c.Module != "" {
			m["m"] = c.Module
		}
		return built{mods: m}
	},
	// a fixed valid entry imports the text as module m
	"mod-named": func(c Case) built { return built{mods: map[string]string{"main": entryNamed, "m": c.Text}, asModule: true} },
	"mod-plain": func(c Case) built { return built{mods: map[string]string{"main": entryPlain, "m": c.Text}, asModule: true} },
	"mod-kinds": func(c Case) built { return built{mods: map[string]string{"main": entryKinds, "m": c.Text}, asModule: true} },
	// m imports the entry module
	"mod-imports-entry": func(c Case) built {
		return built{mods: map[string]string{"main": entryPub, "m": "import { g, v, type T } from main;\n" + c.Text}, asModule: true}
	},
	// m imports itself
	"mod-self": func(c Case) built {
		return built{mods: map[string]string{"main": entryNamed, "m": "import { f } from m;\n" + c.Text}, asModule: true}
	},
	// two non-entry modules import each other: main -> a -> b -> a
	"cycle": func(c Case) built {
		b := c.Module
		if b == "" {
			b = cycleB
		}
		return built{mods: map[string]string{"main": entryCycle, "a": "import { g } from b;\n" + c.Text, "b": "import { f } from a;\n" + b}, asModule: true}
	},
	// the host fails / knows nothing when the entry's import is resolved
	"host-error": func(c Case) built {
		return built{mods: map[string]string{"main": "import { f } from m;\n" + c.Text}, errMods: []string{"m"}}
	},
	"not-found": func(c Case) built {
		return built{mods: map[string]string{"main": "import { f } from m;\n" + c.Text}}
	},
	// the text is one of SEVERAL imported modules: before and after a good one, behind a good one, imported twice
	"mod-then-good": func(c Case) built {
		return built{mods: map[string]string{"main": "import { f } from m;\nimport { ok } from good;\nfn main() { f(); ok(); }\n", "m": c.Text, "good": goodMod}, asModule: true}
	},
	"good-then-mod": func(c Case) built {
		return built{mods: map[string]string{"main": "import { ok } from good;\nimport { f } from m;\nfn main() { f(); ok(); }\n", "m": c.Text, "good": goodMod}, asModule: true}
	},
	"mod-behind-good": func(c Case) built {
		return built{mods: map[string]string{"main": "import { mid } from middle;\nfn main() { mid(); }\n",
			"middle": "import { f } from m;\nimport { ok } from good;\npub fn mid() { f(); ok(); }\n", "m": c.Text, "good": goodMod}, asModule: true}
	},
	"mod-twice": func(c Case) built {
		return built{mods: map[string]string{"main": "import { f } from m;\nimport { ok } from good;\nimport { f2 } from m;\nfn main() { f(); f2(); ok(); }\n",
			"m": c.Text, "good": "import { f } from m;\npub fn ok() { f(); }\n"}, asModule: true}
	},
	// ... and when an import of the imported module is resolved
	"mod-host-error": func(c Case) built {
		return built{mods: map[string]string{"main": entryNamed, "m": "import { g } from z;\n" + c.Text}, errMods: []string{"z"}, asModule: true}
	},
	"mod-not-found": func(c Case) built {
		return built{mods: map[string]string{"main": entryNamed, "m": "import { g } from z;\n" + c.Text}, asModule: true}
	},
}

var moduleVariants = []string{"mod-named", "mod-plain", "mod-kinds", "mod-imports-entry", "mod-self", "cycle", "host-error", "not-found", "mod-host-error", "mod-not-found",
	"mod-then-good", "good-then-mod", "mod-behind-good", "mod-twice"}

var (
	chainRe   = regexp.MustCompile(`^chain-([0-9]+)$`)
	diamondRe = regexp.MustCompile(`^diamond-([0-9]+)$`)
)

// build turns a case into the module set of the request. Variant "chain-N": main imports m0, m0
// imports m1, ... and the last module of the chain is the text.
func build(c Case) (built, bool) {
	if f, ok := variants[c.Variant]; ok {
		return f(c), true
	}
	if m := chainRe.FindStringSubmatch(c.Variant); m != nil {
		n := 0
		fmt.Sscan(m[1], &n)
		if n < 1 || n > 2000 {
			return built{}, false
		}
		mods := map[string]string{"main": "import { h0 } from m0;\nfn main() { h0(); }\n"}
		for i := 0; i < n; i++ {
			mods[fmt.Sprintf("m%d", i)] = fmt.Sprintf("import { h%d } from m%d;\npub fn h%d() { h%d(); }\n", i+1, i+1, i, i+1)
		}
		mods[fmt.Sprintf("m%d", n)] = c.Text
		return built{mods: mods, asModule: true}, true
	}
	// "diamond-N": N layers of two modules; both modules of a layer import both modules of the
	// next layer (an acyclic graph with 2^N paths); the text is both modules of the last layer.
	if m := diamondRe.FindStringSubmatch(c.Variant); m != nil {
		n := 0
		fmt.Sscan(m[1], &n)
		if n < 1 || n > 1000 {
			return built{}, false
		}
		mods := map[string]string{}
		mods["main"] = "import { f } from d0a;\nimport { g } from d0b;\nfn main() { f(); g(); }\n"
		for i := 0; i < n; i++ {
			body := fmt.Sprintf("import { f } from d%da;\nimport { g } from d%db;\n", i+1, i+1)
			mods[fmt.Sprintf("d%da", i)] = body + "pub fn f() {}\n"
			mods[fmt.Sprintf("d%db", i)] = body + "pub fn g() {}\n"
		}
		mods[fmt.Sprintf("d%da", n)] = c.Text
		mods[fmt.Sprintf("d%db", n)] = c.Text
		return built{mods: mods, asModule: true}, true
	}
	return built{}, false
}

func request(c Case) (*sb.Request, built, bool) {
	b, ok := build(c)
	if !ok {
		return nil, b, false
	}
	size := 0
	for _, t := range b.mods {
		size += len(t)
	}
	return &sb.Request{Op: "analyze", Modules: b.mods, Entry: "main", NoMain: c.NoMain, ErrModules: b.errMods,
		WantRender: size <= renderMax}, b, true
}

// ---------------------------------------------------------------------------------------------
// sub-check "analyze" (sandbox)

var (
	quickOnce   sync.Once
	quickPool   *sb.Pool
	confirmOnce sync.Once
	confirmPool *sb.Pool
	// quiet serialises hang confirmation against all other repository work of this process:
	// ordinary evaluations hold it shared, a confirmation holds it exclusively.
	quiet sync.RWMutex
)

// confirmHang repeats a request that exhausted the ordinary budget with a long one (30 s, then 60 s
// in a fresh worker) while nothing else runs in this process. The lexer is quadratic in the length
// of an identifier or number, so a 64 KiB lexeme that is parsed once per import statement takes
// seconds on a loaded machine; that is slow, not a hang, and must not be reported as one.
func confirmHang(req *sb.Request) *sb.Response {
	confirmOnce.Do(func() { confirmPool = &sb.Pool{Bin: sb.WorkerBin(), Timeout: 30 * time.Second} })
	quiet.Lock()
	defer quiet.Unlock()
	return confirmPool.Exec(req)
}

// quick is a second pool with a short budget (3 s, re-run alone with 6 s). It only answers
// follow-up questions about an input that already exhausted the normal budget: in which stage it
// hangs, and whether a reduced text still hangs.
func quick() *sb.Pool {
	quickOnce.Do(func() { quickPool = &sb.Pool{Bin: sb.WorkerBin(), Timeout: 3 * time.Second} })
	return quickPool
}

// parseHangs asks the sandbox to only parse the modules (op print/parsed).
func parseHangs(pool *sb.Pool, mods map[string]string) bool {
	for name, text := range mods {
		resp := pool.Exec(&sb.Request{Op: "print", PrintKind: "parsed", Modules: map[string]string{name: text}, Entry: name})
		if resp.Hang {
			return true
		}
	}
	return false
}

func clip(s string, n int) string {
	if len(s) <= n {
		return s
	}
	return s[:n] + fmt.Sprintf("... (%d bytes)", len(s))
}

func describeCase(c Case) string {
	s := fmt.Sprintf("kind=%s variant=%s noMain=%v\ntext (%d bytes): %q", c.Kind, c.Variant, c.NoMain, len(c.Text), clip(c.Text, 600))
	if c.Module != "" {
		s += fmt.Sprintf("\nmodule (%d bytes): %q", len(c.Module), clip(c.Module, 600))
	}
	return s
}

func analyzeWith(pool *sb.Pool, c Case) (*sb.Response, *pk.Failure) {
	req, b, ok := request(c)
	if !ok {
		return nil, pk.Failf("analyze", "bad-case", "unknown variant %q", c.Variant)
	}
	quiet.RLock()
	resp := pool.Exec(req)
	quiet.RUnlock()
	if resp.Hang && pool == px.Pool() {
		if resp = confirmHang(req); !resp.Hang {
			pk.Extra("slow-answers-not-hangs", 1)
		}
	}
	switch {
	case resp.Inconclusive:
		pk.Inconclusive()
		return nil, nil
	case resp.Crash != "":
		f := px.SandboxFailure("analyze", resp)
		f.Msg = "analysis killed the process: " + resp.Crash + "\n" + describeCase(c) + "\n" + resp.CrashLog
		return resp, f
	case resp.Hang:
		stage := "analyze"
		if parseHangs(quick(), b.mods) {
			stage = "parse"
		}
		return resp, pk.Failf("analyze", "hang:"+stage, "no answer within the doubled budget in an isolated worker (stage: %s)\n%s", stage, describeCase(c))
	case resp.Err != "":
		return resp, pk.Failf("analyze", "harness:"+resp.Err, "the worker refused the request: %s\n%s", resp.Err, describeCase(c))
	}
	return resp, nil
}

func checkAnalyze(c Case) *pk.Failure {
	_, f := analyzeWith(px.Pool(), c)
	return f
}

// ---------------------------------------------------------------------------------------------
// sub-check "lexparse" (in-process)

var (
	frameRe  = regexp.MustCompile(`(?m)^github\.com/smarthome-go/homescript/v3/homescript/([^\s(]+(?:\([^)]*\))?[^\s(]*)\(`)
	digitsRe = regexp.MustCompile(`0x[0-9a-f]+|[0-9]+`)
)

type guardResult struct {
	panicMsg string
	frame    string // first repository function on the panicking stack
	stack    string
	hung     bool
}

func firstRepoFrame(stack string) string {
	if m := frameRe.FindStringSubmatch(stack); m != nil {
		return m[1]
	}
	return ""
}

func guardOnce(timeout time.Duration, f func()) guardResult {
	ch := make(chan guardResult, 1)
	go func() {
		var r guardResult
		defer func() {
			if p := recover(); p != nil {
				r.panicMsg = fmt.Sprint(p)
				r.stack = string(debug.Stack())
				r.frame = firstRepoFrame(r.stack)
			}
			ch <- r
		}()
		f()
	}()
	tm := time.NewTimer(timeout)
	defer tm.Stop()
	select {
	case r := <-ch:
		return r
	case <-tm.C:
		return guardResult{hung: true}
	}
}

// guard runs f with recover and a watchdog. A run that exceeds the budget is repeated once with
// twice the budget before it counts as a hang (the first goroutine is left behind spinning).
func guard(timeout time.Duration, f func()) guardResult {
	r := guardOnce(timeout, f)
	if r.hung {
		r = guardOnce(2*timeout, f)
	}
	return r
}

func normMsg(s string) string {
	if i := strings.IndexByte(s, '\n'); i >= 0 {
		s = s[:i]
	}
	s = digitsRe.ReplaceAllString(s, "N")
	if len(s) > 60 {
		s = s[:60]
	}
	return s
}

func panicFailure(sub, stage string, r guardResult, c Case) *pk.Failure {
	sig := "panic:" + stage + ":" + normMsg(r.panicMsg)
	if r.frame != "" {
		sig += " @ " + r.frame
	}
	return pk.Failf(sub, sig, "%s panicked: %s\n%s\n%s", stage, r.panicMsg, describeCase(c), clip(r.stack, 2500))
}

type lexInfo struct {
	toks    []lexer.Token // without EOF
	err     *errors.Error
	noEOF   bool
}

func lexAll(text string) (li lexInfo) {
	lx := lexer.NewLexer(text, fileName)
	bound := utf8.RuneCountInString(text) + 10
	for i := 0; i < bound; i++ {
		tok, err := lx.NextToken()
		if err != nil {
			li.err = err
			return li
		}
		if tok.Kind == lexer.EOF {
			return li
		}
		li.toks = append(li.toks, tok)
	}
	li.noEOF = true
	return li
}

type parseInfo struct {
	lex      lexInfo
	soft     int
	hard     *errors.Error
	tokensOK int // tokens before the first hard error
}

var lexParseBudget = 15 * time.Second

func lexParse(c Case) (parseInfo, *pk.Failure) {
	var pi parseInfo
	quiet.RLock()
	defer quiet.RUnlock()
	r := guard(lexParseBudget, func() { pi.lex = lexAll(c.Text) })
	switch {
	case r.panicMsg != "":
		return pi, panicFailure("lexparse", "lex", r, c)
	case r.hung:
		return pi, pk.Failf("lexparse", "hang:lex", "a NextToken call did not return within %v (twice)\n%s", 2*lexParseBudget, describeCase(c))
	case pi.lex.noEOF:
		return pi, pk.Failf("lexparse", "hang:lex", "no EOF and no error after %d tokens\n%s", len(pi.lex.toks), describeCase(c))
	}
	var soft []errors.Error
	var hard *errors.Error
	r = guard(lexParseBudget, func() { _, soft, hard = homescript.Parse(c.Text, fileName) })
	switch {
	case r.panicMsg != "":
		return pi, panicFailure("lexparse", "parse", r, c)
	case r.hung:
		return pi, pk.Failf("lexparse", "hang:parse", "homescript.Parse did not return within %v (twice)\n%s", 2*lexParseBudget, describeCase(c))
	}
	pi.soft, pi.hard = len(soft), hard
	pi.tokensOK = len(pi.lex.toks)
	if hard != nil {
		n := 0
		for _, t := range pi.lex.toks {
			if t.Span.Start.Index < hard.Span.Start.Index {
				n++
			}
		}
		pi.tokensOK = n
	}
	return pi, nil
}

func checkLexParse(c Case) *pk.Failure {
	_, f := lexParse(c)
	return f
}

// ---------------------------------------------------------------------------------------------
// accounting

func nesting(text string) int {
	d, max := 0, 0
	for i := 0; i < len(text); i++ {
		switch text[i] {
		case '(', '[', '{':
			d++
			if d > max {
				max = d
			}
		case ')', ']', '}':
			if d > 0 {
				d--
			}
		}
	}
	return max
}

func countTokens(text string) int {
	var n int
	r := guardOnce(lexParseBudget, func() { n = len(lexAll(text).toks) })
	if r.hung || r.panicMsg != "" {
		return 0
	}
	return n
}

type sample struct {
	Kind, Variant string
	NoMain        bool
	Text          string
	Module        string `json:",omitempty"`
	Tokens        int
}

func sizeClasses(c Case, depthHint int) {
	if len(c.Text) >= 16<<10 || len(c.Module) >= 16<<10 {
		pk.Class("size>=16KiB")
	}
	if depthHint >= 100 || nesting(c.Text) >= 100 {
		pk.Class("nested>=100")
	}
	pk.Class("kind:" + strings.SplitN(c.Kind, ":", 2)[0])
}

func accountLexParse(c Case, pi parseInfo, f *pk.Failure, depthHint int) {
	pk.Eval()
	pk.Class("lexparse")
	sizeClasses(c, depthHint)
	if f != nil {
		pk.Class("lexparse:failure")
		return
	}
	switch {
	case pi.lex.err != nil:
		pk.Class("lex:error")
	default:
		pk.Class("lex:reached-eof")
	}
	if len(pi.lex.toks) > 0 {
		pk.Class("reached-parser")
	}
	kind := strings.SplitN(c.Kind, ":", 2)[0]
	switch {
	case pi.hard != nil:
		pk.Class("parse:hard-error")
		pk.Class("parse:hard-error:" + kind)
		if strings.Contains(pi.hard.Message, "%!") {
			pk.Class("note:syntax-error-message-has-fmt-error") // e.g. TokenKind.String() panics for '&' inside Sprintf; not this property
		}
	case pi.soft > 0:
		pk.Class("parse:soft-errors-only")
	default:
		pk.Class("parse:clean")
		pk.Class("parse:clean:" + kind)
	}
	if pi.tokensOK >= 5 {
		pk.NonTrivial("lexparse\x00"+c.Text, sample{Kind: c.Kind, Variant: "lexparse", Text: clip(c.Text, 200), Tokens: pi.tokensOK})
	}
}

func accountAnalyze(c Case, resp *sb.Response, f *pk.Failure, tokensOK, depthHint int) {
	pk.Eval()
	pk.Class("analyze")
	pk.Class("variant:" + diamondRe.ReplaceAllString(chainRe.ReplaceAllString(c.Variant, "chain"), "diamond"))
	if c.NoMain {
		pk.Class("nomain")
	}
	sizeClasses(c, depthHint)
	b, _ := build(c)
	if b.asModule {
		pk.Class("as-module")
	}
	if f != nil {
		pk.Class("analyze:failure")
		return
	}
	if resp == nil {
		return
	}
	if len(resp.ModuleNames) > 0 || len(resp.Diags) > 0 {
		pk.Class("reached-analyzer")
		if len(resp.ModuleNames) > 1 {
			pk.Class("analyzer:imported-module-analyzed")
		}
	} else {
		pk.Class("analyze:stopped-at-syntax-error")
	}
	if len(resp.Diags) > 0 {
		pk.Class("analyzer:diagnostics")
	}
	if resp.Accepted {
		pk.Class("analyzer:accepted")
	}
	for _, d := range append(append([]sb.Diag{}, resp.SyntaxErrors...), resp.Diags...) {
		if d.DisplayErr != "" {
			pk.Class("note:diagnostic-render-panicked") // outside this property (C08); counted only
			break
		}
	}
	if b.asModule {
		for _, d := range resp.SyntaxErrors {
			if d.Span.Filename != "main" {
				pk.Class("as-module:syntax-error-in-module")
				break
			}
		}
	}
	if tokensOK >= 5 {
		pk.NonTrivial("analyze\x00"+c.Variant+"\x00"+fmt.Sprint(c.NoMain)+"\x00"+c.Text+"\x00"+c.Module,
			sample{Kind: c.Kind, Variant: c.Variant, NoMain: c.NoMain, Text: clip(c.Text, 200), Module: clip(c.Module, 200), Tokens: tokensOK})
	}
}

// ---------------------------------------------------------------------------------------------
// evaluating one input: sandbox first (it screens out parser hangs, which would leave a spinning,
// allocating goroutine behind in this process), then in-process lex+parse, then the remaining
// analyzer variants.

type reporter func(c Case, f *pk.Failure)

type input struct {
	kind      string
	text      string
	module    string
	variants  []string // besides "entry"
	noMain    bool
	depthHint int
	skipEntry bool // only the listed variants (the entry variant has been evaluated for this text before)
}

// Gate "import-hang": while the parser hang behind `import .. from <ident>` followed by a lexer
// error is open, texts that look like it are not evaluated (each costs the full hang budget of
// about half a minute); importHang over-approximates "the next token is a lexer error".
var importHang = regexp.MustCompile("from\\s*@?\\s*[A-Za-z_][A-Za-z_0-9]*(?:\\s*:\\s*[A-Za-z_0-9]*)*\\s*[\\\\`~\"'\\x00-\\x08\\x0b\\x0c\\x0e-\\x1f\\x7f-\\x{10ffff}]")

func gatedText(texts ...string) bool {
	if !pk.GateOpen("import-hang") {
		return false
	}
	for _, t := range texts {
		if importHang.MatchString(t) {
			pk.Gate("import-hang")
			return true
		}
	}
	return false
}

func evaluate(in input, report reporter) {
	if gatedText(in.text, in.module) {
		return
	}
	if len(in.text) > maxText || len(in.module) > maxText {
		pk.Discard("size>64KiB")
		return
	}
	if in.depthHint <= 1000 && (nesting(in.text) > 1000 || nesting(in.module) > 1000) {
		pk.Discard("nesting>1000") // outside the property's domain
		return
	}
	entry := Case{Kind: in.kind, Text: in.text, Module: in.module, NoMain: in.noMain, Variant: "entry"}
	parserHangs := false
	var entryResp *sb.Response
	var entryFail *pk.Failure
	if !in.skipEntry && gatedCase(entry) {
		in.skipEntry = true
	}
	if !in.skipEntry {
		entryResp, entryFail = analyzeWith(px.Pool(), entry)
		parserHangs = entryFail != nil && entryFail.Sig == "hang:parse"
	}
	tokensOK := 0
	if !parserHangs {
		lc := Case{Kind: in.kind, Text: in.text, Variant: "lexparse"}
		pi, f := lexParse(lc)
		tokensOK = pi.tokensOK
		accountLexParse(lc, pi, f, in.depthHint)
		report(lc, f)
	}
	if !in.skipEntry {
		accountAnalyze(entry, entryResp, entryFail, tokensOK, in.depthHint)
		report(entry, entryFail)
	}
	if parserHangs {
		return
	}
	for _, v := range in.variants {
		c := Case{Kind: in.kind, Text: in.text, Module: in.module, NoMain: in.noMain, Variant: v}
		if gatedCase(c) {
			continue
		}
		resp, f := analyzeWith(px.Pool(), c)
		accountAnalyze(c, resp, f, tokensOK, in.depthHint)
		report(c, f)
	}
}

// Gate "module-cycle": while a finding about import cycles between imported modules is open, every
// case whose imported modules import each other (or themselves) dies the same slow death (the
// stack grows to 1 GB); only one in 64 of them is then executed, the rest is counted as gated.
var fromRe = regexp.MustCompile(`from\s+([A-Za-z_][A-Za-z_0-9]*)`)

func importedModulesCycle(mods map[string]string) bool {
	edges := map[string][]string{}
	for name, text := range mods {
		if name == "main" {
			continue
		}
		for _, m := range fromRe.FindAllStringSubmatch(text, -1) {
			if _, ok := mods[m[1]]; ok && m[1] != "main" {
				edges[name] = append(edges[name], m[1])
			}
		}
	}
	state := map[string]int{}
	var visit func(n string) bool
	visit = func(n string) bool {
		switch state[n] {
		case 1:
			return true
		case 2:
			return false
		}
		state[n] = 1
		for _, m := range edges[n] {
			if visit(m) {
				return true
			}
		}
		state[n] = 2
		return false
	}
	for n := range edges {
		if visit(n) {
			return true
		}
	}
	return false
}

func gatedCase(c Case) bool {
	if !pk.GateOpen("module-cycle") {
		return false
	}
	b, ok := build(c)
	if !ok || len(b.mods) < 2 || !importedModulesCycle(b.mods) {
		return false
	}
	h := uint32(2166136261)
	for i := 0; i < len(c.Text); i++ {
		h = (h ^ uint32(c.Text[i])) * 16777619
	}
	if h%64 == 0 {
		return false
	}
	pk.Gate("module-cycle")
	return true
}

// ---------------------------------------------------------------------------------------------
// reducer: ddmin-style shrinking of Text (and Module) while the same signature reproduces

type reducer struct {
	check    func(Case) *pk.Failure
	sig      string
	probes   int
	maxProbe int
	deadline time.Time
}

func (r *reducer) still(c Case) bool {
	if r.probes >= r.maxProbe || time.Now().After(r.deadline) {
		return false
	}
	r.probes++
	f := r.check(c)
	return f != nil && f.Sig == r.sig
}

// units splits a text into removable pieces at the given granularity.
func units(text, gran string) []string {
	switch gran {
	case "line":
		return strings.SplitAfter(text, "\n")
	case "token":
		li := lexInfo{}
		if r := guardOnce(5*time.Second, func() { li = lexAll(text) }); r.hung || r.panicMsg != "" {
			return nil
		}
		rs := []rune(text)
		var out []string
		prev := 0
		for _, t := range li.toks {
			s, e := int(t.Span.Start.Index), int(t.Span.End.Index)+1
			if s < prev || e > len(rs) || s >= e {
				return nil
			}
			if s > prev {
				out = append(out, string(rs[prev:s]))
			}
			out = append(out, string(rs[s:e]))
			prev = e
		}
		if prev < len(rs) {
			out = append(out, string(rs[prev:]))
		}
		return out
	default: // rune
		rs := []rune(text)
		out := make([]string, len(rs))
		for i, x := range rs {
			out[i] = string(x)
		}
		return out
	}
}

func (r *reducer) ddmin(parts []string, test func(string) bool) []string {
	n := 2
	for len(parts) >= 2 {
		chunk := (len(parts) + n - 1) / n
		reduced := false
		for start := 0; start < len(parts); start += chunk {
			end := start + chunk
			if end > len(parts) {
				end = len(parts)
			}
			cand := append(append([]string{}, parts[:start]...), parts[end:]...)
			if test(strings.Join(cand, "")) {
				parts = cand
				if n > 2 {
					n--
				}
				reduced = true
				break
			}
		}
		if !reduced {
			if chunk == 1 {
				break
			}
			n *= 2
			if n > len(parts) {
				n = len(parts)
			}
		}
		if r.probes >= r.maxProbe || time.Now().After(r.deadline) {
			break
		}
	}
	return parts
}

// brackets removes or unwraps balanced bracket groups, which chunk removal cannot do: the group
// from an opening bracket to its partner is deleted, replaced by a literal, or loses its brackets.
func (r *reducer) brackets(text string, test func(string) bool) string {
	for progress := true; progress; {
		progress = false
		parts := units(text, "token")
		if len(parts) < 3 {
			return text
		}
		partner := map[int]int{}
		var stack []int
		for i, p := range parts {
			switch p {
			case "(", "[", "{":
				stack = append(stack, i)
			case ")", "]", "}":
				if n := len(stack); n > 0 && strings.Index("([{", parts[stack[n-1]]) == strings.Index(")]}", p) {
					partner[stack[n-1]] = i
					stack = stack[:n-1]
				}
			}
		}
		opens := make([]int, 0, len(partner))
		for i := range partner {
			opens = append(opens, i)
		}
		sort.Ints(opens)
		join := func(a, mid, b []string) string {
			return strings.Join(a, "") + strings.Join(mid, "") + strings.Join(b, "")
		}
	scan:
		for _, i := range opens {
			j := partner[i]
			cands := []string{
				join(parts[:i], nil, parts[j+1:]),
				join(parts[:i], []string{"1"}, parts[j+1:]),
				join(parts[:i], []string{parts[i], parts[j]}, parts[j+1:]),
				join(parts[:i], parts[i+1:j], parts[j+1:]),
			}
			for _, cand := range cands {
				if len(cand) < len(text) && test(cand) {
					text = cand
					progress = true
					break scan
				}
				if r.probes >= r.maxProbe || time.Now().After(r.deadline) {
					return text
				}
			}
		}
	}
	return text
}

func (r *reducer) field(c Case, get func(*Case) *string) Case {
	for _, gran := range []string{"line", "brackets", "token", "brackets", "rune"} {
		if gran == "brackets" {
			*get(&c) = r.brackets(*get(&c), func(s string) bool {
				cand := c
				*get(&cand) = s
				return r.still(cand)
			})
			continue
		}
		cur := *get(&c)
		if gran == "rune" && utf8.RuneCountInString(cur) > 400 {
			continue
		}
		parts := units(cur, gran)
		if len(parts) < 2 {
			continue
		}
		parts = r.ddmin(parts, func(s string) bool {
			cand := c
			*get(&cand) = s
			return r.still(cand)
		})
		*get(&c) = strings.Join(parts, "")
	}
	return c
}

// reduce returns a smaller case with the same signature (or the case itself).
func reduce(c Case, f *pk.Failure) (Case, *pk.Failure) {
	if f == nil || f.Sig == "bad-case" {
		return c, f
	}
	orig := c
	check := checkAnalyze
	maxProbe, budget := 1500, 90*time.Second
	hang := strings.HasPrefix(f.Sig, "hang")
	switch {
	case f.Sub == "lexparse" && f.Sig == "hang:parse":
		// probing in-process would leave one spinning goroutine behind per probe
		check = func(c Case) *pk.Failure {
			if parseHangs(quick(), map[string]string{"main": c.Text}) {
				return pk.Failf("lexparse", "hang:parse", "")
			}
			return nil
		}
		maxProbe, budget = 120, 4*time.Minute
	case f.Sub == "lexparse" && hang:
		return c, f
	case f.Sub == "lexparse":
		check = checkLexParse
	case hang:
		check = func(c Case) *pk.Failure { _, f := analyzeWith(quick(), c); return f }
		maxProbe, budget = 120, 4*time.Minute
	}
	r := &reducer{check: check, sig: f.Sig, maxProbe: maxProbe, deadline: time.Now().Add(budget)}
	if f.Sub == "analyze" {
		// simpler ways of offering the same text first
		for _, v := range []string{"entry", "mod-named"} {
			if c.Variant != v && c.Variant != "entry" {
				cand := c
				cand.Variant = v
				if v == "entry" {
					cand.Module = ""
				}
				if r.still(cand) {
					c = cand
				}
			}
		}
		if c.Module != "" {
			cand := c
			cand.Module = ""
			if r.still(cand) {
				c = cand
			}
		}
		if c.NoMain {
			cand := c
			cand.NoMain = false
			if r.still(cand) {
				c = cand
			}
		}
	}
	c = r.field(c, func(c *Case) *string { return &c.Text })
	if c.Module != "" && f.Sub == "analyze" {
		c = r.field(c, func(c *Case) *string { return &c.Module })
		c = r.field(c, func(c *Case) *string { return &c.Text })
	}
	if hang && f.Sub == "analyze" {
		// the probes ran on the short budget: the reduced case must survive the full confirmation
		if g := checkAnalyze(c); g == nil || g.Sig != f.Sig {
			return orig, f
		}
	}
	// the message of the reduced case
	if g := check(c); g != nil && g.Sig == f.Sig && g.Msg != "" {
		g.Sub = f.Sub
		return c, g
	}
	f2 := *f
	f2.Msg = "(reduced)\n" + describeCase(c) + "\n--- original report:\n" + f.Msg
	return c, &f2
}

// judgeReduced is the failure path of the rapid properties: a failure that is not attributed to
// an open finding is reduced with the signature-preserving reducer and then fails the test
// through the outer *testing.T (rapid's own shrinking would re-run the sandbox for every attempt
// and may drift to another root cause).
func judgeReduced(t *testing.T, c Case, f *pk.Failure) {
	if f == nil {
		return
	}
	if pk.MatchKnown(pk.Prop(), f) == "" {
		c, f = reduce(c, f)
	}
	pk.Judge(t, c, f)
}

// collect is the failure path of the table tests.
type collector struct {
	col  *pk.Collector
	mu   sync.Mutex
	seen map[string]bool
}

func newCollector() *collector { return &collector{col: pk.NewCollector(), seen: map[string]bool{}} }

func (k *collector) report(c Case, f *pk.Failure) {
	if f == nil {
		return
	}
	if pk.MatchKnown(pk.Prop(), f) != "" {
		k.col.Report(c, f) // counted as a known hit
		return
	}
	key := f.Sub + "|" + f.Sig
	k.mu.Lock()
	dup := k.seen[key]
	k.seen[key] = true
	k.mu.Unlock()
	if dup {
		return
	}
	c, f = reduce(c, f)
	k.col.Report(c, f)
}

// ---------------------------------------------------------------------------------------------
// helpers shared by the tests

// parallel runs fn(i) for i in [0,n) on a bounded number of goroutines.
func parallel(n int, fn func(i int)) {
	_, shards := pk.Shard()
	workers := runtime.GOMAXPROCS(0)
	if workers > 16 {
		workers = 16
	}
	if shards > 1 {
		workers = (workers + shards - 1) / shards
	}
	if workers < 2 {
		workers = 2
	}
	var wg sync.WaitGroup
	next := make(chan int, 256)
	for w := 0; w < workers; w++ {
		wg.Add(1)
		go func() {
			defer wg.Done()
			for i := range next {
				fn(i)
			}
		}()
	}
	for i := 0; i < n; i++ {
		next <- i
	}
	close(next)
	wg.Wait()
}

func sortedKeys[V any](m map[string]V) []string {
	ks := make([]string, 0, len(m))
	for k := range m {
		ks = append(ks, k)
	}
	sort.Strings(ks)
	return ks
}

// TestReduce is a tool, not a check: C05_REDUCE=<replay.json> writes <replay.json>.min.json.
func TestReduce(t *testing.T) {
	path := os.Getenv("C05_REDUCE")
	if path == "" {
		t.Skip("no C05_REDUCE")
	}
	reduceFile(t, path)
}
