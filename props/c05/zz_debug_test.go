package c05
import ("testing";"fmt")
func TestZZ(t *testing.T) {
	for _, g := range append(append([]depthGen{}, depthGens...), bulkGens...) {
		for _, n := range []int{2} {
			txt := wrapDepth(g, g.make(n), false)
			pi, f := lexParse(Case{Text: txt})
			if f != nil || pi.hard != nil || pi.lex.err != nil || pi.soft>0 {
				msg := ""
				if pi.hard != nil { msg = pi.hard.Message }
				fmt.Printf("%s: fail=%v hard=%q lexerr=%v soft=%d %q\n", g.name, f != nil, msg, pi.lex.err != nil, pi.soft, clip(txt,100))
			}
		}
	}
}
