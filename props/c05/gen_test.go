package c05

import (
	"fmt"
	"math/rand"
	"strings"

	"pgregory.net/rapid"

	"verif/pk"
)

// ---------------------------------------------------------------------------------------------
// (i) arbitrary bytes and hostile strings

var sizeClasses64 = []int{0, 1, 2, 3, 8, 16, 32, 64, 128, 256, 512, 1024, 2048, 4096, 8192, 16384, 32768, genMax}

// drawSize is biased to small sizes but reaches the 64 KiB bound.
func drawSize(rt *rapid.T, label string) int {
	hi := rapid.SampledFrom(sizeClasses64).Draw(rt, label+"-class")
	if hi == 0 {
		return 0
	}
	return rapid.IntRange(hi/2, hi).Draw(rt, label)
}

// bulk fills n bytes from a drawn seed (drawing 64 Ki values one by one through rapid is slow; the
// text is still a pure function of the rapid seed).
func bulk(rt *rapid.T, n int, alphabet []byte) string {
	seed := rapid.Int64().Draw(rt, "bulk-seed")
	r := rand.New(rand.NewSource(seed))
	b := make([]byte, n)
	for i := range b {
		if alphabet == nil {
			b[i] = byte(r.Intn(256))
		} else {
			b[i] = alphabet[r.Intn(len(alphabet))]
		}
	}
	return string(b)
}

var (
	asciiPunct   = []byte("!\"#$%&'()*+,-./:;<=>?@[\\]^_`{|}~ \t\r\n0123456789abcxyzfn")
	hostileBytes = []byte{'"', '\'', '\\', '/', '*', 0, 0xff, 0xc3, 0xe2, 0x80, '\n', '\r', '\t', ' ', '~', '`', 'x', 'u', 'U', '0', '7', '9', 'f', '_', '.', '$', '#', '@'}
)

func genBytes(rt *rapid.T) string {
	n := drawSize(rt, "size")
	switch rapid.IntRange(0, 3).Draw(rt, "flavour") {
	case 0: // uniform bytes
		if n <= 64 {
			return string(rapid.SliceOfN(rapid.Byte(), n, n).Draw(rt, "bytes"))
		}
		return bulk(rt, n, nil)
	case 1: // printable ASCII punctuation, digits, a few letters
		return bulk(rt, n, asciiPunct)
	case 2: // quotes, backslashes, comment openers, NUL, broken UTF-8
		return bulk(rt, n, hostileBytes)
	default: // a valid-looking head followed by noise
		head := rapid.SampledFrom(seedPrograms).Draw(rt, "head")
		if n > genMax-len(head) {
			n = genMax - len(head)
		}
		cut := rapid.IntRange(0, len(head)).Draw(rt, "cut")
		return head[:cut] + bulk(rt, n, hostileBytes)
	}
}

var hostilePieces = []string{
	`"`, `'`, `\`, `\\`, `\"`, `\'`, "/*", "*/", "//", "/", "*", "\x00", "\xff", "\xc3", "\xe2\x80", "\xf0\x9f", "é", "𝄞", "\u200b", "\ufeff",
	"\n", "\r\n", "\t", " ", "~", "`", "~>", "~ >", `\x`, `\x4`, `\u00`, `\U0001`, `\8`, `\1`, `"\`, `'\`, "\"\n", "0x", "1.", "1..", "1f", "1_", "._", "..=",
	"fn main() {", "}", "let x = ", ";", "import x from a:", "import { f } from m;", "$", "#[", "@", "=>", "->",
}

// genLong makes one very long lexeme.
func genLong(rt *rapid.T, max int) string {
	n := rapid.SampledFrom([]int{1, 17, 255, 256, 4095, 4096, 20000, genMax}).Draw(rt, "long-len")
	if n > max {
		n = max
	}
	if n < 1 {
		return ""
	}
	rep := func(s string, n int) string { return strings.Repeat(s, n/len(s)+1)[:n] }
	switch rapid.IntRange(0, 9).Draw(rt, "long-kind") {
	case 0:
		return rep("a", n)
	case 1:
		return rep("_x9", n)
	case 2:
		return rep("9", n)
	case 3:
		return rep("1_", n)
	case 4:
		return "1." + rep("0", n)
	case 5:
		return `"` + rep("s", n) + `"`
	case 6:
		return `"` + rep(`\n`, n) + `"`
	case 7:
		return "/*" + rep("c", n) + "*/"
	case 8:
		return "//" + rep("c", n) + "\n"
	default:
		return `'` + rep("é", n) // unterminated, multi-byte
	}
}

func genHostile(rt *rapid.T) string {
	var b strings.Builder
	n := rapid.IntRange(1, 40).Draw(rt, "pieces")
	for i := 0; i < n && b.Len() < genMax; i++ {
		switch w := rapid.IntRange(0, 9).Draw(rt, "piece-class"); {
		case w < 6:
			b.WriteString(rapid.SampledFrom(hostilePieces).Draw(rt, "piece"))
		case w < 8:
			b.WriteString(genToken(rt))
		default:
			b.WriteString(genLong(rt, genMax-b.Len()))
		}
	}
	s := b.String()
	if len(s) > genMax {
		s = s[:genMax]
	}
	return s
}

// ---------------------------------------------------------------------------------------------
// (ii) token soup over the whole token alphabet

var (
	keywords = []string{"import", "as", "from", "try", "catch", "in", "let", "pub", "fn", "if", "else", "match", "for", "while", "loop",
		"break", "continue", "return", "type", "new", "spawn", "event", "impl", "with", "templ", "trigger", "true", "false", "none", "null", "on", "off"}
	operators = []string{"#", "?", "@", "$", "_", ";", ",", ":", ".", "..", "->", "=>", "~>", "(", ")", "{", "}", "[", "]",
		"||", "&&", "==", "!=", "<", "<=", ">", ">=", "!", "+", "-", "*", "/", "%", "**", "<<", ">>", "|", "&", "^",
		"=", "+=", "-=", "*=", "/=", "**=", "%=", "<<=", ">>=", "|=", "&=", "^="}
	literals = []string{"0", "1", "42", "007", "1_000", "9223372036854775807", "9223372036854775808", "99999999999999999999", "1f", "1.5", "0.0", "3.1415", "1e5",
		"1.7976931348623157e308", "1" + strings.Repeat("0", 400) + ".0", `""`, `"a"`, `'b'`, `"\n"`, `"\x41"`, `"é𝄞"`, `"a b"`, `'\''`, `"$x"`, `"{}"`}
	names = []string{"main", "f", "g", "h", "x", "y", "z", "i", "T", "U", "S", "m", "a", "b", "e", "self",
		"int", "str", "bool", "float", "any", "range", "list",
		"println", "print", "debug", "assert", "fmt", "log", "time", "sleep", "now", "throw", "exit",
		"assert_eq", "any_func", "any_list", "minute", "FooFeature", "dim", "set_temp", "light", "temperature", "testing", "triggers", "templates", "net", "host",
		"len", "push", "pop", "to_string", "unwrap", "is_some", "keys", "at", "nosuch", "undefined", "__internal", "allow_unused"}
	separators = []string{" ", " ", " ", "", "", "\n", "\t", "\r\n", "/*c*/", "//c\n", "  "}
)

func genToken(rt *rapid.T) string {
	switch w := rapid.IntRange(0, 19).Draw(rt, "tok-class"); {
	case w < 5:
		return rapid.SampledFrom(keywords).Draw(rt, "kw")
	case w < 11:
		return rapid.SampledFrom(operators).Draw(rt, "op")
	case w < 14:
		return rapid.SampledFrom(literals).Draw(rt, "lit")
	default:
		return rapid.SampledFrom(names).Draw(rt, "name")
	}
}

// fragments are short token runs that bring the parser into a particular state.
var fragments = []string{
	"fn main() {", "fn f(x: int) -> int {", "pub fn g() {", "event fn e() {", "}", "};", "{", "let x =", "let y: int =", "pub let v =", "type T =", "pub type U =",
	"import x from a;", "import { f, g } from m;", "import type T from m;", "import { type T, templ U } from m;", "import trigger minute from triggers;", "import templ FooFeature from templates;",
	"import x from a:", "import x from @", "import x from a:b:c;", "import { assert_eq } from testing;", "import _ from m;", "import {", "from", "$S = {", "$S = int;", "$S = { @setting x: int };", "$S",
	"impl FooFeature with { light } for $S {", "impl U for $S {", "impl", "with {", "#[", "#[foo]", "#[allow_unused]", "#[trigger at minute(1)]", "#[trigger on", "]", "trigger f at minute(1);", "trigger f on", "trigger",
	"if x {", "} else {", "} else if y {", "match x {", "1 =>", "_ =>", "1 | 2 =>", "-1 =>", "\"a\" =>", "try {", "} catch e {", "for i in 0..10 {", "for i in", "while true {", "loop {", "break;", "continue;", "return;", "return",
	"new {", "new { ? }", "new { a: 1 }", "a: 1,", "\"k\": 2,", "[1, 2]", "[", "fn() {", "fn(a: int) -> int {", "x as int", "as", "as [int]", "as {?}", "as fn() -> int", "spawn f()", "spawn", "x.y", "x->y", "x~>y", "x[0]", "f()", "f(1, 2)", "f(",
	"?int", "[int]", "{ a: int }", "{ ? }", "fn(x: int) -> str", "?", "1..2", "1..=2", "..", "x = 1;", "x += 1;", "x **= 2;", "(", ")", ",", ";", ":", "->", "=>", "=",
}

func genSoup(rt *rapid.T) string {
	n := rapid.IntRange(1, 60).Draw(rt, "tokens")
	if rapid.IntRange(0, 9).Draw(rt, "big") == 0 {
		n = rapid.IntRange(60, 4000).Draw(rt, "many-tokens")
	}
	useFrag := rapid.IntRange(0, 2).Draw(rt, "fragments")
	var b strings.Builder
	if rapid.IntRange(0, 3).Draw(rt, "in-fn") == 0 {
		b.WriteString("fn main() { ")
	}
	for i := 0; i < n && b.Len() < genMax-200; i++ {
		if i > 0 {
			b.WriteString(rapid.SampledFrom(separators).Draw(rt, "sep"))
		}
		if useFrag > 0 && rapid.IntRange(0, 2).Draw(rt, "frag?") < useFrag {
			b.WriteString(rapid.SampledFrom(fragments).Draw(rt, "frag"))
		} else {
			b.WriteString(genToken(rt))
		}
	}
	return b.String()
}

// ---------------------------------------------------------------------------------------------
// (ii-b) grammar soup: syntactically well-formed, untyped, unresolved programs. Only these reach
// the analyzer in numbers; they know nothing about types or scopes on purpose.

type sg struct {
	t      *rapid.T
	budget int
	module bool
}

func (g *sg) n(label string, lo, hi int) int { return rapid.IntRange(lo, hi).Draw(g.t, label) }
func (g *sg) pick(label string, xs []string) string { return rapid.SampledFrom(xs).Draw(g.t, label) }
func (g *sg) chance(label string, pct int) bool { return g.n(label, 0, 99) < pct }

var (
	valueNames = []string{"x", "y", "z", "i", "v", "main", "f", "g", "h", "e", "println", "print", "debug", "assert", "fmt", "log", "time", "throw", "exit",
		"assert_eq", "any_func", "any_list", "minute", "FooFeature", "T", "U", "nosuch", "undefined", "self", "m", "int", "null",
		"x", "y", "f", "g", "main", "println"}
	identNames = []string{"x", "y", "z", "i", "v", "main", "f", "g", "h", "e", "println", "print", "debug", "assert", "fmt", "log", "time", "throw", "exit",
		"assert_eq", "any_func", "any_list", "minute", "FooFeature", "T", "U", "nosuch", "undefined", "self", "m", "int"}
	typeDefNames = []string{"T", "U", "V", "W", "D", "f", "x", "T", "U", "V", "W", "D", "T", "U", "nosuch", "int", "_"}
	typeNames  = []string{"int", "str", "bool", "float", "null", "any", "range", "T", "U", "V", "W", "nosuch", "_", "FooFeature", "f", "x"}
	fieldNames = []string{"a", "b", "len", "push", "pop", "to_string", "unwrap", "is_some", "keys", "sleep", "now", "x", "_", "get", "dim", "set_temp", `"a b"`, `"a"`}
	memberNames = []string{"a", "b", "len", "push", "pop", "to_string", "unwrap", "is_some", "keys", "sleep", "now", "x", "_", "get", "dim", "set_temp", "status", "year", "concat", "join", "contains", "split", "nosuch"}
	infixOps   = []string{"+", "-", "*", "/", "%", "**", "<<", ">>", "|", "&", "^", "||", "&&", "==", "!=", "<", "<=", ">", ">="}
	assignOps  = []string{"=", "+=", "-=", "*=", "/=", "**=", "%=", "<<=", ">>=", "|=", "&=", "^="}
	simpleLits = []string{"0", "1", "2", "42", "1.5", "1f", "true", "false", "on", "off", "null", "none", `""`, `"a"`, `'b'`, `"é"`, "9223372036854775807", "[]", "new {}", "new { ? }"}
	modNames   = []string{"m", "a", "b", "main", "testing", "triggers", "templates", "net", "host", "nosuch", "z"}
	importable = []string{"f", "g", "h", "v", "T", "U", "main", "assert_eq", "any_func", "any_list", "minute", "FooFeature", "ping", "http", "HttpResponse", "host_int", "any_val", "nosuch", "_", "x"}
)

func (g *sg) typ(d int) string {
	g.budget--
	if d <= 0 || g.budget <= 0 {
		return g.pick("tname", typeNames)
	}
	switch g.n("type", 0, 9) {
	case 0, 1, 2:
		return g.pick("tname", typeNames)
	case 3:
		return "$" + g.pick("sname", []string{"S", "R", "nosuch"})
	case 4:
		return "[" + g.typ(d-1) + "]"
	case 5:
		return "?" + g.typ(d-1)
	case 6:
		return "{ ? }"
	case 7:
		var fs []string
		for i, k := 0, g.n("fields", 0, 3); i < k; i++ {
			fs = append(fs, g.pick("field", fieldNames)+": "+g.typ(d-1))
		}
		return "{ " + strings.Join(fs, ", ") + " }"
	default:
		var ps []string
		for i, k := 0, g.n("tparams", 0, 2); i < k; i++ {
			ps = append(ps, g.pick("pname", valueNames[:9])+": "+g.typ(d-1))
		}
		s := "fn(" + strings.Join(ps, ", ") + ")"
		if g.chance("tret", 60) {
			s += " -> " + g.typ(d-1)
		}
		return s
	}
}

func (g *sg) params() string {
	var ps []string
	for i, k := 0, g.n("params", 0, 3); i < k; i++ {
		ps = append(ps, g.pick("pname", valueNames[:10])+": "+g.typ(2))
	}
	return "(" + strings.Join(ps, ", ") + ")"
}

func (g *sg) args(d int) string {
	var as []string
	for i, k := 0, g.n("args", 0, 3); i < k; i++ {
		as = append(as, g.expr(d-1))
	}
	return "(" + strings.Join(as, ", ") + ")"
}

func (g *sg) block(d int) string {
	var b strings.Builder
	b.WriteString("{ ")
	if d > 0 && g.budget > 0 {
		for i, k := 0, g.n("stmts", 0, 3); i < k; i++ {
			b.WriteString(g.stmt(d - 1))
			b.WriteString(" ")
		}
		if g.chance("trailing", 40) {
			b.WriteString(g.expr(d - 1))
			b.WriteString(" ")
		}
	}
	b.WriteString("}")
	return b.String()
}

func (g *sg) matchLit() string {
	switch g.n("mlit", 0, 5) {
	case 0:
		return "_"
	case 1:
		return g.pick("mprefix", []string{"-", "!", "?"}) + g.pick("lit", simpleLits)
	case 2:
		return g.pick("lit", simpleLits) + " | " + g.pick("lit2", simpleLits)
	default:
		return g.pick("lit", simpleLits)
	}
}

func (g *sg) expr(d int) string {
	g.budget--
	if d <= 0 || g.budget <= 0 {
		if g.chance("leaf-name", 60) {
			return g.pick("name", valueNames)
		}
		return g.pick("lit", simpleLits)
	}
	switch g.n("expr", 0, 27) {
	case 0, 1, 2:
		return g.pick("name", valueNames)
	case 3:
		return g.pick("lit", simpleLits)
	case 4:
		return "$" + g.pick("sname", []string{"S", "R", "nosuch"})
	case 5:
		return "(" + g.expr(d-1) + ")"
	case 6:
		return g.pick("prefix", []string{"-", "!", "?"}) + g.expr(d-1)
	case 7, 8, 9:
		return g.expr(d-1) + " " + g.pick("infix", infixOps) + " " + g.expr(d-1)
	case 10:
		if g.chance("assign-parens", 85) {
			return "(" + g.lhs(d-1) + " " + g.pick("assign", assignOps) + " " + g.expr(d-1) + ")"
		}
		return g.lhs(d-1) + " " + g.pick("assign", assignOps) + " " + g.expr(d-1)
	case 11, 12, 13:
		return g.expr(d-1) + g.args(d)
	case 14:
		return g.expr(d-1) + "[" + g.expr(d-1) + "]"
	case 15, 16:
		return g.expr(d-1) + g.pick("memberop", []string{".", ".", ".", "->", "~>"}) + g.pick("member", memberNames)
	case 17:
		return g.expr(d-1) + " as " + g.typ(2)
	case 18:
		return "spawn " + g.pick("spawned", identNames) + g.args(d)
	case 19:
		return g.block(d)
	case 20:
		s := "if " + g.expr(d-1) + " " + g.block(d)
		if g.chance("else", 60) {
			if g.chance("elseif", 30) {
				s += " else if " + g.expr(d-1) + " " + g.block(d)
			}
			s += " else " + g.block(d)
		}
		return s
	case 21:
		var arms []string
		for i, k := 0, g.n("arms", 0, 3); i < k; i++ {
			arms = append(arms, g.matchLit()+" => "+g.expr(d-1))
		}
		return "match " + g.expr(d-1) + " { " + strings.Join(arms, ", ") + " }"
	case 22:
		return "try " + g.block(d) + " catch " + g.pick("catch", []string{"e", "x", "_", "main"}) + " " + g.block(d)
	case 23:
		return g.expr(d-1) + ".." + g.pick("incl", []string{"", "", "="}) + g.expr(d-1)
	case 24:
		var es []string
		for i, k := 0, g.n("elems", 0, 3); i < k; i++ {
			es = append(es, g.expr(d-1))
		}
		return "[" + strings.Join(es, ", ") + "]"
	case 25:
		var fs []string
		for i, k := 0, g.n("ofields", 0, 3); i < k; i++ {
			fs = append(fs, g.pick("field", fieldNames)+": "+g.expr(d-1))
		}
		return "new { " + strings.Join(fs, ", ") + " }"
	default:
		s := "fn" + g.params()
		if g.chance("fret", 50) {
			s += " -> " + g.typ(2)
		}
		return s + " " + g.block(d)
	}
}

// lhs: mostly something assignable, sometimes anything
func (g *sg) lhs(d int) string {
	switch g.n("lhs", 0, 24) {
	case 0, 1, 2, 3, 10, 11, 12, 13, 14, 15, 16, 17, 18, 19, 20, 21, 22, 23, 24:
		return g.pick("name", identNames)
	case 4, 5:
		return g.expr(d) + "." + g.pick("member", memberNames)
	case 6, 7:
		return g.expr(d) + "[" + g.expr(d) + "]"
	case 8:
		return g.pick("name", identNames) + " as " + g.typ(1)
	default:
		return g.expr(d)
	}
}

func (g *sg) let(pub bool) string {
	s := "let " + g.pick("letname", append([]string{"_"}, identNames...))
	if pub {
		s = "pub " + s
	}
	if g.chance("lettype", 35) {
		s += ": " + g.typ(3)
	}
	return s + " = " + g.expr(3) + ";"
}

func (g *sg) stmt(d int) string {
	g.budget--
	switch g.n("stmt", 0, 15) {
	case 0, 1, 2:
		return g.let(false)
	case 3:
		return "type " + g.pick("tdef", typeDefNames) + " = " + g.typ(3) + ";"
	case 4:
		if g.chance("retval", 60) {
			return "return " + g.expr(d) + ";"
		}
		return "return;"
	case 5:
		return g.pick("jump", []string{"break;", "continue;"})
	case 6:
		return "loop " + g.block(d)
	case 7:
		return "while " + g.expr(d) + " " + g.block(d)
	case 8:
		return "for " + g.pick("forname", append([]string{"_"}, identNames...)) + " in " + g.expr(d) + " " + g.block(d)
	case 9:
		return "trigger " + g.pick("cb", identNames) + " " + g.pick("conn", []string{"on", "at", "in"}) + " " + g.pick("trig", identNames) + g.args(d) + ";"
	case 10, 11:
		return g.lhs(d) + " " + g.pick("assign", assignOps) + " " + g.expr(d) + ";"
	default:
		e := g.expr(d + 1)
		if g.chance("semicolon", 90) {
			e += ";"
		}
		return e
	}
}

func (g *sg) fn(name string, top bool) string {
	s := ""
	if top && g.chance("annotated", 12) {
		s = "#[" + g.pick("annot", []string{"foo", "allow_unused", "allow_unused, allow_unused", "trigger at minute(1)", "trigger on minute(x, 2)", "trigger in nosuch()", "foo, bar", "trigger at f()"}) + "] "
	}
	switch {
	case g.module && g.chance("pubmod", 80), !g.module && g.chance("pub", 15):
		s += "pub "
	case g.chance("event", 8):
		s += "event "
	}
	s += "fn " + name + g.params()
	if g.chance("ret", 40) {
		s += " -> " + g.typ(3)
	}
	return s + " " + g.block(3)
}

func (g *sg) imp() string {
	kind := func() string { return g.pick("ikind", []string{"", "", "", "type ", "templ ", "trigger "}) }
	mod := g.pick("imod", modNames)
	if g.module && cycleGate() {
		// gate "module-cycle": an imported module that imports a code module again closes a cycle
		// (m -> m, m -> main -> m), and every such case dies the slow stack-overflow death
		mod = g.pick("imod-gated", []string{"testing", "triggers", "templates", "net", "host", "nosuch", "z"})
	}
	if g.chance("braces", 60) {
		var items []string
		for i, k := 0, g.n("iitems", 1, 3); i < k; i++ {
			kd := kind()
			if i > 0 && kd == "trigger " {
				kd = ""
			}
			items = append(items, kd+g.pick("iname", importable))
		}
		return "import { " + strings.Join(items, ", ") + " } from " + mod + ";"
	}
	return "import " + kind() + g.pick("iname", importable) + " from " + mod + ";"
}

func (g *sg) item() string {
	switch g.n("item", 0, 19) {
	case 0, 1, 2:
		return g.imp()
	case 3:
		return "$" + g.pick("sname", []string{"S", "R"}) + " = " + g.pick("styp", []string{g.typ(2), "{ @setting a: int, b: str }", "{ @nosuch a: int }"}) + ";"
	case 4, 5:
		return g.pick("pubt", []string{"", "pub "}) + "type " + g.pick("tdef", typeDefNames) + " = " + g.typ(3) + ";"
	case 6, 7, 8, 9:
		return g.let(g.chance("publet", 30))
	case 10:
		var ms []string
		for i, k := 0, g.n("methods", 0, 2); i < k; i++ {
			ms = append(ms, g.fn(g.pick("mname", []string{"dim", "set_temp", "f", "main"}), false))
		}
		with := ""
		if g.chance("with", 50) {
			with = " with { " + g.pick("cap", []string{"light", "temperature", "light, temperature", "nosuch", "light, light"}) + " }"
		}
		return "impl " + g.pick("templ", []string{"FooFeature", "U", "nosuch", "f"}) + with + " for $" + g.pick("sname", []string{"S", "R", "nosuch"}) + " { " + strings.Join(ms, " ") + " }"
	default:
		return g.fn(g.pick("fname", []string{"f", "g", "h", "main", "x", "e", "_"}), true)
	}
}

var cycleGateState = -1

func cycleGate() bool {
	if cycleGateState < 0 {
		cycleGateState = 0
		if pk.GateOpen("module-cycle") {
			cycleGateState = 1
		}
	}
	return cycleGateState == 1
}

// genGrammar makes one module text; module=true prefers pub items.
func genGrammar(rt *rapid.T, module bool) string {
	g := &sg{t: rt, budget: rapid.SampledFrom([]int{20, 60, 150, 400}).Draw(rt, "budget"), module: module}
	var items []string
	for i, k := 0, g.n("items", 1, 6); i < k; i++ {
		items = append(items, g.item())
	}
	if !module && g.chance("main", 85) {
		items = append(items, "fn main() "+g.block(4))
	}
	if g.chance("shuffle", 30) {
		seed := rapid.Int64().Draw(rt, "shuffle-seed")
		rand.New(rand.NewSource(seed)).Shuffle(len(items), func(i, j int) { items[i], items[j] = items[j], items[i] })
	}
	s := strings.Join(items, "\n")
	if len(s) > genMax {
		s = s[:genMax]
	}
	return s
}

// ---------------------------------------------------------------------------------------------
// (v) depth generators

type depthGen struct {
	name string
	top  bool                  // the fragment is a run of top-level items, not a function body
	make func(n int) string
	flat bool // n is a count, not a nesting depth
}

func rep(s string, n int) string { return strings.Repeat(s, n) }

// nest builds open^n core close^n.
func nest(open, core, close string, n int) string { return rep(open, n) + core + rep(close, n) }

var depthGens = []depthGen{
	{name: "parens", make: func(n int) string { return "let x = " + nest("(", "1", ")", n) + ";" }},
	{name: "blocks", make: func(n int) string { return nest("{", "", "}", n) }},
	{name: "block-values", make: func(n int) string { return "let x = " + nest("{ ", "1", " }", n) + ";" }},
	{name: "lists", make: func(n int) string { return "let x = " + nest("[", "1", "]", n) + ";" }},
	{name: "prefix-minus", make: func(n int) string { return "let x = " + rep("-", n) + "1;" }},
	{name: "prefix-not", make: func(n int) string { return "let x = " + rep("!", n) + "true;" }},
	{name: "prefix-some", make: func(n int) string { return "let x = " + rep("?", n) + "1;" }},
	{name: "prefix-mixed", make: func(n int) string { return "let x = " + rep("-!?", n) + "x;" }},
	{name: "else-if-chain", make: func(n int) string { return "if x == 0 { 0 }" + rep(" else if x == 1 { 1 }", n) + " else { 2 };" }},
	{name: "if-in-then", make: func(n int) string { return nest("if true { ", "1;", " }", n) }},
	{name: "if-in-else", make: func(n int) string { return nest("if false { 0 } else { ", "1", " }", n) + ";" }},
	{name: "if-in-condition", make: func(n int) string { return "let x = " + rep("if ", n) + "true" + rep(" { true } else { false }", n) + ";" }},
	{name: "match-nest", make: func(n int) string { return "let x = " + nest("match 1 { 1 => ", "0", ", _ => 2 }", n) + ";" }},
	{name: "match-default-nest", make: func(n int) string { return "let x = " + nest("match 1 { 1 => 0, _ => ", "2", " }", n) + ";" }},
	{name: "match-default-block-nest", make: func(n int) string { return nest("match 1 { 1 => { }, _ => { ", "1;", " } }", n) }},
	{name: "match-every-arm-nest", make: func(n int) string { return "let x = " + nest("match 1 { _ => ", "2", " }", n) + ";" }},
	{name: "match-control-nest", make: func(n int) string { return "let x = " + rep("match ", n) + "1" + rep(" { 1 => 1, _ => 2 }", n) + ";" }},
	{name: "loop-nest", make: func(n int) string { return nest("loop { ", "break;", " }", n) }},
	{name: "while-nest", make: func(n int) string { return nest("while true { ", "break;", " }", n) }},
	{name: "for-nest", make: func(n int) string { return nest("for i in 0..1 { ", "continue;", " }", n) }},
	{name: "try-nest", make: func(n int) string { return nest("try { ", "1;", " } catch e { }", n) }},
	{name: "try-in-catch", make: func(n int) string { return nest("try { } catch e { ", "1;", " }", n) }},
	{name: "fn-literal-nest", make: func(n int) string { return "let f = " + nest("fn() { ", "1", " }", n) + ";" }},
	{name: "fn-literal-return-nest", make: func(n int) string { return "let f = " + nest("fn() -> any { return ", "1", "; }", n) + ";" }},
	{name: "object-literal-nest", make: func(n int) string { return "let x = " + nest("new { a: ", "1", " }", n) + ";" }},
	{name: "call-arg-nest", make: func(n int) string { return "let x = " + nest("f(", "1", ")", n) + ";" }},
	{name: "index-nest", make: func(n int) string { return "let x = " + nest("a[", "0", "]", n) + ";" }},
	{name: "infix-paren-nest", make: func(n int) string { return "let x = " + nest("1+(", "1", ")", n) + ";" }},
	{name: "pow-right-assoc", make: func(n int) string { return "let x = " + rep("2 ** ", n) + "2;" }},
	{name: "assign-right-assoc", make: func(n int) string { return "let a = 0; " + rep("a = ", n) + "1;" }},
	{name: "assign-rhs-nest", make: func(n int) string { return "let a = 0; " + nest("a = (", "1", ")", n) + ";" }},
	{name: "assign-lhs-index-nest", make: func(n int) string { return "let a = [0]; " + nest("a[", "0", "]", n) + " = 1;" }},
	{name: "assign-lhs-member-chain", make: func(n int) string { return "let a = new { b: 1 }; a" + rep(".b", n) + " = 1;" }},
	{name: "call-base-paren-nest", make: func(n int) string { return nest("(", "f", ")", n) + "();" }},
	{name: "call-of-call-args", make: func(n int) string { return "f" + rep("(f)", n) + ";" }},
	{name: "member-of-paren-nest", make: func(n int) string { return nest("(", "a", ").b", n) + ";" }},
	{name: "while-condition-nest", make: func(n int) string { return nest("while { ", "true", " } { break; }", n) }},
	{name: "for-iter-nest", make: func(n int) string { return nest("for i in { ", "0..1", " } { break; }", n) }},
	{name: "range-lhs-nest", make: func(n int) string { return "let x = " + nest("(", "1", "..2)", n) + ";" }},
	{name: "cast-in-cast-type", make: func(n int) string { return "let x = 1 as " + nest("{ a: ", "int", " }", n) + ";" }},
	{name: "throw-nest", make: func(n int) string { return nest("throw(", "1", ")", n) + ";" }},
	{name: "println-nest", make: func(n int) string { return nest("println(", "1", ")", n) + ";" }},
	{name: "range-chain", make: func(n int) string { return "let x = " + rep("1..", n) + "2;" }},
	{name: "cast-chain", make: func(n int) string { return "let x = 1" + rep(" as int", n) + ";" }},
	{name: "member-chain", make: func(n int) string { return "let x = a" + rep(".b", n) + ";" }},
	{name: "arrow-chain", make: func(n int) string { return "let x = a" + rep("->b", n) + rep("~>c", n) + ";" }},
	{name: "call-chain", make: func(n int) string { return "let x = f" + rep("()", n) + ";" }},
	{name: "index-chain", make: func(n int) string { return "let x = a" + rep("[0]", n) + ";" }},
	{name: "mixed-postfix-chain", make: func(n int) string { return "let x = a" + rep(".b()[0]", n) + ";" }},
	{name: "method-chain-builtin", make: func(n int) string { return "let x = \"s\"" + rep(".to_string()", n) + ";" }},
	{name: "spawn-nest", make: func(n int) string { return "let x = " + nest("spawn f(", "1", ")", n) + ";" }},
	{name: "type-list-let", make: func(n int) string { return "let x: " + nest("[", "int", "]", n) + " = [];" }},
	{name: "type-option-let", make: func(n int) string { return "let x: " + rep("?", n) + "int = none;" }},
	{name: "type-object-let", make: func(n int) string { return "let x: " + nest("{ a: ", "int", " }", n) + " = 1;" }},
	{name: "type-fn-param-let", make: func(n int) string { return "let x: " + nest("fn(a: ", "int", ") -> int", n) + " = 1;" }},
	{name: "type-fn-return-let", make: func(n int) string { return "let x: " + rep("fn() -> ", n) + "int = 1;" }},
	{name: "type-mixed-let", make: func(n int) string { return "let x: " + nest("[?{ a: ", "int", " }]", n) + " = 1;" }},
	{name: "type-cast-nest", make: func(n int) string { return "let x = 1 as " + nest("[", "int", "]", n) + ";" }},
	{name: "type-list-param", top: true, make: func(n int) string { return "pub fn p(a: " + nest("[", "int", "]", n) + ") {}" }},
	{name: "type-option-param", top: true, make: func(n int) string { return "pub fn p(a: " + rep("?", n) + "int) {}" }},
	{name: "type-object-param", top: true, make: func(n int) string { return "pub fn p(a: " + nest("{ a: ", "int", " }", n) + ") {}" }},
	{name: "type-fn-param", top: true, make: func(n int) string { return "pub fn p(a: " + nest("fn(a: ", "int", ")", n) + ") {}" }},
	{name: "type-fn-return", top: true, make: func(n int) string { return "pub fn p() -> " + rep("fn() -> ", n) + "int { 1 }" }},
	{name: "type-def-list", top: true, make: func(n int) string { return "pub type D = " + nest("[", "int", "]", n) + ";" }},
	{name: "type-def-object", top: true, make: func(n int) string { return "pub type D = " + nest("{ a: ", "int", " }", n) + ";" }},
	{name: "type-def-alias-chain", top: true, flat: true, make: func(n int) string {
		var b strings.Builder
		b.WriteString("type D0 = int;\n")
		for i := 1; i <= n; i++ {
			fmt.Fprintf(&b, "type D%d = [D%d];\n", i, i-1)
		}
		fmt.Fprintf(&b, "pub fn p(a: D%d) {}", n)
		return b.String()
	}},
	{name: "singleton-type-nest", top: true, make: func(n int) string { return "$S = " + nest("[", "int", "]", n) + ";\nfn p(a: $S) {}" }},
	{name: "singleton-object-nest", top: true, make: func(n int) string { return "$S = { @setting a: " + nest("{ a: ", "int", " }", n) + " };" }},
	{name: "impl-methods", top: true, flat: true, make: func(n int) string {
		return "import templ FooFeature from templates;\n$S = int;\nimpl FooFeature with { light } for $S {" + rep(" fn dim(p: int) -> bool { true }", n) + " }"
	}},
	{name: "annotation-items", top: true, flat: true, make: func(n int) string { return "#[" + rep("foo, ", n) + "bar] fn p() {}" }},
	{name: "fn-call-depth", top: true, flat: true, make: func(n int) string {
		var b strings.Builder
		for i := 0; i < n; i++ {
			fmt.Fprintf(&b, "fn c%d() { c%d(); }\n", i, i+1)
		}
		fmt.Fprintf(&b, "fn c%d() { c0(); }", n)
		return b.String()
	}},
}

// flat, large inputs: name -> text (as function body unless top)
var bulkGens = []depthGen{
	{name: "infix-flat-10000", make: func(int) string { return "let x = 1" + rep("+1", 9999) + ";" }},
	{name: "infix-flat-mixed-10000", make: func(int) string { return "let x = 1" + rep("*2-3", 5000) + ";" }},
	{name: "logic-flat-5000", make: func(int) string { return "let x = true" + rep(" && x", 2500) + rep(" || y", 2500) + ";" }},
	{name: "compare-flat-5000", make: func(int) string { return "let x = 1" + rep(" == 1", 5000) + ";" }},
	{name: "ident-64k", make: func(int) string { return "let " + rep("a", genMax-40) + " = 1;" }},
	{name: "ident-use-64k", make: func(int) string { return rep("a", genMax-40) + ";" }},
	{name: "int-64k", make: func(int) string { return "let x = " + rep("9", genMax-40) + ";" }},
	{name: "int-separators-64k", make: func(int) string { return "let x = 1" + rep("_0", (genMax-40)/2) + ";" }},
	{name: "float-64k", make: func(int) string { return "let x = 1." + rep("9", genMax-40) + ";" }},
	{name: "float-suffix-64k", make: func(int) string { return "let x = " + rep("9", genMax-40) + "f;" }},
	{name: "string-64k", make: func(int) string { return "let x = \"" + rep("s", genMax-40) + "\";" }},
	{name: "string-escapes-64k", make: func(int) string { return "let x = \"" + rep(`\n\x41é`, (genMax-40)/12) + "\";" }},
	{name: "string-unicode-64k", make: func(int) string { return "let x = '" + rep("𝄞", (genMax-40)/4) + "';" }},
	{name: "string-unterminated-64k", make: func(int) string { return "let x = \"" + rep("s", genMax-40) }},
	{name: "comment-block-64k", make: func(int) string { return "/*" + rep("c", genMax-40) + "*/" }},
	{name: "comment-line-64k", make: func(int) string { return "//" + rep("c", genMax-40) + "\n" }},
	{name: "comment-unterminated-64k", make: func(int) string { return "/*" + rep("*", genMax-40) }},
	{name: "comments-10000", make: func(int) string { return rep("/**/", 5000) + rep("//\n", 5000) }},
	{name: "newlines-64k", make: func(int) string { return rep("\n", genMax-40) }},
	{name: "crlf-tabs-64k", make: func(int) string { return rep("\r\n\t ", (genMax-40)/4) }},
	{name: "statements-10000", make: func(int) string { return rep("1;", 10000) }},
	{name: "lets-5000", make: func(int) string { return rep("let x = 1;", 5000) }},
	{name: "semicolons-10000", make: func(int) string { return "1" + rep(";", 10000) }},
	{name: "list-10000", make: func(int) string { return "let x = [" + rep("1,", 10000) + "];" }},
	{name: "object-fields-5000", make: func(int) string {
		var b strings.Builder
		b.WriteString("let x = new {")
		for i := 0; i < 5000; i++ {
			fmt.Fprintf(&b, "k%d:1,", i)
		}
		return b.String() + "};"
	}},
	{name: "object-same-field-10000", make: func(int) string { return "let x = new {" + rep("a:1,", 10000) + "};" }},
	{name: "call-args-10000", make: func(int) string { return "f(" + rep("1,", 10000) + ");" }},
	{name: "println-args-10000", make: func(int) string { return "println(" + rep("1,", 10000) + ");" }},
	{name: "match-arms-5000", make: func(int) string { return "let x = match 1 {" + rep("1=>2,", 5000) + "_=>3};" }},
	{name: "match-alternatives-10000", make: func(int) string { return "let x = match 1 { 1" + rep("|1", 10000) + " => 2, _ => 3 };" }},
	{name: "triggers-2000", make: func(int) string { return rep("trigger f at minute(1);", 2000) }},
	{name: "functions-many", top: true, make: func(int) string {
		var b strings.Builder
		for i := 0; b.Len() < genMax-20 && i < 10000; i++ {
			fmt.Fprintf(&b, "fn q%d(){}", i)
		}
		return b.String()
	}},
	{name: "functions-same-name-many", top: true, make: func(int) string { return rep("fn q(){}", (genMax-20)/8) }},
	{name: "params-5000", top: true, make: func(int) string {
		var b strings.Builder
		b.WriteString("fn q(")
		for i := 0; i < 5000; i++ {
			fmt.Fprintf(&b, "p%d:int,", i)
		}
		return b.String() + "){}"
	}},
	{name: "globals-5000", top: true, make: func(int) string { return rep("let q = 1;", 5000) }},
	{name: "typedefs-3000", top: true, make: func(int) string {
		var b strings.Builder
		for i := 0; i < 3000; i++ {
			fmt.Fprintf(&b, "type Q%d = int;", i)
		}
		return b.String()
	}},
	{name: "imports-1000-same", top: true, make: func(int) string { return rep("import { assert_eq } from testing;\n", 1000) }},
	{name: "imports-1000-distinct", top: true, make: func(int) string {
		var b strings.Builder
		for i := 0; i < 1000; i++ {
			fmt.Fprintf(&b, "import q%d from n%d;\n", i, i)
		}
		return b.String()
	}},
	{name: "import-items-5000", top: true, make: func(int) string { return "import { " + rep("assert_eq, ", 5000) + "} from testing;" }},
	{name: "import-path-5000", top: true, make: func(int) string { return "import x from a" + rep(":b", 5000) + ";" }},
	{name: "singletons-2000", top: true, make: func(int) string {
		var b strings.Builder
		for i := 0; i < 2000; i++ {
			fmt.Fprintf(&b, "$Q%d = int;", i)
		}
		return b.String()
	}},
	{name: "object-type-fields-5000", top: true, make: func(int) string {
		var b strings.Builder
		b.WriteString("type Q = {")
		for i := 0; i < 5000; i++ {
			fmt.Fprintf(&b, "k%d:int,", i)
		}
		return b.String() + "};"
	}},
	// unclosed nests stay at the property's depth bound
	{name: "open-braces-1000", top: true, make: func(int) string { return "fn q() " + rep("{", 1000) }},
	{name: "close-braces-64k", top: true, make: func(int) string { return "fn q() {}" + rep("}", genMax-40) }},
	{name: "open-parens-1000", make: func(int) string { return "let x = " + rep("(", 1000) }},
	{name: "open-brackets-1000", make: func(int) string { return "let x = " + rep("[", 1000) }},
	{name: "open-mixed-1000", make: func(int) string { return "let x = " + rep("([{", 333) }},
}

// wrapDepth puts a fragment into a program: as entry module (fn main) or as imported module (pub fn f).
func wrapDepth(g depthGen, frag string, asModule bool) string {
	if g.top {
		if asModule {
			return frag + "\npub fn f() {}\n"
		}
		return frag + "\nfn main() {}\n"
	}
	if asModule {
		return "pub fn f() { " + frag + " }\n"
	}
	return "fn main() { " + frag + " }\n"
}

// seedPrograms: small valid programs (heads for noise, fuzz seeds).
var seedPrograms = []string{
	"fn main() {}",
	"fn main() { println(\"a\"); }",
	"import { f } from m;\nfn main() { f(); }",
	"let g = 1;\nfn main() { let x: int = g + 2 * 3; }",
	"type T = { a: int, b: ?str };\nfn main() { let x: T = new { a: 1, b: none }; println(x.a); }",
	"fn f(a: int, b: [str]) -> int { if a > 0 { a } else { b.len() } }\nfn main() { f(1, []); }",
	"fn main() { for i in 0..10 { if i == 5 { break; } else { continue; } } while true { break; } loop { break; } }",
	"fn main() { let x = match 3 { 1 => \"a\", 2 | 3 => \"b\", _ => \"c\" }; }",
	"fn main() { try { throw(\"x\"); } catch e { println(e); } }",
	"fn main() { let f = fn(a: int) -> int { a + 1 }; f(1); }",
	"$S = { @setting a: int };\nfn s(x: $S) { println(x.a); }\nfn main() {}",
	"import templ FooFeature from templates;\n$S = int;\nimpl FooFeature with { light } for $S { fn dim(percent: int) -> bool { true } }\nfn main() {}",
	"import trigger minute from triggers;\nfn cb(elapsed: int) {}\nfn main() { trigger cb at minute(1); }",
	"#[trigger at minute(1)]\nfn cb(elapsed: int) {}\nimport trigger minute from triggers;\nfn main() {}",
	"fn main() { let x = spawn main(); let y = 1 as float; let z = [1, 2][0]; let o = ?1; }",
	"pub fn f() -> int { 1 }\npub let v = 2;\npub type T = int;",
}

// probePrograms: hand-written programs around the analyzer's special cases (names used outside of
// functions, triggers, templates, singletons, self-imports, kind-mismatched imports, recursive
// types, type errors of every operator). They are table inputs of their own (TestProbes) and bases
// for the mutation and edit generators.
var probePrograms = []string{
	"#[allow_unused] fn f() {}\nfn main() {}",
	"import { f } from m;\n#[allow_unused] fn f() {}\nfn main() {}",
	"#[allow_unused] fn f() {}\nfn f() {}\nfn main() {}",
	"#[allow_unused] fn println() {}\nfn main() {}",
	"let f = 1;\n#[allow_unused] fn f() {}\nfn main() {}",
	"import trigger minute from triggers;\n#[trigger at minute(1)] fn cb(e: int) {}\n#[trigger at minute(1)] fn cb(e: int) {}\nfn main() {}",
	"import trigger minute from triggers;\n#[trigger at minute(1)] event fn main(e: int) {}",
	"import trigger minute from triggers;\nlet cb = 1;\n#[trigger at minute(1)] event fn cb(e: int) {}\nfn main(){}",
	"import trigger minute from m;\n#[trigger at minute(1)] event fn cb(e: int) {}\nfn main() { trigger cb at minute(1); }",
	"import trigger http from net;\nfn main() {}",
	"type T = T;\nfn main() { let x: T = 1; }",
	"type A = [B];\ntype B = ?A;\nfn main() { let x: A = []; }",
	"fn main() { type T = [T]; let x: T = []; }",
	"fn main() { let x: any = 1; x = 2; x += 1; }",
	"import templ FooFeature from templates;\n$S = int;\nimpl FooFeature with { light } for $S { event fn dim(percent: int) -> bool { true } }\nfn main() {}",
	"import templ FooFeature from templates;\n$S = int;\nimpl FooFeature with { light } for $S { pub fn dim(percent: int) -> bool { true } }\nfn main() {}",
	"import templ FooFeature from templates;\n$S = int;\nimpl FooFeature for $S { }\nimpl FooFeature for $S { }\nfn main() {}",
	"import templ FooFeature from templates;\nimpl FooFeature with { light, temperature } for $S { fn dim(p: $S) -> bool { true } }\nfn main() {}",
	"$S = int;\n$S = str;\nfn f(a: $S, b: $S) {}\nfn main() { f(); }",
	"$S = { a: int };\nfn main() { $S.a = 1; $S = 2; let x = $S; $nosuch; }",
	"fn f(a: $S) {}\nfn main() { f(); let g = fn(a: $S) {}; spawn f(); }",
	"$S = int;\nfn main(a: $S) {}",
	"$S = int;\nevent fn e(a: $S) {}\nfn main() { trigger e at minute(); }",
	"fn main() { for i in 1 {} for i in \"s\" {} for i in new {} {} for i in none {} for i in main {} }",
	"fn main() { match main { 1 => 2 } match [1] { [1] => 2 } match new {} { _ => 1 } match 1.5 { 1 => 1, \"a\" => 2, none => 3, null => 4, true => 5 } }",
	"fn main() { let x = 1 as fn() -> int; let y = main as int; let z = [1] as [str]; let w = new {a: 1} as {?}; let v = w as {a: str}; let u = none as ?int; }",
	"fn main() { \"s\".nosuch; [1].push; (1..2).start; 1.to_string(); none.unwrap(); new {a:1}.keys(); main.a; println.a; }",
	"fn main() { let x = [1]; x[\"a\"]; x[1.5]; x[none]; \"s\"[0]; new {a:1}[\"a\"]; 1[0]; main[0]; (1..2)[0]; }",
	"fn main() { -\"s\"; !1; ?main; -none; !!null; -[1]; -new{}; ?? 1; }",
	"fn main() { 1 + \"s\"; [1] + [2]; main + main; none == none; null == null; new {} == new {}; (1..2) == (1..2); println == 1; fmt == fmt; log == log; println == println; print > debug; }",
	"fn main() { 1 ** none; 1 << 1.5; true && 1; 1 || 2; \"a\" * 3; 1 / 0; 1 % 0; 1.0 / 0; }",
	"fn main() { let x = if true { 1 } else { \"s\" }; let y = if 1 { 1 }; let z = match 1 { 1 => 1, _ => \"s\" }; let w = try { 1 } catch e { \"s\" }; let v = { }; }",
	"fn main() -> int { }\nfn f() -> int { return; }\nfn g() { return 1; }\nfn h() -> nosuch { h() }",
	"fn main() { let f = fn() -> int { return \"s\"; }; let g = fn(a: int, a: int) {}; g(1); g(1, 2, 3); f(1); }",
	"fn f(a: int, a: int) {}\nfn main() { f(1, 2); }",
	"fn main() { throw(); throw(1, 2); exit(); exit(\"s\"); assert(); fmt(); fmt(1); log(1); time.sleep(); time.nosuch(); }",
	"fn main() { let x = new { a: 1, a: 2, \"a\": 3 }; let y: { a: int, a: str } = x; type T = { a: int, a: int }; }",
	"fn main() { break; continue; return; return 1; loop { fn() { break; }; } }",
	"let x = { break; 1 };\nlet y = { return 1; };\nlet z = loop {};\nlet w = fn() { return 1; };\nlet v = { continue; };\nfn main() {}",
	"let a = b;\nlet b = a;\nlet c = c;\nfn main() {}",
	"let x = main;\nfn main() {}",
	"pub let x = main();\nfn main() -> int { x }",
	"let x = spawn main();\nlet y = spawn nosuch();\nfn main() { spawn undefined(); spawn println(1); }",
	"let x = { trigger main on m(); };\nevent fn e() {}\nlet y = { trigger e at minute(1); };\nfn main() {}",
	"let x = try { throw(1) } catch e { e };\nlet y = match 1 { _ => main };\nlet z = for i in 0..1 {};\nfn main() {}",
	"import { main } from main;\nfn main() { main(); }",
	"import main from main;\nimport main from main;\nfn main() {}",
	"import { type T } from main;\ntype T = int;\nfn main() {}",
	"import { templ T, trigger t } from main;\nfn main() { trigger main at t(); }\nimpl T for $S {}",
	"import x from testing;\nimport { type assert_eq } from testing;\nimport { templ any_func } from testing; import { trigger any_list } from testing;\nfn main() {}",
	"import type ping from net;\nimport templ http from net;\nimport { trigger HttpResponse } from net;\nfn main() { let x: ping = 1; }\nimpl http for $S {}",
	"import templ ping from net;\n$S = int;\nimpl ping with { light } for $S { fn dim() {} }\nfn main() {}",
	"import { host_int, any_val, nosuch } from host;\nimport type host_int from host;\nfn main() { host_int(); any_val(\"s\"); }",
	"import x from a\\",
	"import x from a:~",
	"import x from @\"",
}
