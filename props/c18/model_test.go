package c18

// Reference results for the members whose meaning is unambiguous from name + advertised type,
// and the typed "use" of a value (program text + expected output lines).

import (
	"fmt"
	"math"
	"regexp"
	"sort"
	"strconv"
	"strings"
	"unicode/utf8"

	"verif/hs"
)

// mres is the model's verdict for one call.
type mres struct {
	known     bool     // the model asserts this call
	interrupt bool     // the call must end in an interrupt (out-of-range index)
	ret       hs.Value // result value (nil for null results)
	doubt     string   // why nothing is asserted
}

func ok(v hs.Value) mres       { return mres{known: true, ret: v} }
func doubt(why string) mres    { return mres{doubt: why} }
func interrupted() mres        { return mres{known: true, interrupt: true} }
func isASCII(s string) bool    { return utf8.RuneCountInString(s) == len(s) }
func str(v hs.Value) string    { return string(v.(hs.StrV)) }
func integer(v hs.Value) int64 { return int64(v.(hs.IntV)) }

var decimalRe = regexp.MustCompile(`^-?[0-9]+$`)

// normIndex: negative indices count from the end; ok=false when outside [0, limit).
func normIndex(i, length, limit int64) (int64, bool) {
	if i < 0 {
		if i < -length {
			return 0, false
		}
		i += length
	}
	if i < 0 || i >= limit {
		return 0, false
	}
	return i, true
}

// hasObj: the display of objects (field order) and of ranges inside other values (the two
// backends render them differently; other properties own that) is not asserted here.
func hasObj(t hs.Type) bool {
	switch t.K {
	case hs.KObj, hs.KAnyObj, hs.KRange:
		return true
	case hs.KList, hs.KOpt:
		return hasObj(*t.Elem)
	}
	return false
}

// model applies member m to recv (mutated in place) with args.
func model(m Member, recv hs.Value, args []Arg) mres {
	a := func(i int) hs.Value { return args[i].V }
	switch r := recv.(type) {
	case *hs.ListV:
		n := int64(len(r.Elems))
		switch m.Name {
		case "len":
			return ok(hs.IntV(n))
		case "push":
			r.Elems = append(r.Elems, a(0))
			return ok(nil)
		case "push_front":
			r.Elems = append([]hs.Value{a(0)}, r.Elems...)
			return ok(nil)
		case "pop":
			if n == 0 {
				return ok(none())
			}
			v := r.Elems[n-1]
			r.Elems = r.Elems[:n-1]
			return ok(some(v))
		case "pop_front":
			if n == 0 {
				return ok(none())
			}
			v := r.Elems[0]
			r.Elems = r.Elems[1:]
			return ok(some(v))
		case "last":
			if n == 0 {
				return ok(none())
			}
			return ok(some(r.Elems[n-1]))
		case "contains":
			for _, e := range r.Elems {
				if hs.Equal(e, a(0)) {
					return ok(hs.BoolV(true))
				}
			}
			return ok(hs.BoolV(false))
		case "concat":
			r.Elems = append(r.Elems, a(0).(*hs.ListV).Elems...)
			return ok(nil)
		case "join":
			if hasObj(*m.Recv.Elem) {
				return doubt("display-of-objects")
			}
			parts := make([]string, n)
			for i, e := range r.Elems {
				parts[i] = hs.Display(e)
			}
			return ok(hs.StrV(strings.Join(parts, str(a(0)))))
		case "to_string":
			if hasObj(*m.Recv.Elem) {
				return doubt("display-of-objects")
			}
			return ok(hs.StrV(hs.Display(r)))
		case "sort":
			switch m.Recv.Elem.K {
			case hs.KInt:
				sort.SliceStable(r.Elems, func(i, j int) bool { return r.Elems[i].(hs.IntV) < r.Elems[j].(hs.IntV) })
			case hs.KFloat:
				sort.SliceStable(r.Elems, func(i, j int) bool { return r.Elems[i].(hs.FloatV) < r.Elems[j].(hs.FloatV) })
			case hs.KStr:
				sort.SliceStable(r.Elems, func(i, j int) bool { return r.Elems[i].(hs.StrV) < r.Elems[j].(hs.StrV) })
			default:
				return doubt("sort-order-of-" + m.Recv.Elem.K.String())
			}
			return ok(nil)
		case "remove":
			i, in := normIndex(integer(a(0)), n, n)
			if !in {
				return interrupted()
			}
			r.Elems = append(append([]hs.Value{}, r.Elems[:i]...), r.Elems[i+1:]...)
			return ok(nil)
		case "insert":
			i, in := normIndex(integer(a(0)), n, n+1) // position n appends
			if !in {
				return interrupted()
			}
			out := append([]hs.Value{}, r.Elems[:i]...)
			out = append(out, a(1))
			r.Elems = append(out, r.Elems[i:]...)
			return ok(nil)
		}
	case hs.StrV:
		s := string(r)
		switch m.Name {
		case "len":
			return ok(hs.IntV(utf8.RuneCountInString(s)))
		case "to_string":
			return ok(r)
		case "contains":
			return ok(hs.BoolV(strings.Contains(s, str(a(0)))))
		case "starts_with":
			return ok(hs.BoolV(strings.HasPrefix(s, str(a(0)))))
		case "to_upper":
			if !isASCII(s) {
				return doubt("non-ascii-case-mapping")
			}
			return ok(hs.StrV(strings.ToUpper(s)))
		case "to_lower":
			if !isASCII(s) {
				return doubt("non-ascii-case-mapping")
			}
			return ok(hs.StrV(strings.ToLower(s)))
		case "repeat":
			c := integer(a(0))
			if c < 0 {
				return doubt("negative-repeat-count")
			}
			if c > 1000 {
				return doubt("huge-repeat-count")
			}
			return ok(hs.StrV(strings.Repeat(s, int(c))))
		case "replace":
			if str(a(0)) == "" {
				return doubt("replace-empty-pattern")
			}
			return ok(hs.StrV(strings.ReplaceAll(s, str(a(0)), str(a(1)))))
		case "split":
			if str(a(0)) == "" {
				return doubt("split-empty-separator")
			}
			l := list()
			for _, p := range strings.Split(s, str(a(0))) {
				l.Elems = append(l.Elems, hs.StrV(p))
			}
			return ok(l)
		case "parse_int":
			if decimalRe.MatchString(s) {
				if x, err := strconv.ParseInt(s, 10, 64); err == nil {
					return ok(hs.IntV(x))
				}
			}
			return doubt("parse-of-non-decimal-text")
		case "parse_bool":
			if s == "true" || s == "false" {
				return ok(hs.BoolV(s == "true"))
			}
			return doubt("parse-of-non-bool-text")
		}
	case hs.IntV:
		switch m.Name {
		case "to_string":
			return ok(hs.StrV(hs.Display(r)))
		case "to_range":
			return ok(hs.RangeV{Start: 0, End: int64(r)})
		}
	case hs.FloatV:
		f := float64(r)
		switch m.Name {
		case "to_string":
			return ok(hs.StrV(fmt.Sprint(f)))
		case "is_int":
			if math.Abs(f) >= 9e18 {
				return doubt("float-beyond-int64")
			}
			return ok(hs.BoolV(f == math.Trunc(f)))
		case "trunc":
			if math.Abs(f) >= 9e18 {
				return doubt("float-beyond-int64")
			}
			return ok(hs.IntV(int64(math.Trunc(f))))
		case "round":
			if math.Abs(f) >= 9e18 {
				return doubt("float-beyond-int64")
			}
			if math.Abs(f-math.Trunc(f)) == 0.5 {
				return doubt("round-half")
			}
			return ok(hs.IntV(int64(math.Round(f))))
		}
	case hs.BoolV:
		if m.Name == "to_string" {
			return ok(hs.StrV(hs.Display(r)))
		}
	case hs.RangeV:
		switch m.Name {
		case "start":
			return ok(hs.IntV(r.Start))
		case "end":
			return ok(hs.IntV(r.End))
		case "to_string":
			if r.Incl {
				return doubt("display-of-inclusive-range")
			}
			return ok(hs.StrV(fmt.Sprintf("%d..%d", r.Start, r.End)))
		case "rev", "diff":
			return doubt("range-" + m.Name + "-meaning")
		}
	case hs.OptV:
		switch m.Name {
		case "is_some":
			return ok(hs.BoolV(r.Inner != nil))
		case "is_none":
			return ok(hs.BoolV(r.Inner == nil))
		case "unwrap_or":
			if r.Inner == nil {
				return ok(a(0))
			}
			return ok(r.Inner)
		case "unwrap", "expect":
			if r.Inner == nil {
				return doubt("unwrap-of-none")
			}
			return ok(r.Inner)
		case "to_string":
			if hasObj(*m.Recv.Elem) {
				return doubt("display-of-objects")
			}
			return ok(hs.StrV(hs.Display(r)))
		}
	case *hs.ObjV:
		switch {
		case m.Name == "keys":
			l := list()
			for _, k := range r.SortedKeys() {
				l.Elems = append(l.Elems, hs.StrV(k))
			}
			return ok(l)
		case r.Any && m.Name == "set":
			r.Set(str(a(0)), a(1))
			return ok(nil)
		case r.Any && m.Name == "get":
			if v, found := r.M[str(a(0))]; found {
				return ok(some(v))
			}
			return ok(none())
		}
	}
	return doubt("meaning-of-" + kindName(m.Recv) + "." + m.Name)
}

// ---------------------------------------------------------------------------------------------
// typed use

type prog struct {
	lines []string
	exp   []string
	noSet bool // useDeep: do not change any-objects
	loops int  // useDeep: loop variables used so far
}

func (p *prog) stmt(f string, a ...any)   { p.lines = append(p.lines, fmt.Sprintf(f, a...)) }
func (p *prog) expect(f string, a ...any) { p.exp = append(p.exp, fmt.Sprintf(f, a...)) }

func scalarKind(t hs.Type) bool {
	switch t.K {
	case hs.KInt, hs.KFloat, hs.KBool, hs.KStr:
		return true
	}
	return false
}

// use emits statements that use expr at type t (the "returns a value of the advertised type"
// part: a value of another type makes these operations fail) and, when v != nil, the lines they
// must print. setOnly compares a [str] as a set (keys of objects: order unspecified).
func (p *prog) use(expr string, t hs.Type, v hs.Value, depth int, ind string) {
	switch t.K {
	case hs.KInt:
		p.stmt("%sprintln(%s + 0);", ind, expr)
		if v != nil {
			p.expect("%s", hs.Display(v))
		}
	case hs.KFloat:
		p.stmt("%sprintln(%s + 0.0);", ind, expr)
		if v != nil {
			p.expect("%s", hs.Display(v))
		}
	case hs.KBool:
		p.stmt("%sprintln(!%s);", ind, expr)
		if v != nil {
			p.expect("%v", !bool(v.(hs.BoolV)))
		}
	case hs.KStr:
		p.stmt(`%sprintln("<" + %s + ">");`, ind, expr)
		if v != nil {
			p.expect("<%s>", string(v.(hs.StrV)))
		}
	case hs.KRange:
		p.stmt("%sprintln(%s.start + 0, %s.end + 0);", ind, expr, expr)
		if v != nil {
			p.expect("%d %d", v.(hs.RangeV).Start, v.(hs.RangeV).End)
		}
	case hs.KList:
		p.stmt("%sprintln(%s.len());", ind, expr)
		x := fmt.Sprintf("x%d", depth)
		p.stmt("%sfor %s in %s {", ind, x, expr)
		inner := &prog{}
		inner.use(x, *t.Elem, nil, depth+1, ind+"    ")
		p.lines = append(p.lines, inner.lines...)
		p.stmt("%s}", ind)
		if v != nil {
			l := v.(*hs.ListV)
			p.expect("%d", len(l.Elems))
			for _, e := range l.Elems {
				q := &prog{}
				q.use(x, *t.Elem, e, depth+1, "")
				p.exp = append(p.exp, q.exp...)
			}
		}
	case hs.KOpt:
		p.stmt("%sprintln(%s.is_some());", ind, expr)
		p.stmt("%sif %s.is_some() {", ind, expr)
		inner := &prog{}
		var iv hs.Value
		if v != nil {
			iv = v.(hs.OptV).Inner
		}
		inner.use(expr+".unwrap()", *t.Elem, iv, depth+1, ind+"    ")
		p.lines = append(p.lines, inner.lines...)
		p.stmt("%s}", ind)
		if v != nil {
			p.expect("%v", iv != nil)
			if iv != nil {
				p.exp = append(p.exp, inner.exp...)
			}
		}
	case hs.KObj:
		fs := append([]hs.Field{}, t.Fields...)
		sort.Slice(fs, func(i, j int) bool { return fs[i].Name < fs[j].Name })
		for _, f := range fs {
			var fv hs.Value
			if v != nil {
				fv = v.(*hs.ObjV).M[f.Name]
			}
			p.use(expr+"."+f.Name, f.T, fv, depth, ind)
		}
	case hs.KAnyObj:
		p.stmt("%sprintln(%s.keys().len());", ind, expr)
		if v != nil {
			o := v.(*hs.ObjV)
			p.expect("%d", len(o.M))
			p.stmt("%sprintln(%s.keys().contains(\"__absent\"));", ind, expr)
			p.expect("false")
			for _, k := range o.SortedKeys() {
				p.stmt("%sprintln(%s.keys().contains(%s));", ind, expr, hs.QuoteStr(k))
				p.expect("true")
				if kt := typeOf(o.M[k]); scalarKind(kt) {
					p.use(fmt.Sprintf("(%s.get(%s).unwrap() as %s)", expr, hs.QuoteStr(k), kt.Src()), kt, o.M[k], depth, ind)
				} else {
					p.stmt("%sprintln(%s.get(%s).is_some());", ind, expr, hs.QuoteStr(k))
					p.expect("true")
				}
			}
		}
	}
}

// useSet: a [str] result compared as a set.
func (p *prog) useSet(expr string, v hs.Value, ind string) {
	p.stmt("%sprintln(%s.len());", ind, expr)
	p.stmt("%sprintln(%s.contains(\"__absent\"));", ind, expr)
	if v == nil {
		return
	}
	l := v.(*hs.ListV)
	p.expect("%d", len(l.Elems))
	p.expect("false")
	for _, e := range l.Elems {
		p.stmt("%sprintln(%s.contains(%s));", ind, expr, lit(e))
		p.expect("true")
	}
}
