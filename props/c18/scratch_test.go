package c18

import (
	"fmt"
	"os"
	"path/filepath"
	"sort"
	"strings"
	"testing"

	"verif/px"
	"verif/sb"
)

// TestScratch runs every /tmp/c18s/*.hms on both backends and prints what happened (dev tool).
func TestScratch(t *testing.T) {
	files, _ := filepath.Glob("/tmp/c18s/*.hms")
	sort.Strings(files)
	if len(files) == 0 {
		t.Skip()
	}
	for _, f := range files {
		b, _ := os.ReadFile(f)
		for _, be := range []string{"vm", "tree"} {
			c := px.ProgCase{Modules: map[string]string{"main": string(b)}, Entry: "main", Limits: sb.DefaultLimits()}
			resp := px.Pool().Exec(c.Request(be))
			fmt.Printf("== %s [%s] ", filepath.Base(f), be)
			if resp.Crash != "" || resp.Hang {
				fmt.Printf("CRASH %q hang=%v\n%s\n", resp.Crash, resp.Hang, firstLines(resp.CrashLog, 6))
				continue
			}
			if !resp.Accepted {
				fmt.Printf("REJECTED\n")
				for _, d := range append(resp.SyntaxErrors, resp.ErrorDiags()...) {
					fmt.Printf("   %s: %s @%d:%d\n", d.Level, d.Message, d.Span.Start.Line, d.Span.Start.Column)
				}
				break
			}
			r := resp.Run(be)
			fmt.Printf("%s/%s %q compileErr=%q init=%q\n   out=%q\n", r.Outcome.Class, r.Outcome.Kind, r.Outcome.Message, r.CompileErr, r.InitPanic, strings.Join(r.Writes, ""))
		}
	}
}

func firstLines(s string, n int) string {
	l := strings.Split(s, "\n")
	if len(l) > n {
		l = l[:n]
	}
	return strings.Join(l, "\n")
}
