package c18

import (
	"fmt"
	"sort"
	"strings"
	"testing"

	"verif/hs"
	"verif/pk"
	"verif/px"
	"verif/sb"
)

// A member acts on its receiver as it is when the member RUNS: the receiver is evaluated first, the
// arguments afterwards (program order), and an argument - or code between taking a member and calling it -
// may change the receiver's length. Indices, negative indices and bounds refer to the current length.

type mutRow struct {
	name, body string
	want       string
	fatal      string // expected fatal kind ("" = completes)
}

var mutRows = []mutRow{
	{"insert-negative-after-pop", `let l = [1, 2, 3]; l.insert(-1, l.pop().unwrap()); println(l);`, "[1, 3, 2]\n", ""},
	{"push-own-length", `let l = [1, 2, 3]; l.push(l.len()); println(l);`, "[1, 2, 3, 3]\n", ""},
	{"stored-remove-after-push", `let l = [1, 2, 3]; let rm = l.remove; l.push(4); rm(-1); println(l);`, "[1, 2, 3]\n", ""},
	{"stored-len-after-push", `let l = [1, 2, 3]; let n = l.len; l.push(9); println(n());`, "4\n", ""},
	{"stored-last-after-push", `let l = [1, 2]; let la = l.last; l.push(9); println(la().unwrap());`, "9\n", ""},
	{"stored-pop-after-push", `let l = [1, 2]; let po = l.pop; l.push(9); println(po().unwrap(), l);`, "9 [1, 2]\n", ""},
	{"last-twice-around-push", `let q = [5, 6]; println(q.last().unwrap(), { q.push(7); q.last().unwrap() });`, "6 7\n", ""},
	{"remove-index-from-pop", `let r = [1, 2, 3, 4]; r.remove(r.pop().unwrap() - 4); println(r);`, "[2, 3]\n", ""},
	{"insert-at-old-length", `let s = [1, 2, 3]; s.insert(s.len(), s.pop_front().unwrap()); println(s);`, "", "IndexOutOfBounds"},
	{"remove-out-of-range-after-pop", `let t = [10, 20, 2]; t.remove(t.pop().unwrap()); println(t);`, "", "IndexOutOfBounds"},
	{"remove-negative-after-pop", `let t = [10, 20, 30]; t.remove(0 - t.pop().unwrap() / 10); println(t);`, "", "IndexOutOfBounds"},
	{"insert-after-growth", `let l = [1]; l.insert(2, { l.push(2); l.push(3); 9 }); println(l);`, "[1, 2, 9, 3]\n", ""},
	{"index-after-growth", `let l = [1]; let f = fn(x: [int]) -> int { x.push(5); 1 }; println(l[f(l)]);`, "5\n", ""},
	{"pop-front-then-index", `let l = [1, 2, 3]; println(l[{ l.pop_front(); 1 }]);`, "3\n", ""},
	{"str-members-fresh", `let s = "ab"; let n = s.len; s += "cd"; println(n(), s.len());`, "2 4\n", ""},
}

func checkMutation(c px.ProgCase) *pk.Failure {
	resp := px.Pool().Exec(c.Request("vm", "tree"))
	if f := px.SandboxFailure("mutation", resp); f != nil {
		f.Msg = c.Note + "\n" + px.ProgText(c) + "\n" + f.Msg
		return f
	}
	if resp.Inconclusive {
		pk.Inconclusive()
		return nil
	}
	if !resp.Accepted {
		return pk.Failf("mutation", "table-rejected", "analyzer rejected the table program %s\n%s", c.Note, px.ProgText(c))
	}
	for _, b := range []string{"vm", "tree"} {
		if cls, msg := px.CompareRun(c.Expect, resp.Run(b)); cls != "" {
			return pk.Failf("mutation", b+" mutation:"+cls, "%s on %s: %s\n%s", c.Note, b, msg, px.ProgText(c))
		}
	}
	return nil
}

func init() { pk.Reg("mutation", checkMutation) }

func TestTableReceiverMutation(t *testing.T) {
	pk.SkipIfReplay(t)
	col := pk.NewCollector()
	for k, r := range mutRows {
		if !pk.Mine(k) {
			continue
		}
		exp := &px.Exp{Outcome: hs.Outcome{Class: "ok"}}
		if r.want != "" {
			exp.Writes = []string{r.want}
		}
		if r.fatal != "" {
			exp.Outcome = hs.Outcome{Class: "fatal", Kind: r.fatal}
		}
		c := px.ProgCase{Modules: map[string]string{"main": "fn main() {\n    " + r.body + "\n}\n"}, Entry: "main", Limits: sb.DefaultLimits(),
			Note: "receiver mutation " + r.name, Expect: exp}
		pk.Eval()
		pk.NonTrivial(c.Note, map[string]any{"row": r.name})
		col.Report(c, checkMutation(c))
	}
	pk.Exhaustive("table-receiver-mutation")
	col.Done(t)
}

// An any-object is a string-keyed map of data PLUS the builtin members the analyzer offers for `{ ? }`; a data
// key that is spelt like a member (`keys`, `get`, `set` ...) must not replace that member.
var anyObjMembers = []string{"get", "set", "keys", "get_type", "to_string", "to_json", "to_json_indent", "a", "zz"}

func TestTableAnyObjectKeyNames(t *testing.T) {
	pk.SkipIfReplay(t)
	col := pk.NewCollector()
	for k, m := range anyObjMembers {
		if !pk.Mine(k) {
			continue
		}
		keys := []string{m, "b"}
		sort.Strings(keys)
		body := fmt.Sprintf(`let o = new { ? };
    o.set(%q, 1);
    o.set("b", 2);
    println(o.keys());
    println(o.get(%q).is_some(), o.get("nope").is_some());
    println(o.to_json());
    o.set(%q, 5);
    println(o.keys().len(), o.to_json());
    let p = "{\"%s\": 7, \"b\": 8}".parse_json() as { ? };
    println(p.keys(), p.get(%q).is_some());
    p.set("c", 9);
    println(p.keys().len());`, m, m, m, m, m)
		want := fmt.Sprintf("[%s, %s]\ntrue false\n{\"%s\":%d,\"%s\":%d}\n2 {\"%s\":%d,\"%s\":%d}\n[%s, %s] true\n3\n",
			keys[0], keys[1], keys[0], val(keys[0], m, 1), keys[1], val(keys[1], m, 1), keys[0], val(keys[0], m, 5), keys[1], val(keys[1], m, 5), keys[0], keys[1])
		exp := &px.Exp{Outcome: hs.Outcome{Class: "ok"}, Writes: strings.SplitAfter(strings.TrimSuffix(want, "\n"), "\n")}
		exp.Writes[len(exp.Writes)-1] += "\n"
		c := px.ProgCase{Modules: map[string]string{"main": "fn main() {\n    " + body + "\n}\n"}, Entry: "main", Limits: sb.DefaultLimits(),
			Note: "any-object with a data key named " + m, Expect: exp}
		pk.Eval()
		pk.NonTrivial(c.Note, map[string]any{"key": m})
		col.Report(c, checkMutation(c))
	}
	pk.Exhaustive("table-anyobject-key-names")
	col.Done(t)
}

func val(key, m string, v int) int {
	if key == m {
		return v
	}
	return 2
}

// A typed object's DATA fields win over the builtin members every object has (`to_string`, `keys`, `to_json`,
// `to_json_indent`): the analyzer types `o.keys` as the field, both runtimes must hand out the field.
func TestTableObjectFieldNames(t *testing.T) {
	pk.SkipIfReplay(t)
	col := pk.NewCollector()
	k := 0
	for _, name := range []string{"to_string", "keys", "to_json", "to_json_indent", "len", "get", "a"} {
		for _, form := range []string{"cast", "literal", "annotated"} {
			k++
			if !pk.Mine(k) {
				continue
			}
			var body string
			switch form {
			case "cast":
				body = fmt.Sprintf("let o = \"{\\\"%s\\\": 7, \\\"b\\\": 8}\".parse_json() as { %s: int, b: int };\n    println(o.%s + 1, o.b, o[\"%s\"]);\n    o.%s = 20;\n    println(o.%s);", name, name, name, name, name, name)
			case "literal":
				body = fmt.Sprintf("let o = new { %s: 7, b: 8 };\n    println(o.%s + 1, o.b, o[\"%s\"]);\n    o.%s += 13;\n    println(o.%s);", name, name, name, name, name)
			default:
				body = fmt.Sprintf("let o: { %s: int, b: int } = \"{\\\"%s\\\": 7, \\\"b\\\": 8}\".parse_json();\n    println(o.%s + 1, o.b, o[\"%s\"]);\n    o.%s = 20;\n    println(o.%s);", name, name, name, name, name, name)
			}
			text := "fn main() {\n    " + body + "\n}\n"
			pk.Eval()
			resp := px.Pool().Exec(&sb.Request{Op: "analyze", Modules: map[string]string{"main": text}, Entry: "main"})
			if resp == nil || !resp.Accepted {
				pk.Class("object-field-name-refused-by-analyzer:" + name) // e.g. member names are refused in literals
				continue
			}
			exp := &px.Exp{Outcome: hs.Outcome{Class: "ok"}, Writes: []string{"8 8 7\n", "20\n"}}
			c := px.ProgCase{Modules: map[string]string{"main": text}, Entry: "main", Limits: sb.DefaultLimits(),
				Note: "object with a data field named " + name + " (" + form + ")", Expect: exp}
			pk.NonTrivial(c.Note, map[string]any{"field": name, "form": form})
			col.Report(c, checkMutation(c))
		}
	}
	pk.Exhaustive("table-object-field-names")
	col.Done(t)
}

// `{ ? }.keys` and `{ ? }.get` speak about the same keys: every key the object hands out reaches a value of that
// object, however the object was built (JSON documents with keys that are not in normal form, escapes, the empty key).
func TestTableOwnKeysReach(t *testing.T) {
	pk.SkipIfReplay(t)
	col := pk.NewCollector()
	docs := []struct {
		name, json string
		n          int
	}{
		{"decomposed-key", `{"cafe\u0301": 1, "b": 2}`, 2},
		{"hangul-jamo-key", `{"\u1100\u1161": 1}`, 1},
		{"empty-and-spaced-keys", `{"": 1, " ": 2, "a b": 3}`, 3},
		{"escaped-keys", `{"q\"uote": 1, "back\\slash": 2, "tab\t": 3, "nl\n": 4}`, 4},
		{"member-like-keys", `{"keys": 1, "get": 2, "set": 3, "to_json": 4}`, 4},
		{"nested", `{"o\u0308uter": {"cafe\u0301": 1}}`, 1},
	}
	for k, d := range docs {
		if !pk.Mine(k) {
			continue
		}
		body := fmt.Sprintf("let o = %s.parse_json() as { ? };\n    let ks = o.keys();\n    println(ks.len());\n    for key in ks { println(o.get(key).is_some(), o.get(key + \"__no\").is_some()); }\n    o.set(ks[0], 99);\n    println(o.keys().len(), o.get(ks[0]).unwrap() as int);", hs.QuoteStr(d.json))
		var writes []string
		writes = append(writes, fmt.Sprintf("%d\n", d.n))
		for i := 0; i < d.n; i++ {
			writes = append(writes, "true false\n")
		}
		writes = append(writes, fmt.Sprintf("%d 99\n", d.n))
		c := px.ProgCase{Modules: map[string]string{"main": "fn main() {\n    " + body + "\n}\n"}, Entry: "main", Limits: sb.DefaultLimits(),
			Note: "own keys reach their values: " + d.name, Expect: &px.Exp{Outcome: hs.Outcome{Class: "ok"}, Writes: writes}}
		pk.Eval()
		pk.NonTrivial(c.Note, map[string]any{"doc": d.name})
		col.Report(c, checkMutation(c))
	}
	pk.Exhaustive("table-own-keys-reach")
	col.Done(t)
}

// checkAgree: the program completes on both runtimes with the same output (used where the text a member answers
// with is not fixed by the property, but its existence and the agreement of the runtimes are).
func checkAgree(c px.ProgCase) *pk.Failure {
	resp := px.Pool().Exec(c.Request("vm", "tree"))
	if f := px.SandboxFailure("agree", resp); f != nil {
		f.Msg = c.Note + "\n" + px.ProgText(c) + "\n" + f.Msg
		return f
	}
	if resp.Inconclusive {
		pk.Inconclusive()
		return nil
	}
	if !resp.Accepted {
		return pk.Failf("agree", "table-rejected", "analyzer rejected the table program %s\n%s", c.Note, px.ProgText(c))
	}
	vm, tr := resp.Run("vm"), resp.Run("tree")
	if vm == nil || tr == nil {
		return pk.Failf("agree", "harness-error", "missing run result")
	}
	for _, r := range []*sb.RunResult{vm, tr} {
		if r.Outcome.Class != "ok" {
			return pk.Failf("agree", r.Backend+" agree:outcome", "%s on %s: outcome %s/%s %q after %q\n%s", c.Note, r.Backend, r.Outcome.Class, r.Outcome.Kind, r.Outcome.Message, strings.Join(r.Writes, ""), px.ProgText(c))
		}
	}
	if a, b := strings.Join(vm.Writes, ""), strings.Join(tr.Writes, ""); a != b {
		return pk.Failf("agree", "agree:writes", "%s: the runtimes print different text\n  vm:   %q\n  tree: %q\n%s", c.Note, a, b, px.ProgText(c))
	}
	return nil
}

func init() { pk.Reg("agree", checkAgree) }

// `{ ? }.get_type` answers for a stored value of EVERY kind, function values of each sort included.
func TestTableGetTypeKinds(t *testing.T) {
	pk.SkipIfReplay(t)
	col := pk.NewCollector()
	stored := []struct{ key, expr string }{
		{"i", "1"}, {"f", "1.5"}, {"b", "true"}, {"s", `"x"`}, {"l", "[1]"}, {"le", "el"}, {"o", "new { a: 1 }"}, {"a", "new { ? }"}, {"opt", "?1"}, {"no", "nn"},
		{"r", "0..2"}, {"bf", "println"}, {"bf2", "debug"}, {"mf", `"abc".len`}, {"mf2", "[1].push"}, {"uf", "helper"}, {"lam", "fn(x: int) -> int { x }"},
		{"nested", "[[?1]]"}, {"of", "new { f: print }"},
	}
	for k, st := range stored {
		if !pk.Mine(k) {
			continue
		}
		body := fmt.Sprintf("let el: [int] = [];\n    let nn: ?int = none;\n    let o = new { ? };\n    o.set(%q, %s);\n    o.set(\"other\", 0);\n    println(o.get_type(%q), o.get_type(\"other\"));\n    println(o.get(%q).is_some(), o.keys().len());", st.key, st.expr, st.key, st.key)
		c := px.ProgCase{Modules: map[string]string{"main": "fn helper(x: int) -> int { x }\nfn main() {\n    " + body + "\n}\n"}, Entry: "main", Limits: sb.DefaultLimits(),
			Note: "get_type of a stored " + st.key}
		pk.Eval()
		pk.NonTrivial(c.Note, map[string]any{"stored": st.expr})
		col.Report(c, checkAgree(c))
	}
	pk.Exhaustive("table-get-type-kinds")
	col.Done(t)
}
