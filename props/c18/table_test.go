package c18

// The (type x member) table is read from the analyzer's code at run time: ast.Type.Fields().
// Receivers and argument boundary sets are built from the ADVERTISED types only.

import (
	"fmt"
	"math"
	"sort"
	"strings"
	"unicode/utf8"

	"github.com/smarthome-go/homescript/v3/homescript/analyzer/ast"
	herrors "github.com/smarthome-go/homescript/v3/homescript/errors"

	"verif/hostkit"
	"verif/hs"
)

var (
	tObjA  = hs.TObj(hs.Field{Name: "a", T: hs.TInt})
	tObjAB = hs.TObj(hs.Field{Name: "a", T: hs.TInt}, hs.Field{Name: "b", T: hs.TStr})
	tObjOR = hs.TObj(hs.Field{Name: "o", T: hs.TOpt(hs.TInt)}, hs.Field{Name: "r", T: hs.TRange})
)

// typeInsts are the representative instantiations of every type kind.
var typeInsts = []hs.Type{
	hs.TInt, hs.TFloat, hs.TBool, hs.TStr, hs.TRange,
	hs.TList(hs.TInt), hs.TList(hs.TFloat), hs.TList(hs.TStr), hs.TList(hs.TBool),
	hs.TList(hs.TList(hs.TInt)), hs.TList(tObjA), hs.TList(hs.TOpt(hs.TInt)), hs.TList(hs.TRange),
	hs.TAnyObj, tObjAB, tObjOR,
	hs.TOpt(hs.TInt), hs.TOpt(hs.TStr), hs.TOpt(hs.TList(hs.TInt)), hs.TOpt(hs.TRange),
	hs.TNull,
}

func typeName(t hs.Type) string { return strings.ReplaceAll(t.Src(), " ", "") }

func typeByName(n string) (hs.Type, bool) {
	for _, t := range typeInsts {
		if typeName(t) == n {
			return t, true
		}
	}
	return hs.Type{}, false
}

// kindName is the type kind used in signatures (one root cause per kind x member).
func kindName(t hs.Type) string { return t.K.String() }

// PT is an advertised parameter / result type. Unknown is the analyzer's internal 'unknown'
// (a parameter that accepts a value of every type, e.g. the value of `{?}.set`).
type PT struct {
	T       hs.Type
	Unknown bool
}

func (p PT) String() string {
	if p.Unknown {
		return "unknown"
	}
	return typeName(p.T)
}

type Member struct {
	Recv   hs.Type
	Name   string
	IsFn   bool
	Params []PT
	PNames []string
	Ret    PT // for non-function members: the member's own type
	Sig    string
}

func (m Member) String() string { return typeName(m.Recv) + "." + m.Name }

// fromAst converts an advertised analyzer type into the harness's type model.
func fromAst(t ast.Type) (PT, error) {
	switch t.Kind() {
	case ast.UnknownTypeKind:
		return PT{Unknown: true, T: hs.TAny}, nil
	case ast.AnyTypeKind:
		return PT{T: hs.TAny}, nil
	case ast.NeverTypeKind:
		return PT{T: hs.TNever}, nil
	case ast.NullTypeKind:
		return PT{T: hs.TNull}, nil
	case ast.IntTypeKind:
		return PT{T: hs.TInt}, nil
	case ast.FloatTypeKind:
		return PT{T: hs.TFloat}, nil
	case ast.BoolTypeKind:
		return PT{T: hs.TBool}, nil
	case ast.StringTypeKind:
		return PT{T: hs.TStr}, nil
	case ast.RangeTypeKind:
		return PT{T: hs.TRange}, nil
	case ast.AnyObjectTypeKind:
		return PT{T: hs.TAnyObj}, nil
	case ast.ListTypeKind:
		in, err := fromAst(t.(ast.ListType).Inner)
		if err != nil || in.Unknown {
			return PT{}, fmt.Errorf("list of %v: %v", t, err)
		}
		return PT{T: hs.TList(in.T)}, nil
	case ast.OptionTypeKind:
		in, err := fromAst(t.(ast.OptionType).Inner)
		if err != nil || in.Unknown {
			return PT{}, fmt.Errorf("option of %v: %v", t, err)
		}
		return PT{T: hs.TOpt(in.T)}, nil
	case ast.ObjectTypeKind:
		var fs []hs.Field
		for _, f := range t.(ast.ObjectType).ObjFields {
			ft, err := fromAst(f.Type)
			if err != nil || ft.Unknown {
				return PT{}, fmt.Errorf("object field %s: %v", f.FieldName.Ident(), err)
			}
			fs = append(fs, hs.Field{Name: f.FieldName.Ident(), T: ft.T})
		}
		return PT{T: hs.TObj(fs...)}, nil
	}
	return PT{}, fmt.Errorf("advertised type %s (kind %v) has no harness counterpart", t, t.Kind())
}

// membersOf reads the members the analyzer offers on t (builtin members only: an object's own
// data fields are excluded). Sorted by name.
func membersOf(t hs.Type) ([]Member, error) {
	fields := hostkit.ToAstType(t).Fields(herrors.Span{})
	own := map[string]bool{}
	if t.K == hs.KObj {
		for _, f := range t.Fields {
			own[f.Name] = true
		}
	}
	var out []Member
	for name, ft := range fields {
		if own[name] {
			continue
		}
		m := Member{Recv: t, Name: name, Sig: strings.Join(strings.Fields(ft.String()), " ")}
		if fn, ok := ft.(ast.FunctionType); ok {
			m.IsFn = true
			norm, ok := fn.Params.(ast.NormalFunctionTypeParamKindIdentifier)
			if !ok {
				return nil, fmt.Errorf("%s.%s: variadic builtin members are not supported by this check", typeName(t), name)
			}
			for _, p := range norm.Params {
				pt, err := fromAst(p.Type)
				if err != nil {
					return nil, fmt.Errorf("%s.%s param %s: %v", typeName(t), name, p.Name.Ident(), err)
				}
				m.Params = append(m.Params, pt)
				m.PNames = append(m.PNames, p.Name.Ident())
			}
			rt, err := fromAst(fn.ReturnType)
			if err != nil {
				return nil, fmt.Errorf("%s.%s result: %v", typeName(t), name, err)
			}
			m.Ret = rt
		} else {
			rt, err := fromAst(ft)
			if err != nil {
				return nil, fmt.Errorf("%s.%s: %v", typeName(t), name, err)
			}
			m.Ret = rt
		}
		out = append(out, m)
	}
	sort.Slice(out, func(i, j int) bool { return out[i].Name < out[j].Name })
	return out, nil
}

// ---------------------------------------------------------------------------------------------
// values

func iv(xs ...int64) []hs.Value {
	out := make([]hs.Value, len(xs))
	for i, x := range xs {
		out[i] = hs.IntV(x)
	}
	return out
}
func list(es ...hs.Value) *hs.ListV { return &hs.ListV{Elems: es} }
func some(v hs.Value) hs.Value      { return hs.OptV{Inner: v} }
func none() hs.Value                { return hs.OptV{} }
func obj(any bool, kv ...any) *hs.ObjV {
	o := hs.NewObj(any)
	for i := 0; i+1 < len(kv); i += 2 {
		o.Set(kv[i].(string), kv[i+1].(hs.Value))
	}
	return o
}

// receivers: empty / one / many elements, "" / "a" / non-ASCII, ranges of every shape, ...
func receivers(t hs.Type) []hs.Value {
	switch t.K {
	case hs.KInt:
		return iv(0, 1, -1, 5, math.MaxInt64, math.MinInt64)
	case hs.KFloat:
		return []hs.Value{hs.FloatV(0), hs.FloatV(1.5), hs.FloatV(-2.5), hs.FloatV(2), hs.FloatV(0.1), hs.FloatV(-7.75), hs.FloatV(1e300), hs.FloatV(9.3e18)}
	case hs.KBool:
		return []hs.Value{hs.BoolV(true), hs.BoolV(false)}
	case hs.KStr:
		return []hs.Value{hs.StrV(""), hs.StrV("a"), hs.StrV("abc"), hs.StrV("a,b,,c"), hs.StrV("Hello World"), hs.StrV("é日本"),
			hs.StrV("123"), hs.StrV("-7"), hs.StrV("12x"), hs.StrV("true"), hs.StrV("1.5"), hs.StrV("[1, 2]"), hs.StrV(`{"a": 1}`),
			hs.StrV("007"), hs.StrV("9223372036854775808"), hs.StrV("null"), hs.StrV("[null, 1]"), hs.StrV(`{"a": null}`)}
	case hs.KRange:
		return []hs.Value{hs.RangeV{Start: 0, End: 0}, hs.RangeV{Start: 0, End: 3}, hs.RangeV{Start: 3, End: 0}, hs.RangeV{Start: 0, End: 3, Incl: true},
			hs.RangeV{Start: 3, End: 0, Incl: true}, hs.RangeV{Start: -2, End: 2}}
	case hs.KNull:
		return []hs.Value{hs.NullV{}}
	case hs.KAnyObj:
		return []hs.Value{obj(true), obj(true, "k", hs.IntV(1)), obj(true, "k", hs.IntV(1), "s", hs.StrV("v"), "l", list(iv(1, 2)...)),
			obj(true, "f", hs.FloatV(2), "n", none(), "o", some(hs.IntV(1)), "r", hs.RangeV{Start: 0, End: 3})}
	case hs.KObj:
		if _, isOR := t.FieldType("r"); isOR {
			return []hs.Value{obj(false, "o", some(hs.IntV(1)), "r", hs.RangeV{Start: 0, End: 3}), obj(false, "o", none(), "r", hs.RangeV{Start: 3, End: 0, Incl: true})}
		}
		return []hs.Value{obj(false, "a", hs.IntV(1), "b", hs.StrV("x")), obj(false, "a", hs.IntV(0), "b", hs.StrV(""))}
	case hs.KOpt:
		switch t.Elem.K {
		case hs.KInt:
			return []hs.Value{some(hs.IntV(5)), none(), some(hs.IntV(0))}
		case hs.KStr:
			return []hs.Value{some(hs.StrV("a")), none(), some(hs.StrV(""))}
		case hs.KList:
			return []hs.Value{some(list()), none(), some(list(iv(1, 2)...))}
		case hs.KRange:
			return []hs.Value{some(hs.RangeV{Start: 0, End: 3}), none()}
		}
	case hs.KList:
		switch t.Elem.K {
		case hs.KInt:
			return []hs.Value{list(), list(iv(7)...), list(iv(3, 1, 2)...), list(iv(5, -1, 5, 0)...)}
		case hs.KFloat:
			return []hs.Value{list(), list(hs.FloatV(1.5)), list(hs.FloatV(2.5), hs.FloatV(-1), hs.FloatV(0))}
		case hs.KStr:
			return []hs.Value{list(), list(hs.StrV("a")), list(hs.StrV("b"), hs.StrV("a"), hs.StrV("c")), list(hs.StrV("é"), hs.StrV(""), hs.StrV("z"))}
		case hs.KBool:
			return []hs.Value{list(), list(hs.BoolV(true)), list(hs.BoolV(true), hs.BoolV(false), hs.BoolV(true))}
		case hs.KList:
			return []hs.Value{list(), list(list()), list(list(iv(1)...), list(), list(iv(2, 3)...))}
		case hs.KObj:
			return []hs.Value{list(), list(obj(false, "a", hs.IntV(1))), list(obj(false, "a", hs.IntV(1)), obj(false, "a", hs.IntV(2)), obj(false, "a", hs.IntV(3)))}
		case hs.KOpt:
			return []hs.Value{list(), list(none()), list(some(hs.IntV(1)), none(), some(hs.IntV(3)))}
		case hs.KRange:
			return []hs.Value{list(), list(hs.RangeV{Start: 0, End: 3}), list(hs.RangeV{Start: 0, End: 3}, hs.RangeV{Start: 3, End: 0}, hs.RangeV{Start: 1, End: 2, Incl: true})}
		}
	}
	panic("no receivers for " + typeName(t))
}

// typeOf is the natural static type of a value stored through an 'unknown' parameter.
func typeOf(v hs.Value) hs.Type {
	switch v := v.(type) {
	case hs.IntV:
		return hs.TInt
	case hs.FloatV:
		return hs.TFloat
	case hs.BoolV:
		return hs.TBool
	case hs.StrV:
		return hs.TStr
	case hs.NullV:
		return hs.TNull
	case hs.RangeV:
		return hs.TRange
	case *hs.ListV:
		if len(v.Elems) == 0 {
			return hs.TList(hs.TInt)
		}
		return hs.TList(typeOf(v.Elems[0]))
	case hs.OptV:
		if v.Inner == nil {
			return hs.TOpt(hs.TInt)
		}
		return hs.TOpt(typeOf(v.Inner))
	case *hs.ObjV:
		if v.Any {
			return hs.TAnyObj
		}
		var fs []hs.Field
		for _, k := range v.SortedKeys() {
			fs = append(fs, hs.Field{Name: k, T: typeOf(v.M[k])})
		}
		return hs.TObj(fs...)
	}
	panic(fmt.Sprintf("typeOf %T", v))
}

type Arg struct {
	V hs.Value
	T hs.Type
	U bool // passed through an 'unknown' parameter: no annotation, natural type
}

func dedup(vs []hs.Value) []hs.Value {
	var out []hs.Value
	seen := map[string]bool{}
	for _, v := range vs {
		k := fmt.Sprintf("%d|%s", v.Kind(), hs.Display(v))
		if !seen[k] {
			seen[k] = true
			out = append(out, v)
		}
	}
	return out
}

// lengths of an indexable receiver (strings: bytes and runes, the property fixes neither).
func lengths(recv hs.Value) []int64 {
	switch r := recv.(type) {
	case *hs.ListV:
		return []int64{int64(len(r.Elems))}
	case hs.StrV:
		return []int64{int64(len(r)), int64(utf8.RuneCountInString(string(r)))}
	}
	return []int64{0}
}

func indexSet(recv hs.Value) []hs.Value {
	var xs []int64
	for _, l := range lengths(recv) {
		xs = append(xs, -l-1, -l, -1, 0, 1, l-1, l, l+1)
	}
	xs = append(xs, math.MinInt64, math.MaxInt64)
	sort.Slice(xs, func(i, j int) bool { return xs[i] < xs[j] })
	return dedup(iv(xs...))
}

// sampleValues: values of type t that occur in no receiver ("absent") plus ordinary ones.
func sampleValues(t hs.Type) []hs.Value {
	switch t.K {
	case hs.KInt:
		return iv(99)
	case hs.KFloat:
		return []hs.Value{hs.FloatV(0), hs.FloatV(1.5), hs.FloatV(9.25)}
	case hs.KBool:
		return []hs.Value{hs.BoolV(true), hs.BoolV(false)}
	case hs.KStr:
		return []hs.Value{hs.StrV(""), hs.StrV("a"), hs.StrV("zz")}
	case hs.KRange:
		return []hs.Value{hs.RangeV{Start: 0, End: 3}, hs.RangeV{Start: 7, End: 9}}
	case hs.KList:
		s := sampleValues(*t.Elem)
		return []hs.Value{list(), list(s[len(s)-1]), list(s...)}
	case hs.KOpt:
		s := sampleValues(*t.Elem)
		return []hs.Value{none(), some(s[len(s)-1])}
	case hs.KObj:
		o1, o2 := hs.NewObj(false), hs.NewObj(false)
		for _, f := range t.Fields {
			s := sampleValues(f.T)
			o1.Set(f.Name, s[0])
			o2.Set(f.Name, s[len(s)-1])
		}
		return []hs.Value{o2, o1}
	case hs.KAnyObj:
		return []hs.Value{obj(true), obj(true, "k", hs.IntV(1))}
	case hs.KNull:
		return []hs.Value{hs.NullV{}}
	}
	panic("no sample values for " + typeName(t))
}

// elementsOf: values of type t found inside the receiver ("present" elements / substrings / keys).
func elementsOf(recv hs.Value, t hs.Type) []hs.Value {
	var out []hs.Value
	add := func(v hs.Value) {
		if v != nil && hs.Conforms(v, t) {
			out = append(out, hs.DeepCopy(v))
		}
	}
	switch r := recv.(type) {
	case *hs.ListV:
		if n := len(r.Elems); n > 0 {
			add(r.Elems[0])
			add(r.Elems[n-1])
		}
	case hs.OptV:
		add(r.Inner)
	case hs.StrV:
		if t.K == hs.KStr && len(r) > 0 {
			s := string(r)
			_, w := utf8.DecodeRuneInString(s)
			add(hs.StrV(s[:w])) // first character: prefix and substring
			if strings.Contains(s, ",") {
				add(hs.StrV(","))
			}
			if rs := []rune(s); len(rs) > 2 {
				add(hs.StrV(string(rs[1:3]))) // inner substring
			}
			add(r) // the whole string
		}
	case *hs.ObjV:
		if t.K == hs.KStr {
			for _, k := range r.SortedKeys() {
				add(hs.StrV(k))
			}
		}
	}
	return out
}

// argValues builds the boundary set of one parameter from its advertised type.
func argValues(m Member, pi int, recv hs.Value) []Arg {
	p := m.Params[pi]
	if p.Unknown {
		var out []Arg
		for _, v := range []hs.Value{hs.IntV(1), hs.StrV("v"), list(iv(1, 2)...), hs.BoolV(true), hs.FloatV(2.5), hs.RangeV{Start: 0, End: 3}, some(hs.IntV(4)), obj(false, "a", hs.IntV(1))} {
			out = append(out, Arg{V: v, T: typeOf(v), U: true})
		}
		return out
	}
	var vs []hs.Value
	switch p.T.K {
	case hs.KInt:
		vs = append(indexSet(recv), elementsOf(recv, hs.TInt)...)
		if _, isList := recv.(*hs.ListV); isList && m.Recv.Elem.K == hs.KInt {
			vs = append(vs, sampleValues(hs.TInt)...)
		}
		if _, isOpt := recv.(hs.OptV); isOpt {
			vs = append(vs, sampleValues(hs.TInt)...)
		}
	case hs.KStr:
		vs = append(vs, hs.StrV(""), hs.StrV("a"))
		vs = append(vs, elementsOf(recv, hs.TStr)...)
		vs = append(vs, hs.StrV("zz"), hs.StrV(", "))
		if m.Recv.K == hs.KAnyObj {
			vs = append(vs, hs.StrV("k"), hs.StrV("l"), hs.StrV("s"))
		}
	default:
		vs = append(elementsOf(recv, p.T), sampleValues(p.T)...)
	}
	var out []Arg
	for _, v := range dedup(vs) {
		out = append(out, Arg{V: v, T: p.T})
	}
	return out
}

// argTuples is the cross product of the parameters' boundary sets.
func argTuples(m Member, recv hs.Value) [][]Arg {
	tuples := [][]Arg{{}}
	for pi := range m.Params {
		var next [][]Arg
		for _, tu := range tuples {
			for _, a := range argValues(m, pi, recv) {
				next = append(next, append(append([]Arg{}, tu...), Arg{V: hs.DeepCopy(a.V), T: a.T, U: a.U}))
			}
		}
		tuples = next
	}
	return tuples
}

// ---------------------------------------------------------------------------------------------
// source text

func lit(v hs.Value) string {
	switch v := v.(type) {
	case hs.IntV:
		switch {
		case int64(v) == math.MinInt64:
			return "(-9223372036854775807 - 1)"
		case v < 0:
			return fmt.Sprintf("(%d)", int64(v))
		}
		return fmt.Sprintf("%d", int64(v))
	case hs.FloatV:
		if v < 0 {
			return "(-" + hs.FloatSrc(-float64(v)) + ")"
		}
		return hs.FloatSrc(float64(v))
	case hs.BoolV:
		return fmt.Sprint(bool(v))
	case hs.StrV:
		return hs.QuoteStr(string(v))
	case hs.NullV:
		return "null"
	case hs.RangeV:
		op := ".."
		if v.Incl {
			op = "..="
		}
		return lit(hs.IntV(v.Start)) + op + lit(hs.IntV(v.End))
	case *hs.ListV:
		parts := make([]string, len(v.Elems))
		for i, e := range v.Elems {
			parts[i] = lit(e)
		}
		return "[" + strings.Join(parts, ", ") + "]"
	case hs.OptV:
		if v.Inner == nil {
			return "none"
		}
		if _, isRange := v.Inner.(hs.RangeV); isRange {
			return "?(" + lit(v.Inner) + ")" // `?0..3` parses as (?0)..3
		}
		return "?" + lit(v.Inner)
	case *hs.ObjV:
		if v.Any {
			panic("any-objects are built by statements")
		}
		parts := []string{}
		for _, k := range v.SortedKeys() {
			parts = append(parts, k+": "+lit(v.M[k]))
		}
		return "new { " + strings.Join(parts, ", ") + " }"
	}
	panic(fmt.Sprintf("lit %T", v))
}

// bind declares variable name with value v of type t (annotated, so that empty lists and none
// have a type). Any-objects are built with `new { ? }` plus set calls. Empty lists nested inside
// another literal have no type of their own (`[[]]` is a list of [any]): they are hoisted into
// annotated helper variables.
func bind(name string, v hs.Value, t hs.Type, annotate bool) []string {
	if o, ok := v.(*hs.ObjV); ok && o.Any {
		out := []string{fmt.Sprintf("let %s = new { ? };", name)}
		for _, k := range o.SortedKeys() {
			if ov, isOpt := o.M[k].(hs.OptV); isOpt && ov.Inner == nil {
				// a bare `none` has no type: pass it through an annotated variable
				out = append(out, fmt.Sprintf("let %s_%s: %s = none;", name, k, typeOf(ov).Src()))
				out = append(out, fmt.Sprintf("%s.set(%s, %s_%s);", name, hs.QuoteStr(k), name, k))
				continue
			}
			out = append(out, fmt.Sprintf("%s.set(%s, %s);", name, hs.QuoteStr(k), lit(o.M[k])))
		}
		return out
	}
	if !annotate {
		return []string{fmt.Sprintf("let %s = %s;", name, lit(v))}
	}
	var pre []string
	text := litHoist(v, t, true, name, &pre)
	return append(pre, fmt.Sprintf("let %s: %s = %s;", name, t.Src(), text))
}

func litHoist(v hs.Value, t hs.Type, top bool, name string, pre *[]string) string {
	switch v := v.(type) {
	case *hs.ListV:
		if len(v.Elems) == 0 {
			if top {
				return "[]"
			}
			h := fmt.Sprintf("%s_e%d", name, len(*pre))
			*pre = append(*pre, fmt.Sprintf("let %s: %s = [];", h, t.Src()))
			return h
		}
		parts := make([]string, len(v.Elems))
		for i, e := range v.Elems {
			parts[i] = litHoist(e, *t.Elem, false, name, pre)
		}
		return "[" + strings.Join(parts, ", ") + "]"
	case hs.OptV:
		if v.Inner == nil {
			return "none"
		}
		if _, isRange := v.Inner.(hs.RangeV); isRange {
			return "?(" + lit(v.Inner) + ")"
		}
		return "?" + litHoist(v.Inner, *t.Elem, false, name, pre)
	case *hs.ObjV:
		if !v.Any {
			parts := []string{}
			for _, k := range v.SortedKeys() {
				ft, _ := t.FieldType(k)
				parts = append(parts, k+": "+litHoist(v.M[k], ft, false, name, pre))
			}
			return "new { " + strings.Join(parts, ", ") + " }"
		}
	}
	return lit(v)
}
