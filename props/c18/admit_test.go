package c18

import (
	"encoding/json"
	"fmt"
	"sort"
	"strings"
	"testing"

	"verif/hs"
	"verif/pk"
	"verif/px"
	"verif/sb"
)

// A value need not be born from a literal: it may be ADMITTED to its static type from a dynamic (`any`) value -
// by an annotated `let`, by `as`, through a parameter, a return type or an object field. However it got its
// type, every member the analyzer offers on that type must exist on it, at every depth: admission of an
// object to `{ ? }` or of a bare value / null to `?T` changes the representation, and a list or object
// around it must hold the admitted elements. The receivers here are JSON documents; every program uses
// every part of the admitted value through members only its static type has (`get`/`set` on `{ ? }`,
// `is_some`/`unwrap`/`unwrap_or` on `?T`), by direct statements, so a missing member cannot hide in a branch.

type admitRow struct {
	t hs.Type
	v hs.Value
}

func anyObj(kv ...any) *hs.ObjV { return obj(true, kv...) }

var (
	tOptInt   = hs.TOpt(hs.TInt)
	tItems    = hs.TObj(hs.Field{Name: "items", T: hs.TList(hs.TAnyObj)}, hs.Field{Name: "n", T: hs.TOpt(hs.TStr)})
	admitRow1 = []admitRow{
		{hs.TAnyObj, anyObj("a", hs.IntV(1), "s", hs.StrV("x"))},
		{tOptInt, some(hs.IntV(4))},
		{tOptInt, none()},
		{hs.TList(hs.TInt), list(iv(1, 2, 3)...)},
		{hs.TList(hs.TAnyObj), list(anyObj("a", hs.IntV(1)), anyObj(), anyObj("b", hs.BoolV(true), "c", hs.StrV("y")))},
		{hs.TList(tOptInt), list(some(hs.IntV(1)), none(), some(hs.IntV(0)))},
		{hs.TList(hs.TList(tOptInt)), list(list(none(), some(hs.IntV(2))), list(), list(some(hs.IntV(3))))},
		{hs.TList(hs.TList(hs.TAnyObj)), list(list(anyObj("k", hs.IntV(5))), list())},
		{hs.TOpt(hs.TList(tOptInt)), some(list(some(hs.IntV(7)), none()))},
		{hs.TOpt(hs.TAnyObj), some(anyObj("q", hs.IntV(9)))},
		{hs.TOpt(hs.TList(hs.TAnyObj)), some(list(anyObj("q", hs.IntV(9)), anyObj()))},
		{tItems, obj(false, "items", list(anyObj("a", hs.IntV(1)), anyObj("z", hs.StrV("w"))), "n", some(hs.StrV("t")))},
		{tItems, obj(false, "items", list(), "n", none())},
		{hs.TList(tItems), list(obj(false, "items", list(anyObj("a", hs.IntV(1))), "n", none()), obj(false, "items", list(anyObj(), anyObj("u", hs.IntV(2))), "n", some(hs.StrV(""))))},
		{hs.TList(tObjA), list(obj(false, "a", hs.IntV(1)), obj(false, "a", hs.IntV(2)))},
		{hs.TList(hs.TObj(hs.Field{Name: "o", T: tOptInt})), list(obj(false, "o", some(hs.IntV(1))), obj(false, "o", none()))},
		{hs.TObj(hs.Field{Name: "inner", T: hs.TAnyObj}, hs.Field{Name: "l", T: hs.TList(tOptInt)}), obj(false, "inner", anyObj("a", hs.IntV(3)), "l", list(none(), some(hs.IntV(8))))},
	}
)

// jsonOf is the JSON document a value is admitted from: none is null, Some(v) is v.
func jsonOf(v hs.Value) any {
	switch v := v.(type) {
	case hs.IntV:
		return int64(v)
	case hs.StrV:
		return string(v)
	case hs.BoolV:
		return bool(v)
	case hs.OptV:
		if v.Inner == nil {
			return nil
		}
		return jsonOf(v.Inner)
	case *hs.ListV:
		out := []any{}
		for _, e := range v.Elems {
			out = append(out, jsonOf(e))
		}
		return out
	case *hs.ObjV:
		out := map[string]any{}
		for k, e := range v.M {
			out[k] = jsonOf(e)
		}
		return out
	}
	panic(fmt.Sprintf("jsonOf %T", v))
}

// useDeep uses every part of expr (static type t, value v) by direct statements.
func (p *prog) useDeep(expr string, t hs.Type, v hs.Value) {
	switch t.K {
	case hs.KInt, hs.KFloat, hs.KBool, hs.KStr:
		p.use(expr, t, v, 0, "")
	case hs.KList:
		l := v.(*hs.ListV)
		p.stmt("println(%s.len());", expr)
		p.expect("%d", len(l.Elems))
		if len(l.Elems) > 0 && !p.noSet {
			p.noSet = true // the same element is used again below
			p.useDeep(fmt.Sprintf("%s.last().unwrap()", expr), *t.Elem, l.Elems[len(l.Elems)-1])
			p.noSet = false
		}
		if !p.noSet {
			// the loop variable of a `for` over the list is a value of the element type as well (the loop runs over a
			// snapshot: what the body does to its variable stays in the snapshot)
			p.loops++
			x := fmt.Sprintf("lv%d", p.loops)
			body, exp := loopUse(x, *t.Elem, l.Elems)
			if body != "" {
				p.stmt("for %s in %s { %s }", x, expr, body)
				p.exp = append(p.exp, exp...)
			}
		}
		for i, e := range l.Elems {
			p.useDeep(fmt.Sprintf("%s[%d]", expr, i), *t.Elem, e)
		}
	case hs.KOpt:
		in := v.(hs.OptV).Inner
		p.stmt("println(%s.is_some(), %s.is_none());", expr, expr)
		p.expect("%v %v", in != nil, in == nil)
		if t.Elem.K == hs.KInt {
			p.stmt("println(%s.unwrap_or(-77) + 0);", expr)
			if in != nil {
				p.expect("%d", int64(in.(hs.IntV)))
			} else {
				p.expect("-77")
			}
		}
		if in != nil {
			if !p.noSet {
				p.noSet = true // the same value is used again below
				p.useDeep("("+expr+").expect(\"present\")", *t.Elem, in)
				p.noSet = false
			}
			p.useDeep("("+expr+").unwrap()", *t.Elem, in)
		}
	case hs.KObj:
		fs := append([]hs.Field{}, t.Fields...)
		sort.Slice(fs, func(i, j int) bool { return fs[i].Name < fs[j].Name })
		for _, f := range fs {
			p.useDeep(expr+"."+f.Name, f.T, v.(*hs.ObjV).M[f.Name])
		}
	case hs.KAnyObj:
		o := v.(*hs.ObjV)
		p.stmt("println(%s.keys().len(), %s.get(\"__absent\").is_some());", expr, expr)
		p.expect("%d false", len(o.M))
		for _, k := range o.SortedKeys() {
			kt := typeOf(o.M[k])
			p.stmt("println(%s.get(%s).is_some());", expr, hs.QuoteStr(k))
			p.expect("true")
			p.use(fmt.Sprintf("(%s.get(%s).unwrap() as %s)", expr, hs.QuoteStr(k), kt.Src()), kt, o.M[k], 0, "")
		}
		if p.noSet {
			break
		}
		p.stmt("%s.set(\"__new\", 1);", expr)
		p.stmt("println(%s.keys().len(), %s.get(\"__new\").is_some());", expr, expr)
		p.expect("%d true", len(o.M)+1)
	default:
		panic("useDeep " + t.Src())
	}
}

// loopUse: statements over a loop variable x of type t that do not depend on the element, and what they print for
// each element.
func loopUse(x string, t hs.Type, elems []hs.Value) (string, []string) {
	var exp []string
	switch t.K {
	case hs.KAnyObj:
		for _, e := range elems {
			exp = append(exp, fmt.Sprintf("%d false %d", len(e.(*hs.ObjV).M), len(e.(*hs.ObjV).M)+1))
		}
		return fmt.Sprintf("let before = %s.keys().len(); let absent = %s.get(\"__absent\").is_some(); %s.set(\"__loop\", 1); println(before, absent, %s.keys().len());", x, x, x, x), exp
	case hs.KOpt:
		inner := ""
		if t.Elem.K == hs.KAnyObj {
			inner = fmt.Sprintf(" if %s.is_some() { println(%s.unwrap().get(\"__absent\").is_none()); }", x, x)
		}
		for _, e := range elems {
			in := e.(hs.OptV).Inner
			exp = append(exp, fmt.Sprintf("%v %v", in != nil, in == nil))
			if in != nil && inner != "" {
				exp = append(exp, "true")
			}
		}
		return fmt.Sprintf("println(%s.is_some(), %s.is_none());%s", x, x, inner), exp
	case hs.KList:
		for _, e := range elems {
			exp = append(exp, fmt.Sprint(len(e.(*hs.ListV).Elems)))
		}
		if t.Elem.K == hs.KAnyObj || t.Elem.K == hs.KOpt {
			// one level further: the elements of the element
			y := x + "i"
			body, _ := loopUse(y, *t.Elem, nil)
			exp = nil
			for _, e := range elems {
				exp = append(exp, fmt.Sprint(len(e.(*hs.ListV).Elems)))
				_, ie := loopUse(y, *t.Elem, e.(*hs.ListV).Elems)
				exp = append(exp, ie...)
			}
			return fmt.Sprintf("println(%s.len()); for %s in %s { %s }", x, y, x, body), exp
		}
		return fmt.Sprintf("println(%s.len());", x), exp
	case hs.KObj:
		// typed objects: their fields of any-object / option type
		var parts []string
		fs := append([]hs.Field{}, t.Fields...)
		sort.Slice(fs, func(i, j int) bool { return fs[i].Name < fs[j].Name })
		per := make([][]string, len(elems))
		for _, f := range fs {
			if f.T.K != hs.KAnyObj && f.T.K != hs.KOpt && f.T.K != hs.KList {
				continue
			}
			var vals []hs.Value
			for _, e := range elems {
				vals = append(vals, e.(*hs.ObjV).M[f.Name])
			}
			if f.T.K == hs.KList {
				// the list field of the loop variable is looped over in turn
				y := x + f.Name
				var body string
				for i, v := range vals {
					b, ie := loopUse(y, *f.T.Elem, v.(*hs.ListV).Elems)
					body = b
					per[i] = append(per[i], ie...)
				}
				if body == "" {
					b, _ := loopUse(y, *f.T.Elem, nil)
					body = b
				}
				if body != "" {
					parts = append(parts, fmt.Sprintf("for %s in %s.%s { %s }", y, x, f.Name, body))
				}
				continue
			}
			b, _ := loopUse(x+"."+f.Name, f.T, nil)
			parts = append(parts, b)
			for i, v := range vals {
				_, ie := loopUse(x+"."+f.Name, f.T, []hs.Value{v})
				per[i] = append(per[i], ie...)
			}
		}
		for _, pe := range per {
			exp = append(exp, pe...)
		}
		return strings.Join(parts, " "), exp
	}
	return "", nil
}

// admission forms: how the dynamic value reaches the static type
var admitForms = []string{"let-annotated", "as", "returned-as", "returned-annotated", "anyobject-get-as", "anyobject-get-annotated", "list-element-as", "field-as"}

func admitProgram(form string, t hs.Type, v hs.Value) (string, []string) {
	b, _ := json.Marshal(jsonOf(v))
	doc := hs.QuoteStr(string(b))
	p := &prog{}
	pre := ""
	switch form {
	case "let-annotated":
		p.stmt("let recv: %s = %s.parse_json();", t.Src(), doc)
	case "as":
		p.stmt("let recv = %s.parse_json() as %s;", doc, t.Src())
	case "returned-as":
		pre = fmt.Sprintf("fn admit(d: str) -> %s {\n    d.parse_json() as %s\n}\n\n", t.Src(), t.Src())
		p.stmt("let recv = admit(%s);", doc)
	case "returned-annotated":
		pre = fmt.Sprintf("fn admit(d: str) -> %s {\n    let v: %s = d.parse_json();\n    v\n}\n\n", t.Src(), t.Src())
		p.stmt("let recv = admit(%s);", doc)
	case "anyobject-get-as":
		p.stmt("let outer = %s.parse_json() as { ? };", hs.QuoteStr("{\"v\":"+string(b)+"}"))
		p.stmt("let recv = outer.get(\"v\").unwrap() as %s;", t.Src())
	case "anyobject-get-annotated":
		p.stmt("let outer = %s.parse_json() as { ? };", hs.QuoteStr("{\"v\":"+string(b)+"}"))
		p.stmt("let recv: %s = outer.get(\"v\").unwrap();", t.Src())
	case "list-element-as":
		p.stmt("let box = [%s.parse_json() as %s];", doc, t.Src())
		p.stmt("let recv = box[0];")
	case "field-as":
		p.stmt("let holder = new { f: %s.parse_json() as %s, g: 1 };", doc, t.Src())
		p.stmt("let recv = holder.f;")
	}
	p.useDeep("recv", t, v)
	return pre + "fn main() {\n    " + strings.Join(p.lines, "\n    ") + "\n}\n", p.exp
}

func TestTableAdmittedValues(t *testing.T) {
	pk.SkipIfReplay(t)
	col := pk.NewCollector()
	k := 0
	for _, r := range admitRow1 {
		for _, form := range admitForms {
			k++
			if !pk.Mine(k) {
				continue
			}
			if ov, isOpt := r.v.(hs.OptV); isOpt && ov.Inner == nil {
				if strings.HasPrefix(form, "anyobject-get") {
					continue // a null member of an any-object: whether `get` finds it is not this table's subject
				}
				if pk.GateOpen("null-value") {
					pk.Class("excluded:null-document (open finding C18-013)")
					continue
				}
			}
			text, exp := admitProgram(form, r.t, hs.DeepCopy(r.v))
			e := &px.Exp{Outcome: hs.Outcome{Class: "ok"}}
			for _, l := range exp {
				e.Writes = append(e.Writes, l+"\n")
			}
			c := px.ProgCase{Modules: map[string]string{"main": text}, Entry: "main", Limits: sb.DefaultLimits(),
				Note: "value admitted to " + typeName(r.t) + " by " + form, Expect: e}
			pk.Eval()
			pk.Class("admit-form:" + form)
			pk.Class("admit-type:" + typeName(r.t))
			pk.NonTrivial(c.Note, map[string]any{"type": typeName(r.t), "form": form})
			col.Report(c, checkMutation(c))
		}
	}
	pk.Exhaustive("table-admitted-values")
	col.Done(t)
}
