// Package c18 checks property C18: every builtin member the analyzer offers on a type exists on
// every runtime value of that type in both runtimes, accepts the advertised arguments and returns
// a value of the advertised type; indexing counts negative indices from the end and answers
// out-of-range indices with an interrupt.
package c18

import (
	"encoding/json"
	"fmt"
	"os"
	"path/filepath"
	"sort"
	"strings"
	"sync"
	"testing"

	tv "github.com/smarthome-go/homescript/v3/homescript/interpreter/value"
	vv "github.com/smarthome-go/homescript/v3/homescript/runtime/value"

	"verif/hostkit"
	"verif/hs"
	"verif/pk"
	"verif/px"
	"verif/sb"
)

func TestMain(m *testing.M) { pk.Main(m) }

// Case is the replayable unit of every sub-check.
type Case struct {
	Sub     string // member | index | keys
	Type    string // receiver type, e.g. "[int]"
	Kind    string // receiver type kind (signatures are per kind x member)
	Member  string // member name; "[]" / "[]=" for the indexing forms
	Recv    string `json:",omitempty"`
	Args    string `json:",omitempty"`
	Program string `json:",omitempty"`
	Backend string // vm | tree (keys: the value library)
	Expect  string // "any" (ok or interrupt) | "interrupt" | "out:<text>"
	Doubt   string `json:",omitempty"`
}

func (c Case) id() string { return c.Kind + "." + c.Member }

// ---------------------------------------------------------------------------------------------
// judging one program run

func diagText(resp *sb.Response) string {
	msg := ""
	for _, d := range append(resp.SyntaxErrors, resp.ErrorDiags()...) {
		msg += fmt.Sprintf("%s: %s @%d:%d\n", d.Level, d.Message, d.Span.Start.Line, d.Span.Start.Column)
	}
	return msg
}

// checkCase runs the program on the case's backend (one sandbox request per backend so that a
// crash is attributed to the right one) and applies the oracle.
func checkCase(c Case) *pk.Failure {
	if c.Backend == "both" { // replay files of defects present in both runtimes
		for _, be := range []string{"vm", "tree"} {
			c.Backend = be
			if f := checkCase(c); f != nil {
				return f
			}
		}
		return nil
	}
	if c.Sub == "keys" {
		return checkKeys(c)
	}
	pc := px.ProgCase{Modules: map[string]string{"main": c.Program}, Entry: "main", Limits: sb.DefaultLimits()}
	resp := px.Pool().Exec(pc.Request(c.Backend))
	pk.Extra("requests", 1)
	head := fmt.Sprintf("%s %s recv=%s args=(%s) on %s, expect %q\n%s", c.Type, c.Member, c.Recv, c.Args, c.Backend, c.Expect, c.Program)
	if f := px.SandboxFailure(c.Sub, resp); f != nil {
		f.Sig = c.Backend + " " + f.Sig
		f.Msg = head + "\n" + f.Msg
		return f
	}
	if resp.Inconclusive {
		pk.Inconclusive()
		return nil
	}
	if resp.Err != "" {
		return pk.Failf(c.Sub, "harness-error", "%s\n%s", head, resp.Err)
	}
	if !resp.Accepted {
		return pk.Failf(c.Sub, "rejected:"+c.id(), "the analyzer rejects a call built from the advertised signature\n%s\n%s", head, diagText(resp))
	}
	run := resp.Run(c.Backend)
	if run == nil {
		return pk.Failf(c.Sub, "harness-error", "%s\nno run result", head)
	}
	if run.CompileErr != "" || run.InitPanic != "" {
		return pk.Failf(c.Sub, c.Backend+" compile-error:"+c.id(), "%s\ncompile error %q init panic %q", head, run.CompileErr, run.InitPanic)
	}
	out := strings.Join(run.Writes, "")
	cls := run.Outcome.Class
	if cls != "ok" && cls != "fatal" && cls != "exception" {
		return pk.Failf(c.Sub, fmt.Sprintf("%s outcome-%s:%s", c.Backend, cls, c.id()), "%s\noutcome is neither ok nor an interrupt: %+v", head, run.Outcome)
	}
	pk.Class("outcome:" + cls)
	diffSub := "model"
	if c.Sub == "index" {
		diffSub = "index"
	}
	sig := fmt.Sprintf("%s:%s:%s", diffSub, c.Backend, c.id())
	switch {
	case c.Expect == "any":
	case c.Expect == "interrupt":
		pk.Extra("comparisons", 1)
		if cls == "ok" {
			return pk.Failf(diffSub, sig, "%s\nexpected an interrupt (index out of range), the program ran to completion and printed %q", head, out)
		}
	case strings.HasPrefix(c.Expect, "out:"):
		pk.Extra("comparisons", 1)
		want := strings.TrimPrefix(c.Expect, "out:")
		if cls != "ok" {
			return pk.Failf(diffSub, sig, "%s\nexpected output %q, got %s/%s %q after printing %q", head, want, cls, run.Outcome.Kind, run.Outcome.Message, out)
		}
		if out != want {
			return pk.Failf(diffSub, sig, "%s\nexpected output %q\n     got output %q", head, want, out)
		}
	default:
		return pk.Failf(c.Sub, "bad-case", "unknown expectation %q", c.Expect)
	}
	return nil
}

func init() {
	pk.Reg("member", checkCase)
	pk.Reg("index", checkCase)
	pk.Reg("model", checkCase)
	pk.Reg("keys", checkCase)
}

func TestReplay(t *testing.T) { pk.ReplayTest(t) }

// ---------------------------------------------------------------------------------------------
// sub "keys": key sets of both value libraries, in-process

// runtimeFields returns the member names of the runtime value and the kind of each ("fn" for
// builtin functions, else the value kind); panic text if Fields() panics.
func runtimeFields(lib string, v hs.Value) (keys map[string]string, panicked string) {
	defer func() {
		if r := recover(); r != nil {
			panicked = fmt.Sprint(r)
		}
	}()
	keys = map[string]string{}
	switch lib {
	case "vm":
		fs, i := (*hostkit.ToVM(v)).Fields()
		if i != nil {
			return nil, "interrupt: " + (*i).Message()
		}
		for k, f := range fs {
			if f == nil || *f == nil {
				keys[k] = "nil"
			} else if (*f).Kind() == vv.BuiltinFunctionValueKind {
				keys[k] = "fn"
			} else {
				keys[k] = "value"
			}
		}
	case "tree":
		fs, i := (*hostkit.ToTree(v)).Fields()
		if i != nil {
			return nil, "interrupt: " + (*i).Message()
		}
		for k, f := range fs {
			if f == nil || *f == nil {
				keys[k] = "nil"
			} else if (*f).Kind() == tv.BuiltinFunctionValueKind {
				keys[k] = "fn"
			} else {
				keys[k] = "value"
			}
		}
	}
	return keys, ""
}

func checkKeys(c Case) *pk.Failure {
	t, found := typeByName(c.Type)
	if !found {
		return pk.Failf("keys", "bad-case", "unknown type %s", c.Type)
	}
	ms, err := membersOf(t)
	if err != nil {
		return pk.Failf("keys", "table:"+kindName(t), "%v", err)
	}
	for _, m := range ms {
		if m.Name != c.Member {
			continue
		}
		for _, recv := range receivers(t) {
			pk.Extra("comparisons", 1)
			keys, panicked := runtimeFields(c.Backend, recv)
			if panicked != "" {
				return pk.Failf("keys", fmt.Sprintf("fields-panic:%s:%s", c.Backend, c.Kind), "Fields() of a %s value %s panics in the %s value library: %s", c.Type, hs.Display(recv), c.Backend, panicked)
			}
			got, has := keys[m.Name]
			if !has {
				return pk.Failf("keys", fmt.Sprintf("missing-member:%s:%s", c.Backend, c.id()),
					"the analyzer offers %s.%s (%s) but Fields() of the %s value %s in the %s value library has no such key (has %v)",
					c.Type, m.Name, m.Sig, c.Type, hs.Display(recv), c.Backend, sortedKeys(keys))
			}
			want := "value"
			if m.IsFn {
				want = "fn"
			}
			if got != want {
				return pk.Failf("keys", fmt.Sprintf("member-kind:%s:%s", c.Backend, c.id()),
					"%s.%s is advertised as %s but the %s value library holds a %s there", c.Type, m.Name, m.Sig, c.Backend, got)
			}
		}
		return nil
	}
	return pk.Failf("keys", "bad-case", "the analyzer does not offer %s.%s", c.Type, c.Member)
}

func sortedKeys(m map[string]string) []string {
	var ks []string
	for k := range m {
		ks = append(ks, k)
	}
	sort.Strings(ks)
	return ks
}

func TestTableKeys(t *testing.T) {
	pk.SkipIfReplay(t)
	col := pk.NewCollector()
	nm := 0
	for _, ty := range typeInsts {
		ms, err := membersOf(ty)
		if err != nil {
			col.Report(Case{Sub: "keys", Type: typeName(ty)}, pk.Failf("keys", "table:"+kindName(ty), "%v", err))
			continue
		}
		pk.Class("type:" + kindName(ty))
		for _, m := range ms {
			nm++
			for _, lib := range []string{"vm", "tree"} {
				c := Case{Sub: "keys", Type: typeName(ty), Kind: kindName(ty), Member: m.Name, Backend: lib, Expect: "present"}
				pk.Eval()
				pk.NonTrivial("keys|"+c.Type+"|"+c.Member+"|"+lib, c)
				col.Report(c, checkKeys(c))
			}
		}
		// information only: members the runtime has but the analyzer does not offer
		for _, lib := range []string{"vm", "tree"} {
			keys, _ := runtimeFields(lib, receivers(ty)[0])
			adv := map[string]bool{}
			for _, m := range ms {
				adv[m.Name] = true
			}
			for k := range keys {
				if !adv[k] && !(ty.K == hs.KObj && len(k) == 1) {
					pk.Class(fmt.Sprintf("unadvertised-runtime-member:%s:%s.%s", lib, kindName(ty), k))
				}
			}
		}
	}
	pk.Extra("keys-table:types", len(typeInsts))
	pk.Extra("keys-table:type-x-member", nm)
	pk.Exhaustive("type-x-member")
	col.Done(t)
}

// ---------------------------------------------------------------------------------------------
// sub "member": one program per (type, member, receiver, argument tuple)

// jsonGuess: the type an `any` result is cast to when the model has no opinion (the cast may
// fail with an interrupt, which the validity oracle accepts).
func jsonGuess(recv hs.Value) hs.Type {
	s, _ := recv.(hs.StrV)
	var raw any
	if json.Unmarshal([]byte(s), &raw) != nil {
		return hs.TStr
	}
	switch raw.(type) {
	case float64:
		if strings.Contains(string(s), ".") {
			return hs.TFloat
		}
		return hs.TInt
	case bool:
		return hs.TBool
	case []any:
		return hs.TList(hs.TInt)
	case map[string]any:
		return tObjA
	}
	return hs.TStr
}

func argsText(args []Arg) string {
	parts := make([]string, len(args))
	for i, a := range args {
		parts[i] = lit(a.V)
	}
	return strings.Join(parts, ", ")
}

func recvText(v hs.Value) string {
	if o, ok := v.(*hs.ObjV); ok && o.Any {
		return "{?}" + hs.Display(v)
	}
	return lit(v)
}

func render(lines []string) string {
	return "fn main() {\n    " + strings.Join(lines, "\n    ") + "\n}\n"
}

func expectation(known, interrupt bool, exp []string) string {
	switch {
	case !known:
		return "any"
	case interrupt:
		return "interrupt"
	}
	return "out:" + strings.Join(exp, "\n") + "\n"
}

// memberCase builds the program for recv.m(args) and its expectation.
// letNull binds the null result of a null-returning member (`let r = recv.push(1);` is legal: the
// member must really deliver a null value) instead of calling it as a statement.
func memberCase(sub string, m Member, recv0 hs.Value, args []Arg, letNull bool) Case {
	recv := hs.DeepCopy(recv0)
	p := &prog{}
	p.lines = append(p.lines, bind("recv", recv, m.Recv, true)...)
	names := make([]string, len(args))
	for i, a := range args {
		names[i] = fmt.Sprintf("a%d", i)
		p.lines = append(p.lines, bind(names[i], a.V, a.T, !a.U)...)
	}
	res := model(m, recv, args) // mutates recv
	access := "recv." + m.Name
	if m.IsFn {
		access += "(" + strings.Join(names, ", ") + ")"
	}
	var ret hs.Value
	if res.known && !res.interrupt {
		ret = res.ret
	}
	switch {
	case m.Ret.T.K == hs.KNull && letNull:
		p.stmt("let r = %s;", access)
		p.stmt("let r2 = r;")
	case m.Ret.T.K == hs.KNull:
		p.stmt("%s;", access)
	case m.Ret.T.K == hs.KAny:
		// `any` cannot be bound without a cast; cast to the type the model knows, else evaluate only
		ct := jsonGuess(recv0)
		if ret != nil {
			ct = typeOf(ret)
		}
		p.stmt("let r = %s as %s;", access, ct.Src())
		p.use("r", ct, ret, 1, "")
	case m.Ret.T.K == hs.KOpt && m.Ret.T.Elem.K == hs.KAny:
		p.stmt("println(%s.is_some());", access)
		if ret != nil {
			in := ret.(hs.OptV).Inner
			p.expect("%v", in != nil)
			if in != nil && scalarKind(typeOf(in)) {
				p.stmt("let r = %s.unwrap() as %s;", access, typeOf(in).Src())
				p.use("r", typeOf(in), in, 1, "")
			}
		}
	case m.Name == "keys" && m.Ret.T.K == hs.KList && m.Ret.T.Elem.K == hs.KStr:
		p.stmt("let r = %s;", access)
		p.useSet("r", ret, "")
	default:
		p.stmt("let r = %s;", access)
		p.use("r", m.Ret.T, ret, 1, "")
	}
	// receiver state afterwards
	var after hs.Value
	if res.known && !res.interrupt {
		after = recv
	}
	p.use("recv", m.Recv, after, 1, "")
	at := argsText(args)
	if letNull {
		at += " [let r = null result]"
	}
	return Case{Sub: sub, Type: typeName(m.Recv), Kind: kindName(m.Recv), Member: m.Name, Recv: recvText(recv0), Args: at,
		Program: render(p.lines), Expect: expectation(res.known, res.interrupt, p.exp), Doubt: res.doubt}
}

// memberCases enumerates the whole cross product in a stable order.
func memberCases(sub string, keep func(Member) bool) (cases []Case, nTypes, nMembers, maxArgs int, err error) {
	for _, ty := range typeInsts {
		ms, e := membersOf(ty)
		if e != nil {
			return nil, 0, 0, 0, e
		}
		nTypes++
		for _, m := range ms {
			if keep != nil && !keep(m) {
				continue
			}
			nMembers++
			for _, recv := range receivers(ty) {
				tuples := argTuples(m, recv)
				if len(tuples) > maxArgs {
					maxArgs = len(tuples)
				}
				for k, args := range tuples {
					cases = append(cases, memberCase(sub, m, recv, args, false))
					if m.IsFn && m.Ret.T.K == hs.KNull && (k == 0 || k == len(tuples)-1) {
						cases = append(cases, memberCase(sub, m, recv, args, true))
					}
				}
			}
		}
	}
	return
}

var failLog struct {
	sync.Mutex
	f *os.File
}

// logFailure appends every failure (not only the distinct ones) to a file for triage.
func logFailure(c Case, f *pk.Failure) {
	if f == nil {
		return
	}
	failLog.Lock()
	defer failLog.Unlock()
	if failLog.f == nil {
		failLog.f, _ = os.Create(filepath.Join(pk.OutDir(), "c18-all-failures.jsonl"))
	}
	if failLog.f != nil {
		b, _ := json.Marshal(map[string]any{"sub": f.Sub, "sig": f.Sig, "type": c.Type, "member": c.Member, "recv": c.Recv, "args": c.Args, "backend": c.Backend, "expect": c.Expect})
		failLog.f.Write(append(b, '\n'))
	}
}

// runCases runs every case on both backends, 24 requests in flight.
func runCases(t *testing.T, cases []Case) {
	col := pk.NewCollector()
	var wg sync.WaitGroup
	sem := make(chan struct{}, 24)
	for k, c := range cases {
		if !pk.Mine(k) {
			continue
		}
		pk.Class("type:" + c.Kind)
		pk.Class("member:" + c.id())
		switch {
		case c.Doubt != "":
			pk.Class("doubt:" + c.Doubt)
			pk.Class("oracle:validity-only")
		case c.Expect == "interrupt":
			pk.Class("oracle:interrupt-expected")
		default:
			pk.Class("oracle:reference-result")
		}
		pk.NonTrivial(c.Program, map[string]any{"type": c.Type, "member": c.Member, "recv": c.Recv, "args": c.Args, "program": c.Program, "expect": c.Expect})
		for _, be := range []string{"vm", "tree"} {
			c := c
			c.Backend = be
			wg.Add(1)
			sem <- struct{}{}
			go func() {
				defer wg.Done()
				defer func() { <-sem }()
				pk.Eval()
				f := checkCase(c)
				logFailure(c, f)
				col.Report(c, f)
			}()
		}
	}
	wg.Wait()
	col.Done(t)
}

func TestTableMembers(t *testing.T) {
	pk.SkipIfReplay(t)
	cases, nt, nm, maxArgs, err := memberCases("member", nil)
	if err != nil {
		t.Fatalf("VERIF-FAIL sub=member sig=%q\n%v", "table", err)
	}
	pk.Extra("member-table:types", nt)
	pk.Extra("member-table:type-x-member", nm)
	pk.Extra("member-table:max-arg-tuples-per-receiver", maxArgs)
	pk.Extra("member-table:cases", len(cases))
	t.Logf("|types|=%d |type x member|=%d max arg tuples=%d |cases|=%d (x2 backends)", nt, nm, maxArgs, len(cases))
	runCases(t, cases)
	pk.Exhaustive("type-x-member")
}

// ---------------------------------------------------------------------------------------------
// sub "index": indexing forms and index-taking members against the reference model

func takesIndex(m Member) bool {
	if !m.IsFn || (m.Recv.K != hs.KList && m.Recv.K != hs.KStr) {
		return false
	}
	for i, p := range m.Params {
		// an int parameter of a list/string member that is not the list's element
		if !p.Unknown && p.T.K == hs.KInt && m.PNames[i] != "element" && m.PNames[i] != "count" {
			return true
		}
	}
	return false
}

// indexCases: recv[i], recv[i] = v for lists; recv[i] for strings; recv[key] for objects.
func indexCases() []Case {
	var cases []Case
	mk := func(ty hs.Type, member string, recv0 hs.Value, argsTxt string, build func(p *prog, recv hs.Value) (known, interrupt bool, doubt string)) {
		recv := hs.DeepCopy(recv0)
		p := &prog{}
		p.lines = append(p.lines, bind("recv", recv, ty, true)...)
		known, interrupt, dbt := build(p, recv)
		cases = append(cases, Case{Sub: "index", Type: typeName(ty), Kind: kindName(ty), Member: member, Recv: recvText(recv0), Args: argsTxt,
			Program: render(p.lines), Expect: expectation(known, interrupt, p.exp), Doubt: dbt})
	}
	for _, ty := range typeInsts {
		switch ty.K {
		case hs.KList:
			for _, recv0 := range receivers(ty) {
				for _, ix := range indexSet(recv0) {
					i := integer(ix)
					mk(ty, "[]", recv0, lit(ix), func(p *prog, recv hs.Value) (bool, bool, string) {
						l := recv.(*hs.ListV)
						p.stmt("let i = %s;", lit(ix))
						p.stmt("let r = recv[i];")
						n, in := normIndex(i, int64(len(l.Elems)), int64(len(l.Elems)))
						if !in {
							p.use("r", *ty.Elem, nil, 1, "")
							return true, true, ""
						}
						p.use("r", *ty.Elem, l.Elems[n], 1, "")
						p.use("recv", ty, recv, 1, "")
						return true, false, ""
					})
					for _, nv := range sampleValues(*ty.Elem)[:1] {
						mk(ty, "[]=", recv0, lit(ix)+", "+lit(nv), func(p *prog, recv hs.Value) (bool, bool, string) {
							l := recv.(*hs.ListV)
							p.stmt("let i = %s;", lit(ix))
							p.lines = append(p.lines, bind("v", nv, *ty.Elem, true)...)
							p.stmt("recv[i] = v;")
							n, in := normIndex(i, int64(len(l.Elems)), int64(len(l.Elems)))
							if !in {
								p.use("recv", ty, nil, 1, "")
								return true, true, ""
							}
							l.Elems[n] = nv
							p.use("recv", ty, recv, 1, "")
							return true, false, ""
						})
					}
				}
			}
			// a result taken from the list is a value of its own: a later assignment to the slot it
			// came from must not change it (scalars have value semantics)
			if scalarKind(*ty.Elem) {
				for _, recv0 := range receivers(ty) {
					if len(recv0.(*hs.ListV).Elems) == 0 {
						continue
					}
					nv := sampleValues(*ty.Elem)[len(sampleValues(*ty.Elem))-1]
					for _, via := range []string{"last", "[]"} {
						mk(ty, via+";[]=", recv0, lit(nv), func(p *prog, recv hs.Value) (bool, bool, string) {
							l := recv.(*hs.ListV)
							old := l.Elems[len(l.Elems)-1]
							p.lines = append(p.lines, bind("v", nv, *ty.Elem, true)...)
							if via == "last" {
								p.stmt("let r = recv.last();")
							} else {
								p.stmt("let r = recv[-1];")
							}
							p.stmt("recv[-1] = v;")
							l.Elems[len(l.Elems)-1] = nv
							if via == "last" {
								p.use("r", hs.TOpt(*ty.Elem), some(old), 1, "")
							} else {
								p.use("r", *ty.Elem, old, 1, "")
							}
							p.use("recv", ty, recv, 1, "")
							return true, false, ""
						})
					}
					// concat copies the other list's elements: assigning to one list afterwards must
					// not change the other
					other := hs.DeepCopy(recv0).(*hs.ListV)
					for _, sv := range sampleValues(*ty.Elem) {
						if !hs.Equal(sv, other.Elems[len(other.Elems)-1]) {
							nv = sv // the assignment must be visible
						}
					}
					mk(ty, "concat;[]=", recv0, lit(other)+", "+lit(nv), func(p *prog, recv hs.Value) (bool, bool, string) {
						l := recv.(*hs.ListV)
						p.lines = append(p.lines, bind("other", other, ty, true)...)
						p.lines = append(p.lines, bind("v", nv, *ty.Elem, true)...)
						p.stmt("recv.concat(other);")
						p.stmt("recv[-1] = v;")
						l.Elems = append(l.Elems, other.Elems...)
						l.Elems[len(l.Elems)-1] = nv
						p.use("other", ty, other, 1, "")
						p.use("recv", ty, recv, 1, "")
						return true, false, ""
					})
					mk(ty, "concat(self);[]=", recv0, lit(nv), func(p *prog, recv hs.Value) (bool, bool, string) {
						l := recv.(*hs.ListV)
						p.lines = append(p.lines, bind("v", nv, *ty.Elem, true)...)
						p.stmt("recv.concat(recv);")
						p.stmt("recv[0] = v;")
						l.Elems = append(l.Elems, l.Elems...)
						l.Elems[0] = nv
						p.use("recv", ty, recv, 1, "")
						return true, false, ""
					})
				}
			}
		case hs.KStr:
			for _, recv0 := range receivers(ty) {
				for _, ix := range indexSet(recv0) {
					i := integer(ix)
					mk(ty, "[]", recv0, lit(ix), func(p *prog, recv hs.Value) (bool, bool, string) {
						// a string is a sequence of characters: `len()` counts them, `for` yields them, an index selects one
						s := []rune(string(recv.(hs.StrV)))
						p.stmt("let i = %s;", lit(ix))
						p.stmt("let r = recv[i];")
						n, in := normIndex(i, int64(len(s)), int64(len(s)))
						if !in {
							p.use("r", hs.TStr, nil, 1, "")
							return true, true, ""
						}
						p.use("r", hs.TStr, hs.StrV(string(s[n:n+1])), 1, "")
						p.use("recv", ty, recv, 1, "")
						return true, false, ""
					})
				}
			}
		case hs.KObj, hs.KAnyObj:
			for _, recv0 := range receivers(ty) {
				keys := append(recv0.(*hs.ObjV).SortedKeys(), "", "zz", "keys")
				for _, k := range keys {
					mk(ty, "[]", recv0, hs.QuoteStr(k), func(p *prog, recv hs.Value) (bool, bool, string) {
						o := recv.(*hs.ObjV)
						p.stmt("let k = %s;", hs.QuoteStr(k))
						v, found := o.M[k]
						if !found {
							// the result is `any`: it must be cast before it can be used at all
							p.stmt("let r = recv[k] as int;")
							p.use("r", hs.TInt, nil, 1, "")
							if k == "keys" {
								// the name of a builtin member used as an index key: not fixed
								return false, false, "index-by-member-name"
							}
							return true, true, ""
						}
						kt := typeOf(v)
						p.stmt("let r = recv[k] as %s;", kt.Src())
						if !scalarKind(kt) {
							// the `any` result needs a cast before any use; casts of non-scalar
							// values are another property's subject: no crash is all that is asserted
							p.use("r", kt, nil, 1, "")
							return false, false, "cast-of-non-scalar-any"
						}
						p.use("r", kt, v, 1, "")
						p.use("recv", ty, recv, 1, "")
						return true, false, ""
					})
					if ty.K != hs.KAnyObj || k == "" {
						continue
					}
					// the any-object member operator `recv->key` (advertised type ?any)
					mk(ty, "->", recv0, k, func(p *prog, recv hs.Value) (bool, bool, string) {
						v, found := recv.(*hs.ObjV).M[k]
						p.stmt("println((recv->%s).is_some());", k)
						p.expect("%v", found)
						if found && scalarKind(typeOf(v)) {
							p.stmt("let r = (recv->%s) as %s;", k, hs.TOpt(typeOf(v)).Src())
							p.use("r", hs.TOpt(typeOf(v)), some(v), 1, "")
						}
						p.use("recv", ty, recv, 1, "")
						return true, false, ""
					})
				}
			}
		}
	}
	return cases
}

func TestTableIndex(t *testing.T) {
	pk.SkipIfReplay(t)
	cases, _, nm, _, err := memberCases("index", takesIndex)
	if err != nil {
		t.Fatalf("VERIF-FAIL sub=index sig=%q\n%v", "table", err)
	}
	ix := indexCases()
	pk.Extra("index-table:index-taking-members", nm)
	pk.Extra("index-table:member-cases", len(cases))
	pk.Extra("index-table:indexing-form-cases", len(ix))
	t.Logf("index-taking (type x member)=%d cases=%d, indexing-form cases=%d (x2 backends)", nm, len(cases), len(ix))
	runCases(t, append(cases, ix...))
	pk.Exhaustive("type-x-member")
}
