// Package c12 checks property C12 "The dynamic-to-static type boundary is sound".
//
// Sub-checks (all replayable from a JSON case):
//
//	api   value.DeepCast of both value libraries, allowCasts in {true,false}            (in-process)
//	json  value.TypeAwareUnmarshalValue on a decoded JSON document                       (in-process)
//	prog  `let x: T = <any>` / `<any> as T` inside try/catch, followed by typed uses     (sandbox, vm+tree)
//	host  VM.SpawnSync: arguments against declared parameter types, result against the
//	      return type the host declares                                                  (sandbox, vm)
package c12

import (
	"encoding/json"
	"fmt"
	"regexp"
	"strconv"
	"strings"
	"testing"

	"pgregory.net/rapid"

	herrors "github.com/smarthome-go/homescript/v3/homescript/errors"
	tv "github.com/smarthome-go/homescript/v3/homescript/interpreter/value"
	vv "github.com/smarthome-go/homescript/v3/homescript/runtime/value"

	"verif/hostkit"
	"verif/hs"
	"verif/pk"
	"verif/px"
	"verif/sb"
)

func TestMain(m *testing.M) { pk.Main(m) }

func TestReplay(t *testing.T) { pk.ReplayTest(t) }

func init() {
	pk.Reg("api", checkAPI)
	pk.Reg("json", checkJSON)
	pk.Reg("prog", checkProg)
	pk.Reg("host", checkHost)
}

func firstLine(s string) string {
	if i := strings.IndexByte(s, '\n'); i >= 0 {
		return s[:i]
	}
	return s
}

// sigBlame shortens a blame chain to its root-cause part: once a value was wrapped into an option
// unchecked nothing below is looked at, and above the last two steps the position is irrelevant.
func sigBlame(b string) string {
	if strings.Contains(b, "wrap>") {
		return "wrap>*"
	}
	parts := strings.Split(b, ">")
	if len(parts) > 2 {
		parts = parts[len(parts)-2:]
	}
	return strings.Join(parts, ">")
}

func prefix(s string, n int) string {
	s = firstLine(s)
	if len(s) > n {
		return s[:n]
	}
	return s
}

var quoted = regexp.MustCompile(`'[^']*'|` + "`[^`]*`")

// msgClass strips the variable parts (type texts, paths) of a cast error message.
func msgClass(msg string) string {
	msg = firstLine(msg)
	msg = quoted.ReplaceAllStringFunc(msg, func(q string) string {
		in := q[1 : len(q)-1]
		if len(in) <= 10 && !strings.ContainsAny(in, " .[{?") {
			return q
		}
		return "'_'"
	})
	return prefix(msg, 120)
}

// pathNamed: does the message name the offending position? Only the last field/index component is
// required (how a whole path is rendered is not fixed by the property).
func pathNamed(msg string, path []PathElem) (ok bool, what string, complete bool) {
	complete = true
	last := -1
	for i, p := range path {
		if p.K == "field" || p.K == "index" {
			last = i
		}
	}
	if last < 0 {
		return true, "", true
	}
	has := func(p PathElem) bool {
		if p.K == "field" {
			return strings.Contains(msg, p.Field)
		}
		return strings.Contains(msg, strconv.Itoa(p.Index))
	}
	for i, p := range path {
		if (p.K == "field" || p.K == "index") && i != last && !has(p) {
			complete = false
		}
	}
	return has(path[last]), path[last].K, complete
}

func (p Pair) text() string {
	s := fmt.Sprintf("  value  %s\n  type   %s\n  class  %s", show(p.V.V), p.T.Src(), p.Class)
	if strings.HasPrefix(p.Class, "near:") {
		s += "\n  defect at " + pathText(p.Path)
		if !p.Sole {
			s += " (not the only deviation)"
		}
	}
	return s
}

// ---------------------------------------------------------------------------------------------
// sub-check "api"

type APICase struct {
	Pair
	Lib   string // "vm" | "tree"
	Allow bool
}

type castResult struct {
	Admitted bool
	Res      hs.Value // nil if the admitted value has no model counterpart
	Msg      string   // refusal message
	Panic    string
}

func runDeepCast(lib string, v hs.Value, t hs.Type, allow bool) (out castResult) {
	defer func() {
		if r := recover(); r != nil {
			out = castResult{Panic: fmt.Sprint(r)}
		}
	}()
	at := hostkit.ToAstType(t)
	switch lib {
	case "vm":
		res, err := vv.DeepCast(*hostkit.ToVM(v), at, herrors.Span{}, allow)
		if err != nil {
			return castResult{Msg: err.Message()}
		}
		out.Admitted = true
		if res != nil {
			if mv, ok := hostkit.FromVM(*res); ok {
				out.Res = mv
			}
		}
	case "tree":
		res, i := tv.DeepCast(*hostkit.ToTree(v), at, herrors.Span{}, allow)
		if i != nil {
			return castResult{Msg: (*i).Message()}
		}
		out.Admitted = true
		if res != nil {
			if mv, ok := hostkit.FromTree(*res); ok {
				out.Res = mv
			}
		}
	default:
		panic("unknown library " + lib)
	}
	return out
}

func checkAPI(c APICase) *pk.Failure {
	const sub = "api"
	v, t := c.V.V, c.T
	vd := judge(v, t, mode{Explicit: c.Allow})
	before := show(v)
	r := runDeepCast(c.Lib, v, t, c.Allow)
	head := fmt.Sprintf("%s value.DeepCast(v, T, span, allowCasts=%v)\n%s\n  oracle %s", c.Lib, c.Allow, c.Pair.text(), vd.word())
	if r.Panic != "" {
		return pk.Failf(sub, "panic:"+c.Lib+":"+prefix(r.Panic, 60), "%s\n  DeepCast panicked: %s", head, r.Panic)
	}
	if show(v) != before {
		return pk.Failf(sub, c.Lib+":input-mutated", "%s\n  the argument was changed to %s", head, show(v))
	}
	if r.Admitted {
		if vd.MustNot {
			return pk.Failf(sub, c.Lib+":admitted-not-convertible:"+sigBlame(vd.Tr.Blame), "%s (%s)\n  admitted as %s", head, vd.Tr.Blame, show(r.Res))
		}
		if r.Res == nil {
			return pk.Failf(sub, c.Lib+":admitted-no-value", "%s\n  admitted, but the result is nil / has no value", head)
		}
		if !hs.Conforms(r.Res, t) {
			return pk.Failf(sub, c.Lib+":admitted-nonconforming-result:"+sigBlame(resultBlame(v, r.Res, t, nil)), "%s\n  admitted as %s, which is not a %s (%s)", head, show(r.Res), t.Src(), resultBlame(v, r.Res, t, nil))
		}
		if vd.Must && !valEqual(r.Res, v) {
			return pk.Failf(sub, c.Lib+":conforming-changed", "%s\n  a value of type T was admitted as a different value %s", head, show(r.Res))
		}
		if vd.May {
			pk.Class("admitted-after:" + vd.convClass())
			if !vd.ValueKnown {
				pk.Class("doubt:conversion-value")
			} else if !valEqual(r.Res, vd.Res) {
				return pk.Failf(sub, c.Lib+":conversion-value:"+strings.Join(vd.Tr.Scalar, ","), "%s\n  admitted as %s, the conversion defines %s", head, show(r.Res), show(vd.Res))
			}
		}
		return nil
	}
	// refused
	if vd.Must {
		return pk.Failf(sub, c.Lib+":refused-conforming:"+msgClass(r.Msg), "%s\n  refused: %s", head, r.Msg)
	}
	if vd.May {
		pk.Class("doubt:convertible-refused:" + vd.convClass() + ":" + c.Lib + fmt.Sprintf(":allow=%v", c.Allow))
		return nil
	}
	if !strings.Contains(r.Msg, "Incompatible") && !strings.Contains(strings.ToLower(r.Msg), "cast") {
		pk.Class("doubt:refusal-wording")
	}
	if strings.HasPrefix(c.Class, "near:") && c.Sole {
		ok, what, complete := pathNamed(r.Msg, c.Path)
		if !ok {
			return pk.Failf(sub, c.Lib+":path-missing:"+what, "%s\n  refused, but the message does not name the offending %s %s:\n  %s", head, what, pathText(c.Path), r.Msg)
		}
		if !complete {
			pk.Class("doubt:path-rendering:earlier-component-missing:" + c.Lib)
		}
	}
	return nil
}

// ---------------------------------------------------------------------------------------------
// sub-check "json": a decoded JSON document against a type (value.TypeAwareUnmarshalValue has no
// error result: it either returns a value = admitted, or panics = refused).

type JSONCase struct{ Pair }

func checkJSON(c JSONCase) *pk.Failure {
	const sub = "json"
	v, t := c.V.V, c.T
	if !jsonRepresentable(v) {
		return pk.Failf(sub, "bad-case", "value %s is not a JSON document", show(v))
	}
	text := jsonText(v)
	vd := judge(v, t, mode{Explicit: true, JSON: true})
	head := fmt.Sprintf("vm value.TypeAwareUnmarshalValue(decode(%s), T)\n%s\n  oracle %s", text, c.Pair.text(), vd.word())
	var doc interface{}
	if err := json.Unmarshal([]byte(text), &doc); err != nil {
		return pk.Failf(sub, "bad-case", "own JSON text does not decode: %v", err)
	}
	var res hs.Value
	admitted, panicked := false, ""
	func() {
		defer func() {
			if r := recover(); r != nil {
				panicked = fmt.Sprint(r)
			}
		}()
		out := vv.TypeAwareUnmarshalValue(doc, hostkit.ToAstType(t))
		admitted = true
		if out != nil {
			if mv, ok := hostkit.FromVM(*out); ok {
				res = mv
			}
		}
	}()
	if !admitted {
		if vd.Must {
			return pk.Failf(sub, "json:refused-conforming:"+prefix(panicked, 60), "%s\n  refused (panic): %s", head, panicked)
		}
		if vd.May {
			pk.Class("doubt:convertible-refused:" + vd.convClass() + ":json")
		}
		return nil
	}
	if vd.MustNot {
		return pk.Failf(sub, "json:admitted-not-convertible:"+vd.Tr.Blame, "%s (%s)\n  admitted as %s", head, vd.Tr.Blame, show(res))
	}
	if res == nil {
		return pk.Failf(sub, "json:admitted-no-value", "%s\n  admitted, but the result is nil / has no value", head)
	}
	if !hs.Conforms(res, t) {
		return pk.Failf(sub, "json:admitted-nonconforming-result:"+sigBlame(resultBlame(v, res, t, nil)), "%s\n  admitted as %s, which is not a %s (%s)", head, show(res), t.Src(), resultBlame(v, res, t, nil))
	}
	if !vd.ValueKnown {
		pk.Class("doubt:conversion-value")
	} else if !valEqual(res, vd.Res) {
		return pk.Failf(sub, "json:value:"+strings.Join(vd.Tr.Scalar, ","), "%s\n  admitted as %s, expected %s", head, show(res), show(vd.Res))
	}
	return nil
}

// ---------------------------------------------------------------------------------------------
// sub-check "prog"

type ProgCase struct {
	Pair
	Backend string // "vm" | "tree"
	Form    string // "let" (annotated let, no scalar conversion) | "as" (explicit cast)
	Route   string // "host" (any_val(0)) | "json" ("<text>".parse_json()) | "member" (h~>zk) | "member-opt" (h->zk, T = ?U)
	// Keep (member routes): the any-object that holds the dynamic value is printed after the crossing: a crossing,
	// refused or admitted, leaves the value it looked at as it was.
	Keep bool `json:",omitempty"`
}

func (c ProgCase) holder() *hs.ObjV {
	h := hs.NewObj(true)
	if c.Route == "member-opt" {
		if o := c.V.V.(hs.OptV); o.Inner != nil {
			h.Set("zk", o.Inner)
		}
	} else {
		h.Set("zk", c.V.V)
	}
	return h
}

func (c ProgCase) program() px.ProgCase {
	var b strings.Builder
	src := "any_val(0)"
	pc := px.ProgCase{Entry: "main", Limits: sb.DefaultLimits()}
	pre := ""
	switch c.Route {
	case "json":
		src = hs.QuoteStr(jsonText(c.V.V)) + ".parse_json()"
	case "member", "member-opt":
		// the value is a member of an any-object: `h~>zk` has type any, `h->zk` has type ?any
		b.WriteString("import any_val from host;\n")
		src = "holder~>zk"
		if c.Route == "member-opt" {
			src = "holder->zk"
		}
		pc.AnyVals = []hs.WV{{V: c.holder()}}
		pre = "    let holder: { ? } = any_val(0);\n"
	default:
		b.WriteString("import any_val from host;\n")
		pc.AnyVals = []hs.WV{c.V}
	}
	if c.Keep {
		pre += "    println(holder);\n    println(\"START\");\n"
	}
	b.WriteString("fn main() {\n" + pre + "    try {\n")
	if c.Form == "as" {
		fmt.Fprintf(&b, "        let x = %s as %s;\n", src, c.T.Src())
	} else {
		fmt.Fprintf(&b, "        let x: %s = %s;\n", c.T.Src(), src)
	}
	b.WriteString("        println(\"ADMITTED\");\n")
	g := &useGen{}
	g.uses(c.T, "x", 2)
	for _, l := range g.lines {
		b.WriteString(l + "\n")
	}
	b.WriteString("        println(\"FINISHED\");\n    } catch e {\n        println(\"REFUSED\");\n        println(e.message);\n    }\n    println(\"AFTER\");\n")
	if c.Keep {
		b.WriteString("    println(\"SOURCE\");\n    println(holder);\n")
	}
	b.WriteString("}\n")
	pc.Modules = map[string]string{"main": b.String()}
	return pc
}

func checkProg(c ProgCase) *pk.Failure {
	const sub = "prog"
	if c.Route == "json" && !jsonRepresentable(c.V.V) {
		return pk.Failf(sub, "bad-case", "value %s is not a JSON document", show(c.V.V))
	}
	// The value that crosses is the runtime value parse_json / the host produced (JSON null has
	// already become none there), so no JSON reading of the value applies here.
	vd := judge(c.V.V, c.T, mode{Explicit: c.Form == "as"})
	pc := c.program()
	head := func() string {
		return fmt.Sprintf("%s, %s form, value via %s\n%s\n  oracle %s\n%s", c.Backend, c.Form, c.Route, c.Pair.text(), vd.word(), pc.Modules["main"])
	}
	resp := px.Pool().Exec(pc.Request(c.Backend))
	if f := px.SandboxFailure(sub, resp); f != nil {
		if vd.MustNot {
			f.Sig = c.Backend + ":host-crash-on-nonconforming:" + sigBlame(vd.Tr.Blame) + "|" + f.Sig
		} else {
			f.Sig = c.Backend + ":host-crash:" + vd.word() + ":" + vd.convClass() + "|" + f.Sig
		}
		f.Msg = head() + "\n" + f.Msg
		return f
	}
	if resp.Inconclusive {
		pk.Inconclusive()
		return nil
	}
	if !resp.Accepted {
		msg := ""
		for _, d := range append(resp.SyntaxErrors, resp.ErrorDiags()...) {
			msg += fmt.Sprintf("%s: %s @%d:%d\n", d.Level, d.Message, d.Span.Start.Line, d.Span.Start.Column)
		}
		return pk.Failf(sub, "generator-rejected", "analyzer rejected the program:\n%s%s", msg, head())
	}
	r := resp.Run(c.Backend)
	if r == nil || r.CompileErr != "" || r.InitPanic != "" {
		return pk.Failf(sub, "init", "could not start: %+v\n%s", r, head())
	}
	out := strings.Join(r.Writes, "")
	oc := r.Outcome
	ocText := oc.Class
	if oc.Kind != "" {
		ocText += "/" + oc.Kind
	}
	before := ""
	if i := strings.Index(out, "START\n"); c.Keep && i >= 0 {
		before, out = out[:i], out[i+len("START\n"):]
	}
	if i := strings.Index(out, "AFTER\nSOURCE\n"); c.Keep && i >= 0 {
		tail := out[i+len("AFTER\nSOURCE\n"):]
		out = out[:i+len("AFTER\n")]
		verdict := "admitted"
		if strings.HasPrefix(out, "REFUSED\n") {
			verdict = "refused"
		}
		pk.Extra("source-values-compared", 1)
		if want := before; tail != want {
			return pk.Failf(sub, c.Backend+":source-changed-by-"+verdict+"-crossing", "%s\n  after the %s crossing the dynamic value prints\n  %q, it was\n  %q", head(), verdict, tail, want)
		}
	}
	switch {
	case strings.HasPrefix(out, "ADMITTED\n"):
		if vd.MustNot {
			return pk.Failf(sub, c.Backend+":admitted-not-convertible:"+sigBlame(vd.Tr.Blame), "%s\n  admitted (%s); output %q, outcome %s %q", head(), vd.Tr.Blame, out, ocText, oc.Message)
		}
		if oc.Class != "ok" || !strings.HasSuffix(out, "FINISHED\nAFTER\n") {
			return pk.Failf(sub, c.Backend+":admitted-then-failed:"+vd.word()+":"+vd.convClass()+":"+ocText, "%s\n  admitted, but the typed uses did not complete: output %q, outcome %s %q", head(), out, ocText, oc.Message)
		}
		if vd.May {
			pk.Class("admitted-after:" + vd.convClass())
		}
		if !vd.ValueKnown {
			pk.Class("doubt:conversion-value")
			return nil
		}
		exp := []string{"ADMITTED\n"}
		useOut(c.T, vd.Res, &exp)
		exp = append(exp, "FINISHED\n", "AFTER\n")
		if want := strings.Join(exp, ""); want != out {
			return pk.Failf(sub, c.Backend+":admitted-output-differs:"+vd.word()+":"+vd.convClass(), "%s\n  the typed uses of the admitted value print\n  %q, expected\n  %q (admitted value %s)", head(), out, want, show(vd.Res))
		}
		return nil
	case strings.HasPrefix(out, "REFUSED\n"):
		if vd.Must {
			return pk.Failf(sub, c.Backend+":refused-conforming:"+msgClass(strings.TrimPrefix(out, "REFUSED\n")), "%s\n  refused: output %q", head(), out)
		}
		if vd.May {
			pk.Class("doubt:convertible-refused:" + vd.convClass() + ":" + c.Backend + ":" + c.Form)
		}
		if oc.Class != "ok" || !strings.HasSuffix(out, "\nAFTER\n") || strings.Contains(out, "FINISHED\n") {
			return pk.Failf(sub, c.Backend+":refused-then-failed:"+ocText, "%s\n  refused, but execution did not continue normally after the catch: output %q, outcome %s %q", head(), out, ocText, oc.Message)
		}
		if vd.MustNot && strings.HasPrefix(c.Class, "near:") && c.Sole {
			caught := strings.TrimSuffix(strings.TrimPrefix(out, "REFUSED\n"), "\nAFTER\n")
			if ok, what, _ := pathNamed(caught, c.Path); !ok {
				return pk.Failf(sub, c.Backend+":path-missing:"+what, "%s\n  the caught error does not name the offending %s %s:\n  %s", head(), what, pathText(c.Path), caught)
			}
		}
		return nil
	}
	// neither verdict was printed: the failure of the crossing escaped the try block
	if vd.Must {
		return pk.Failf(sub, c.Backend+":refused-conforming:"+msgClass(oc.Message), "%s\n  not admitted: output %q, outcome %s %q", head(), out, ocText, oc.Message)
	}
	if vd.May {
		pk.Class("doubt:convertible-refused:" + vd.convClass() + ":" + c.Backend + ":" + c.Form)
	}
	return pk.Failf(sub, c.Backend+":refusal-not-catchable:"+ocText, "%s\n  the refusal was not a catchable error: output %q, outcome %s %q", head(), out, ocText, oc.Message)
}

// ---------------------------------------------------------------------------------------------
// sub-check "host"

type HostCase struct {
	Params []hs.Type // the function's parameter types = the types the host declares
	RetIdx int       // the function returns this parameter
	Args   []hs.WV
	Ret    hs.Type // the return type the host declares
	Mode   string  // "arg": one argument may be bad | "ret": the declared return type may be wrong
	Bad    int     // index of the interesting argument ("arg" mode)
	Async  bool    // SpawnAsync + Wait + HandleTermination instead of SpawnSync
	Class  string
	Path   []PathElem `json:",omitempty"`
}

func (c HostCase) module() string {
	var b strings.Builder
	ps := make([]string, len(c.Params))
	for i, p := range c.Params {
		ps[i] = fmt.Sprintf("x%d: %s", i, p.Src())
	}
	fmt.Fprintf(&b, "fn f(%s) -> %s {\n    println(\"ENTER\");\n", strings.Join(ps, ", "), c.Params[c.RetIdx].Src())
	g := &useGen{}
	for i, p := range c.Params {
		g.uses(p, fmt.Sprintf("x%d", i), 1)
	}
	for _, l := range g.lines {
		b.WriteString(l + "\n")
	}
	fmt.Fprintf(&b, "    println(\"DONE\");\n    x%d\n}\nfn main() {}\n", c.RetIdx)
	return b.String()
}

// retObservable: does the declared return type announce a value the host will read?
func retObservable(t hs.Type) bool {
	switch t.K {
	case hs.KNull, hs.KAny, hs.KNever:
		return false
	}
	return true
}

func checkHost(c HostCase) *pk.Failure {
	const sub = "host"
	pc := px.ProgCase{Modules: map[string]string{"main": c.module()}, Entry: "main", Limits: sb.DefaultLimits()}
	req := pc.Request("vm")
	req.SkipMain = true
	req.Invocations = []sb.Invocation{{Fn: "f", Args: c.Args, Params: c.Params, Ret: c.Ret, Async: c.Async}}
	args := make([]string, len(c.Args))
	for i, a := range c.Args {
		args[i] = show(a.V)
	}
	// verdicts: every argument against its parameter type, the returned argument against Ret
	argV := make([]Verdict, len(c.Args))
	anyNot, anyMay := false, false
	for i, a := range c.Args {
		argV[i] = judge(a.V, c.Params[i], mode{})
		anyNot = anyNot || argV[i].MustNot
		anyMay = anyMay || argV[i].May
	}
	retV := judge(c.Args[c.RetIdx].V, c.Ret, mode{})
	head := func() string {
		w := make([]string, len(argV))
		for i, a := range argV {
			w[i] = a.word()
		}
		how := "SpawnSync"
		if c.Async {
			how = "SpawnAsync+Wait+HandleTermination"
		}
		return fmt.Sprintf(how+" f(%s), declared return type %s [%s, %s]\n  oracle: arguments %s; result against the declared return type: %s\n%s",
			strings.Join(args, ", "), c.Ret.Src(), c.Mode, c.Class, strings.Join(w, ", "), retV.word(), pc.Modules["main"])
	}
	resp := px.Pool().Exec(req)
	if f := px.SandboxFailure(sub, resp); f != nil {
		switch {
		case anyNot:
			f.Sig = "host-crash-on-nonconforming-arg|" + f.Sig
		case anyMay:
			f.Sig = "host-crash-on-convertible-arg|" + f.Sig
		default:
			f.Sig = "host-crash:ret-" + retV.word() + "|" + f.Sig
		}
		f.Msg = head() + "\n" + f.Msg
		return f
	}
	if resp.Inconclusive {
		pk.Inconclusive()
		return nil
	}
	if !resp.Accepted {
		msg := ""
		for _, d := range append(resp.SyntaxErrors, resp.ErrorDiags()...) {
			msg += fmt.Sprintf("%s: %s @%d:%d\n", d.Level, d.Message, d.Span.Start.Line, d.Span.Start.Column)
		}
		return pk.Failf(sub, "generator-rejected", "analyzer rejected the module:\n%s%s", msg, head())
	}
	r := resp.Run("vm")
	if r == nil || r.CompileErr != "" || r.InitPanic != "" || len(r.Invs) != 1 {
		return pk.Failf(sub, "init", "could not start: %+v\n%s", r, head())
	}
	inv := r.Invs[0]
	out := strings.Join(inv.Writes, "")
	entered := strings.Contains(out, "ENTER")
	failed := inv.Refused != "" || inv.Exception
	how := fmt.Sprintf("refused=%q exception=%v outcome=%s/%s %q output=%q returned=%s", inv.Refused, inv.Exception, inv.Outcome.Class, inv.Outcome.Kind, inv.Outcome.Message, out, show(inv.Ret.V))

	// whatever happened: a returned value has the declared type
	if inv.Ret.V != nil && !hs.Conforms(inv.Ret.V, c.Ret) {
		return pk.Failf(sub, "ret-nonconforming:"+sigBlame(nonconf(inv.Ret.V, c.Ret)), "%s\n  the host received %s, which is not a %s\n  %s", head(), show(inv.Ret.V), c.Ret.Src(), how)
	}
	if anyNot {
		if !failed {
			return pk.Failf(sub, "bad-arg-accepted", "%s\n  a call with a non-conforming argument was not refused\n  %s", head(), how)
		}
		if entered {
			return pk.Failf(sub, "bad-arg-entered", "%s\n  a call with a non-conforming argument ran the callee before failing\n  %s", head(), how)
		}
		return nil
	}
	if failed && !entered {
		// refused before the callee ran
		if !anyMay {
			return pk.Failf(sub, "good-args-refused:"+msgClass(inv.Refused+inv.Outcome.Message), "%s\n  a call whose arguments all have the declared types was refused\n  %s", head(), how)
		}
		pk.Class("doubt:convertible-refused:host-arg")
		return nil
	}
	// the callee ran (arguments admitted)
	if anyMay {
		pk.Class("admitted-after:host-arg")
	}
	expOut := []string{"ENTER\n"}
	known := true
	for i := range c.Args {
		if !argV[i].ValueKnown {
			known = false
			break
		}
		useOut(c.Params[i], argV[i].Res, &expOut)
	}
	expOut = append(expOut, "DONE\n")
	if !strings.HasSuffix(out, "DONE\n") || (failed && !strings.Contains(inv.Refused, "return type assertion")) {
		sig := "args-admitted-then-failed"
		if anyMay {
			sig = "convertible-arg-admitted-then-failed"
		}
		return pk.Failf(sub, sig, "%s\n  the arguments were admitted but the callee's typed uses did not complete\n  %s", head(), how)
	}
	if known && strings.Join(expOut, "") != out {
		sig := "callee-output-differs"
		if anyMay {
			sig = "convertible-arg-not-converted"
		}
		return pk.Failf(sub, sig, "%s\n  the callee's typed uses print %q, expected %q\n  %s", head(), out, strings.Join(expOut, ""), how)
	}
	// the result against the declared return type. The value that reaches the boundary is the
	// (admitted) argument RetIdx.
	if anyMay {
		// what the callee returns depends on an unspecified admission; conformance was checked above
		return nil
	}
	if !retObservable(c.Ret) {
		pk.Class("doubt:return-type-without-value:" + c.Ret.K.String())
		if inv.Ret.V != nil {
			return pk.Failf(sub, "ret-unexpected-value", "%s\n  a value was handed over for a return type that carries none\n  %s", head(), how)
		}
		return nil
	}
	switch {
	case retV.MustNot:
		if !failed {
			return pk.Failf(sub, "bad-ret-accepted:"+sigBlame(retV.Tr.Blame), "%s\n  the result does not have the declared return type, yet the call succeeded\n  %s", head(), how)
		}
	case retV.Must:
		if failed {
			return pk.Failf(sub, "good-ret-refused:"+msgClass(inv.Refused+inv.Outcome.Message), "%s\n  the result has the declared return type, yet the call failed\n  %s", head(), how)
		}
		if inv.Ret.V == nil {
			return pk.Failf(sub, "ret-missing:"+c.Ret.K.String(), "%s\n  no return value was handed over\n  %s", head(), how)
		}
		if !valEqual(inv.Ret.V, retV.Res) {
			return pk.Failf(sub, "ret-value-changed", "%s\n  returned %s, expected %s\n  %s", head(), show(inv.Ret.V), show(retV.Res), how)
		}
	default:
		if failed {
			pk.Class("doubt:convertible-refused:host-ret:" + retV.convClass())
		} else {
			pk.Class("admitted-after:host-ret:" + retV.convClass())
			if retV.ValueKnown && inv.Ret.V != nil && !valEqual(inv.Ret.V, retV.Res) {
				return pk.Failf(sub, "ret-conversion-value", "%s\n  returned %s, the conversion defines %s\n  %s", head(), show(inv.Ret.V), show(retV.Res), how)
			}
		}
	}
	return nil
}

// ---------------------------------------------------------------------------------------------
// tests

func classify(p Pair, vd Verdict, route string) {
	pk.Class("route:" + route)
	pk.Class("gen:" + p.Class)
	pk.Class("oracle:" + vd.word())
	if vd.May {
		pk.Class("convertible:" + vd.convClass())
	}
	nearDepth := 0
	for _, e := range p.Path {
		if e.K != "some" {
			nearDepth++
		}
	}
	if typeDepth(p.T) >= 2 || (strings.HasPrefix(p.Class, "near:") && nearDepth >= 1) {
		pk.NonTrivial(route+"|"+p.T.Canon()+"|"+show(p.V.V), map[string]any{"route": route, "type": p.T.Src(), "value": show(p.V.V), "class": p.Class, "oracle": vd.word()})
	}
}

func TestAPI(t *testing.T) {
	pk.SkipIfReplay(t)
	depth := pk.Scale(3, 4)
	rapid.Check(t, func(rt *rapid.T) {
		p := drawPair(rapidCh{rt}, pairOpts{depth: depth})
		for _, lib := range []string{"vm", "tree"} {
			for _, allow := range []bool{false, true} {
				pk.Eval()
				classify(p, judge(p.V.V, p.T, mode{Explicit: allow}), fmt.Sprintf("api:%s:allow=%v", lib, allow))
				c := APICase{Pair: p, Lib: lib, Allow: allow}
				pk.Judge(rt, c, checkAPI(c))
			}
		}
	})
}

func TestJSON(t *testing.T) {
	pk.SkipIfReplay(t)
	depth := pk.Scale(3, 4)
	rapid.Check(t, func(rt *rapid.T) {
		p := drawPair(rapidCh{rt}, pairOpts{depth: depth, json: true})
		pk.Eval()
		if !jsonRepresentable(p.V.V) {
			pk.Discard("not-a-json-document")
			return
		}
		classify(p, judge(p.V.V, p.T, mode{Explicit: true, JSON: true}), "json")
		c := JSONCase{Pair: p}
		pk.Judge(rt, c, checkJSON(c))
	})
}

func TestProg(t *testing.T) {
	pk.SkipIfReplay(t)
	depth := pk.Scale(3, 4)
	rapid.Check(t, func(rt *rapid.T) {
		route := []string{"host", "host", "json", "member"}[rapid.IntRange(0, 3).Draw(rt, "route")]
		p := drawPair(rapidCh{rt}, pairOpts{depth: depth, tame: true, json: route == "json"})
		form := []string{"let", "as"}[rapid.IntRange(0, 1).Draw(rt, "form")]
		keep := rapid.IntRange(0, 2).Draw(rt, "keep") > 0 && route == "member"
		if route == "json" && !jsonRepresentable(p.V.V) {
			pk.Eval()
			pk.Discard("not-a-json-document")
			return
		}
		if _, isOpt := p.V.V.(hs.OptV); route == "member" && isOpt && p.T.K == hs.KOpt {
			route = "member-opt"
		}
		for _, b := range []string{"vm", "tree"} {
			pk.Eval()
			if _, isNull := p.V.V.(hs.NullV); isNull && b == "vm" && (route == "host" || route == "json") && pk.GateOpen("builtin-null-result") {
				// finding C12-008: a builtin call of static type any that yields null crashes the VM
				pk.Gate("builtin-null-result")
				continue
			}
			c := ProgCase{Pair: p, Backend: b, Form: form, Route: route, Keep: keep}
			classify(p, judge(p.V.V, p.T, mode{Explicit: form == "as"}), "prog:"+b+":"+form+":"+route)
			if keep {
				pk.Class("prog:source-kept")
			}
			pk.Judge(rt, c, checkProg(c))
		}
	})
}

func drawHostCase(rt *rapid.T, depth int) HostCase {
	ch := rapidCh{rt}
	c := HostCase{}
	n := 1 + ch.Pick(2, "nparams")
	tg := &typeGen{ch: ch}
	vg := &valGen{ch: ch, tame: true}
	for i := 0; i < n; i++ {
		c.Params = append(c.Params, tg.typ(depth))
	}
	c.RetIdx = ch.Pick(n, "retIdx")
	c.Bad = ch.Pick(n, "bad")
	c.Class = "conforming"
	for i := range c.Params {
		if i != c.Bad || ch.Pick(4, "argStyle") == 0 {
			c.Args = append(c.Args, hs.WV{V: vg.conforming(c.Params[i])})
			continue
		}
		// reuse the pair generator for the interesting argument, with this parameter's type
		t := c.Params[i]
		v := vg.conforming(t)
		var ns []node
		nodes(v, t, nil, &ns)
		if ch.Pick(4, "convOrNear") == 0 {
			var elig []node
			for _, nd := range ns {
				if len(convKinds(nd.T)) > 0 {
					elig = append(elig, nd)
				}
			}
			if len(elig) > 0 {
				nd := elig[ch.Pick(len(elig), "convNode")]
				ks := convKinds(nd.T)
				if nv, ok := vg.convertible(ks[ch.Pick(len(ks), "convKind")], nd); ok {
					v = replaceAt(v, nd.Path, nv)
					c.Class = "convertible"
				}
			}
		} else {
			nd := ns[ch.Pick(len(ns), "nearNode")]
			ks := nearKinds(nd.T)
			k := ks[ch.Pick(len(ks), "nearKind")]
			if nv, path, ok := vg.nearMiss(k, nd); ok {
				v = replaceAt(v, nd.Path, nv)
				c.Class = "near:" + k
				c.Path = path
			}
		}
		c.Args = append(c.Args, hs.WV{V: v})
	}
	// sometimes an `any` parameter stands in front of the typed ones: every value fits it, and the typed
	// parameters behind it must still be checked against their own arguments
	if ch.Pick(3, "anyParam") == 0 {
		av := vg.conforming(tg.typ(1))
		pos := ch.Pick(len(c.Params), "anyParamPos") // never the last position
		c.Params = append(c.Params[:pos], append([]hs.Type{hs.TAny}, c.Params[pos:]...)...)
		c.Args = append(c.Args[:pos], append([]hs.WV{{V: av}}, c.Args[pos:]...)...)
		if c.RetIdx >= pos {
			c.RetIdx++
		}
		if c.Bad >= pos {
			c.Bad++
		}
		pk.Class("host:any-parameter")
	}
	c.Ret = c.Params[c.RetIdx]
	c.Mode = "arg"
	c.Async = ch.Pick(3, "async") == 2
	if c.Class == "conforming" && ch.Pick(2, "mode") == 1 {
		c.Mode = "ret"
		// the host declares a return type of its own: a near type, or an unrelated one
		switch ch.Pick(3, "retStyle") {
		case 0:
			c.Ret = (&typeGen{ch: ch}).typ(depth)
		case 1:
			c.Ret = hs.TOpt(c.Ret)
		default:
			c.Ret = mutateType(ch, c.Ret)
		}
	}
	return c
}

// mutateType changes one node of a type (the host's idea of the result type is slightly off).
func mutateType(ch chooser, t hs.Type) hs.Type {
	leafSwap := func(k hs.Kind) hs.Type {
		alts := []hs.Kind{hs.KInt, hs.KFloat, hs.KBool, hs.KStr, hs.KNull}
		for {
			a := alts[ch.Pick(len(alts), "leafSwap")]
			if a != k {
				return hs.Type{K: a}
			}
			alts = alts[1:]
		}
	}
	switch t.K {
	case hs.KList:
		if ch.Pick(3, "here") == 0 {
			return *t.Elem
		}
		return hs.TList(mutateType(ch, *t.Elem))
	case hs.KOpt:
		if ch.Pick(3, "here") == 0 {
			return *t.Elem
		}
		return hs.TOpt(mutateType(ch, *t.Elem))
	case hs.KObj:
		fs := append([]hs.Field{}, t.Fields...)
		switch ch.Pick(3, "objMut") {
		case 0:
			fs = append(fs, hs.Field{Name: "zqx", T: hs.TInt})
		case 1:
			if len(fs) > 1 {
				fs = fs[1:]
				break
			}
			fallthrough
		default:
			i := ch.Pick(len(fs), "field")
			fs[i] = hs.Field{Name: fs[i].Name, T: mutateType(ch, fs[i].T)}
		}
		return hs.TObj(fs...)
	case hs.KAnyObj, hs.KRange:
		return hs.TList(hs.TInt)
	}
	return leafSwap(t.K)
}

func TestHost(t *testing.T) {
	pk.SkipIfReplay(t)
	depth := pk.Scale(2, 3)
	rapid.Check(t, func(rt *rapid.T) {
		c := drawHostCase(rt, depth)
		pk.Eval()
		pk.Class("route:host:" + c.Mode)
		pk.Class("gen:" + c.Class)
		rv := judge(c.Args[c.RetIdx].V, c.Ret, mode{})
		if c.Mode == "ret" {
			pk.Class("oracle:ret:" + rv.word())
		} else {
			pk.Class("oracle:arg:" + judge(c.Args[c.Bad].V, c.Params[c.Bad], mode{}).word())
		}
		d := 0
		for _, p := range c.Params {
			if typeDepth(p) > d {
				d = typeDepth(p)
			}
		}
		if d >= 2 || len(c.Path) >= 1 {
			b, _ := json.Marshal(c)
			pk.NonTrivial("host|"+string(b), map[string]any{"route": "host", "module": c.module(), "class": c.Class, "mode": c.Mode, "ret": c.Ret.Src()})
		}
		pk.Judge(rt, c, checkHost(c))
	})
}

// TestTableNearMiss: every near-miss kind at every node of a fixed set of target types, plus the
// conforming value and every single permitted conversion, through both libraries and both modes.
func TestTableNearMiss(t *testing.T) {
	pk.SkipIfReplay(t)
	col := pk.NewCollector()
	k := 0
	deep := map[string]bool{}
	for _, dt := range deepTypes() {
		deep[dt.Canon()] = true
	}
	for _, typ := range append(tableTypes(), deepTypes()...) {
		for variant := 0; variant < 3; variant++ {
			vg := &valGen{ch: fixedCh{variant}}
			var v hs.Value
			if deep[typ.Canon()] {
				if variant > 0 {
					continue
				}
				v = singlePath(typ)
				pk.Class("table:deep-chain")
			} else {
				v = vg.conforming(typ)
			}
			var ns []node
			nodes(v, typ, nil, &ns)
			pairs := []Pair{{V: hs.WV{V: v}, T: typ, Class: "conforming"}}
			for _, n := range ns {
				for _, kind := range nearKinds(n.T) {
					if nv, path, ok := vg.nearMiss(kind, n); ok {
						pairs = append(pairs, Pair{V: hs.WV{V: replaceAt(v, n.Path, nv)}, T: typ, Class: "near:" + kind, Path: path, Sole: true})
					}
				}
				for _, kind := range convKinds(n.T) {
					if nv, ok := vg.convertible(kind, n); ok {
						pairs = append(pairs, Pair{V: hs.WV{V: replaceAt(v, n.Path, nv)}, T: typ, Class: "convertible"})
					}
				}
			}
			for _, p := range pairs {
				for _, lib := range []string{"vm", "tree"} {
					for _, allow := range []bool{false, true} {
						k++
						if !pk.Mine(k) {
							continue
						}
						pk.Eval()
						classify(p, judge(p.V.V, p.T, mode{Explicit: allow}), fmt.Sprintf("table:%s:allow=%v", lib, allow))
						c := APICase{Pair: p, Lib: lib, Allow: allow}
						col.Report(c, checkAPI(c))
					}
				}
			}
		}
	}
	pk.Exhaustive("table-near-miss")
	col.Done(t)
}
