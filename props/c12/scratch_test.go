package c12

import (
	"fmt"
	"testing"

	"verif/hs"
	"verif/px"
	"verif/sb"
)

func runProg(t *testing.T, text string, vals ...hs.Value) {
	c := px.ProgCase{Modules: map[string]string{"main": text}, Entry: "main", Limits: sb.DefaultLimits()}
	for _, v := range vals {
		c.AnyVals = append(c.AnyVals, hs.WV{V: v})
	}
	resp := px.Pool().Exec(c.Request("vm", "tree"))
	fmt.Printf("---- %s\n", text)
	if resp.Crash != "" {
		fmt.Printf("CRASH %s\n%s\n", resp.Crash, resp.CrashLog)
		return
	}
	fmt.Printf("accepted=%v\n", resp.Accepted)
	for _, d := range append(resp.SyntaxErrors, resp.Diags...) {
		fmt.Printf("  %s: %s\n", d.Level, d.Message)
	}
	for _, b := range []string{"vm", "tree"} {
		r := resp.Run(b)
		if r != nil {
			fmt.Printf("  %s: writes=%q outcome=%+v compile=%q init=%q\n", b, r.Writes, r.Outcome, r.CompileErr, r.InitPanic)
		}
	}
}

func TestScratch(t *testing.T) {
	runProg(t, `import any_val from host;
fn main() {
    try {
        let x = any_val(0) as [int];
        println("ADMITTED");
    } catch e {
        println("REFUSED");
        println(e.message);
    }
    println("AFTER");
}`, &hs.ListV{Elems: []hs.Value{hs.IntV(1), hs.StrV("x")}})
	runProg(t, `import any_val from host;
fn main() {
    try {
        let x = any_val(0) as { r: range, n: null, ao: {?}, f: float, b: bool };
        println("ADMITTED");
        let n = 0;
        for i in x.r { n += 1; }
        println(n);
        println(x.r.start + 1);
        let nn: null = x.n;
        println(x.n == null);
        println(x.ao.keys().len());
        println(x.f + 0.5);
        println(!x.b);
        println("USED");
    } catch e {
        println("REFUSED");
        println(e.message);
    }
    println("AFTER");
}`, &hs.ObjV{Keys: []string{"r", "n","ao","f","b"}, M: map[string]hs.Value{"r": hs.RangeV{Start:1,End:4}, "n": hs.NullV{}, "ao": &hs.ObjV{Any:true, Keys: []string{"k"}, M: map[string]hs.Value{"k": hs.IntV(1)}}, "f": hs.FloatV(2), "b": hs.BoolV(true)}})
	runProg(t, `fn main() {
    try {
        let x = "{\"zqa\": 1.5, \"l\": [1, 2.0, null]}".parse_json() as { zqa: float, l: [?int] };
        println("ADMITTED");
        println(x.zqa + 1.0);
        for it in x.l { println(it.is_some()); if it.is_some() { println(it.unwrap() + 1); } }
    } catch e {
        println("REFUSED");
        println(e.message);
    }
    println("AFTER");
}`)
}
