package c12

import (
	"fmt"
	"testing"

	"verif/hs"
	"verif/pk"
	"verif/px"
	"verif/sb"
)

// An admitted value is the program's own from then on: writing to one of its slots - in particular to a slot that
// the crossing filled with `none` (from a JSON null, a missing optional field, a `none`) or with a converted
// scalar - changes that slot only. A LATER crossing starts from its own document: what it admits conforms to the
// target type whatever the program did to the results of earlier crossings.

type slotRow struct {
	name, body, want string
}

var slotRows = []slotRow{
	{"none-element-overwritten-then-object-field", `let names = "[null, \"a\"]".parse_json() as [?str];
    names[0] = ?"oops";
    let rec = "{\"n\": null}".parse_json() as { n: ?int };
    println(rec.n.is_none(), names[0].unwrap(), names[1].unwrap());`, "true oops a\n"},
	{"none-field-overwritten-then-sibling", `let o = "{\"n\": null, \"m\": null}".parse_json() as { n: ?int, m: ?int };
    o.n = ?5;
    println(o.n.unwrap(), o.m.is_none());
    let again: [?int] = "[null, null]".parse_json();
    println(again[0].is_none(), again[1].is_none());
    again[1] = ?7;
    println(again[0].is_none(), again[1].unwrap());`, "5 true\ntrue true\ntrue 7\n"},
	{"none-literal-after-overwrites", `let l = "[null]".parse_json() as [?int];
    l[0] = ?1;
    let n: ?int = none;
    let m = "null".len();
    let fresh = [n];
    fresh[0] = ?2;
    let later: ?int = none;
    println(l[0].unwrap(), n.is_none(), later.is_none(), fresh[0].unwrap(), m);`, "1 true true 2 4\n"},
	{"top-level-option-overwritten", `let a = "[null]".parse_json() as [?[int]];
    a[0] = ?[1, 2];
    let b = "[null, [3]]".parse_json() as [?[int]];
    println(b[0].is_none(), b[1].unwrap(), a[0].unwrap());`, "true [3] [1, 2]\n"},
	{"converted-scalars-overwritten", `let f = "[1, 2]".parse_json() as [float];
    f[0] = 9.5;
    let g = "[1, 2]".parse_json() as [float];
    println(f, g);
    let b = "[1, 0]".parse_json() as [bool];
    b[1] = true;
    let c = "[1, 0]".parse_json() as [bool];
    println(b, c);`, "[9.5, 2] [1, 2]\n[true, true] [true, false]\n"},
	// the dynamic value is a CONSTANT expression (a literal cast to a type that contains any): the crossing validates it all the same
	{"constant-source-wrong-scalar", `try { let x: str = 1 as any; println("ADMITTED", x.len()); } catch e { println("refused"); }
    try { let y: int = "s" as any; println("ADMITTED", y + 1); } catch e { println("refused"); }
    let z: int = 5 as any; println(z + 1);`, "refused\nrefused\n6\n"},
	{"constant-source-wrong-element", `try { let l: [str] = [1, 2] as any; println("ADMITTED", l[0].len()); } catch e { println("refused"); }
    try { let o: { a: int, b: str } = new { a: 1 } as any; println("ADMITTED", o.b.len()); } catch e { println("refused"); }
    try { let p: { a: str } = new { a: 1 } as any; println("ADMITTED", p.a.len()); } catch e { println("refused"); }
    let ok: [int] = [1, 2] as any; println(ok[1] + 1);`, "refused\nrefused\nrefused\n3\n"},
	{"constant-source-converted", `let ys: [?int] = [1, 2] as any;
    println(ys[0].is_some(), ys[1].unwrap() + 1);
    let q: ?str = "s" as any;
    println(q.unwrap().len());
    let ao: { ? } = new { k: 1 } as any;
    println(ao.get("k").is_some());`, "true 3\n1\ntrue\n"},
	{"repeated-crossing-in-a-loop", `let seen: [bool] = [];
    for i in 0..4 {
        let v = "[null, null]".parse_json() as [?int];
        seen.push(v[0].is_none() && v[1].is_none());
        v[0] = ?i;
        v[1] = ?(i * 2);
    }
    println(seen);`, "[true, true, true, true]\n"},
}

func TestTableAdmittedSlots(t *testing.T) {
	pk.SkipIfReplay(t)
	col := pk.NewCollector()
	for k, r := range slotRows {
		if !pk.Mine(k) {
			continue
		}
		c := px.ProgCase{Modules: map[string]string{"main": "fn main() {\n    " + r.body + "\n}\n"}, Entry: "main", Limits: sb.DefaultLimits(),
			Note:   fmt.Sprintf("admitted slots: %s", r.name),
			Expect: &px.Exp{Writes: splitWrites(r.want), Outcome: hs.Outcome{Class: "ok"}}}
		pk.Eval()
		pk.NonTrivial(c.Note, map[string]any{"row": r.name})
		col.Report(c, checkAnyRow(c))
	}
	pk.Exhaustive("table-admitted-slots")
	col.Done(t)
}
