package c12

import (
	"fmt"
	"testing"

	"verif/hs"
	"verif/pk"
	"verif/px"
	"verif/sb"
)

// Targets that contain `any`: every value conforms to `any`, so a parsed JSON document crossing into
// `[any]`, `{ k: any }`, `?any` ... is admitted unchanged wherever the non-any part of the type fits,
// and is refused (catchable) where it does not. Output is written with the documented display rules.

type anyRow struct {
	name, json, typ string
	uses            string // statements using `v`
	want            string // expected output; "" with refuse=true
	refuse          bool   // the boundary must refuse: the catch block prints "refused"
}

var anyRows = []anyRow{
	{name: "list-mixed", json: `[1, "x", true, 2.5]`, typ: "[any]", uses: `println(v.len()); println(v.contains("x"), v.contains(1), v.contains(false), v.contains(2.5));`, want: "4\ntrue true false true\n"},
	{name: "list-nested", json: `[[1, "a"], [], [null]]`, typ: "[[any]]", uses: `println(v.len());`, want: "3\n"},
	{name: "object-any-field", json: `{"k": [1, "x"], "n": 3}`, typ: "{ k: any, n: int }", uses: `println(v.n + 1);`, want: "4\n"},
	{name: "object-any-field-wrong-sibling", json: `{"k": [1, "x"], "n": "three"}`, typ: "{ k: any, n: int }", refuse: true},
	{name: "object-any-field-missing", json: `{"n": 3}`, typ: "{ k: any, n: int }", refuse: true},
	{name: "option-any-some", json: `"x"`, typ: "?any", uses: `println(v.is_some());`, want: "true\n"},
	// (a top-level JSON `null` is left out: parse_json then yields the null value, whose binding crashes the VM - open finding C12-007)
	{name: "list-option-any", json: `[1, null, "x"]`, typ: "[?any]", uses: `println(v.len());`, want: "3\n"},
	{name: "list-any-not-a-list", json: `{"a": 1}`, typ: "[any]", refuse: true},
	{name: "list-any-scalar", json: `5`, typ: "[any]", refuse: true},
	{name: "anyobj-mixed", json: `{"a": 1, "b": "x", "c": [true]}`, typ: "{ ? }", uses: `println(v.keys().len());`, want: "3\n"},
	// JSON numbers without a fraction that no int can hold are floats
	{name: "huge-integral-number-is-a-float", json: `1e19`, typ: "float", uses: `println(v > 9000000000000000000.0, v < 11000000000000000000.0);`, want: "true true\n"},
	{name: "huge-numbers-in-a-list", json: `[1e300, -1e19, 9223372036854775808, 1.5]`, typ: "[float]", uses: `println(v[0] > 1000000000000000000000.0, v[1] < 0.0 - 9000000000000000000.0, v[2] > 9200000000000000000.0, v[3]);`, want: "true true true 1.5\n"},
	{name: "huge-number-in-an-object", json: `{"x": 1e19, "n": 1}`, typ: "{ x: float, n: int }", uses: `println(v.x > 9000000000000000000.0, v.n);`, want: "true 1\n"},
	{name: "huge-number-in-an-option", json: `[1e19, null]`, typ: "[?float]", uses: `println(v[0].unwrap() > 9000000000000000000.0, v[1].is_none());`, want: "true true\n"},
	{name: "list-of-anyobj", json: `[{"a": 1}, {"b": "x"}]`, typ: "[{ ? }]", uses: `println(v.len(), v[0].keys().len(), v[1].keys().len());`, want: "2 1 1\n"},
}

func anyProgram(r anyRow, viaLet bool) string {
	src := fmt.Sprintf("%q.parse_json()", r.json)
	bind := fmt.Sprintf("let v: %s = %s;", r.typ, src)
	if !viaLet {
		// (an unannotated `let v = x as [any]` is rejected as an implicit use of `any`)
		bind = fmt.Sprintf("let v: %s = %s as %s;", r.typ, src, r.typ)
	}
	return fmt.Sprintf("fn main() {\n    try {\n        %s\n        %s\n    } catch e {\n        println(\"refused\");\n    }\n    println(\"end\");\n}\n", bind, r.uses)
}

func checkAnyRow(c px.ProgCase) *pk.Failure {
	resp := px.Pool().Exec(c.Request("vm", "tree"))
	if f := px.SandboxFailure("any", resp); f != nil {
		f.Msg = c.Note + "\n" + px.ProgText(c) + "\n" + f.Msg
		return f
	}
	if resp.Inconclusive {
		pk.Inconclusive()
		return nil
	}
	if !resp.Accepted {
		msg := ""
		for _, d := range append(resp.SyntaxErrors, resp.ErrorDiags()...) {
			msg += fmt.Sprintf("%s: %s @%d:%d\n", d.Level, d.Message, d.Span.Start.Line, d.Span.Start.Column)
		}
		return pk.Failf("any", "table-rejected", "analyzer rejected the table program %s:\n%s\n%s", c.Note, msg, px.ProgText(c))
	}
	for _, b := range []string{"vm", "tree"} {
		pk.Extra("comparisons", 1)
		if cls, msg := px.CompareRun(c.Expect, resp.Run(b)); cls != "" {
			return pk.Failf("any", b+" any:"+cls, "%s on %s: %s\n%s", c.Note, b, msg, px.ProgText(c))
		}
	}
	return nil
}

func init() { pk.Reg("any", checkAnyRow) }

func TestTableAnyTargets(t *testing.T) {
	pk.SkipIfReplay(t)
	col := pk.NewCollector()
	k := 0
	for _, r := range anyRows {
		for _, viaLet := range []bool{true, false} {
			k++
			if !pk.Mine(k) {
				continue
			}
			want := r.want + "end\n"
			if r.refuse {
				want = "refused\nend\n"
			}
			c := px.ProgCase{Modules: map[string]string{"main": anyProgram(r, viaLet)}, Entry: "main", Limits: sb.DefaultLimits(),
				Note:   fmt.Sprintf("any-target %s (annotated let: %v)", r.name, viaLet),
				Expect: &px.Exp{Writes: splitWrites(want), Outcome: hs.Outcome{Class: "ok"}}}
			pk.Eval()
			pk.NonTrivial(c.Note, map[string]any{"row": r.name, "type": r.typ, "json": r.json})
			col.Report(c, checkAnyRow(c))
		}
	}
	pk.Exhaustive("table-any-targets")
	col.Done(t)
}

// splitWrites: println writes one chunk per call
func splitWrites(s string) []string {
	var out []string
	cur := ""
	for _, r := range s {
		cur += string(r)
		if r == '\n' {
			out = append(out, cur)
			cur = ""
		}
	}
	if cur != "" {
		out = append(out, cur)
	}
	return out
}
