package c12

// The oracle of C12, written from the property text only. It never calls repository code.
//
//   must     hs.Conforms(v, T): the value already has type T -> admitted unchanged.
//   mustNot  v does not conform to T even after the permitted conversions -> refused.
//   may      v conforms only after a permitted conversion. The property bounds admission from
//            above ("admitted only if"), so a refusal here is not a violation; an admission must
//            produce a value that deeply conforms to T (and, where the numeric result is
//            unambiguous, the value the conversion defines).

import (
	"fmt"
	"math"
	"strconv"
	"strings"

	"verif/hs"
)

type PathElem struct {
	K     string // "field" | "index" | "some"
	Field string `json:",omitempty"`
	Index int    `json:",omitempty"`
}

func (p PathElem) String() string {
	switch p.K {
	case "field":
		return "." + p.Field
	case "index":
		return "[" + strconv.Itoa(p.Index) + "]"
	}
	return "<some>"
}

func pathText(p []PathElem) string {
	if len(p) == 0 {
		return "<root>"
	}
	s := ""
	for _, e := range p {
		s += e.String()
	}
	return s
}

// mode of a crossing.
type mode struct {
	Explicit bool // `as` / allowCasts=true: scalar conversions bool/int/float permitted
	JSON     bool // the value is a JSON document (model: what parse_json yields): `null` stands for both null and none
}

type trace struct {
	Scalar       []string // scalar conversions used ("int>float")
	Wrap         bool     // T into ?T used
	ObjAny       bool     // object into any-object used
	NullOpt      bool     // null met an option type: the statement does not say what happens
	ValueUnknown bool     // the admitted value is not fixed by the statement
	Blame        string   // first reason for non-convertibility: "list>wrap>int<-str"
}

func (t *trace) fail(chain []string, what string) {
	if t.Blame == "" {
		t.Blame = strings.Join(append(append([]string{}, chain...), what), ">")
	}
}

func kindName(v hs.Value) string {
	if v == nil {
		return "nil"
	}
	if o, ok := v.(hs.OptV); ok {
		if o.Inner == nil {
			return "none"
		}
		return "some"
	}
	return v.Kind().String()
}

func isNum(k hs.Kind) bool { return k == hs.KInt || k == hs.KFloat || k == hs.KBool }

const two53 = int64(1) << 53

// convScalar applies one permitted scalar conversion. known=false: the statement does not fix the value.
func convScalar(v hs.Value, to hs.Kind) (res hs.Value, known bool) {
	switch v := v.(type) {
	case hs.IntV:
		switch to {
		case hs.KFloat:
			if int64(v) > -two53 && int64(v) < two53 {
				return hs.FloatV(float64(v)), true
			}
			return hs.FloatV(float64(v)), false
		case hs.KBool:
			return hs.BoolV(v != 0), true
		}
	case hs.FloatV:
		f := float64(v)
		switch to {
		case hs.KInt:
			if hs.IsFinite(f) && f == math.Trunc(f) && math.Abs(f) < 9.2e18 {
				return hs.IntV(int64(f)), true
			}
			return hs.IntV(0), false
		case hs.KBool:
			return hs.BoolV(f != 0), false
		}
	case hs.BoolV:
		switch to {
		case hs.KInt:
			if v {
				return hs.IntV(1), true
			}
			return hs.IntV(0), true
		case hs.KFloat:
			if v {
				return hs.FloatV(1), false
			}
			return hs.FloatV(0), false
		}
	}
	panic("convScalar: not a permitted conversion")
}

// conv: does v conform to t after the permitted conversions, and what is the admitted value.
func conv(v hs.Value, t hs.Type, m mode, tr *trace, chain []string) (hs.Value, bool) {
	if v == nil {
		tr.fail(chain, t.K.String()+"<-nil")
		return nil, false
	}
	switch t.K {
	case hs.KAny:
		return v, true
	case hs.KOpt:
		if o, ok := v.(hs.OptV); ok {
			if o.Inner == nil {
				return hs.OptV{}, true
			}
			r, ok := conv(o.Inner, *t.Elem, m, tr, append(chain, "some"))
			if !ok {
				return nil, false
			}
			return hs.OptV{Inner: r}, true
		}
		if _, ok := v.(hs.NullV); ok && m.JSON {
			return hs.OptV{}, true // the document `null` under an option type denotes none
		}
		if _, ok := v.(hs.NullV); ok {
			// null is not a T; whether it may stand for `none` is not stated.
			tr.NullOpt = true
			tr.ValueUnknown = true
			return hs.OptV{}, true
		}
		r, ok := conv(v, *t.Elem, m, tr, append(chain, "wrap"))
		if !ok {
			return nil, false
		}
		tr.Wrap = true
		return hs.OptV{Inner: r}, true
	case hs.KInt, hs.KFloat, hs.KBool:
		if v.Kind() == t.K {
			return v, true
		}
		if m.Explicit && isNum(v.Kind()) {
			r, known := convScalar(v, t.K)
			tr.Scalar = append(tr.Scalar, v.Kind().String()+">"+t.K.String())
			if !known {
				tr.ValueUnknown = true
			}
			return r, true
		}
		tr.fail(chain, t.K.String()+"<-"+kindName(v))
		return nil, false
	case hs.KNull:
		if v.Kind() == hs.KNull {
			return v, true
		}
		if o, ok := v.(hs.OptV); ok && m.JSON && o.Inner == nil {
			return hs.NullV{}, true
		}
		tr.fail(chain, "null<-"+kindName(v))
		return nil, false
	case hs.KStr, hs.KRange:
		if v.Kind() == t.K {
			return v, true
		}
		tr.fail(chain, t.K.String()+"<-"+kindName(v))
		return nil, false
	case hs.KList:
		l, ok := v.(*hs.ListV)
		if !ok {
			tr.fail(chain, "list<-"+kindName(v))
			return nil, false
		}
		out := &hs.ListV{}
		for _, e := range l.Elems {
			r, ok := conv(e, *t.Elem, m, tr, append(chain, "list"))
			if !ok {
				return nil, false
			}
			out.Elems = append(out.Elems, r)
		}
		return out, true
	case hs.KAnyObj:
		o, ok := v.(*hs.ObjV)
		if !ok {
			tr.fail(chain, "anyobj<-"+kindName(v))
			return nil, false
		}
		if o.Any {
			return v, true
		}
		tr.ObjAny = true
		c := hs.DeepCopy(o).(*hs.ObjV)
		c.Any = true
		return c, true
	case hs.KObj:
		o, ok := v.(*hs.ObjV)
		if !ok || o.Any {
			tr.fail(chain, "obj<-"+kindName(v))
			return nil, false
		}
		for _, f := range t.Fields {
			if _, ok := o.M[f.Name]; !ok {
				tr.fail(chain, "obj<-missing-field")
				return nil, false
			}
		}
		if len(o.M) != len(t.Fields) {
			tr.fail(chain, "obj<-extra-field")
			return nil, false
		}
		out := hs.NewObj(false)
		for _, f := range t.Fields {
			r, ok := conv(o.M[f.Name], f.T, m, tr, append(chain, "obj"))
			if !ok {
				return nil, false
			}
			out.Set(f.Name, r)
		}
		return out, true
	}
	tr.fail(chain, t.K.String()+"<-"+kindName(v))
	return nil, false
}

type Verdict struct {
	Must, May, MustNot bool
	Res                hs.Value // expected admitted value (Must: v itself)
	ValueKnown         bool
	Tr                 trace
}

func judge(v hs.Value, t hs.Type, m mode) Verdict {
	if hs.Conforms(v, t) {
		return Verdict{Must: true, Res: v, ValueKnown: true}
	}
	var tr trace
	r, ok := conv(v, t, m, &tr, nil)
	if !ok {
		return Verdict{MustNot: true, Tr: tr}
	}
	if m.JSON && !tr.NullOpt && hs.Conforms(r, t) && len(tr.Scalar) == 0 {
		// only JSON's notational ambiguities were resolved (null for null/none, the bare payload for
		// Some(..), an object for {?}): the document denotes a value of type T
		return Verdict{Must: true, Res: r, ValueKnown: true, Tr: tr}
	}
	return Verdict{May: true, Res: r, ValueKnown: !tr.ValueUnknown, Tr: tr}
}

func (v Verdict) word() string {
	switch {
	case v.Must:
		return "must-admit"
	case v.May:
		return "may-admit"
	}
	return "must-refuse"
}

// convClass names the conversions a may-verdict relies on (for statistics and doubt classes).
func (v Verdict) convClass() string {
	var parts []string
	if len(v.Tr.Scalar) > 0 {
		parts = append(parts, "scalar")
	}
	if v.Tr.Wrap {
		parts = append(parts, "wrap")
	}
	if v.Tr.ObjAny {
		parts = append(parts, "obj-to-anyobj")
	}
	if v.Tr.NullOpt {
		parts = append(parts, "null-to-option")
	}
	if len(parts) == 0 {
		return "none"
	}
	return strings.Join(parts, "+")
}

// nonconf locates the first place where v fails to conform to t (no conversions): "opt>int<-str".
func nonconf(v hs.Value, t hs.Type) string { return strictBlame(v, t, nil) }

// resultBlame locates the first nonconformity of an admitted result r, walking the input v alongside:
// a Some(..) in the result where the input had a bare value is reported as the step "wrap".
func resultBlame(v, r hs.Value, t hs.Type, chain []string) string {
	j := func(what string) string { return strings.Join(append(append([]string{}, chain...), what), ">") }
	if hs.Conforms(r, t) {
		return ""
	}
	switch t.K {
	case hs.KOpt:
		if o, ok := r.(hs.OptV); ok && o.Inner != nil {
			if vo, ok := v.(hs.OptV); ok && vo.Inner != nil {
				return resultBlame(vo.Inner, o.Inner, *t.Elem, append(chain, "some"))
			}
			return resultBlame(v, o.Inner, *t.Elem, append(chain, "wrap"))
		}
	case hs.KList:
		if l, ok := r.(*hs.ListV); ok {
			vl, _ := v.(*hs.ListV)
			for i, e := range l.Elems {
				if !hs.Conforms(e, *t.Elem) {
					var ve hs.Value
					if vl != nil && len(vl.Elems) == len(l.Elems) {
						ve = vl.Elems[i]
					}
					return resultBlame(ve, e, *t.Elem, append(chain, "list"))
				}
			}
		}
	case hs.KObj:
		if o, ok := r.(*hs.ObjV); ok && !o.Any {
			vo, _ := v.(*hs.ObjV)
			for _, f := range t.Fields {
				fv, ok := o.M[f.Name]
				if !ok {
					return j("obj<-missing-field")
				}
				if !hs.Conforms(fv, f.T) {
					var ve hs.Value
					if vo != nil {
						ve = vo.M[f.Name]
					}
					return resultBlame(ve, fv, f.T, append(chain, "obj"))
				}
			}
			return j("obj<-extra-field")
		}
	}
	return j(t.K.String() + "<-" + kindName(r))
}

func strictBlame(v hs.Value, t hs.Type, chain []string) string {
	j := func(what string) string { return strings.Join(append(append([]string{}, chain...), what), ">") }
	if hs.Conforms(v, t) {
		return ""
	}
	switch t.K {
	case hs.KOpt:
		if o, ok := v.(hs.OptV); ok && o.Inner != nil {
			return strictBlame(o.Inner, *t.Elem, append(chain, "some"))
		}
	case hs.KList:
		if l, ok := v.(*hs.ListV); ok {
			for _, e := range l.Elems {
				if !hs.Conforms(e, *t.Elem) {
					return strictBlame(e, *t.Elem, append(chain, "list"))
				}
			}
		}
	case hs.KObj:
		if o, ok := v.(*hs.ObjV); ok && !o.Any {
			for _, f := range t.Fields {
				fv, ok := o.M[f.Name]
				if !ok {
					return j("obj<-missing-field")
				}
				if !hs.Conforms(fv, f.T) {
					return strictBlame(fv, f.T, append(chain, "obj"))
				}
			}
			return j("obj<-extra-field")
		}
	}
	return j(t.K.String() + "<-" + kindName(v))
}

// valEqual is hs.Equal with NaN equal to NaN (an unchanged NaN is unchanged).
func valEqual(a, b hs.Value) bool {
	if a == nil || b == nil {
		return a == nil && b == nil
	}
	if a.Kind() != b.Kind() {
		return false
	}
	switch a := a.(type) {
	case hs.FloatV:
		x, y := float64(a), float64(b.(hs.FloatV))
		return x == y || (math.IsNaN(x) && math.IsNaN(y))
	case *hs.ListV:
		bl := b.(*hs.ListV)
		if len(a.Elems) != len(bl.Elems) {
			return false
		}
		for i := range a.Elems {
			if !valEqual(a.Elems[i], bl.Elems[i]) {
				return false
			}
		}
		return true
	case *hs.ObjV:
		bo := b.(*hs.ObjV)
		if len(a.M) != len(bo.M) {
			return false
		}
		for k, av := range a.M {
			bv, ok := bo.M[k]
			if !ok || !valEqual(av, bv) {
				return false
			}
		}
		return true
	case hs.OptV:
		return valEqual(a.Inner, b.(hs.OptV).Inner)
	}
	return hs.Equal(a, b)
}

// show renders a value with its dynamic kinds visible (hs.Display hides int/float and obj/anyobj).
func show(v hs.Value) string {
	switch v := v.(type) {
	case nil:
		return "<nil>"
	case hs.FloatV:
		s := hs.Display(v)
		if !strings.ContainsAny(s, ".eNI") {
			s += ".0"
		}
		return s
	case hs.StrV:
		return strconv.Quote(string(v))
	case *hs.ListV:
		parts := make([]string, len(v.Elems))
		for i, e := range v.Elems {
			parts[i] = show(e)
		}
		return "[" + strings.Join(parts, ", ") + "]"
	case *hs.ObjV:
		parts := []string{}
		if v.Any {
			parts = append(parts, "?")
		}
		for _, k := range v.Keys {
			parts = append(parts, k+": "+show(v.M[k]))
		}
		return "{" + strings.Join(parts, ", ") + "}"
	case hs.OptV:
		if v.Inner == nil {
			return "none"
		}
		return "Some(" + show(v.Inner) + ")"
	}
	return hs.Display(v)
}

func typeDepth(t hs.Type) int {
	switch t.K {
	case hs.KList, hs.KOpt:
		return 1 + typeDepth(*t.Elem)
	case hs.KObj:
		d := 0
		for _, f := range t.Fields {
			if fd := typeDepth(f.T); fd > d {
				d = fd
			}
		}
		return 1 + d
	}
	return 0
}

// ---------------------------------------------------------------------------------------------
// typed uses of every leaf of T: source text and the output the uses must produce for a value of type T.

type useGen struct {
	n     int
	lines []string
}

func (g *useGen) emit(ind int, s string) {
	g.lines = append(g.lines, strings.Repeat("    ", ind)+s)
}

func (g *useGen) fresh(p string) string { g.n++; return fmt.Sprintf("%s%d", p, g.n) }

func (g *useGen) uses(t hs.Type, e string, ind int) {
	switch t.K {
	case hs.KInt:
		g.emit(ind, "println("+e+" + 1);")
	case hs.KFloat:
		g.emit(ind, "println("+e+" + 0.5);")
	case hs.KBool:
		g.emit(ind, "println(!"+e+");")
	case hs.KStr:
		g.emit(ind, "println("+e+" + \"!\");")
	case hs.KNull:
		g.emit(ind, "println("+e+" == null);")
	case hs.KRange:
		g.emit(ind, "println("+e+".start + 1);")
		g.emit(ind, "println("+e+".end + 1);")
	case hs.KAnyObj:
		g.emit(ind, "println("+e+".keys().len());")
	case hs.KList:
		g.emit(ind, "println("+e+".len());")
		it := g.fresh("it")
		g.emit(ind, "for "+it+" in "+e+" {")
		g.uses(*t.Elem, it, ind+1)
		g.emit(ind, "}")
	case hs.KObj:
		for _, f := range t.Fields {
			g.uses(f.T, e+"."+f.Name, ind)
		}
	case hs.KOpt:
		g.emit(ind, "println("+e+".is_some());")
		if t.Elem.K == hs.KNull {
			// binding the null result of a builtin call is a VM matter of its own (finding C12-008)
			return
		}
		u := g.fresh("u")
		g.emit(ind, "if "+e+".is_some() {")
		g.emit(ind+1, "let "+u+" = "+e+".unwrap();")
		g.uses(*t.Elem, u, ind+1)
		g.emit(ind, "}")
	}
}

// useOut is the output of the uses for a value v that has type t.
func useOut(t hs.Type, v hs.Value, out *[]string) {
	p := func(s string) { *out = append(*out, s+"\n") }
	switch t.K {
	case hs.KInt:
		p(hs.Display(hs.IntV(int64(v.(hs.IntV)) + 1)))
	case hs.KFloat:
		p(hs.Display(hs.FloatV(float64(v.(hs.FloatV)) + 0.5)))
	case hs.KBool:
		p(hs.Display(hs.BoolV(!bool(v.(hs.BoolV)))))
	case hs.KStr:
		p(string(v.(hs.StrV)) + "!")
	case hs.KNull:
		p("true")
	case hs.KRange:
		r := v.(hs.RangeV)
		p(strconv.FormatInt(r.Start+1, 10))
		p(strconv.FormatInt(r.End+1, 10))
	case hs.KAnyObj:
		p(strconv.Itoa(len(v.(*hs.ObjV).M)))
	case hs.KList:
		l := v.(*hs.ListV)
		p(strconv.Itoa(len(l.Elems)))
		for _, e := range l.Elems {
			useOut(*t.Elem, e, out)
		}
	case hs.KObj:
		o := v.(*hs.ObjV)
		for _, f := range t.Fields {
			useOut(f.T, o.M[f.Name], out)
		}
	case hs.KOpt:
		o := v.(hs.OptV)
		if o.Inner == nil {
			p("false")
			return
		}
		p("true")
		if t.Elem.K != hs.KNull {
			useOut(*t.Elem, o.Inner, out)
		}
	}
}

// ---------------------------------------------------------------------------------------------
// JSON documents (own renderer; only the representable fragment is ever rendered)

func jsonRepresentable(v hs.Value) bool {
	switch v := v.(type) {
	case hs.IntV:
		return int64(v) > -two53 && int64(v) < two53
	case hs.FloatV:
		f := float64(v)
		return hs.IsFinite(f) && f != math.Trunc(f) && math.Abs(f) < 1e15
	case hs.BoolV, hs.StrV:
		return true
	case hs.NullV:
		return true
	case *hs.ListV:
		for _, e := range v.Elems {
			if !jsonRepresentable(e) {
				return false
			}
		}
		return true
	case *hs.ObjV:
		if v.Any {
			return false
		}
		for _, e := range v.M {
			if !jsonRepresentable(e) {
				return false
			}
		}
		return true
	}
	return false
}

func jsonText(v hs.Value) string {
	switch v := v.(type) {
	case hs.IntV:
		return strconv.FormatInt(int64(v), 10)
	case hs.FloatV:
		return strconv.FormatFloat(float64(v), 'f', -1, 64)
	case hs.BoolV:
		return hs.Display(v)
	case hs.StrV:
		return jsonQuote(string(v))
	case hs.NullV:
		return "null"
	case *hs.ListV:
		parts := make([]string, len(v.Elems))
		for i, e := range v.Elems {
			parts[i] = jsonText(e)
		}
		return "[" + strings.Join(parts, ",") + "]"
	case *hs.ObjV:
		parts := make([]string, 0, len(v.Keys))
		for _, k := range v.Keys {
			parts = append(parts, jsonQuote(k)+":"+jsonText(v.M[k]))
		}
		return "{" + strings.Join(parts, ",") + "}"
	}
	panic("jsonText: not representable: " + show(v))
}

func jsonQuote(s string) string {
	var b strings.Builder
	b.WriteByte('"')
	for _, r := range s {
		switch {
		case r == '"':
			b.WriteString(`\"`)
		case r == '\\':
			b.WriteString(`\\`)
		case r == '\n':
			b.WriteString(`\n`)
		case r == '\t':
			b.WriteString(`\t`)
		case r < 0x20:
			fmt.Fprintf(&b, `\u%04x`, r)
		default:
			b.WriteRune(r)
		}
	}
	b.WriteByte('"')
	return b.String()
}
