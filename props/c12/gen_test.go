package c12

// Generators: target types, conforming values, values that conform only after a permitted
// conversion, and near misses at a generator-known path. All choices go through a chooser so the
// same code serves rapid (shrinkable draws) and the exhaustive table (fixed choices).

import (
	"math"
	"strings"

	"pgregory.net/rapid"

	"verif/hs"
)

type chooser interface{ Pick(n int, label string) int }

type rapidCh struct{ rt *rapid.T }

func (c rapidCh) Pick(n int, label string) int {
	if n <= 1 {
		return 0
	}
	return rapid.IntRange(0, n-1).Draw(c.rt, label)
}

// fixedCh answers every choice with k mod n (k=0: first alternative everywhere).
type fixedCh struct{ k int }

func (c fixedCh) Pick(n int, label string) int {
	if n <= 1 {
		return 0
	}
	return c.k % n
}

// ---------------------------------------------------------------------------------------------
// types

type typeGen struct {
	ch    chooser
	names int
	json  bool // no range (a JSON document cannot denote one)
}

// field names are unique within a type and share no substring with the wording of cast errors,
// so that "the message names the path" can be tested by containment.
func (g *typeGen) name() string {
	n := g.names
	g.names++
	return "zq" + string(rune('a'+n%26)) + func() string {
		if n >= 26 {
			return string(rune('a' + n/26 - 1))
		}
		return ""
	}()
}

var leafKinds = []hs.Kind{hs.KInt, hs.KInt, hs.KInt, hs.KFloat, hs.KFloat, hs.KBool, hs.KBool, hs.KStr, hs.KStr, hs.KStr, hs.KNull, hs.KAnyObj, hs.KRange}

func (g *typeGen) leaf() hs.Type {
	ks := leafKinds
	if g.json {
		ks = ks[:len(ks)-1]
	}
	return hs.Type{K: ks[g.ch.Pick(len(ks), "leaf")]}
}

func (g *typeGen) typ(depth int) hs.Type {
	if depth <= 0 {
		return g.leaf()
	}
	switch g.ch.Pick(10, "shape") {
	case 0, 1, 2:
		return g.leaf()
	case 3, 4:
		return hs.TList(g.typ(depth - 1))
	case 5, 6:
		return hs.TOpt(g.typ(depth - 1))
	default:
		n := 1 + g.ch.Pick(3, "nfields")
		fs := make([]hs.Field, n)
		for i := range fs {
			fs[i] = hs.Field{Name: g.name(), T: g.typ(depth - 1)}
		}
		return hs.TObj(fs...)
	}
}

// ---------------------------------------------------------------------------------------------
// values

type valGen struct {
	ch   chooser
	tame bool // values whose arithmetic and display are beyond dispute (program routes)
	json bool // only values a JSON document denotes after parsing (see jsonRepresentable)
}

var (
	tameInts   = []int64{7, 0, 1, -1, 2, 42, -300, 1 << 31}
	wildInts   = []int64{two53 - 1, two53, two53 + 1, -two53, math.MaxInt64, math.MinInt64}
	fracFloats = []float64{0.5, -1.5, 2.25, 1000.25, 0.1}
	intFloats  = []float64{2, 0, -3, 1e6}
	wildFloats = []float64{4.7e18, 9.3e18, -9.3e18, 1e300, math.NaN(), math.Inf(1), math.Inf(-1), 9007199254740993, 1e15 + 0.5}
	strPool    = []string{"s", "", "hello world", "12", "true", "null", "ü→x", "q\"u\\o"}
	rangePool  = []hs.RangeV{{Start: 0, End: 3}, {Start: 1, End: 2, Incl: true}, {Start: -2, End: 2}, {Start: 0, End: 0}}
	listLens   = []int{1, 2, 0, 3}
)

func (g *valGen) intV() hs.Value {
	pool := tameInts
	if !g.tame && !g.json {
		pool = append(append([]int64{}, tameInts...), wildInts...)
	}
	return hs.IntV(pool[g.ch.Pick(len(pool), "int")])
}

func (g *valGen) floatV() hs.Value {
	pool := append([]float64{}, fracFloats...)
	if !g.json {
		pool = append(pool, intFloats...)
		if !g.tame {
			pool = append(pool, wildFloats...)
		}
	}
	return hs.FloatV(pool[g.ch.Pick(len(pool), "float")])
}

func (g *valGen) boolV() hs.Value { return hs.BoolV(g.ch.Pick(2, "bool") == 0) }
func (g *valGen) strV() hs.Value  { return hs.StrV(strPool[g.ch.Pick(len(strPool), "str")]) }

func (g *valGen) scalar() hs.Value {
	switch g.ch.Pick(4, "scalarKind") {
	case 0:
		return g.intV()
	case 1:
		return g.strV()
	case 2:
		return g.boolV()
	}
	return g.floatV()
}

func (g *valGen) looseObj(any bool) *hs.ObjV {
	o := hs.NewObj(any)
	keys := []string{"zka", "zkb"}
	for i := 0; i < g.ch.Pick(3, "nkeys"); i++ {
		o.Set(keys[i], g.scalar())
	}
	return o
}

// conforming builds a value of type t. In json mode it builds what parse_json yields for a document
// denoting such a value: null for null/none, the bare payload for Some(..), an object for {?}.
func (g *valGen) conforming(t hs.Type) hs.Value {
	switch t.K {
	case hs.KInt:
		return g.intV()
	case hs.KFloat:
		return g.floatV()
	case hs.KBool:
		return g.boolV()
	case hs.KStr:
		return g.strV()
	case hs.KNull:
		return hs.NullV{}
	case hs.KRange:
		return rangePool[g.ch.Pick(len(rangePool), "range")]
	case hs.KAnyObj:
		return g.looseObj(!g.json)
	case hs.KList:
		l := &hs.ListV{}
		for i, n := 0, listLens[g.ch.Pick(len(listLens), "len")]; i < n; i++ {
			l.Elems = append(l.Elems, g.conforming(*t.Elem))
		}
		return l
	case hs.KObj:
		o := hs.NewObj(false)
		for _, f := range t.Fields {
			o.Set(f.Name, g.conforming(f.T))
		}
		return o
	case hs.KOpt:
		if g.ch.Pick(3, "some") == 2 {
			if g.json {
				return hs.NullV{}
			}
			return hs.OptV{}
		}
		in := g.conforming(*t.Elem)
		if g.json {
			return in
		}
		return hs.OptV{Inner: in}
	}
	panic("conforming: " + t.Canon())
}

// mismatch builds a value that is not a t and that no permitted conversion turns into a t.
func (g *valGen) mismatch(t hs.Type) hs.Value {
	pick := func(vs ...hs.Value) hs.Value { return vs[g.ch.Pick(len(vs), "mismatch")] }
	rng := hs.Value(hs.RangeV{Start: 0, End: 2})
	if g.json {
		rng = hs.StrV("0..2")
	}
	switch t.K {
	case hs.KInt, hs.KFloat, hs.KBool:
		return pick(hs.StrV("x"), &hs.ListV{}, rng, hs.NewObj(false))
	case hs.KStr:
		return pick(hs.IntV(5), hs.BoolV(true), hs.FloatV(1.5), &hs.ListV{})
	case hs.KNull:
		return pick(hs.IntV(0), hs.StrV(""))
	case hs.KRange:
		return pick(hs.IntV(3), hs.StrV("0..3"))
	case hs.KList:
		return pick(hs.NewObj(false), hs.IntV(1), hs.StrV("[]"))
	case hs.KObj:
		return pick(&hs.ListV{}, hs.IntV(1), hs.StrV("{}"))
	case hs.KAnyObj:
		return pick(&hs.ListV{}, hs.IntV(1), hs.StrV("{}"))
	case hs.KOpt:
		return g.mismatch(*t.Elem)
	}
	panic("mismatch: " + t.Canon())
}

// ---------------------------------------------------------------------------------------------
// nodes of a (value, type) pair and replacement

type node struct {
	Path []PathElem
	T    hs.Type
	V    hs.Value
}

func clonePath(p []PathElem, e ...PathElem) []PathElem {
	return append(append([]PathElem{}, p...), e...)
}

// nodes lists every position where the value's shape still follows the type's.
func nodes(v hs.Value, t hs.Type, path []PathElem, out *[]node) {
	*out = append(*out, node{Path: clonePath(path), T: t, V: v})
	switch t.K {
	case hs.KList:
		if l, ok := v.(*hs.ListV); ok {
			for i, e := range l.Elems {
				nodes(e, *t.Elem, clonePath(path, PathElem{K: "index", Index: i}), out)
			}
		}
	case hs.KObj:
		if o, ok := v.(*hs.ObjV); ok && !o.Any {
			for _, f := range t.Fields {
				if fv, ok := o.M[f.Name]; ok {
					nodes(fv, f.T, clonePath(path, PathElem{K: "field", Field: f.Name}), out)
				}
			}
		}
	case hs.KOpt:
		if o, ok := v.(hs.OptV); ok && o.Inner != nil {
			nodes(o.Inner, *t.Elem, clonePath(path, PathElem{K: "some"}), out)
		}
	}
}

func replaceAt(v hs.Value, path []PathElem, nv hs.Value) hs.Value {
	if len(path) == 0 {
		return nv
	}
	switch p := path[0]; p.K {
	case "index":
		l := v.(*hs.ListV)
		c := &hs.ListV{Elems: append([]hs.Value{}, l.Elems...)}
		c.Elems[p.Index] = replaceAt(l.Elems[p.Index], path[1:], nv)
		return c
	case "field":
		o := v.(*hs.ObjV)
		c := hs.NewObj(o.Any)
		for _, k := range o.Keys {
			if k == p.Field {
				c.Set(k, replaceAt(o.M[k], path[1:], nv))
			} else {
				c.Set(k, o.M[k])
			}
		}
		return c
	case "some":
		return hs.OptV{Inner: replaceAt(v.(hs.OptV).Inner, path[1:], nv)}
	}
	panic("replaceAt")
}

// ---------------------------------------------------------------------------------------------
// near misses

func nearKinds(t hs.Type) []string {
	switch t.K {
	case hs.KInt, hs.KFloat:
		return []string{"string-where-number", "wrong-leaf", "null-not-allowed", "none-not-allowed", "some-where-plain", "list-where-scalar"}
	case hs.KBool:
		return []string{"wrong-leaf", "null-not-allowed", "none-not-allowed", "some-where-plain"}
	case hs.KStr:
		return []string{"wrong-leaf", "null-not-allowed", "none-not-allowed", "list-where-scalar"}
	case hs.KNull:
		return []string{"wrong-leaf", "none-not-allowed"}
	case hs.KRange:
		return []string{"wrong-leaf", "null-not-allowed", "none-not-allowed"}
	case hs.KList:
		return []string{"wrong-element", "object-where-list", "scalar-where-list", "null-not-allowed", "none-not-allowed"}
	case hs.KObj:
		// (an extra field is not only one with an invented name: the names of the members every object has are data keys
		// like any other when they arrive in a dynamic value)
		return []string{"missing-field", "extra-field", "list-where-object", "anyobj-where-object", "scalar-where-object", "null-not-allowed", "none-not-allowed",
			"extra-field:keys", "extra-field:to_json", "extra-field:to_json_indent", "extra-field:to_string", "extra-field:get", "extra-field:len"}
	case hs.KAnyObj:
		return []string{"list-where-object", "scalar-where-object", "null-not-allowed", "none-not-allowed"}
	case hs.KOpt:
		return []string{"opt-wrong-inner", "wrong-raw-for-opt"}
	}
	return nil
}

// nearMiss replaces the value at node n by a defect of the given kind. The returned path is the
// position of the defect (n.Path, extended by the field/index/inner the defect sits at).
func (g *valGen) nearMiss(kind string, n node) (hs.Value, []PathElem, bool) {
	pick := func(vs ...hs.Value) hs.Value { return vs[g.ch.Pick(len(vs), "wrong")] }
	rng := hs.Value(hs.RangeV{Start: 0, End: 2})
	if g.json {
		rng = hs.StrV("0..2")
	}
	switch kind {
	case "string-where-number":
		return pick(hs.StrV("12"), hs.StrV("x"), hs.StrV("")), n.Path, true
	case "wrong-leaf":
		switch n.T.K {
		case hs.KInt, hs.KFloat, hs.KBool:
			return pick(hs.StrV("true"), rng), n.Path, true
		case hs.KStr:
			return pick(hs.IntV(5), hs.BoolV(true), hs.FloatV(1.5)), n.Path, true
		case hs.KNull:
			return pick(hs.IntV(0), hs.StrV(""), hs.BoolV(false)), n.Path, true
		case hs.KRange:
			return pick(hs.IntV(3), hs.StrV("0..3")), n.Path, true
		}
	case "null-not-allowed":
		return hs.NullV{}, n.Path, true
	case "none-not-allowed":
		if g.json {
			return nil, nil, false // JSON has one null
		}
		return hs.OptV{}, n.Path, true
	case "some-where-plain":
		if g.json {
			return nil, nil, false
		}
		return hs.OptV{Inner: n.V}, n.Path, true
	case "list-where-scalar":
		return &hs.ListV{Elems: []hs.Value{n.V}}, n.Path, true
	case "wrong-element":
		l, ok := n.V.(*hs.ListV)
		if !ok {
			return nil, nil, false
		}
		c := &hs.ListV{Elems: append([]hs.Value{}, l.Elems...)}
		if len(c.Elems) == 0 {
			c.Elems = append(c.Elems, nil)
		}
		i := g.ch.Pick(len(c.Elems), "index")
		c.Elems[i] = g.mismatch(*n.T.Elem)
		return c, clonePath(n.Path, PathElem{K: "index", Index: i}), true
	case "object-where-list":
		o := hs.NewObj(false)
		if l, ok := n.V.(*hs.ListV); ok && len(l.Elems) > 0 {
			o.Set("zqx", l.Elems[0])
		}
		return o, n.Path, true
	case "scalar-where-list", "scalar-where-object":
		return pick(hs.IntV(7), hs.StrV("[1]"), hs.BoolV(true)), n.Path, true
	case "missing-field":
		o, ok := n.V.(*hs.ObjV)
		if !ok || len(o.Keys) == 0 {
			return nil, nil, false
		}
		drop := o.Keys[g.ch.Pick(len(o.Keys), "field")]
		c := hs.NewObj(false)
		for _, k := range o.Keys {
			if k != drop {
				c.Set(k, o.M[k])
			}
		}
		return c, clonePath(n.Path, PathElem{K: "field", Field: drop}), true
	case "extra-field", "extra-field:keys", "extra-field:to_json", "extra-field:to_json_indent", "extra-field:to_string", "extra-field:get", "extra-field:len":
		o, ok := n.V.(*hs.ObjV)
		if !ok {
			return nil, nil, false
		}
		name := "zqx"
		if i := strings.Index(kind, ":"); i >= 0 {
			name = kind[i+1:]
		}
		if _, declared := o.M[name]; declared {
			return nil, nil, false
		}
		c := hs.DeepCopy(o).(*hs.ObjV)
		c.Set(name, hs.IntV(1))
		return c, clonePath(n.Path, PathElem{K: "field", Field: name}), true
	case "list-where-object":
		l := &hs.ListV{}
		if o, ok := n.V.(*hs.ObjV); ok {
			for _, k := range o.Keys {
				l.Elems = append(l.Elems, o.M[k])
			}
		}
		return l, n.Path, true
	case "anyobj-where-object":
		o, ok := n.V.(*hs.ObjV)
		if !ok || g.json {
			return nil, nil, false
		}
		c := hs.DeepCopy(o).(*hs.ObjV)
		c.Any = true
		return c, n.Path, true
	case "opt-wrong-inner":
		if g.json {
			return nil, nil, false
		}
		return hs.OptV{Inner: g.mismatch(*n.T.Elem)}, clonePath(n.Path, PathElem{K: "some"}), true
	case "wrong-raw-for-opt":
		return g.mismatch(*n.T.Elem), n.Path, true
	}
	return nil, nil, false
}

// ---------------------------------------------------------------------------------------------
// values that conform only after a permitted conversion

func convKinds(t hs.Type) []string {
	switch t.K {
	case hs.KInt, hs.KFloat, hs.KBool:
		return []string{"conv:scalar"}
	case hs.KAnyObj:
		return []string{"conv:obj-to-anyobj"}
	case hs.KOpt:
		return []string{"conv:wrap", "conv:null-opt"}
	}
	return nil
}

func (g *valGen) convertible(kind string, n node) (hs.Value, bool) {
	switch kind {
	case "conv:scalar":
		var alts []hs.Value
		if n.T.K != hs.KInt {
			alts = append(alts, g.intV())
		}
		if n.T.K != hs.KFloat {
			alts = append(alts, g.floatV())
		}
		if n.T.K != hs.KBool {
			alts = append(alts, g.boolV())
		}
		return alts[g.ch.Pick(len(alts), "from")], true
	case "conv:obj-to-anyobj":
		return g.looseObj(false), true
	case "conv:wrap":
		var raw hs.Value
		if o, ok := n.V.(hs.OptV); ok && o.Inner != nil {
			raw = o.Inner
		} else {
			raw = g.conforming(*n.T.Elem)
		}
		if raw.Kind() == hs.KOpt || raw.Kind() == hs.KNull {
			return nil, false
		}
		return raw, true
	case "conv:null-opt":
		return hs.NullV{}, true
	}
	return nil, false
}

// ---------------------------------------------------------------------------------------------
// pairs

type Pair struct {
	V     hs.WV
	T     hs.Type
	Class string     // what the generator intended: conforming | convertible | near:<kind> | random
	Path  []PathElem `json:",omitempty"` // position of the defect of a near miss
	Sole  bool       `json:",omitempty"` // the defect is the only deviation: without it the value has type T
}

type pairOpts struct {
	depth int
	tame  bool
	json  bool
}

func drawPair(ch chooser, o pairOpts) Pair {
	tg := &typeGen{ch: ch, json: o.json}
	vg := &valGen{ch: ch, tame: o.tame, json: o.json}
	t := tg.typ(o.depth)
	v := vg.conforming(t)
	p := Pair{T: t, Class: "conforming"}
	style := ch.Pick(11, "style")
	applyConv := func() {
		var ns []node
		nodes(v, t, nil, &ns)
		var elig []node
		for _, n := range ns {
			if len(convKinds(n.T)) > 0 {
				elig = append(elig, n)
			}
		}
		if len(elig) == 0 {
			return
		}
		n := elig[ch.Pick(len(elig), "convNode")]
		ks := convKinds(n.T)
		if nv, ok := vg.convertible(ks[ch.Pick(len(ks), "convKind")], n); ok {
			v = replaceAt(v, n.Path, nv)
			p.Class = "convertible"
		}
	}
	applyNear := func() {
		var ns []node
		nodes(v, t, nil, &ns)
		n := ns[ch.Pick(len(ns), "nearNode")]
		ks := nearKinds(n.T)
		if len(ks) == 0 {
			return
		}
		k := ks[ch.Pick(len(ks), "nearKind")]
		sole := hs.Conforms(v, t)
		if nv, path, ok := vg.nearMiss(k, n); ok {
			v = replaceAt(v, n.Path, nv)
			p.Class = "near:" + k
			p.Path = path
			p.Sole = sole
		}
	}
	// (rapid draws small numbers more often: the common styles come first)
	switch {
	case style >= 9: // conforming
	case style >= 5 && style <= 6:
		applyConv()
		if ch.Pick(2, "twice") == 1 {
			applyConv()
		}
	case style <= 4:
		applyNear()
	case style == 7:
		applyConv()
		wasConv := p.Class == "convertible"
		applyNear()
		if wasConv && len(p.Path) > 0 {
			// two deviations: which one a refusal reports is not determined
			p.Class = "conv+" + p.Class
			p.Path = nil
			p.Sole = false
		}
	default:
		t2 := (&typeGen{ch: ch, json: o.json, names: tg.names}).typ(o.depth)
		if ch.Pick(3, "sameNames") == 0 {
			// same field names, independently drawn structure below them
			t2 = (&typeGen{ch: ch, json: o.json}).typ(o.depth)
		}
		v = vg.conforming(t2)
		p.Class = "random"
	}
	p.V = hs.WV{V: v}
	return p
}

// tableTypes is the fixed set of target types of the exhaustive near-miss table.
func tableTypes() []hs.Type {
	f := func(n string, t hs.Type) hs.Field { return hs.Field{Name: n, T: t} }
	return []hs.Type{
		hs.TInt, hs.TFloat, hs.TBool, hs.TStr, hs.TNull, hs.TRange, hs.TAnyObj,
		hs.TList(hs.TInt),
		hs.TOpt(hs.TInt),
		hs.TOpt(hs.TStr),
		hs.TObj(f("zqa", hs.TInt), f("zqb", hs.TStr)),
		hs.TList(hs.TList(hs.TFloat)),
		hs.TList(hs.TObj(f("zqa", hs.TBool))),
		hs.TObj(f("zqa", hs.TList(hs.TStr)), f("zqb", hs.TOpt(hs.TInt))),
		hs.TOpt(hs.TList(hs.TInt)),
		hs.TOpt(hs.TObj(f("zqa", hs.TInt))),
		hs.TList(hs.TOpt(hs.TStr)),
		hs.TObj(f("zqa", hs.TObj(f("zqb", hs.TObj(f("zqc", hs.TInt)))))),
		hs.TObj(f("zqa", hs.TAnyObj), f("zqb", hs.TRange), f("zqc", hs.TNull)),
		hs.TOpt(hs.TOpt(hs.TInt)),
	}
}

// deepTypes: depth is not bounded by the property: chains far deeper than the random generator's 3-4 levels.
func deepTypes() []hs.Type {
	f := func(n string, t hs.Type) hs.Field { return hs.Field{Name: n, T: t} }
	return []hs.Type{
		deepChain(24, "list", hs.TInt),
		deepChain(40, "object", hs.TStr),
		deepChain(33, "mixed", hs.TObj(f("zqa", hs.TInt), f("zqb", hs.TOpt(hs.TFloat)))),
		deepChain(18, "mixed", hs.TList(hs.TBool)),
	}
}

// singlePath builds a conforming value with one element per list (a deep type with several elements per level would
// be exponentially large).
func singlePath(t hs.Type) hs.Value {
	switch t.K {
	case hs.KList:
		return &hs.ListV{Elems: []hs.Value{singlePath(*t.Elem)}}
	case hs.KOpt:
		return hs.OptV{Inner: singlePath(*t.Elem)}
	case hs.KObj:
		o := hs.NewObj(false)
		for _, fl := range t.Fields {
			o.Set(fl.Name, singlePath(fl.T))
		}
		return o
	case hs.KInt:
		return hs.IntV(7)
	case hs.KFloat:
		return hs.FloatV(2.5)
	case hs.KBool:
		return hs.BoolV(true)
	case hs.KStr:
		return hs.StrV("leaf")
	}
	panic("singlePath " + t.Src())
}

// deepChain wraps leaf into n levels of lists / one-field objects / (mixed: list, object, list of objects, option).
func deepChain(n int, kind string, leaf hs.Type) hs.Type {
	t := leaf
	for i := 0; i < n; i++ {
		switch {
		case kind == "list":
			t = hs.TList(t)
		case kind == "object":
			t = hs.TObj(hs.Field{Name: "zq" + string(rune('a'+i%3)), T: t})
		default:
			switch i % 4 {
			case 0:
				t = hs.TList(t)
			case 1:
				t = hs.TObj(hs.Field{Name: "zqn", T: t}, hs.Field{Name: "zqk", T: hs.TInt})
			case 2:
				t = hs.TList(t)
			default:
				if t.K != hs.KOpt {
					t = hs.TOpt(t)
				} else {
					t = hs.TList(t)
				}
			}
		}
	}
	return t
}
