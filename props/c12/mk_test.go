package c12

import (
	"encoding/json"
	"fmt"
	"os"
	"testing"

	"verif/hs"
	"verif/pk"
)

func save(t *testing.T, name string, c any, f *pk.Failure) {
	if f == nil {
		fmt.Printf("%s: PASSES (no failure)\n", name)
		return
	}
	cb, _ := json.Marshal(c)
	rf := pk.ReplayFile{Property: "C12", Sub: f.Sub, Sig: f.Sig, Msg: f.Msg, Case: cb}
	b, _ := json.MarshalIndent(rf, "", " ")
	os.WriteFile("/verif/findings/c12/"+name+".json", b, 0o644)
	fmt.Printf("%s: sub=%s sig=%q\n%s\n\n", name, f.Sub, f.Sig, f.Msg)
}

func TestMkFindings(t *testing.T) {
	fld := func(n string, ty hs.Type) hs.Field { return hs.Field{Name: n, T: ty} }
	w := func(v hs.Value) hs.WV { return hs.WV{V: v} }
	obj := func(any bool, kv ...any) *hs.ObjV {
		o := hs.NewObj(any)
		for i := 0; i < len(kv); i += 2 {
			o.Set(kv[i].(string), kv[i+1].(hs.Value))
		}
		return o
	}
	{
		c := APICase{Pair: Pair{V: w(hs.StrV("x")), T: hs.TOpt(hs.TInt), Class: "near:wrong-raw-for-opt"}, Lib: "vm", Allow: false}
		save(t, "001-option-target-wraps-unchecked", c, checkAPI(c))
	}
	{
		c := APICase{Pair: Pair{V: w(&hs.ListV{Elems: []hs.Value{hs.IntV(1), hs.IntV(2), hs.StrV("x")}}), T: hs.TList(hs.TInt), Class: "near:wrong-element", Path: []PathElem{{K: "index", Index: 2}}}, Lib: "vm", Allow: false}
		save(t, "002-vm-cast-path-index-rendered-as-dot", c, checkAPI(c))
	}
	{
		c := APICase{Pair: Pair{V: w(obj(true)), T: hs.TAnyObj, Class: "conforming"}, Lib: "tree", Allow: false}
		save(t, "003-tree-anyobj-to-anyobj-refused", c, checkAPI(c))
	}
	{
		c := APICase{Pair: Pair{V: w(obj(false, "zqa", hs.StrV("x"))), T: hs.TObj(fld("zqa", hs.TInt)), Class: "near:string-where-number", Path: []PathElem{{K: "field", Field: "zqa"}}}, Lib: "tree", Allow: false}
		save(t, "004-tree-cast-error-without-path", c, checkAPI(c))
	}
	{
		c := ProgCase{Pair: Pair{V: w(hs.StrV("x")), T: hs.TInt, Class: "near:string-where-number"}, Backend: "tree", Form: "as", Route: "host"}
		save(t, "005-tree-cast-error-not-catchable", c, checkProg(c))
	}
	{
		c := JSONCase{Pair: Pair{V: w(hs.StrV("x")), T: hs.TInt, Class: "near:string-where-number"}}
		save(t, "006-typeaware-unmarshal-validates-nothing", c, checkJSON(c))
	}
	{
		c := ProgCase{Pair: Pair{V: w(hs.NullV{}), T: hs.TNull, Class: "conforming"}, Backend: "vm", Form: "let", Route: "host"}
		save(t, "007-vm-builtin-null-result-not-pushed", c, checkProg(c))
	}
	{
		c := HostCase{Params: []hs.Type{hs.TOpt(hs.TInt)}, RetIdx: 0, Args: []hs.WV{w(hs.IntV(2))}, Ret: hs.TOpt(hs.TInt), Mode: "arg", Class: "convertible"}
		save(t, "008-spawn-passes-unconverted-arguments", c, checkHost(c))
	}
	{
		c := HostCase{Params: []hs.Type{hs.TAnyObj}, RetIdx: 0, Args: []hs.WV{w(obj(true, "zka", hs.IntV(1)))}, Ret: hs.TAnyObj, Mode: "arg", Class: "conforming"}
		save(t, "009-anyobj-return-type-unchecked-and-dropped", c, checkHost(c))
	}
	{
		c := HostCase{Params: []hs.Type{hs.TInt}, RetIdx: 0, Args: []hs.WV{w(hs.IntV(7))}, Ret: hs.TAnyObj, Mode: "ret", Class: "conforming"}
		save(t, "009b-anyobj-return-type-accepts-int", c, checkHost(c))
	}
	// further JSON symptoms of 006
	{
		c := JSONCase{Pair: Pair{V: w(obj(false)), T: hs.TObj(fld("zqa", hs.TInt)), Class: "near:missing-field", Path: []PathElem{{K: "field", Field: "zqa"}}}}
		save(t, "006b-typeaware-unmarshal-missing-field-becomes-none", c, checkJSON(c))
	}
}
