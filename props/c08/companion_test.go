package c08

import (
	"fmt"
	"strings"
	"testing"
	"unicode/utf8"

	"verif/pk"
	"verif/px"
	"verif/sb"
)

// Companion diagnostics: the hints and warnings that point at a SECOND place (the arm that makes another one
// unreachable, the previous definition of a name, the shadowed variable). "Lying within the construct that caused
// it" holds for them as for errors; the culprit table judges error-level diagnostics only. A row names the
// message (a substring), the level, the file, and the text the position must lie within (its n-th occurrence).

type companionRow struct {
	name, text, lib string
	level, message  string
	file, within    string
	occurrence      int // 0-based
}

type CompanionCase struct {
	Modules        map[string]string
	Entry, Rule    string
	Level, Message string
	File, Within   string
	Occurrence     int
}

func nthIndex(s, sub string, n int) int {
	off := 0
	for i := 0; ; i++ {
		j := strings.Index(s[off:], sub)
		if j < 0 {
			return -1
		}
		if i == n {
			return off + j
		}
		off += j + len(sub)
	}
}

func checkCompanion(c CompanionCase) *pk.Failure {
	resp := px.Pool().Exec(&sb.Request{Op: "analyze", Modules: c.Modules, Entry: c.Entry, WantRender: true})
	if f := px.SandboxFailure("companion", resp); f != nil {
		return nil // C05's subject
	}
	if resp.Inconclusive {
		pk.Inconclusive()
		return nil
	}
	if f := checkDiagSpans("companion", resp, c.Modules); f != nil {
		f.Msg += "\n" + modsText(c.Modules)
		return f
	}
	text := c.Modules[c.File]
	bi := nthIndex(text, c.Within, c.Occurrence)
	if bi < 0 {
		return pk.Failf("companion", "harness:text-not-found", "text %q (occurrence %d) not in file %s", c.Within, c.Occurrence, c.File)
	}
	lo := uint(utf8.RuneCountInString(text[:bi]))
	hi := lo + uint(utf8.RuneCountInString(c.Within)) - 1
	seen := 0
	for _, d := range resp.Diags {
		if d.Level != c.Level || !strings.Contains(d.Message, c.Message) {
			continue
		}
		seen++
		if d.Span.Filename != c.File || isWholeFile(d.Span) || d.Span.Start.Index < lo || d.Span.End.Index > hi {
			return pk.Failf("companion", "companion-elsewhere:"+c.Rule, "rule %s: the %s %q at %s does not lie within %q (runes %d..%d of %s)\n%s", c.Rule, c.Level, d.Message, fmtSpan(d.Span), c.Within, lo, hi, c.File, modsText(c.Modules))
		}
	}
	if seen == 0 {
		// which companions the analyzer issues is not the property's subject
		pk.Class("companion-not-issued:" + c.Rule)
		return nil
	}
	pk.Class("companion-placed")
	return nil
}

func init() { pk.Reg("companion", checkCompanion) }

func companionRows() []companionRow {
	const hintArm = "Any branches following this arm are unreachable"
	const warnArm = "This match-arm is unreachable"
	rows := []companionRow{}
	// the default arm at every position of a match with 2..4 literal arms, as statement and as value
	for n := 2; n <= 4; n++ {
		for at := 0; at < n; at++ {
			var arms []string
			for i := 0; i < n; i++ {
				if i == at {
					arms = append(arms, "_ => 900,")
				}
				arms = append(arms, fmt.Sprintf("%d => %d,", i+1, (i+1)*10))
			}
			body := "match x {\n        " + strings.Join(arms, "\n        ") + "\n    }"
			for _, form := range []struct{ name, text string }{
				{"value", "fn main() {\n    let x = 2;\n    let r = " + body + ";\n    println(r);\n}\n"},
				{"statement", "fn main() {\n    let x = 2;\n    " + body + ";\n    println(x);\n}\n"},
				{"nested", "fn main() {\n    let x = 2;\n    let r = match x {\n    7 => 1,\n    _ => " + body + ",\n    };\n    println(r);\n}\n"},
			} {
				tag := fmt.Sprintf("%d-arms-default-at-%d-%s", n, at, form.name)
				rows = append(rows,
					companionRow{name: "default-arm-hint:" + tag, text: form.text, level: "hint", message: hintArm, file: "main", within: "_ => 900,"},
					companionRow{name: "unreachable-arm-warning:" + tag, text: form.text, level: "warning", message: warnArm, file: "main", within: fmt.Sprintf("%d => %d,", at+1, (at+1)*10)},
				)
			}
		}
	}
	rows = append(rows,
		companionRow{name: "previous-function", text: "fn f() {}\nfn g() {}\nfn f() {}\nfn main() { f(); g(); }\n", level: "hint", message: "previously defined here", file: "main", within: "fn f() {}", occurrence: 0},
		companionRow{name: "previous-function-far", text: "fn f() {}\nfn g() {}\nfn h() {}\nfn f() {}\nfn main() { f(); g(); h(); }\n", level: "hint", message: "previously defined here", file: "main", within: "fn f() {}", occurrence: 0},
		companionRow{name: "previous-global", text: "let a = 1;\nlet b = 2;\nlet a = 3;\nfn main() { println(a, b); }\n", level: "hint", message: "Previous definition of global", file: "main", within: "let a = 1;"},
		companionRow{name: "previous-global-far", text: "let a = 1;\nlet b = 2;\nlet c = 2;\nlet a = 3;\nfn main() { println(a, b, c); }\n", level: "hint", message: "Previous definition of global", file: "main", within: "let a = 1;"},
		companionRow{name: "function-defined-here", text: "fn f() -> int { 1 }\nfn g() {}\nlet f = 5;\nfn main() { g(); }\n", level: "hint", message: "defined here", file: "main", within: "fn f() -> int { 1 }"},
		companionRow{name: "imported-here", lib: "pub fn f() {}\npub fn g() {}\nfn main() {}\n", text: "import f from lib;\nimport g from lib;\nfn f() {}\nfn main() { f(); g(); }\n", level: "hint", message: "imported here", file: "main", within: "import f from lib;"},
		companionRow{name: "shadowed-here", text: "fn main() {\n    let a = 1;\n    let b = 2;\n    let a = 3;\n    println(a, b);\n}\n", level: "hint", message: "shadowed here", file: "main", within: "let a = 3;"},
		companionRow{name: "unused-shadowed-variable", text: "fn main() {\n    let a = 1;\n    let b = 2;\n    let a = 3;\n    println(a, b);\n}\n", level: "warning", message: "Unused variable 'a'", file: "main", within: "let a = 1;"},
		companionRow{name: "not-pub-function", lib: "fn hidden() {}\npub fn shown() {}\nfn main() {}\n", text: "import { shown, hidden } from lib;\nfn main() { shown(); hidden(); }\n", level: "hint", message: "not declared as 'pub'", file: "lib", within: "fn hidden() {}"},
		companionRow{name: "not-pub-global", lib: "let hidden = 1;\npub let shown = 2;\nfn main() {}\n", text: "import { shown, hidden } from lib;\nfn main() { println(shown, hidden); }\n", level: "hint", message: "not declared as 'pub'", file: "lib", within: "let hidden = 1;"},
		companionRow{name: "not-pub-type", lib: "type Hidden = int;\npub type Shown = int;\nfn main() {}\n", text: "import { type Shown, type Hidden } from lib;\nfn main() { let a: Shown = 1; let b: Hidden = 2; println(a, b); }\n", level: "hint", message: "not declared as 'pub'", file: "lib", within: "type Hidden = int;"},
		companionRow{name: "unused-function", text: "fn f() {}\nfn unused_one() {}\nfn main() { f(); }\n", level: "warning", message: "is never used", file: "main", within: "fn unused_one() {}"},
		companionRow{name: "unused-parameter", text: "fn f(a: int, unused_p: int) -> int { a }\nfn main() { println(f(1, 2)); }\n", level: "warning", message: "'unused_p'", file: "main", within: "unused_p: int"},
		companionRow{name: "unused-variable", text: "fn main() {\n    let a = 1;\n    let unused_v = 2;\n    println(a);\n}\n", level: "warning", message: "'unused_v'", file: "main", within: "let unused_v = 2;"},
		companionRow{name: "unused-global", text: "let a = 1;\nlet unused_g = 2;\nfn main() { println(a); }\n", level: "warning", message: "'unused_g'", file: "main", within: "let unused_g = 2;"},
		companionRow{name: "unused-singleton", text: "$S = { n: int };\n$Unused = { m: int };\nfn f(s: $S) { println(s.n); }\nfn main() { f(); }\n", level: "warning", message: "'$Unused'", file: "main", within: "$Unused = { m: int };"},
		companionRow{name: "unused-import", lib: "pub fn f() {}\npub fn unused_i() {}\nfn main() {}\n", text: "import { f, unused_i } from lib;\nfn main() { f(); }\n", level: "warning", message: "'unused_i'", file: "main", within: "import { f, unused_i } from lib;"},
	)
	return rows
}

func TestTableCompanions(t *testing.T) {
	pk.SkipIfReplay(t)
	col := pk.NewCollector()
	rows := companionRows()
	cases := make([]CompanionCase, len(rows))
	res := make([]*pk.Failure, len(rows))
	px.Parallel(len(rows), func(i int) {
		if !pk.Mine(i) {
			return
		}
		r := rows[i]
		mods := map[string]string{"main": r.text}
		if r.lib != "" {
			mods["lib"] = r.lib
		}
		pk.Eval()
		pk.NonTrivial(r.name, map[string]any{"rule": r.name})
		cases[i] = CompanionCase{Modules: mods, Entry: "main", Rule: r.name, Level: r.level, Message: r.message, File: r.file, Within: r.within, Occurrence: r.occurrence}
		res[i] = checkCompanion(cases[i])
	})
	for i := range rows {
		if pk.Mine(i) {
			col.Report(cases[i], res[i])
		}
	}
	pk.Extra("companion-rows", len(rows))
	pk.Exhaustive("table-companions")
	col.Done(t)
}
