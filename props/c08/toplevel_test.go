package c08

import (
	"fmt"
	"testing"

	"verif/pk"
	"verif/px"
)

// Faults OUTSIDE function bodies: names defined twice at the top level of a module, in every pairing of the things
// that share the module's name space (globals, functions, imports, builtins, types, singletons). The analyzer
// answers most of them with an error on the second definition plus a HINT at the first one - and the first one
// may be something that has no position at all (a builtin). Every diagnostic of every level must name a location
// in a file that exists (checkDiagSpans) and, where a culprit is given, an error must lie within it.

var builtinNames = []string{"println", "print", "log", "fmt", "time", "debug", "assert", "throw"}

type topFault struct {
	name, text, lib, bad string
}

func topFaults() []topFault {
	const lib = "pub fn f() -> str { \"abc\" }\npub let v = 2;\npub type T = int;\nfn main() {}\n"
	rows := []topFault{
		{name: "global-twice", text: "let a = 1;\nlet a = 2;\nfn main() { println(a); }\n"},
		{name: "pub-global-twice", text: "pub let a = 1;\npub let a = 2;\nfn main() { println(a); }\n"},
		{name: "function-twice", text: "fn f() {}\nfn f() {}\nfn main() { f(); }\n"},
		{name: "global-then-function", text: "let f = 5;\nfn f() -> int { 1 }\nfn main() { println(f); }\n"},
		{name: "function-then-global", text: "fn f() -> int { 1 }\nlet f = 5;\nfn main() { println(1); }\n"},
		{name: "import-then-global", lib: lib, text: "import f from lib;\nlet f = 1;\nfn main() { println(f); }\n"},
		{name: "import-then-function", lib: lib, text: "import f from lib;\nfn f() -> int { 1 }\nfn main() { println(f()); }\n"},
		{name: "imported-global-then-global", lib: lib, text: "import v from lib;\nlet v = 1;\nfn main() { println(v); }\n"},
		{name: "imported-global-then-function", lib: lib, text: "import v from lib;\nfn v() -> int { 1 }\nfn main() { println(v); }\n"},
		{name: "import-twice", lib: lib, text: "import f from lib;\nimport f from lib;\nfn main() { println(f()); }\n"},
		{name: "import-twice-in-one-list", lib: lib, text: "import { f, f } from lib;\nfn main() { println(f()); }\n"},
		{name: "type-twice", text: "type A = int;\ntype A = str;\nfn main() { let x: A = 1; println(x); }\n"},
		{name: "type-import-then-type", lib: lib, text: "import type T from lib;\ntype T = str;\nfn main() { println(1); }\n"},
		{name: "type-import-twice", lib: lib, text: "import { type T, type T } from lib;\nfn main() { println(1); }\n"},
		{name: "singleton-twice", text: "$S = { n: int };\n$S = { m: int };\nfn main() { println(1); }\n"},
		{name: "main-twice", text: "fn main() {}\nfn main() {}\n"},
		{name: "trigger-import-twice", text: "import { trigger minute, trigger minute } from triggers;\nfn cb() {}\nfn main() { trigger cb at minute(1); }\n"},
		{name: "trigger-import-then-function", text: "import trigger minute from triggers;\nfn minute() {}\nfn main() { minute(); }\n"},
		{name: "parameter-twice", text: "fn f(a: int, a: int) -> int { a }\nfn main() { println(f(1, 2)); }\n"},
		{name: "field-twice-in-type", text: "type O = { a: int, a: str };\nfn main() { println(1); }\n"},
		{name: "unknown-type-in-global", text: "let a: Nope = 1;\nfn main() { println(a); }\n", bad: "Nope"},
		{name: "unknown-type-in-type", text: "type A = [Nope];\nfn main() { println(1); }\n", bad: "Nope"},
		{name: "unknown-type-in-singleton", text: "$S = { n: Nope };\nfn main() { println(1); }\n", bad: "Nope"},
		{name: "unknown-type-as-singleton", text: "$S = s;\nfn main() { println(1); }\n", bad: "s;"},
		{name: "unknown-type-as-unused-singleton-in-module", lib: "$S = s;\npub fn f() {}\nfn main() {}\n", text: "import f from lib;\nfn main() { f(); }\n"},
		{name: "unknown-type-in-parameter", text: "fn f(a: Nope) {}\nfn main() { println(1); }\n", bad: "Nope"},
		{name: "unknown-type-in-return", text: "fn f() -> Nope { 1 }\nfn main() { println(1); }\n", bad: "Nope"},
		{name: "unknown-module", text: "import f from nosuch;\nfn main() { println(1); }\n"},
		{name: "unknown-import", lib: lib, text: "import nosuch from lib;\nfn main() { println(1); }\n", bad: "nosuch"},
		{name: "unknown-type-import", lib: lib, text: "import type Nosuch from lib;\nfn main() { println(1); }\n", bad: "type Nosuch"},
		{name: "private-import", lib: "fn hidden() {}\nfn main() {}\n", text: "import hidden from lib;\nfn main() { hidden(); }\n", bad: "hidden"},
		{name: "global-type-mismatch", text: "let a: int = \"s\";\nfn main() { println(a); }\n"},
		{name: "global-uses-later-global", text: "let a = b;\nlet b = 1;\nfn main() { println(a, b); }\n"},
	}
	for _, b := range builtinNames {
		rows = append(rows,
			topFault{name: "global-like-builtin:" + b, text: fmt.Sprintf("let %s = 3;\nfn main() { }\n", b), bad: b},
			topFault{name: "pub-global-like-builtin:" + b, text: fmt.Sprintf("pub let %s = 3;\nfn main() { }\n", b), bad: b},
			topFault{name: "used-global-like-builtin:" + b, text: fmt.Sprintf("let %s = 3;\nfn main() { let x = %s; }\n", b, b)},
			topFault{name: "function-like-builtin:" + b, text: fmt.Sprintf("fn %s(x: int) -> int { x }\nfn main() { }\n", b)},
			topFault{name: "import-like-builtin:" + b, lib: fmt.Sprintf("pub fn %s() {}\nfn main() {}\n", b), text: fmt.Sprintf("import %s from lib;\nfn main() { }\n", b)},
			topFault{name: "type-like-builtin:" + b, text: fmt.Sprintf("type %s = int;\nfn main() { let x: %s = 1; println(x); }\n", b, b)},
			topFault{name: "singleton-like-builtin:" + b, text: fmt.Sprintf("$%s = { n: int };\nfn main() { }\n", b)},
			topFault{name: "local-like-builtin:" + b, text: fmt.Sprintf("fn main() { let %s = 3; let %s = 4; }\n", b, b)},
			topFault{name: "parameter-like-builtin:" + b, text: fmt.Sprintf("fn f(%s: int) {}\nfn main() { f(1); }\n", b)},
		)
	}
	return rows
}

func TestTableTopLevelFaults(t *testing.T) {
	pk.SkipIfReplay(t)
	col := pk.NewCollector()
	rows := topFaults()
	cases := make([]any, len(rows))
	res := make([]*pk.Failure, len(rows))
	px.Parallel(len(rows), func(i int) {
		if !pk.Mine(i) {
			return
		}
		r := rows[i]
		mods := map[string]string{"main": r.text}
		if r.lib != "" {
			mods["lib"] = r.lib
		}
		pk.Eval()
		pk.Class("top-level-fault")
		pk.NonTrivial(r.name, map[string]any{"rule": r.name})
		if r.bad != "" {
			cc := CulpritCase{Modules: mods, Entry: "main", File: "main", Bad: r.bad, Rule: "top:" + r.name, Context: "top-level"}
			cases[i], res[i] = cc, checkCulprit(cc)
			return
		}
		// no culprit named: positions only
		tc := TextCase{Modules: mods, Entry: "main", Note: "top:" + r.name}
		cases[i], res[i] = tc, checkText(tc)
	})
	for i := range rows {
		if pk.Mine(i) {
			col.Report(cases[i], res[i])
		}
	}
	pk.Extra("top-level-fault-rows", len(rows))
	pk.Exhaustive("table-top-level-faults")
	col.Done(t)
}
