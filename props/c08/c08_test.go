package c08

import (
	"fmt"
	"strings"
	"sync"
	"testing"
	"unicode/utf8"

	"pgregory.net/rapid"

	"verif/gen"
	"verif/pairs"
	"verif/pk"
	"verif/px"
	"verif/sb"
)

func TestMain(m *testing.M) { pk.Main(m) }

// ---------------------------------------------------------------------------------------------
// span validity

type textIndex struct {
	runes []rune
	line  []uint // line of rune i (1-based); entry len(runes) = position just behind the text
	col   []uint
}

func indexText(s string) *textIndex {
	t := &textIndex{runes: []rune(s)}
	l, c := uint(1), uint(1)
	for _, r := range t.runes {
		t.line = append(t.line, l)
		t.col = append(t.col, c)
		if r == '\n' {
			l++
			c = 1
		} else {
			c++
		}
	}
	t.line = append(t.line, l)
	t.col = append(t.col, c)
	return t
}

func isWholeFile(s sb.Span) bool {
	return s.Start == (sb.Pos{}) && s.End == (sb.Pos{})
}

// validSpan returns "" or a short reason class and a message.
func validSpan(s sb.Span, texts map[string]string) (string, string) {
	text, ok := texts[s.Filename]
	if !ok {
		return "unknown-file", fmt.Sprintf("span names file %q which is neither the entry nor a served module", s.Filename)
	}
	if isWholeFile(s) {
		return "", ""
	}
	t := indexText(text)
	n := uint(len(t.runes))
	for _, p := range []struct {
		name string
		pos  sb.Pos
	}{{"start", s.Start}, {"end", s.End}} {
		if p.pos.Index > n {
			return p.name + "-past-text", fmt.Sprintf("%s index %d lies behind the text (%d runes)", p.name, p.pos.Index, n)
		}
		if p.pos.Line < 1 {
			return p.name + "-line-zero", fmt.Sprintf("%s line %d", p.name, p.pos.Line)
		}
		if t.line[p.pos.Index] != p.pos.Line || t.col[p.pos.Index] != p.pos.Column {
			return p.name + "-linecol-mismatch", fmt.Sprintf("%s says line %d column %d index %d, but rune %d is at line %d column %d", p.name, p.pos.Line, p.pos.Column, p.pos.Index, p.pos.Index, t.line[p.pos.Index], t.col[p.pos.Index])
		}
	}
	if s.Start.Index > s.End.Index {
		return "start-after-end", fmt.Sprintf("start index %d after end index %d", s.Start.Index, s.End.Index)
	}
	return "", ""
}

func fmtSpan(s sb.Span) string {
	return fmt.Sprintf("%s:%d:%d(#%d)-%d:%d(#%d)", s.Filename, s.Start.Line, s.Start.Column, s.Start.Index, s.End.Line, s.End.Column, s.End.Index)
}

// checkDiagSpans validates every syntax error / diagnostic of a response.
func checkDiagSpans(sub string, resp *sb.Response, texts map[string]string) *pk.Failure {
	all := append(append([]sb.Diag{}, resp.SyntaxErrors...), resp.Diags...)
	for _, d := range all {
		pk.Extra("spans-checked", 1)
		if cls, msg := validSpan(d.Span, texts); cls != "" {
			return pk.Failf(sub, "span:"+d.Level+":"+cls, "%s %q has an invalid position %s: %s", d.Level, d.Message, fmtSpan(d.Span), msg)
		}
		if _, known := texts[d.Span.Filename]; known && !d.DisplayOK {
			return pk.Failf(sub, "render:"+d.Level, "rendering %s %q at %s against the text of %q failed: %s", d.Level, d.Message, fmtSpan(d.Span), d.Span.Filename, d.DisplayErr)
		}
		if isWholeFile(d.Span) {
			pk.Class("whole-file-position")
		}
		if d.Span.Start.Line != d.Span.End.Line {
			pk.Class("multi-line-span")
		}
	}
	return nil
}

// ---------------------------------------------------------------------------------------------
// (a) syntax errors and diagnostics of damaged programs

type TextCase struct {
	Modules map[string]string
	Entry   string
	Note    string
}

func checkText(c TextCase) *pk.Failure {
	req := &sb.Request{Op: "analyze", Modules: c.Modules, Entry: c.Entry, WantRender: true}
	resp := px.Pool().Exec(req)
	if resp.Crash != "" || resp.Hang {
		pk.Class("crash-or-hang(C05 subject)")
		return nil // totality is C05's subject
	}
	if resp.Inconclusive {
		pk.Inconclusive()
		return nil
	}
	if f := checkDiagSpans("text", resp, c.Modules); f != nil {
		f.Msg += "\n--- " + c.Note + "\n" + modsText(c.Modules)
		return f
	}
	return nil
}

func modsText(m map[string]string) string {
	var b strings.Builder
	for n, t := range m {
		fmt.Fprintf(&b, "// module %s\n%s\n", n, t)
	}
	return b.String()
}

var hostile = []string{"", ";", "{", "}", "(", ")", "\"", "'", "/*", "fn", "let", "=", "é", "\n", "$", "#", "@", "1f", "..", "match", "as",
	"\r", "\r\n", "\t", " \r ", "// 日本語 😀\n", "\"ｗｉｄｅ 한글\"", "\u2028", "\v", "\f", "\u00a0"}

func damage(rt *rapid.T, text string) (string, string) {
	rs := []rune(text)
	if len(rs) == 0 {
		return text, "empty"
	}
	switch rapid.IntRange(0, 6).Draw(rt, "damage") {
	case 6:
		// layout characters: the positions of everything behind them must still be those of the text. A line break
		// is "\n" (that is what the renderers split at); "\r" alone, tabs and wide characters are ordinary characters.
		switch rapid.IntRange(0, 3).Draw(rt, "layout") {
		case 0:
			return strings.ReplaceAll(text, "\n", "\r\n"), "layout-crlf"
		case 1:
			// lone carriage returns behind some of the spaces
			out := []rune{}
			for _, r := range rs {
				out = append(out, r)
				if r == ' ' && rapid.IntRange(0, 9).Draw(rt, "cr") == 0 {
					out = append(out, '\r')
				}
			}
			return string(out), "layout-lone-cr"
		case 2:
			return "let wide_s = \"日本語 ｗｉｄｅ 😀 한글\"; // 漢字 😀😀\n/* 日本 */ " + text, "layout-wide-chars"
		default:
			return strings.ReplaceAll(text, "    ", "\t"), "layout-tabs"
		}
	case 0:
		k := rapid.IntRange(0, len(rs)).Draw(rt, "cut")
		return string(rs[:k]), "truncate"
	case 1:
		a := rapid.IntRange(0, len(rs)-1).Draw(rt, "delFrom")
		n := rapid.IntRange(1, 12).Draw(rt, "delLen")
		if a+n > len(rs) {
			n = len(rs) - a
		}
		return string(rs[:a]) + string(rs[a+n:]), "delete"
	case 2:
		a := rapid.IntRange(0, len(rs)).Draw(rt, "insAt")
		h := hostile[rapid.IntRange(0, len(hostile)-1).Draw(rt, "hostile")]
		return string(rs[:a]) + h + string(rs[a:]), "insert"
	case 3:
		a := rapid.IntRange(0, len(rs)-1).Draw(rt, "dupFrom")
		n := rapid.IntRange(1, 20).Draw(rt, "dupLen")
		if a+n > len(rs) {
			n = len(rs) - a
		}
		return string(rs[:a+n]) + string(rs[a:a+n]) + string(rs[a+n:]), "duplicate"
	case 4:
		// unterminated multi-line construct at the end
		tails := []string{"\n/* never closed\n\n", "\nlet s = \"never closed\n\n", "\nfn f(", "\nlet x = [1, 2,\n\n", "\n// é comment only"}
		return text + tails[rapid.IntRange(0, len(tails)-1).Draw(rt, "tail")], "eof-construct"
	default:
		// non-ASCII line in front: rune index != byte index from here on
		return "// ääöö 日本語 𝄞𝄞\n" + text, "unicode-prefix"
	}
}

func TestDamagedPrograms(t *testing.T) {
	pk.SkipIfReplay(t)
	cfg := gen.ModelCfg()
	cfg.Unicode = true
	rapid.Check(t, func(rt *rapid.T) {
		g := gen.Program(rt, cfg)
		c := px.FromGenerated(g)
		text := c.Modules["main"]
		note := ""
		n := rapid.IntRange(1, 3).Draw(rt, "nDamage")
		for i := 0; i < n; i++ {
			var k string
			text, k = damage(rt, text)
			note += k + " "
		}
		tc := TextCase{Entry: "main", Note: note}
		asModule := rapid.Bool().Draw(rt, "asImportedModule")
		if asModule {
			tc.Modules = map[string]string{"main": "import { f } from m;\nfn main() { f(); }\n", "m": text}
			pk.Class("as-imported-module")
		} else {
			tc.Modules = map[string]string{"main": text}
		}
		pk.Eval()
		pk.Class("damage:" + strings.Fields(note)[0])
		pk.NonTrivial(text, map[string]any{"damage": note, "text": clip(text, 300)})
		pk.Judge(rt, tc, checkText(tc))
	})
}

func clip(s string, n int) string {
	if len(s) > n {
		return s[:n] + "…"
	}
	return s
}

// ---------------------------------------------------------------------------------------------
// (b) diagnostics must point at the culprit: single-fault programs with a known culprit range

type CulpritCase struct {
	Modules map[string]string
	Entry   string
	File    string // file that holds the culprit
	Bad     string // the culprit text (first occurrence in File)
	Rule    string
	Context string
}

func checkCulprit(c CulpritCase) *pk.Failure {
	req := &sb.Request{Op: "analyze", Modules: c.Modules, Entry: c.Entry, WantRender: true}
	resp := px.Pool().Exec(req)
	if f := px.SandboxFailure("culprit", resp); f != nil {
		return nil // C05's subject
	}
	if f := checkDiagSpans("culprit", resp, c.Modules); f != nil {
		f.Msg += "\n" + modsText(c.Modules)
		return f
	}
	errs := resp.ErrorDiags()
	if len(errs) == 0 {
		pk.Class("no-error-diagnostic(C03 subject)")
		return nil
	}
	text := c.Modules[c.File]
	bi := strings.Index(text, c.Bad)
	if bi < 0 {
		return pk.Failf("culprit", "harness:culprit-not-found", "culprit text %q not in file", c.Bad)
	}
	lo := uint(utf8.RuneCountInString(text[:bi]))
	hi := lo + uint(utf8.RuneCountInString(c.Bad)) - 1
	for _, d := range errs {
		if d.Span.Filename == c.File && !isWholeFile(d.Span) && d.Span.Start.Index <= hi && d.Span.End.Index >= lo {
			// "lying within the construct that caused it": the span may be the culprit or a part of it, it does
			// not run on into what follows the culprit
			if d.Span.Start.Index < lo || d.Span.End.Index > hi {
				return pk.Failf("culprit", "culprit-overrun:"+c.Rule, "rule %s in %s: the diagnostic %q at %s is not within the culprit %q (runes %d..%d of %s)\n%s", c.Rule, c.Context, d.Message, fmtSpan(d.Span), c.Bad, lo, hi, c.File, modsText(c.Modules))
			}
			return nil
		}
	}
	var b strings.Builder
	for _, d := range errs {
		fmt.Fprintf(&b, "  %s at %s\n", d.Message, fmtSpan(d.Span))
	}
	return pk.Failf("culprit", "culprit-missed:"+c.Rule, "rule %s in %s: no error-level diagnostic intersects the culprit %q (runes %d..%d of %s)\n%s%s", c.Rule, c.Context, c.Bad, lo, hi, c.File, b.String(), modsText(c.Modules))
}

type rule struct{ name, bad string }

var rules = []rule{
	{"operand-int-str", `1 + "a"`}, {"operand-bool-int", `true & 1`}, {"prefix-neg-str", `-"a"`},
	{"argument-type", `takes_int("s")`}, {"arity-too-many", `takes_int(1, 2)`}, {"arity-too-few", `takes_int()`},
	{"condition-if", `if 1 { println(1); }`}, {"iterator-int", `for i in 5 { println(i); }`},
	{"unknown-identifier", `nope + 1`}, {"unknown-function", `nope_fn()`}, {"unknown-member", `"s".nope()`},
	{"unknown-type", `let v: Nope = 1;`}, {"break-outside-loop", `break;`}, {"list-literal-mixed", `[1, "s"]`},
	{"index-non-int", `[1]["a"]`}, {"branch-if-else", `if true { 1 } else { "s" }`}, {"match-arms", `match 1 { 1 => 1, _ => "s" }`},
	// a mismatch BELOW the top of two types (the inner type of an option, the element type of a list, a field): the
	// position is at the use, not at the place where the offending value got its type
	{"option-inner-mismatch", `let bad_o: ?str = oo;`}, {"list-element-mismatch", `let bad_l: [str] = ll;`}, {"object-field-mismatch", `let bad_f: { x: str } = ff;`},
	{"nested-option-mismatch", `let bad_n: [?str] = lo;`}, {"option-argument-mismatch", `takes_opt(oo)`}, {"option-return-mismatch", `let bad_r: ?str = gives_opt();`},
	{"unknown-singleton", `$Nope`}, {"assignment-type", `vv = "s"`}, {"cast-impossible", `"s" as [int]`}, {"implicit-any", `let q = "1".parse_json();`},
}

type ctx struct {
	name string
	wrap func(string) string
}

func stmtOf(bad string) string {
	if strings.HasSuffix(bad, ";") || strings.HasSuffix(bad, "}") {
		return bad
	}
	return "let r_ = " + bad + "; println(r_);"
}

var ctxs = []ctx{
	{"fn-body", func(s string) string { return s }},
	{"nested-block", func(s string) string { return "{\n        " + s + "\n    }" }},
	{"loop-body", func(s string) string { return "for it in 0..1 {\n        " + s + "\n    }" }},
	{"lambda-body", func(s string) string { return "let lam = fn() {\n        " + s + "\n    };\n    lam();" }},
	{"match-arm", func(s string) string {
		return "match 1 {\n        1 => {\n            " + s + "\n        }\n        _ => { println(0); }\n    }"
	}},
	{"try-body", func(s string) string {
		return "try {\n        " + s + "\n    } catch e {\n        println(e.message);\n    }"
	}},
	{"after-unicode-line", func(s string) string { return "println(\"ääö 日本 𝄞\"); // é\n    " + s }},
	{"multi-line-call", func(s string) string { return "println(\n        1,\n        2\n    );\n    " + s }},
}

const helpers = "fn takes_int(x: int) -> int { x }\nfn takes_opt(x: ?str) -> int { 1 }\nfn gives_opt() -> ?int { ?1 }\n"

func TestTableCulprits(t *testing.T) {
	pk.SkipIfReplay(t)
	col := pk.NewCollector()
	var wg sync.WaitGroup
	sem := make(chan struct{}, 24)
	k := 0
	for _, r := range rules {
		for _, c := range ctxs {
			if r.name == "break-outside-loop" && c.name == "loop-body" {
				continue
			}
			for _, inModule := range []bool{false, true} {
				k++
				if !pk.Mine(k) {
					continue
				}
				wg.Add(1)
				sem <- struct{}{}
				go func(r rule, c ctx, inModule bool) {
					defer wg.Done()
					defer func() { <-sem }()
					body := "let vv = 1;\n    let oo: ?int = ?1;\n    let ll: [int] = [1];\n    let ff: { x: int } = new { x: 1 };\n    let lo: [?int] = [?1];\n    println(oo, ll, ff, lo);\n    " + c.wrap(stmtOf(r.bad))
					var cc CulpritCase
					if inModule {
						cc = CulpritCase{Entry: "main", File: "m", Bad: r.bad, Rule: r.name, Context: c.name + "/imported",
							Modules: map[string]string{"main": "import { f } from m;\nfn main() { f(); }\n", "m": helpers + "pub fn f() {\n    " + body + "\n}\nfn main() {}\n"}}
					} else {
						cc = CulpritCase{Entry: "main", File: "main", Bad: r.bad, Rule: r.name, Context: c.name,
							Modules: map[string]string{"main": helpers + "fn main() {\n    " + body + "\n}\n"}}
					}
					pk.Eval()
					pk.Class("rule:" + r.name)
					pk.NonTrivial(r.name+c.name+fmt.Sprint(inModule), map[string]any{"rule": r.name, "context": cc.Context})
					col.Report(cc, checkCulprit(cc))
				}(r, c, inModule)
			}
		}
	}
	wg.Wait()
	col.Done(t)
	pk.Exhaustive("rule-x-context-culprits")
}

// ---------------------------------------------------------------------------------------------
// (c)+(d) runtime positions: caught exception objects and interrupt spans

type RuntimeCase struct {
	Modules map[string]string
	Entry   string
	Backend string
	File    string // file holding the failing construct
	Site    string // text of the failing construct (first occurrence in File)
	Mode    string // caught | uncaught | fatal
	Note    string
}

func siteRange(text, site string) (lo, hi uint, startLine, endLine uint, ok bool) {
	bi := strings.Index(text, site)
	if bi < 0 {
		return 0, 0, 0, 0, false
	}
	lo = uint(utf8.RuneCountInString(text[:bi]))
	hi = lo + uint(utf8.RuneCountInString(site)) - 1
	t := indexText(text)
	return lo, hi, t.line[lo], t.line[hi], true
}

func checkRuntime(c RuntimeCase) *pk.Failure {
	req := &sb.Request{Op: "run", Modules: c.Modules, Entry: c.Entry, Backends: []string{c.Backend}, Limits: sb.DefaultLimits(), PollCap: 2_000_000}
	resp := px.Pool().Exec(req)
	id := fmt.Sprintf("%s (%s, %s)", c.Note, c.Mode, c.Backend)
	if f := px.SandboxFailure("runtime", resp); f != nil {
		f.Msg = id + "\n" + modsText(c.Modules) + f.Msg
		return f
	}
	if !resp.Accepted {
		return pk.Failf("runtime", "harness:rejected", "%s: template rejected: %+v %+v\n%s", id, resp.SyntaxErrors, resp.ErrorDiags(), modsText(c.Modules))
	}
	r := resp.Run(c.Backend)
	text := c.Modules[c.File]
	lo, hi, l0, l1, ok := siteRange(text, c.Site)
	if !ok {
		return pk.Failf("runtime", "harness:site-not-found", "site %q not in %s", c.Site, c.File)
	}
	t := indexText(text)
	switch c.Mode {
	case "caught":
		// the program prints "POS <line> <column> <filename>" from the caught object
		var line, colm uint
		var file string
		found := false
		for _, w := range r.Writes {
			if strings.HasPrefix(w, "POS ") {
				fmt.Sscanf(w, "POS %d %d %s", &line, &colm, &file)
				found = true
			}
		}
		if !found && r.Outcome.Class == "fatal" && r.Outcome.Kind != "UncaughtThrow" {
			// whether this failure is catchable is not C08's subject (the backends differ for
			// unwrap of none): the position of the fatal interrupt is checked instead
			pk.Class("catchable-reported-as-fatal")
			c.Mode = "fatal"
			return checkRuntimeSpan(c, r, id, lo, hi)
		}
		if !found {
			return pk.Failf("runtime", c.Backend+" caught:no-position-output", "%s: the handler did not run (outcome %+v, output %q)\n%s", id, r.Outcome, strings.Join(r.Writes, ""), modsText(c.Modules))
		}
		pk.Extra("positions-checked", 1)
		if file != c.File {
			return pk.Failf("runtime", c.Backend+" caught:filename", "%s: caught object says filename %q, the throw is in %q\n%s", id, file, c.File, modsText(c.Modules))
		}
		if line < l0 || line > l1 {
			return pk.Failf("runtime", c.Backend+" caught:line", "%s: caught object says line %d column %d, the failing construct %q spans lines %d..%d\n%s", id, line, colm, c.Site, l0, l1, modsText(c.Modules))
		}
		// column must lie inside the construct on that line
		inside := false
		for i := lo; i <= hi; i++ {
			if t.line[i] == line && t.col[i] == colm {
				inside = true
			}
		}
		if !inside {
			return pk.Failf("runtime", c.Backend+" caught:column", "%s: caught object says line %d column %d which is outside the failing construct %q\n%s", id, line, colm, c.Site, modsText(c.Modules))
		}
	case "uncaught", "fatal":
		return checkRuntimeSpan(c, r, id, lo, hi)
	}
	return nil
}

func checkRuntimeSpan(c RuntimeCase, r *sb.RunResult, id string, lo, hi uint) *pk.Failure {
	{
		if r.Outcome.Class != "fatal" {
			return pk.Failf("runtime", "harness:outcome", "%s: expected a fatal outcome, got %+v\n%s", id, r.Outcome, modsText(c.Modules))
		}
		if !r.Outcome.HasSpan {
			return pk.Failf("runtime", c.Backend+" interrupt:no-span", "%s: GetSpan() of the interrupt panicked", id)
		}
		s := r.Outcome.Span
		pk.Extra("positions-checked", 1)
		if cls, msg := validSpan(s, c.Modules); cls != "" {
			return pk.Failf("runtime", c.Backend+" interrupt-span:"+cls, "%s: interrupt span %s is invalid: %s\n%s", id, fmtSpan(s), msg, modsText(c.Modules))
		}
		if isWholeFile(s) {
			return nil
		}
		if s.Filename != c.File {
			return pk.Failf("runtime", c.Backend+" interrupt:filename", "%s: interrupt span names %q, the failure is in %q\n%s", id, s.Filename, c.File, modsText(c.Modules))
		}
		if s.Start.Index > hi || s.End.Index < lo {
			return pk.Failf("runtime", c.Backend+" interrupt:outside-construct", "%s: interrupt span %s does not touch the failing construct %q (runes %d..%d)\n%s", id, fmtSpan(s), c.Site, lo, hi, modsText(c.Modules))
		}
	}
	return nil
}

func init() {
	pk.Reg("text", checkText)
	pk.Reg("culprit", checkCulprit)
	pk.Reg("runtime", checkRuntime)
}

func TestReplay(t *testing.T) { pk.ReplayTest(t) }

type failure struct {
	name, site, mode string
	tmpl             string // the statement that holds the site ("SITE"); default: let r = SITE;
}

var failures = []failure{
	{"throw", `throw("boom")`, "throw", ""},
	{"throw-multiline", "throw(\n            \"boom\"\n        )", "throw", ""},
	{"div-zero", `10 / zero`, "fatal", ""},
	{"mod-zero", `10 % zero`, "fatal", ""},
	{"index-oob", `lst[7]`, "fatal", ""},
	{"unwrap-none", `nothing.unwrap()`, "catchable", ""},
	{"bad-cast", `"\"s\"".parse_json() as int`, "catchable", ""},
	{"parse-int", `"12x".parse_int()`, "catchable", ""},
	{"json-syntax", `"{".parse_json() as int`, "catchable", ""},
	// the failing construct is a whole annotated let whose type is a NAME defined elsewhere in the file
	{"annotated-let-named-type", `let r: Num = "\"s\"".parse_json();`, "catchable", "SITE"},
	{"annotated-let-named-object-type", `let r: Rec = "{\"a\": \"s\"}".parse_json();`, "catchable", "SITE"},
	{"annotated-let-written-out-type", `let r: { a: int } = "{\"a\": \"s\"}".parse_json();`, "catchable", "SITE"},
	// a throw that is the LAST expression of a block (what follows it belongs to the enclosing construct)
	{"throw-trailing-in-if", `throw("boom")`, "throw", "let r = { if x > 0 { SITE } 0 };"},
	{"throw-trailing-in-match", `throw("boom")`, "throw", "let r = match x > 0 { true => { println(\"m\"); SITE }, _ => 0 };"},
	{"throw-trailing-in-loop", `throw("boom")`, "throw", "for i in 0..3 { if i == 1 { SITE } }"},
}

func TestTableRuntime(t *testing.T) {
	pk.SkipIfReplay(t)
	col := pk.NewCollector()
	var wg sync.WaitGroup
	sem := make(chan struct{}, 24)
	k := 0
	prelude := "    let zero = 0;\n    let lst = [1];\n    let nothing: ?int = none;\n"
	branchRounds := 0
	for _, f := range failures {
		for depth := 0; depth <= 3; depth++ {
			for _, inModule := range []bool{false, true} {
				for _, unicodeBefore := range []bool{false, true, true} {
					// the third round puts branching statements in front of the site (compiled code before the
					// failing instruction: its position must not depend on what was compiled before it)
					branchesBefore := false
					if unicodeBefore {
						branchRounds++
						branchesBefore = branchRounds%2 == 0
					}
					for _, backend := range []string{"vm", "tree"} {
						for _, mode := range []string{"caught", "uncaught"} {
							if f.mode == "fatal" && mode == "caught" {
								continue
							}
							k++
							if !pk.Mine(k) {
								continue
							}
							wg.Add(1)
							sem <- struct{}{}
							go func(f failure, depth int, inModule, unicodeBefore, branchesBefore bool, backend, mode string) {
								defer wg.Done()
								defer func() { <-sem }()
								var lib strings.Builder
								if unicodeBefore {
									lib.WriteString("// ääö 日本語 𝄞 — non-ASCII before the site\n")
								}
								// lvl0 holds the failing construct; lvlN calls lvlN-1
								pub := ""
								if inModule {
									pub = "pub "
								}
								lib.WriteString("type Num = int;\ntype Rec = { a: int };\n")
								lib.WriteString("fn thrower_inner(x: int) -> int {\n    if x >= 0 {\n        throw(\"early\");\n    }\n    x\n}\nfn thrower_outer(x: int) -> int {\n    let y = x;\n    thrower_inner(y) + 1\n}\n")
								stmt := "let r = " + siteExpr(f) + ";"
								if f.tmpl != "" {
									stmt = strings.Replace(f.tmpl, "SITE", f.site, 1)
								}
								pre := prelude
								if branchesBefore {
									// ... and an exception raised two frames further down and caught here: the position of a later
									// failure in THIS function is its own, not one inside the function that threw earlier
									pre += "    try { println(thrower_outer(x)); } catch ce { println(\"C\", ce.line > 0); }\n"
									pre += "    if x > 100 { println(\"a\"); }\n    if x > 200 { println(\"b\"); }\n    match x { 1000 => { println(\"m\"); }, _ => {} }\n    if x > 300 { println(\"c\"); } else { }\n    for q in 0..2 { if q > x { break; } }\n"
								}
								fmt.Fprintf(&lib, "fn lvl0(x: int) -> int {\n%s        %s\n    println(\"UNREACHED\");\n    x\n}\n", pre, stmt)
								for d := 1; d <= depth; d++ {
									fmt.Fprintf(&lib, "fn lvl%d(x: int) -> int {\n    let a = x + 1;\n    lvl%d(a)\n}\n", d, d-1)
								}
								fmt.Fprintf(&lib, "%sfn entry(x: int) -> int {\n    lvl%d(x)\n}\n", pub, depth)
								var mainFn string
								if mode == "caught" {
									mainFn = "fn main() {\n    try {\n        println(entry(1));\n    } catch e {\n        println(\"POS\", e.line, e.column, e.filename);\n    }\n}\n"
								} else {
									mainFn = "fn main() {\n    println(entry(1));\n}\n"
								}
								rc := RuntimeCase{Entry: "main", Backend: backend, Site: f.site, Note: fmt.Sprintf("%s depth=%d module=%v unicode=%v branches-before=%v", f.name, depth, inModule, unicodeBefore, branchesBefore)}
								rc.Mode = mode
								if mode == "uncaught" && f.mode == "fatal" {
									rc.Mode = "fatal"
								}
								if inModule {
									rc.File = "lib"
									rc.Modules = map[string]string{"main": "import { entry } from lib;\n" + mainFn, "lib": lib.String() + "fn main() {}\n"}
								} else {
									rc.File = "main"
									rc.Modules = map[string]string{"main": lib.String() + mainFn}
								}
								pk.Eval()
								pk.Class("failure:" + f.name)
								pk.Class("mode:" + rc.Mode)
								pk.NonTrivial(rc.Note+backend+mode, map[string]any{"case": rc.Note, "backend": backend, "mode": rc.Mode})
								col.Report(rc, checkRuntime(rc))
							}(f, depth, inModule, unicodeBefore, branchesBefore, backend, mode)
						}
					}
				}
			}
		}
	}
	wg.Wait()
	col.Done(t)
	pk.Exhaustive("runtime-failure-x-depth-x-module-x-backend")
}

func siteExpr(f failure) string {
	switch f.name {
	case "throw", "throw-multiline":
		return "{ " + f.site + "; 0 }"
	}
	return f.site
}

// ---------------------------------------------------------------------------------------------
// (d) the shared cross product of small ill-typed programs (verif/pairs): every diagnostic they provoke
// carries a valid position and renders. Random damage rarely produces *type* errors about function types,
// options, objects ...; this table produces them by construction.
func TestTablePairSpans(t *testing.T) {
	pk.SkipIfReplay(t)
	col := pk.NewCollector()
	progs := pairs.Programs()
	var wg sync.WaitGroup
	sem := make(chan struct{}, 24)
	for i, p := range progs {
		if !pk.Mine(i) {
			continue
		}
		wg.Add(1)
		sem <- struct{}{}
		go func(p pairs.Program) {
			defer wg.Done()
			defer func() { <-sem }()
			c := TextCase{Modules: map[string]string{"main": p.Text}, Entry: "main", Note: p.Kind}
			pk.Eval()
			pk.NonTrivial(p.Text, nil)
			f := checkText(c)
			if f != nil {
				f.Sig = f.Sig + ":" + p.Kind
			}
			col.Report(c, f)
		}(p)
	}
	wg.Wait()
	pk.Exhaustive("pair-spans")
	col.Done(t)
}
