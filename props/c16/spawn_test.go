package c16

import (
	"fmt"
	"sort"
	"strings"
	"testing"

	"pgregory.net/rapid"

	"verif/hs"
	"verif/pk"
	"verif/px"
	"verif/sb"
)

// Histories whose invoked functions spawn threads, which spawn further threads, and return before those are
// done. A call is complete when all of its threads are: its output is the output of all of them, the globals a
// later call sees are the ones all of them left, two later identical calls agree, and a thread that fails
// fails the call (and the calls after it).

type SpawnStep struct {
	Fn    string
	Arg   int
	Async bool
	Lines []string // expected output lines of this call (any order)
	Ret   int
	Fails string // expected thrown message ("" = completes)
}

type SpawnCase struct {
	Text       string
	Steps      []SpawnStep
	GoMaxProcs int
}

func sortedCopy(xs []string) []string {
	ys := append([]string{}, xs...)
	sort.Strings(ys)
	return ys
}

func checkSpawnHistory(c SpawnCase) *pk.Failure {
	pc := px.ProgCase{Modules: map[string]string{"main": c.Text}, Entry: "main", Limits: sb.DefaultLimits()}
	req := pc.Request("vm")
	req.SkipMain = true
	req.GoMaxProcs = c.GoMaxProcs
	intT := hs.Type{K: hs.KInt}
	for _, s := range c.Steps {
		req.Invocations = append(req.Invocations, sb.Invocation{Fn: s.Fn, Args: []hs.WV{{V: hs.IntV(s.Arg)}}, Params: []hs.Type{intT}, Ret: intT, Async: s.Async})
	}
	resp := px.Pool().Exec(req)
	text := func() string {
		var hist []string
		for _, s := range c.Steps {
			hist = append(hist, fmt.Sprintf("%s(%d)[async=%v]", s.Fn, s.Arg, s.Async))
		}
		return c.Text + "\nhistory: " + strings.Join(hist, "; ") + fmt.Sprintf(" gomaxprocs=%d", c.GoMaxProcs)
	}
	if f := px.SandboxFailure("spawnhistory", resp); f != nil {
		f.Msg = text() + "\n" + f.Msg
		return f
	}
	if resp.Inconclusive {
		pk.Inconclusive()
		return nil
	}
	if !resp.Accepted {
		return pk.Failf("spawnhistory", "generator-rejected", "analyzer rejected a generated program\n%s", text())
	}
	r := resp.Run("vm")
	if r == nil || r.InitPanic != "" || r.CompileErr != "" {
		return pk.Failf("spawnhistory", "init", "initialisation failed: %+v\n%s", r, text())
	}
	if len(r.Invs) != len(c.Steps) {
		return pk.Failf("spawnhistory", "inv-count", "expected %d invocation results, got %d\n%s", len(c.Steps), len(r.Invs), text())
	}
	failed := false
	for i, s := range c.Steps {
		got := r.Invs[i]
		where := fmt.Sprintf("call #%d %s(%d)", i, s.Fn, s.Arg)
		if got.Refused != "" {
			return pk.Failf("spawnhistory", "refused", "%s: the VM refused a conforming call: %s\n%s", where, got.Refused, text())
		}
		if failed {
			if !got.Exception {
				return pk.Failf("spawnhistory", "after-failure-no-failure", "%s: a call after a failed call did not report a failure (outcome %+v)\n%s", where, got.Outcome, text())
			}
			continue
		}
		pk.Extra("spawning-calls-compared", 1)
		cls, _, msg := px.OutcomeClass(got.Outcome)
		if s.Fails != "" {
			if cls != "throw" || msg != s.Fails {
				return pk.Failf("spawnhistory", "thread-failure-lost", "%s: a thread of this call throws %q, the call reported %s %q\n%s", where, s.Fails, cls, got.Outcome.Message, text())
			}
			failed = true
			continue
		}
		if cls != "ok" {
			return pk.Failf("spawnhistory", "outcome", "%s: expected completion, got %s %q\n%s", where, cls, got.Outcome.Message, text())
		}
		if a, b := strings.Join(sortedCopy(s.Lines), ""), strings.Join(sortedCopy(got.Writes), ""); a != b {
			return pk.Failf("spawnhistory", "writes", "%s: the call's output is not the output of all its threads\n  expected (any order) %q\n  got                  %q\n%s", where, sortedCopy(s.Lines), sortedCopy(got.Writes), text())
		}
		if got.Ret.V == nil || !hs.Equal(got.Ret.V, hs.IntV(s.Ret)) {
			return pk.Failf("spawnhistory", "ret-value", "%s: returned %s, expected %d\n%s", where, got.RetDisplay, s.Ret, text())
		}
		if !got.Residue.LockFree || got.Residue.Cores != 0 {
			return pk.Failf("spawnhistory", "residue-cores", "%s: after the call cores=%d lockFree=%v\n%s", where, got.Residue.Cores, got.Residue.LockFree, text())
		}
	}
	return nil
}

func init() { pk.Reg("spawnhistory", checkSpawnHistory) }

// thread roles: worker w (1..nw) spawned by start, helper h spawned by a worker part-way; every thread of a call
// counts its completions in a global of its own (one writer at a time: the calls of a history are sequential)
func genSpawnHistory(rt *rapid.T) SpawnCase {
	nw := rapid.IntRange(1, 3).Draw(rt, "workers")
	var b strings.Builder
	// a phase is a busy loop or a sleep; the host collects finished cores every few milliseconds, so phases
	// of both kinds are needed for a thread to end (and be collected) while another one still spawns
	phase := func(label string) string {
		if rapid.Bool().Draw(rt, label+"Sleeps") {
			return fmt.Sprintf("time.sleep(%s);", []string{"0.0", "0.012", "0.025"}[rapid.IntRange(0, 2).Draw(rt, label+"Sleep")])
		}
		return fmt.Sprintf("spin(%d);", rapid.IntRange(0, 3000).Draw(rt, label+"Spin"))
	}
	type wk struct {
		before, after, helper string
		helpers               int
	}
	ws := make([]wk, nw)
	for i := range ws {
		ws[i] = wk{before: phase("before"), after: phase("after"), helper: phase("helper"), helpers: rapid.IntRange(0, 2).Draw(rt, "helpers")}
	}
	failW := 0
	for i := 1; i <= nw; i++ {
		fmt.Fprintf(&b, "let w%d = 0;\nlet h%da = 0;\nlet h%db = 0;\n", i, i, i)
	}
	b.WriteString("let boom = 0;\n")
	b.WriteString("fn spin(n: int) -> int {\n    let k = 0;\n    let acc = 0;\n    while k < n { k += 1; acc += k % 7; }\n    acc\n}\n")
	for i := 1; i <= nw; i++ {
		for _, k := range []string{"a", "b"} {
			fmt.Fprintf(&b, "fn helper%d%s(n: int) {\n    %s\n    h%d%s += 1;\n    println(\"H%d%s\");\n}\n", i, k, ws[i-1].helper, i, k, i, k)
		}
		fmt.Fprintf(&b, "fn worker%d(round: int) {\n    %s\n", i, ws[i-1].before)
		for k := 0; k < ws[i-1].helpers; k++ {
			fmt.Fprintf(&b, "    spawn helper%d%s(%d);\n", i, []string{"a", "b"}[k], k)
		}
		fmt.Fprintf(&b, "    %s\n    w%d += 1;\n    println(\"W%d\", round);\n    if boom == %d { throw(\"boom%d\"); }\n}\n", ws[i-1].after, i, i, i, i)
	}
	b.WriteString("fn start(round: int) -> int {\n")
	for i := 1; i <= nw; i++ {
		fmt.Fprintf(&b, "    spawn worker%d(round);\n", i)
	}
	b.WriteString("    round + 1\n}\n")
	b.WriteString("fn arm(w: int) -> int { boom = w; w }\n")
	b.WriteString("fn get(x: int) -> int {\n    let r = x")
	weight := 1
	for i := 1; i <= nw; i++ {
		weight *= 10
		fmt.Fprintf(&b, " + w%d * %d", i, weight)
		weight *= 10
		fmt.Fprintf(&b, " + (h%da + h%db) * %d", i, i, weight)
	}
	b.WriteString(";\n    r\n}\nfn main() {}\n")

	c := SpawnCase{Text: b.String(), GoMaxProcs: []int{1, 2, 4, 16}[rapid.IntRange(0, 3).Draw(rt, "gomaxprocs")]}
	wc := make([]int, nw+1)
	hc := make([]int, nw+1)
	get := func(x int) int {
		r, weight := x, 1
		for i := 1; i <= nw; i++ {
			weight *= 10
			r += wc[i] * weight
			weight *= 10
			r += hc[i] * weight
		}
		return r
	}
	n := rapid.IntRange(2, 7).Draw(rt, "nCalls")
	for k := 0; k < n; k++ {
		async := rapid.IntRange(0, 2).Draw(rt, "async") == 0
		switch op := rapid.IntRange(0, 9).Draw(rt, "op"); {
		case op <= 3 || k == 0:
			st := SpawnStep{Fn: "start", Arg: k, Async: async, Ret: k + 1}
			for i := 1; i <= nw; i++ {
				wc[i]++
				hc[i] += ws[i-1].helpers
				st.Lines = append(st.Lines, fmt.Sprintf("W%d %d\n", i, k))
				for h := 0; h < ws[i-1].helpers; h++ {
					st.Lines = append(st.Lines, fmt.Sprintf("H%d%s\n", i, []string{"a", "b"}[h]))
				}
			}
			if failW > 0 {
				st.Fails = fmt.Sprintf("boom%d", failW)
			}
			c.Steps = append(c.Steps, st)
			if failW > 0 {
				c.Steps = append(c.Steps, SpawnStep{Fn: "get", Arg: 0})
				return c
			}
		case op == 4 && failW == 0:
			failW = rapid.IntRange(1, nw).Draw(rt, "failWorker")
			c.Steps = append(c.Steps, SpawnStep{Fn: "arm", Arg: failW, Async: async, Ret: failW})
		default:
			x := rapid.IntRange(0, 9).Draw(rt, "x")
			c.Steps = append(c.Steps, SpawnStep{Fn: "get", Arg: x, Async: async, Ret: get(x)})
		}
	}
	return c
}

func TestSpawnHistory(t *testing.T) {
	pk.SkipIfReplay(t)
	rapid.Check(t, func(rt *rapid.T) {
		c := genSpawnHistory(rt)
		pk.Eval()
		nested, fails := strings.Contains(c.Text, "spawn helper"), false
		for _, s := range c.Steps {
			if s.Fails != "" {
				fails = true
			}
		}
		if nested {
			pk.Class("spawn-history:nested-spawn")
		}
		if fails {
			pk.Class("spawn-history:failing-thread")
		}
		if nested || fails {
			pk.NonTrivial(c.Text+fmt.Sprint(c.Steps), map[string]any{"program": c.Text, "calls": len(c.Steps), "gomaxprocs": c.GoMaxProcs})
		}
		pk.Judge(rt, c, checkSpawnHistory(c))
	})
}
