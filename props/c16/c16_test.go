package c16

import (
	"fmt"
	"strings"
	"testing"

	"pgregory.net/rapid"

	"verif/gen"
	"verif/hs"
	"verif/pk"
	"verif/px"
	"verif/sb"
)

func TestMain(m *testing.M) { pk.Main(m) }

// Step is one host invocation together with the reference expectation.
type Step struct {
	Fn     string
	Args   []hs.WV
	Params []hs.Type
	Ret    hs.Type
	Async  bool
	// expectation (reference model with persistent globals)
	ExpOutcome hs.Outcome
	ExpRet     hs.WV
	ExpWrites  []string
}

type Case struct {
	px.ProgCase
	Steps []Step
}

func histCfg() gen.Cfg {
	c := gen.ModelCfg()
	c.Triggers = false
	c.MaxFns = 4
	for _, g := range []string{"exit-pending"} {
		if pk.GateOpen(g) {
			c.Off[g] = true
		}
	}
	return c
}

func retObservable(t hs.Type) bool {
	switch t.K {
	case hs.KNull, hs.KAnyObj, hs.KAny, hs.KNever:
		return false
	}
	return true
}

// checkHistory runs the invocation history on one VM and compares every call with the model.
func checkHistory(c Case) *pk.Failure {
	req := c.Request("vm")
	req.SkipMain = true
	for _, s := range c.Steps {
		req.Invocations = append(req.Invocations, sb.Invocation{Fn: s.Fn, Args: s.Args, Params: s.Params, Ret: s.Ret, Async: s.Async})
	}
	resp := px.Pool().Exec(req)
	text := func() string { return px.ProgText(c.ProgCase) + "\nhistory: " + histText(c.Steps) }
	if f := px.SandboxFailure("history", resp); f != nil {
		f.Msg = text() + "\n" + f.Msg
		return f
	}
	if resp.Inconclusive {
		pk.Inconclusive()
		return nil
	}
	if !resp.Accepted {
		msg := ""
		for _, d := range append(resp.SyntaxErrors, resp.ErrorDiags()...) {
			msg += fmt.Sprintf("%s: %s @%d:%d\n", d.Level, d.Message, d.Span.Start.Line, d.Span.Start.Column)
		}
		return pk.Failf("history", "generator-rejected", "analyzer rejected a generated program:\n%s\n%s", msg, text())
	}
	r := resp.Run("vm")
	if r == nil || r.InitPanic != "" || r.CompileErr != "" {
		return pk.Failf("history", "init", "initialisation failed: %+v\n%s", r, text())
	}
	if len(r.Invs) != len(c.Steps) {
		return pk.Failf("history", "inv-count", "expected %d invocation results, got %d\n%s", len(c.Steps), len(r.Invs), text())
	}
	failed := false
	for i, s := range c.Steps {
		got := r.Invs[i]
		where := fmt.Sprintf("call #%d %s", i, stepText(s))
		if got.Refused != "" {
			return pk.Failf("history", "refused", "%s: the VM refused a conforming call: %s\n%s", where, got.Refused, text())
		}
		if failed {
			// after a failed call the VM must answer with a failure, never block (blocking = hang above)
			if !got.Exception {
				return pk.Failf("history", "after-failure-no-failure", "%s: a call after a failed call did not report a failure (outcome %+v)\n%s", where, got.Outcome, text())
			}
			continue
		}
		pk.Extra("calls-compared", 1)
		cls, kind, msg := px.OutcomeClass(got.Outcome)
		if cls != s.ExpOutcome.Class || (cls == "fatal" && kind != s.ExpOutcome.Kind) || (cls == "throw" && msg != s.ExpOutcome.Message) {
			return pk.Failf("history", "outcome", "%s: outcome differs: expected %+v, got %s/%s %q\n%s", where, s.ExpOutcome, cls, kind, got.Outcome.Message, text())
		}
		if strings.Join(got.Writes, "") != strings.Join(s.ExpWrites, "") {
			return pk.Failf("history", "writes", "%s: output differs\n  expected %q\n  got      %q\n%s", where, strings.Join(s.ExpWrites, ""), strings.Join(got.Writes, ""), text())
		}
		if cls != "ok" {
			failed = true
			// residue after a failure is not judged; the next calls must fail, not block
			continue
		}
		if retObservable(s.Ret) {
			if got.Ret.V == nil {
				return pk.Failf("history", "ret-missing", "%s: no return value (display %q), expected %s\n%s", where, got.RetDisplay, hs.Display(s.ExpRet.V), text())
			}
			if !hs.Conforms(got.Ret.V, s.Ret) {
				return pk.Failf("history", "ret-type", "%s: return value %s does not have the declared type %s\n%s", where, hs.Display(got.Ret.V), s.Ret.Canon(), text())
			}
			if !hs.Same(got.Ret.V, s.ExpRet.V) {
				return pk.Failf("history", "ret-value", "%s: returned %s, expected %s\n%s", where, hs.Display(got.Ret.V), hs.Display(s.ExpRet.V), text())
			}
		}
		// residue of a completed call
		res := got.Residue
		wantStack := 0
		if s.Ret.K != hs.KNull {
			wantStack = 1
		}
		if !res.LockFree || res.Cores != 0 {
			return pk.Failf("history", "residue-cores", "%s: after the call cores=%d lockFree=%v\n%s", where, res.Cores, res.LockFree, text())
		}
		if s.Async {
			// the finished core is observable only for the async protocol (SpawnSync hides it)
			if res.CallStack != 0 || res.CatchLabels != 0 || res.Stack > wantStack || res.MemPtr != 0 {
				return pk.Failf("history", "residue-core", "%s: finished core keeps stack=%d (allowed %d) callstack=%d handlers=%d mp=%d\n%s", where, res.Stack, wantStack, res.CallStack, res.CatchLabels, res.MemPtr, text())
			}
		}
	}
	return nil
}

func stepText(s Step) string {
	args := make([]string, len(s.Args))
	for i, a := range s.Args {
		args[i] = hs.Display(a.V)
	}
	mode := "sync"
	if s.Async {
		mode = "async"
	}
	return fmt.Sprintf("%s(%s)[%s]", s.Fn, strings.Join(args, ", "), mode)
}

func histText(steps []Step) string {
	parts := make([]string, len(steps))
	for i, s := range steps {
		parts[i] = stepText(s)
	}
	return strings.Join(parts, "; ")
}

func init() { pk.Reg("history", checkHistory) }

func TestReplay(t *testing.T) { pk.ReplayTest(t) }

// buildCase draws a program and a history and computes the reference expectation.
func buildCase(rt *rapid.T, cfg gen.Cfg) (Case, bool) {
	g := gen.Program(rt, cfg)
	if len(g.Fns) == 0 {
		return Case{}, false
	}
	ev := hs.NewEvaluator(g.Prog)
	for k, v := range g.HostSingle {
		ev.HostSingle[k] = v
	}
	ev.Fuel = 300000
	if c := ev.Init(); c != nil {
		return Case{}, false
	}
	c := Case{ProgCase: px.FromGenerated(g)}
	n := rapid.IntRange(1, 10).Draw(rt, "nCalls")
	for i := 0; i < n; i++ {
		f := g.Fns[rapid.IntRange(0, len(g.Fns)-1).Draw(rt, "fn")]
		st := Step{Fn: f.Name, Params: f.Params, Ret: f.Ret, Async: rapid.IntRange(0, 3).Draw(rt, "async") == 0}
		var args []hs.Value
		for pi := range f.Params {
			v := gen.DrawArg(rt, f, pi)
			args = append(args, v)
			st.Args = append(st.Args, hs.WV{V: hs.DeepCopy(v)})
		}
		w0 := len(ev.Tr.Writes)
		ret, ctl := ev.CallNamed("main", f.Name, args)
		st.ExpOutcome = hs.OutcomeOf(ctl)
		if st.ExpOutcome.Class == "unsupported" || st.ExpOutcome.Class == "fuel" {
			return Case{}, false
		}
		st.ExpWrites = append([]string{}, ev.Tr.Writes[w0:]...)
		if ctl == nil && ret != nil {
			st.ExpRet = hs.WV{V: hs.DeepCopy(ret)}
		}
		c.Steps = append(c.Steps, st)
		if st.ExpOutcome.Class != "ok" {
			// one or two more calls after the failure, then stop
			extra := rapid.IntRange(1, 2).Draw(rt, "afterFailure")
			for k := 0; k < extra; k++ {
				f2 := g.Fns[rapid.IntRange(0, len(g.Fns)-1).Draw(rt, "fnAfter")]
				s2 := Step{Fn: f2.Name, Params: f2.Params, Ret: f2.Ret}
				for pi := range f2.Params {
					s2.Args = append(s2.Args, hs.WV{V: gen.DrawArg(rt, f2, pi)})
				}
				c.Steps = append(c.Steps, s2)
			}
			break
		}
	}
	if ev.Tr.Feat["hazard:slot-operand"] > 0 && pk.GateOpen("slot-operand") {
		pk.Gate("slot-operand")
		return Case{}, false
	}
	return c, true
}

func TestHistory(t *testing.T) {
	pk.SkipIfReplay(t)
	cfg := histCfg()
	rapid.Check(t, func(rt *rapid.T) {
		c, ok := buildCase(rt, cfg)
		pk.Eval()
		if !ok {
			pk.Discard("no-functions-or-outside-model")
			return
		}
		fns := map[string]bool{}
		failedAt := -1
		for i, s := range c.Steps {
			fns[s.Fn] = true
			if s.ExpOutcome.Class != "ok" && s.ExpOutcome.Class != "" && failedAt < 0 {
				failedAt = i
			}
			if s.Async {
				pk.Class("async-call")
			} else {
				pk.Class("sync-call")
			}
		}
		if failedAt >= 0 {
			pk.Class("history-with-failure")
		}
		if (len(c.Steps) >= 3 && len(fns) >= 2) || failedAt >= 0 {
			pk.NonTrivial(px.ProgText(c.ProgCase)+histText(c.Steps), map[string]any{"program": c.Modules["main"], "history": histText(c.Steps)})
		}
		pk.Judge(rt, c, checkHistory(c))
	})
}
