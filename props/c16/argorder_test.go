package c16

import (
	"fmt"
	"strings"
	"testing"

	"verif/hs"
	"verif/pk"
	"verif/px"
	"verif/sb"
)

// "Every call receives its arguments in declared order": for EVERY kind of parameter in EVERY position. The
// generated histories draw parameter types the reference model can compute with; this table adds the kinds a host
// typically passes and the model never draws as parameters (`any`, `{ ? }`, options, objects), as every ordered
// triple of parameter kinds. Each function renders its three parameters in declared order; the values differ per
// position, so a shifted, swapped or dropped argument changes the result. Calls alternate between SpawnSync and
// SpawnAsync on one VM per program.

type argKind struct {
	name   string
	t      hs.Type
	val    func(i int) hs.Value
	render string             // expression over %s (the parameter) of type str
	text   func(i int) string // what render yields for val(i)
}

func anyObjK(i int) *hs.ObjV { o := hs.NewObj(true); o.Set("k", hs.IntV(int64(40+i))); return o }
func objA(i int) *hs.ObjV    { o := hs.NewObj(false); o.Set("a", hs.IntV(int64(30+i))); return o }

var argKinds = []argKind{
	{"int", hs.TInt, func(i int) hs.Value { return hs.IntV(int64(10 + i)) }, "%s.to_string()", func(i int) string { return fmt.Sprint(10 + i) }},
	{"bool", hs.TBool, func(i int) hs.Value { return hs.BoolV(i%2 == 0) }, "%s.to_string()", func(i int) string { return fmt.Sprint(i%2 == 0) }},
	{"str", hs.TStr, func(i int) hs.Value { return hs.StrV(fmt.Sprintf("s%d", i)) }, "%s", func(i int) string { return fmt.Sprintf("s%d", i) }},
	{"[int]", hs.TList(hs.TInt), func(i int) hs.Value { return &hs.ListV{Elems: []hs.Value{hs.IntV(int64(i)), hs.IntV(int64(i + 1))}} }, "%s.to_string()",
		func(i int) string { return fmt.Sprintf("[%d, %d]", i, i+1) }},
	{"?int", hs.TOpt(hs.TInt), func(i int) hs.Value { return hs.OptV{Inner: hs.IntV(int64(20 + i))} }, "%s.unwrap().to_string()", func(i int) string { return fmt.Sprint(20 + i) }},
	{"?int-none", hs.TOpt(hs.TInt), func(i int) hs.Value { return hs.OptV{} }, "%s.is_none().to_string()", func(i int) string { return "true" }},
	{"{a:int}", hs.TObj(hs.Field{Name: "a", T: hs.TInt}), func(i int) hs.Value { return objA(i) }, "%s.a.to_string()", func(i int) string { return fmt.Sprint(30 + i) }},
	{"{?}", hs.TAnyObj, func(i int) hs.Value { return anyObjK(i) }, "(%s.get(\"k\").unwrap() as int).to_string()", func(i int) string { return fmt.Sprint(40 + i) }},
	{"any-int", hs.TAny, func(i int) hs.Value { return hs.IntV(int64(50 + i)) }, "(%s as int).to_string()", func(i int) string { return fmt.Sprint(50 + i) }},
	{"any-str", hs.TAny, func(i int) hs.Value { return hs.StrV(fmt.Sprintf("any%d", i)) }, "(%s as str)", func(i int) string { return fmt.Sprintf("any%d", i) }},
	{"any-list", hs.TAny, func(i int) hs.Value { return &hs.ListV{Elems: []hs.Value{hs.IntV(int64(60 + i))}} }, "(%s as [int]).to_string()", func(i int) string { return fmt.Sprintf("[%d]", 60+i) }},
}

func argOrderCase(k1, k2 int) Case {
	var b strings.Builder
	c := Case{}
	for k3 := range argKinds {
		ks := []argKind{argKinds[k1], argKinds[k2], argKinds[k3]}
		name := fmt.Sprintf("f%d", k3)
		var params, parts, want []string
		st := Step{Fn: name, Ret: hs.TStr, Async: k3%2 == 1, ExpOutcome: hs.Outcome{Class: "ok"}}
		for i, k := range ks {
			params = append(params, fmt.Sprintf("p%d: %s", i, k.t.Src()))
			parts = append(parts, fmt.Sprintf(k.render, fmt.Sprintf("p%d", i)))
			want = append(want, k.text(i))
			st.Params = append(st.Params, k.t)
			st.Args = append(st.Args, hs.WV{V: k.val(i)})
		}
		fmt.Fprintf(&b, "fn %s(%s) -> str {\n    let r = %s;\n    println(r);\n    r\n}\n\n", name, strings.Join(params, ", "), strings.Join(parts, " + \"|\" + "))
		res := strings.Join(want, "|")
		st.ExpRet = hs.WV{V: hs.StrV(res)}
		st.ExpWrites = []string{res + "\n"}
		c.Steps = append(c.Steps, st)
		// a two-parameter and a one-parameter sibling: the last position, and the position behind the first
		if k3 == 0 {
			n2 := "g0"
			fmt.Fprintf(&b, "fn %s(p0: %s, p1: %s) -> str {\n    let r = %s + \"|\" + %s;\n    println(r);\n    r\n}\n\n", n2, ks[0].t.Src(), ks[1].t.Src(),
				fmt.Sprintf(ks[0].render, "p0"), fmt.Sprintf(ks[1].render, "p1"))
			r2 := ks[0].text(0) + "|" + ks[1].text(1)
			c.Steps = append(c.Steps, Step{Fn: n2, Ret: hs.TStr, Params: []hs.Type{ks[0].t, ks[1].t}, Args: []hs.WV{{V: ks[0].val(0)}, {V: ks[1].val(1)}},
				ExpOutcome: hs.Outcome{Class: "ok"}, ExpRet: hs.WV{V: hs.StrV(r2)}, ExpWrites: []string{r2 + "\n"}, Async: (k1+k2)%2 == 0})
		}
	}
	b.WriteString("fn main() {}\n")
	c.ProgCase = px.ProgCase{Modules: map[string]string{"main": b.String()}, Entry: "main", Limits: sb.DefaultLimits()}
	return c
}

func TestTableArgumentOrder(t *testing.T) {
	pk.SkipIfReplay(t)
	col := pk.NewCollector()
	n := len(argKinds)
	res := make([]*pk.Failure, n*n)
	cases := make([]Case, n*n)
	px.Parallel(n*n, func(i int) {
		if !pk.Mine(i) {
			return
		}
		cases[i] = argOrderCase(i/n, i%n)
		pk.EvalN(len(cases[i].Steps))
		pk.Class("arg-kind-first:" + argKinds[i/n].name)
		pk.NonTrivial(fmt.Sprintf("argument order %s,%s,*", argKinds[i/n].name, argKinds[i%n].name), nil)
		res[i] = checkHistory(cases[i])
	})
	for i := range cases {
		if pk.Mine(i) {
			col.Report(cases[i], res[i])
		}
	}
	pk.Extra("parameter-kind-triples", n*n*n)
	pk.Exhaustive("table-argument-order")
	col.Done(t)
}
