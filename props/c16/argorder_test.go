package c16

import (
	"fmt"
	"strings"
	"testing"

	"verif/hs"
	"verif/pk"
	"verif/px"
	"verif/sb"
)

// "Every call receives its arguments in declared order": for EVERY kind of parameter in EVERY position. The
// generated histories draw parameter types the reference model can compute with; this table adds the kinds a host
// typically passes and the model never draws as parameters (`any`, `{ ? }`, options, objects), as every ordered
// triple of parameter kinds. Each function renders its three parameters in declared order; the values differ per
// position, so a shifted, swapped or dropped argument changes the result. Calls alternate between SpawnSync and
// SpawnAsync on one VM per program.

type argKind struct {
	name   string
	t      hs.Type
	val    func(i int) hs.Value
	render string             // expression over %s (the parameter) of type str
	text   func(i int) string // what render yields for val(i)
}

func anyObjK(i int) *hs.ObjV { o := hs.NewObj(true); o.Set("k", hs.IntV(int64(40+i))); return o }
func objA(i int) *hs.ObjV    { o := hs.NewObj(false); o.Set("a", hs.IntV(int64(30+i))); return o }

var argKinds = []argKind{
	{"int", hs.TInt, func(i int) hs.Value { return hs.IntV(int64(10 + i)) }, "%s.to_string()", func(i int) string { return fmt.Sprint(10 + i) }},
	{"bool", hs.TBool, func(i int) hs.Value { return hs.BoolV(i%2 == 0) }, "%s.to_string()", func(i int) string { return fmt.Sprint(i%2 == 0) }},
	{"str", hs.TStr, func(i int) hs.Value { return hs.StrV(fmt.Sprintf("s%d", i)) }, "%s", func(i int) string { return fmt.Sprintf("s%d", i) }},
	{"[int]", hs.TList(hs.TInt), func(i int) hs.Value { return &hs.ListV{Elems: []hs.Value{hs.IntV(int64(i)), hs.IntV(int64(i + 1))}} }, "%s.to_string()",
		func(i int) string { return fmt.Sprintf("[%d, %d]", i, i+1) }},
	{"?int", hs.TOpt(hs.TInt), func(i int) hs.Value { return hs.OptV{Inner: hs.IntV(int64(20 + i))} }, "%s.unwrap().to_string()", func(i int) string { return fmt.Sprint(20 + i) }},
	{"?int-none", hs.TOpt(hs.TInt), func(i int) hs.Value { return hs.OptV{} }, "%s.is_none().to_string()", func(i int) string { return "true" }},
	{"{a:int}", hs.TObj(hs.Field{Name: "a", T: hs.TInt}), func(i int) hs.Value { return objA(i) }, "%s.a.to_string()", func(i int) string { return fmt.Sprint(30 + i) }},
	{"{?}", hs.TAnyObj, func(i int) hs.Value { return anyObjK(i) }, "(%s.get(\"k\").unwrap() as int).to_string()", func(i int) string { return fmt.Sprint(40 + i) }},
	{"any-int", hs.TAny, func(i int) hs.Value { return hs.IntV(int64(50 + i)) }, "(%s as int).to_string()", func(i int) string { return fmt.Sprint(50 + i) }},
	{"any-str", hs.TAny, func(i int) hs.Value { return hs.StrV(fmt.Sprintf("any%d", i)) }, "(%s as str)", func(i int) string { return fmt.Sprintf("any%d", i) }},
	{"any-list", hs.TAny, func(i int) hs.Value { return &hs.ListV{Elems: []hs.Value{hs.IntV(int64(60 + i))}} }, "(%s as [int]).to_string()", func(i int) string { return fmt.Sprintf("[%d]", 60+i) }},
}

func argOrderCase(k1, k2 int) Case {
	var b strings.Builder
	c := Case{}
	for k3 := range argKinds {
		ks := []argKind{argKinds[k1], argKinds[k2], argKinds[k3]}
		name := fmt.Sprintf("f%d", k3)
		var params, parts, want []string
		st := Step{Fn: name, Ret: hs.TStr, Async: k3%2 == 1, ExpOutcome: hs.Outcome{Class: "ok"}}
		for i, k := range ks {
			params = append(params, fmt.Sprintf("p%d: %s", i, k.t.Src()))
			parts = append(parts, fmt.Sprintf(k.render, fmt.Sprintf("p%d", i)))
			want = append(want, k.text(i))
			st.Params = append(st.Params, k.t)
			st.Args = append(st.Args, hs.WV{V: k.val(i)})
		}
		fmt.Fprintf(&b, "fn %s(%s) -> str {\n    let r = %s;\n    println(r);\n    r\n}\n\n", name, strings.Join(params, ", "), strings.Join(parts, " + \"|\" + "))
		res := strings.Join(want, "|")
		st.ExpRet = hs.WV{V: hs.StrV(res)}
		st.ExpWrites = []string{res + "\n"}
		c.Steps = append(c.Steps, st)
		// a two-parameter and a one-parameter sibling: the last position, and the position behind the first
		if k3 == 0 {
			n2 := "g0"
			fmt.Fprintf(&b, "fn %s(p0: %s, p1: %s) -> str {\n    let r = %s + \"|\" + %s;\n    println(r);\n    r\n}\n\n", n2, ks[0].t.Src(), ks[1].t.Src(),
				fmt.Sprintf(ks[0].render, "p0"), fmt.Sprintf(ks[1].render, "p1"))
			r2 := ks[0].text(0) + "|" + ks[1].text(1)
			c.Steps = append(c.Steps, Step{Fn: n2, Ret: hs.TStr, Params: []hs.Type{ks[0].t, ks[1].t}, Args: []hs.WV{{V: ks[0].val(0)}, {V: ks[1].val(1)}},
				ExpOutcome: hs.Outcome{Class: "ok"}, ExpRet: hs.WV{V: hs.StrV(r2)}, ExpWrites: []string{r2 + "\n"}, Async: (k1+k2)%2 == 0})
		}
	}
	b.WriteString("fn main() {}\n")
	c.ProgCase = px.ProgCase{Modules: map[string]string{"main": b.String()}, Entry: "main", Limits: sb.DefaultLimits()}
	return c
}

func TestTableArgumentOrder(t *testing.T) {
	pk.SkipIfReplay(t)
	col := pk.NewCollector()
	n := len(argKinds)
	res := make([]*pk.Failure, n*n)
	cases := make([]Case, n*n)
	px.Parallel(n*n, func(i int) {
		if !pk.Mine(i) {
			return
		}
		cases[i] = argOrderCase(i/n, i%n)
		pk.EvalN(len(cases[i].Steps))
		pk.Class("arg-kind-first:" + argKinds[i/n].name)
		pk.NonTrivial(fmt.Sprintf("argument order %s,%s,*", argKinds[i/n].name, argKinds[i%n].name), nil)
		res[i] = checkHistory(cases[i])
	})
	for i := range cases {
		if pk.Mine(i) {
			col.Report(cases[i], res[i])
		}
	}
	pk.Extra("parameter-kind-triples", n*n*n)
	pk.Exhaustive("table-argument-order")
	col.Done(t)
}

// "returns exactly the function's result": also when the function returns from the middle of an expression (the
// operands that were pending stay behind on the core's stack - the open finding C01-007 - but what the host is handed
// is the result). Only SpawnSync is used, which does not expose the finished core's stack.
func TestTableReturnFromOperandPosition(t *testing.T) {
	pk.SkipIfReplay(t)
	col := pk.NewCollector()
	prog := `let calls = 0;
fn tick(n: int) -> int { calls += 1; 100 + if n > 2 { return n + 1; } else { n } }
fn find(k: int) -> int {
    for i in 0..10 { let v = 5 * { if i == k { return i * 100; } 1 }; calls += v - 5; }
    0 - 1
}
fn guarded(n: int) -> int { 7 + (try { if n < 0 { return n + 1; } n } catch e { 0 }) }
fn label(n: int) -> str { "<" + (if n == 0 { return "zero"; } else { n.to_string() }) + ">" }
fn nested(n: int) -> int { 1 + (2 * (3 + { if n > 0 { return n; } 4 })) }
fn count() -> int { calls }
fn risky(n: int) -> int { if n < 0 { throw("negative input"); } n * 2 }
fn guarded2(n: int) -> int { try { return risky(n); } catch e { return 0 - 1; } }
fn outer2(n: int) -> int { try { try { return risky(n) + 1; } catch e { return 999; } } catch e2 { return 99; } }
fn in_loop(n: int) -> int { for i in 0..3 { try { return risky(n - i); } catch e { calls += 0; } } 0 - 7 }
let store: [int] = [];
let cfg = new { v: 0 };
fn clear2() -> int { let e: [int] = []; store = e; store.len() }
fn fill(n: int) -> int { let fresh: [int] = []; store = fresh; let i = 0; while i < n { fresh.push(i); i += 1; } store.len() }
fn size() -> int { store.len() }
fn configure(v: int) -> int { let c = new { v: 0 }; cfg = c; c.v = v; cfg.v }
fn configured() -> int { cfg.v }
fn main() {}
`
	i := func(v int64) hs.WV { return hs.WV{V: hs.IntV(v)} }
	type call struct {
		fn   string
		arg  *hs.WV
		ret  hs.Value
		retT hs.Type
	}
	arg := func(v int64) *hs.WV { w := i(v); return &w }
	calls := []call{
		{"tick", arg(3), hs.IntV(4), hs.TInt}, {"tick", arg(1), hs.IntV(101), hs.TInt}, {"tick", arg(7), hs.IntV(8), hs.TInt},
		{"find", arg(3), hs.IntV(300), hs.TInt}, {"find", arg(23), hs.IntV(-1), hs.TInt}, {"find", arg(0), hs.IntV(0), hs.TInt},
		{"guarded", arg(-2), hs.IntV(-1), hs.TInt}, {"guarded", arg(5), hs.IntV(12), hs.TInt},
		{"label", arg(0), hs.StrV("zero"), hs.TStr}, {"label", arg(4), hs.StrV("<4>"), hs.TStr},
		{"nested", arg(9), hs.IntV(9), hs.TInt}, {"nested", arg(0), hs.IntV(15), hs.TInt},
		{"count", nil, hs.IntV(3), hs.TInt}, {"tick", arg(5), hs.IntV(6), hs.TInt}, {"count", nil, hs.IntV(4), hs.TInt},
		// a return whose VALUE throws inside a try: the handler around the return statement catches it
		{"guarded2", arg(-5), hs.IntV(-1), hs.TInt}, {"guarded2", arg(4), hs.IntV(8), hs.TInt},
		{"outer2", arg(-1), hs.IntV(999), hs.TInt}, {"outer2", arg(2), hs.IntV(5), hs.TInt},
		{"in_loop", arg(-1), hs.IntV(-7), hs.TInt}, {"in_loop", arg(1), hs.IntV(2), hs.TInt},
		{"count", nil, hs.IntV(4), hs.TInt}, {"guarded2", arg(-1), hs.IntV(-1), hs.TInt}, {"tick", arg(9), hs.IntV(10), hs.TInt},
		// a global assigned a container that EQUALS its current value is that container from then on
		{"clear2", nil, hs.IntV(0), hs.TInt}, {"fill", arg(2), hs.IntV(2), hs.TInt}, {"size", nil, hs.IntV(2), hs.TInt},
		{"clear2", nil, hs.IntV(0), hs.TInt}, {"fill", arg(3), hs.IntV(3), hs.TInt}, {"size", nil, hs.IntV(3), hs.TInt},
		{"configure", arg(7), hs.IntV(7), hs.TInt}, {"configured", nil, hs.IntV(7), hs.TInt}, {"configure", arg(0), hs.IntV(0), hs.TInt}, {"configure", arg(5), hs.IntV(5), hs.TInt}, {"configured", nil, hs.IntV(5), hs.TInt},
	}
	c := Case{ProgCase: px.ProgCase{Modules: map[string]string{"main": prog}, Entry: "main", Limits: sb.DefaultLimits()}}
	for _, cl := range calls {
		st := Step{Fn: cl.fn, Ret: cl.retT, ExpOutcome: hs.Outcome{Class: "ok"}, ExpRet: hs.WV{V: cl.ret}}
		if cl.arg != nil {
			st.Params = []hs.Type{hs.TInt}
			st.Args = []hs.WV{*cl.arg}
		}
		c.Steps = append(c.Steps, st)
	}
	pk.EvalN(len(c.Steps))
	pk.NonTrivial("return from operand position", nil)
	col.Report(c, checkHistory(c))
	pk.Exhaustive("table-return-from-operand-position")
	col.Done(t)
}
