package c07

// Generators: random expression trees, whole programs from templates (with \x01 at every
// position where a trailing comma may be added), and separator text for layout variants.

import (
	"fmt"
	"strings"

	"pgregory.net/rapid"

	"verif/pk"
)

var idents = []string{"a", "b", "c", "d", "x", "y", "z", "foo", "bar", "v1", "n_2", "_t", "f", "g"}
var numAtoms = []string{"0", "1", "2", "7", "42", "100", "0.5", "2.25"}
var wordAtoms = []string{"true", "false", "null", "none", `"s"`, `"two  words"`, `"a + b"`, `"// x"`, `"/* y */"`, `"(("`}
var memberNames = []string{"m", "len", "foo", "x", "to_string"}
var fieldNames = []string{"k", "key", "a", "b2"}

func pick(rt *rapid.T, label string, xs []string) string {
	return xs[rapid.IntRange(0, len(xs)-1).Draw(rt, label)]
}

func isNumAtom(n *node) bool { return n.K == "atom" && n.Op != "" && isDigit(n.Op[0]) }

func genAtom(rt *rapid.T) *node {
	switch k := rapid.IntRange(0, 9).Draw(rt, "atomkind"); {
	case k <= 5:
		return atom(pick(rt, "ident", idents))
	case k <= 8:
		return atom(pick(rt, "num", numAtoms))
	default:
		return atom(pick(rt, "word", wordAtoms))
	}
}

// genExpr draws an expression without assignment of depth <= depth.
func genExpr(rt *rapid.T, depth int) *node {
	if depth <= 1 {
		return genAtom(rt)
	}
	// kind table: index 0 is the simplest so that shrinking moves towards atoms
	kinds := []string{"atom", "bin", "bin", "bin", "bin", "bin", "bin", "as", "pre", "pre", "call", "index", "member", "bin", "bin", "as", "pre", "member", "call", "list", "obj"}
	k := kinds[rapid.IntRange(0, len(kinds)-1).Draw(rt, "kind")]
	sub := func(label string) *node {
		return genExpr(rt, rapid.IntRange(1, depth-1).Draw(rt, label+"-depth"))
	}
	deep := func() *node { return genExpr(rt, depth-1) }
	switch k {
	case "atom":
		return genAtom(rt)
	case "bin":
		op := allBinOps[rapid.IntRange(0, 18).Draw(rt, "binop")]
		if rapid.Bool().Draw(rt, "deep-left") {
			return bin(op, deep(), sub("r"))
		}
		return bin(op, sub("l"), deep())
	case "as":
		return cast(deep(), pick(rt, "type", richTypes))
	case "pre":
		return pre(pick(rt, "preop", prefixOps), deep())
	case "call":
		n := call(deep())
		for i, na := 0, rapid.IntRange(0, 3).Draw(rt, "nargs"); i < na; i++ {
			n.Kids = append(n.Kids, sub("arg"))
		}
		return n
	case "index":
		return index(deep(), sub("idx"))
	case "member":
		base := deep()
		if isNumAtom(base) {
			base = atom(pick(rt, "ident", idents)) // `1.m` is a lexical question, not a tree question
		}
		return member(base, pick(rt, "member", memberNames))
	case "list":
		n := &node{K: "list"}
		for i, ne := 0, rapid.IntRange(0, 3).Draw(rt, "nelems"); i < ne; i++ {
			n.Kids = append(n.Kids, sub("elem"))
		}
		return n
	case "obj":
		n := &node{K: "obj"}
		for i, nf := 0, rapid.IntRange(0, 3).Draw(rt, "nfields"); i < nf; i++ {
			n.Keys = append(n.Keys, fieldNames[i])
			n.Kids = append(n.Kids, sub("field"))
		}
		return n
	}
	panic("unreachable")
}

// genTarget draws an assignment target: identifier, index or member expression.
func genTarget(rt *rapid.T, depth int) *node {
	base := atom(pick(rt, "ident", idents))
	switch rapid.IntRange(0, 3).Draw(rt, "target") {
	case 0:
		return base
	case 1:
		return index(genPostfixChain(rt, base), genExpr(rt, min(depth, 3)))
	case 2:
		return member(genPostfixChain(rt, base), pick(rt, "member", memberNames))
	default:
		return index(member(base, pick(rt, "member", memberNames)), genAtom(rt))
	}
}

func genPostfixChain(rt *rapid.T, base *node) *node {
	for i, n := 0, rapid.IntRange(0, 2).Draw(rt, "chain"); i < n; i++ {
		switch rapid.IntRange(0, 2).Draw(rt, "link") {
		case 0:
			base = member(base, pick(rt, "member", memberNames))
		case 1:
			base = index(base, genAtom(rt))
		default:
			base = call(base, genAtom(rt))
		}
	}
	return base
}

// genRoot draws a complete expression; one assignment operator may appear, at the root.
func genRoot(rt *rapid.T, depth int, allowAssign bool) *node {
	if allowAssign && rapid.IntRange(0, 5).Draw(rt, "assign-root") == 5 {
		return assign(pick(rt, "aop", assignOps), genTarget(rt, depth), genExpr(rt, depth-1))
	}
	return genExpr(rt, depth)
}

// ---------------------------------------------------------------------------------------------
// embedding an expression into a program

var ctxs = []string{"stmt", "let", "tail", "ret", "cond"}

// further operand positions, used by the redundant-parentheses variants
var ctxsLayout = []string{"stmt", "let", "tail", "ret", "cond", "if", "match", "for", "arm", "arg", "elem", "field", "subscript", "global"}

func wrapCtx(ctx, expr string) string {
	switch ctx {
	case "", "stmt":
		return "fn main() { " + expr + "; }"
	case "let":
		return "fn main() { let v = " + expr + "; }"
	case "tail":
		return "fn main() { " + expr + " }"
	case "ret":
		return "fn main() { return " + expr + "; }"
	case "cond":
		return "fn main() { while " + expr + " { } }"
	case "if":
		return "fn main() { if " + expr + " { 1 } else if " + expr + " { 2 } else { 3 } }"
	case "match":
		return "fn main() { match " + expr + " { 1 => 2, _ => 3 } }"
	case "for":
		return "fn main() { for i in " + expr + " { } }"
	case "arm":
		return "fn main() { match x { 1 => " + expr + ", 2 => { 0 } _ => " + expr + " } }"
	case "arg":
		return "fn main() { f(" + expr + ", " + expr + "); spawn g(" + expr + "); trigger cb on ev(" + expr + "); }"
	case "elem":
		return "fn main() { [" + expr + ", " + expr + "]; }"
	case "field":
		return "fn main() { new { k: " + expr + " }; }"
	case "subscript":
		return "fn main() { x[" + expr + "] = y[" + expr + "]; }"
	case "global":
		return "let g = " + expr + ";\nfn main() { }"
	}
	panic("ctx " + ctx)
}

// ---------------------------------------------------------------------------------------------
// programs from templates

type pgen struct {
	rt *rapid.T
	n  int
}

func (g *pgen) fresh(p string) string { g.n++; return fmt.Sprintf("%s%d", p, g.n) }

func (g *pgen) expr() string {
	return printMarked(genExpr(g.rt, rapid.IntRange(1, 4).Draw(g.rt, "edepth")))
}

var typeTexts = []string{"int", "str", "[int]", "?float", "[[bool]]", "{ a: int\x01 }", "{ a: int, \"b c\": [str]\x01 }", "{ }", "?{ k: ?int\x01 }", "Obj"}

func (g *pgen) typ() string { return pick(g.rt, "typ", typeTexts) }

func (g *pgen) params() string {
	n := rapid.IntRange(0, 3).Draw(g.rt, "nparams")
	var ps []string
	for i := 0; i < n; i++ {
		ps = append(ps, fmt.Sprintf("p%d: %s", i, g.typ()))
	}
	if n == 0 {
		return "()"
	}
	return "(" + strings.Join(ps, ", ") + "\x01)"
}

func (g *pgen) block(depth int, tail bool) string {
	var b strings.Builder
	b.WriteString("{\n")
	prev := ""
	// A statement that ends with a block and has no `;` is continued by a following `(`, `[`, `-`
	// ... in this grammar (it is an expression); keep the generated statements separate.
	add := func(s string) {
		if strings.HasSuffix(prev, "\x02") && !isLetter(s[0]) {
			b.WriteString(";")
		}
		b.WriteString(strings.TrimSuffix(s, "\x02") + "\n")
		prev = s
	}
	for i, n := 0, rapid.IntRange(0, 3).Draw(g.rt, "nstmts"); i < n; i++ {
		add(g.stmt(depth))
	}
	if tail && rapid.Bool().Draw(g.rt, "tailexpr") {
		add(g.expr())
	}
	b.WriteString("}")
	return b.String()
}

func (g *pgen) matchExpr(depth int) string {
	var b strings.Builder
	b.WriteString("match " + g.expr() + " {\n")
	lits := []string{"1", "2 | 3", `"s"`, "true", "-1", "0.5", "none"}
	n := rapid.IntRange(0, 3).Draw(g.rt, "narms")
	for i := 0; i < n; i++ {
		b.WriteString(pick(g.rt, "lit", lits) + " => ")
		if depth > 0 && rapid.IntRange(0, 3).Draw(g.rt, "armblock") == 0 {
			b.WriteString(g.block(depth-1, true))
		} else {
			b.WriteString(g.expr())
		}
		b.WriteString(",\n")
	}
	b.WriteString("_ => " + g.expr() + "\x01\n}")
	return b.String()
}

func (g *pgen) stmt(depth int) string {
	hi := 11
	if depth <= 0 {
		hi = 5
	}
	// grammar.ebnf also allows `;` after while/for/loop blocks, which the parser refuses; that is a
	// statement-grammar question outside the C07 statement, so it is not generated (reported).
	optSemi := func() string {
		if rapid.Bool().Draw(g.rt, "semi") {
			return ";"
		}
		return "\x02" // an expression statement that ends with a block and could be continued
	}
	switch rapid.IntRange(0, hi).Draw(g.rt, "stmt") {
	case 0:
		return "let " + g.fresh("v") + " = " + g.expr() + ";"
	case 1:
		return g.expr() + ";"
	case 2:
		return printMarked(assign(pick(g.rt, "aop", assignOps), genTarget(g.rt, 2), genExpr(g.rt, 3))) + ";"
	case 3:
		return "let " + g.fresh("v") + ": " + g.typ() + " = " + g.expr() + ";"
	case 4:
		switch rapid.IntRange(0, 6).Draw(g.rt, "simple") {
		case 6:
			return "let " + g.fresh("s") + ` = "q\"uote // not a comment" + 'single  /* quoted */ \' ';`
		case 0:
			return "return;"
		case 1:
			return "return " + g.expr() + ";"
		case 2:
			return "break;"
		case 3:
			return "continue;"
		case 4:
			return "type " + g.fresh("L") + " = " + g.typ() + ";"
		default:
			return "spawn worker(" + g.expr() + "\x01);"
		}
	case 5:
		return "trigger cb " + pick(g.rt, "conn", []string{"on", "at"}) + " ev(" + g.expr() + ", " + g.expr() + "\x01);"
	case 6:
		s := "if " + g.expr() + " " + g.block(depth-1, false)
		switch rapid.IntRange(0, 2).Draw(g.rt, "else") {
		case 1:
			s += " else " + g.block(depth-1, false)
		case 2:
			s += " else if " + g.expr() + " " + g.block(depth-1, false) + " else " + g.block(depth-1, false)
		}
		return s + optSemi()
	case 7:
		return "while " + g.expr() + " " + g.block(depth-1, false)
	case 8:
		return "for " + g.fresh("i") + " in " + g.expr() + " " + g.block(depth-1, false)
	case 9:
		if rapid.Bool().Draw(g.rt, "loop-or-try") {
			return "loop " + g.block(depth-1, false)
		}
		return "try " + g.block(depth-1, true) + " catch e " + g.block(depth-1, true) + optSemi()
	case 10:
		if rapid.Bool().Draw(g.rt, "match-stmt") {
			return g.matchExpr(depth-1) + optSemi()
		}
		return "let " + g.fresh("m") + " = " + g.matchExpr(depth-1) + ";"
	default:
		if rapid.Bool().Draw(g.rt, "fnlit") {
			return "let " + g.fresh("fl") + " = fn" + g.params() + " -> " + g.typ() + " " + g.block(depth-1, true) + ";"
		}
		return "let " + g.fresh("blk") + " = " + g.block(depth-1, true) + ";"
	}
}

// genProgram returns program text with \x01 at every trailing-comma slot.
func genProgram(rt *rapid.T) string {
	g := &pgen{rt: rt}
	var b strings.Builder
	for i, n := 0, rapid.IntRange(0, 4).Draw(rt, "nitems"); i < n; i++ {
		switch rapid.IntRange(0, 8).Draw(rt, "item") {
		case 6:
			b.WriteString("$" + g.fresh("Dev") + " = { power: bool, @setting url: str, level: ?int\x01 };\n")
		case 7:
			slot := "\x01"
			if pk.GateOpen("impl-with-comma") { // open finding C07-003
				pk.Gate("impl-with-comma")
				slot = ""
			}
			b.WriteString("impl Feature with { light, dim" + slot + " } for $Lamp {\nfn " + g.fresh("method") + "(self: $Lamp, pct: int\x01) -> bool " + g.block(1, true) + "\n}\n")
		case 8:
			b.WriteString("#[trigger " + pick(rt, "conn", []string{"on", "at", "in"}) + " minute(" + g.expr() + ", " + g.expr() + "\x01)]\nevent fn " + g.fresh("handler") + "(elapsed: int\x01) " + g.block(1, false) + "\n")
		case 0:
			switch rapid.IntRange(0, 2).Draw(rt, "import") {
			case 0:
				b.WriteString("import foo from lib;\n")
			case 1:
				b.WriteString("import { foo\x01 } from lib;\n")
			default:
				b.WriteString("import { foo, type Bar, templ Baz\x01 } from lib2;\n")
			}
		case 1:
			b.WriteString(pick(rt, "pub", []string{"", "pub "}) + "type " + g.fresh("T") + " = " + g.typ() + ";\n")
		case 2:
			b.WriteString(pick(rt, "pub", []string{"", "pub "}) + "let " + g.fresh("g") + " = " + g.expr() + ";\n")
		case 3:
			b.WriteString("let " + g.fresh("g") + ": " + g.typ() + " = " + g.expr() + ";\n")
		default:
			b.WriteString(pick(rt, "mod", []string{"", "pub ", "event "}) + "fn " + g.fresh("fun") + g.params())
			if rapid.Bool().Draw(rt, "ret") {
				b.WriteString(" -> " + g.typ())
			}
			b.WriteString(" " + g.block(2, true) + "\n")
		}
	}
	b.WriteString("fn main() " + g.block(2, true) + "\n")
	return b.String()
}

// ---------------------------------------------------------------------------------------------
// separators

var blockBodies = []string{"", " c ", "*", "/", " a + b ", " \" open string ", " ' ", "\n multi\n line\n", " // not a line comment ", " /* nested opener ", " fn main() { } ", " ünï→😀 ", "**", " * / ", "\t"}
var lineBodies = []string{"", " c", " /* not a block", " */", " \"str", " ünï😀", "/ triple", " let x = 1;", "\t tab"}

type sepOpts struct {
	noTab bool
	atEOF bool
}

// genSep draws a non-empty separator made of whitespace and comments.
func genSep(rt *rapid.T, o sepOpts) string {
	var b strings.Builder
	n := rapid.IntRange(1, 3).Draw(rt, "npieces")
	for i := 0; i < n; i++ {
		switch k := rapid.IntRange(0, 8).Draw(rt, "piece"); k {
		case 0:
			b.WriteString(" ")
		case 1:
			b.WriteString("\n")
		case 2:
			b.WriteString("   ")
		case 3:
			b.WriteString("\r\n")
		case 4:
			if rapid.Bool().Draw(rt, "lone-cr") {
				b.WriteString("\r")
			} else {
				b.WriteString("\n\n    ")
			}
		case 5:
			if o.noTab {
				b.WriteString(" ")
			} else {
				b.WriteString("\t")
			}
		case 6:
			body := pick(rt, "block-body", blockBodies)
			if o.noTab {
				body = strings.ReplaceAll(body, "\t", " ")
			}
			b.WriteString("/*" + body + "*/")
		default:
			body := pick(rt, "line-body", lineBodies)
			if o.noTab {
				body = strings.ReplaceAll(body, "\t", " ")
			}
			nl := "\n"
			if k == 8 {
				nl = "\r\n"
			}
			if o.atEOF && i == n-1 && rapid.Bool().Draw(rt, "no-final-newline") {
				nl = ""
			}
			b.WriteString("//" + body + nl)
		}
	}
	return b.String()
}
