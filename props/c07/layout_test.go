package c07

// Splitting a source text into lexemes and the gaps between them. Token *start* positions and
// kinds come from the repository's lexer; where a lexeme ends and what a gap contains is decided
// here (a gap must consist of whitespace and comments only), so inexact token end positions do
// not matter. A text whose pieces do not add up is discarded, never judged.

import (
	"os"
	"path/filepath"
	"sort"
	"strings"
	"sync"

	"github.com/smarthome-go/homescript/v3/homescript/lexer"
)

func isWS(r rune) bool { return r == ' ' || r == '\n' || r == '\t' || r == '\r' }

// isGapText reports whether s consists of whitespace, line comments and block comments only.
func isGapText(s []rune) bool {
	i := 0
	for i < len(s) {
		switch {
		case isWS(s[i]):
			i++
		case s[i] == '/' && i+1 < len(s) && s[i+1] == '/':
			for i < len(s) && s[i] != '\n' {
				i++
			}
		case s[i] == '/' && i+1 < len(s) && s[i+1] == '*':
			j := i + 2
			for j+1 < len(s) && !(s[j] == '*' && s[j+1] == '/') {
				j++
			}
			if j+1 >= len(s) {
				return false
			}
			i = j + 2
		default:
			return false
		}
	}
	return true
}

func hasWS(s string) bool { return strings.ContainsAny(s, " \n\t\r") }

type split struct {
	lex  []string // lexemes
	gaps []string // gaps[0] precedes lex[0]; gaps[i+1] follows lex[i]; len(gaps) == len(lex)+1
}

func (s split) String() string {
	var b strings.Builder
	b.WriteString(s.gaps[0])
	for i, l := range s.lex {
		b.WriteString(l)
		b.WriteString(s.gaps[i+1])
	}
	return b.String()
}

func splitText(text string) (sp split, ok bool) {
	defer func() {
		if recover() != nil {
			ok = false
		}
	}()
	runes := []rune(text)
	type tk struct {
		start int
		kind  lexer.TokenKind
	}
	var toks []tk
	lx := lexer.NewLexer(text, "c07.hms")
	for n := 0; ; n++ {
		t, err := lx.NextToken()
		if err != nil || n > len(runes)+1 {
			return sp, false
		}
		if t.Kind == lexer.EOF {
			break
		}
		toks = append(toks, tk{int(t.Span.Start.Index), t.Kind})
	}
	if len(toks) == 0 {
		return sp, false
	}
	prev := -1
	for _, t := range toks {
		if t.start <= prev || t.start >= len(runes) {
			return sp, false
		}
		prev = t.start
	}
	if !isGapText(runes[:toks[0].start]) {
		return sp, false
	}
	sp.gaps = append(sp.gaps, string(runes[:toks[0].start]))
	for k, t := range toks {
		limit := len(runes)
		if k+1 < len(toks) {
			limit = toks[k+1].start
		}
		end := t.start
		if t.kind == lexer.String {
			q := runes[end]
			if q != '"' && q != '\'' {
				return sp, false
			}
			end++
			for end < limit && runes[end] != q {
				if runes[end] == '\\' {
					end++
				}
				end++
			}
			end++ // closing quote
			if end > limit {
				return sp, false
			}
		} else {
			for end < limit && !isWS(runes[end]) &&
				!(end > t.start && runes[end] == '/' && end+1 < len(runes) && (runes[end+1] == '/' || runes[end+1] == '*')) {
				end++
			}
		}
		if end == t.start || !isGapText(runes[end:limit]) {
			return sp, false
		}
		sp.lex = append(sp.lex, string(runes[t.start:end]))
		sp.gaps = append(sp.gaps, string(runes[end:limit]))
	}
	return sp, sp.String() == text
}

// ---------------------------------------------------------------------------------------------
// corpus of valid programs shipped with the repository

type corpusFile struct {
	Name string
	Text string
	sp   split
}

var (
	corpusOnce sync.Once
	corpus     []corpusFile
	corpusSkip = map[string]int{}
)

func loadCorpus() []corpusFile {
	corpusOnce.Do(func() {
		var paths []string
		for _, pat := range []string{"/repo/examples/*.hms", "/repo/tests/*.hms"} {
			m, _ := filepath.Glob(pat)
			paths = append(paths, m...)
		}
		sort.Strings(paths)
		for _, p := range paths {
			b, err := os.ReadFile(p)
			if err != nil {
				corpusSkip["unreadable"]++
				continue
			}
			text := string(b)
			if !parseRepo(text).clean() {
				corpusSkip["does-not-parse"]++
				continue
			}
			sp, ok := splitText(text)
			if !ok {
				corpusSkip["split-inconsistent"]++
				continue
			}
			corpus = append(corpus, corpusFile{Name: strings.TrimPrefix(p, "/repo/"), Text: text, sp: sp})
		}
	})
	return corpus
}
