package c07

import (
	"fmt"
	"strings"
	"testing"

	"verif/pk"
)

// Block-like operands (`{ }`, `if`, `match`, `try`, function literal) followed by a postfix form or an infix
// operator: whatever separates the closing `}` from what follows - nothing, blanks, line ends, comments - the tree
// is the same.
var blockLikes = []string{
	"{ xs }", "{ let t = 1; f }", "if p { f } else { g }", "if p { f } else if q { g } else { h }", "match k { 1 => f, _ => g }",
	"try { f } catch e { g }", "fn(n: int) -> int { n }", "{ { f } }", "new { a: f }", "[f]", "(f)", "f", "f(1)", "xs[0]",
}

var blockFollowers = []string{"(7)", "()", "[2]", "[2] * 2", "(1)(2)", "[0][1]", ".m", ".m(3)", "(7).m", " + 1", " as int", "[2] = 5", "(1, 2,)"}

var blockSeps = []string{" ", "\n", "\r\n", "\n\n    ", "\t", " // c\n", "/* c */", " /* c */ ", "\n// c\n", "\n/* c\n*/\n"}

func TestTableBlockPostfix(t *testing.T) {
	pk.SkipIfReplay(t)
	col := pk.NewCollector()
	k := 0
	for _, ctx := range []string{"stmt", "let", "tail", "ret", "arg", "elem", "field", "arm", "global"} {
		for _, bl := range blockLikes {
			for _, fo := range blockFollowers {
				for _, sep := range blockSeps {
					k++
					if !pk.Mine(k) {
						continue
					}
					a := wrapCtx(ctx, "1 + "+bl+fo)
					b := wrapCtx(ctx, "1 + "+bl+sep+fo)
					if ctx == "stmt" || ctx == "tail" {
						// also with the block-like operand first in its statement
						a = wrapCtx(ctx, bl+fo)
						b = wrapCtx(ctx, bl+sep+fo)
					}
					c := layoutCase{A: a, B: b, Kind: "gapsins:blockpostfix"}
					pk.Eval()
					pk.Class("blockpostfix:" + ctx)
					if pa := parseRepo(a); pa.clean() {
						pk.NonTrivial(b, map[string]string{"context": ctx, "operand": bl, "follower": fo, "separator": fmt.Sprintf("%q", sep)})
					}
					col.Report(c, checkLayout(c))
				}
			}
		}
	}
	// A block-like operand is a single node: in parentheses or not, it is the LEFT operand of what follows it - also
	// when it stands first in a statement or in the result position of a block.
	for _, ctx := range []string{"stmt", "tail", "let", "ret", "arg"} {
		for _, bl := range blockLikes {
			for _, fo := range []string{" - 2", " + 1 * 3", " * 3 - 1", " == 1", " < 2 && p", " as int", " ** 2", " | 1", ".m", "[0]", "(1)", " - 2 - 3"} {
				k++
				if !pk.Mine(k) {
					continue
				}
				c := layoutCase{A: wrapCtx(ctx, bl+fo), B: wrapCtx(ctx, "("+bl+")"+fo), Kind: "parens:block-like-left-operand"}
				pk.Eval()
				pk.Class("blockleft:" + ctx)
				if pa := parseRepo(c.A); pa.clean() {
					pk.NonTrivial(c.A, map[string]string{"context": ctx, "operand": bl, "follower": fo})
				}
				col.Report(c, checkLayout(c))
			}
		}
	}
	// every assignment and binary operator glued to its operands: the characters next to an operator belong to the operands
	ops := []string{"=", "+=", "-=", "*=", "/=", "%=", "**=", "<<=", ">>=", "|=", "&=", "^=",
		"+", "-", "*", "/", "%", "**", "<<", ">>", "|", "&", "^", "||", "&&", "==", "!=", "<", "<=", ">", ">=", "as"}
	for _, op := range ops {
		for _, rhs := range []string{"1", "-1", "10", "(y)", "y", "!y", "[1][0]", "\"s\"", "f(2)", "{ 3 }"} {
			if op == "as" {
				rhs = "int"
			}
			spaced := "x " + op + " " + rhs
			for li, glued := range []string{"x " + op + rhs, "x" + op + " " + rhs, "x" + op + rhs, "x " + op + "/*c*/" + rhs, "x/*c*/" + op + "\n" + rhs} {
				if op == "as" && li < 3 {
					continue // `as` is a word: it needs separators
				}
				if li >= 3 && strings.ContainsAny(op, "/*") {
					continue // `/` next to `/*` would spell another comment
				}
				k++
				if !pk.Mine(k) {
					continue
				}
				c := layoutCase{A: wrapCtx("stmt", spaced), B: wrapCtx("stmt", glued), Kind: "gaps:operator-glued-to-operands"}
				pk.Eval()
				pk.Class("operator-layout:" + op)
				if pa := parseRepo(c.A); pa.clean() {
					pk.NonTrivial(c.B, map[string]string{"operator": op, "operand": rhs})
				}
				col.Report(c, checkLayout(c))
			}
		}
	}
	pk.Exhaustive("block-postfix")
	col.Done(t)
}
