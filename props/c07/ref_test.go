package c07

// Reference side of C07: an expression tree type, a tiny tokenizer, a precedence-climbing parser
// driven by the operator table of the property statement, and printers (minimal / fully
// parenthesised / with extra parentheses / with trailing-comma slots).
//
// Nothing in this file looks at the repository's lexer or its Prec() table.

import (
	"fmt"
	"sort"
	"strings"
)

// ---------------------------------------------------------------------------------------------
// the operator table of the property statement

// assignment < || < && < | < ^ < & < equality < comparison < shift < additive <
// multiplicative < as < ** (right-associative); all others left-associative.
var binLevels = []struct {
	class string
	ops   []string
}{
	{"lor", []string{"||"}},
	{"land", []string{"&&"}},
	{"bor", []string{"|"}},
	{"xor", []string{"^"}},
	{"band", []string{"&"}},
	{"eq", []string{"==", "!="}},
	{"cmp", []string{"<", ">", "<=", ">="}},
	{"shift", []string{"<<", ">>"}},
	{"add", []string{"+", "-"}},
	{"mul", []string{"*", "/", "%"}},
	{"as", []string{"as"}},
	{"pow", []string{"**"}},
}

const (
	lvlAssign  = 1
	lvlFirst   = 2 // "||"
	lvlAs      = 12
	lvlPow     = 13
	lvlPrefix  = 20
	lvlPostfix = 30
	lvlPrimary = 40
)

var assignOps = []string{"=", "+=", "-=", "*=", "/=", "%=", "**=", "<<=", ">>=", "|=", "&=", "^="}
var prefixOps = []string{"-", "!", "?"}
var prefixName = map[string]string{"-": "neg", "!": "not", "?": "some"}
var typeNames = []string{"int", "float", "bool", "str"}

// further right operands of `as` used by the random trees
var richTypes = []string{"int", "float", "bool", "str", "int", "float", "[int]", "?int", "[?str]", "?[float]", "Obj"}

var (
	binLevel  = map[string]int{}
	binClass  = map[string]string{}
	isAssign  = map[string]bool{}
	allBinOps []string // the 19 infix operators followed by "as"
)

func init() {
	for i, l := range binLevels {
		for _, op := range l.ops {
			binLevel[op] = lvlFirst + i
			binClass[op] = l.class
		}
	}
	for _, l := range binLevels {
		if l.class != "as" {
			allBinOps = append(allBinOps, l.ops...)
		}
	}
	allBinOps = append(allBinOps, "as")
	for _, op := range assignOps {
		isAssign[op] = true
	}
	if len(allBinOps) != 20 || binLevel["as"] != lvlAs || binLevel["**"] != lvlPow {
		panic("operator table broken")
	}
}

func rightAssoc(op string) bool { return op == "**" }

// ---------------------------------------------------------------------------------------------
// tree

type node struct {
	K    string   // atom bin as pre call index member assign list obj
	Op   string   // operator / atom text / type name / member name
	Kids []*node  // operands; call: callee then arguments
	Keys []string // obj: field names
}

func atom(s string) *node             { return &node{K: "atom", Op: s} }
func bin(op string, l, r *node) *node { return &node{K: "bin", Op: op, Kids: []*node{l, r}} }
func cast(x *node, t string) *node    { return &node{K: "as", Op: t, Kids: []*node{x}} }
func pre(op string, x *node) *node    { return &node{K: "pre", Op: op, Kids: []*node{x}} }
func call(f *node, args ...*node) *node {
	return &node{K: "call", Kids: append([]*node{f}, args...)}
}
func index(a, i *node) *node         { return &node{K: "index", Kids: []*node{a, i}} }
func member(a *node, m string) *node { return &node{K: "member", Op: m, Kids: []*node{a}} }
func assign(op string, l, r *node) *node {
	return &node{K: "assign", Op: op, Kids: []*node{l, r}}
}

// sexp is the canonical form shared with the canonicaliser of the repository's tree.
func (n *node) sexp() string {
	var b strings.Builder
	n.writeSexp(&b)
	return b.String()
}

func (n *node) writeSexp(b *strings.Builder) {
	kids := func() {
		for _, k := range n.Kids {
			b.WriteByte(' ')
			k.writeSexp(b)
		}
	}
	switch n.K {
	case "atom":
		b.WriteString(n.Op)
	case "bin", "assign":
		b.WriteString("(" + n.Op)
		kids()
		b.WriteByte(')')
	case "as":
		b.WriteString("(as")
		kids()
		b.WriteString(" " + n.Op + ")")
	case "pre":
		b.WriteString("(" + prefixName[n.Op])
		kids()
		b.WriteByte(')')
	case "call", "index", "list":
		b.WriteString("(" + n.K)
		kids()
		b.WriteByte(')')
	case "member":
		b.WriteString("(member")
		kids()
		b.WriteString(" " + n.Op + ")")
	case "obj":
		b.WriteString("(obj")
		for i, k := range n.Kids {
			b.WriteString(" (" + n.Keys[i] + " ")
			k.writeSexp(b)
			b.WriteByte(')')
		}
		b.WriteByte(')')
	default:
		panic("node kind " + n.K)
	}
}

// level is the binding strength of the node's own operator.
func (n *node) level() int {
	switch n.K {
	case "assign":
		return lvlAssign
	case "bin":
		return binLevel[n.Op]
	case "as":
		return lvlAs
	case "pre":
		return lvlPrefix
	case "call", "index", "member":
		return lvlPostfix
	}
	return lvlPrimary
}

func (n *node) class() string {
	switch n.K {
	case "assign":
		return "asg"
	case "bin":
		return binClass[n.Op]
	case "as":
		return "as"
	case "pre":
		return "pre"
	case "call", "index", "member":
		return n.K
	}
	return ""
}

// classes lists the operator classes of the tree in pre-order (atoms and literals excluded).
func (n *node) classes(out []string) []string {
	if c := n.class(); c != "" {
		out = append(out, c)
	}
	for _, k := range n.Kids {
		out = k.classes(out)
	}
	return out
}

func sigOf(cls []string) string {
	set := map[string]bool{}
	for _, c := range cls {
		set[c] = true
	}
	var ks []string
	for k := range set {
		ks = append(ks, k)
	}
	sort.Strings(ks)
	if len(ks) > 4 {
		return "many"
	}
	if len(ks) == 0 {
		return "none"
	}
	return strings.Join(ks, ",")
}

func (n *node) depth() int {
	d := 0
	for _, k := range n.Kids {
		if x := k.depth(); x > d {
			d = x
		}
	}
	return d + 1
}

// ---------------------------------------------------------------------------------------------
// tokenizer (only what the generated expression texts need)

type rtok struct {
	kind string // id num str op eof
	text string
}

var refOps = []string{
	"**=", "<<=", ">>=",
	"**", "<<", ">>", "<=", ">=", "==", "!=", "&&", "||", "+=", "-=", "*=", "/=", "%=", "|=", "&=", "^=",
	"+", "-", "*", "/", "%", "<", ">", "=", "!", "?", "&", "|", "^", "(", ")", "[", "]", ".", ",", "{", "}", ":",
}

func isLetter(c byte) bool { return c == '_' || (c >= 'a' && c <= 'z') || (c >= 'A' && c <= 'Z') }
func isDigit(c byte) bool  { return c >= '0' && c <= '9' }

func refTokens(s string) ([]rtok, error) {
	var out []rtok
	i := 0
outer:
	for i < len(s) {
		c := s[i]
		switch {
		case c == ' ' || c == '\n' || c == '\t' || c == '\r':
			i++
		case c == '/' && i+1 < len(s) && s[i+1] == '/':
			for i < len(s) && s[i] != '\n' {
				i++
			}
		case c == '/' && i+1 < len(s) && s[i+1] == '*':
			j := strings.Index(s[i+2:], "*/")
			if j < 0 {
				return nil, fmt.Errorf("unterminated comment")
			}
			i += 2 + j + 2
		case isLetter(c):
			j := i
			for j < len(s) && (isLetter(s[j]) || isDigit(s[j])) {
				j++
			}
			out = append(out, rtok{"id", s[i:j]})
			i = j
		case isDigit(c):
			j := i
			for j < len(s) && isDigit(s[j]) {
				j++
			}
			if j+1 < len(s) && s[j] == '.' && isDigit(s[j+1]) {
				j++
				for j < len(s) && isDigit(s[j]) {
					j++
				}
			}
			out = append(out, rtok{"num", s[i:j]})
			i = j
		case c == '"':
			j := strings.IndexByte(s[i+1:], '"')
			if j < 0 {
				return nil, fmt.Errorf("unterminated string")
			}
			out = append(out, rtok{"str", s[i : i+j+2]})
			i += j + 2
		default:
			for _, op := range refOps {
				if strings.HasPrefix(s[i:], op) {
					out = append(out, rtok{"op", op})
					i += len(op)
					continue outer
				}
			}
			return nil, fmt.Errorf("unexpected character %q", c)
		}
	}
	return append(out, rtok{"eof", ""}), nil
}

// ---------------------------------------------------------------------------------------------
// reference parser (precedence climbing over the table above)

type refParser struct {
	toks []rtok
	pos  int
}

type refErr string

func (p *refParser) cur() rtok { return p.toks[p.pos] }
func (p *refParser) fail(f string, a ...any) {
	panic(refErr(fmt.Sprintf(f, a...)))
}
func (p *refParser) isOp(s string) bool { t := p.cur(); return t.kind == "op" && t.text == s }
func (p *refParser) expectOp(s string) {
	if !p.isOp(s) {
		p.fail("expected %q, found %q", s, p.cur().text)
	}
	p.pos++
}

// refParse returns the tree the operator table assigns to the text.
func refParse(text string) (n *node, err error) {
	toks, err := refTokens(text)
	if err != nil {
		return nil, err
	}
	p := &refParser{toks: toks}
	defer func() {
		if r := recover(); r != nil {
			if e, ok := r.(refErr); ok {
				n, err = nil, fmt.Errorf("%s", string(e))
				return
			}
			panic(r)
		}
	}()
	n = p.expr()
	if p.cur().kind != "eof" {
		p.fail("trailing input at %q", p.cur().text)
	}
	return n, nil
}

// expr: the assignment level. The property does not state the associativity of assignment, so a
// second assignment operator at this level is refused instead of being given a shape.
func (p *refParser) expr() *node {
	lhs := p.binary(lvlFirst)
	if t := p.cur(); t.kind == "op" && isAssign[t.text] {
		switch lhs.K {
		case "atom", "index", "member":
		default:
			p.fail("assignment target is a %s expression", lhs.K)
		}
		p.pos++
		rhs := p.binary(lvlFirst)
		if t2 := p.cur(); t2.kind == "op" && isAssign[t2.text] {
			p.fail("chained assignment: shape not fixed by the property")
		}
		return assign(t.text, lhs, rhs)
	}
	return lhs
}

func (p *refParser) curBinOp() (string, int, bool) {
	t := p.cur()
	if t.kind == "op" {
		if l, ok := binLevel[t.text]; ok {
			return t.text, l, true
		}
	}
	if t.kind == "id" && t.text == "as" {
		return "as", lvlAs, true
	}
	return "", 0, false
}

func (p *refParser) binary(min int) *node {
	lhs := p.unary()
	for {
		op, lvl, ok := p.curBinOp()
		if !ok || lvl < min {
			return lhs
		}
		p.pos++
		if op == "as" {
			lhs = cast(lhs, p.typ())
			continue
		}
		var rhs *node
		if rightAssoc(op) {
			rhs = p.binary(lvl)
		} else {
			rhs = p.binary(lvl + 1)
		}
		lhs = bin(op, lhs, rhs)
	}
}

// typ: the right operand of `as`: a name, a list type [T] or an option type ?T.
func (p *refParser) typ() string {
	t := p.cur()
	switch {
	case t.kind == "id":
		p.pos++
		return t.text
	case p.isOp("["):
		p.pos++
		inner := p.typ()
		p.expectOp("]")
		return "[" + inner + "]"
	case p.isOp("?"):
		p.pos++
		return "?" + p.typ()
	}
	p.fail("expected type after as, found %q", t.text)
	return ""
}

// unary: prefix operators bind tighter than every binary operator, looser than postfix.
func (p *refParser) unary() *node {
	if t := p.cur(); t.kind == "op" && prefixName[t.text] != "" {
		p.pos++
		return pre(t.text, p.unary())
	}
	return p.postfix()
}

func (p *refParser) postfix() *node {
	n := p.primary()
	for {
		switch {
		case p.isOp("("):
			p.pos++
			n = call(n, p.list(")")...)
		case p.isOp("["):
			p.pos++
			i := p.expr()
			p.expectOp("]")
			n = index(n, i)
		case p.isOp("."):
			p.pos++
			t := p.cur()
			if t.kind != "id" {
				p.fail("expected member name")
			}
			p.pos++
			n = member(n, t.text)
		default:
			return n
		}
	}
}

// list parses comma separated expressions up to the closing token; a trailing comma is allowed.
func (p *refParser) list(closer string) []*node {
	var out []*node
	for !p.isOp(closer) {
		out = append(out, p.expr())
		if p.isOp(",") {
			p.pos++
			continue
		}
		break
	}
	p.expectOp(closer)
	return out
}

func (p *refParser) primary() *node {
	t := p.cur()
	switch {
	case t.kind == "id" && t.text == "new":
		p.pos++
		p.expectOp("{")
		o := &node{K: "obj"}
		for !p.isOp("}") {
			k := p.cur()
			if k.kind != "id" {
				p.fail("expected field name")
			}
			p.pos++
			p.expectOp(":")
			o.Keys = append(o.Keys, k.text)
			o.Kids = append(o.Kids, p.expr())
			if p.isOp(",") {
				p.pos++
				continue
			}
			break
		}
		p.expectOp("}")
		return o
	case t.kind == "id" && t.text == "as":
		p.fail("operand expected, found as")
	case t.kind == "id" || t.kind == "num" || t.kind == "str":
		p.pos++
		return atom(t.text)
	case p.isOp("("):
		p.pos++
		n := p.expr()
		p.expectOp(")")
		return n // parentheses leave no trace in the tree
	case p.isOp("["):
		p.pos++
		return &node{K: "list", Kids: p.list("]")}
	}
	p.fail("operand expected, found %q", t.text)
	return nil
}

// ---------------------------------------------------------------------------------------------
// printers

type piece struct {
	kind  string // atom binop preop lgroup rgroup open close dot comma mark word
	text  string
	group int // id of a grouping-parenthesis pair (lgroup/rgroup)
}

type printer struct {
	full   bool          // parenthesise every compound operand
	extra  map[*node]int // additional pairs around nodes that are a single node already
	marks  bool          // emit \x01 where a trailing comma may be added
	out    []piece
	ngroup int
	// filled while printing: nodes around which redundant parentheses are allowed
	single []*node
}

func (p *printer) emit(kind, text string) { p.out = append(p.out, piece{kind: kind, text: text}) }

// needParens is the textbook rule for a child of a node with the given level.
func needParens(parent *node, idx int, child *node) bool {
	cl := child.level()
	switch parent.K {
	case "bin":
		pl := parent.level()
		if cl != pl {
			return cl < pl
		}
		if rightAssoc(parent.Op) {
			return idx == 0
		}
		return idx == 1
	case "as":
		return cl < lvlAs
	case "pre":
		return cl < lvlPrefix
	case "call", "index", "member":
		if idx == 0 {
			return cl < lvlPostfix
		}
		return false
	case "assign":
		if idx == 0 {
			return false // targets are identifiers, index or member expressions
		}
		return cl <= lvlAssign
	}
	return false
}

func (p *printer) child(parent *node, idx int, c *node) {
	wrap := needParens(parent, idx, c)
	isTarget := parent.K == "assign" && idx == 0
	if p.full && !isTarget && c.K != "atom" {
		wrap = true
	}
	n := 0
	if wrap {
		n = 1
	}
	// redundant parentheses: the operand is a single node (identifier, literal, call, index,
	// member) or is parenthesised already. The bare target of an assignment is left alone.
	if !isTarget {
		switch c.K {
		case "atom", "call", "index", "member", "list", "obj":
			p.single = append(p.single, c)
			n += p.extra[c]
		default:
			if wrap {
				p.single = append(p.single, c)
				n += p.extra[c]
			}
		}
	}
	ids := make([]int, n)
	for i := range ids {
		p.ngroup++
		ids[i] = p.ngroup
		p.out = append(p.out, piece{kind: "lgroup", text: "(", group: p.ngroup})
	}
	p.node(c)
	for i := n - 1; i >= 0; i-- {
		p.out = append(p.out, piece{kind: "rgroup", text: ")", group: ids[i]})
	}
}

func (p *printer) mark() {
	if p.marks {
		p.emit("mark", "\x01")
	}
}

func (p *printer) node(n *node) {
	switch n.K {
	case "atom":
		p.emit("atom", n.Op)
	case "bin", "assign":
		p.child(n, 0, n.Kids[0])
		p.emit("binop", n.Op)
		p.child(n, 1, n.Kids[1])
	case "as":
		p.child(n, 0, n.Kids[0])
		p.emit("binop", "as")
		p.emit("atom", n.Op)
	case "pre":
		p.emit("preop", n.Op)
		p.child(n, 0, n.Kids[0])
	case "call":
		p.child(n, 0, n.Kids[0])
		p.emit("open", "(")
		for i, a := range n.Kids[1:] {
			if i > 0 {
				p.emit("comma", ",")
			}
			p.child(n, i+1, a)
		}
		if len(n.Kids) > 1 {
			p.mark()
		}
		p.emit("close", ")")
	case "index":
		p.child(n, 0, n.Kids[0])
		p.emit("open", "[")
		p.child(n, 1, n.Kids[1])
		p.emit("close", "]")
	case "member":
		p.child(n, 0, n.Kids[0])
		p.emit("dot", ".")
		p.emit("atom", n.Op)
	case "list":
		p.emit("open", "[")
		for i, a := range n.Kids {
			if i > 0 {
				p.emit("comma", ",")
			}
			p.child(n, i+1, a)
		}
		if len(n.Kids) > 0 {
			p.mark()
		}
		p.emit("close", "]")
	case "obj":
		p.emit("word", "new")
		p.emit("open", "{")
		for i, a := range n.Kids {
			if i > 0 {
				p.emit("comma", ",")
			}
			p.emit("atom", n.Keys[i])
			p.emit("colon", ":")
			p.child(n, i+1, a)
		}
		if len(n.Kids) > 0 {
			p.mark()
		}
		p.emit("close", "}")
	default:
		panic("node kind " + n.K)
	}
}

// join renders the pieces with one canonical spacing: binary operators and `as` are surrounded
// by single spaces, commas and colons are followed by one, prefix operators are attached to
// their operand except in front of another prefix operator.
func join(ps []piece, drop map[int]bool) string {
	var b strings.Builder
	prev := piece{}
	for _, q := range ps {
		if (q.kind == "lgroup" || q.kind == "rgroup") && drop[q.group] {
			continue
		}
		if needSpace(prev, q) {
			b.WriteByte(' ')
		}
		b.WriteString(q.text)
		prev = q
	}
	return b.String()
}

func needSpace(prev, q piece) bool {
	switch {
	case prev.kind == "", q.kind == "mark":
		return false
	case q.kind == "binop", prev.kind == "binop":
		return true
	case prev.kind == "comma", prev.kind == "colon", prev.kind == "word":
		return true
	case prev.kind == "preop" && q.kind == "preop":
		return true
	case prev.text == "{", q.text == "}": // `new { a: 1 }`
		return true
	}
	return false
}

// printFull parenthesises every compound operand.
func printFull(n *node) string {
	p := &printer{full: true}
	p.node(n)
	return join(p.out, nil)
}

// printStd uses the textbook parenthesisation rule.
func printStd(n *node) string {
	p := &printer{}
	p.node(n)
	return join(p.out, nil)
}

// printMinimal starts from the textbook rule and then drops every pair of parentheses whose
// removal leaves the reference tree unchanged (this finds e.g. `a as int ** b`).
func printMinimal(n *node) string {
	p := &printer{}
	p.node(n)
	want := n.sexp()
	drop := map[int]bool{}
	for g := 1; g <= p.ngroup; g++ {
		drop[g] = true
		if t, err := refParse(join(p.out, drop)); err != nil || t.sexp() != want {
			delete(drop, g)
		}
	}
	return join(p.out, drop)
}

// singles lists the nodes around which redundant parentheses may be put.
func singles(n *node) []*node {
	p := &printer{}
	p.node(n)
	return p.single
}

// printExtra prints with the textbook rule plus the requested redundant pairs.
func printExtra(n *node, extra map[*node]int) string {
	p := &printer{extra: extra}
	p.node(n)
	return join(p.out, nil)
}

// printMarked prints with \x01 at every trailing-comma slot.
func printMarked(n *node) string {
	p := &printer{marks: true}
	p.node(n)
	return join(p.out, nil)
}
