package c07

// C07 — Parse trees follow the documented grammar and ignore layout.
//
// tree:   homescript.Parse of `fn main() { <expr>; }` must be accepted without errors and its
//         canonical tree must equal the tree the property's operator table assigns to the text
//         (reference parser in ref_test.go) and, when the text was printed from a generated
//         tree, that tree.
// layout: two texts that differ only by separators between tokens, redundant parentheses around
//         single-node operands, or trailing commas must have the same error status and the
//         same canonical program tree.

import (
	"fmt"
	"regexp"
	"strings"
	"testing"

	pAst "github.com/smarthome-go/homescript/v3/homescript/parser/ast"
	"pgregory.net/rapid"

	"verif/pk"
)

func TestMain(m *testing.M) { pk.Main(m) }

func TestReplay(t *testing.T) { pk.ReplayTest(t) }

func init() {
	pk.Reg("tree", checkTree)
	pk.Reg("layout", checkLayout)
}

// ---------------------------------------------------------------------------------------------
// tree check

type treeCase struct {
	Expr string
	Ctx  string `json:",omitempty"` // "" = stmt | let | tail | ret | cond
	Want string `json:",omitempty"` // the generated tree, when Expr was printed from one
}

var wordRe = regexp.MustCompile(`[A-Za-z]+`)

// panicSig: "hang" for a parser that did not return, else "panic:<first words>".
func panicSig(msg string) string {
	if strings.HasPrefix(msg, "hang:") {
		return "hang"
	}
	return "panic:" + shortMsg(msg)
}

// judge is pk.Judge, except that a hang fails the test at once: every shrink attempt of a
// hanging input would leave another spinning goroutine behind.
func judge(t *testing.T, rt *rapid.T, c any, f *pk.Failure) {
	if f != nil && f.Sig == "hang" {
		pk.Judge(t, c, f)
	}
	pk.Judge(rt, c, f)
}

func shortMsg(s string) string {
	w := wordRe.FindAllString(s, 4)
	return strings.ToLower(strings.Join(w, "-"))
}

// exprOf extracts the embedded expression from the parsed program.
func exprOf(p pAst.Program, ctx string) (pAst.Expression, string) {
	if len(p.Functions) != 1 {
		return nil, fmt.Sprintf("%d functions", len(p.Functions))
	}
	body := p.Functions[0].Body
	if ctx == "tail" {
		if len(body.Statements) != 0 || body.Expression == nil {
			return nil, "body is not a single trailing expression: " + canonProgram(p)
		}
		return body.Expression, ""
	}
	if len(body.Statements) != 1 || body.Expression != nil {
		return nil, "body is not a single statement: " + canonProgram(p)
	}
	switch s := body.Statements[0].(type) {
	case pAst.ExpressionStatement:
		if ctx == "" || ctx == "stmt" {
			return s.Expression, ""
		}
	case pAst.LetStatement:
		if ctx == "let" {
			return s.Expression, ""
		}
	case pAst.ReturnStatement:
		if ctx == "ret" {
			return s.Expression, ""
		}
	case pAst.WhileStatement:
		if ctx == "cond" && len(s.Body.Statements) == 0 && s.Body.Expression == nil {
			return s.Condition, ""
		}
	}
	return nil, "unexpected statement: " + canonProgram(p)
}

func checkTree(c treeCase) *pk.Failure {
	ref, err := refParse(c.Expr)
	if err != nil {
		return pk.Failf("tree", "harness:ref-reject", "reference parser refuses generated text %q: %v", c.Expr, err)
	}
	want := ref.sexp()
	if c.Want != "" && c.Want != want {
		return pk.Failf("tree", "harness:printer", "printed text %q does not denote the generated tree under the operator table\n generated: %s\n reference: %s", c.Expr, c.Want, want)
	}
	classes := sigOf(ref.classes(nil))
	text := wrapCtx(c.Ctx, c.Expr)
	p := parseRepo(text)
	if p.panic != "" {
		return pk.Failf("tree", panicSig(p.panic), "parser panicked on %q: %s", text, p.panic)
	}
	if !p.clean() {
		return pk.Failf("tree", "rejected:"+classes, "grammatical expression rejected\n text:     %s\n expected: %s\n%s", text, want, p.errText())
	}
	e, problem := exprOf(p.prog, c.Ctx)
	if e == nil {
		return pk.Failf("tree", "shape:"+classes, "text: %s\n expected: %s\n observed: %s", text, want, problem)
	}
	if got := canonExpr(e); got != want {
		return pk.Failf("tree", "shape:"+classes, "tree differs from the operator table\n text:     %s\n expected: %s\n observed: %s", text, want, got)
	}
	return nil
}

// ---------------------------------------------------------------------------------------------
// layout check

type layoutCase struct {
	A, B string
	Kind string // gaps | parens | commas (plus origin)
	// Valid: A is a program the grammar accepts (shipped example that parses, or generated from
	// the grammar), so it must be accepted without errors.
	Valid bool `json:",omitempty"`
}

// editContext names what precedes the first difference between the two texts: "word", "num",
// "start", or the punctuation character itself. It makes signatures specific to a root cause.
func editContext(a, b string) string {
	ra, rb := []rune(a), []rune(b)
	i := 0
	for i < len(ra) && i < len(rb) && ra[i] == rb[i] {
		i++
	}
	for i > 0 && isWS(ra[i-1]) {
		i--
	}
	if i == 0 {
		return "start"
	}
	switch r := ra[i-1]; {
	case r < 128 && isLetter(byte(r)):
		return "word"
	case r < 128 && isDigit(byte(r)):
		return "num"
	default:
		return string(r)
	}
}

// afterCtx: separator edits are independent of each other, so what precedes the first one is a
// useful part of the signature; comma and parenthesis variants are told apart by the message.
func afterCtx(kind string, c layoutCase) string {
	if strings.HasPrefix(kind, "gaps") {
		return ":after:" + editContext(c.A, c.B)
	}
	return ""
}

func checkLayout(c layoutCase) *pk.Failure {
	pa, pb := parseRepo(c.A), parseRepo(c.B)
	for _, p := range []parsed{pa, pb} {
		if p.panic != "" {
			return pk.Failf("layout", panicSig(p.panic), "parser panicked: %s\nA:\n%s\nB:\n%s", p.panic, c.A, c.B)
		}
	}
	kind := c.Kind
	if i := strings.IndexByte(kind, ':'); i >= 0 {
		kind = kind[:i]
	}
	if c.Valid && !pa.clean() {
		return pk.Failf("layout", "rejected:program", "grammatical program rejected [%s]\n%s%s", c.Kind, pa.errText(), c.A)
	}
	if pa.status() != pb.status() {
		detail := shortMsg(pb.errText())
		if pb.clean() {
			detail = shortMsg(pa.errText())
		}
		return pk.Failf("layout", "layout:"+kind+":status:"+detail+afterCtx(kind, c), "error status differs (%s vs %s) [%s]\nA errors:\n%sB errors:\n%sA:\n%s\nB:\n%s",
			pa.status(), pb.status(), c.Kind, pa.errText(), pb.errText(), c.A, c.B)
	}
	ta, tb := canonProgram(pa.prog), canonProgram(pb.prog)
	if ta != tb {
		return pk.Failf("layout", "layout:"+kind+":tree"+afterCtx(kind, c), "trees differ [%s] %s\nA:\n%s\nB:\n%s", c.Kind, firstDiff(ta, tb), c.A, c.B)
	}
	return nil
}

// ---------------------------------------------------------------------------------------------
// exhaustive table: pairs, triples, assignment roots, prefix × binary × postfix

func operandAfter(op string, name string) string {
	if op == "as" {
		return map[string]string{"b": "float", "c": "int", "d": "bool"}[name]
	}
	return name
}

// nontrivialOps: at least two operators, i.e. two levels to order or one level to associate.
func nontrivial(n *node) bool { return len(n.classes(nil)) >= 2 }

func TestTablePairsTriples(t *testing.T) {
	pk.SkipIfReplay(t)
	col := pk.NewCollector()
	k := 0
	run := func(group, expr string) {
		k++
		if !pk.Mine(k) {
			return
		}
		c := treeCase{Expr: expr}
		pk.Eval()
		pk.Extra("table:"+group, 1)
		if ref, err := refParse(expr); err == nil {
			cls := ref.classes(nil)
			if nontrivial(ref) {
				pk.NonTrivial(expr, c)
			}
			if len(cls) >= 2 && len(cls) <= 3 {
				pk.Class(group + ":" + strings.Join(cls, ","))
			}
		}
		col.Report(c, checkTree(c))
	}
	ops := allBinOps
	for _, o1 := range ops {
		for _, o2 := range ops {
			run("pair", fmt.Sprintf("a %s %s %s %s", o1, operandAfter(o1, "b"), o2, operandAfter(o2, "c")))
			for _, o3 := range ops {
				run("triple", fmt.Sprintf("a %s %s %s %s %s %s", o1, operandAfter(o1, "b"), o2, operandAfter(o2, "c"), o3, operandAfter(o3, "d")))
			}
			for _, ao := range assignOps {
				run("assign", fmt.Sprintf("x %s a %s %s %s %s", ao, o1, operandAfter(o1, "b"), o2, operandAfter(o2, "c")))
			}
		}
	}
	for _, ao := range assignOps {
		for _, o1 := range ops {
			run("assign", fmt.Sprintf("x %s a %s %s", ao, o1, operandAfter(o1, "b")))
			run("assign", fmt.Sprintf("x[i] %s a %s %s", ao, o1, operandAfter(o1, "b")))
			run("assign", fmt.Sprintf("x.m %s -a %s %s", ao, o1, operandAfter(o1, "b")))
		}
	}
	// prefix × binary × postfix
	prefixes := []string{""}
	for _, p := range prefixOps {
		prefixes = append(prefixes, p)
		for _, q := range prefixOps {
			prefixes = append(prefixes, p+" "+q)
		}
	}
	postfixes := []string{"", ".m", "(x)", "[0]", ".m(x)", "(x).m", "[0](x)", ".b(c)[d].e", "()", "(x, y)[i]"}
	for _, pf := range prefixes {
		for _, po := range postfixes {
			run("prepost", pf+"a"+po)
			run("prepost", pf+"(a)"+po)
			run("prepost", "("+pf+"a)"+po)
			for _, o := range ops {
				r := operandAfter(o, "b")
				run("prepost", fmt.Sprintf("%sa%s %s %s", pf, po, o, r))
				if o != "as" {
					run("prepost", fmt.Sprintf("a %s %sb%s", o, pf, po))
					run("prepost", fmt.Sprintf("%sa%s %s %sb%s", pf, po, o, pf, po))
				}
				run("prepost", fmt.Sprintf("%sa%s %s %s ** 2", pf, po, o, r))
				run("prepost", fmt.Sprintf("%sa%s as float %s %s", pf, po, o, r))
				run("prepost", fmt.Sprintf("2 ** %sa%s %s %s", pf, po, o, r))
			}
		}
	}
	pk.Exhaustive("pairs-triples")
	t.Logf("table: %d expressions", k)
	col.Done(t)
}

// ---------------------------------------------------------------------------------------------
// random trees

func TestTrees(t *testing.T) {
	pk.SkipIfReplay(t)
	rapid.Check(t, func(rt *rapid.T) {
		depth := []int{1, 2, 3, 4, 4, 5, 5, 6, 6, 7, 7, 8, 8, 8}[rapid.IntRange(0, 13).Draw(rt, "depth")]
		ctx := pick(rt, "ctx", ctxs)
		tree := genRoot(rt, depth, ctx == "stmt" || ctx == "tail")
		want := tree.sexp()
		cls := tree.classes(nil)
		pk.Class(fmt.Sprintf("depth:%d", tree.depth()))
		for _, c := range cls {
			pk.Class("op:" + c)
		}
		variants := []struct{ how, text string }{
			{"minimal", printMinimal(tree)},
			{"full", printFull(tree)},
			{"textbook", printStd(tree)},
		}
		for _, v := range variants {
			c := treeCase{Expr: v.text, Ctx: ctx, Want: want}
			pk.Eval()
			pk.Class("print:" + v.how)
			if nontrivial(tree) {
				pk.NonTrivial(v.text, c)
			}
			judge(t, rt, c, checkTree(c))
		}
	})
}

// ---------------------------------------------------------------------------------------------
// layout variants

func gateOpts() sepOpts { return sepOpts{noTab: pk.GateOpen("ws-tab")} }

// Generator gates (closed only while known_findings.json lists an open finding with that gate):
//
//	ws-tab      no TAB in separators           (was C06-001, fixed)
//	op-swallow  whitespace first after | & ...  (was C06-002/003, fixed)
func swallows(lexeme string) bool {
	return strings.HasSuffix(lexeme, "|") || strings.HasSuffix(lexeme, "&") || lexeme == "|=" || lexeme == "&="
}

// varyGaps replaces gaps that contain whitespace by other non-empty separators.
//
// insert=false: only gaps that already contain whitespace are edited (nothing can merge or split).
// insert=true: separators are also put between tokens that were adjacent. Token boundaries are
// the ones the repository's lexer reported for the original text; `$`, `@` and `#` are left
// attached to what follows because grammar.ebnf makes `$name` one lexical unit.
func varyGaps(rt *rapid.T, sp split, insert bool) (string, int) {
	o := gateOpts()
	guardSwallow := pk.GateOpen("op-swallow")
	out := split{lex: sp.lex, gaps: append([]string(nil), sp.gaps...)}
	changed := 0
	// draw the number of edits first so that shrinking reduces it
	n := rapid.IntRange(1, 12).Draw(rt, "nedits")
	var cand []int
	for i, g := range sp.gaps {
		glued := i > 0 && (sp.lex[i-1] == "$" || sp.lex[i-1] == "@" || sp.lex[i-1] == "#")
		if hasWS(g) || (insert && !glued) {
			cand = append(cand, i)
		}
	}
	if len(cand) == 0 {
		return sp.String(), 0
	}
	for e := 0; e < n; e++ {
		i := cand[rapid.IntRange(0, len(cand)-1).Draw(rt, "gap")]
		oo := o
		oo.atEOF = i == len(sp.gaps)-1
		sep := genSep(rt, oo)
		if i > 0 {
			prev := sp.lex[i-1]
			// `/` followed by `/` or `*` would start a comment: a token-adjacency question (C06)
			if strings.HasSuffix(prev, "/") && strings.HasPrefix(sep, "/") {
				sep = " " + sep
			}
			if guardSwallow && swallows(prev) && !isWS([]rune(sep)[0]) {
				pk.Gate("op-swallow")
				sep = " " + sep
			}
		}
		if rapid.Bool().Draw(rt, "keep-original-too") {
			sep = sp.gaps[i] + sep
		}
		out.gaps[i] = sep
		changed++
	}
	return out.String(), changed
}

func gapKind(insert bool) string {
	if insert {
		return "gapsins"
	}
	return "gaps"
}

func TestLayout(t *testing.T) {
	pk.SkipIfReplay(t)
	files := loadCorpus()
	for why, n := range corpusSkip {
		for i := 0; i < n; i++ {
			pk.Discard("corpus:" + why)
		}
	}
	t.Logf("corpus: %d files usable, skipped %v", len(files), corpusSkip)
	rapid.Check(t, func(rt *rapid.T) {
		mode := rapid.IntRange(0, 5).Draw(rt, "mode")
		var c layoutCase
		switch {
		case mode <= 1 && len(files) > 0: // separators in shipped programs
			f := files[rapid.IntRange(0, len(files)-1).Draw(rt, "file")]
			ins := rapid.Bool().Draw(rt, "insert")
			b, _ := varyGaps(rt, f.sp, ins)
			c = layoutCase{A: f.Text, B: b, Kind: gapKind(ins) + ":" + f.Name, Valid: true}
		case mode <= 3: // separators in generated programs
			text := strings.ReplaceAll(genProgram(rt), "\x01", "")
			ins := rapid.Bool().Draw(rt, "insert")
			c = layoutCase{A: text, B: text, Kind: gapKind(ins) + ":generated", Valid: true}
			if parseRepo(text).clean() {
				sp, ok := splitText(text)
				if !ok {
					pk.Discard("split-inconsistent")
					return
				}
				c.B, _ = varyGaps(rt, sp, ins)
			}
		case mode == 4: // redundant parentheses around single-node operands
			ctx := pick(rt, "ctx", ctxsLayout)
			tree := genRoot(rt, rapid.IntRange(1, 6).Draw(rt, "depth"), ctx == "stmt" || ctx == "tail")
			extra := map[*node]int{}
			for i, s := range singles(tree) {
				if k := rapid.IntRange(0, 5).Draw(rt, fmt.Sprintf("wrap%d", i)); k >= 4 {
					extra[s] = k - 3
				}
			}
			a, b := printStd(tree), printExtra(tree, extra)
			if tree.K != "assign" && tree.K != "bin" && tree.K != "as" && tree.K != "pre" && rapid.Bool().Draw(rt, "wrap-root") {
				b = "(" + b + ")"
			}
			c = layoutCase{A: wrapCtx(ctx, a), B: wrapCtx(ctx, b), Kind: "parens", Valid: true}
		default: // trailing commas
			marked := genProgram(rt)
			a := strings.ReplaceAll(marked, "\x01", "")
			var b strings.Builder
			for i, part := range strings.Split(marked, "\x01") {
				if i > 0 && rapid.IntRange(0, 2).Draw(rt, "comma") > 0 {
					b.WriteString(",")
				}
				b.WriteString(part)
			}
			c = layoutCase{A: a, B: b.String(), Kind: "commas", Valid: true}
		}
		pk.Eval()
		kind := c.Kind
		if i := strings.IndexByte(kind, ':'); i >= 0 {
			kind = kind[:i+1] + map[bool]string{true: "generated", false: "file"}[strings.HasSuffix(kind, "generated")]
		}
		pk.Class("layout:" + kind)
		if c.A != c.B {
			pk.NonTrivial(c.B, map[string]string{"kind": c.Kind, "variant": c.B})
		}
		judge(t, rt, c, checkLayout(c))
	})
}

// ---------------------------------------------------------------------------------------------
// hand-written expectations: they pin the reference parser and printers to the property text

func TestReferenceExamples(t *testing.T) {
	pk.SkipIfReplay(t)
	for _, ex := range [][2]string{
		{"a + b * c", "(+ a (* b c))"},
		{"a * b + c", "(+ (* a b) c)"},
		{"a - b - c", "(- (- a b) c)"},
		{"a ** b ** c", "(** a (** b c))"},
		{"a || b && c | d ^ e & f == g < h << i + j * k as int ** l",
			"(|| a (&& b (| c (^ d (& e (== f (< g (<< h (+ i (* j (** (as k int) l)))))))))))"},
		{"a ** b as int * c + d << e < f == g & h ^ i | j && k || l",
			"(|| (&& (| (^ (& (== (< (<< (+ (* (as (** a b) int) c) d) e) f) g) h) i) j) k) l)"},
		{"a < b < c", "(< (< a b) c)"},
		{"a == b != c", "(!= (== a b) c)"},
		{"a as int as float", "(as (as a int) float)"},
		{"-a ** b", "(** (neg a) b)"},
		{"a ** -b", "(** a (neg b))"},
		{"-a as float ** 2", "(** (as (neg a) float) 2)"},
		{"!a.f(x)", "(not (call (member a f) x))"},
		{"?a[0] as int", "(as (some (index a 0)) int)"},
		{"a.b(c)[d].e", "(member (index (call (member a b) c) d) e)"},
		{"- - a", "(neg (neg a))"},
		{"!-a", "(not (neg a))"},
		{"x = a + b", "(= x (+ a b))"},
		{"x[i] **= a || b", "(**= (index x i) (|| a b))"},
		{"(a + b) * c", "(* (+ a b) c)"},
		{"f(a, b,)", "(call f a b)"},
		{"[1, 2,][0]", "(index (list 1 2) 0)"},
		{"new { k: 1, key: a + b }.k", "(member (obj (k 1) (key (+ a b))) k)"},
		{"a & b == c", "(& a (== b c))"},
		{"a << b + c", "(<< a (+ b c))"},
		{"a * b as int", "(* a (as b int))"},
		{"a ** b as int", "(as (** a b) int)"},
		{"a as [int] < b as ?[str] ** 2", "(< (as a [int]) (** (as b ?[str]) 2))"},
	} {
		n, err := refParse(ex[0])
		if err != nil {
			t.Errorf("%s: %v", ex[0], err)
			continue
		}
		if got := n.sexp(); got != ex[1] {
			t.Errorf("%s:\n got  %s\n want %s", ex[0], got, ex[1])
		}
		for how, text := range map[string]string{"min": printMinimal(n), "std": printStd(n), "full": printFull(n)} {
			m, err := refParse(text)
			if err != nil || m.sexp() != ex[1] {
				t.Errorf("%s printer: %q does not round-trip %s (%v)", how, text, ex[1], err)
			}
		}
	}
	if got := printMinimal(bin("**", cast(atom("a"), "int"), atom("b"))); got != "a as int ** b" {
		t.Errorf("minimal print: %q", got)
	}
	if got := printStd(bin("-", atom("a"), bin("-", atom("b"), atom("c")))); got != "a - (b - c)" {
		t.Errorf("textbook print: %q", got)
	}
	if got := printFull(bin("+", atom("a"), pre("-", member(atom("b"), "m")))); got != "a + (-(b.m))" {
		t.Errorf("full print: %q", got)
	}
	if _, err := refParse("a = b = c"); err == nil {
		t.Errorf("chained assignment must be refused by the reference")
	}
}
