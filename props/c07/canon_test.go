package c07

// Canonical forms of the repository's parse tree: an S-expression for expressions (same format
// as node.sexp) and a reflection walk for whole programs. Both drop spans and erase
// GroupedExpression.

import (
	"fmt"
	"reflect"
	"strconv"
	"strings"
	"time"

	"github.com/smarthome-go/homescript/v3/homescript"
	"github.com/smarthome-go/homescript/v3/homescript/errors"
	pAst "github.com/smarthome-go/homescript/v3/homescript/parser/ast"
)

// ---------------------------------------------------------------------------------------------
// parsing with panic capture

type parsed struct {
	prog  pAst.Program
	soft  []errors.Error
	hard  *errors.Error
	panic string
}

// parseRepo runs homescript.Parse with panic capture. The call is made on its own goroutine so
// that a parser that never returns (a totality defect, property C05) is reported as a failure
// with signature "hang" instead of stalling the run; the budget is >= 1000x the slowest honest
// parse of the inputs used here.
const parseBudget = 20 * time.Second

func parseRepo(text string) parsed {
	done := make(chan parsed, 1)
	go func() {
		var p parsed
		defer func() {
			if r := recover(); r != nil {
				p.panic = fmt.Sprint(r)
			}
			done <- p
		}()
		p.prog, p.soft, p.hard = homescript.Parse(text, "c07.hms")
	}()
	select {
	case p := <-done:
		return p
	case <-time.After(parseBudget):
		return parsed{panic: "hang: Parse did not return within " + parseBudget.String()}
	}
}

func (p parsed) clean() bool { return p.panic == "" && p.hard == nil && len(p.soft) == 0 }

// status describes the error state without positions: panic / hard / number of soft errors.
func (p parsed) status() string {
	switch {
	case p.panic != "":
		return "panic"
	case p.hard != nil:
		return "hard"
	case len(p.soft) > 0:
		return fmt.Sprintf("soft%d", len(p.soft))
	}
	return "ok"
}

func (p parsed) errText() string {
	var b strings.Builder
	if p.panic != "" {
		fmt.Fprintf(&b, "panic: %s\n", p.panic)
	}
	if p.hard != nil {
		fmt.Fprintf(&b, "hard: %s @%d:%d\n", p.hard.Message, p.hard.Span.Start.Line, p.hard.Span.Start.Column)
	}
	for _, e := range p.soft {
		fmt.Fprintf(&b, "soft: %s @%d:%d\n", e.Message, e.Span.Start.Line, e.Span.Start.Column)
	}
	return b.String()
}

// ---------------------------------------------------------------------------------------------
// expressions → S-expression

func canonExpr(e pAst.Expression) string {
	var b strings.Builder
	writeCanon(&b, e)
	return b.String()
}

func writeCanon(b *strings.Builder, e pAst.Expression) {
	switch x := e.(type) {
	case nil:
		b.WriteString("<nil>")
	case pAst.GroupedExpression:
		writeCanon(b, x.Inner)
	case pAst.IntLiteralExpression:
		b.WriteString(strconv.FormatInt(x.Value, 10))
	case pAst.FloatLiteralExpression:
		b.WriteString(strconv.FormatFloat(x.Value, 'g', -1, 64))
	case pAst.BoolLiteralExpression:
		b.WriteString(strconv.FormatBool(x.Value))
	case pAst.StringLiteralExpression:
		b.WriteString(`"` + x.Value + `"`)
	case pAst.IdentExpression:
		if x.IsSingleton {
			b.WriteString("<singleton>")
		}
		b.WriteString(x.Ident.Ident())
	case pAst.NullLiteralExpression:
		b.WriteString("null")
	case pAst.NoneLiteralExpression:
		b.WriteString("none")
	case pAst.PrefixExpression:
		name := map[pAst.PrefixOperator]string{
			pAst.MinusPrefixOperator:    "neg",
			pAst.NegatePrefixOperator:   "not",
			pAst.IntoSomePrefixOperator: "some",
		}[x.Operator]
		if name == "" {
			name = fmt.Sprintf("prefix%d", x.Operator)
		}
		b.WriteString("(" + name + " ")
		writeCanon(b, x.Base)
		b.WriteByte(')')
	case pAst.InfixExpression:
		b.WriteString("(" + x.Operator.String() + " ")
		writeCanon(b, x.Lhs)
		b.WriteByte(' ')
		writeCanon(b, x.Rhs)
		b.WriteByte(')')
	case pAst.AssignExpression:
		b.WriteString("(" + x.AssignOperator.String() + " ")
		writeCanon(b, x.Lhs)
		b.WriteByte(' ')
		writeCanon(b, x.Rhs)
		b.WriteByte(')')
	case pAst.CastExpression:
		b.WriteString("(as ")
		writeCanon(b, x.Base)
		b.WriteString(" " + x.AsType.String() + ")")
	case pAst.CallExpression:
		if x.IsSpawn {
			b.WriteString("(spawn")
		} else {
			b.WriteString("(call")
		}
		b.WriteByte(' ')
		writeCanon(b, x.Base)
		for _, a := range x.Arguments.List {
			b.WriteByte(' ')
			writeCanon(b, a)
		}
		b.WriteByte(')')
	case pAst.IndexExpression:
		b.WriteString("(index ")
		writeCanon(b, x.Base)
		b.WriteByte(' ')
		writeCanon(b, x.Index)
		b.WriteByte(')')
	case pAst.MemberExpression:
		if x.Operator == pAst.DotMemberOperator {
			b.WriteString("(member ")
		} else {
			fmt.Fprintf(b, "(member%d ", x.Operator)
		}
		writeCanon(b, x.Base)
		b.WriteString(" " + x.Member.Ident() + ")")
	case pAst.ListLiteralExpression:
		b.WriteString("(list")
		for _, v := range x.Values {
			b.WriteByte(' ')
			writeCanon(b, v)
		}
		b.WriteByte(')')
	case pAst.ObjectLiteralExpression:
		b.WriteString("(obj")
		for _, f := range x.Fields {
			b.WriteString(" (" + f.Key.Ident() + " ")
			writeCanon(b, f.Expression)
			b.WriteByte(')')
		}
		b.WriteByte(')')
	default:
		// any other node kind: generic structural print
		b.WriteString("<")
		walk(b, reflect.ValueOf(e))
		b.WriteString(">")
	}
}

// ---------------------------------------------------------------------------------------------
// whole programs → structural print by reflection

var (
	spanType    = reflect.TypeOf(errors.Span{})
	locType     = reflect.TypeOf(errors.Location{})
	groupedType = reflect.TypeOf(pAst.GroupedExpression{})
)

func canonProgram(p pAst.Program) string {
	var b strings.Builder
	walk(&b, reflect.ValueOf(p))
	return b.String()
}

// walk prints type names and all fields (exported or not) recursively; position fields are
// skipped and a GroupedExpression is replaced by its inner expression.
func walk(b *strings.Builder, v reflect.Value) {
	if !v.IsValid() {
		b.WriteString("nil")
		return
	}
	switch v.Kind() {
	case reflect.Interface, reflect.Ptr:
		if v.IsNil() {
			b.WriteString("nil")
			return
		}
		walk(b, v.Elem())
	case reflect.Struct:
		t := v.Type()
		if t == groupedType {
			walk(b, v.FieldByName("Inner"))
			return
		}
		b.WriteString("(" + t.Name())
		for i := 0; i < t.NumField(); i++ {
			ft := t.Field(i).Type
			if ft == spanType || ft == locType {
				continue
			}
			b.WriteString(" " + t.Field(i).Name + "=")
			walk(b, v.Field(i))
		}
		b.WriteByte(')')
	case reflect.Slice, reflect.Array:
		b.WriteByte('[')
		for i := 0; i < v.Len(); i++ {
			if i > 0 {
				b.WriteByte(' ')
			}
			walk(b, v.Index(i))
		}
		b.WriteByte(']')
	case reflect.String:
		b.WriteString(strconv.Quote(v.String()))
	case reflect.Bool:
		b.WriteString(strconv.FormatBool(v.Bool()))
	case reflect.Int, reflect.Int8, reflect.Int16, reflect.Int32, reflect.Int64:
		b.WriteString(strconv.FormatInt(v.Int(), 10))
	case reflect.Uint, reflect.Uint8, reflect.Uint16, reflect.Uint32, reflect.Uint64:
		b.WriteString(strconv.FormatUint(v.Uint(), 10))
	case reflect.Float32, reflect.Float64:
		b.WriteString(strconv.FormatFloat(v.Float(), 'g', -1, 64))
	case reflect.Map:
		fmt.Fprintf(b, "map[%d]", v.Len())
	default:
		fmt.Fprintf(b, "?%s", v.Kind())
	}
}

// firstDiff shows where two canonical strings part.
func firstDiff(a, b string) string {
	i := 0
	for i < len(a) && i < len(b) && a[i] == b[i] {
		i++
	}
	lo := i - 60
	if lo < 0 {
		lo = 0
	}
	cut := func(s string) string {
		hi := i + 100
		if hi > len(s) {
			hi = len(s)
		}
		if lo > len(s) {
			return ""
		}
		return s[lo:hi]
	}
	return fmt.Sprintf("at offset %d:\n  A: …%s\n  B: …%s", i, cut(a), cut(b))
}
