package c09

import (
	"fmt"
	"strings"
	"sync"
	"testing"

	"verif/pk"
	"verif/px"
	"verif/sb"
)

func TestMain(m *testing.M) { pk.Main(m) }

const big = 100000

// Case: one program under one limit configuration with the expected verdict class.
type Case struct {
	Name    string
	Text    string
	Backend string
	Limits  sb.Limits
	Dim     string // call | stack | mem | treecall
	// Expect: "ok" | "limit" (the corresponding fatal kind) | "ok-or-limit" (only: no crash, well-formed, right kind if stopped)
	Expect string
	Why    string
}

func limitsFor(dim string, l uint) sb.Limits {
	// the other dimensions are far out of reach (a leak in one dimension must not be reported as
	// a stop in another when the iteration count grows)
	lim := sb.Limits{Call: big, Stack: 50_000_000, Mem: big, TreeCall: big}
	switch dim {
	case "call":
		lim.Call = l
	case "stack":
		lim.Stack = l
	case "mem":
		lim.Mem = l
	case "treecall":
		lim.TreeCall = l
	}
	return lim
}

var wantKind = map[string]string{"call": "StackOverFlow", "stack": "StackOverFlow", "mem": "OutOfMemoryError", "treecall": "StackOverFlow"}

type verdict struct {
	class string // ok | limit | other:<...>
	f     *pk.Failure
}

func run(c Case) verdict {
	req := &sb.Request{Op: "run", Modules: map[string]string{"main": c.Text}, Entry: "main", Backends: []string{c.Backend}, Limits: c.Limits, PollCap: 20_000_000}
	resp := px.Pool().Exec(req)
	id := fmt.Sprintf("%s on %s with %s limit %+v", c.Name, c.Backend, c.Dim, c.Limits)
	if f := px.SandboxFailure("limits", resp); f != nil {
		f.Sig = c.Backend + " " + f.Sig
		f.Msg = id + "\n" + c.Text + "\n" + f.Msg
		return verdict{f: f}
	}
	if resp.Inconclusive {
		pk.Inconclusive()
		return verdict{class: "inconclusive"}
	}
	if !resp.Accepted {
		return verdict{f: pk.Failf("limits", "program-rejected", "%s: rejected: %+v %+v\n%s", id, resp.SyntaxErrors, resp.ErrorDiags(), c.Text)}
	}
	r := resp.Run(c.Backend)
	if r.InitPanic != "" {
		// NewVM documents a panic when the initialisation code fails; with tiny limits even @init can
		// exceed them. Only the message is inspected: it must name the limit.
		if strings.Contains(r.InitPanic, "limit") || strings.Contains(r.InitPanic, "capacity") || strings.Contains(r.InitPanic, "exceeded") {
			return verdict{class: "limit"}
		}
		return verdict{f: pk.Failf("limits", c.Backend+" init-panic", "%s: %s\n%s", id, r.InitPanic, c.Text)}
	}
	switch r.Outcome.Class {
	case "ok":
		return verdict{class: "ok"}
	case "fatal":
		if r.Outcome.Kind == wantKind[c.Dim] {
			return verdict{class: "limit"}
		}
		return verdict{f: pk.Failf("limits", c.Backend+" wrong-kind:"+c.Dim+":"+r.Outcome.Kind, "%s: stopped with %s (%q), expected %s\n%s", id, r.Outcome.Kind, r.Outcome.Message, wantKind[c.Dim], c.Text)}
	}
	return verdict{f: pk.Failf("limits", c.Backend+" outcome:"+r.Outcome.Class, "%s: outcome %+v\n%s", id, r.Outcome, c.Text)}
}

func checkLimits(c Case) *pk.Failure {
	v := run(c)
	if v.f != nil {
		return v.f
	}
	if v.class == "inconclusive" {
		return nil
	}
	switch c.Expect {
	case "ok":
		if v.class != "ok" {
			return pk.Failf("limits", c.Backend+" stopped-within-limits:"+c.Dim, "%s on %s: stopped by the %s limit although it stays within it (%s)\nlimits %+v\n%s", c.Name, c.Backend, c.Dim, c.Why, c.Limits, c.Text)
		}
	case "limit":
		if v.class != "limit" {
			return pk.Failf("limits", c.Backend+" not-stopped:"+c.Dim, "%s on %s: completed although it exceeds the %s limit by far (%s)\nlimits %+v\n%s", c.Name, c.Backend, c.Dim, c.Why, c.Limits, c.Text)
		}
	}
	return nil
}

func init() { pk.Reg("limits", checkLimits) }

func TestReplay(t *testing.T) { pk.ReplayTest(t) }

// ---- program families

type family struct {
	name string
	gen  func(size int) string
	dims []string
	// demand(size) lower bound per dimension: the program certainly needs more than this
	demand func(size int, dim string) int
}

func nested(n int, open, close, leaf string) string {
	return strings.Repeat(open, n) + leaf + strings.Repeat(close, n)
}

// wideFrame: a function with 3*size locals that recurses three levels deep (frames much wider than the usual
// handful of variables; the variable memory is claimed per frame).
func wideFrame(size int) string {
	var b strings.Builder
	n := 3 * size
	b.WriteString("fn w(n: int) -> int {\n    let a0 = n;\n")
	for i := 1; i < n; i++ {
		fmt.Fprintf(&b, "    let a%d = a%d + 1;\n", i, i-1)
	}
	fmt.Fprintf(&b, "    if n == 0 { a%d } else { w(n - 1) + a0 }\n}\nfn main() { println(w(3)); }\n", n-1)
	return b.String()
}

var families = []family{
	{name: "wide-frame", dims: []string{"mem", "call", "stack"}, gen: wideFrame,
		demand: func(d int, dim string) int {
			if dim == "mem" {
				return 3 * d * 4 // 3*size variables in each of four live frames
			}
			return 0
		}},
	{name: "recursion", dims: []string{"call", "stack", "mem", "treecall"},
		gen: func(d int) string {
			return fmt.Sprintf("fn r(n: int) -> int { let a = n; if n == 0 { 0 } else { 1 + r(n - 1) } }\nfn main() { println(r(%d)); }\n", d)
		},
		demand: func(d int, dim string) int { return d }},
	// the same recursion reached in other ways: every way of entering a function must count against the call limit
	{name: "recursion-fn-value", dims: []string{"call", "stack", "mem", "treecall"},
		gen: func(d int) string {
			return fmt.Sprintf("fn r(n: int) -> int { let step = r; let a = n; if n == 0 { 0 } else { 1 + step(n - 1) } }\nfn main() { println(r(%d)); }\n", d)
		},
		demand: func(d int, dim string) int { return d }},
	{name: "recursion-mutual", dims: []string{"call", "stack", "mem", "treecall"},
		gen: func(d int) string {
			return fmt.Sprintf("fn a(n: int) -> int { let x = n; if n == 0 { 0 } else { 1 + b(n - 1) } }\nfn b(n: int) -> int { let y = n; if n == 0 { 0 } else { 1 + a(n - 1) } }\nfn main() { println(a(%d)); }\n", d)
		},
		demand: func(d int, dim string) int { return d }},
	{name: "recursion-mutual-fn-values", dims: []string{"call", "stack", "mem"},
		gen: func(d int) string {
			return fmt.Sprintf("fn a(n: int) -> int { let f = b; let x = n; if n == 0 { 0 } else { 1 + f(n - 1) } }\nfn b(n: int) -> int { let g = a; let y = n; if n == 0 { 0 } else { 1 + g(n - 1) } }\nfn main() { let s = a; println(s(%d)); }\n", d)
		},
		demand: func(d int, dim string) int { return d }},
	{name: "recursion-higher-order", dims: []string{"call", "stack", "mem", "treecall"},
		gen: func(d int) string {
			return fmt.Sprintf("fn ap(f: fn(n: int) -> int, n: int) -> int { f(n) }\nfn r(n: int) -> int { let a = n; if n == 0 { 0 } else { 1 + ap(r, n - 1) } }\nfn main() { println(r(%d)); }\n", d)
		},
		demand: func(d int, dim string) int { return d }},
	{name: "recursion-in-try", dims: []string{"call", "stack", "mem", "treecall"},
		gen: func(d int) string {
			return fmt.Sprintf("fn r(n: int) -> int { let a = n; try { if n == 0 { 0 } else { 1 + r(n - 1) } } catch e { 0 - 1 } }\nfn main() { println(r(%d)); }\n", d)
		},
		demand: func(d int, dim string) int { return d }},
	{name: "recursion-in-loop-and-match", dims: []string{"call", "stack", "mem", "treecall"},
		gen: func(d int) string {
			return fmt.Sprintf("fn r(n: int) -> int { let s = 0; for i in 0..1 { s += match n { 0 => 0, _ => 1 + r(n - 1) }; } s }\nfn main() { println(r(%d)); }\n", d)
		},
		demand: func(d int, dim string) int { return d }},
	{name: "recursion-statements", dims: []string{"call", "mem", "treecall"},
		gen: func(d int) string {
			return fmt.Sprintf("fn r(n: int) { let a = n; if n > 0 { r(n - 1); } }\nfn main() { r(%d); println(1); }\n", d)
		},
		demand: func(d int, dim string) int { return d }},
	{name: "recursion-lambda", dims: []string{"call", "stack", "mem", "treecall"},
		gen: func(d int) string {
			return fmt.Sprintf("fn r(n: int) -> int { let a = n; let l = fn(k: int) -> int { r(k) }; if n == 0 { 0 } else { 1 + l(n - 1) } }\nfn main() { println(r(%d)); }\n", d)
		},
		demand: func(d int, dim string) int { return d }},
	{name: "expr-nesting", dims: []string{"stack"},
		gen: func(e int) string {
			// pending operands stay on the stack while a long computation runs in the innermost operand
			inner := "{ let i = 0; while i < 200 { i += 1; } i }"
			return "fn main() { println(" + nested(e, "1 + (", ")", inner) + "); }\n"
		},
		demand: func(e int, dim string) int { return e }},
	{name: "locals", dims: []string{"mem"},
		gen: func(k int) string {
			var b strings.Builder
			b.WriteString("fn f() -> int {\n")
			for i := 0; i < k; i++ {
				fmt.Fprintf(&b, "    let a%d = %d;\n", i, i)
			}
			b.WriteString("    let s = 0;\n")
			for i := 0; i < k; i++ {
				fmt.Fprintf(&b, "    s += a%d;\n", i)
			}
			b.WriteString("    s\n}\nfn main() { println(f()); }\n")
			return b.String()
		},
		demand: func(k int, dim string) int { return k }},
	{name: "nested-calls", dims: []string{"call", "stack", "treecall"},
		gen: func(e int) string {
			return "fn f(x: int) -> int { let i = 0; while i < 60 { i += 1; } x + 1 }\nfn main() { println(" + nested(e, "f(", ")", "0") + "); }\n"
		},
		demand: func(e int, dim string) int {
			if dim == "stack" {
				return 0
			}
			return 1
		}},
	{name: "nested-lists", dims: []string{"stack"},
		gen: func(e int) string {
			inner := "{ let i = 0; while i < 200 { i += 1; } i }"
			// [1, [1, [1, ... ]]] cannot be typed; use nested arithmetic inside list pushes instead
			return "fn main() { let l = [0]; l.push(" + nested(e, "2 * (", ")", inner) + "); println(l.len()); }\n"
		},
		demand: func(e int, dim string) int { return e }},
}

var sizes = []int{1, 4, 16, 48}
var scan = []uint{0, 1, 2, 3, 4, 5, 6, 8, 10, 13, 16, 20, 25, 32, 40, 50, 64, 80, 100, 128, 200, 400, 1000, 5000}

func TestTableThresholds(t *testing.T) {
	pk.SkipIfReplay(t)
	col := pk.NewCollector()
	var wg sync.WaitGroup
	sem := make(chan struct{}, 8)
	idx := 0
	for _, fam := range families {
		for _, size := range sizes {
			for _, dim := range fam.dims {
				idx++
				if !pk.Mine(idx) {
					continue
				}
				wg.Add(1)
				sem <- struct{}{}
				go func(fam family, size int, dim string) {
					defer wg.Done()
					defer func() { <-sem }()
					backend := "vm"
					if dim == "treecall" {
						backend = "tree"
					}
					text := fam.gen(size)
					name := fmt.Sprintf("%s(%d)", fam.name, size)
					// generous limits: must complete
					c := Case{Name: name, Text: text, Backend: backend, Dim: dim, Limits: limitsFor(dim, big), Expect: "ok", Why: "all limits are 100000"}
					pk.Eval()
					if f := checkLimits(c); f != nil {
						col.Report(c, f)
						return
					}
					firstOK := -1
					for _, l := range scan {
						c := Case{Name: name, Text: text, Backend: backend, Dim: dim, Limits: limitsFor(dim, l), Expect: "ok-or-limit"}
						pk.Eval()
						v := run(c)
						if v.f != nil {
							col.Report(c, v.f)
							return
						}
						if v.class == "ok" && firstOK < 0 {
							firstOK = int(l)
						}
						if v.class == "limit" && firstOK >= 0 {
							cc := c
							cc.Expect = "ok"
							cc.Why = fmt.Sprintf("the same program completed with the smaller limit %d (non-monotone)", firstOK)
							col.Report(cc, pk.Failf("limits", backend+" non-monotone:"+dim, "%s: completes with %s limit %d but is stopped with the larger limit %d\n%s", name, dim, firstOK, l, text))
							return
						}
						near := "far"
						if firstOK >= 0 && int(l) <= firstOK*2 {
							near = "near-threshold"
						}
						pk.Class(dim + ":" + v.class + ":" + near)
					}
					pk.Extra(fmt.Sprintf("threshold %s %s", name, dim), firstOK)
					pk.NonTrivial(name+dim, map[string]any{"family": name, "dimension": dim, "first_ok_limit": firstOK})
					// a demand far above the limit must be stopped
					if d := fam.demand(size, dim); d >= 16 {
						l := uint(d / 12)
						c := Case{Name: name, Text: text, Backend: backend, Dim: dim, Limits: limitsFor(dim, l), Expect: "limit",
							Why: fmt.Sprintf("the program needs at least %d %s entries, the limit is %d", d, dim, l)}
						pk.Eval()
						col.Report(c, checkLimits(c))
					}
				}(fam, size, dim)
			}
		}
	}
	wg.Wait()
	col.Done(t)
	pk.Exhaustive("families-x-sizes-x-dimensions")
}

// ---- leak freedom: loop bodies of every statement form must run indefinitely under fixed limits

type body struct {
	name, prelude, body string
	vmOnly              bool
}

var bodies = []body{
	{"int-expr-stmt", "", "i + 1;", false},
	{"null-literal-stmt", "", "null;", false},
	{"string-expr-stmt", "", "\"a\" + \"b\";", false},
	{"list-expr-stmt", "", "[i, i];", false},
	{"call-with-result", "fn g(x: int) -> int { x + 1 }", "g(i);", false},
	{"call-result-used", "fn g(x: int) -> int { x + 1 }", "acc = g(acc) % 1000;", false},
	{"call-null-fn", "fn g(x: int) { let y = x; }", "g(i);", false},
	{"call-null-fn-explicit-null", "fn g(x: int) -> null { null }", "g(i);", false},
	{"call-early-return", "fn g(x: int) -> int { if x > 0 { return 1; } 0 }", "acc = g(i);", false},
	{"call-return-from-loop", "fn g(x: int) -> int { for k in 0..5 { if k == 2 { return k; } } 0 }", "acc = g(i);", false},
	{"call-return-from-try", "fn g(x: int) -> int { try { return x; } catch e { return 0; } }", "acc = g(i) % 7;", false},
	// returns in front of / between / behind the locals of functions without parameters (the frame is reserved as a
	// whole at the call, wherever the function leaves)
	{"call-return-before-locals", "let gate = 1;\nfn g() -> int { if gate > 0 { return 1; } let a = 1; let b = 2; let c = [a, b]; a + b + c.len() }", "acc = g();", false},
	{"call-return-between-locals", "let gate = 1;\nfn g() -> int { let a = 1; if gate > 0 { return a; } let b = 2; let c = 3; a + b + c }", "acc = g();", false},
	{"call-null-return-before-locals", "let gate = 1;\nfn g() { if gate > 0 { return; } let a = 1; let b = a + 1; println(b); }", "g();", false},
	{"call-return-before-locals-in-branches", "let gate = 1;\nfn g() -> int { match gate { 1 => { return 7; } _ => {} } let a = 1; for k in 0..2 { let q = k; a += q; } a }", "acc = g();", false},
	{"lambda-return-before-locals", "", "let f = fn(x: int) -> int { if x > 0 { return 1; } let a = 1; let b = 2; a + b }; acc = f(i);", false},
	{"match-with-default", "", "acc = match i % 3 { 0 => 1, 1 => 2, _ => 3 };", false},
	{"match-stmt-no-default", "", "match i % 3 { 0 => { acc += 1; } 1 => { acc += 2; } }", false},
	{"match-default-taken", "", "acc = match 99 { 0 => 1, _ => 2 };", false},
	{"if-else-value", "", "acc = if i % 2 == 0 { 1 } else { 2 };", false},
	{"if-stmt", "", "if i % 2 == 0 { acc += 1; }", false},
	{"block-value", "", "acc = { let q = i; q + 1 };", false},
	{"try-no-throw", "", "try { acc += 1; } catch e { acc = 0; }", false},
	{"try-throw", "", "try { throw(\"x\"); } catch e { acc += 1; }", false},
	{"try-throw-from-callee", "fn t(x: int) -> int { throw(\"deep\"); x }", "try { acc = t(i); } catch e { acc += 1; }", false},
	{"try-throw-pending-operands", "", "try { acc = 1 + (2 + { throw(\"x\"); 3 }); } catch e { acc += 1; }", false},
	{"break-out-of-try", "", "loop { try { break; } catch e { acc = 0; } }", false},
	{"continue-out-of-try", "", "try { if i % 2 == 0 { continue; } acc += 1; } catch e { acc = 0; }", false},
	{"inner-for-range", "", "for k in 0..3 { acc += k; }", false},
	{"inner-for-list", "", "for k in [1, 2, 3] { acc += k; }", false},
	{"inner-for-break", "", "for k in 0..10 { if k == 2 { break; } acc += k; }", false},
	{"inner-while", "", "let w = 0; while w < 3 { w += 1; }", false},
	{"inner-loop-break", "", "let w = 0; loop { w += 1; if w > 2 { break; } }", false},
	{"member-call", "", "acc = \"abc\".len() + [1, 2].len();", false},
	{"list-push-pop", "", "let l = [1]; l.push(i); l.pop();", false},
	{"object-literal", "", "let o = new { a: i, b: \"x\" }; acc = o.a % 5;", false},
	{"option", "", "let o = ?i; acc = o.unwrap_or(0) % 5;", false},
	{"cast", "", "acc = (i as float) as int % 5;", false},
	{"lambda-call", "", "let f = fn(x: int) -> int { x + 1 }; acc = f(i) % 5;", false},
	// a call whose ARGUMENT does not complete (throws and is caught further out, or leaves the loop iteration)
	{"lambda-call-argument-throws", "fn odd(x: int) -> int { if x % 2 == 1 { throw(\"odd\"); } x }", "let f = fn(x: int) -> int { x + 1 }; try { acc = f(odd(i)) % 5; } catch e { acc += 1; }", false},
	{"fn-value-call-argument-throws", "fn odd(x: int) -> int { if x % 2 == 1 { throw(\"odd\"); } x }\nfn g(x: int) -> int { x + 1 }", "let f = g; try { acc = f(odd(i)) % 5; } catch e { acc += 1; }", false},
	{"named-call-argument-throws", "fn odd(x: int) -> int { if x % 2 == 1 { throw(\"odd\"); } x }\nfn g(x: int) -> int { x + 1 }", "try { acc = g(odd(i)) % 5; } catch e { acc += 1; }", false},
	{"builtin-call-argument-throws", "fn odd(x: int) -> int { if x % 2 == 1 { throw(\"odd\"); } x }", "try { if i < 0 { println(odd(i)); } acc = [1, 2].len() + odd(i); } catch e { acc += 1; }", false},
	{"member-call-argument-throws", "fn odd(x: int) -> int { if x % 2 == 1 { throw(\"odd\"); } x }", "let l = [1]; try { l.push(odd(i)); } catch e { acc += 1; }", false},
	{"second-argument-throws", "fn odd(x: int) -> int { if x % 2 == 1 { throw(\"odd\"); } x }\nfn g(a: int, b: int, c: int) -> int { a + b + c }", "try { acc = g(i, odd(i), 3) % 5; } catch e { acc += 1; }", false},
	{"lambda-call-argument-continues", "", "let f = fn(x: int) -> int { x + 1 }; acc = f({ if i % 2 == 0 { continue; } i }) % 5;", false},
	{"named-call-argument-continues", "fn g(x: int) -> int { x + 1 }", "acc = g({ if i % 2 == 0 { continue; } i }) % 5;", false},
	{"lambda-call-argument-breaks-inner-loop", "", "let f = fn(x: int) -> int { x + 1 }; for k in 0..2 { acc = f({ if k == 1 { break; } k }) % 5; }", false},
	{"nested-lambda-calls", "", "let f = fn(x: int) -> int { x + 1 }; let g = fn(x: int) -> int { x * 2 }; acc = f(g(f(i))) % 5;", false},
	{"lambda-throws-inside", "", "let f = fn(x: int) -> int { if x % 2 == 1 { throw(\"in\"); } x }; try { acc = f(i) % 5; } catch e { acc += 1; }", false},
	// exceptions raised by builtins (not by `throw`) and caught: nothing of the failed call may stay behind
	{"builtin-exception-parse-int", "", "try { acc = \"x\".parse_int(); } catch e { acc += 1; }", false},
	{"builtin-exception-unwrap-none", "", "let o: ?int = none; try { acc = o.unwrap(); } catch e { acc += 1; }", false},
	{"builtin-exception-parse-json", "", "try { let v = \"{bad\".parse_json() as int; acc = v; } catch e { acc += 1; }", false},
	{"builtin-exception-failed-cast", "", "try { acc = \"\\\"s\\\"\".parse_json() as int; } catch e { acc += 1; }", false},
	{"builtin-exception-failed-let-validation", "", "try { let v: int = \"\\\"s\\\"\".parse_json(); acc = v; } catch e { acc += 1; }", false},
	{"builtin-exception-in-callee", "fn p(s: str) -> int { s.parse_int() }", "try { acc = p(\"x\"); } catch e { acc += 1; }", false},
	{"builtin-exception-with-pending-operands", "", "try { acc = 1 + (2 + \"x\".parse_int()); } catch e { acc += 1; }", false},
	{"short-circuit", "", "if i > 1 && i % 2 == 0 || i == 0 { acc += 1; }", false},
	{"assign-compound", "", "acc += 1; acc -= 1; acc *= 1;", false},
	{"index-assign", "", "let l = [1, 2]; l[0] = i; l[1] += 1;", false},
	{"println", "", "if i < 0 { println(i); }", false},
	{"singleton-extraction", "$S = { n: int };\nfn g(s: $S, x: int) -> int { s.n + x }", "acc = g(i) % 5;", false},
	{"anyobj-member", "", "let o = new { ? }; o.set(\"k\", 1);", false},
	{"range-stmt", "", "0..i;", false},
	{"spawn", "fn w(x: int) { let y = x; }", "if i % 500 == 0 { spawn w(i); }", true},
	{"trigger", "import trigger minute from triggers;\nevent fn cb(elapsed: int) {}", "if i % 500 == 0 { trigger cb at minute(i); }", true},
}

func loopProgram(b body, n int) string {
	return fmt.Sprintf("%s\nfn main() {\n    let acc = 0;\n    let i = 0;\n    while i < %d {\n        i += 1;\n        %s\n    }\n    println(\"done\", i);\n}\n", b.prelude, n, b.body)
}

func TestTableLeaks(t *testing.T) {
	pk.SkipIfReplay(t)
	col := pk.NewCollector()
	var wg sync.WaitGroup
	sem := make(chan struct{}, 8)
	idx := 0
	for _, b := range bodies {
		for _, dim := range []string{"stack", "mem", "call", "treecall"} {
			idx++
			if !pk.Mine(idx) {
				continue
			}
			if dim == "treecall" && b.vmOnly {
				continue
			}
			wg.Add(1)
			sem <- struct{}{}
			go func(b body, dim string) {
				defer wg.Done()
				defer func() { <-sem }()
				backend := "vm"
				if dim == "treecall" {
					backend = "tree"
				}
				small := loopProgram(b, 10)
				// smallest limit with which 10 iterations complete (bisection; monotone by the threshold table)
				lo, hi := 0, 4096
				c := Case{Name: b.name + "(n=10)", Text: small, Backend: backend, Dim: dim, Limits: limitsFor(dim, uint(hi)), Expect: "ok", Why: "generous limit 4096"}
				pk.Eval()
				if f := checkLimits(c); f != nil {
					col.Report(c, f)
					return
				}
				for lo < hi {
					mid := (lo + hi) / 2
					cm := Case{Name: b.name + "(n=10)", Text: small, Backend: backend, Dim: dim, Limits: limitsFor(dim, uint(mid)), Expect: "ok-or-limit"}
					pk.Eval()
					v := run(cm)
					if v.f != nil {
						col.Report(cm, v.f)
						return
					}
					if v.class == "ok" {
						hi = mid
					} else {
						lo = mid + 1
					}
				}
				t10 := lo
				slack := t10/4 + 8
				for _, n := range []int{1000, pk.Scale(20000, 200000)} {
					text := loopProgram(b, n)
					cn := Case{Name: fmt.Sprintf("%s(n=%d)", b.name, n), Text: text, Backend: backend, Dim: dim, Limits: limitsFor(dim, uint(t10+slack)), Expect: "ok",
						Why: fmt.Sprintf("10 iterations need a %s limit of %d; %d iterations of the same body with limit %d must not need more (peak demand may not grow with the iteration count)", dim, t10, n, t10+slack)}
					pk.Eval()
					pk.NonTrivial(cn.Name+dim, map[string]any{"body": b.body, "dimension": dim, "iterations": n, "limit": t10 + slack, "threshold_n10": t10})
					if f := checkLimits(cn); f != nil {
						f.Sig = backend + " leak:" + dim + ":" + b.name
						col.Report(cn, f)
						return
					}
				}
				pk.Class("leak-free:" + dim)
			}(b, dim)
		}
	}
	wg.Wait()
	col.Done(t)
	pk.Exhaustive("loop-bodies-x-dimensions")
}
