package c17

import (
	"fmt"
	"sort"
	"strings"
	"testing"

	"pgregory.net/rapid"

	"verif/pk"
	"verif/px"
	"verif/sb"
)

func TestMain(m *testing.M) { pk.Main(m) }

// Case: a spawning program with the expected multiset of whole output lines.
type Case struct {
	Text       string
	Expect     []string // expected writes (each one whole line), as a multiset
	FailKind   string   // "" or the fatal kind one thread raises
	MustLines  []string // when a thread fails: lines that certainly precede the failure in that thread are not required; unused otherwise
	GoMaxProcs int
	Yield      bool
	Reps       int
	Threads    int
}

func request(c Case) *sb.Request {
	return &sb.Request{Op: "run", Modules: map[string]string{"main": c.Text}, Entry: "main", Backends: []string{"vm"},
		Limits: sb.DefaultLimits(), PollCap: 5_000_000, GoMaxProcs: c.GoMaxProcs, YieldInHost: c.Yield}
}

func multiset(xs []string) map[string]int {
	m := map[string]int{}
	for _, x := range xs {
		m[x]++
	}
	return m
}

func diffMultiset(want, got map[string]int) string {
	var out []string
	for k, n := range want {
		if got[k] != n {
			out = append(out, fmt.Sprintf("%q: expected %d, got %d", k, n, got[k]))
		}
	}
	for k, n := range got {
		if _, ok := want[k]; !ok {
			out = append(out, fmt.Sprintf("%q: unexpected (%d times)", k, n))
		}
	}
	sort.Strings(out)
	if len(out) > 12 {
		out = append(out[:12], "...")
	}
	return strings.Join(out, "\n  ")
}

// checkThreads runs the program Reps times under the race detector build of the worker.
func checkThreads(c Case) *pk.Failure {
	reps := c.Reps
	if reps < 1 {
		reps = 1
	}
	id := fmt.Sprintf("GOMAXPROCS=%d yield=%v threads=%d", c.GoMaxProcs, c.Yield, c.Threads)
	for rep := 0; rep < reps; rep++ {
		resp := px.Pool().Exec(request(c))
		if f := px.SandboxFailure("threads", resp); f != nil {
			f.Msg = id + "\n" + c.Text + "\n" + f.Msg
			return f
		}
		if resp.Inconclusive {
			pk.Inconclusive()
			continue
		}
		if !resp.Accepted {
			return pk.Failf("threads", "program-rejected", "rejected: %+v %+v\n%s", resp.SyntaxErrors, resp.ErrorDiags(), c.Text)
		}
		r := resp.Run("vm")
		if r.InitPanic != "" || r.CompileErr != "" {
			return pk.Failf("threads", "init", "%+v\n%s", r, c.Text)
		}
		pk.Extra("runs", 1)
		if c.FailKind == "" {
			if r.Outcome.Class != "ok" {
				return pk.Failf("threads", "outcome:"+r.Outcome.Class+":"+r.Outcome.Kind, "%s: expected normal completion, got %+v\n%s", id, r.Outcome, c.Text)
			}
			want, got := multiset(c.Expect), multiset(r.Writes)
			if d := diffMultiset(want, got); d != "" {
				sig := "writes-multiset"
				if len(r.Writes) < len(c.Expect) {
					sig = "writes-missing" // wait returned before all cores finished, or a thread did not run to completion
				}
				return pk.Failf("threads", sig, "%s (rep %d): output multiset differs (%d writes, expected %d)\n  %s\n%s", id, rep, len(r.Writes), len(c.Expect), d, c.Text)
			}
			if r.LateWrites > 0 {
				return pk.Failf("threads", "late-writes", "%s: %d writes arrived after the wait returned\n%s", id, r.LateWrites, c.Text)
			}
		} else {
			if r.Outcome.Class != "fatal" || r.Outcome.Kind != c.FailKind {
				return pk.Failf("threads", "fail-not-reported:"+r.Outcome.Class+":"+r.Outcome.Kind, "%s: a thread fails with %s but the wait reported %+v\n%s", id, c.FailKind, r.Outcome, c.Text)
			}
			// every write must still be one whole expected line, none duplicated
			want, got := multiset(c.Expect), multiset(r.Writes)
			for k, n := range got {
				if want[k] < n {
					return pk.Failf("threads", "writes-unexpected", "%s: write %q appeared %d times, expected at most %d\n%s", id, k, n, want[k], c.Text)
				}
			}
		}
		// the repository's own test host received the same writes: it holds each of them exactly once and whole
		// (compared only after a normal completion: after a failure cores may still be inside a write)
		if c.FailKind == "" {
			repo := multiset(strings.SplitAfter(strings.TrimSuffix(r.RepoOutput, "\n"), "\n"))
			mine := map[string]int{}
			for k, n := range multiset(r.Writes) {
				mine[strings.TrimSuffix(k, "\n")+"\n"] += n
			}
			fixed := map[string]int{}
			for k, n := range repo {
				fixed[strings.TrimSuffix(k, "\n")+"\n"] += n
			}
			if d := diffMultiset(mine, fixed); d != "" && r.RepoOutput != "" {
				return pk.Failf("threads", "host-output-differs", "%s (rep %d): the output collected by the repository's test host differs from the writes the cores made\n  %s\n%s", id, rep, d, c.Text)
			}
			pk.Extra("host-outputs-compared", 1)
		}
		// after a failure, cores that were still inside their quantum may have registered new cores
		// behind the wait's back; they are cancelled and must be gone as goroutines (checked below)
		if !r.Residue.LockFree || (c.FailKind == "" && r.Residue.Cores != 0) {
			return pk.Failf("threads", "cores-left", "%s: after Wait() cores=%d lockFree=%v\n%s", id, r.Residue.Cores, r.Residue.LockFree, c.Text)
		}
		if r.GoroutinesAfter > r.GoroutinesBefore {
			return pk.Failf("threads", "goroutines-left", "%s: %d goroutines before, %d after the wait returned\n%s", id, r.GoroutinesBefore, r.GoroutinesAfter, c.Text)
		}
	}
	return nil
}

func init() { pk.Reg("threads", checkThreads) }

func TestReplay(t *testing.T) { pk.ReplayTest(t) }

// genProgram draws a spawning program and its expected output multiset.
func genProgram(rt *rapid.T, allowFail bool) Case {
	n := rapid.IntRange(1, 8).Draw(rt, "threads")
	iters := rapid.IntRange(1, 12).Draw(rt, "iters")
	useCounter := rapid.Bool().Draw(rt, "counter")
	useList := rapid.Bool().Draw(rt, "sharedList")
	if pk.GateOpen("shared-heap") {
		if useList {
			pk.Gate("shared-heap")
		}
		useList = false
	}
	useRO := rapid.Bool().Draw(rt, "readOnlyGlobal")
	failing := -1
	if allowFail && rapid.IntRange(0, 2).Draw(rt, "failing") == 0 {
		failing = rapid.IntRange(1, n).Draw(rt, "failThread")
	}
	// one range value iterated by every thread: a global, and a local of main that is passed to every spawn
	useRange := rapid.Bool().Draw(rt, "sharedRange")
	rangeLen := rapid.IntRange(3, 40).Draw(rt, "rangeLen")
	// read-only values of every kind behind globals, read through MEMBERS, indices and fields by every thread (no
	// thread writes them, main does not touch them before the spawns: the threads' accesses are the first ones)
	useROValues := rapid.IntRange(0, 2).Draw(rt, "readOnlyValues") > 0
	var b strings.Builder
	b.WriteString("let cnt = 0;\nlet ro = 41;\nlet shared = [0];\n")
	b.WriteString("let rol = [3, 1, 2];\nlet ros = \"abc\";\nlet roo = new { a: 1, l: [4, 5], s: \"xy\" };\nlet rop = ?5;\nlet rof = 2.5;\nlet ron = [[1], [2, 3]];\n")
	fmt.Fprintf(&b, "let rg = 0..%d;\n", rangeLen)
	fmt.Fprintf(&b, "fn w(id: int, tag: str, n: int, rp: range, la: [int], oa: { v: int, l: [int] }) {\n    let k = 0;\n    while k < n {\n        k += 1;\n")
	if useCounter {
		b.WriteString("        cnt += 1;\n")
	}
	if useList {
		b.WriteString("        shared.push(id);\n")
	}
	if useRO {
		b.WriteString("        let r = ro + k;\n")
	}
	if failing > 0 {
		fmt.Fprintf(&b, "        if id == %d && k == %d { let z = 0; println(1 / z); }\n", failing, (iters+1)/2)
	}
	b.WriteString("        println(\"T\" + id.to_string() + \":\" + tag + \":\" + k.to_string());\n    }\n")
	// compound arguments: the thread runs with the values given at the spawn, the spawner goes on changing its own
	b.WriteString("    println(\"A\" + id.to_string() + \":\" + la.to_string() + \":\" + oa.v.to_string() + \":\" + oa.l.to_string());\n")
	if useROValues {
		b.WriteString("    let v1 = rol.len() + rol[0] + rol.last().unwrap() + roo.a + roo.l.len() + roo.l[1] + rop.unwrap() + ros.len() + roo.s.len() + ron[1].len() + ron.len();\n")
		b.WriteString("    let v2 = rol.contains(2) && ros.contains(\"b\") && rop.is_some() && rol == [3, 1, 2] && roo.l.contains(4);\n")
		b.WriteString("    println(\"V\" + id.to_string() + \":\" + v1.to_string() + \":\" + v2.to_string() + \":\" + rol.to_string() + ros.to_upper() + rof.to_string() + rol.join(\"-\") + ron.to_string());\n")
	}
	if useRange {
		b.WriteString("    let sg = 0;\n    let ng = 0;\n    for q in rg { sg += q; ng += 1; }\n    let sp = 0;\n    for q in rp { sp += q; }\n")
		b.WriteString("    println(\"R\" + id.to_string() + \":\" + sg.to_string() + \":\" + ng.to_string() + \":\" + sp.to_string());\n")
	}
	b.WriteString("}\n")
	b.WriteString("fn main() {\n")
	fmt.Fprintf(&b, "    let rl = 1..=%d;\n", rangeLen)
	var expect []string
	tags := []string{"a", "bb", "c-c", "dd dd", "e", "f", "g", "h"}
	mainFirst := rapid.Bool().Draw(rt, "mainFinishesFirst")
	for i := 1; i <= n; i++ {
		tag := tags[i-1]
		// the spawner changes its variable after the spawn: the thread must keep the values given at the spawn
		// ... whatever kind of place the argument was read from: a variable, an object field, a list element
		start := b.Len()
		fmt.Fprintf(&b, "    let la%d = [%d, %d];\n    let oa%d = new { v: %d, l: [%d] };\n", i, i, i+1, i, i*10, i)
		switch form := rapid.IntRange(0, 3).Draw(rt, "argForm"); form {
		case 0:
			fmt.Fprintf(&b, "    let t%d = %q;\n    let n%d = %d;\n    spawn w(%d, t%d, n%d, rl, LA, OA);\n    t%d = \"CHANGED\";\n    n%d = 0;\n", i, tag, i, iters, i, i, i, i, i)
		case 1:
			pk.Class("spawn-arg:field")
			fmt.Fprintf(&b, "    let o%d = new { t: %q, n: %d, id: %d };\n    spawn w(o%d.id, o%d.t, o%d.n, rl, LA, OA);\n    o%d.t = \"CHANGED\";\n    o%d.n = 0;\n    o%d.id += 100;\n", i, tag, iters, i, i, i, i, i, i, i)
		case 2:
			pk.Class("spawn-arg:element")
			fmt.Fprintf(&b, "    let lt%d = [%q, \"x\"];\n    let ln%d = [%d, %d];\n    spawn w(ln%d[1], lt%d[0], ln%d[-2], rl, LA, OA);\n    lt%d[0] = \"CHANGED\";\n    ln%d[0] = 0;\n    ln%d[1] = -1;\n", i, tag, i, iters, i, i, i, i, i, i, i)
		default:
			pk.Class("spawn-arg:nested")
			fmt.Fprintf(&b, "    let d%d = new { inner: new { t: %q }, ns: [%d] };\n    spawn w(%d, d%d.inner.t, d%d.ns[0], rl, LA, OA);\n    d%d.inner.t = \"CHANGED\";\n    d%d.ns[0] = 0;\n", i, tag, iters, i, i, i, i, i)
		}
		{
			// fill in the compound arguments of this spawn and change them right after it
			seg := strings.ReplaceAll(strings.ReplaceAll(b.String()[start:], "LA", fmt.Sprintf("la%d", i)), "OA", fmt.Sprintf("oa%d", i))
			head := b.String()[:start]
			b.Reset()
			b.WriteString(head + seg)
			fmt.Fprintf(&b, "    la%d.push(99);\n    la%d[0] = -1;\n    oa%d.v = -1;\n    oa%d.l.push(99);\n", i, i, i, i)
		}
		for k := 1; k <= iters; k++ {
			expect = append(expect, fmt.Sprintf("T%d:%s:%d\n", i, tag, k))
		}
		if failing != i {
			expect = append(expect, fmt.Sprintf("A%d:[%d, %d]:%d:[%d]\n", i, i, i+1, i*10, i))
		}
		if useROValues {
			pk.Class("read-only-values")
			expect = append(expect, fmt.Sprintf("V%d:30:true:[3, 1, 2]ABC2.53-1-2[[1], [2, 3]]\n", i))
		}
		if useRange {
			pk.Class("shared-range")
			expect = append(expect, fmt.Sprintf("R%d:%d:%d:%d\n", i, rangeLen*(rangeLen-1)/2, rangeLen, rangeLen*(rangeLen+1)/2))
		}
	}
	if failing > 0 && rapid.IntRange(0, 2).Draw(rt, "mainSleepsThroughTheFailure") == 0 {
		// the first fatal interrupt is reported AND the rest is cancelled: a main thread that is still asleep long after
		// a thread has failed is woken by the cancellation, it does not get to print
		pk.Class("main-asleep-while-a-thread-fails")
		b.WriteString("    time.sleep(4.0);\n    println(\"LATE-MAIN\");\n")
		mainFirst = true
	}
	if !mainFirst {
		fmt.Fprintf(&b, "    let m = 0;\n    while m < %d {\n        m += 1;\n", iters)
		if useCounter {
			b.WriteString("        cnt += 1;\n")
		}
		b.WriteString("        println(\"M:\" + m.to_string());\n    }\n")
		for k := 1; k <= iters; k++ {
			expect = append(expect, fmt.Sprintf("M:%d\n", k))
		}
	}
	b.WriteString("    println(\"main-end\");\n}\n")
	expect = append(expect, "main-end\n")
	c := Case{Text: b.String(), Expect: expect, Threads: n}
	if failing > 0 {
		c.FailKind = "ValueError"
	}
	return c
}

func TestThreads(t *testing.T) {
	pk.SkipIfReplay(t)
	rapid.Check(t, func(rt *rapid.T) {
		c := genProgram(rt, true)
		c.GoMaxProcs = []int{1, 2, 4, 16}[rapid.IntRange(0, 3).Draw(rt, "gomaxprocs")]
		c.Yield = rapid.Bool().Draw(rt, "yield")
		c.Reps = pk.Scale(2, 6)
		pk.EvalN(c.Reps)
		pk.Class(fmt.Sprintf("gomaxprocs:%d", c.GoMaxProcs))
		if c.FailKind != "" {
			pk.Class("failing-thread")
		}
		if c.Threads >= 2 {
			pk.NonTrivial(c.Text+fmt.Sprint(c.GoMaxProcs, c.Yield), map[string]any{"program": c.Text, "gomaxprocs": c.GoMaxProcs, "yield": c.Yield, "reps": c.Reps})
		}
		pk.Judge(rt, c, checkThreads(c))
	})
}
