// Package pairs builds the cross product of small, mostly ill-typed programs shared by C05 (the analyzer
// returns) and C08 (every reported position is valid).
package pairs

import (
	"fmt"
	"strings"
)

// (vii) Small ill-typed programs by cross product. Random text rarely reaches the analyzer's error
// paths with an *almost* well-typed program; these tables put every expression kind of a pool
// against every type of a pool in every position where the analyzer compares or combines types
// (argument, annotated let, result, assignment, cast, comparison, list element, branches, lambda
// argument, global, object field, option default, spawn argument, imported function), and every
// pair of pool expressions under every infix / assignment operator, index, call, member, loop
// header and match. Most of these programs are ill-typed on purpose: the only claim is that
// analysis returns.

const pairPrelude = `type O = { a: int, b: str };
type A = [int];
fn f0() {}
fn f1(x: int) -> int { x }
fn f2(x: int, y: str) -> bool { true }
fn fh(f: fn(x: int) -> int) -> int { f(1) }
`

var pairTypes = []string{
	"int", "float", "bool", "str", "null", "range", "any", "[int]", "[[str]]", "[any]", "?int", "??int", "?[int]",
	"{ a: int }", "{ a: int, b: str }", "{ ? }", "O", "A", "fn() -> null", "fn(x: int) -> null", "fn(x: int) -> int",
	"fn(x: int, y: str) -> bool", "fn(f: fn(x: int) -> int) -> int", "fn(x: any) -> any", "nosuch", "?nosuch", "[fn() -> int]",
}

var pairExprs = []string{
	"1", "1.5", "true", `"s"`, "null", "none", "?1", "?none", "0..2", "[]", "[1]", "[[1]]", `["a"]`, "[none]", "[[]]",
	"new { a: 1 }", `new { a: 1, b: "s" }`, `new { b: "s" }`, "new { ? }", "new { }",
	"println", "print", "debug", "fmt", "assert", "throw", "exit", "time", "time.now", "time.sleep", "assert_eq",
	"f0", "f1", "f2", "fh", "f1(1)", "f0()", "fh(f1)", "main",
	"fn() {}", "fn(x: int) -> int { x }", "fn(x: int) {}", "fn(y: int) -> int { y }", `fn(x: str) -> int { 1 }`, "fn(x: any) -> any { x }",
	"{ 1 }", "{ }", "if true { 1 } else { 2 }", "if true { 1 }", "match 1 { 1 => 2, _ => 3 }", "match 1 { 1 => 2 }", "try { 1 } catch e { 2 }", "try { throw(1) } catch e { e }",
	"nosuch", "O", `"s" as any`, "1 as float", "(1)", "-1", "!true", "spawn f0()", "spawn f1(1)", "[println]", "?println", "new { a: println }",
	`"s".len`, `"s".len()`, "[1].push", "(0..2).start", "none.unwrap()", "$S", "$S.n",
}

var pairContexts = []struct{ name, tmpl string }{
	{"argument", "fn g(p: %T) {}\nfn main() { g(%E); }\n"},
	{"let", "fn main() { let v: %T = %E; }\n"},
	{"result", "fn g() -> %T { %E }\nfn main() { g(); }\n"},
	{"return", "fn g(c: bool) -> %T { if c { return %E; } %E }\nfn main() { g(true); }\n"},
	{"assign", "fn g(p: %T) { p = %E; }\nfn main() {}\n"},
	{"cast", "fn main() { let v = %E as %T; }\n"},
	{"compare", "fn g(p: %T) -> bool { p == %E }\nfn main() {}\n"},
	{"list-element", "fn g(p: %T) { let l = [p, %E]; }\nfn main() {}\n"},
	{"branches", "fn g(p: %T, c: bool) { let v = if c { p } else { %E }; }\nfn main() {}\n"},
	{"match-arms", "fn g(p: %T, c: int) { let v = match c { 1 => p, _ => %E }; }\nfn main() {}\n"},
	{"try-branches", "fn g(p: %T) { let v = try { p } catch e { %E }; }\nfn main() {}\n"},
	{"lambda-argument", "fn main() { let l = fn(p: %T) {}; l(%E); }\n"},
	{"global", "let G: %T = %E;\nfn main() {}\n"},
	{"object-field", "fn main() { let o: { k: %T } = new { k: %E }; }\n"},
	{"option-default", "fn g(p: ?%T) { p.unwrap_or(%E); }\nfn main() {}\n"},
	{"list-push", "fn g(p: [%T]) { p.push(%E); }\nfn main() {}\n"},
	{"spawn-argument", "fn g(p: %T) {}\nfn main() { spawn g(%E); }\n"},
	{"higher-order", "fn g(h: fn(p: %T) -> null) { h(%E); }\nfn main() {}\n"},
	{"singleton-field", "$R = { k: %T };\nfn g(r: $R) { r.k = %E; }\nfn main() { g(); }\n"},
	{"trigger-argument", "import trigger minute from triggers;\nevent fn cb(e: int) {}\nfn main() { let p: %T = %E; trigger cb at minute(p); }\n"},
}

var pairInfix = []string{"+", "-", "*", "/", "%", "**", "<<", ">>", "|", "&", "^", "||", "&&", "==", "!=", "<", "<=", ">", ">="}
var pairAssign = []string{"=", "+=", "-=", "*=", "/=", "**=", "%=", "<<=", ">>=", "|=", "&=", "^="}

// a smaller pool for the quadratic tables
var pairSmall = []string{
	"1", "1.5", "true", `"s"`, "null", "none", "?1", "0..2", "[]", "[1]", "new { a: 1 }", "new { ? }", "println", "fmt", "f0", "f1", "f0()",
	"fn(x: int) -> int { x }", "{ }", "if true { 1 }", "nosuch", "O", "spawn f0()", "time", "$S", `"s" as any`, "throw(1)",
}

// Values of every kind in every wrapping (option, list, object field, nested) for the equality table: `==` / `!=`
// is allowed on every type, `contains` takes the list's element type, `match` compares with literals. Equality
// recurses through the wrappers; each must hand equal-typed payloads of EVERY kind to the payload's own comparison.
var pairEq = []string{
	"1", "2", "1.5", "true", `"s"`, `"t"`, "null", "none", "?1", "?2", "??1", "?none", `?"s"`, "?1.5", "?true", "0..2", "?(0..2)", "1..=2",
	"[]", "[1]", "[1, 2]", "[[1]]", "[?1]", "[none]", `["s"]`, "?[1]", "?[[1]]", "[0..2]",
	"new { a: 1 }", "new { a: 2 }", "?new { a: 1 }", "?new { a: 2 }", "??new { a: 1 }", "[new { a: 1 }]", "[?new { a: 1 }]", "new { o: ?new { a: 1 } }", "new { o: ?1 }", "new { l: [1] }",
	"new { ? }", "?new { ? }", "[new { ? }]", "new { q: new { ? } }",
	"println", "?println", "[println]", "f0", "f1", "?f1", "[f1]", "fn(x: int) -> int { x }", "?fn(x: int) -> int { x }", `"s".len`, `?"s".len`, "[1].push", "?[1].push",
	`"s" as any`, "?new { a: 1, b: ?new { c: [?1] } }",
}

func pairProgram(body string) string {
	return "$S = { n: int };\n" + pairPrelude + body
}

var memberNames = []string{"a", "b", "len", "push", "pop", "to_string", "unwrap", "is_some", "keys", "sleep", "now", "x", "_", "get", "dim", "set_temp", "status", "year", "concat", "join", "contains", "split", "nosuch"}

// Program is one table entry.
type Program struct {
	Kind string
	Text string
}

// Programs enumerates the whole table (deterministic order).
func Programs() []Program {
	var out []Program
	add := func(kind, text string) { out = append(out, Program{Kind: kind, Text: pairProgram(text)}) }
	for _, c := range pairContexts {
		for _, ty := range pairTypes {
			for _, e := range pairExprs {
				add("pairs:"+c.name, strings.ReplaceAll(strings.ReplaceAll(c.tmpl, "%T", ty), "%E", e))
			}
		}
	}
	for _, a := range pairSmall {
		for _, b := range pairSmall {
			for _, op := range pairInfix {
				add("pairs:infix", fmt.Sprintf("fn main() { let v = %s %s %s; }\n", a, op, b))
			}
			for _, op := range pairAssign {
				add("pairs:assign-op", fmt.Sprintf("fn main() { let v = %s; v %s %s; }\n", a, op, b))
			}
			for _, op := range pairInfix {
				add("pairs:infix-print", fmt.Sprintf("fn main() { println(%s %s %s); }\n", a, op, b))
			}
			for _, op := range pairAssign {
				add("pairs:assign-op-print", fmt.Sprintf("fn main() { let v = %s; v %s %s; println(v); }\n", a, op, b))
			}
			add("pairs:index-print", fmt.Sprintf("fn main() { println((%s)[%s]); }\n", a, b))
			add("pairs:index", fmt.Sprintf("fn main() { let v = (%s)[%s]; }\n", a, b))
			add("pairs:index-assign", fmt.Sprintf("fn main() { let v = %s; v[%s] = %s; }\n", a, b, a))
			add("pairs:call", fmt.Sprintf("fn main() { let v = (%s)(%s); }\n", a, b))
			add("pairs:call2", fmt.Sprintf("fn main() { (%s)(%s, %s); }\n", a, b, a))
			add("pairs:range", fmt.Sprintf("fn main() { for i in %s..%s {} }\n", a, b))
			add("pairs:match", fmt.Sprintf("fn main() { let v = match %s { 1 => %s, \"s\" => 1, true => 2, none => 3, _ => %s }; }\n", a, b, a))
		}
	}
	for i, a := range pairEq {
		for j, b := range pairEq {
			add("pairs:equality", fmt.Sprintf("fn main() { println(%s == %s, %s != %s); }\n", a, b, a, b))
			if i <= j {
				add("pairs:equality-variables", fmt.Sprintf("fn main() { let x = %s; let y = %s; println(x == y, y != x, x == x); }\n", a, b))
				add("pairs:equality-contains", fmt.Sprintf("fn main() { let l = [%s]; println(l.contains(%s), l == [%s]); }\n", a, b, b))
			}
		}
		add("pairs:equality-match", fmt.Sprintf("fn main() { let x = %s; println(match x { %s => 1, _ => 2 }); }\n", a, a))
	}
	for _, e := range pairExprs {
		for _, m := range memberNames {
			add("pairs:member", fmt.Sprintf("fn main() { let v = (%s).%s; }\n", e, m))
			add("pairs:member-call", fmt.Sprintf("fn main() { (%s).%s(%s); }\n", e, m, e))
		}
		for _, op := range []string{"-", "!", "?"} {
			add("pairs:prefix", fmt.Sprintf("fn main() { let v = %s%s; }\n", op, e))
		}
		add("pairs:for", fmt.Sprintf("fn main() { for i in %s { println(i); } }\n", e))
		add("pairs:while", fmt.Sprintf("fn main() { while %s { break; } }\n", e))
		add("pairs:if", fmt.Sprintf("fn main() { if %s { } }\n", e))
		add("pairs:throw", fmt.Sprintf("fn main() { throw(%s); }\n", e))
		add("pairs:statement", fmt.Sprintf("fn main() { %s; }\n", e))
		add("pairs:arrow", fmt.Sprintf("fn main() { let v = (%s)->k; let w = (%s)~>k; }\n", e, e))
		add("pairs:global-untyped", fmt.Sprintf("let G = %s;\nfn main() { println(G); }\n", e))
		add("pairs:spawn", fmt.Sprintf("fn main() { let h = spawn %s; }\n", e))
		add("pairs:trigger", fmt.Sprintf("import trigger minute from triggers;\nfn main() { trigger %s at minute(%s); }\n", e, e))
		add("pairs:trigger-in-branch", fmt.Sprintf("import trigger minute from triggers;\nfn main() { print(if true { 2 } else if true { trigger %s at minute(1); }); let w = { trigger %s at minute(2); }; }\n", e, e))
		add("pairs:annotation", fmt.Sprintf("import trigger minute from triggers;\n#[trigger at minute(%s)]\nevent fn cb(e: int) {}\nfn main() {}\n", e))
		add("pairs:impl", fmt.Sprintf("import templ FooFeature from templates;\n$D = { n: int };\nimpl FooFeature with { light } for $D {\n    fn dim(self: $D, percent: int) -> bool { %s }\n}\nfn main() {}\n", e))
		// a place whose type is (or contains) `any`, assigned to NESTED inside the positions where the analyzer
		// relaxes its implicit-any rule: a let initialiser, a cast operand, a member base, a closure body
		for _, place := range []struct{ decl, lhs string }{
			{"let x: any = 1;", "x"}, {"let l: [any] = [];", "l[0]"}, {"let o: { a: any } = new { a: 1 };", "o.a"}, {"let q: ?any = none;", "q"},
		} {
			for _, op := range []string{"=", "+="} {
				add("pairs:any-place-in-let", fmt.Sprintf("fn main() { %s let y = { %s %s %s; 1 }; }\n", place.decl, place.lhs, op, e))
				add("pairs:any-place-in-closure", fmt.Sprintf("fn main() { %s let f = fn() { %s %s %s; }; }\n", place.decl, place.lhs, op, e))
				add("pairs:any-place-in-cast", fmt.Sprintf("fn main() { %s let y = ({ %s %s %s; 1 }) as int; }\n", place.decl, place.lhs, op, e))
				add("pairs:any-place-in-member-base", fmt.Sprintf("fn main() { %s let y = [{ %s %s %s; 1 }].len(); }\n", place.decl, place.lhs, op, e))
			}
		}
	}
	return out
}

// Sizes reports the table dimensions for evidence.
func Sizes() (contexts, types, exprs, small int) {
	return len(pairContexts), len(pairTypes), len(pairExprs), len(pairSmall)
}
