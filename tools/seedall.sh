#!/bin/bash
# tools/seedall.sh [tier] [seeded ids...] — run every stored seeded change against the check of its property.
# Meant for `vp run --with-repo -- tools/seedall.sh quick`: works on the repository snapshot ($VP_RUN_REPO), never on /repo.
cd "$(dirname "$(readlink -f "$0")")/.." || exit 2
repo=${VP_RUN_REPO:-}
[ -z "$repo" ] && { echo "needs VP_RUN_REPO (use vp run --with-repo)"; exit 2; }
sed -i "s#=> /repo#=> $repo#" go.mod
tier=${1:-quick}; shift
ids="$@"; [ -z "$ids" ] && ids=$(ls seeded)
for s in $ids; do
  prop=$(python3 -c "import json;print(json.load(open('seeded/$s/meta.json'))['breaks_property'])")
  git -C $repo checkout -q -- . ; git -C $repo clean -fdq -- homescript cmd
  if ! git -C $repo apply --3way $PWD/seeded/$s/patch.diff 2>/dev/null && ! git -C $repo apply $PWD/seeded/$s/patch.diff 2>/dev/null; then echo "$s $prop PATCH-DOES-NOT-APPLY"; git -C $repo checkout -q -- .; git -C $repo reset -q; continue; fi
  git -C $repo reset -q
  out=$(./check $prop --tier $tier 2>&1); rc=$?
  case $rc in 0) r=MISSED;; 1) r=DETECTED;; *) r="BROKEN rc=$rc";; esac
  echo "$s $prop $r $(echo "$out" | grep 'tier=' | tail -1)"
  git -C $repo checkout -q -- . ; git -C $repo clean -fdq -- homescript cmd
done
