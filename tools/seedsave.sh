#!/bin/bash
# tools/seedsave.sh <worktree> <seed-id> <prop> <demo-file-relative> <go-test-args-for-demo> <checks-results-text>
# Verifies a seeded change independently (build, suite green, demo fails with / passes without the change),
# then stores it under /verif/seeded/<seed-id>/ and removes the worktree.
wt=$1; sid=$2; prop=$3; demo=$4; demoargs=$5; results=$6
export GOFLAGS=-mod=mod GOPROXY=off GOSUMDB=off GOTOOLCHAIN=local
cd $wt || exit 2
cp patch.diff /tmp/seed-$sid.patch
demodir=$(dirname $demo)
# state A: patch applied
git checkout -q -- . 2>/dev/null; git apply /tmp/seed-$sid.patch || { echo "patch does not apply in its own worktree"; exit 2; }
go build ./... || { echo "BUILD FAILS with patch"; exit 2; }
mv $demo /tmp/seed-$sid-demo.go
suite=$(go test -vet=off -count=1 ./... 2>&1 | grep -v "no test files" | grep -v "^ok" | head -5)
mv /tmp/seed-$sid-demo.go $demo
[ -n "$suite" ] && { echo "SUITE NOT GREEN with patch: $suite"; exit 2; }
with=$(go test -vet=off -count=1 $demoargs 2>&1 | tail -3); echo "$with" | grep -q "^ok" && { echo "DEMO PASSES with patch (should fail)"; exit 2; }
# state B: patch removed
git apply -R /tmp/seed-$sid.patch
without=$(go test -vet=off -count=1 $demoargs 2>&1 | tail -3); echo "$without" | grep -q "^ok" || { echo "DEMO FAILS without patch: $without"; exit 2; }
mkdir -p /verif/seeded/$sid
cp /tmp/seed-$sid.patch /verif/seeded/$sid/patch.diff
cp $demo /verif/seeded/$sid/$(basename $demo)
[ -f meta.txt ] && cp meta.txt /verif/seeded/$sid/meta.txt
python3 - "$sid" "$prop" "$demo" "$demoargs" "$results" <<'PY'
import json,sys,os
sid,prop,demo,demoargs,results=sys.argv[1:6]
needs=open('/verif/seeded/%s/meta.txt'%sid).read() if os.path.exists('/verif/seeded/%s/meta.txt'%sid) else ""
json.dump({"id":sid,"breaks_property":prop,"origin":"written by a fresh sub-agent that saw only the property text and a scratch worktree of /repo",
 "needs_to_manifest":needs[:1500],
 "demonstration":{"file":os.path.basename(demo),"placed_at":demo,"command":"go test -vet=off -count=1 "+demoargs},
 "verified_by_me":["with the patch: go build ./... ok; existing suite green (demonstration file moved aside); demonstration fails","without the patch: demonstration passes"],
 "checks_run":results},open('/verif/seeded/%s/meta.json'%sid,'w'),indent=1)
PY
cd /verif && git -C /repo worktree remove --force $wt && echo "SAVED $sid"
