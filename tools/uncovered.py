#!/usr/bin/env python3
"""tools/uncovered.py <profile.txt> <path-substring> — print uncovered source ranges (merged) with the code"""
import sys,re,collections
prof,sub=sys.argv[1],sys.argv[2]
cov=collections.defaultdict(dict)
for l in open(prof):
    m=re.match(r'(.+):(\d+)\.(\d+),(\d+)\.(\d+) (\d+) (\d+)',l)
    if not m: continue
    f=m.group(1)
    if sub not in f: continue
    key=(int(m.group(2)),int(m.group(4)))
    cov[f][key]=cov[f].get(key,0)+int(m.group(7))
for f in sorted(cov):
    path='/repo/'+f.split('/v3/')[1]
    try: src=open(path).read().split('\n')
    except: continue
    unc=sorted(k for k,v in cov[f].items() if v==0)
    tot=len(cov[f]); print('=====',f,'uncovered blocks %d/%d'%(len(unc),tot))
    for a,b in unc:
        for i in range(a,min(b,a+3)+1):
            print('%5d  %s'%(i,src[i-1][:140]))
        print('      ...' if b>a+3 else '')
