import json,sys
# usage: mk.py prop sub out note file...
prop,sub,out,note=sys.argv[1:5]
mods={}
entry=None
for f in sys.argv[5:]:
    n=f.split('/')[-1].replace('.hms','')
    mods[n]=open(f).read()
    entry=entry or n
case={"Modules":mods,"Entry":entry,"Limits":{"Call":500,"Stack":5000,"Mem":50000,"TreeCall":500},"Note":note}
json.dump({"Property":prop,"Sub":sub,"Sig":"","Msg":note,"Case":case},open(out,'w'),indent=1,ensure_ascii=False)
