#!/bin/bash
# tools/try.sh <pkg> <TestName> <checks> <seed> [env...]  — development helper: run one rapid test, print only the failure
export GOFLAGS=-mod=mod GOPROXY=off GOSUMDB=off GOTOOLCHAIN=local
cd /verif
pkg=$1; tn=$2; n=$3; seed=$4; shift 4
P=$(echo $pkg | tr a-z A-Z)
go build -o bin/worker ./cmd/worker || exit 2
env VERIF_PROP=$P VERIF_OUT=/verif/out/dev "$@" go test ./props/$pkg/ -run "^$tn\$" -rapid.checks=$n -rapid.seed=$seed -rapid.nofailfile -timeout 600s 2>&1 | grep -v '\[rapid\] draw' | tail -${TAIL:-80}
