#!/bin/bash
# tools/seedcheck.sh <worktree-or-seeded-dir> <PROP-ID> [tier] — apply a seeded change to /repo, run the check, undo.
# Prints "DETECTED" (exit 1 + VIOLATION), "MISSED" (exit 0) or "BROKEN" (exit 2).
src=$1; id=$2; tier=${3:-quick}
cd /verif || exit 2
[ -n "$(git -C /repo status --porcelain)" ] && { echo "REFUSING: /repo has uncommitted changes"; exit 2; }
if ! git -C /repo apply --3way "$src/patch.diff" 2>/tmp/seedapply.err; then
  if ! git -C /repo apply "$src/patch.diff" 2>>/tmp/seedapply.err; then echo "PATCH-DOES-NOT-APPLY"; cat /tmp/seedapply.err | head -5; git -C /repo checkout -- . ; git -C /repo reset -q; exit 2; fi
fi
git -C /repo reset -q
out=$(./check $id --tier $tier 2>&1); rc=$?
git -C /repo checkout -- . ; git -C /repo clean -fdq -- homescript cmd 2>/dev/null
echo "$out" | grep -v "^KNOWN-FINDING" | tail -6 | cut -c1-220
case $rc in 0) echo "RESULT $id MISSED";; 1) echo "RESULT $id DETECTED";; *) echo "RESULT $id BROKEN rc=$rc";; esac
exit 0
